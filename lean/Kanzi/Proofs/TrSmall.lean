/-
Proofs for the `trsmall` slice (C13 small transforms, C01_sequence).  Property statements live in
`Kanzi/Properties/C13_small.lean`.
-/
import Kanzi.Model.TrSmall

namespace Kanzi.TrSmall

/-! ## Array helpers -/

theorem size_appendList (a : Array Nat) (l : List Nat) : (a ++ l).size = a.size + l.length := by
  rw [← Array.length_toList, Array.toList_appendList]; simp

theorem appendList_nil (a : Array Nat) : a ++ ([] : List Nat) = a := by
  apply Array.ext'; simp

theorem appendList_append (a : Array Nat) (l m : List Nat) : (a ++ l) ++ m = a ++ (l ++ m) := by
  apply Array.ext'; simp

theorem push_eq_appendList (a : Array Nat) (x : Nat) : a.push x = a ++ [x] := by
  apply Array.ext'; simp

/-! ## NullTransform -/

theorem null_roundtrip (b : List Nat) (n m : Nat)
    (hn : nullMaxEncodedLen b.length ≤ n) (hm : b.length ≤ m) :
    nullForward b n = .ok b ∧ nullInverse b m = .ok b := by
  unfold nullForward nullInverse nullCopy nullMaxEncodedLen at *
  cases b with
  | nil => simp
  | cons x xs =>
    simp only [List.length_cons] at *
    have h1 : ¬ (n < xs.length + 1) := by omega
    have h2 : ¬ (xs.length + 1 = 0 ∨ n = 0) := by omega
    have h3 : ¬ (xs.length + 1 > n) := by omega
    have h4 : ¬ (xs.length + 1 = 0 ∨ m = 0) := by omega
    have h5 : ¬ (xs.length + 1 > m) := by omega
    simp [h1, h5]
    omega

/-! ## ZRLT -/

theorem bitBytes_length (v k : Nat) : (bitBytes v k).length = k := by
  induction k with
  | zero => rfl
  | succ k ih => simp [bitBytes, ih]

theorem bit_le_one (v k : Nat) : (v >>> k) &&& 1 ≤ 1 := by
  rw [Nat.and_one_is_mod]; omega

theorem bit_eq (v k : Nat) : (v >>> k) &&& 1 = v / 2 ^ k % 2 := by
  rw [Nat.and_one_is_mod, Nat.shiftRight_eq_div_pow]

/-- the side condition that makes Go's unsigned `dstEnd-uint(log2)` safe -/
theorem zrlt_log2_le (run n : Nat) (h : run ≤ n) : zrltLog2 (run + 1) ≤ n := by
  unfold zrltLog2
  have h1 : (run + 1) % 2 ^ 32 ≤ run + 1 := Nat.mod_le _ _
  by_cases h0 : (run + 1) % 2 ^ 32 = 0
  · rw [h0]; exact Nat.le_trans (by decide : Nat.log2 0 ≤ 0) (Nat.zero_le _)
  · have h2 := Nat.log2_self_le h0
    have h3 : (run + 1) % 2 ^ 32 < 2 ^ n.succ := by
      have : n + 1 < 2 ^ (n + 1) := Nat.lt_two_pow_self
      omega
    have := (Nat.log2_lt h0).2 h3
    omega

/-- inside a run-length token the inverse only accumulates bits -/
theorem zrltInvGo_bits (dstEnd v : Nat) (rest : List Nat) (out : Array Nat) :
    ∀ (k rl : Nat), rl * 2 ^ k + v % 2 ^ k < 2 ^ 64 →
      zrltInvGo dstEnd (bitBytes v k ++ rest) (some rl) out
        = zrltInvGo dstEnd rest (some (rl * 2 ^ k + v % 2 ^ k)) out := by
  intro k
  induction k with
  | zero => intro rl _; simp [bitBytes, Nat.mod_one]
  | succ k ih =>
    intro rl h
    have hb := bit_le_one v k
    have hmod : v % 2 ^ (k + 1) = v % 2 ^ k + 2 ^ k * (v / 2 ^ k % 2) := Nat.mod_pow_succ
    have hpow : 2 ^ (k + 1) = 2 * 2 ^ k := by rw [Nat.pow_succ]; omega
    have hpos : 0 < 2 ^ k := Nat.two_pow_pos k
    have e : (rl + (rl + ((v >>> k) &&& 1))) * 2 ^ k + v % 2 ^ k
        = rl * 2 ^ (k + 1) + v % 2 ^ (k + 1) := by
      rw [hmod, hpow, bit_eq]
      generalize v / 2 ^ k % 2 = b
      generalize v % 2 ^ k = m
      generalize 2 ^ k = p
      rw [Nat.add_mul, Nat.add_mul, Nat.mul_comm b p, Nat.mul_comm 2 p, ← Nat.mul_assoc]
      omega
    have hsmall : rl + (rl + ((v >>> k) &&& 1)) < 2 ^ 64 := by
      have : (rl + (rl + ((v >>> k) &&& 1))) * 1 ≤ (rl + (rl + ((v >>> k) &&& 1))) * 2 ^ k :=
        Nat.mul_le_mul_left _ hpos
      omega
    simp only [bitBytes, List.cons_append]
    rw [zrltInvGo]
    simp only [hb, if_true]
    rw [show wrap64 (rl + (rl + ((v >>> k) &&& 1))) = rl + (rl + ((v >>> k) &&& 1)) from
      Nat.mod_eq_of_lt hsmall]
    rw [ih _ (by rw [e]; exact h), e]

/-- value of a complete run-length token -/
theorem token_value (run : Nat) (h : run + 1 < 2 ^ 32) :
    1 * 2 ^ zrltLog2 (run + 1) + (run + 1) % 2 ^ zrltLog2 (run + 1) = run + 1 := by
  unfold zrltLog2
  rw [Nat.mod_eq_of_lt h]
  have h0 : run + 1 ≠ 0 := by omega
  have h1 := Nat.log2_self_le h0
  have h2 : run + 1 < 2 ^ ((run + 1).log2 + 1) := Nat.lt_log2_self
  rw [Nat.pow_succ] at h2
  have : (run + 1) % 2 ^ (run + 1).log2 = run + 1 - 2 ^ (run + 1).log2 := by
    rw [Nat.mod_eq_sub_mod h1]
    exact Nat.mod_eq_of_lt (by omega)
  omega

theorem zrltLog2_pos (run : Nat) (h0 : 0 < run) (h : run + 1 < 2 ^ 32) : 0 < zrltLog2 (run + 1) := by
  unfold zrltLog2
  rw [Nat.mod_eq_of_lt h]
  have : ¬ (run + 1).log2 < 1 := by
    rw [Nat.log2_lt (by omega)]; omega
  omega

/-- the run-length token emitted by the forward transform for `run` zeros -/
def tokBits (run : Nat) : List Nat :=
  if run = 0 then [] else bitBytes (run + 1) (zrltLog2 (run + 1))

/-- the encoding of a non-zero byte -/
def encByte (x : Nat) : List Nat := if x ≥ 0xFE then [0xFF, x - 0xFE] else [x + 1]

/-- a whole token read from outside a run: the state becomes `some (run+1)` -/
theorem zrltInvGo_token (dstEnd run : Nat) (rest : List Nat) (out : Array Nat)
    (h0 : 0 < run) (h : run + 1 < 2 ^ 32) (hout : out.size < dstEnd) :
    zrltInvGo dstEnd (tokBits run ++ rest) none out = zrltInvGo dstEnd rest (some (run + 1)) out := by
  have hk := zrltLog2_pos run h0 h
  have hv := token_value run h
  unfold tokBits
  rw [if_neg (by omega)]
  obtain ⟨k, hk'⟩ : ∃ k, zrltLog2 (run + 1) = k + 1 := ⟨zrltLog2 (run + 1) - 1, by omega⟩
  rw [hk'] at hv ⊢
  have hb := bit_le_one (run + 1) k
  -- first bit: from `none`, behaves like state `some 1`
  have step1 : zrltInvGo dstEnd (bitBytes (run + 1) (k + 1) ++ rest) none out
      = zrltInvGo dstEnd (bitBytes (run + 1) (k + 1) ++ rest) (some 1) out := by
    simp only [bitBytes, List.cons_append]
    rw [zrltInvGo, zrltInvGo]
    simp only [hb, if_true]
    rw [if_neg (by omega)]
  rw [step1, zrltInvGo_bits _ _ _ _ _ _ (by rw [hv]; omega), hv]

/-- a literal read after the pending state has been flushed -/
theorem zrltInvGo_literal (dstEnd x : Nat) (rest : List Nat) (st : Option Nat) (out o1 : Array Nat)
    (hx0 : x ≠ 0) (hx : x < 256) (hf : zrltInvFlush dstEnd st out = .ok o1) :
    zrltInvGo dstEnd (encByte x ++ rest) st out = zrltInvGo dstEnd rest none (o1.push x) := by
  unfold encByte
  by_cases hge : x ≥ 0xFE
  · rw [if_pos hge]
    simp only [List.cons_append, List.nil_append]
    rw [zrltInvGo.eq_def]
    simp only []
    rw [if_neg (by omega), hf]
    simp only [if_true]
    have : (254 + (x - 254)) % 256 = x := by omega
    rw [this]
  · rw [if_neg hge]
    simp only [List.cons_append, List.nil_append]
    rw [zrltInvGo.eq_def]
    simp only []
    rw [if_neg (by omega), hf]
    simp only []
    rw [if_neg (by omega)]
    have : x + 1 - 1 = x := by omega
    rw [this]

theorem wrap64_pred (run : Nat) (h : run + 1 < 2 ^ 32) : wrap64 (run + 1 + (2 ^ 64 - 1)) = run := by
  unfold wrap64; omega

/-- run of `run` zeros (possibly none) followed by a non-zero byte -/
theorem zrltInvGo_run_literal (dstEnd run x : Nat) (rest : List Nat) (out : Array Nat)
    (hx0 : x ≠ 0) (hx : x < 256) (h : run + 1 < 2 ^ 32) (hroom : out.size + run + 1 ≤ dstEnd) :
    zrltInvGo dstEnd (tokBits run ++ encByte x ++ rest) none out
      = zrltInvGo dstEnd rest none (out ++ (List.replicate run 0 ++ [x])) := by
  by_cases h0 : run = 0
  · subst h0
    have hf : zrltInvFlush dstEnd none out = .ok out := by
      unfold zrltInvFlush; simp only; rw [if_neg (by omega)]
    simp only [tokBits, if_true, List.nil_append]
    rw [zrltInvGo_literal dstEnd x rest none out out hx0 hx hf, push_eq_appendList]
    simp
  · have hf : zrltInvFlush dstEnd (some (run + 1)) out = .ok (out ++ List.replicate run 0) := by
      unfold zrltInvFlush; simp only
      rw [wrap64_pred run h, if_neg (by omega)]
    rw [List.append_assoc, zrltInvGo_token dstEnd run _ out (by omega) h (by omega)]
    rw [zrltInvGo_literal dstEnd x rest _ out _ hx0 hx hf, push_eq_appendList, appendList_append]

/-- trailing run -/
theorem zrltInvGo_run_end (dstEnd run : Nat) (out : Array Nat)
    (h : run + 1 < 2 ^ 32) (hroom : out.size + run ≤ dstEnd) :
    zrltInvGo dstEnd (tokBits run) none out = .ok (out ++ List.replicate run 0) := by
  by_cases h0 : run = 0
  · subst h0; simp [tokBits, zrltInvGo]
  · have := zrltInvGo_token dstEnd run [] out (by omega) h (by omega)
    rw [List.append_nil] at this
    rw [this, zrltInvGo]
    rw [if_neg (by omega), if_neg (by omega)]
    simp

theorem zrltFlush_spec (dstEnd run : Nat) (out o1 : Array Nat) (h : zrltFlush dstEnd run out = some o1) :
    o1 = out ++ tokBits run ∧ (out.size ≤ dstEnd → o1.size ≤ dstEnd) := by
  unfold zrltFlush at h
  unfold tokBits
  by_cases h0 : run = 0
  · rw [if_pos h0] at h
    injection h with h
    subst h
    simp [h0]
  · rw [if_neg h0] at h
    rw [if_neg h0]
    by_cases hc : out.size ≥ dstEnd - zrltLog2 (run + 1)
    · rw [if_pos hc] at h; cases h
    · rw [if_neg hc] at h
      injection h with h
      subst h
      refine ⟨rfl, fun _ => ?_⟩
      rw [size_appendList, bitBytes_length]
      omega

/-- Forward/inverse simulation: whatever the forward pass appends from a state (`run` pending
    zeros, remaining input `s`) is decoded by the inverse, started outside a run, into exactly the
    pending zeros followed by `s` — for every destination size with enough room. -/
theorem zrltFwdGo_spec (dstEnd : Nat) :
    ∀ (s : List Nat) (run : Nat) (out T : Array Nat),
      zrltFwdGo dstEnd s run out = some T →
      (∀ x ∈ s, x < 256) → run + s.length + 1 < 2 ^ 32 →
      (out.size ≤ dstEnd → T.size ≤ dstEnd) ∧
      ∃ enc : List Nat, T = out ++ enc ∧
        ∀ (n : Nat) (outI : Array Nat), outI.size + run + s.length ≤ n →
          zrltInvGo n enc none outI = .ok (outI ++ (List.replicate run 0 ++ s)) := by
  intro s
  induction s with
  | nil =>
    intro run out T h _ hlen
    rw [zrltFwdGo] at h
    obtain ⟨e, hs⟩ := zrltFlush_spec dstEnd run out T h
    refine ⟨hs, tokBits run, e, ?_⟩
    intro n outI hroom
    simp only [List.length_nil, Nat.add_zero] at hroom hlen
    rw [zrltInvGo_run_end n run outI (by omega) hroom]
    simp
  | cons x rest ih =>
    intro run out T h hb hlen
    simp only [List.length_cons] at hlen
    have hbrest : ∀ y ∈ rest, y < 256 := fun y hy => hb y (List.mem_cons_of_mem _ hy)
    have hx : x < 256 := hb x (List.mem_cons_self ..)
    rw [zrltFwdGo] at h
    by_cases hx0 : x = 0
    · rw [if_pos hx0] at h
      obtain ⟨hsz, enc, e, hinv⟩ := ih (run + 1) out T h hbrest (by omega)
      refine ⟨hsz, enc, e, ?_⟩
      intro n outI hroom
      simp only [List.length_cons] at hroom
      rw [hinv n outI (by omega), hx0]
      congr 2
      rw [List.replicate_succ', List.append_assoc]
      rfl
    · rw [if_neg hx0] at h
      cases hfl : zrltFlush dstEnd run out with
      | none => rw [hfl] at h; cases h
      | some o1 =>
        rw [hfl] at h
        simp only at h
        obtain ⟨e1, hs1⟩ := zrltFlush_spec dstEnd run out o1 hfl
        by_cases hge : x ≥ 0xFE
        · rw [if_pos hge] at h
          by_cases hc : o1.size ≥ dstEnd - 1
          · rw [if_pos hc] at h; cases h
          · rw [if_neg hc] at h
            obtain ⟨hsz, enc, e, hinv⟩ := ih 0 _ T h hbrest (by omega)
            refine ⟨fun ho => hsz (by simp only [Array.size_push]; omega), ?_⟩
            refine ⟨tokBits run ++ encByte x ++ enc, ?_, ?_⟩
            · rw [e, e1]
              apply Array.ext'
              simp [encByte, hge]
            · intro n outI hroom
              simp only [List.length_cons] at hroom
              rw [zrltInvGo_run_literal n run x enc outI hx0 hx (by omega) (by omega)]
              rw [hinv n _ (by rw [size_appendList]; simp; omega)]
              rw [appendList_append]
              simp
        · rw [if_neg hge] at h
          by_cases hc : o1.size ≥ dstEnd
          · rw [if_pos hc] at h; cases h
          · rw [if_neg hc] at h
            obtain ⟨hsz, enc, e, hinv⟩ := ih 0 _ T h hbrest (by omega)
            refine ⟨fun ho => hsz (by simp only [Array.size_push]; omega), ?_⟩
            refine ⟨tokBits run ++ encByte x ++ enc, ?_, ?_⟩
            · rw [e, e1]
              apply Array.ext'
              simp [encByte, hge]
            · intro n outI hroom
              simp only [List.length_cons] at hroom
              rw [zrltInvGo_run_literal n run x enc outI hx0 hx (by omega) (by omega)]
              rw [hinv n _ (by rw [size_appendList]; simp; omega)]
              rw [appendList_append]
              simp

/-- C13_zrlt -/
theorem zrlt_roundtrip (b t : List Nat) (dstLen : Nat)
    (hb : ∀ x ∈ b, x < 256) (hlen : b.length + 1 < 2 ^ 32)
    (hdst : zrltMaxEncodedLen b.length ≤ dstLen)
    (h : zrltForward b dstLen = .ok t) :
    t.length ≤ zrltMaxEncodedLen b.length ∧ ∀ n, b.length ≤ n → zrltInverse t n = .ok b := by
  unfold zrltMaxEncodedLen at *
  unfold zrltForward at h
  by_cases he : b.length = 0 ∨ dstLen = 0
  · have hb0 : b = [] := by
      cases b with
      | nil => rfl
      | cons x xs => simp only [List.length_cons] at *; omega
    rw [if_pos he] at h
    injection h with h
    subst h; subst hb0
    refine ⟨by simp, fun n _ => ?_⟩
    simp [zrltInverse]
  · rw [if_neg he, if_neg (by unfold zrltMaxEncodedLen; omega)] at h
    cases hf : zrltFwdGo b.length b 0 #[] with
    | none => rw [hf] at h; cases h
    | some T =>
      rw [hf] at h
      injection h with h
      obtain ⟨hsz, enc, e, hinv⟩ := zrltFwdGo_spec b.length b 0 #[] T hf hb (by omega)
      have hT : T.toList = enc := by rw [e]; simp
      have hsz' : T.size ≤ b.length := hsz (by simp)
      refine ⟨by rw [← h, Array.length_toList]; exact hsz', fun n hn => ?_⟩
      have hi := hinv n #[] (by simp; omega)
      unfold zrltInverse
      rw [← h, hT]
      have hne : ¬ (enc.length = 0 ∨ n = 0) := by
        intro hc
        cases hc with
        | inl h0 =>
          have : enc = [] := List.eq_nil_of_length_eq_zero h0
          rw [this, zrltInvGo] at hi
          injection hi with hi
          have := congrArg Array.size hi
          rw [size_appendList] at this
          simp at this
          omega
        | inr h0 => omega
      rw [if_neg hne, hi]
      simp

/-! ## SBRT -/

theorem rd_wr (a : Array Nat) (i v j : Nat) :
    rd (wr a i v) j = if i = j ∧ i < a.size then v else rd a j := by
  unfold rd wr
  simp only [Array.getD_eq_getD_getElem?, Array.getElem?_setIfInBounds]
  by_cases h : i = j
  · subst h
    by_cases h2 : i < a.size
    · simp [h2]
    · simp [h2]
  · simp [h]

theorem size_wr (a : Array Nat) (i v : Nat) : (wr a i v).size = a.size := by
  unfold wr; simp

theorem rd_range (j : Nat) (h : j < 256) : rd (Array.range 256) j = j := by
  unfold rd
  rw [Array.getD_eq_getD_getElem?, Array.getElem?_eq_getElem (by simpa using h)]
  simp

/-- `s2r` and `r2s` are mutually inverse permutations of the byte values -/
structure PermInv (s2r r2s : Array Nat) : Prop where
  hs : s2r.size = 256
  hr : r2s.size = 256
  r2s_lt : ∀ j, j < 256 → rd r2s j < 256
  s2r_r2s : ∀ j, j < 256 → rd s2r (rd r2s j) = j
  s2r_lt : ∀ c, c < 256 → rd s2r c < 256
  r2s_s2r : ∀ c, c < 256 → rd r2s (rd s2r c) = c

/-- state inside the move-up loop for symbol `c`: rank `r` is free, every other rank / symbol
    is consistently mapped -/
structure Hole (c r : Nat) (s2r r2s : Array Nat) : Prop where
  hs : s2r.size = 256
  hr : r2s.size = 256
  hc : c < 256
  hrr : r < 256
  a : ∀ j, j < 256 → j ≠ r → rd r2s j < 256 ∧ rd r2s j ≠ c ∧ rd s2r (rd r2s j) = j
  b : ∀ c', c' < 256 → c' ≠ c → rd s2r c' < 256 ∧ rd s2r c' ≠ r ∧ rd r2s (rd s2r c') = c'

theorem permInv_init : PermInv (Array.range 256) (Array.range 256) := by
  refine ⟨by simp, by simp, ?_, ?_, ?_, ?_⟩ <;> intro j hj
  · rw [rd_range j hj]; exact hj
  · rw [rd_range j hj, rd_range j hj]
  · rw [rd_range j hj]; exact hj
  · rw [rd_range j hj, rd_range j hj]

theorem hole_init {s2r r2s : Array Nat} (h : PermInv s2r r2s) (c : Nat) (hc : c < 256) :
    Hole c (rd s2r c) s2r r2s := by
  refine ⟨h.hs, h.hr, hc, h.s2r_lt c hc, ?_, ?_⟩
  · intro j hj hne
    refine ⟨h.r2s_lt j hj, ?_, h.s2r_r2s j hj⟩
    intro he
    have := h.s2r_r2s j hj
    rw [he] at this
    exact hne this.symm
  · intro c' hc' hne
    refine ⟨h.s2r_lt c' hc', ?_, h.r2s_s2r c' hc'⟩
    intro he
    have h1 := h.r2s_s2r c' hc'
    rw [he, h.r2s_s2r c hc] at h1
    exact hne h1.symm

theorem hole_step {c r : Nat} {s2r r2s : Array Nat} (h : Hole c (r + 1) s2r r2s) :
    Hole c r (wr s2r (rd r2s r) (r + 1)) (wr r2s (r + 1) (rd r2s r)) := by
  have hr1 := h.hrr
  have hr : r < 256 := by omega
  obtain ⟨ht, htc, hst⟩ := h.a r hr (by omega)
  refine ⟨by rw [size_wr]; exact h.hs, by rw [size_wr]; exact h.hr, h.hc, hr, ?_, ?_⟩
  · intro j hj hne
    by_cases hj1 : j = r + 1
    · subst hj1
      have e1 : rd (wr r2s (r + 1) (rd r2s r)) (r + 1) = rd r2s r := by
        rw [rd_wr, if_pos ⟨rfl, by rw [h.hr]; exact hr1⟩]
      rw [e1]
      refine ⟨ht, htc, ?_⟩
      rw [rd_wr, if_pos ⟨rfl, by rw [h.hs]; exact ht⟩]
    · obtain ⟨hl, hnc, hinv⟩ := h.a j hj hj1
      have e1 : rd (wr r2s (r + 1) (rd r2s r)) j = rd r2s j := by
        rw [rd_wr, if_neg (by intro hh; exact hj1 hh.1.symm)]
      rw [e1]
      refine ⟨hl, hnc, ?_⟩
      rw [rd_wr]
      have : ¬ (rd r2s r = rd r2s j ∧ rd r2s r < s2r.size) := by
        intro hh
        have := hinv
        rw [← hh.1, hst] at this
        exact hne this.symm
      rw [if_neg this, hinv]
  · intro c' hc' hne
    by_cases hct : c' = rd r2s r
    · subst hct
      have e1 : rd (wr s2r (rd r2s r) (r + 1)) (rd r2s r) = r + 1 := by
        rw [rd_wr, if_pos ⟨rfl, by rw [h.hs]; exact ht⟩]
      rw [e1]
      refine ⟨hr1, by omega, ?_⟩
      rw [rd_wr, if_pos ⟨rfl, by rw [h.hr]; exact hr1⟩]
    · obtain ⟨hl, hnr, hinv⟩ := h.b c' hc' hne
      have e1 : rd (wr s2r (rd r2s r) (r + 1)) c' = rd s2r c' := by
        rw [rd_wr, if_neg (by intro hh; exact hct hh.1.symm)]
      rw [e1]
      refine ⟨hl, ?_, ?_⟩
      · intro he
        rw [he] at hinv
        exact hct hinv.symm
      · rw [rd_wr, if_neg (by intro hh; exact hnr hh.1.symm), hinv]

theorem hole_up (q : Array Nat) (qc c : Nat) :
    ∀ (r : Nat) (s2r r2s : Array Nat), Hole c r s2r r2s →
      Hole c (sbrtFwdUp q qc r s2r r2s).1 (sbrtFwdUp q qc r s2r r2s).2.1
        (sbrtFwdUp q qc r s2r r2s).2.2 := by
  intro r
  induction r with
  | zero => intro s2r r2s h; simpa [sbrtFwdUp] using h
  | succ r ih =>
    intro s2r r2s h
    rw [sbrtFwdUp]
    by_cases hq : rd q (rd r2s r) ≤ qc
    · rw [if_pos hq]; exact ih _ _ (hole_step h)
    · rw [if_neg hq]; exact h

theorem hole_close {c r : Nat} {s2r r2s : Array Nat} (h : Hole c r s2r r2s) :
    PermInv (wr s2r c r) (wr r2s r c) := by
  have hc := h.hc
  have hr := h.hrr
  refine ⟨by rw [size_wr]; exact h.hs, by rw [size_wr]; exact h.hr, ?_, ?_, ?_, ?_⟩
  · intro j hj
    rw [rd_wr]
    by_cases hjr : r = j
    · rw [if_pos ⟨hjr, by rw [h.hr]; exact hr⟩]; exact hc
    · rw [if_neg (fun hh => hjr hh.1)]; exact (h.a j hj (fun e => hjr e.symm)).1
  · intro j hj
    by_cases hjr : r = j
    · subst hjr
      rw [rd_wr (i := r), if_pos ⟨rfl, by rw [h.hr]; exact hr⟩, rd_wr,
        if_pos ⟨rfl, by rw [h.hs]; exact hc⟩]
    · obtain ⟨hl, hnc, hinv⟩ := h.a j hj (fun e => hjr e.symm)
      rw [rd_wr (i := r), if_neg (fun hh => hjr hh.1), rd_wr,
        if_neg (fun hh => hnc hh.1.symm), hinv]
  · intro c' hc'
    rw [rd_wr]
    by_cases hcc : c = c'
    · rw [if_pos ⟨hcc, by rw [h.hs]; exact hc⟩]; exact hr
    · rw [if_neg (fun hh => hcc hh.1)]; exact (h.b c' hc' (fun e => hcc e.symm)).1
  · intro c' hc'
    by_cases hcc : c = c'
    · subst hcc
      rw [rd_wr (i := c), if_pos ⟨rfl, by rw [h.hs]; exact hc⟩, rd_wr,
        if_pos ⟨rfl, by rw [h.hr]; exact hr⟩]
    · obtain ⟨hl, hnr, hinv⟩ := h.b c' hc' (fun e => hcc e.symm)
      rw [rd_wr (i := c), if_neg (fun hh => hcc hh.1), rd_wr,
        if_neg (fun hh => hnr hh.1.symm), hinv]

/-- the inverse move-up loop performs the same moves on `r2s` as the forward one -/
theorem up_same (q : Array Nat) (qc : Nat) :
    ∀ (r : Nat) (s2r r2s : Array Nat),
      (sbrtFwdUp q qc r s2r r2s).1 = (sbrtInvUp q qc r r2s).1 ∧
      (sbrtFwdUp q qc r s2r r2s).2.2 = (sbrtInvUp q qc r r2s).2 := by
  intro r
  induction r with
  | zero => intro s2r r2s; simp [sbrtFwdUp, sbrtInvUp]
  | succ r ih =>
    intro s2r r2s
    rw [sbrtFwdUp, sbrtInvUp]
    by_cases hq : rd q (rd r2s r) ≤ qc
    · rw [if_pos hq, if_pos hq]; exact ih _ _
    · rw [if_neg hq, if_neg hq]; exact ⟨rfl, rfl⟩

theorem sbrtFwdGo_acc (mode : Nat) :
    ∀ (s : List Nat) (i : Nat) (s2r r2s p q out : Array Nat),
      (sbrtFwdGo mode s i s2r r2s p q out).toList
        = out.toList ++ (sbrtFwdGo mode s i s2r r2s p q #[]).toList := by
  intro s
  induction s with
  | nil => intro i s2r r2s p q out; simp [sbrtFwdGo]
  | cons c rest ih =>
    intro i s2r r2s p q out
    simp only [sbrtFwdGo]
    rw [ih, ih (out := #[].push _)]
    simp

theorem sbrtInvGo_acc (mode : Nat) :
    ∀ (s : List Nat) (i : Nat) (r2s p q out : Array Nat),
      (sbrtInvGo mode s i r2s p q out).toList
        = out.toList ++ (sbrtInvGo mode s i r2s p q #[]).toList := by
  intro s
  induction s with
  | nil => intro i r2s p q out; simp [sbrtInvGo]
  | cons c rest ih =>
    intro i r2s p q out
    simp only [sbrtInvGo]
    rw [ih, ih (out := #[].push _)]
    simp

theorem sbrtFwdGo_length (mode : Nat) :
    ∀ (s : List Nat) (i : Nat) (s2r r2s p q out : Array Nat),
      (sbrtFwdGo mode s i s2r r2s p q out).toList.length = out.size + s.length := by
  intro s
  induction s with
  | nil => intro i s2r r2s p q out; simp [sbrtFwdGo]
  | cons c rest ih =>
    intro i s2r r2s p q out
    simp only [sbrtFwdGo]
    rw [ih]
    simp
    omega

/-- forward then inverse from corresponding states gives back the input -/
theorem sbrt_go_roundtrip (mode : Nat) :
    ∀ (s : List Nat) (i : Nat) (s2r r2s p q : Array Nat), PermInv s2r r2s → (∀ x ∈ s, x < 256) →
      (sbrtInvGo mode (sbrtFwdGo mode s i s2r r2s p q #[]).toList i r2s p q #[]).toList = s := by
  intro s
  induction s with
  | nil => intro i s2r r2s p q _ _; simp [sbrtFwdGo, sbrtInvGo]
  | cons c rest ih =>
    intro i s2r r2s p q hinv hb
    have hc : c < 256 := hb c (List.mem_cons_self ..)
    have hbrest : ∀ y ∈ rest, y < 256 := fun y hy => hb y (List.mem_cons_of_mem _ hy)
    simp only [sbrtFwdGo]
    rw [sbrtFwdGo_acc]
    simp only [Array.toList_push, List.nil_append, List.cons_append]
    simp only [sbrtInvGo]
    rw [hinv.r2s_s2r c hc]
    obtain ⟨e1, e2⟩ := up_same (wr q c (sbrtQc mode i (rd p c))) (sbrtQc mode i (rd p c)) (rd s2r c) s2r r2s
    rw [← e1, ← e2, sbrtInvGo_acc]
    simp only [Array.toList_push, List.nil_append, List.cons_append]
    have hole := hole_close (hole_up (wr q c (sbrtQc mode i (rd p c))) (sbrtQc mode i (rd p c)) c _ _ _
      (hole_init hinv c hc))
    rw [ih (i + 1) _ _ _ _ hole hbrest]

/-- C13_sbrt -/
theorem sbrt_roundtrip (mode : Nat) (b : List Nat) (dstLen : Nat)
    (hb : ∀ x ∈ b, x < 256) (hdst : sbrtMaxEncodedLen b.length ≤ dstLen) :
    ∃ t, sbrtForward mode b dstLen = .ok t ∧ t.length = b.length ∧
      ∀ n, b.length ≤ n → sbrtInverse mode t n = .ok b := by
  unfold sbrtMaxEncodedLen at hdst
  cases b with
  | nil => exact ⟨[], by simp [sbrtForward], rfl, fun n _ => by simp [sbrtInverse]⟩
  | cons x xs =>
    have hne : ¬ ((x :: xs).length = 0 ∨ dstLen = 0) := by simp only [List.length_cons]; omega
    refine ⟨_, by unfold sbrtForward; rw [if_neg hne, if_neg (by unfold sbrtMaxEncodedLen; omega)], ?_, ?_⟩
    · rw [sbrtFwdGo_length]; simp
    · intro n hn
      unfold sbrtInverse
      rw [sbrtFwdGo_length]
      simp only [Array.size_empty, Nat.zero_add]
      rw [if_neg (by simp only [List.length_cons] at *; omega), if_neg (by omega)]
      rw [sbrt_go_roundtrip mode (x :: xs) 0 _ _ _ _ permInv_init hb]

/-! ## ByteTransformSequence: skip flags -/

set_option maxRecDepth 100000 in
theorem mask_and_bit_self : ∀ i, i < 8 → (0xFF ^^^ (1 <<< (7 - i))) &&& (1 <<< (7 - i)) = 0 := by decide

set_option maxRecDepth 100000 in
theorem mask_and_bit_other :
    ∀ i, i < 8 → ∀ j, j < 8 → i ≠ j → (0xFF ^^^ (1 <<< (7 - j))) &&& (1 <<< (7 - i)) = 1 <<< (7 - i) := by
  decide

/-- a stage's own flag is clear once it has succeeded -/
theorem flagSet_clear_self (f i : Nat) (hi : i < 8) : flagSet (clearFlag f i) i = false := by
  unfold flagSet clearFlag
  rw [Nat.and_assoc, mask_and_bit_self i hi]
  simp

/-- clearing the flag of stage `j` does not touch the flag of another stage -/
theorem flagSet_clear_other (f i j : Nat) (hi : i < 8) (hj : j < 8) (hne : i ≠ j) :
    flagSet (clearFlag f j) i = flagSet f i := by
  unfold flagSet clearFlag
  rw [Nat.and_assoc, mask_and_bit_other i hi j hj hne]

set_option maxRecDepth 100000 in
theorem flags_low_step : ∀ f, f < 256 → ∀ i, i < 8 → f % 2 ^ (8 - i) = 2 ^ (8 - i) - 1 →
    f % 2 ^ (7 - i) = 2 ^ (7 - i) - 1 ∧ clearFlag f i < 256 ∧
    clearFlag f i % 2 ^ (7 - i) = 2 ^ (7 - i) - 1 := by decide

set_option maxRecDepth 100000 in
theorem flags_low_nibble : ∀ f, f < 256 → ∀ n, n ≤ 4 → f % 2 ^ (8 - n) = 2 ^ (8 - n) - 1 →
    f % 16 = 15 := by decide

theorem flagSet_ff : ∀ k, k < 8 → flagSet 0xFF k = true := by decide

/-- later stages never change the flag of an earlier stage -/
theorem seqFwdGo_flag_preserved :
    ∀ (stages : List Stage) (j : Nat) (cur : List Nat) (f i : Nat),
      i < j → j + stages.length ≤ 8 →
      flagSet (seqFwdGo stages j cur f).2 i = flagSet f i := by
  intro stages
  induction stages with
  | nil => intro j cur f i _ _; rfl
  | cons st rest ih =>
    intro j cur f i hij hlen
    simp only [List.length_cons] at hlen
    rw [seqFwdGo]
    cases st.fwd cur with
    | error e => exact ih (j + 1) cur f i (by omega) (by omega)
    | ok y =>
      simp only
      rw [ih (j + 1) y _ i (by omega) (by omega)]
      exact flagSet_clear_other f i j (by omega) (by omega) (by omega)

/-- the skip flags keep their low `8 - (number of stages)` bits set, and stay a byte -/
theorem seqFwdGo_flags_low :
    ∀ (stages : List Stage) (i : Nat) (cur : List Nat) (f : Nat),
      f < 256 → i + stages.length ≤ 8 → f % 2 ^ (8 - i) = 2 ^ (8 - i) - 1 →
      (seqFwdGo stages i cur f).2 < 256 ∧
      (seqFwdGo stages i cur f).2 % 2 ^ (8 - (i + stages.length))
        = 2 ^ (8 - (i + stages.length)) - 1 := by
  intro stages
  induction stages with
  | nil => intro i cur f hf _ h; exact ⟨hf, h⟩
  | cons st rest ih =>
    intro i cur f hf hlen h
    simp only [List.length_cons] at hlen ⊢
    obtain ⟨h1, h2, h3⟩ := flags_low_step f hf i (by omega) h
    have e : 8 - (i + (rest.length + 1)) = 8 - (i + 1 + rest.length) := by omega
    have e7 : 7 - i = 8 - (i + 1) := by omega
    rw [seqFwdGo, e]
    cases st.fwd cur with
    | error _ => exact ih (i + 1) cur f hf (by omega) (by rw [← e7]; exact h1)
    | ok y => exact ih (i + 1) y _ h2 (by omega) (by rw [← e7]; exact h3)

/-- the per-stage round-trip hypothesis of `C13_sequence`, relative to a class `D` of blocks that
    the stages preserve (e.g. "byte values, at most N bytes"; `fun _ => True` for the plain form) -/
def Stage.GoodOn (D : List Nat → Prop) (st : Stage) : Prop :=
  ∀ x y, D x → st.fwd x = .ok y → D y ∧ (x ≠ [] → y ≠ []) ∧ st.inv y = .ok x

/-- core of `C13_sequence`: the inverse loop driven by the flags computed by the forward loop
    undoes it, whatever subset of stages declined -/
theorem seqGo_roundtrip (D : List Nat → Prop) :
    ∀ (stages : List Stage) (i : Nat) (cur : List Nat) (f : Nat),
      i + stages.length ≤ 8 →
      (∀ k, i ≤ k → k < 8 → flagSet f k = true) →
      (∀ st ∈ stages, st.GoodOn D) → D cur →
      seqInvGo stages i (seqFwdGo stages i cur f).2 (seqFwdGo stages i cur f).1 = .ok cur := by
  intro stages
  induction stages with
  | nil => intro i cur f _ _ _ _; rfl
  | cons st rest ih =>
    intro i cur f hlen hset hrt hD
    simp only [List.length_cons] at hlen
    have hrest : ∀ s ∈ rest, s.GoodOn D := fun s hs => hrt s (List.mem_cons_of_mem _ hs)
    have hst : st.GoodOn D := hrt st (List.mem_cons_self ..)
    rw [seqFwdGo]
    cases hfw : st.fwd cur with
    | error e =>
      simp only
      rw [seqInvGo, ih (i + 1) cur f (by omega) (fun k hk hk8 => hset k (by omega) hk8) hrest hD]
      simp only
      have : flagSet (seqFwdGo rest (i + 1) cur f).2 i = true := by
        rw [seqFwdGo_flag_preserved rest (i + 1) cur f i (by omega) (by omega)]
        exact hset i (Nat.le_refl _) (by omega)
      rw [this]
      rfl
    | ok y =>
      simp only
      obtain ⟨hDy, _, hinvy⟩ := hst cur y hD hfw
      have hset' : ∀ k, i + 1 ≤ k → k < 8 → flagSet (clearFlag f i) k = true := by
        intro k hk hk8
        rw [flagSet_clear_other f k i hk8 (by omega) (by omega)]
        exact hset k (by omega) hk8
      rw [seqInvGo, ih (i + 1) y _ (by omega) hset' hrest hDy]
      simp only
      have : flagSet (seqFwdGo rest (i + 1) y (clearFlag f i)).2 i = false := by
        rw [seqFwdGo_flag_preserved rest (i + 1) y _ i (by omega) (by omega)]
        exact flagSet_clear_self f i (by omega)
      rw [this]
      exact hinvy

/-- with every flag set the inverse loop applies no stage -/
theorem seqInvGo_all_skipped :
    ∀ (stages : List Stage) (i f : Nat) (y : List Nat),
      i + stages.length ≤ 8 → (∀ k, k < 8 → flagSet f k = true) → seqInvGo stages i f y = .ok y := by
  intro stages
  induction stages with
  | nil => intro i f y _ _; rfl
  | cons st rest ih =>
    intro i f y hlen h
    simp only [List.length_cons] at hlen
    rw [seqInvGo, ih (i + 1) f y (by omega) h]
    simp only
    rw [h i (by omega)]
    rfl

/-- the output of the forward loop is empty only for an empty block (an empty block would be
    "decoded" to nothing by the `len(src) == 0` shortcut of `Inverse`) -/
theorem seqFwdGo_nonempty (D : List Nat → Prop) :
    ∀ (stages : List Stage) (i : Nat) (cur : List Nat) (f : Nat),
      (∀ st ∈ stages, st.GoodOn D) → D cur → cur ≠ [] → (seqFwdGo stages i cur f).1 ≠ [] := by
  intro stages
  induction stages with
  | nil => intro i cur f _ _ h; exact h
  | cons st rest ih =>
    intro i cur f hg hD h
    have hrest : ∀ s ∈ rest, s.GoodOn D := fun s hs => hg s (List.mem_cons_of_mem _ hs)
    rw [seqFwdGo]
    cases hfw : st.fwd cur with
    | error _ => exact ih (i + 1) cur f hrest hD h
    | ok y =>
      obtain ⟨hDy, hy, _⟩ := hg st (List.mem_cons_self ..) cur y hD hfw
      exact ih (i + 1) y _ hrest hDy (hy h)

/-- C13_sequence / C01_sequence -/
theorem seq_roundtrip (D : List Nat → Prop) (stages : List Stage) (x : List Nat)
    (hn : stages.length ≤ 8)
    (hrt : ∀ st ∈ stages, st.GoodOn D) (hD : D x) :
    seqInverse stages (seqForward stages x).2 (seqForward stages x).1 = .ok x := by
  unfold seqForward
  by_cases hx : x.length = 0
  · have : x = [] := List.eq_nil_of_length_eq_zero hx
    subst this
    simp [seqInverse]
  · have hx' : x ≠ [] := fun h => hx (by rw [h]; rfl)
    rw [if_neg hx]
    have hgo := seqGo_roundtrip D stages 0 x 0xFF (by omega) (fun k _ hk => flagSet_ff k hk) hrt hD
    have hout := seqFwdGo_nonempty D stages 0 x 0xFF hrt hD hx'
    unfold seqInverse
    have : ¬ (seqFwdGo stages 0 x 0xFF).1.length = 0 := by
      intro h; exact hout (List.eq_nil_of_length_eq_zero h)
    rw [if_neg this]
    by_cases hff : (seqFwdGo stages 0 x 0xFF).2 = 0xFF
    · rw [if_pos hff]
      rw [hff, seqInvGo_all_skipped stages 0 0xFF _ (by omega) flagSet_ff] at hgo
      exact hgo
    · rw [if_neg hff]; exact hgo

/-- all stages declining: flags 0xFF and the block is passed through unchanged -/
theorem seq_all_declined (stages : List Stage) (x : List Nat)
    (h : ∀ st ∈ stages, ∀ y, ∃ e, st.fwd y = .error e) :
    seqForward stages x = (x, 0xFF) := by
  unfold seqForward
  by_cases hx : x.length = 0
  · rw [if_pos hx, List.eq_nil_of_length_eq_zero hx]
  · rw [if_neg hx]
    have : ∀ (stages : List Stage) (i f : Nat), (∀ st ∈ stages, ∀ y, ∃ e, st.fwd y = .error e) →
        seqFwdGo stages i x f = (x, f) := by
      intro stages
      induction stages with
      | nil => intro i f _; rfl
      | cons st rest ih =>
        intro i f h
        obtain ⟨e, he⟩ := h st (List.mem_cons_self ..) x
        rw [seqFwdGo, he]
        exact ih (i + 1) f (fun s hs => h s (List.mem_cons_of_mem _ hs))
    exact this stages 0 0xFF h

/-- the flags produced for `n` stages are a byte whose low `8-n` bits are all 1 -/
theorem seq_flags_shape (stages : List Stage) (x : List Nat) (hn : stages.length ≤ 8) :
    (seqForward stages x).2 < 256 ∧
    (seqForward stages x).2 % 2 ^ (8 - stages.length) = 2 ^ (8 - stages.length) - 1 := by
  unfold seqForward
  by_cases hx : x.length = 0
  · rw [if_pos hx]
    have : ∀ n, n ≤ 8 → 255 % 2 ^ (8 - n) = 2 ^ (8 - n) - 1 := by decide
    exact ⟨by decide, this _ hn⟩
  · rw [if_neg hx]
    have := seqFwdGo_flags_low stages 0 x 0xFF (by decide) (by omega) (by decide)
    simpa using this

/-- `MaxEncodedLen` of the sequence bounds the output when every stage respects its own bound and
    the bounds are monotone: the `len(dst) < length` branch of `Forward` is dead. -/
theorem seqMaxEncodedLen_mono :
    ∀ (stages : List Stage), (∀ st ∈ stages, ∀ a b, a ≤ b → st.maxLen a ≤ st.maxLen b) →
      ∀ a b, a ≤ b → seqMaxEncodedLen stages a ≤ seqMaxEncodedLen stages b := by
  intro stages
  induction stages with
  | nil => intro _ a b h; exact h
  | cons st rest ih =>
    intro hm a b hab
    have hst := hm st (List.mem_cons_self ..) a b hab
    rw [seqMaxEncodedLen, seqMaxEncodedLen]
    apply ih (fun s hs => hm s (List.mem_cons_of_mem _ hs))
    split <;> split <;> omega

theorem seqFwdGo_len_le :
    ∀ (stages : List Stage) (i : Nat) (cur : List Nat) (f m : Nat),
      (∀ st ∈ stages, ∀ a b, a ≤ b → st.maxLen a ≤ st.maxLen b) →
      (∀ st ∈ stages, ∀ x y, st.fwd x = .ok y → y.length ≤ st.maxLen x.length) →
      cur.length ≤ m →
      (seqFwdGo stages i cur f).1.length ≤ seqMaxEncodedLen stages m := by
  intro stages
  induction stages with
  | nil => intro i cur f m _ _ h; exact h
  | cons st rest ih =>
    intro i cur f m hm hb hcur
    have hm' : ∀ s ∈ rest, ∀ a b, a ≤ b → s.maxLen a ≤ s.maxLen b :=
      fun s hs => hm s (List.mem_cons_of_mem _ hs)
    have hb' : ∀ s ∈ rest, ∀ x y, s.fwd x = .ok y → y.length ≤ s.maxLen x.length :=
      fun s hs => hb s (List.mem_cons_of_mem _ hs)
    rw [seqFwdGo, seqMaxEncodedLen]
    cases hfw : st.fwd cur with
    | error _ =>
      apply ih (i + 1) cur f _ hm' hb'
      split <;> omega
    | ok y =>
      apply ih (i + 1) y _ _ hm' hb'
      have h1 := hb st (List.mem_cons_self ..) cur y hfw
      have h2 := hm st (List.mem_cons_self ..) _ _ hcur
      split <;> omega

theorem seq_forward_len_le (stages : List Stage) (x : List Nat)
    (hm : ∀ st ∈ stages, ∀ a b, a ≤ b → st.maxLen a ≤ st.maxLen b)
    (hb : ∀ st ∈ stages, ∀ x y, st.fwd x = .ok y → y.length ≤ st.maxLen x.length) :
    (seqForward stages x).1.length ≤ seqMaxEncodedLen stages x.length := by
  unfold seqForward
  by_cases hx : x.length = 0
  · rw [if_pos hx]; simp
  · rw [if_neg hx]; exact seqFwdGo_len_le stages 0 x 0xFF _ hm hb (Nat.le_refl _)

/-! ### mode byte -/

set_option maxRecDepth 100000 in
theorem mode0_shape : ∀ m, m < 256 → m &&& 0x9F = 0 → m / 32 < 4 ∧ m = 32 * (m / 32) := by decide

set_option maxRecDepth 100000 in
theorem mode_small : ∀ d, d < 4 → ∀ h, h < 16 →
    (32 * d) &&& 0x80 = 0 ∧
    decodeFlags ((32 * d ||| ((16 * h + 15) >>> 4)) % 256) none = 16 * h + 15 ∧
    (((32 * d ||| ((16 * h + 15) >>> 4)) % 256) >>> 5) &&& 3 = d := by decide

set_option maxRecDepth 100000 in
theorem mode_large : ∀ d, d < 4 →
    (32 * d) &&& 0x80 = 0 ∧ ((32 * d ||| 0x10) % 256) &&& 0x80 = 0 ∧
    ((32 * d ||| 0x10) % 256) &&& 0x10 ≠ 0 ∧ (((32 * d ||| 0x10) % 256) >>> 5) &&& 3 = d := by decide

/-- the skip flags written in the block header are the ones read back, in both layouts, and the
    block-size bits of the mode byte are not disturbed -/
theorem mode_byte_roundtrip (mode0 flags n : Nat)
    (hm : mode0 < 256) (hm0 : mode0 &&& 0x9F = 0) (hf : flags < 256)
    (hlow : n ≤ 4 → flags % 16 = 15) :
    decodeFlags (encodeMode mode0 flags n).1 (encodeMode mode0 flags n).2 = flags ∧
    ((encodeMode mode0 flags n).1 >>> 5) &&& 3 = mode0 / 32 := by
  obtain ⟨hd, he⟩ := mode0_shape mode0 hm hm0
  generalize mode0 / 32 = d at hd he
  subst he
  unfold encodeMode
  by_cases hn : n ≤ 4
  · obtain ⟨h1, h2, h3⟩ := mode_small d hd (flags / 16) (by omega)
    have hfl : 16 * (flags / 16) + 15 = flags := by have := hlow hn; omega
    rw [hfl] at h2 h3
    rw [if_pos (Or.inr hn)]
    exact ⟨h2, h3⟩
  · obtain ⟨h1, h2, h3, h4⟩ := mode_large d hd
    rw [if_neg (by intro h; cases h with | inl h => exact h h1 | inr h => exact hn h)]
    refine ⟨?_, h4⟩
    unfold decodeFlags
    simp only
    rw [if_neg (by intro h; exact h h2), if_pos h3]
    rfl

/-! ## the concrete stages satisfy the stage hypothesis -/

/-- blocks of byte values of at most `N` bytes -/
def IsBlock (N : Nat) (x : List Nat) : Prop := (∀ b ∈ x, b < 256) ∧ x.length ≤ N

theorem bitBytes_lt (v k : Nat) : ∀ y ∈ bitBytes v k, y < 256 := by
  induction k with
  | zero => intro y hy; cases hy
  | succ k ih =>
    intro y hy
    simp only [bitBytes, List.mem_cons] at hy
    cases hy with
    | inl h => have := bit_le_one v k; omega
    | inr h => exact ih y h

theorem tokBits_lt (run : Nat) : ∀ y ∈ tokBits run, y < 256 := by
  unfold tokBits
  split
  · intro y hy; cases hy
  · exact bitBytes_lt _ _

theorem zrltFwdGo_bytes (dstEnd : Nat) :
    ∀ (s : List Nat) (run : Nat) (out T : Array Nat),
      zrltFwdGo dstEnd s run out = some T → (∀ x ∈ s, x < 256) →
      (∀ y ∈ out.toList, y < 256) → ∀ y ∈ T.toList, y < 256 := by
  intro s
  induction s with
  | nil =>
    intro run out T h _ hout y hy
    rw [zrltFwdGo] at h
    obtain ⟨e, _⟩ := zrltFlush_spec dstEnd run out T h
    rw [e, Array.toList_appendList, List.mem_append] at hy
    cases hy with
    | inl h => exact hout y h
    | inr h => exact tokBits_lt run y h
  | cons x rest ih =>
    intro run out T h hb hout
    have hbrest : ∀ y ∈ rest, y < 256 := fun y hy => hb y (List.mem_cons_of_mem _ hy)
    have hx : x < 256 := hb x (List.mem_cons_self ..)
    rw [zrltFwdGo] at h
    by_cases hx0 : x = 0
    · rw [if_pos hx0] at h; exact ih _ _ _ h hbrest hout
    · rw [if_neg hx0] at h
      cases hfl : zrltFlush dstEnd run out with
      | none => rw [hfl] at h; cases h
      | some o1 =>
        rw [hfl] at h
        simp only at h
        obtain ⟨e1, _⟩ := zrltFlush_spec dstEnd run out o1 hfl
        have ho1 : ∀ y ∈ o1.toList, y < 256 := by
          intro y hy
          rw [e1, Array.toList_appendList, List.mem_append] at hy
          cases hy with
          | inl h => exact hout y h
          | inr h => exact tokBits_lt run y h
        by_cases hge : x ≥ 0xFE
        · rw [if_pos hge] at h
          by_cases hc : o1.size ≥ dstEnd - 1
          · rw [if_pos hc] at h; cases h
          · rw [if_neg hc] at h
            apply ih _ _ _ h hbrest
            intro y hy
            simp only [Array.toList_push, List.mem_append, List.mem_singleton] at hy
            rcases hy with (hy | hy) | hy
            · exact ho1 y hy
            · omega
            · omega
        · rw [if_neg hge] at h
          by_cases hc : o1.size ≥ dstEnd
          · rw [if_pos hc] at h; cases h
          · rw [if_neg hc] at h
            apply ih _ _ _ h hbrest
            intro y hy
            simp only [Array.toList_push, List.mem_append, List.mem_singleton] at hy
            rcases hy with hy | hy
            · exact ho1 y hy
            · omega

theorem zrltForward_bytes (b t : List Nat) (dstLen : Nat) (hb : ∀ x ∈ b, x < 256)
    (h : zrltForward b dstLen = .ok t) : ∀ y ∈ t, y < 256 := by
  unfold zrltForward at h
  split at h
  · injection h with h; subst h; intro y hy; cases hy
  · split at h
    · cases h
    · cases hf : zrltFwdGo b.length b 0 #[] with
      | none => rw [hf] at h; cases h
      | some T =>
        rw [hf] at h
        injection h with h
        subst h
        exact zrltFwdGo_bytes _ b 0 #[] T hf hb (by intro y hy; simp at hy)

theorem sbrtFwdGo_bytes (mode : Nat) :
    ∀ (s : List Nat) (i : Nat) (s2r r2s p q : Array Nat), PermInv s2r r2s → (∀ x ∈ s, x < 256) →
      ∀ y ∈ (sbrtFwdGo mode s i s2r r2s p q #[]).toList, y < 256 := by
  intro s
  induction s with
  | nil => intro i s2r r2s p q _ _ y hy; simp [sbrtFwdGo] at hy
  | cons c rest ih =>
    intro i s2r r2s p q hinv hb y hy
    have hc : c < 256 := hb c (List.mem_cons_self ..)
    have hbrest : ∀ y ∈ rest, y < 256 := fun y hy => hb y (List.mem_cons_of_mem _ hy)
    simp only [sbrtFwdGo] at hy
    rw [sbrtFwdGo_acc] at hy
    simp only [Array.toList_push, List.nil_append, List.cons_append, List.mem_cons] at hy
    cases hy with
    | inl h => rw [h]; exact hinv.s2r_lt c hc
    | inr h =>
      have hole := hole_close (hole_up (wr q c (sbrtQc mode i (rd p c))) (sbrtQc mode i (rd p c)) c _ _ _
        (hole_init hinv c hc))
      exact ih (i + 1) _ _ _ _ hole hbrest y h

theorem null_good (N req n : Nat) (hn : N ≤ n) : (nullStage req n).GoodOn (IsBlock N) := by
  intro x y hD hf
  simp only [nullStage] at hf ⊢
  unfold nullForward at hf
  split at hf
  · cases hf
  · rename_i hreq
    have := (null_roundtrip x req n (by omega) (by have := hD.2; omega))
    unfold nullForward at this
    rw [if_neg hreq] at this
    rw [this.1] at hf
    injection hf with hf
    subst hf
    exact ⟨hD, fun h => h, this.2⟩

theorem zrlt_good (N req n : Nat) (hn : N ≤ n) (hN : N + 1 < 2 ^ 32) (hreq : N ≤ req) :
    (zrltStage req n).GoodOn (IsBlock N) := by
  intro x y hD hf
  simp only [zrltStage] at hf ⊢
  have hlen := hD.2
  obtain ⟨h1, h2⟩ := zrlt_roundtrip x y req hD.1 (by omega) (by unfold zrltMaxEncodedLen; omega) hf
  unfold zrltMaxEncodedLen at h1
  have hinv := h2 n (by omega)
  refine ⟨⟨zrltForward_bytes x y req hD.1 hf, by omega⟩, ?_, hinv⟩
  intro hx hy
  subst hy
  simp [zrltInverse] at hinv
  exact hx hinv

theorem sbrt_good (mode N req n : Nat) (hn : N ≤ n) (hreq : N + 33 ≤ req) :
    (sbrtStage mode req n).GoodOn (IsBlock N) := by
  intro x y hD hf
  simp only [sbrtStage] at hf ⊢
  have hlen := hD.2
  obtain ⟨t, h1, h2, h3⟩ := sbrt_roundtrip mode x req hD.1 (by unfold sbrtMaxEncodedLen; omega)
  rw [h1] at hf
  injection hf with hf
  subst hf
  refine ⟨⟨?_, by omega⟩, ?_, h3 n (by omega)⟩
  · unfold sbrtForward at h1
    split at h1
    · injection h1 with h1; subst h1; intro y hy; cases hy
    · split at h1
      · cases h1
      · injection h1 with h1
        subst h1
        exact sbrtFwdGo_bytes mode x 0 _ _ _ _ permInv_init hD.1
  · intro hx ht
    subst ht
    simp at h2
    exact hx (List.eq_nil_of_length_eq_zero h2.symm)

/-- one of the three concrete stages, forward destination `req`, inverse destination `n` -/
def IsSmallStage (req n : Nat) (st : Stage) : Prop :=
  st = nullStage req n ∨ st = zrltStage req n ∨ ∃ mode, st = sbrtStage mode req n

theorem smallStage_mono (req n : Nat) (st : Stage) (h : IsSmallStage req n st) :
    ∀ a b, a ≤ b → st.maxLen a ≤ st.maxLen b := by
  intro a b hab
  rcases h with h | h | ⟨m, h⟩ <;> subst h <;>
    simp only [nullStage, zrltStage, sbrtStage, nullMaxEncodedLen, zrltMaxEncodedLen,
      sbrtMaxEncodedLen] <;> omega

theorem le_seqMaxEncodedLen : ∀ (stages : List Stage) (n : Nat), n ≤ seqMaxEncodedLen stages n := by
  intro stages
  induction stages with
  | nil => intro n; exact Nat.le_refl _
  | cons st rest ih =>
    intro n
    rw [seqMaxEncodedLen]
    refine Nat.le_trans ?_ (ih _)
    split <;> omega

theorem maxLen_le_seqMaxEncodedLen :
    ∀ (stages : List Stage), (∀ st ∈ stages, ∀ a b, a ≤ b → st.maxLen a ≤ st.maxLen b) →
      ∀ n, ∀ st ∈ stages, st.maxLen n ≤ seqMaxEncodedLen stages n := by
  intro stages
  induction stages with
  | nil => intro _ n st hst; cases hst
  | cons s rest ih =>
    intro hm n st hst
    rw [seqMaxEncodedLen]
    rcases List.mem_cons.1 hst with h | h
    · subst h
      refine Nat.le_trans ?_ (le_seqMaxEncodedLen rest _)
      split <;> omega
    · have hm' : ∀ s ∈ rest, ∀ a b, a ≤ b → s.maxLen a ≤ s.maxLen b :=
        fun s hs => hm s (List.mem_cons_of_mem _ hs)
      refine Nat.le_trans (hm st hst n _ ?_) (ih hm' _ st h)
      split <;> omega

/-- sequences of the concrete small transforms, with the buffer sizes the Go sequence uses -/
theorem seq_small_roundtrip (stages : List Stage) (x : List Nat) (req n : Nat)
    (hn : stages.length ≤ 8) (hst : ∀ st ∈ stages, IsSmallStage req n st)
    (hreq : seqMaxEncodedLen stages x.length ≤ req) (hdst : x.length ≤ n)
    (hb : ∀ b ∈ x, b < 256) (hlen : x.length + 1 < 2 ^ 32) :
    seqInverse stages (seqForward stages x).2 (seqForward stages x).1 = .ok x := by
  apply seq_roundtrip (IsBlock x.length) stages x hn ?_ ⟨hb, Nat.le_refl _⟩
  intro st hmem
  have hmono : ∀ s ∈ stages, ∀ a b, a ≤ b → s.maxLen a ≤ s.maxLen b :=
    fun s hs => smallStage_mono req n s (hst s hs)
  have hmax := Nat.le_trans (maxLen_le_seqMaxEncodedLen stages hmono x.length st hmem) hreq
  rcases hst st hmem with h | h | ⟨m, h⟩
  · subst h; exact null_good _ req n hdst
  · subst h
    simp only [zrltStage, zrltMaxEncodedLen] at hmax
    exact zrlt_good _ req n hdst hlen hmax
  · subst h
    simp only [sbrtStage, sbrtMaxEncodedLen] at hmax
    exact sbrt_good m _ req n hdst hmax

end Kanzi.TrSmall
