/-
Model of the lock-free block hand-off protocol of `encodingTask.encode` / `decodingTask.decode`
(v2/io/CompressedStream.go), one batch of N tasks.  Core Lean only (linked into `kmodel`).

Task index `i` (0-based) stands for block id `first + i + 1`; the shared atomic counter
(`processedBlockID`) is `ctr : Option Nat`, `none` = cancel value (-1), `some c` = `first + c`.
Every constructor of `Ev` is one atomic action of the Go code (one load, one compare-and-swap,
one store) or one step that touches no shared protocol state (shared I/O begin / end, failure).
The same step functions are (a) what the theorems of `Properties/C07` quantify over — every N,
every interleaving, every failure point — and (b) what `kmodel proto` runs on the hook traces
recorded from the real code, checking each observed counter value against the model's.

The decode side is the protocol as repaired by the fix for finding F10 (publish by
compare-and-swap, as on the encode side).
-/
namespace Kanzi.Protocol

inductive Pc
  | work   -- enc: compressing (before the wait); dec: unused
  | wait   -- spinning on the counter
  | crit   -- token acquired, shared I/O not started
  | io     -- shared I/O in progress
  | pub    -- dec: shared read finished, about to publish (still holds the token)
  | post   -- dec: concurrent part (entropy decode, inverse transform, checksum)
  | dOk    -- deferred handler, success path: compare-and-swap (id-1 -> id)
  | dErr   -- deferred handler, failure / end-of-stream / saw-cancel (dec) path: store cancel
  | fin    -- counter handled, about to signal the WaitGroup
  | done
deriving DecidableEq, Repr, Inhabited

structure St where
  ctr      : Option Nat
  pc       : Nat → Pc
  failed   : Nat → Bool   -- res.err != nil
  critFail : Nat → Bool   -- failed while holding the token
  eos      : Nat → Bool   -- dec: read the end marker
  log      : List Nat     -- block ids (1-based, relative) whose shared I/O completed, in order

def upd {α : Type} (f : Nat → α) (i : Nat) (v : α) : Nat → α := fun j => if j = i then v else f j

@[simp] theorem upd_same {α : Type} (f : Nat → α) (i : Nat) (v : α) : upd f i v i = v := by simp [upd]
@[simp] theorem upd_other {α : Type} (f : Nat → α) (i : Nat) (v : α) (j : Nat) (h : j ≠ i) :
    upd f i v j = f j := by simp [upd, h]

inductive Ev
  | fail (i : Nat)                    -- failure outside the critical section (enc: work; dec: post)
  | load (i : Nat) (v : Option Nat)   -- atomic load of the counter, value seen
  | ioBegin (i : Nat)
  | ioEnd (i : Nat)                   -- shared I/O of block i+1 completed
  | ioFail (i : Nat)                  -- failure while holding the token (before or during the I/O)
  | ioEos (i : Nat)                   -- dec: the frame read is the end marker
  | pub (i : Nat)                     -- dec: in-line compare-and-swap (i -> i+1) after the shared read
  | postDone (i : Nat)                -- dec: concurrent part finished (decoded or skipped)
  | dpub (i : Nat)                    -- deferred compare-and-swap (i -> i+1)
  | cancel (i : Nat)                  -- deferred store of the cancel value
  | exit (i : Nat)                    -- wg.Done()
deriving DecidableEq, Repr

def Ev.task : Ev → Nat
  | .fail i | .load i _ | .ioBegin i | .ioEnd i | .ioFail i | .ioEos i | .pub i | .postDone i
  | .dpub i | .cancel i | .exit i => i

def cas (ctr : Option Nat) (i : Nat) : Option Nat := if ctr = some i then some (i + 1) else ctr

/-- encode side: tasks start in `work`, counter starts at `some 0` -/
def encInit : St :=
  { ctr := some 0, pc := fun _ => .work, failed := fun _ => false, critFail := fun _ => false,
    eos := fun _ => false, log := [] }

def encStep (s : St) : Ev → Option St
  | .fail i =>
    if s.pc i = .work then some { s with pc := upd s.pc i .dErr, failed := upd s.failed i true } else none
  | .load i v =>
    if (s.pc i = .work ∨ s.pc i = .wait) ∧ v = s.ctr then
      match v with
      | none => some { s with pc := upd s.pc i .dOk }
      | some c => if c = i then some { s with pc := upd s.pc i .crit }
                  else some { s with pc := upd s.pc i .wait }
    else none
  | .ioBegin i => if s.pc i = .crit then some { s with pc := upd s.pc i .io } else none
  | .ioEnd i =>
    if s.pc i = .io then some { s with pc := upd s.pc i .dOk, log := s.log ++ [i + 1] } else none
  | .ioFail i =>
    if s.pc i = .crit ∨ s.pc i = .io then
      some { s with pc := upd s.pc i .dErr, failed := upd s.failed i true, critFail := upd s.critFail i true }
    else none
  | .dpub i => if s.pc i = .dOk then some { s with pc := upd s.pc i .fin, ctr := cas s.ctr i } else none
  | .cancel i => if s.pc i = .dErr then some { s with pc := upd s.pc i .fin, ctr := none } else none
  | .exit i => if s.pc i = .fin then some { s with pc := upd s.pc i .done } else none
  | _ => none

/-- decode side: tasks start in `wait` -/
def decInit : St :=
  { ctr := some 0, pc := fun _ => .wait, failed := fun _ => false, critFail := fun _ => false,
    eos := fun _ => false, log := [] }

def decStep (s : St) : Ev → Option St
  | .load i v =>
    if s.pc i = .wait ∧ v = s.ctr then
      match v with
      | none => some { s with pc := upd s.pc i .dErr }          -- saw cancel: decoded = 0, not skipped
      | some c => if c = i then some { s with pc := upd s.pc i .crit } else some s
    else none
  | .ioBegin i => if s.pc i = .crit then some { s with pc := upd s.pc i .io } else none
  | .ioEos i => if s.pc i = .io then some { s with pc := upd s.pc i .dErr, eos := upd s.eos i true } else none
  | .ioFail i =>
    if s.pc i = .crit ∨ s.pc i = .io then
      some { s with pc := upd s.pc i .dErr, failed := upd s.failed i true, critFail := upd s.critFail i true }
    else none
  | .ioEnd i =>
    if s.pc i = .io then some { s with pc := upd s.pc i .pub, log := s.log ++ [i + 1] } else none
  | .pub i => if s.pc i = .pub then some { s with pc := upd s.pc i .post, ctr := cas s.ctr i } else none
  | .postDone i => if s.pc i = .post then some { s with pc := upd s.pc i .dOk } else none
  | .fail i =>
    if s.pc i = .post then some { s with pc := upd s.pc i .dErr, failed := upd s.failed i true } else none
  | .dpub i => if s.pc i = .dOk then some { s with pc := upd s.pc i .fin, ctr := cas s.ctr i } else none
  | .cancel i => if s.pc i = .dErr then some { s with pc := upd s.pc i .fin, ctr := none } else none
  | .exit i => if s.pc i = .fin then some { s with pc := upd s.pc i .done } else none

/-- one step of a batch of `N` tasks -/
def Step (step : St → Ev → Option St) (N : Nat) (s t : St) : Prop :=
  ∃ e, e.task < N ∧ step s e = some t

inductive Reach (step : St → Ev → Option St) (init : St) (N : Nat) : St → Prop
  | init : Reach step init N init
  | step {s t} : Reach step init N s → Step step N s t → Reach step init N t

/-- run a whole trace (used by the driver); `none` = some event was not an enabled transition -/
def runTrace (step : St → Ev → Option St) (N : Nat) : St → List Ev → Option St
  | s, [] => some s
  | s, e :: es => if e.task < N then (step s e).bind (fun t => runTrace step N t es) else none

def allDone (N : Nat) (s : St) : Prop := ∀ i, i < N → s.pc i = .done

/-- the batch result: first error in task order (`processBlock` scans results in order) -/
def firstFailed : Nat → (Nat → Bool) → Option Nat
  | 0, _ => none
  | n + 1, f => match firstFailed n f with
    | some i => some i
    | none => if f n then some n else none

/-- progress measure: remaining non-spin steps of one task (upper bound) -/
def rank : Pc → Nat
  | .work => 9 | .wait => 8 | .crit => 7 | .io => 6 | .pub => 5 | .post => 4
  | .dOk => 3 | .dErr => 3 | .fin => 1 | .done => 0

def measure : Nat → St → Nat
  | 0, _ => 0
  | n + 1, s => measure n s + rank (s.pc n)

end Kanzi.Protocol
