package main

// proto: run ONE batch-level scenario of the real Writer / Reader under the verif hook, record the
// linearised trace of protocol events (the hook serialises every atomic operation on the shared
// counter between its PRE and POST calls, so the recorded order is the real order), perturb the
// schedule, optionally inject a task failure, and hand scenario+trace to the model (`kmodel proto`)
// which replays it through encStep/decStep.  Compared: acceptance of every event (including the
// counter values observed by every load and after every CAS), the batch outcome (error or not),
// the final counter and the blocks that reached / were taken from the shared stream.

import (
	"bytes"
	"errors"
	"fmt"
	"io"
	"math/rand"
	"runtime"
	"strconv"
	"strings"
	"sync"
	"time"

	"kverif/internal/container"

	"github.com/flanglet/kanzi-go/v2/bitstream"
	kio "github.com/flanglet/kanzi-go/v2/io"
)

type memSink struct {
	bytes.Buffer
	closes int
}

func (s *memSink) Close() error { s.closes++; return nil }

type rdCloser struct{ io.Reader }

func (rdCloser) Close() error { return nil }

type tracer struct {
	mu       sync.Mutex // serialises the atomic operations of the protocol
	lg       sync.Mutex // protects ev
	ev       []string
	first    int32
	rnd      *rand.Rand
	rmu      sync.Mutex
	injTask  int // 0-based task index (within its batch) or -1
	injPoint string
	injBatch int
	batch    int
	readDone map[int32]bool // dec: IO_END seen => next POST_PUB is the in-line publish
	pubDone  map[int32]bool
	eosID    int32 // dec: absolute block id of the end marker frame (0 = none)
	perturb  bool
}

var errInjected = errors.New("injected task failure")

func (t *tracer) add(s string) {
	t.lg.Lock()
	t.ev = append(t.ev, s)
	t.lg.Unlock()
}

func (t *tracer) yield() {
	if !t.perturb {
		return
	}
	t.rmu.Lock()
	x := t.rnd.Intn(16)
	t.rmu.Unlock()
	switch {
	case x < 6:
		runtime.Gosched()
	case x < 8:
		time.Sleep(time.Duration(1+x) * time.Microsecond)
	case x == 8:
		time.Sleep(200 * time.Microsecond)
	}
}

func ctrStr(v int32, first int32) string {
	if v == -1 {
		return "-"
	}
	return strconv.Itoa(int(v - first))
}

func (t *tracer) hook(side, point int, id int32, ctr *int32) {
	idx := int(id - t.first - 1) // task index in its batch
	switch point {
	case kio.VERIF_BATCH_BEGIN:
		t.lg.Lock()
		t.first = id
		t.batch++
		t.readDone = map[int32]bool{}
		t.pubDone = map[int32]bool{}
		t.ev = append(t.ev, fmt.Sprintf("| batch first=%d :", id))
		t.lg.Unlock()
	case kio.VERIF_BATCH_END:
		t.add("end:" + ctrStr(*ctr, t.first))
	case kio.VERIF_START:
		t.yield()
		if t.injPoint == "F" && side == kio.VERIF_ENC && t.injTask == idx && t.injBatch == t.batch {
			t.add(fmt.Sprintf("F%d", idx))
			panic(errInjected)
		}
	case kio.VERIF_PRE_LOAD, kio.VERIF_PRE_PUB, kio.VERIF_PRE_CANCEL:
		t.yield()
		t.mu.Lock()
		if point == kio.VERIF_PRE_PUB && side == kio.VERIF_DEC {
			t.lg.Lock()
			inline := t.readDone[id] && !t.pubDone[id]
			t.lg.Unlock()
			if !inline {
				// deferred CAS on the decode side: the concurrent part is over
				t.add(fmt.Sprintf("W%d", idx))
			}
		}
	case kio.VERIF_POST_LOAD:
		t.add(fmt.Sprintf("L%d:%s", idx, ctrStr(*ctr, t.first)))
		t.mu.Unlock()
	case kio.VERIF_POST_PUB:
		t.lg.Lock()
		inline := side == kio.VERIF_DEC && t.readDone[id] && !t.pubDone[id]
		if inline {
			t.pubDone[id] = true
		}
		t.lg.Unlock()
		if inline {
			t.add(fmt.Sprintf("P%d:%s", idx, ctrStr(*ctr, t.first)))
		} else {
			t.add(fmt.Sprintf("D%d:%s", idx, ctrStr(*ctr, t.first)))
		}
		t.mu.Unlock()
	case kio.VERIF_POST_CANCEL:
		t.add(fmt.Sprintf("C%d", idx))
		t.mu.Unlock()
	case kio.VERIF_IO_BEGIN:
		if t.injPoint == "I" && t.injTask == idx && t.injBatch == t.batch {
			t.add(fmt.Sprintf("I%d", idx))
			panic(errInjected)
		}
		if side == kio.VERIF_DEC && t.eosID != 0 && id == t.eosID {
			t.add(fmt.Sprintf("B%d", idx))
			t.add(fmt.Sprintf("S%d", idx))
		} else {
			t.add(fmt.Sprintf("B%d", idx))
		}
		t.yield()
	case kio.VERIF_IO_END:
		t.lg.Lock()
		t.readDone[id] = true
		t.ev = append(t.ev, fmt.Sprintf("E%d", idx))
		t.lg.Unlock()
		t.yield()
	case kio.VERIF_WORK:
		t.yield()
		if t.injPoint == "F" && side == kio.VERIF_DEC && t.injTask == idx && t.injBatch == t.batch {
			t.add(fmt.Sprintf("F%d", idx))
			panic(errInjected)
		}
	case kio.VERIF_EXIT:
		t.add(fmt.Sprintf("X%d", idx))
	}
}

func patternBlock(id, n int) []byte {
	b := make([]byte, n)
	for i := range b {
		b[i] = byte(id*131 + i*7 + (i >> 8))
	}
	return b
}

// scenario: "proto side=enc n=4 blocks=4 seed=9 inj=none|F1|I2 batch=1 ck=0|32 corrupt=-1|k"
func protoExec(op string, res *Result) string {
	kv := map[string]string{}
	for _, w := range strings.Fields(op)[1:] {
		if i := strings.IndexByte(w, '='); i > 0 {
			kv[w[:i]] = w[i+1:]
		}
	}
	atoi := func(k string, d int) int {
		if v, ok := kv[k]; ok {
			x, err := strconv.Atoi(v)
			if err == nil {
				return x
			}
		}
		return d
	}
	n := atoi("n", 2)
	blocks := atoi("blocks", n)
	seed := atoi("seed", 1)
	ck := atoi("ck", 0)
	corrupt := atoi("corrupt", -1)
	const bs = 1024
	tr := &tracer{rnd: rand.New(rand.NewSource(int64(seed))), injTask: -1, perturb: kv["perturb"] != "0", injBatch: atoi("batch", 1)}
	if inj := kv["inj"]; inj != "" && inj != "none" {
		tr.injPoint = inj[:1]
		tr.injTask, _ = strconv.Atoi(inj[1:])
	}
	kio.VerifHook = tr.hook
	defer func() { kio.VerifHook = nil }()
	var impl string
	done := make(chan struct{})
	var hung bool
	go func() {
		defer close(done)
		if kv["side"] == "enc" {
			impl = protoEnc(tr, n, blocks, bs, ck)
		} else {
			impl = protoDec(tr, n, blocks, bs, ck, corrupt)
		}
	}()
	select {
	case <-done:
	case <-time.After(20 * time.Second):
		hung = true
	}
	if hung {
		buf := make([]byte, 1<<16)
		buf = buf[:runtime.Stack(buf, true)]
		res.Violation = &Violation{Kind: "schedule", Site: "io.hand-off", Symptom: "hang", What: "batch did not terminate within 20 s (tasks waiting forever)",
			Scenario: map[string]any{"stream": "proto", "op": op, "goroutines": string(buf[:min(len(buf), 6000)])}}
		tr.lg.Lock()
		res.ModelOp = op + " " + strings.Join(tr.ev, " ")
		tr.lg.Unlock()
		res.Abort = true
		return "hang"
	}
	tr.lg.Lock()
	trace := strings.Join(tr.ev, " ")
	tr.lg.Unlock()
	res.ModelOp = op + " " + trace
	res.Nontrivial = n > 1
	// distinctness: the interleaving itself
	res.Key = trace
	res.Tags = append(res.Tags, "side:"+kv["side"], "n:"+strconv.Itoa(n), "inj:"+tr.injPoint)
	res.Sample = map[string]any{"scenario": op, "trace": trace[:min(len(trace), 400)], "outcome": impl}
	// direct property oracle on the trace: mutual exclusion and order of shared I/O
	if msg := traceOracle(tr.ev); msg != "" {
		res.Violation = &Violation{Kind: "schedule", Site: "io.hand-off", Symptom: "mutex-or-order", What: msg}
	}
	return impl
}

// traceOracle checks, independently of the Lean model, that B/E events never overlap and ids increase.
func traceOracle(ev []string) string {
	holder := -1
	last := -1
	for _, e := range ev {
		if strings.HasPrefix(e, "|") || strings.HasPrefix(e, "batch") || strings.HasPrefix(e, "first=") || e == ":" {
			holder, last = -1, -1
			continue
		}
		if len(e) < 2 {
			continue
		}
		k, _ := strconv.Atoi(strings.SplitN(e[1:], ":", 2)[0])
		switch e[0] {
		case 'B':
			if holder != -1 {
				return fmt.Sprintf("task %d began shared I/O while task %d was inside", k, holder)
			}
			if k <= last {
				return fmt.Sprintf("task %d began shared I/O after task %d", k, last)
			}
			holder = k
		case 'E', 'S':
			if holder == k {
				holder = -1
				last = k
			}
		case 'C':
			if holder == k {
				holder = -1
				last = k
			}
		}
	}
	return ""
}

func protoEnc(tr *tracer, n, blocks, bs, ck int) string {
	sink := &memSink{}
	obs, _ := bitstream.NewDefaultOutputBitStream(sink, 256*1024)
	ctx := map[string]any{"entropy": "NONE", "transform": "NONE", "blockSize": uint(bs), "jobs": uint(n), "checksum": uint(ck)}
	w, err := kio.NewWriterWithCtx2(obs, ctx)
	if err != nil {
		return "ctor-error " + err.Error()
	}
	var data []byte
	for i := 0; i < blocks; i++ {
		data = append(data, patternBlock(i+1, bs)...)
	}
	_, werr := w.Write(data)
	var cerr error
	if werr == nil {
		cerr = w.Close()
	} else {
		obs.Close()
	}
	e := 0
	if werr != nil || cerr != nil {
		e = 1
	}
	st, perr := container.Parse(sink.Bytes(), false)
	frames := -1
	if perr == nil {
		frames = 0
		for _, f := range st.Frames {
			if f.LenBits > 0 {
				frames++
			}
		}
	}
	return fmt.Sprintf("err=%d frames=%d", e, frames)
}

func protoDec(tr *tracer, n, blocks, bs, ck, corrupt int) string {
	// build the stream with the real writer (1 job, no hook interference: hook records into tr
	// too, so build before installing? the hook is already installed: use a separate tracer-less
	// phase by temporarily disabling it)
	saved := kio.VerifHook
	kio.VerifHook = nil
	sink := &memSink{}
	w, _ := kio.NewWriter(sink, "NONE", "NONE", uint(bs), 1, uint(ck), 0, false)
	for i := 0; i < blocks; i++ {
		w.Write(patternBlock(i+1, bs))
	}
	w.Close()
	comp := append([]byte{}, sink.Bytes()...)
	if corrupt >= 0 && corrupt < blocks {
		if st, err := container.Parse(comp, false); err == nil && corrupt < len(st.Frames) {
			f := st.Frames[corrupt]
			pos := (f.PayOff + f.LenBits/2) / 8
			comp[pos] ^= 0x5A
		}
	}
	kio.VerifHook = saved
	tr.eosID = int32(blocks + 1)
	r, err := kio.NewReader(rdCloser{bytes.NewReader(comp)}, uint(n))
	if err != nil {
		return "ctor-error"
	}
	buf := make([]byte, 700)
	total := 0
	e := 0
	for {
		k, err := r.Read(buf)
		total += k
		if err == io.EOF {
			break
		}
		if err != nil {
			e = 1
			break
		}
	}
	return fmt.Sprintf("err=%d delivered=%d", e, total/bs)
}

func init() {
	registerStream(&Stream{
		Name:   "proto",
		Serial: true,
		Rule:   "one batch-level run of the real Writer/Reader (NONE/NONE, 1 KiB blocks) per scenario under the verif hook with PRNG-perturbed schedule; sides enc/dec x N tasks 1..8 x blocks (partial batches, end marker inside the batch) x injected failure at (task, point in {before wait / in post, inside critical section}) x corrupted frame with checksum; distinct_nontrivial = distinct recorded interleavings (full event traces) with N>1",
		Gen: func(r *rand.Rand, tier string, n int, emit func(op string, tags ...string)) {
			reps := 2
			if tier == "thorough" {
				reps = 40
			}
			for rep := 0; rep < reps; rep++ {
				for _, side := range []string{"enc", "dec"} {
					for N := 1; N <= 8; N++ {
						// no failure, full batch and (dec) short stream
						emit(fmt.Sprintf("proto side=%s n=%d blocks=%d seed=%d inj=none ck=32", side, N, N, r.Intn(1<<30)))
						emit(fmt.Sprintf("proto side=%s n=%d blocks=%d seed=%d inj=none ck=0", side, N, 2*N+1, r.Intn(1<<30)))
						if side == "dec" && N > 1 {
							emit(fmt.Sprintf("proto side=dec n=%d blocks=%d seed=%d inj=none ck=0", N, N-1, r.Intn(1<<30)))
							emit(fmt.Sprintf("proto side=dec n=%d blocks=%d seed=%d inj=none ck=32 corrupt=%d", N, N, r.Intn(1<<30), r.Intn(N)))
						}
						for k := 0; k < N; k++ {
							for _, p := range []string{"F", "I"} {
								emit(fmt.Sprintf("proto side=%s n=%d blocks=%d seed=%d inj=%s%d ck=0", side, N, N, r.Intn(1<<30), p, k))
							}
						}
					}
				}
			}
		},
		Exec: protoExec,
	})
}
