/-
Stream level for the generic block codec (`Kanzi/Model/BlockGen.lean`): the byte image of a whole
stream parses back to the blocks, and its size is what the Writer model charges.
-/
import Kanzi.Proofs.BlockGenInst
import Kanzi.Proofs.Writer
import Kanzi.Proofs.C01
import Kanzi.Proofs.BlockGenNone

namespace Kanzi.BlockGen
open Kanzi.Bits Kanzi.TrSmall Kanzi.Block

/-! ### size of a payload -/

theorem encodeOf_shape (copy : Bool) (n : Nat) (ent : Ent) (ckw sum : Nat) (f : List Nat × Nat) (p : Bits)
    (h : encodeOf copy n ent ckw sum f = .ok p) :
    ∃ e, ent.enc f.1 = some e ∧ 8 ≤ p.length ∧ p.length ≤ 48 + ckw + e.length := by
  unfold encodeOf at h
  simp only at h
  split at h
  · cases h
  · split at h
    · cases h
    · rename_i h4
      cases he : ent.enc f.1 with
      | none => rw [he] at h; cases h
      | some e =>
        rw [he] at h
        injection h with h
        subst h
        refine ⟨e, rfl, ?_, ?_⟩
        · simp only [List.length_append, natBits_length]; omega
        · have hx := extraBits_length (encodeMode ((if copy = true then 0x80 else 0) |||
            (((dataSizeGen f.1.length - 1) &&& 3) <<< 5)) f.2 n).2
          simp only [List.length_append, natBits_length]
          omega

theorem encodeWith_shape (copy : Bool) (trs : List Tr) (ent : Ent) (ckw sum : Nat) (lim : Option Nat)
    (b : List Nat) (p : Bits) (h : encodeWith copy trs ent ckw sum lim b = .ok p) :
    ∃ e, ent.enc (fallback lim (seqMaxLen trs b.length) b (seqForward (fwdStages trs b.length) b)).1 = some e ∧
      8 ≤ p.length ∧ p.length ≤ 48 + ckw + e.length :=
  encodeOf_shape copy trs.length ent ckw sum _ p h

/-- a payload that fits the reader's frame bound -/
def FrameFit (B : Nat) (p : Bits) : Prop := 0 < p.length ∧ p.length < 2 ^ 34 ∧ p.length ≤ maxFrameBits B

theorem frameFit_of_le (B n : Nat) (p : Bits) (h8 : 8 ≤ p.length) (hn : n ≤ B) (hB : B ≤ 2 ^ 30)
    (hp : p.length ≤ 48 + 64 + 8 * n) : FrameFit B p := by
  have hm := le_maxTransformLength n B hn (by omega)
  have hmt : maxTransformLength B ≤ 2 ^ 30 := by unfold maxTransformLength; omega
  unfold FrameFit
  simp only [maxFrameBits]
  omega

theorem maxFrameBits_lt (B : Nat) : maxFrameBits B < 2 ^ 34 := by
  have hmt : maxTransformLength B ≤ 2 ^ 30 := by unfold maxTransformLength; omega
  simp only [maxFrameBits]
  omega

theorem ckWidth_le (ck : Nat) : ckWidth ck ≤ 64 := by
  rcases ckWidth_cases ck with h | h | h <;> omega

/-- entropy NONE: the payload of a block of the small transforms is at most 14 bytes longer than the block -/
theorem small_none_fit (c : Cfg) (B : Nat) (b : List Nat) (p : Bits)
    (hn : c.trs.length ≤ 8) (hs : ∀ t ∈ c.trs, IsSmallTr t) (hent : c.ent = noneEnt)
    (hbytes : ∀ x ∈ b, x < 256) (hb0 : 0 < b.length) (hB : b.length ≤ B) (hmax : B ≤ 2 ^ 30)
    (h : encodeTaskGen c b = .ok p) : FrameFit B p := by
  unfold encodeTaskGen at h
  have hck := ckWidth_le c.ck
  by_cases hc : isCopy c b = true
  · rw [if_pos hc] at h
    obtain ⟨e, he, h8, hle⟩ := encodeWith_shape _ _ _ _ _ _ _ _ h
    have hfb : (fallback c.bs (seqMaxLen [nullTr] b.length) b (seqForward (fwdStages [nullTr] b.length) b)).1 = b := by
      rcases fallback_null c.bs (seqMaxLen [nullTr] b.length) b hb0 with h' | h' <;> rw [h']
    rw [hfb] at he
    have : e = ofBytes b := by
      have h2 : noneEnt.enc b = some (ofBytes b) := by
        show some (EntSmall.nullEncode b) = _
        rw [EntSmall.nullEncode_eq]
      rw [h2] at he; injection he with he; exact he.symm
    subst this
    rw [ofBytes_length] at hle
    exact frameFit_of_le B b.length p h8 hB hmax (by omega)
  · rw [if_neg hc] at h
    obtain ⟨e, he, h8, hle⟩ := encodeWith_shape _ _ _ _ _ _ _ _ h
    have hne : b ≠ [] := fun h => by rw [h] at hb0; exact Nat.lt_irrefl 0 hb0
    have hseq := seqLaw_small c.trs hn hs b.length (taskBlockLength B) (by omega)
      (Nat.le_trans hB (taskBlockLength_ge B))
    have hS : ∀ st ∈ stagesOf c.trs (seqMaxLen c.trs b.length) (taskBlockLength B),
        st.GoodOn (IsBlock b.length) := by
      intro st hst
      obtain ⟨t, ht, rfl⟩ := List.mem_map.mp hst
      exact hseq.2 t ht _ _ (Nat.le_refl _) (Nat.le_refl _)
    have hfS : seqForward (fwdStages c.trs b.length) b =
        seqForward (stagesOf c.trs (seqMaxLen c.trs b.length) (taskBlockLength B)) b :=
      seqForward_stagesOf c.trs _ 0 _ b
    obtain ⟨hDt, _⟩ := seqForward_inD (IsBlock b.length) _ b hS ⟨hbytes, Nat.le_refl _⟩ hne
    rw [← hfS] at hDt
    rw [hent] at he
    have hlen : (fallback c.bs (seqMaxLen c.trs b.length) b (seqForward (fwdStages c.trs b.length) b)).1.length ≤ b.length := by
      rcases fallback_cases c.bs (seqMaxLen c.trs b.length) b (seqForward (fwdStages c.trs b.length) b) with h' | h' <;> rw [h']
      exact hDt.2
    have : e = ofBytes (fallback c.bs (seqMaxLen c.trs b.length) b (seqForward (fwdStages c.trs b.length) b)).1 := by
      have h2 : noneEnt.enc (fallback c.bs (seqMaxLen c.trs b.length) b (seqForward (fwdStages c.trs b.length) b)).1 =
          some (ofBytes (fallback c.bs (seqMaxLen c.trs b.length) b (seqForward (fwdStages c.trs b.length) b)).1) := by
        show some (EntSmall.nullEncode _) = _
        rw [EntSmall.nullEncode_eq]
      rw [h2] at he; injection he with he; exact he.symm
    subst this
    rw [ofBytes_length] at hle
    exact frameFit_of_le B b.length p h8 hB hmax (by omega)

/-! ### the blocks of a stream -/

/-- what the stream-level theorems need to know about one block: the encoder (configuration `ce`)
succeeds, the decoder (configuration `cd`) returns the block, the payload fits a frame -/
def BlockOK (ce cd : Cfg) (B : Nat) (b : List Nat) : Prop :=
  ∃ p, encodeTaskGen ce b = .ok p ∧ decodeTaskGen cd B p = ⟨b.length, .ok b⟩ ∧ FrameFit B p

theorem payloadOf_of_ok (c : Cfg) (b : List Nat) (p : Bits) (h : encodeTaskGen c b = .ok p) :
    payloadOf c b = p := by
  unfold payloadOf; rw [h]

theorem encodeBlocks_ok (ce cd : Cfg) (B : Nat) (blocks : List (List Nat))
    (h : ∀ b ∈ blocks, BlockOK ce cd B b) :
    encodeBlocks ce blocks = .ok (blocks.map (payloadOf ce)) := by
  induction blocks with
  | nil => rfl
  | cons b bs ih =>
    obtain ⟨p, hp, _, _⟩ := h b (by simp)
    rw [encodeBlocks, hp, ih (fun q hq => h q (by simp [hq]))]
    simp only [List.map_cons, payloadOf_of_ok ce b p hp]

theorem decodeFrames_stream (ce cd : Cfg) (B : Nat) (blocks : List (List Nat))
    (h : ∀ b ∈ blocks, BlockOK ce cd B b ∧ 0 < b.length ∧ b.length ≤ B) :
    decodeFrames cd B (blocks.map (fun b => Container.Item.payload (payloadOf ce b)) ++
      [Container.Item.endMark]) = (blocks, .endOfStream) := by
  induction blocks with
  | nil => simp [decodeFrames]
  | cons b bs ih =>
    obtain ⟨⟨p, hp, hd, _⟩, h0, hB⟩ := h b (by simp)
    have ih' := ih (fun q hq => h q (by simp [hq]))
    simp only [List.map_cons, List.cons_append]
    rw [decodeFrames, payloadOf_of_ok ce b p hp, hd]
    simp only [ih']
    rw [if_neg (by omega), if_neg (by omega)]

theorem payloads_fit (ce cd : Cfg) (B : Nat) (blocks : List (List Nat))
    (h : ∀ b ∈ blocks, BlockOK ce cd B b) :
    ∀ p ∈ blocks.map (payloadOf ce), 0 < p.length ∧ p.length < 2 ^ 34 ∧ p.length ≤ maxFrameBits B := by
  intro p hp
  obtain ⟨b, hb, rfl⟩ := List.mem_map.mp hp
  obtain ⟨q, hq, _, hf⟩ := h b hb
  rw [payloadOf_of_ok ce b q hq]
  exact hf

/-- the whole image: written by a Writer whose tasks use `ce`, read with the configuration `cd`
announced by the header -/
theorem parseImageGen_streamImageGen (h : Header.Header) (wf : Header.WF h) (ce cd : Cfg)
    (hcfg : cfgOfHeader h false = some cd) (blocks : List (List Nat))
    (hok : ∀ b ∈ blocks, BlockOK ce cd h.blockSize b ∧ 0 < b.length ∧ b.length ≤ h.blockSize) :
    ∃ img, streamImageGen h ce blocks = .ok img ∧
      img = packBytes (streamBitsOf h (blocks.map (payloadOf ce))) ∧
      parseImageGen img = (some h, blocks, .endOfStream) := by
  have hok1 : ∀ b ∈ blocks, BlockOK ce cd h.blockSize b := fun b hb => (hok b hb).1
  refine ⟨_, ?_, rfl, ?_⟩
  · unfold streamImageGen
    rw [encodeBlocks_ok ce cd h.blockSize blocks hok1]
  · unfold parseImageGen streamBitsOf
    rw [ofBytes_packBytes, List.append_assoc, List.append_assoc, Header.parseHeader_headerBits h wf]
    simp only [hcfg]
    rw [← List.append_assoc,
      parseFrames_stream h.blockSize _ _ (payloads_fit ce cd h.blockSize blocks hok1) _
      (by
        have := flatMap_frameBits_length (blocks.map (payloadOf ce))
        simp only [List.length_append, List.length_map] at this ⊢
        omega)]
    rw [List.map_map]
    have := decodeFrames_stream ce cd h.blockSize blocks hok
    simp only [Function.comp_def]
    rw [this]

/-! ### size of the image -/

theorem streamBitsOf_length (h : Header.Header) (c : Cfg) (blocks : List (List Nat)) :
    (streamBitsOf h (blocks.map (payloadOf c))).length =
      (Header.headerBits h).length + (blocks.map (frameBitsGen c)).sum + 8 := by
  unfold streamBitsOf
  rw [List.length_append, List.length_append, Container.endMarker_length]
  congr 2
  induction blocks with
  | nil => simp
  | cons b bs ih =>
    rw [List.map_cons, List.flatMap_cons, List.length_append, ih]
    simp [frameBitsGen]

/-! ### the configuration announced by a header of the modelled codecs -/

theorem tokenTr_small (t : Nat) (tr : Tr) (h : tokenTr t = some tr) : IsSmallTr tr := by
  unfold tokenTr at h
  split at h
  · injection h with h; exact Or.inl h.symm
  · split at h
    · injection h with h; exact Or.inr (Or.inl h.symm)
    · split at h
      · injection h with h; exact Or.inr (Or.inr ⟨1, h.symm⟩)
      · split at h
        · injection h with h; exact Or.inr (Or.inr ⟨2, h.symm⟩)
        · cases h

theorem mapM_tokenTr_small : ∀ (ts : List Nat) (trs : List Tr), ts.mapM tokenTr = some trs →
    trs.length = ts.length ∧ ∀ t ∈ trs, IsSmallTr t := by
  intro ts
  induction ts with
  | nil => intro trs h; simp at h; subst h; simp
  | cons t ts ih =>
    intro trs h
    rw [List.mapM_cons] at h
    cases h1 : tokenTr t with
    | none => rw [h1] at h; simp at h
    | some tr =>
      cases h2 : ts.mapM tokenTr with
      | none => rw [h1, h2] at h; simp at h
      | some rest =>
        rw [h1, h2] at h
        simp at h
        subst h
        obtain ⟨i1, i2⟩ := ih rest h2
        refine ⟨by simp [i1], ?_⟩
        intro u hu
        rcases List.mem_cons.mp hu with rfl | hu
        · exact tokenTr_small t _ h1
        · exact i2 u hu

theorem seqTokens_length (ft : Nat) : (seqTokens ft).length ≤ 8 := by
  unfold seqTokens
  simp only [List.length_map]
  refine Nat.le_trans (List.length_filter_le _ _) ?_
  rw [List.length_range]
  have : ((List.range 8).filter (fun i => Header.slot ft i ≠ 0)).length ≤ 8 := by
    have := List.length_filter_le (fun i => decide (Header.slot ft i ≠ 0)) (List.range 8)
    simpa using this
  split <;> omega

theorem newSeq_small (ft : Nat) (trs : List Tr) (h : newSeq ft = some trs) :
    trs.length ≤ 8 ∧ ∀ t ∈ trs, IsSmallTr t := by
  obtain ⟨h1, h2⟩ := mapM_tokenTr_small _ _ h
  exact ⟨by rw [h1]; exact seqTokens_length ft, h2⟩

theorem cfgOfHeader_spec (h : Header.Header) (sb : Bool) (c : Cfg) (hc : cfgOfHeader h sb = some c) :
    c.ck = 32 * h.ckSize ∧ c.skipBlocks = sb ∧ c.trs.length ≤ 8 ∧ (∀ t ∈ c.trs, IsSmallTr t) ∧
      ((h.entropyType = 0 ∧ c.ent = noneEnt) ∨ (h.entropyType = 5 ∧ c.ent = ans0Ent)) := by
  unfold cfgOfHeader at hc
  cases h1 : newSeq h.transformType with
  | none => rw [h1] at hc; simp at hc
  | some trs =>
    cases h2 : entOf h.entropyType with
    | none => rw [h1, h2] at hc; simp at hc
    | some ent =>
      rw [h1, h2] at hc
      simp only [Option.some.injEq] at hc
      subst hc
      obtain ⟨a1, a2⟩ := newSeq_small _ _ h1
      refine ⟨rfl, rfl, a1, a2, ?_⟩
      unfold entOf at h2
      split at h2
      · rename_i he; injection h2 with h2; exact Or.inl ⟨he, h2.symm⟩
      · split at h2
        · rename_i he; injection h2 with h2; exact Or.inr ⟨he, h2.symm⟩
        · cases h2

/-! ### the Writer model and the byte image -/

/-- Run the Writer model with the frame size of the generic encoder; take the byte image of the
header and of the blocks it emitted; read it back. -/
theorem end_to_end (h : Header.Header) (wf : Header.WF h) (ce cd : Cfg)
    (hcfg : cfgOfHeader h false = some cd)
    (c : Writer.Cfg) (hB : c.B = h.blockSize) (hJ : 0 < c.J) (hhl : c.headless = false)
    (hhb : c.headerBits = (Header.headerBits h).length) (hfb : c.frameBits = frameBitsGen ce)
    (parts : List (List Nat)) (hbytes : ∀ d ∈ parts, ∀ x ∈ d, x < 256)
    (hok : ∀ b ∈ Spec.chunks c.B parts.flatten, 0 < b.length → b.length ≤ h.blockSize →
      (∀ x ∈ b, x < 256) → BlockOK ce cd h.blockSize b) :
    ∃ img, streamImageGen h ce (Writer.run c (Writer.init c) (Writer.healthyProgram parts)).1.emitted = .ok img ∧
      img.length = Writer.getWritten (Writer.run c (Writer.init c) (Writer.healthyProgram parts)).1 ∧
      (parseImageGen img).1 = some h ∧ (parseImageGen img).2.2 = Stop.endOfStream ∧
      (parseImageGen img).2.1.flatten = parts.flatten := by
  have hBpos : 0 < c.B := by have := wf.bsLo; omega
  have hem : (Writer.run c (Writer.init c) (Writer.healthyProgram parts)).1.emitted =
      Spec.chunks c.B parts.flatten := (Writer.healthy_run c hBpos hJ parts).2.1
  have hcv := Kanzi.C01.chunks_valid c.B hBpos parts.flatten
  have hv : ∀ b ∈ Spec.chunks c.B parts.flatten,
      BlockOK ce cd h.blockSize b ∧ 0 < b.length ∧ b.length ≤ h.blockSize := by
    intro b hb
    have hl := hcv.1.1 b hb
    have hx : ∀ x ∈ b, x < 256 := by
      intro x hx
      have hx' := mem_of_mem_chunks c.B parts.flatten b hb x hx
      obtain ⟨d, hd, hxd⟩ := List.mem_flatten.mp hx'
      exact hbytes d hd x hxd
    exact ⟨hok b hb hl.1 (by omega) hx, hl.1, by omega⟩
  rw [hem]
  obtain ⟨img, h1, h2, h3⟩ := parseImageGen_streamImageGen h wf ce cd hcfg _ hv
  refine ⟨img, h1, ?_, by rw [h3], by rw [h3], by rw [h3]; exact hcv.2⟩
  rw [h2, packBytes_length, streamBitsOf_length, Writer.getWritten_final c hBpos hJ parts, hhl, hhb, hfb]
  simp

/-! ### NONE / NONE: the generic image is the image of `Kanzi/Model/Block.lean` -/

theorem encodeBlocks_none (ck : Nat) (blocks : List (List Nat))
    (hv : ∀ b ∈ blocks, 0 < b.length ∧ b.length ≤ 2 ^ 30) :
    encodeBlocks (noneCfg ck) blocks = .ok (blocks.map (encodeNone ck)) := by
  induction blocks with
  | nil => rfl
  | cons b bs ih =>
    have hb := hv b (by simp)
    rw [encodeBlocks, encodeTaskGen_none ck b hb.1 hb.2, ih (fun q hq => hv q (by simp [hq]))]
    rfl

theorem streamImageGen_none (h : Header.Header) (ck : Nat) (blocks : List (List Nat))
    (hv : ∀ b ∈ blocks, 0 < b.length ∧ b.length ≤ 2 ^ 30) :
    streamImageGen h (noneCfg ck) blocks = .ok (streamImage h ck blocks) := by
  unfold streamImageGen
  rw [encodeBlocks_none ck blocks hv]
  simp only [streamImage, streamBitsOf, streamBits_eq, List.append_assoc]

theorem streamImageGenFast_eq (h : Header.Header) (c : Cfg) (blocks : List (List Nat)) :
    streamImageGenFast h c blocks = streamImageGen h c blocks := by
  unfold streamImageGenFast streamImageGen
  cases encodeBlocks c blocks with
  | error e => rfl
  | ok ps => simp only [packFast_eq]

end Kanzi.BlockGen
