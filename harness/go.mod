module kverif

go 1.24

require github.com/flanglet/kanzi-go/v2 v2.0.0

replace github.com/flanglet/kanzi-go/v2 => /repo/v2

require kanziref/v2 v2.0.0

replace kanziref/v2 => ../ref/kanzi-go-v2
