/-
Proofs about the total model of `RangeDecoder.Read` (`Kanzi/Model/RangeDec.lean`), property C03:
termination (no loop of the model runs out of fuel), the failure classes that can occur (never a
division by zero, never an index fault inside `decodeHeader`), the bound on the only allocation
(`f2s`), and agreement with the decoder of the round-trip theorems (`Kanzi.Range.decode`).
-/
import Kanzi.Model.RangeDec
import Kanzi.Proofs.RangeChunk

namespace Kanzi.RangeDec
open Kanzi.Bits Kanzi.EntSmall Kanzi.Range

/-! ### A. the renormalisation loop -/

theorem readBits_len (n : Nat) (bs : Bits) (v : Nat) (r : Bits) (h : readBits n bs = some (v, r)) :
    r.length + n = bs.length := by
  unfold readBits at h
  split at h
  · simp only [Option.some.injEq, Prod.mk.injEq] at h
    obtain ⟨_, rfl⟩ := h
    rw [List.length_drop]; omega
  · cases h

theorem readBits_lt (n : Nat) (bs : Bits) (v : Nat) (r : Bits) (h : readBits n bs = some (v, r)) :
    v < 2 ^ n := by
  unfold readBits at h
  split at h
  · simp only [Option.some.injEq, Prod.mk.injEq] at h
    obtain ⟨rfl, _⟩ := h
    exact bitsNat_take_lt bs n
  · cases h

/-- every round reads 28 bits: with `len/28 + 1` rounds of fuel the loop never runs dry -/
theorem normC_no_hang : ∀ (fuel low rng code : Nat) (bs : Bits), bs.length / 28 + 1 ≤ fuel →
    normC fuel low rng code bs ≠ .fail .hang := by
  intro fuel
  induction fuel with
  | zero => intro _ _ _ bs h; omega
  | succ fuel ih =>
    intro low rng code bs h
    simp only [normC]
    cases hn : normRng low rng with
    | none => intro hc; cases hc
    | some r =>
      cases hr : readBits 28 bs with
      | none => intro hc; cases hc
      | some p =>
        obtain ⟨w, bs'⟩ := p
        have := readBits_len 28 bs w bs' hr
        exact ih _ _ _ bs' (by omega)

/-- the only failures of the loop: the bitstream runs out, or the fuel -/
theorem normC_cls : ∀ (fuel low rng code : Nat) (bs : Bits) (c : Cls),
    normC fuel low rng code bs = .fail c → c = .eos ∨ c = .hang := by
  intro fuel
  induction fuel with
  | zero => intro _ _ _ _ c h; simp only [normC] at h; cases h; exact Or.inr rfl
  | succ fuel ih =>
    intro low rng code bs c h
    simp only [normC] at h
    cases hn : normRng low rng with
    | none => rw [hn] at h; cases h
    | some r =>
      rw [hn] at h
      cases hr : readBits 28 bs with
      | none => rw [hr] at h; cases h; exact Or.inl rfl
      | some p =>
        obtain ⟨w, bs'⟩ := p
        rw [hr] at h
        exact ih _ _ _ _ c h

/-- the loop leaves only through its `break`: `rng > BOTTOM` afterwards -/
theorem normC_ok_bottom : ∀ (fuel low rng code : Nat) (bs : Bits) (l g cd : Nat) (bs' : Bits),
    normC fuel low rng code bs = .ok (l, g, cd) bs' → bottomRange < g := by
  intro fuel
  induction fuel with
  | zero => intro _ _ _ _ _ _ _ _ h; simp only [normC] at h; cases h
  | succ fuel ih =>
    intro low rng code bs l g cd bs' h
    simp only [normC] at h
    cases hn : normRng low rng with
    | none =>
      rw [hn] at h
      cases h
      exact normRng_none _ _ hn
    | some r =>
      rw [hn] at h
      cases hr : readBits 28 bs with
      | none => rw [hr] at h; cases h
      | some p =>
        obtain ⟨w, bs1⟩ := p
        rw [hr] at h
        exact ih _ _ _ _ _ _ _ _ h

theorem normC_ok_inv : ∀ (fuel low rng code : Nat) (bs : Bits) (l g cd : Nat) (bs' : Bits),
    Inv low rng → normC fuel low rng code bs = .ok (l, g, cd) bs' → Inv l g := by
  intro fuel
  induction fuel with
  | zero => intro _ _ _ _ _ _ _ _ _ h; simp only [normC] at h; cases h
  | succ fuel ih =>
    intro low rng code bs l g cd bs' hi h
    simp only [normC] at h
    cases hn : normRng low rng with
    | none =>
      rw [hn] at h
      cases h
      exact hi
    | some r =>
      rw [hn] at h
      cases hr : readBits 28 bs with
      | none => rw [hr] at h; cases h
      | some p =>
        obtain ⟨w, bs1⟩ := p
        rw [hr] at h
        exact ih _ _ _ _ _ _ _ _ (norm_round low rng r hi hn).1 h

/-- more fuel changes nothing once the loop has terminated -/
theorem normC_mono : ∀ (fuel k low rng code : Nat) (bs : Bits),
    normC fuel low rng code bs ≠ .fail .hang →
    normC (fuel + k) low rng code bs = normC fuel low rng code bs := by
  intro fuel
  induction fuel with
  | zero => intro k low rng code bs h; simp only [normC] at h; exact absurd rfl h
  | succ fuel ih =>
    intro k low rng code bs h
    have hk : fuel + 1 + k = (fuel + k) + 1 := by omega
    rw [hk]
    simp only [normC] at h ⊢
    cases hn : normRng low rng with
    | none => rfl
    | some r =>
      rw [hn] at h
      cases hr : readBits 28 bs with
      | none => rfl
      | some p =>
        obtain ⟨w, bs1⟩ := p
        rw [hr] at h
        exact ih k _ _ _ _ h

/-- `Option` result of the old model as a classified result: `none` can only be the end of stream -/
def ofOpt {α : Type} : Option (α × Bits) → Res α
  | none => .fail .eos
  | some (v, r) => .ok v r

theorem normC_decNorm : ∀ (fuel low rng code : Nat) (bs : Bits),
    normC fuel low rng code bs ≠ .fail .hang →
    normC fuel low rng code bs = ofOpt (decNorm fuel low rng code bs) := by
  intro fuel
  induction fuel with
  | zero => intro low rng code bs h; simp only [normC] at h; exact absurd rfl h
  | succ fuel ih =>
    intro low rng code bs h
    simp only [normC, decNorm] at h ⊢
    cases hn : normRng low rng with
    | none => rfl
    | some r =>
      rw [hn] at h
      cases hr : readBits 28 bs with
      | none => rfl
      | some p =>
        obtain ⟨w, bs1⟩ := p
        rw [hr] at h
        exact ih _ _ _ _ h

theorem normC_inv_no_hang : ∀ (fuel low rng code : Nat) (bs : Bits), Inv low rng → FuelOk rng fuel →
    normC fuel low rng code bs ≠ .fail .hang := by
  intro fuel
  induction fuel with
  | zero => intro _ _ _ _ _ hf; have := hf.2.2; omega
  | succ fuel ih =>
    intro low rng code bs hi hf
    simp only [normC]
    cases hn : normRng low rng with
    | none => intro hc; cases hc
    | some r =>
      cases hr : readBits 28 bs with
      | none => intro hc; cases hc
      | some p =>
        obtain ⟨w, bs1⟩ := p
        exact ih _ _ _ _ (norm_round low rng r hi hn).1 (fuelOk_round low rng r fuel hi hn hf)

/-- from a state satisfying the invariant of the round-trip proofs, the loop of this model (fuel
    `len/28 + 1`) and the loop of `Kanzi.Range` (fuel 64) compute the same thing -/
theorem norm_agree (low rng code : Nat) (bs : Bits) (hi : Inv low rng) (v : Nat × Nat × Nat) (r : Bits)
    (h : decNorm normFuel low rng code bs = some (v, r)) :
    normC (normFuelC bs) low rng code bs = .ok v r := by
  have f3 : FuelOk rng 3 := by unfold FuelOk; omega
  have a := normC_inv_no_hang 3 low rng code bs hi f3
  have e1 := normC_decNorm 3 low rng code bs a
  have e2 : decNorm normFuel low rng code bs = decNorm 3 low rng code bs :=
    decNorm_fuel 3 61 low rng code bs hi f3
  have b := normC_no_hang (normFuelC bs) low rng code bs (Nat.le_refl _)
  have e3 : normC (normFuelC bs) low rng code bs = normC 3 low rng code bs := by
    rcases Nat.le_total 3 (normFuelC bs) with hle | hle
    · obtain ⟨k, hk⟩ := Nat.exists_eq_add_of_le hle
      rw [hk]; exact normC_mono 3 k _ _ _ _ a
    · obtain ⟨k, hk⟩ := Nat.exists_eq_add_of_le hle
      have := normC_mono (normFuelC bs) k low rng code bs b
      rw [← hk] at this
      exact this.symm
  rw [e3, e1, ← e2, h]
  rfl

end Kanzi.RangeDec
