/-
Proofs about `Kanzi.Jobs.computeJobsPerTask` (model of `internal.ComputeJobsPerTask`) and the
chunk ranges derived from it in `BWT.inverseBiPSIv2`.  Core Lean only.
-/
import Kanzi.Model.Jobs

namespace Kanzi.Jobs

/-! ### the increment loop -/

theorem bump_cons_succ (x : Nat) (l : List Nat) (n : Nat) :
    bump (x :: l) (n + 1) = x :: bump l n := by
  simp [bump]

theorem bump_cons_zero (x : Nat) (l : List Nat) : bump (x :: l) 0 = (x + 1) :: l := by
  simp [bump]

/-- incrementing the first not-yet-incremented entry -/
theorem bump_block (q a b : Nat) :
    bump (List.replicate a (q + 1) ++ List.replicate (b + 1) q) a
      = List.replicate (a + 1) (q + 1) ++ List.replicate b q := by
  induction a with
  | zero => simp [List.replicate_succ, bump_cons_zero]
  | succ a ih =>
    rw [List.replicate_succ, List.cons_append, bump_cons_succ, ih]
    simp [List.replicate_succ]

/-- the loop started at index `a` with the first `a` entries already incremented and `r ≤ b`
increments left never reaches the wrap-around with work left: it increments entries
`a .. a+r-1`. -/
theorem spread_block (tasks q : Nat) :
    ∀ (r a b : Nat), a + b = tasks → r ≤ b →
      spread tasks r a (List.replicate a (q + 1) ++ List.replicate b q)
        = List.replicate (a + r) (q + 1) ++ List.replicate (b - r) q := by
  intro r
  induction r with
  | zero => intro a b _ _; simp [spread]
  | succ r ih =>
    intro a b hab hr
    obtain ⟨b', rfl⟩ : ∃ b', b = b' + 1 := ⟨b - 1, by omega⟩
    rw [spread, bump_block]
    by_cases hw : a + 1 = tasks
    · -- wrap-around: then no increment is left
      have hr0 : r = 0 := by omega
      subst hr0
      simp [spread]
    · rw [if_neg hw, ih (a + 1) b' (by omega) (by omega)]
      have e1 : a + 1 + r = a + (r + 1) := by omega
      have e2 : b' + 1 - (r + 1) = b' - r := by omega
      rw [e1, e2]

theorem spread_zero (tasks n : Nat) (l : List Nat) : spread tasks 0 n l = l := by
  simp [spread]

/-! ### closed form of the result -/

/-- the distribution the Go code is meant to compute: `jobs % tasks` tasks get one job more -/
def expected (jobs tasks : Nat) : List Nat :=
  if jobs ≤ tasks then List.replicate tasks 1
  else List.replicate (jobs % tasks) (jobs / tasks + 1)
        ++ List.replicate (tasks - jobs % tasks) (jobs / tasks)

theorem computeJobsPerTask_eq (jobs tasks : Nat) (ht : 0 < tasks) (hj : 0 < jobs) :
    computeJobsPerTask jobs tasks = .ok (expected jobs tasks) := by
  unfold computeJobsPerTask expected
  rw [if_neg (by omega), if_neg (by omega)]
  by_cases hle : jobs ≤ tasks
  · simp only [if_pos hle, spread_zero]
  · simp only [if_neg hle]
    have hr : jobs - jobs / tasks * tasks = jobs % tasks := by
      have h1 := Nat.div_add_mod jobs tasks
      have h2 : jobs / tasks * tasks = tasks * (jobs / tasks) := Nat.mul_comm _ _
      omega
    rw [hr]
    have hlt : jobs % tasks < tasks := Nat.mod_lt _ ht
    have h := spread_block tasks (jobs / tasks) (jobs % tasks) 0 tasks (by omega) (by omega)
    simp only [List.replicate_zero, List.nil_append, Nat.zero_add] at h
    rw [h]

theorem computeJobsPerTask_err_iff (jobs tasks : Nat) :
    (∃ e, computeJobsPerTask jobs tasks = .error e) ↔ (tasks = 0 ∨ jobs = 0) := by
  constructor
  · rintro ⟨e, he⟩
    by_cases ht : tasks = 0
    · exact Or.inl ht
    · by_cases hj : jobs = 0
      · exact Or.inr hj
      · rw [computeJobsPerTask_eq jobs tasks (by omega) (by omega)] at he
        cases he
  · intro h
    unfold computeJobsPerTask
    by_cases ht : tasks = 0
    · exact ⟨_, by rw [if_pos ht]⟩
    · have hj : jobs = 0 := by omega
      exact ⟨_, by rw [if_neg ht, if_pos hj]⟩

/-! ### properties of the closed form -/

theorem expected_length (jobs tasks : Nat) (ht : 0 < tasks) :
    (expected jobs tasks).length = tasks := by
  unfold expected
  have hlt : jobs % tasks < tasks := Nat.mod_lt _ ht
  split
  · simp
  · simp only [List.length_append, List.length_replicate]; omega

theorem expected_sum_ge (jobs tasks : Nat) (ht : 0 < tasks) (hle : tasks ≤ jobs) :
    (expected jobs tasks).sum = jobs := by
  unfold expected
  have hlt : jobs % tasks < tasks := Nat.mod_lt _ ht
  have hdm := Nat.div_add_mod jobs tasks
  split
  · have : jobs = tasks := by omega
    simp [List.sum_replicate_nat, this]
  · simp only [List.sum_append, List.sum_replicate_nat]
    generalize jobs / tasks = q at *
    generalize jobs % tasks = r at *
    have e1 : r * (q + 1) = r * q + r := by rw [Nat.mul_add, Nat.mul_one]
    have e2 : (tasks - r) * q + r * q = tasks * q := by
      rw [← Nat.add_mul]; congr 1; omega
    omega

theorem expected_sum_lt (jobs tasks : Nat) (hlt : jobs ≤ tasks) :
    expected jobs tasks = List.replicate tasks 1 := by
  unfold expected; rw [if_pos hlt]

/-- every entry is `jobs / tasks` or `jobs / tasks + 1` (for `tasks ≤ jobs`) -/
theorem expected_bounds (jobs tasks : Nat) (ht : 0 < tasks) (hle : tasks ≤ jobs) :
    ∀ x ∈ expected jobs tasks, jobs / tasks ≤ x ∧ x ≤ jobs / tasks + 1 := by
  intro x hx
  unfold expected at hx
  split at hx
  · have : jobs = tasks := by omega
    subst this
    rw [List.mem_replicate] at hx
    have : jobs / jobs = 1 := Nat.div_self ht
    omega
  · rw [List.mem_append, List.mem_replicate, List.mem_replicate] at hx
    omega

theorem div_pos_of_le (jobs tasks : Nat) (ht : 0 < tasks) (hle : tasks ≤ jobs) :
    1 ≤ jobs / tasks := by
  exact (Nat.le_div_iff_mul_le ht).2 (by omega)

/-- larger entries first -/
theorem expected_sorted (jobs tasks : Nat) : (expected jobs tasks).Pairwise (· ≥ ·) := by
  unfold expected
  split
  · exact List.pairwise_replicate.2 (Or.inr (Nat.le_refl _))
  · rw [List.pairwise_append]
    refine ⟨List.pairwise_replicate.2 (Or.inr (Nat.le_refl _)),
            List.pairwise_replicate.2 (Or.inr (Nat.le_refl _)), ?_⟩
    intro a ha b hb
    rw [List.mem_replicate] at ha hb
    omega

/-! ### chunk ranges -/

theorem chunkRanges_length (l : List Nat) (c : Nat) : (chunkRanges l c).length = l.length := by
  induction l generalizing c with
  | nil => rfl
  | cons k ks ih => simp [chunkRanges, ih]

/-- the chunks of the consecutive ranges, concatenated in task order, are `c, c+1, …, c+sum-1`:
every chunk exactly once -/
theorem chunkRanges_cover (l : List Nat) (c : Nat) :
    (chunkRanges l c).flatMap chunksOf = List.range' c l.sum := by
  induction l generalizing c with
  | nil => simp [chunkRanges]
  | cons k ks ih =>
    simp only [chunkRanges, List.flatMap_cons, ih, List.sum_cons, chunksOf]
    have e : c + k - c = k := by omega
    rw [e]
    simp

/-- each range is `[first, first + k)` with `k` the task's entry; ranges are adjacent -/
theorem chunkRanges_nonempty (l : List Nat) (c : Nat) (h : ∀ x ∈ l, 1 ≤ x) :
    ∀ p ∈ chunkRanges l c, p.1 < p.2 := by
  induction l generalizing c with
  | nil => intro p hp; simp [chunkRanges] at hp
  | cons k ks ih =>
    intro p hp
    simp only [chunkRanges, List.mem_cons] at hp
    rcases hp with rfl | hp
    · have := h k (List.mem_cons_self); simp; omega
    · exact ih (c + k) (fun x hx => h x (List.mem_cons_of_mem _ hx)) p hp

theorem bwtSplit_ok (jobs chunks : Nat) (hj : 1 ≤ jobs) (hc : 1 ≤ chunks) :
    bwtSplit jobs chunks = .ok (chunkRanges (expected chunks (min jobs chunks)) 0) := by
  unfold bwtSplit
  rw [computeJobsPerTask_eq chunks (min jobs chunks) (by omega) (by omega)]

end Kanzi.Jobs
