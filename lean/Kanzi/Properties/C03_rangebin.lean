/-
Property C03 (the decoder is total), entropy decoders on ARBITRARY (forged) input:

  v2/entropy/RangeCodec.go          RangeDecoder.Read          model `Kanzi.RangeDec`  (Model/RangeDec.lean)
  v2/entropy/BinaryEntropyCodec.go  BinaryEntropyDecoder.Read  model `Kanzi.BinEnt.Dec` (Model/BinEnt.lean) + `readBlockCap`
  v2/entropy/FPAQCodec.go           FPAQDecoder.Read           model `Kanzi.Fpaq`       (Model/Fpaq.lean)   + `fReadCap`

The round-trip theorems of C12 speak about encoder output.  Here the input is ANY bit string, the
decoder is in ANY state a previous `Read` can have left it in, and the questions are those of C03:
does every loop end, is every allocation bounded by the declared sizes, which panics are reachable.
In the real pipeline every decoding task has a deferred recover: an index-out-of-range or an
end-of-stream panic inside a codec becomes a block error.  What would violate C03 is an unbounded
loop, an allocation not bounded by the declared sizes, a division by zero nobody expects.

Results.
* RANGE: the only unbounded loop of the Go code (the carry-less renormalisation of `decodeByte`) reads
  28 bits per round, so it ends by the end-of-stream panic at the latest (`C03_range_renorm_bounded`);
  `Read` performs at most `count` chunk rounds, exactly `count` `decodeByte` calls and at most
  `len(bits)/28 + 1` loop heads per call (`C03_range_terminates`).  `rng` is never 0 when the division
  `(code - low) / rng` is executed: the loop leaves only with `rng > 0xFFFF` and `logRange ≤ 15`
  (`C03_range_classes`: never `.div0`).  `decodeHeader` never indexes out of range whatever the header
  says (`C03_range_header_no_fault`), and `len(f2s) ≤ max(len before, 32768)` on every path
  (`C03_range_alloc_bound`).  The only reachable fault is `f2s[count]` in `decodeByte` with a forged
  `code` (`C03_range_fault_site`, reachable: `C03_range_fault_reachable`) - recovered by the task.
  OBSERVATION (`C03_range_stale_f2s`): `f2s` is kept between chunks and only reallocated when too
  short, so after a table with a larger log range a forged code can select a STALE entry: a symbol of
  frequency 0 in the current table, `rng` becomes 0, the loop spins (28 bits per round) to the end of
  the stream.  Bounded by the frame, ends in the recovered end-of-stream panic; the same bits on a fresh
  decoder give the index fault instead.
* BINARY (CM, TPAQ, TPAQX) and FPAQ: for every predictor that satisfies the contract (`Pred.Safe`) the
  interval registers keep their invariant WHATEVER `current` and the buffer hold: no wrap-around, and
  the predictor is only asked in states of its own invariant - so the index safety of the real
  predictors (C12_cm_*, C12_tpaq_*) extends to forged input (`C03_binary_interval_total`).  `read()` is
  the only faulting site (`binary.BigEndian.Uint32(buffer[index:])` when the forged size is smaller than
  what the decoder consumes); it cannot fault while 32 bytes per remaining output byte are left
  (`C03_binary_no_fault_if`), and it can otherwise (`C03_binary_fault_reachable`, recovered by the
  task).  The chunk loop ends within `ceil(count/length)` rounds (`C03_binary_terminates`,
  `C03_fpaq_terminates`), each chunk makes exactly `8·n` `DecodeBit` calls with at most one `read()`
  each.  `len(this.buffer)` on EVERY path, failing ones included (`C03_binary_alloc_bound`: this is what
  commit f731923 was about; `C03_fpaq_alloc_bound`): at most `max(len before, 2·max(count,64) − 1)`
  resp. `max(len before, 1024, 2.5·count)`.
  OBSERVATION: the FPAQ test compares the chunk size with `2·len(block)` (the whole block), not with
  the 4 MiB chunk: a forged size in a multi-chunk block can make the buffer 2.5 times the BLOCK size
  (2.5 GiB for a 1 GiB block).  Linear in the declared block size, hence within the letter of C03.
  The version-3 bit decoder `decodeBitV1` (selected by the stream header, hence reachable from forged
  input; not modelled before) is covered too: it is the generic coder with `p >> 4` as a 12-bit
  probability (`fpaqP1`, within the contract: `C03_fpaq_models_safe`), and its refill loop
  `for (low^high)>>24 == 0 { read() }` runs at most once (`C03_fpaq_v1_refill_once`).
* on encoder output the three models return what the proved decoders of C12 return
  (`C03_range_agrees` + `C03_range_roundtrip`, `C03_binary_agrees`, `C03_fpaq_agrees`).

The tie to the real code is the stream `decforge` (harness/cmd/kv/decforge.go): the REAL decoders on
forged input; the models must predict the class (ok + bytes / err / panic:eos / panic:index), and the
capacity of the buffer (`len(f2s)`, `len(buffer)`, read by reflection) on every path.
-/
import Kanzi.Proofs.RangeDec4
import Kanzi.Proofs.FpaqDecCap
import Kanzi.Proofs.C03Examples
import Kanzi.Properties.C12_range
import Kanzi.Properties.C12_binary
import Kanzi.Properties.C12_fpaq

namespace Kanzi.C03
open Kanzi.Bits Kanzi.EntSmall

/-! ## 1. RANGE -/
section Range
open Kanzi.Range Kanzi.RangeDec

/-- **C03_range_renorm_bounded.**  The renormalisation loop of `decodeByte` (`for { … }` without a
bound in Go) reads 28 bits per round: from ANY registers - `rng = 0` included, where the loop can no
longer leave through its `break` - `len(bits)/28 + 1` evaluations of the loop head suffice; it ends by
`break` (with `rng > 0xFFFF`) or by the end-of-stream panic. -/
theorem C03_range_renorm_bounded (low rng code : Nat) (bs : Bits) :
    (∀ c, normC (bs.length / 28 + 1) low rng code bs = .fail c → c = .eos) ∧
    (∀ l g cd bs', normC (bs.length / 28 + 1) low rng code bs = .ok (l, g, cd) bs' → bottomRange < g) := by
  refine ⟨fun c h => ?_, fun l g cd bs' h => normC_ok_bottom _ _ _ _ _ _ _ _ _ h⟩
  rcases normC_cls _ _ _ _ _ _ h with h1 | h1
  · exact h1
  · subst h1; exact absurd h (normC_no_hang _ _ _ _ _ (Nat.le_refl _))

/-- **C03_range_classes / C03_range_terminates.**  For every bit string, every state of the decoder
(`f2s` = whatever earlier `Read`s left), every `count` and every chunk size `≥ 1` (the constructor
demands 1024 … 2^30): `Read` terminates - the model's fuel (`count` chunk rounds, `count` symbols,
`len/28 + 1` loop heads per symbol) is never exhausted - and a failing `Read` is an "Invalid
bitstream" error, the end-of-stream panic of the bitstream, or an index panic.  NEVER a division by
zero, never `.hang`. -/
theorem C03_range_classes (f2s : Array Nat) (bs : Bits) (count chunkSize : Nat) (hcs : 0 < chunkSize)
    (c : Cls) (cap : Nat) (h : read f2s bs count chunkSize = .fail c cap) :
    c = .err ∨ c = .eos ∨ c = .fault :=
  ((chunksC_facts chunkSize hcs count count f2s bs (Nat.le_refl _)).1 c cap h).1

theorem C03_range_terminates (f2s : Array Nat) (bs : Bits) (count chunkSize : Nat) (hcs : 0 < chunkSize)
    (cap : Nat) : read f2s bs count chunkSize ≠ .fail .hang cap ∧ read f2s bs count chunkSize ≠ .fail .div0 cap := by
  constructor
  · intro h
    rcases C03_range_classes f2s bs count chunkSize hcs _ _ h with e | e | e <;> cases e
  · intro h
    rcases C03_range_classes f2s bs count chunkSize hcs _ _ h with e | e | e <;> cases e

/-- **C03_range_alloc_bound.**  The only allocation of the decoder is `f2s = make([]uint16, scale)`
with `scale = 1 << logRange ≤ 32768`: on EVERY path (success, error, panic) `len(f2s)` never shrinks
and never exceeds `max(len before, 32768)`, whatever the input says; a successful `Read` stores at
most `count` bytes. -/
theorem C03_range_alloc_bound (f2s : Array Nat) (bs : Bits) (count chunkSize : Nat) (hcs : 0 < chunkSize) :
    (∀ c cap, read f2s bs count chunkSize = .fail c cap → f2s.size ≤ cap ∧ cap ≤ max f2s.size 32768) ∧
    (∀ out t r, read f2s bs count chunkSize = .done out t r →
        out.length ≤ count ∧ f2s.size ≤ t.size ∧ t.size ≤ max f2s.size 32768) := by
  obtain ⟨h1, h2⟩ := chunksC_facts chunkSize hcs count count f2s bs (Nat.le_refl _)
  exact ⟨fun c cap h => (h1 c cap h).2, h2⟩

/-- **C03_range_header_no_fault.**  Whatever a header says, the table `decodeHeader` builds sums to at
most `scale`, `logRange ≤ 15`, and the reverse-mapping loop `f2s[base+j] = i` stays inside `f2s`. -/
theorem C03_range_header_no_fault (old : Array Nat) (bs : Bits) (a f : List Nat) (lr : Nat) (r : Bits)
    (h : headerC bs = .ok (a, f, lr) r) :
    lr ≤ 15 ∧ f.sum ≤ 2 ^ lr ∧ ∃ t, buildF2s old f lr = some t ∧ t.size = max old.size (2 ^ lr) := by
  obtain ⟨h1, h2⟩ := (headerC_facts bs).2 a f lr r h
  obtain ⟨t, t1, t2, _⟩ := buildF2s_ok old f lr h2
  exact ⟨h1, h2, t, t1, t2⟩

/-- **C03_range_fault_site.**  From any state the loop can leave behind (`rng > 0xFFFF`) and
`logRange ≤ 15`, `decodeByte` faults exactly when the slot `(code - low) / (rng >> shift)` computed
from the forged `code` is not below `len(f2s)`; the division itself is safe (`rng >> shift ≥ 2`). -/
theorem C03_range_fault_site (cum f2s : Array Nat) (shift low rng code : Nat) (bs : Bits)
    (hb : bottomRange < rng) (hs : shift ≤ 15) :
    rng >>> shift ≠ 0 ∧
    (stepC cum f2s shift low rng code bs = .fail .fault ↔ f2s.size ≤ slot shift low rng code) := by
  have h0 := shift_pos rng shift hb hs
  refine ⟨h0, ?_⟩
  unfold stepC
  rw [if_neg h0]
  by_cases hsl : slot shift low rng code ≥ f2s.size
  · rw [if_pos hsl]; exact ⟨fun _ => hsl, fun _ => rfl⟩
  · rw [if_neg hsl]
    constructor
    · intro h
      have := (stepSymC_cls cum shift low rng code bs _).1 _ h
      cases this
    · intro h; exact absurd h hsl

set_option maxRecDepth 100000 in
/-- **C03_range_fault_reachable** (observation, recovered by the task).  An 11-byte forged chunk -
alphabet {0,1}, logRange 8, then the code 2^60 − 1 - makes `count = 256 = len(f2s)`: index out of
range in `decodeByte`. -/
theorem C03_range_fault_reachable :
    Kanzi.C03Ex.isFail (read #[] (ofBytes Kanzi.C03Ex.rangeFaultStream) 1 1024) .fault 256 = true := by
  decide

set_option maxRecDepth 100000 in
/-- **C03_range_stale_f2s** (observation).  Two `Read`s on one decoder.  The first (alphabet {5,7},
logRange 9) leaves 512 entries in `f2s`, `f2s[256] = 7`.  The second (alphabet {0,1}, logRange 8, code
2^60 − 1) computes slot 256: beyond its own 256 fresh entries, inside the slice: the stale symbol 7 has
frequency 0 in the new table, `rng` becomes 0 and the loop reads 28 bits per round until the bitstream
panics - whatever the length of the rest (here 0 and 40 more bytes).  On a fresh decoder the same bits
give the index fault. -/
theorem C03_range_stale_f2s :
    Kanzi.C03Ex.staleDemo 0 = true ∧ Kanzi.C03Ex.staleDemo 40 = true ∧ Kanzi.C03Ex.freshDemo = true := by
  exact ⟨by decide, by decide, by decide⟩

/-- **C03_range_agrees.**  Whenever the decoder of the round-trip theorems (`Kanzi.Range.decode`,
which answers `none` for every failure and knows no state) returns a block, this model returns the
same block and leaves the same bits, whatever `f2s` held before. -/
theorem C03_range_agrees (f2s : Array Nat) (bs : Bits) (count chunkSize : Nat) (hcs : 0 < chunkSize)
    (out : List Nat) (rest : Bits) (h : decode bs count chunkSize = some (out, rest)) :
    ∃ t, read f2s bs count chunkSize = .done out t rest :=
  chunksC_agree chunkSize hcs count count f2s bs out rest (Nat.le_refl _) h

/-- **C03_range_roundtrip.**  Hence the round trip of C12 holds for the total model, from any decoder
state: what `RangeEncoder.Write` produced for `blk` is decoded to `blk`, consuming exactly it. -/
theorem C03_range_roundtrip (blk : List Nat) (chunkSize logRange : Nat) (hlr : 8 ≤ logRange ∧ logRange ≤ 15)
    (hcs : 0 < chunkSize) (hb : ∀ b ∈ blk, b < 256) (f2s : Array Nat) :
    ∃ enc, encode blk chunkSize logRange = some enc ∧
      ∀ rest : Bits, ∃ t, read f2s (enc ++ rest) blk.length chunkSize = .done blk t rest := by
  obtain ⟨enc, h1, h2⟩ := Kanzi.C12.C12_range_block blk chunkSize logRange hlr hcs hb
  exact ⟨enc, h1, fun rest => C03_range_agrees f2s _ _ _ hcs _ _ (h2 rest)⟩

end Range

/-! ## 2. BINARY (engine of CM / TPAQ / TPAQX) -/
section Binary
open Kanzi.BinEnt

/-- **C03_binary_interval_total.**  For every predictor within its contract (`Pred.Safe R`: `R` is
preserved by `Get(); Update(bit)` for EITHER bit, and `Get()` is in range on `R`), from a decoder state
with `R` and the interval invariant (`low/2^24 < high/2^24`, `high < 2^56` - true of a new decoder):
whatever `current` and the buffer hold, `DecodeBit` either panics in `read()` - exactly when fewer
than 4 bytes are left behind `index` - or returns with `R` and the invariant again, the buffer
untouched, at most 4 more bytes consumed.  So on forged input the interval arithmetic never wraps and
the predictor is never asked outside its invariant. -/
theorem C03_binary_interval_total {σ : Type} (P : Pred σ) {R : σ → Prop} (hP : P.Safe R) (d : Dec σ)
    (hr : R d.ps) (hi : Inv d.low d.high) :
    (∀ x, d.decodeBit P = .error x → x = .index ∧ d.rem.length < 4) ∧
    (∀ b d', d.decodeBit P = .ok (b, d') →
        R d'.ps ∧ Inv d'.low d'.high ∧ d'.buffer = d.buffer ∧
        d'.rem.length ≤ d.rem.length ∧ d.rem.length ≤ d'.rem.length + 4) :=
  decodeBit_any P hP d hr hi

/-- **C03_binary_no_fault_if.**  Decoding `n` bytes (`8·n` `DecodeBit` calls, at most one `read()` of 4
bytes each) cannot fault while `32·n` bytes are left behind `index`; and when it faults, it is the
index panic of `read()` and fewer than `32·n` bytes were left. -/
theorem C03_binary_no_fault_if {σ : Type} (P : Pred σ) {R : σ → Prop} (hP : P.Safe R) (n : Nat) (d : Dec σ)
    (acc : List Nat) (hg : Good R d) :
    (32 * n ≤ d.rem.length → ∃ r, d.decodeBytes P n acc = .ok r) ∧
    (∀ x, d.decodeBytes P n acc = .error x → x = .index ∧ d.rem.length < 32 * n) :=
  ⟨decodeBytes_no_fault P hP n d acc hg, (decodeBytes_any P hP n d acc hg).1⟩

set_option maxRecDepth 100000 in
/-- **C03_binary_fault_reachable** (observation, recovered by the task).  The predictor that always
answers 0 (within the 12-bit contract), an empty payload (VarInt 0) and `current = 0`: every bit costs a
32-bit refill; the 72-byte buffer of a block of up to 64 bytes is exhausted after 18 bits: a block of 2
bytes decodes, a block of 3 (or 64) bytes panics with index out of range in `read()`. -/
theorem C03_binary_fault_reachable :
    Kanzi.C03Ex.isOk (decodeBlock Kanzi.C03Ex.zeroP MAX_CHUNK () Kanzi.C03Ex.binFaultStream 2) = true ∧
    Kanzi.C03Ex.isIndex (decodeBlock Kanzi.C03Ex.zeroP MAX_CHUNK () Kanzi.C03Ex.binFaultStream 3) = true ∧
    Kanzi.C03Ex.isIndex (decodeBlock Kanzi.C03Ex.zeroP MAX_CHUNK () Kanzi.C03Ex.binFaultStream 64) = true := by
  exact ⟨by decide, by decide, by decide⟩

/-- **C03_binary_terminates.**  The chunk loop of `Read` ends within `ceil(count / length)` rounds
(`length` = the chunk length chosen for `count`, at least 1 when `_BINARY_ENTROPY_MAX_CHUNK ≥ 8`):
any fuel `n` with `count ≤ n·length` gives the result of the model's fuel `count`.  Inside a round
everything is a bounded `for`: `8·chunkSize` `DecodeBit` calls, at most one `read()` each. -/
theorem C03_binary_terminates {σ : Type} (P : Pred σ) (M : Nat) (hM : 8 ≤ M) (d : Dec σ) (bs : Bits)
    (count fuel : Nat) (hf : count ≤ fuel * chunkLenOf M count) :
    Dec.readChunks P fuel (chunkLenOf M count) (bufSizeOf (chunkLenOf M count)) d count bs
      = Dec.readChunks P count (chunkLenOf M count) (bufSizeOf (chunkLenOf M count)) d count bs := by
  have hl := chunkLenOf_pos' M count hM
  have hc : count ≤ count * chunkLenOf M count := Nat.le_mul_of_pos_right count hl
  have e1 := readChunks_fuel P (chunkLenOf M count) (bufSizeOf (chunkLenOf M count)) fuel (count - fuel) d count bs hf
  have e2 := readChunks_fuel P (chunkLenOf M count) (bufSizeOf (chunkLenOf M count)) count (fuel - count) d count bs hc
  rcases Nat.le_total fuel count with hle | hle
  · have : fuel + (count - fuel) = count := by omega
    rw [this] at e1
    exact e1.symm
  · have : count + (fuel - count) = fuel := by omega
    rw [this] at e2
    exact e2

/-- **C03_binary_alloc_bound.**  `len(this.buffer)` when `Read(block)` returns OR panics (`count =
len(block)`, `L` = the chunk length): it never shrinks and is at most `max(len before, L + L/8,
2·L − 1) ≤ max(len before, 2·max(count, 64) − 1)`, whatever chunk sizes the input declares (a size
above `L + L/8` is accepted only below `2·L`: commit f731923).  After success the decoder is again in
a state of the invariants (the next `Read` starts from there). -/
theorem C03_binary_alloc_bound {σ : Type} (P : Pred σ) {R : σ → Prop} (hP : P.Safe R) (M : Nat) (hM : 8 ≤ M)
    (d : Dec σ) (bs : Bits) (count : Nat) (hg : Good R d) :
    (Dec.readBlockCap P M d bs count).1 = Dec.readBlock P M d bs count ∧
    d.buffer.length ≤ (Dec.readBlockCap P M d bs count).2 ∧
    (Dec.readBlockCap P M d bs count).2 ≤ max d.buffer.length (2 * max count 64 - 1) ∧
    (∀ r, Dec.readBlock P M d bs count = .ok r →
        Good R r.2.1 ∧ r.2.1.buffer.length = (Dec.readBlockCap P M d bs count).2) := by
  obtain ⟨a1, a2, a3⟩ := readBlockCap_bound P hP M d bs count hg
  have hl := chunkLenOf_le M count
  have hp := chunkLenOf_pos' M count hM
  have hb := bufSizeOf_le (chunkLenOf M count)
  refine ⟨readBlockCap_fst P M d bs count, a1, by omega, fun r h => a3 r ?_⟩
  rw [readBlockCap_fst]; exact h

/-- with the real constants (`_BINARY_ENTROPY_MAX_CHUNK = 2^26`, blocks of at most 2^30 bytes): never
more than 2^27 − 1 bytes -/
theorem C03_binary_alloc_bound_real {σ : Type} (P : Pred σ) {R : σ → Prop} (hP : P.Safe R)
    (d : Dec σ) (bs : Bits) (count : Nat) (hg : Good R d) :
    (Dec.readBlockCap P MAX_CHUNK d bs count).2 ≤ max d.buffer.length (2 ^ 27 - 1) := by
  by_cases hc : count > MAX_BLOCK
  · unfold Dec.readBlockCap; rw [if_pos hc]; simp only; omega
  · obtain ⟨_, a2, _⟩ := readBlockCap_bound P hP MAX_CHUNK d bs count hg
    have hl := chunkLenOf_real count (by omega)
    have hp := chunkLenOf_pos' MAX_CHUNK count (by decide)
    have hb := bufSizeOf_le (chunkLenOf MAX_CHUNK count)
    omega

/-- **C03_binary_agrees.**  The decoder with the capacity made visible IS the decoder of C12: on the
output of `Write` + `Dispose` for a block within the decoder's acceptance (`fits2`) a new decoder
returns the block, consumes exactly the written bits, and its buffer stays within the bound. -/
theorem C03_binary_agrees {σ : Type} (P : Pred σ) {R : σ → Prop} (hP : P.Safe R) (M : Nat) (hM : 8 ≤ M)
    (hM27 : M ≤ 2 ^ 27) (s0 : σ) (hs : R s0) (blk : List Nat) (hne : blk ≠ []) (hb : ∀ v ∈ blk, v < 256)
    (hlen : blk.length ≤ MAX_BLOCK) (hfit : fits2 P M s0 blk = true) :
    ∃ out, encodeBlock P M s0 blk = .ok out ∧
      ∀ rest : Bits, ∃ d', (Dec.readBlockCap P M (Dec.init s0) (out ++ rest) blk.length).1 = .ok (blk, d', rest) ∧
        (Dec.readBlockCap P M (Dec.init s0) (out ++ rest) blk.length).2 ≤ 2 * max blk.length 64 - 1 := by
  obtain ⟨out, h1, h2⟩ := Kanzi.C12.C12_binary_block P hP M hM hM27 s0 hs blk hne hb hlen hfit
  refine ⟨out, h1, fun rest => ?_⟩
  have hd := h2 rest
  obtain ⟨e1, _, e3, _⟩ := C03_binary_alloc_bound P hP M hM (Dec.init s0) (out ++ rest) blk.length (good_init s0 hs)
  unfold decodeBlock at hd
  rw [e1]
  cases hr : Dec.readBlock P M (Dec.init s0) (out ++ rest) blk.length with
  | error x => rw [hr] at hd; cases hd
  | ok r =>
    rw [hr] at hd
    simp only [Except.ok.injEq, Prod.mk.injEq] at hd
    obtain ⟨q1, q2⟩ := hd
    refine ⟨r.2.1, ?_, ?_⟩
    · rw [← q1, ← q2]
    · have : (Dec.init s0).buffer.length = 0 := rfl
      omega

end Binary

/-! ## 3. FPAQ -/
section Fpaq
open Kanzi.BinEnt Kanzi.Fpaq

/-- **C03_fpaq_interval_total.**  The FPAQ model satisfies the predictor contract (C12_fpaq_model_safe),
so `C03_binary_interval_total` and `C03_binary_no_fault_if` hold for `decodeBitV2` as they stand: on
forged input the registers keep their invariant, the probabilities stay below 2^16, `read()` is the only
faulting site. -/
theorem C03_fpaq_interval_total (d : Dec FState) (hr : FR d.ps) (hi : Inv d.low d.high) :
    (∀ x, d.decodeBit fpaqP = .error x → x = .index ∧ d.rem.length < 4) ∧
    (∀ b d', d.decodeBit fpaqP = .ok (b, d') →
        FR d'.ps ∧ Inv d'.low d'.high ∧ d'.buffer = d.buffer ∧
        d'.rem.length ≤ d.rem.length ∧ d.rem.length ≤ d'.rem.length + 4) :=
  decodeBit_any fpaqP fpaq_safe d hr hi

theorem C03_fpaq_no_fault_if (n : Nat) (d : Dec FState) (acc : List Nat) (hg : Good FR d) :
    (32 * n ≤ d.rem.length → ∃ r, d.decodeBytes fpaqP n acc = .ok r) ∧
    (∀ x, d.decodeBytes fpaqP n acc = .error x → x = .index ∧ d.rem.length < 32 * n) :=
  C03_binary_no_fault_if fpaqP fpaq_safe n d acc hg

/-- **C03_fpaq_terminates.**  The chunk loop of `FPAQDecoder.Read` ends within `ceil(count / C)` rounds
(`C` = `_FPAQ_DEFAULT_CHUNK_SIZE`, any value `≥ 1`). -/
theorem C03_fpaq_terminates (C : Nat) (hC : 0 < C) (d : Dec FState) (bs : Bits) (count fuel : Nat)
    (hf : count ≤ fuel * C) :
    fReadChunks C count fuel d count bs = fReadChunks C count count d count bs := by
  have hc : count ≤ count * C := Nat.le_mul_of_pos_right count hC
  have e1 := fReadChunks_fuel C count fuel (count - fuel) d count bs hf
  have e2 := fReadChunks_fuel C count count (fuel - count) d count bs hc
  rcases Nat.le_total fuel count with hle | hle
  · have : fuel + (count - fuel) = count := by omega
    rw [this] at e1
    exact e1.symm
  · have : count + (fuel - count) = fuel := by omega
    rw [this] at e2
    exact e2

/-- **C03_fpaq_alloc_bound.**  `len(this.buffer)` when `Read(block)` returns OR panics, for either bit
decoder (`P = fpaqP`: `decodeBitV2`; `P = fpaqP1`: `decodeBitV1`, bitstream version 3): it never shrinks
and is at most `max(len before, 1024, m + m/4)` with `m = 2·count − 1` the largest chunk size the test
`szBytes >= 2*len(block)` lets through - about 2.5 times the BLOCK length, also for the 4 MiB chunks of
a larger block (observation in the header of this file). -/
theorem C03_fpaq_alloc_bound (P : Pred FState) (hP : P.Safe FR) (C : Nat) (d : Dec FState) (bs : Bits)
    (count : Nat) (hg : Good FR d) :
    d.buffer.length ≤ (fReadCap P C d bs count).2 ∧
    (fReadCap P C d bs count).2 ≤ max d.buffer.length (max 1024 ((2 * count - 1) + (2 * count - 1) / 4)) ∧
    (∀ r, (fReadCap P C d bs count).1 = .ok r → Good FR r.2.1 ∧ r.2.1.buffer.length = (fReadCap P C d bs count).2) := by
  obtain ⟨a1, a2, a3⟩ := fReadCap_bound P hP C d bs count hg
  refine ⟨a1, ?_, a3⟩
  unfold fCapOf at a2
  rw [Nat.shiftRight_eq_div_pow] at a2
  exact a2

/-- both bit decoders are within the predictor contract; for `decodeBitV2` the capacity-tracking
function returns what `fRead` (the decoder of C12 on a decoder in any state) returns -/
theorem C03_fpaq_models_safe : fpaqP.Safe FR ∧ fpaqP1.Safe FR ∧
    ∀ C d bs count, (fReadCap fpaqP C d bs count).1 = fRead C d bs count :=
  ⟨fpaq_safe, fpaq1_safe, fReadCap_fst⟩

/-- **C03_fpaq_v1_refill_once.**  `decodeBitV1` refills with `for (low^high)>>24 == 0 { read() }`:
after ONE `read()` (`low <<= 32`, `high = high<<32 | 0xFFFFFFFF`, both masked to 56 bits) bits 24..31
of `low` are 0 and those of `high` are 1, so the condition is false: the loop is the `if` of
`decodeBitV2`, it cannot spin whatever the input. -/
theorem C03_fpaq_v1_refill_once (d d' : Dec FState) (h : d.read = .ok d') : ¬ (d'.low ^^^ d'.high) < 2 ^ 24 :=
  read_once d d' h

/-- **C03_fpaq_agrees.**  On a new decoder `fRead` is `fpaqDecode`, the decoder of C12: the encoder's
output for a block within the acceptance test is decoded to the block, consuming exactly it. -/
theorem C03_fpaq_agrees (C : Nat) (hC : 0 < C) (hC27 : C < 2 ^ 27) (blk : List Nat) (hne : blk ≠ [])
    (hb : ∀ v ∈ blk, v < 256) (hlen : blk.length ≤ Fpaq.MAX_BLOCK) (hfit : fFits2 C blk = true) :
    ∃ out, fpaqEncode C blk = .ok out ∧
      ∀ rest : Bits, ∃ d', fRead C (Dec.init FState.init) (out ++ rest) blk.length = .ok (blk, d', rest) := by
  obtain ⟨out, h1, h2⟩ := Kanzi.C12.C12_fpaq_block C hC hC27 blk hne hb hlen hfit
  refine ⟨out, h1, fun rest => ?_⟩
  have hd := h2 rest
  rw [fRead_fresh] at hd
  cases hr : fRead C (Dec.init FState.init) (out ++ rest) blk.length with
  | error x => rw [hr] at hd; cases hd
  | ok r =>
    rw [hr] at hd
    simp only [Except.ok.injEq, Prod.mk.injEq] at hd
    obtain ⟨q1, q2⟩ := hd
    exact ⟨r.2.1, by rw [← q1, ← q2]⟩

example : Good FR (Dec.init FState.init) := good_init _ fr_init

end Fpaq

end Kanzi.C03
