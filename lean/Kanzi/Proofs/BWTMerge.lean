/-
Correctness of `inverseMergeTPSI` on the SPEC output: the scatter loop builds, for every suffix array
position `a`, the word `psi(a) << 8 | s[SA[a]]` (PSI = inverse LF = position of the next suffix), and
the decoding lanes walk the text forward from the recorded chunk positions.
-/
import Kanzi.Proofs.BWTSpec
import Kanzi.Proofs.BWTTables

namespace Kanzi.BWT

/-! ### the table the scatter loop must produce -/

/-- symbol in front of suffix `q` -/
abbrev prevSym (s : List Nat) (q : Nat) : Nat := s.getD (q - 1) 0

/-- pointer stored for suffix `q`: its position in the suffix array, the marker `0xFF` for the
empty suffix -/
def pay (s : List Nat) (q : Nat) : Nat := if q = s.length then 255 else (sa s).idxOf q

/-- (key, word) scattered for the row holding suffix `q` -/
def entryOf (s : List Nat) (q : Nat) : Nat × Nat := (prevSym s q, pay s q * 256 + prevSym s q)

def entries (s : List Nat) : List (Nat × Nat) := (rowsQ s).map (entryOf s)

/-- word that ends up at the suffix array position holding suffix `j` -/
def wordOf (s : List Nat) (j : Nat) : Nat := pay s (j + 1) * 256 + s.getD j 0

def words (s : List Nat) : List Nat := (sa s).map (wordOf s)

abbrev skey (s : List Nat) (j : Nat) : Nat := s.getD j 0

theorem getLastD_eq (s : List Nat) : s.getLastD 0 = s.getD (s.length - 1) 0 := by
  cases s with
  | nil => rfl
  | cons x xs =>
    rw [List.getLastD_eq_getLast?, List.getLast?_eq_getElem?, List.getD_eq_getElem?_getD]

theorem entries_keys (s : List Nat) : (entries s).map (·.1) = bwtData s := by
  simp only [entries, rowsQ, bwtData, List.map_cons, List.map_map, entryOf, getLastD_eq, prevSym]
  congr 1

theorem entries_keys_lt (s : List Nat) (hb : ∀ x ∈ s, x < 256) : ∀ e ∈ entries s, e.1 < 256 := by
  intro e he
  simp only [entries, List.mem_map] at he
  obtain ⟨q, _, rfl⟩ := he
  simp only [entryOf, prevSym, List.getD_eq_getElem?_getD]
  cases h : s[q - 1]? with
  | none => simp
  | some v => exact hb v (List.mem_of_getElem? h)

theorem entries_length (s : List Nat) (hs : 1 ≤ s.length) : (entries s).length = s.length := by
  have := (rowsQ_pred_perm s hs).length_eq
  simp only [List.length_map, sa_length] at this
  simp [entries, this]

/-- bucket `c` of the scattered entries carries the words of bucket `c` of the suffix array -/
theorem ebucket_words (s : List Nat) (hs : 1 ≤ s.length) (c : Nat) :
    (ebucket (entries s) c).map (·.2) = (bucket (skey s) (sa s) c).map (wordOf s) := by
  have h1 : ebucket (entries s) c = ((rowsQ s).filter (fun q => prevSym s q = c)).map (entryOf s) := by
    simp only [ebucket, bucket, entries, List.filter_map]
    rfl
  have h2 : bucket (skey s) (sa s) c = ((rowsQ s).filter (fun q => prevSym s q = c)).map (· - 1) := by
    simp only [bucket]
    exact (lf_bucket s hs c).symm
  rw [h1, h2, List.map_map, List.map_map]
  apply List.map_congr_left
  intro q hq
  have hq1 := (mem_rowsQ hs).1 (List.mem_filter.1 hq).1
  have e : q - 1 + 1 = q := by omega
  simp [entryOf, wordOf, e, prevSym]

theorem entries_keys_perm (s : List Nat) (hs : 1 ≤ s.length) :
    ((entries s).map (·.1)).Perm ((sa s).map (skey s)) := by
  have := (rowsQ_pred_perm s hs).map (skey s)
  simpa [entries, entryOf, List.map_map, Function.comp_def, prevSym, skey] using this

theorem below_entries (s : List Nat) (hs : 1 ≤ s.length) (c : Nat) :
    below (fun e : Nat × Nat => e.1) (entries s) c = below (skey s) (sa s) c := by
  rw [below_map, below_map]
  exact ((entries_keys_perm s hs).filter _).length_eq

theorem ebucket_length (s : List Nat) (hs : 1 ≤ s.length) (c : Nat) :
    (ebucket (entries s) c).length = (bucket (skey s) (sa s) c).length := by
  have := congrArg List.length (ebucket_words s hs c)
  simpa using this

theorem below_bucket_le_length {α : Type} (key : α → Nat) (L : List α) (c : Nat) :
    below key L c + (bucket key L c).length ≤ L.length := by
  have h1 := below_mono key L (show c < c + 1 by omega)
  have h2 : below key L (c + 1) ≤ L.length := List.length_filter_le _ _
  omega

theorem getD_map_of_lt {α β : Type} (f : α → β) (l : List α) (i : Nat) (h : i < l.length) (d : β) (d' : α) :
    (l.map f).getD i d = f (l.getD i d') := by
  simp [List.getD_eq_getElem?_getD, List.getElem?_map, List.getElem?_eq_getElem h]

/-- THE TABLE.  After scattering `entries s` with the bucket starts of the block, position `a` of
`data` holds the word of suffix array position `a`. -/
theorem scatter_words (s : List Nat) (hs : 1 ≤ s.length) (hb : ∀ x ∈ s, x < 256) (bk data : Array Nat)
    (hbk : bk.size = 256) (hsz : s.length ≤ data.size)
    (hstart : ∀ c, c < 256 → rd bk c = below (fun e : Nat × Nat => e.1) (entries s) c) :
    ∃ bk' data', putList (entries s) bk data = some (bk', data') ∧ data'.size = data.size ∧
      (∀ a, a < s.length → rd data' a = (words s).getD a 0) ∧
      (∀ a, s.length ≤ a → rd data' a = rd data a) := by
  obtain ⟨bk', data', hrun, hsize, _, _, hD, hU⟩ :=
    putList_spec (entries s) (below (fun e : Nat × Nat => e.1) (entries s)) bk data hbk
      (entries_keys_lt s hb) hstart
      (fun c c2 hlt _ => below_mono _ _ hlt)
      (fun c _ => by
        have := below_bucket_le_length (fun e : Nat × Nat => e.1) (entries s) c
        rw [entries_length s hs] at this
        exact Nat.le_trans this hsz)
  refine ⟨bk', data', hrun, hsize, ?_, ?_⟩
  · intro a ha
    have hsorted := sa_sorted_key s
    have ha' : a < (sa s).length := by rw [sa_length]; exact ha
    obtain ⟨h1, h2⟩ := sorted_pos_in_bucket (skey s) hsorted a ha'
    generalize hc : skey s (sa s)[a] = c at h1 h2
    have hc256 : c < 256 := by
      rw [← hc]
      simp only [skey, List.getD_eq_getElem?_getD]
      cases h : s[(sa s)[a]]? with
      | none => simp
      | some v => exact hb v (List.mem_of_getElem? h)
    obtain ⟨k, rfl⟩ : ∃ k, a = below (skey s) (sa s) c + k := ⟨a - below (skey s) (sa s) c, by omega⟩
    have hk : k < (bucket (skey s) (sa s) c).length := by omega
    have hk' : k < (ebucket (entries s) c).length := by rw [ebucket_length s hs]; exact hk
    rw [← below_entries s hs c, hD c hc256 k hk', below_entries s hs c]
    have e1 := sorted_getD_bucket (skey s) hsorted c k hk 0
    have e2 : ((ebucket (entries s) c).getD k (0, 0)).2 = ((ebucket (entries s) c).map (·.2)).getD k 0 :=
      (getD_map_of_lt (·.2) _ k hk' 0 (0, 0)).symm
    rw [e2, ebucket_words s hs c, getD_map_of_lt (wordOf s) _ k hk 0 0]
    simp only [words]
    rw [getD_map_of_lt (wordOf s) _ _ ha' 0 0, e1]
  · intro a ha
    apply hU
    intro c _ ⟨h1, h2⟩
    have : below (fun e : Nat × Nat => e.1) (entries s) c + (ebucket (entries s) c).length ≤ (entries s).length :=
      below_bucket_le_length (fun e : Nat × Nat => e.1) (entries s) c
    rw [entries_length s hs] at this
    omega

/-! ### the three scatter phases of the model are `putList (entries s)` -/

/-- `(x, b*256 + x)` for consecutive `b` -/
def tag (b : Nat) : List Nat → List (Nat × Nat)
  | [] => []
  | x :: xs => (x, b * 256 + x) :: tag (b + 1) xs

theorem range_map_eq_tag (src : Array Nat) (off k i : Nat) (h : i + k ≤ src.size) (ho : off ≤ i) :
    (List.range' i k).map (fun j => (rd src j, (j - off) * 256 + rd src j))
      = tag (i - off) ((src.toList.drop i).take k) := by
  induction k generalizing i with
  | zero => simp [tag]
  | succ k ih =>
    have hi : i < src.toList.length := by simp; omega
    rw [List.range'_succ, List.map_cons, ih (i + 1) (by omega) (by omega),
      List.drop_eq_getElem_cons hi, List.take_succ_cons, tag]
    have e1 : i + 1 - off = i - off + 1 := by omega
    have e2 : src.toList[i] = rd src i := by
      rw [Array.getElem_toList, rd_eq_getElem]
    rw [e1, e2]

theorem pay_of_getElem (s : List Nat) (a : Nat) (h : a < (sa s).length) : pay s (sa s)[a] = a := by
  have hm : (sa s)[a] < s.length := mem_sa.1 (List.getElem_mem h)
  have : ¬ (sa s)[a] = s.length := by omega
  simp only [pay, this, ite_false]
  exact (sa_nodup s).idxOf_getElem a h

theorem seg_entries (s : List Nat) (k a : Nat) (h : a + k ≤ s.length) :
    (((sa s).drop a).take k).map (entryOf s) = tag a ((((sa s).drop a).take k).map (prevSym s)) := by
  induction k generalizing a with
  | zero => simp [tag]
  | succ k ih =>
    have ha : a < (sa s).length := by rw [sa_length]; omega
    rw [List.drop_eq_getElem_cons ha, List.take_succ_cons, List.map_cons, List.map_cons, tag,
      ih (a + 1) (by omega)]
    simp only [entryOf, pay_of_getElem s a ha]

theorem filter_ne_take_drop (L : List Nat) (x : Nat) (hn : L.Nodup) (hm : x ∈ L) :
    L.filter (· ≠ x) = L.take (L.idxOf x) ++ L.drop (L.idxOf x + 1) := by
  induction L with
  | nil => simp at hm
  | cons y ys ih =>
    rw [List.nodup_cons] at hn
    by_cases hy : y = x
    · subst hy
      have : ys.filter (· ≠ y) = ys := by
        rw [List.filter_eq_self]
        intro z hz
        have : z ≠ y := fun e => hn.1 (e ▸ hz)
        simpa using this
      simp only [List.filter_cons, List.idxOf_cons, this, ne_eq, not_true_eq_false, decide_false,
        Bool.false_eq_true, ite_false, BEq.rfl, cond_true, List.take_zero, List.nil_append, Nat.zero_add,
        List.drop_succ_cons, List.drop_zero]
    · have hm' : x ∈ ys := by
        rcases List.mem_cons.1 hm with h | h
        · exact absurd h.symm hy
        · exact h
      have hb : (y == x) = false := by simpa using hy
      simp only [List.filter_cons, List.idxOf_cons, hb, cond_false, ne_eq, hy, not_false_eq_true,
        decide_true, ite_true, List.take_succ_cons, List.drop_succ_cons, List.cons_append]
      rw [← ih hn.2 hm']

/-- position of suffix 0 in the suffix array -/
abbrev zpos (s : List Nat) : Nat := (sa s).idxOf 0

theorem zpos_lt (s : List Nat) (hs : 1 ≤ s.length) : zpos s < s.length := by
  have : 0 ∈ sa s := mem_sa.2 (by omega)
  have := List.idxOf_lt_length_iff.2 this
  rwa [sa_length] at this

theorem rowsQ_split (s : List Nat) (hs : 1 ≤ s.length) :
    rowsQ s = s.length :: ((sa s).take (zpos s) ++ (sa s).drop (zpos s + 1)) := by
  unfold rowsQ
  rw [filter_ne_take_drop (sa s) 0 (sa_nodup s) (mem_sa.2 (by omega))]

theorem bwtData_split (s : List Nat) (hs : 1 ≤ s.length) :
    bwtData s = prevSym s s.length ::
      (((sa s).take (zpos s)).map (prevSym s) ++ ((sa s).drop (zpos s + 1)).map (prevSym s)) := by
  rw [← entries_keys, entries, rowsQ_split s hs]
  simp only [List.map_cons, List.map_append, List.map_map, entryOf, Function.comp_def]

/-- the entries the three loops of `inverseMergeTPSI` scatter, in order -/
theorem model_entries (s : List Nat) (hs : 1 ≤ s.length) :
    (rd (bwtData s).toArray 0, 0xFF00 + rd (bwtData s).toArray 0) ::
      ((List.range' 1 (zpos s)).map (fun j => (rd (bwtData s).toArray j, (j - 1) * 256 + rd (bwtData s).toArray j)) ++
       (List.range' (zpos s + 1) (s.length - (zpos s + 1))).map
          (fun j => (rd (bwtData s).toArray j, (j - 0) * 256 + rd (bwtData s).toArray j)))
      = entries s := by
  have hz := zpos_lt s hs
  have hlen : (bwtData s).length = s.length := by
    rw [← entries_keys, List.length_map, entries_length s hs]
  have hA : ((sa s).take (zpos s)).length = zpos s := by
    rw [List.length_take, sa_length]; omega
  rw [range_map_eq_tag _ 1 _ 1 (by simp [hlen]; omega) (by omega),
    range_map_eq_tag _ 0 _ (zpos s + 1) (by simp [hlen]; omega) (by omega)]
  simp only [List.toList_toArray]
  have h1 : ((bwtData s).drop 1).take (zpos s) = ((sa s).take (zpos s)).map (prevSym s) := by
    rw [bwtData_split s hs, List.drop_succ_cons, List.drop_zero]
    exact List.take_left' (by rw [List.length_map, hA])
  have h2 : ((bwtData s).drop (zpos s + 1)).take (s.length - (zpos s + 1))
      = ((sa s).drop (zpos s + 1)).map (prevSym s) := by
    rw [bwtData_split s hs, List.drop_succ_cons, List.drop_left' (by rw [List.length_map, hA])]
    apply List.take_of_length_le
    rw [List.length_map, List.length_drop, sa_length]
    exact Nat.le_refl _
  have h0 : rd (bwtData s).toArray 0 = prevSym s s.length := by
    rw [rd_toArray, bwtData_split s hs]; rfl
  rw [h1, h2, h0]
  have e1 := seg_entries s (zpos s) 0 (by omega)
  have e2 := seg_entries s (s.length - (zpos s + 1)) (zpos s + 1) (by omega)
  have e3 : ((sa s).drop (zpos s + 1)).take (s.length - (zpos s + 1)) = (sa s).drop (zpos s + 1) := by
    apply List.take_of_length_le
    rw [List.length_drop, sa_length]
    exact Nat.le_refl _
  rw [List.drop_zero] at e1
  rw [e3] at e2
  have e4 : (1 : Nat) - 1 = 0 := rfl
  have e5 : zpos s + 1 - 0 = zpos s + 1 := rfl
  rw [e4, e5, ← e1, ← e2, entries, rowsQ_split s hs]
  simp [entryOf, pay]

/-! ### decoding lanes -/

/-- `data` holds the word table of `s` -/
def Table (s : List Nat) (data : Array Nat) : Prop :=
  s.length ≤ data.size ∧ ∀ a, a < s.length → rd data a = (words s).getD a 0

theorem table_at (s : List Nat) (data : Array Nat) (hT : Table s data) (i : Nat) (hi : i < s.length) :
    pay s i < data.size ∧ rd data (pay s i) = pay s (i + 1) * 256 + s.getD i 0 := by
  have hne : ¬ i = s.length := by omega
  have hmem : i ∈ sa s := mem_sa.2 hi
  have hidx : (sa s).idxOf i < (sa s).length := List.idxOf_lt_length_iff.2 hmem
  have hidx' : (sa s).idxOf i < s.length := by rwa [sa_length] at hidx
  simp only [pay, hne, ite_false]
  refine ⟨by have := hT.1; omega, ?_⟩
  rw [hT.2 _ hidx', words, getD_map_of_lt (wordOf s) _ _ hidx 0 0]
  have : (sa s).getD ((sa s).idxOf i) 0 = i := by
    rw [List.getD_eq_getElem?_getD, List.getElem?_eq_getElem hidx, List.getElem_idxOf]; rfl
  rw [this, wordOf, pay]

theorem laneStep_table (s : List Nat) (hb : ∀ x ∈ s, x < 256) (data : Array Nat) (hT : Table s data)
    (i : Nat) (hi : i < s.length) (d : Array Nat) :
    laneStep data (pay s i, d) = some (pay s (i + 1), d.push (s.getD i 0)) := by
  obtain ⟨h1, h2⟩ := table_at s data hT i hi
  have hsym : s.getD i 0 < 256 := by
    rw [List.getD_eq_getElem?_getD, List.getElem?_eq_getElem hi]
    exact hb _ (List.getElem_mem hi)
  simp only [laneStep, h1, dite_true, rd_eq_getElem h1, h2]
  congr 2
  · omega
  · congr 1; omega

/-- a lane seen from the text: next position to decode and the bytes written so far -/
def conc (s : List Nat) (l : Nat × Array Nat) : Nat × Array Nat := (pay s l.1, l.2)

def adv (s : List Nat) (k : Nat) (l : Nat × Array Nat) : Nat × Array Nat :=
  (l.1 + k, l.2 ++ ((s.drop l.1).take k).toArray)

theorem adv_one (s : List Nat) (l : Nat × Array Nat) (h : l.1 < s.length) :
    adv s 1 l = (l.1 + 1, l.2.push (s.getD l.1 0)) := by
  simp only [adv]
  rw [List.drop_eq_getElem_cons h, List.take_succ_cons, List.take_zero, Array.push_eq_append]
  simp [List.getD_eq_getElem?_getD, h]

theorem adv_adv (s : List Nat) (k1 k2 : Nat) (l : Nat × Array Nat) :
    adv s k2 (adv s k1 l) = adv s (k1 + k2) l := by
  simp only [adv, Array.append_assoc, List.append_toArray, Nat.add_assoc]
  rw [List.take_add, List.drop_drop]

theorem mapM_laneStep (s : List Nat) (hb : ∀ x ∈ s, x < 256) (data : Array Nat) (hT : Table s data)
    (als : List (Nat × Array Nat)) (h : ∀ l ∈ als, l.1 < s.length) :
    (als.map (conc s)).mapM (laneStep data) = some ((als.map (adv s 1)).map (conc s)) := by
  induction als with
  | nil => rfl
  | cons l ls ih =>
    have hl := h l List.mem_cons_self
    have h1 : laneStep data (conc s l) = some (conc s (adv s 1 l)) := by
      rw [adv_one s l hl]
      exact laneStep_table s hb data hT l.1 hl l.2
    have h2 := ih (fun x hx => h x (List.mem_cons_of_mem _ hx))
    simp [List.mapM_cons, h1, h2]

theorem lanesRun_table (s : List Nat) (hb : ∀ x ∈ s, x < 256) (data : Array Nat) (hT : Table s data)
    (k : Nat) (als : List (Nat × Array Nat)) (h : ∀ l ∈ als, l.1 + k ≤ s.length) :
    lanesRun data k (als.map (conc s)) = some ((als.map (adv s k)).map (conc s)) := by
  induction k generalizing als with
  | zero =>
    simp only [lanesRun]
    congr 2
    rw [List.map_congr_left (g := id)]
    · simp
    · intro l _; simp [adv]
  | succ k ih =>
    have h1 := mapM_laneStep s hb data hT als (fun l hl => by have := h l hl; omega)
    simp only [lanesRun, h1]
    rw [ih (als.map (adv s 1))]
    · simp only [List.map_map]
      congr 2
      funext l
      simp only [Function.comp, adv_adv, Nat.add_comm 1 k]
    · intro l hl
      obtain ⟨l0, hl0, rfl⟩ := List.mem_map.1 hl
      have := h l0 hl0
      simp only [adv]; omega

theorem concatLanes_toList (ls : List (Nat × Array Nat)) :
    (concatLanes ls).toList = (ls.map (fun l => l.2.toList)).flatten := by
  have : ∀ (acc : Array Nat), (ls.foldl (fun acc l => acc ++ l.2) acc).toList
      = acc.toList ++ (ls.map (fun l => l.2.toList)).flatten := by
    induction ls with
    | nil => intro acc; simp
    | cons l ls ih => intro acc; simp [ih, List.append_assoc]
  simpa [concatLanes] using this #[]

theorem flatten_slices (s : List Nat) (ck m : Nat) :
    ((List.range m).map (fun k => (s.drop (k * ck)).take ck)).flatten = s.take (m * ck) := by
  induction m with
  | zero => simp
  | succ m ih =>
    rw [List.range_succ, List.map_append, List.flatten_append, ih]
    simp only [List.map_cons, List.map_nil, List.flatten_cons, List.flatten_nil, List.append_nil]
    rw [Nat.succ_mul, List.take_add]

end Kanzi.BWT
