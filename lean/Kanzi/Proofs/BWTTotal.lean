/-
Totality of `inverseMergeTPSI` on ARBITRARY input (any bytes, any primary index slots, any stale work
buffer whose pointers stay inside it): the model never takes an out-of-range index (`.fault`), it
returns either `count` bytes or the "corrupted primary index" error, and it leaves the buffer in a
state with the same property (so the next call on the instance is covered too).
This is the content of the fixes F24/F30 for the blocks of at most 4 MiB.
-/
import Kanzi.Proofs.BWTTables

namespace Kanzi.BWT

/-- every pointer stored in the work buffer stays inside it (`ptr >> 8` is the next index read) -/
def Closed (data : Array Nat) : Prop := ∀ a, a < data.size → rd data a / 256 < data.size

theorem closed_empty : Closed #[] := by intro a h; simp at h

theorem closed_ensureBuf (buf : Array Nat) (m : Nat) (hm : 0 < m) (h : Closed buf) : Closed (ensureBuf buf m) := by
  unfold ensureBuf
  split
  · intro a ha
    rw [rd_replicate]
    simp only [Array.size_replicate] at ha ⊢
    simp [ha]; omega
  · exact h

theorem put_some {bk data : Array Nat} {v w : Nat} {r : Array Nat × Array Nat} (h : put bk data v w = some r) :
    ∃ b, r.2 = data.setIfInBounds b w := by
  unfold put at h
  split at h
  · dsimp only at h
    split at h
    · injection h with h; subst h; exact ⟨_, rfl⟩
    · cases h
  · cases h

theorem putList_pres (P : Nat → Prop) (E : List (Nat × Nat)) (bk data : Array Nat)
    (hE : ∀ e ∈ E, P e.2) (hd : ∀ a, a < data.size → P (rd data a)) {r : Array Nat × Array Nat}
    (h : putList E bk data = some r) :
    r.2.size = data.size ∧ ∀ a, a < r.2.size → P (rd r.2 a) := by
  induction E generalizing bk data with
  | nil =>
    simp only [putList] at h
    injection h with h; subst h
    exact ⟨rfl, hd⟩
  | cons e es ih =>
    simp only [putList] at h
    cases hp : put bk data e.1 e.2 with
    | none => rw [hp] at h; cases h
    | some r1 =>
      rw [hp] at h
      obtain ⟨b, hb⟩ := put_some hp
      have := ih r1.1 r1.2 (fun x hx => hE x (List.mem_cons_of_mem _ hx))
        (by
          intro a ha
          rw [hb, rd_setIfInBounds]
          split
          · exact hE e List.mem_cons_self
          · exact hd a (by rw [hb, Array.size_setIfInBounds] at ha; exact ha)) h
      rw [hb, Array.size_setIfInBounds] at this
      exact this

/-! ### the decoding lanes never leave a closed table -/

theorem laneStep_closed (data : Array Nat) (hc : Closed data) (l : Nat × Array Nat) (hl : l.1 < data.size) :
    ∃ l', laneStep data l = some l' ∧ l'.1 < data.size ∧ l'.2.size = l.2.size + 1 := by
  obtain ⟨t, d⟩ := l
  simp only at hl
  refine ⟨(data[t] / 256, d.push (data[t] % 256)), by simp [laneStep, hl], ?_, by simp⟩
  rw [rd_eq_getElem hl]
  exact hc t hl

theorem mapM_laneStep_closed (data : Array Nat) (hc : Closed data) (ls : List (Nat × Array Nat))
    (hl : ∀ l ∈ ls, l.1 < data.size) :
    ∃ ls', ls.mapM (laneStep data) = some ls' ∧ (∀ l ∈ ls', l.1 < data.size) ∧
      ls'.map (fun l => l.2.size) = ls.map (fun l => l.2.size + 1) := by
  induction ls with
  | nil => exact ⟨[], rfl, by simp, rfl⟩
  | cons l ls ih =>
    obtain ⟨l', h1, h2, h3⟩ := laneStep_closed data hc l (hl l List.mem_cons_self)
    obtain ⟨ls', h4, h5, h6⟩ := ih (fun x hx => hl x (List.mem_cons_of_mem _ hx))
    refine ⟨l' :: ls', by simp [List.mapM_cons, h1, h4], ?_, by simp [h3, h6]⟩
    intro x hx
    rcases List.mem_cons.1 hx with rfl | hx
    · exact h2
    · exact h5 x hx

theorem lanesRun_closed (data : Array Nat) (hc : Closed data) (k : Nat) (ls : List (Nat × Array Nat))
    (hl : ∀ l ∈ ls, l.1 < data.size) :
    ∃ ls', lanesRun data k ls = some ls' ∧ (∀ l ∈ ls', l.1 < data.size) ∧
      ls'.map (fun l => l.2.size) = ls.map (fun l => l.2.size + k) := by
  induction k generalizing ls with
  | zero => exact ⟨ls, rfl, hl, by simp⟩
  | succ k ih =>
    obtain ⟨ls1, h1, h2, h3⟩ := mapM_laneStep_closed data hc ls hl
    obtain ⟨ls2, h4, h5, h6⟩ := ih ls1 h2
    refine ⟨ls2, by simp only [lanesRun, h1, h4], h5, ?_⟩
    rw [h6]
    have : ls1.map (fun l => l.2.size + k) = (ls1.map (fun l => l.2.size)).map (· + k) := by
      simp [List.map_map, Function.comp_def]
    rw [this, h3]
    simp [List.map_map, Function.comp_def, Nat.add_assoc, Nat.add_comm 1 k]

theorem concatLanes_size (ls : List (Nat × Array Nat)) :
    (concatLanes ls).size = (ls.map (fun l => l.2.size)).sum := by
  have : ∀ (acc : Array Nat), (ls.foldl (fun acc l => acc ++ l.2) acc).size
      = acc.size + (ls.map (fun l => l.2.size)).sum := by
    induction ls with
    | nil => intro acc; simp
    | cons l ls ih => intro acc; simp [ih, Nat.add_assoc]
  simpa [concatLanes] using this #[]

theorem sum_const (L : List Nat) (v : Nat) (h : ∀ x ∈ L, x = v) : L.sum = L.length * v := by
  induction L with
  | nil => simp
  | cons x xs ih =>
    rw [List.sum_cons, ih (fun y hy => h y (List.mem_cons_of_mem _ hy)), h x List.mem_cons_self,
      List.length_cons, Nat.succ_mul]
    omega

theorem toInt32_le (x : Nat) : toInt32 x ≤ Int.ofNat x := by
  unfold toInt32
  have : x % 2 ^ 32 ≤ x := Nat.mod_le _ _
  dsimp only
  split
  · simp only [Int.ofNat_eq_natCast]; omega
  · simp only [Int.ofNat_eq_natCast]; omega

/-- the decoding half on ANY closed table: `count` bytes or the index error -/
theorem mergeDecode_total (data : Array Nat) (hc : Closed data) (pidx : List Nat) (count p0 : Nat)
    (hcount : count ≤ data.size) (hp0 : 1 ≤ p0 ∧ p0 ≤ count) :
    (∃ out, mergeDecode data pidx count p0 = .ok out ∧ out.size = count) ∨
      mergeDecode data pidx count p0 = .err "pidx" := by
  unfold mergeDecode
  split
  · -- one chunk
    obtain ⟨ls', h1, _, h3⟩ := lanesRun_closed data hc count [(p0 - 1, Array.emptyWithCapacity count)]
      (by intro l hl; simp at hl; subst hl; simp only; omega)
    left
    refine ⟨concatLanes ls', by simp only [h1], ?_⟩
    rw [concatLanes_size, h3]; simp
  · next hch =>
    have h256 : 256 ≤ count := by
      unfold getBWTChunks THRESHOLD1 at hch
      split at hch
      · simp at hch
      · omega
    simp only []
    generalize hck : (if (count >>> 3) * 8 ≠ count then (count >>> 3) + 1 else count >>> 3) = ck
    have hckb : 7 * ck ≤ count ∧ count ≤ 8 * ck := by
      rw [← hck, Nat.shiftRight_eq_div_pow]
      split <;> omega
    generalize hts : (List.range 8).map (fun k => toInt32 (usub1 (pidx.getD k 0))) = ts
    have hlen : ts.length = 8 := by rw [← hts]; simp
    split
    · right; rfl
    · next hneg =>
      split
      · right; rfl
      · next hbig =>
        have h7 : ¬ 7 * ck > count := by omega
        simp only [h7, ite_false]
        have hlanes : ∀ l ∈ ts.map (fun t => (t.toNat, (Array.emptyWithCapacity ck : Array Nat))), l.1 < data.size := by
          intro l hl
          obtain ⟨t, ht, rfl⟩ := List.mem_map.1 hl
          have h1 : ¬ t < 0 := by
            intro h; apply hneg; rw [List.any_eq_true]; exact ⟨t, ht, by simpa using h⟩
          have h2 : ¬ t ≥ toInt32 data.size := by
            intro h; apply hbig; rw [List.any_eq_true]; exact ⟨t, ht, by simpa using h⟩
          have h3 := toInt32_le data.size
          simp only [Int.ofNat_eq_natCast] at h3
          simp only
          omega
        obtain ⟨ls1, r1, b1, s1⟩ := lanesRun_closed data hc (count - ck * 7) _ hlanes
        have hl1 : ls1.length = 8 := by
          have := congrArg List.length s1
          simpa [hlen] using this
        obtain ⟨ls2, r2, _, s2⟩ := lanesRun_closed data hc (ck - (count - ck * 7)) (ls1.take 7)
          (fun l hl => b1 l (List.mem_of_mem_take hl))
        left
        refine ⟨concatLanes (ls2 ++ ls1.drop 7), by simp only [r1, r2], ?_⟩
        rw [concatLanes_size, List.map_append, List.sum_append, s2]
        have hall1 : ∀ x ∈ ls1.map (fun l => l.2.size), x = count - ck * 7 := by
          rw [s1]; intro x hx
          obtain ⟨l, hl, rfl⟩ := List.mem_map.1 hx
          obtain ⟨t, _, rfl⟩ := List.mem_map.1 hl
          simp
        have hA : ((ls1.take 7).map (fun l => l.2.size + (ck - (count - ck * 7)))).sum = 7 * ck := by
          rw [sum_const _ ck]
          · simp [hl1]
          · intro x hx
            obtain ⟨l, hl, rfl⟩ := List.mem_map.1 hx
            have := hall1 l.2.size (List.mem_map.2 ⟨l, List.mem_of_mem_take hl, rfl⟩)
            omega
        have hB : ((ls1.drop 7).map (fun l => l.2.size)).sum = count - ck * 7 := by
          rw [sum_const _ (count - ck * 7)]
          · simp [hl1]
          · intro x hx
            obtain ⟨l, hl, rfl⟩ := List.mem_map.1 hx
            exact hall1 l.2.size (List.mem_map.2 ⟨l, List.mem_of_mem_drop hl, rfl⟩)
        rw [hA, hB]; omega

/-! ### the scatter phase never leaves the buffer -/

theorem range_pieces (n p0 : Nat) (h : 1 ≤ p0 ∧ p0 ≤ n) :
    0 :: (List.range' 1 (p0 - 1) ++ List.range' p0 (n - p0)) = List.range n := by
  have e1 : List.range' 1 (p0 - 1) ++ List.range' p0 (n - p0) = List.range' 1 (n - 1) := by
    have : p0 = 1 + (p0 - 1) := by omega
    conv => lhs; rhs; rw [this]
    rw [List.range'_append_1]
    congr 1; omega
  rw [e1, List.range_eq_range']
  have : n = (n - 1) + 1 := by omega
  conv => rhs; rw [this, List.range'_succ]

/-- the entries the three loops scatter for ANY source and any accepted first index -/
def rawEntries (src : Array Nat) (p0 : Nat) : List (Nat × Nat) :=
  (rd src 0, 0xFF00 + rd src 0) ::
    ((List.range' 1 (p0 - 1)).map (fun j => (rd src j, (j - 1) * 256 + rd src j)) ++
     (List.range' p0 (src.size - p0)).map (fun j => (rd src j, (j - 0) * 256 + rd src j)))

theorem rawEntries_keys (src : Array Nat) (p0 : Nat) (h : 1 ≤ p0 ∧ p0 ≤ src.size) :
    (rawEntries src p0).map (·.1) = src.toList := by
  have : (rawEntries src p0).map (·.1)
      = (0 :: (List.range' 1 (p0 - 1) ++ List.range' p0 (src.size - p0))).map (fun j => rd src j) := by
    simp [rawEntries, List.map_map, Function.comp_def]
  rw [this, range_pieces _ _ h]
  apply List.ext_getElem
  · simp
  · intro i h1 h2
    simp only [List.getElem_map, List.getElem_range, Array.getElem_toList]
    rw [rd_eq_getElem]

theorem rawEntries_words (src : Array Nat) (p0 M : Nat) (hb : ∀ b ∈ src.toList, b < 256)
    (h : 1 ≤ p0 ∧ p0 ≤ src.size) (hM : src.size ≤ M ∧ 256 ≤ M) :
    ∀ e ∈ rawEntries src p0, e.2 / 256 < M := by
  have hsym : ∀ j, rd src j < 256 := by
    intro j
    by_cases hj : j < src.size
    · rw [← rd_eq_getElem hj]; exact hb _ (by simp)
    · rw [rd_of_size_le (by omega)]; decide
  intro e he
  simp only [rawEntries, List.mem_cons, List.mem_append, List.mem_map, List.mem_range'_1] at he
  rcases he with rfl | ⟨j, hj, rfl⟩ | ⟨j, hj, rfl⟩
  · have := hsym 0; simp only; omega
  · have := hsym j; simp only; omega
  · have := hsym j; simp only; omega

/-- TOTALITY of `inverseMergeTPSI` (with the buffer invariant): any bytes, any slots, any closed stale
buffer.  Never `.fault` / `.hang`; success returns exactly `count` bytes. -/
theorem mergeTPSI_total (buf : Array Nat) (pidx : List Nat) (src : Array Nat)
    (hb : ∀ b ∈ src.toList, b < 256) (h2 : 1 ≤ src.size) (hbuf : Closed buf) :
    ((∃ out, (mergeTPSI buf pidx src).1 = .ok out ∧ out.size = src.size) ∨
      (mergeTPSI buf pidx src).1 = .err "pidx") ∧ Closed (mergeTPSI buf pidx src).2 := by
  unfold mergeTPSI
  simp only []
  split
  · exact ⟨Or.inr rfl, hbuf⟩
  · next hcond =>
    generalize hp : pidx.getD 0 0 = p0 at hcond
    have hp0 : 1 ≤ p0 ∧ p0 ≤ src.size := by omega
    generalize hdata : ensureBuf buf (max src.size 256) = data0
    have hsz0 : max src.size 256 ≤ data0.size := by rw [← hdata]; exact ensureBuf_size_ge _ _
    have hc0 : Closed data0 := by rw [← hdata]; exact closed_ensureBuf _ _ (by omega) hbuf
    have hkeys := rawEntries_keys src p0 hp0
    have hstart : ∀ c, c < 256 → rd (exclSums (histogram src) 0) c
        = below (fun e : Nat × Nat => e.1) (rawEntries src p0) c := by
      intro c hc
      rw [starts_rd _ _ _ hc, below_map, hkeys]; simp
    have hlenE : (rawEntries src p0).length = src.size := by
      have := congrArg List.length hkeys; simpa using this
    obtain ⟨bk', data', hrun, _, _, _, _, _⟩ :=
      putList_spec (rawEntries src p0) (below (fun e : Nat × Nat => e.1) (rawEntries src p0))
        (exclSums (histogram src) 0) data0 (exclSums_size _ _)
        (by
          intro e he
          have : e.1 ∈ (rawEntries src p0).map (·.1) := List.mem_map.2 ⟨e, he, rfl⟩
          rw [hkeys] at this
          exact hb _ this)
        hstart (fun c c2 hlt _ => below_mono _ _ hlt)
        (fun c _ => by
          have h1 := below_mono (fun e : Nat × Nat => e.1) (rawEntries src p0) (show c < c + 1 by omega)
          have h3 : below (fun e : Nat × Nat => e.1) (rawEntries src p0) (c + 1) ≤ (rawEntries src p0).length :=
            List.length_filter_le _ _
          have h4 : below (fun e : Nat × Nat => e.1) (rawEntries src p0) c
              + (ebucket (rawEntries src p0) c).length ≤ (rawEntries src p0).length := by
            exact Nat.le_trans h1 h3
          omega)
    have hpres := putList_pres (fun w => w / 256 < data0.size) (rawEntries src p0) _ data0
      (rawEntries_words src p0 data0.size hb hp0 (by omega)) hc0 hrun
    simp only at hpres
    -- split the run into the three loops of the model
    have hrun' := hrun
    simp only [rawEntries, putList] at hrun'
    have hrd0 : src.getD 0 0 = rd src 0 := rfl
    rw [hrd0]
    cases hput : put (exclSums (histogram src) 0) data0 (rd src 0) (0xFF00 + rd src 0) with
    | none => rw [hput] at hrun'; simp at hrun'
    | some r1 =>
      rw [hput] at hrun'
      simp only at hrun'
      obtain ⟨r2, e2, e3⟩ : ∃ m, putList ((List.range' 1 (p0 - 1)).map
          (fun j => (rd src j, (j - 1) * 256 + rd src j))) r1.1 r1.2 = some m ∧
          putList ((List.range' p0 (src.size - p0)).map (fun j => (rd src j, (j - 0) * 256 + rd src j))) m.1 m.2
            = some (bk', data') := by
        rw [putList_append] at hrun'
        exact Option.bind_eq_some_iff.1 hrun'
      have f2 := fillRange_eq src 1 (p0 - 1) 1 r1.1 r1.2 (by omega)
      have f3 := fillRange_eq src 0 (src.size - p0) p0 r2.1 r2.2 (by omega)
      rw [e2] at f2
      rw [e3] at f3
      simp only [f2, f3]
      have hclosed : Closed data' := by
        intro a ha
        have := hpres.2 a ha
        rw [hpres.1]; exact this
      refine ⟨?_, hclosed⟩
      exact mergeDecode_total data' hclosed pidx src.size p0 (by rw [hpres.1]; omega) hp0

end Kanzi.BWT
