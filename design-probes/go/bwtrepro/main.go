// bwtrepro: minimal reproducers of the three findings of the bwt slice in /repo/v2/transform/BWT.go.
// A is repaired by /repo 5aab71a (it now prints roundtrip=true for both destinations); B and C are
// API-level observations (not reachable through BWTBlockCodec + io.Reader).
//
//	go run ./cmd/bwtrepro A   valid block of 8*odd bytes > 4 MiB, jobs=1, len(dst)==len(block): Inverse fails
//	go run ./cmd/bwtrepro B   reused instance (stale work buffer) + forged chunk index: Inverse never returns
//	go run ./cmd/bwtrepro C   BWT.Inverse above 4 MiB with primary index 0: panic instead of an error
package main

import (
	"bytes"
	"fmt"
	"math/rand"
	"os"
	"time"

	"github.com/flanglet/kanzi-go/v2/transform"
)

func mk(n int, seed int64, last byte) []byte {
	r := rand.New(rand.NewSource(seed))
	b := make([]byte, n)
	for i := range b {
		b[i] = byte(r.Intn(4)) + 'a'
	}
	b[n-1] = last
	return b
}

func codec(jobs uint) *transform.BWTBlockCodec {
	ctx := map[string]any{"jobs": jobs}
	c, _ := transform.NewBWTBlockCodecWithCtx(&ctx)
	return c
}

func forward(src []byte) []byte {
	c := codec(1)
	dst := make([]byte, c.MaxEncodedLen(len(src)))
	_, w, err := c.Forward(src, dst)
	if err != nil {
		panic(err)
	}
	return dst[:w]
}

func main() {
	which := "A"
	if len(os.Args) > 1 {
		which = os.Args[1]
	}
	switch which {
	case "A":
		// inverseBiPSIv2Task, unrolled loop: i reaches start+ckSize when ckSize is odd, dst7[i] = dst[8*ckSize] = dst[count]
		n := 8 * 524289
		src := mk(n, 1, 'a')
		enc := forward(src)
		for _, extra := range []int{0, 1} {
			out := make([]byte, n+extra)
			_, w, err := codec(1).Inverse(enc, out)
			fmt.Printf("A: n=%d (8*%d) jobs=1 len(dst)=n+%d: written=%d err=%v roundtrip=%v\n", n, n/8, extra, w, err, err == nil && bytes.Equal(out[:n], src))
		}
	case "B":
		g := codec(1)
		big := mk(7<<20, 1, 'd')
		out := make([]byte, len(big)+8)
		_, _, err := g.Inverse(forward(big), out)
		fmt.Println("B: first call (valid 7 MiB block):", err)
		n := 5<<20 + 1
		src := mk(n, 2, 'b')
		enc := forward(src)
		psz := int(enc[0]&3) + 1
		ca := bytes.Count(src, []byte{'a'}) // row of the last suffix = 1 + count('a'): never written in `data`
		for k := 0; k < psz; k++ {
			enc[1+psz+k] = byte(ca >> (8 * (psz - 1 - k)))
		}
		done := make(chan error, 1)
		go func() {
			o := make([]byte, n+8)
			_, _, e := g.Inverse(enc, o)
			done <- e
		}()
		select {
		case e := <-done:
			fmt.Println("B: second call returned:", e)
		case <-time.After(20 * time.Second):
			fmt.Println("B: second call (5 MiB block, forged index of chunk 1) on the SAME instance did not return in 20 s (endless `for buckets[s] <= p { s++ }`)")
		}
		o := make([]byte, n+8)
		_, _, e := codec(1).Inverse(enc, o)
		fmt.Println("B: same forged block on a fresh instance:", e)
	case "C":
		n := 4<<20 + 1
		src := mk(n, 3, 'a')
		b, _ := transform.NewBWT()
		dst := make([]byte, n)
		b.Forward(src, dst)
		inv, _ := transform.NewBWT() // primary indexes never set: PrimaryIndex(0) == 0
		func() {
			defer func() {
				if r := recover(); r != nil {
					fmt.Println("C: BWT.Inverse of", n, "bytes with PrimaryIndex(0)==0 panics:", r)
				}
			}()
			_, _, err := inv.Inverse(dst, make([]byte, n))
			fmt.Println("C: returned", err)
		}()
		small, _ := transform.NewBWT()
		_, _, err := small.Inverse(dst[:1000], make([]byte, 1000))
		fmt.Println("C: the same on 1000 bytes (inverseMergeTPSI):", err)
	}
}
