package main

import (
	"bytes"
	"fmt"
	"math/rand"

	"github.com/flanglet/kanzi-go/v2/transform"
	"scratch/gen"
)

var names = []string{"NONE", "BWT", "BWTS", "LZ", "LZX", "LZP", "ROLZ", "ROLZX", "RLT", "ZRLT", "MTFT", "RANK", "SRT", "TEXT", "EXE", "MM", "UTF", "PACK", "DNA"}

const canary = 64

func rt(name, ent string, data []byte) (res string) {
	defer func() {
		if r := recover(); r != nil {
			res = fmt.Sprintf("PANIC %.80v", r)
		}
	}()
	typ, _ := transform.GetType(name)
	ctx := map[string]any{"transform": name, "entropy": ent, "blockSize": uint(max(1024, (len(data)+15)&-16)), "size": uint(len(data)), "bsVersion": uint(6), "jobs": uint(1)}
	t, err := transform.New(&ctx, typ)
	if err != nil {
		return "ctor " + err.Error()
	}
	req := t.MaxEncodedLen(len(data))
	in := make([]byte, len(data))
	copy(in, data)
	outFull := make([]byte, req+canary)
	for i := range outFull {
		outFull[i] = 0xA5
	}
	out := outFull[:req:req]
	_, n, err := t.Forward(in, out)
	if err != nil {
		return "fwd-err " + err.Error()
	}
	for i := req; i < len(outFull); i++ {
		if outFull[i] != 0xA5 {
			return "CANARY-FWD"
		}
	}
	if !bytes.Equal(in, data) {
		return "INPUT-MODIFIED skip=" + fmt.Sprintf("%08b", t.SkipFlags())
	}
	if int(n) > req {
		return "OVERSIZE"
	}
	sf := t.SkipFlags()
	// inverse with decoder-provided buffer size: blockSize + max(512, blockSize/16)
	ctx2 := map[string]any{"transform": name, "entropy": ent, "blockSize": ctx["blockSize"], "size": uint(n), "bsVersion": uint(6), "jobs": uint(1)}
	t2, err := transform.New(&ctx2, typ)
	if err != nil {
		return "ctor2 " + err.Error()
	}
	t2.SetSkipFlags(sf)
	bsz := int(ctx["blockSize"].(uint))
	dl := bsz + max(512, bsz>>4)
	dstFull := make([]byte, dl+canary)
	for i := range dstFull {
		dstFull[i] = 0x5A
	}
	dst := dstFull[:dl:dl]
	src := make([]byte, int(n)+512)
	copy(src, out[:n])
	_, m, err := t2.Inverse(src[:n], dst)
	if err != nil {
		return fmt.Sprintf("INV-ERR skip=%08b n=%d %v", sf, n, err)
	}
	for i := dl; i < len(dstFull); i++ {
		if dstFull[i] != 0x5A {
			return "CANARY-INV"
		}
	}
	if !bytes.Equal(dst[:m], data) {
		return fmt.Sprintf("MISMATCH skip=%08b n=%d m=%d", sf, n, m)
	}
	return ""
}

func main() {
	fails := 0
	n := 0
	seen := map[string]int{}
	for _, sh := range gen.Shapes {
		for _, sz := range []int{1, 2, 5, 15, 16, 17, 63, 64, 100, 255, 256, 257, 1000, 5000, 70000, 300000} {
			r := rand.New(rand.NewSource(int64(sz) + 11))
			data := sh.F(r, sz)
			if len(data) > sz {
				data = data[:sz]
			}
			for _, nm := range names {
				for _, ent := range []string{"NONE", "TPAQ"} {
					n++
					if res := rt(nm, ent, data); res != "" {
						fails++
						key := nm + " " + res[:min(len(res), 14)]
						seen[key]++
						if seen[key] <= 3 {
							fmt.Printf("FAIL %s/%s shape=%s size=%d: %s\n", nm, ent, sh.Name, sz, res)
						}
					}
				}
			}
		}
	}
	fmt.Println("cases", n, "fails", fails)
	for k, v := range seen {
		fmt.Println("  ", k, v)
	}
}
