/-
Proofs for `Kanzi/Model/BlockGen2.lean`, part 2a: the output of a successful `LZXCodec.Forward` consists
of byte values (needed by the stages and the entropy coder that follow it; the LZ slice did not state it).
-/
import Kanzi.Proofs.LZFwd
import Kanzi.Proofs.LZLen

namespace Kanzi.LZ

theorem put32_bytes (v : Nat) : ∀ x ∈ put32 v, x < 256 := by
  intro x hx
  simp only [put32, List.mem_cons, List.not_mem_nil, or_false] at hx
  rcases hx with h | h | h | h <;> subst h <;> exact Nat.mod_lt _ (by decide)

theorem distCode_bytes (d r0 r1 : Nat) : ∀ x ∈ (distCode d r0 r1).2.2, x < 256 := by
  intro x hx
  unfold distCode at hx
  split at hx
  · cases hx
  · split at hx
    · cases hx
    · split at hx
      · split at hx
        · simp only [List.mem_cons, List.not_mem_nil, or_false] at hx
          rcases hx with h | h | h <;> subst h <;> exact Nat.mod_lt _ (by decide)
        · simp only [List.mem_cons, List.not_mem_nil, or_false] at hx
          rcases hx with h | h <;> subst h <;> exact Nat.mod_lt _ (by decide)
      · simp only [List.mem_cons, List.not_mem_nil, or_false] at hx
        subst hx; exact Nat.mod_lt _ (by decide)

theorem litBytes_bytes (l : List Nat) (h : ∀ x ∈ l, x < 256) : ∀ x ∈ litBytes l, x < 256 := by
  intro x hx
  unfold litBytes at hx
  rcases List.mem_append.mp hx with h1 | h1
  · split at h1
    · exact emitLength_bytes _ x h1
    · cases h1
  · exact h x h1

/-- everything already decoded is a prefix of what the rest of the token stream denotes -/
theorem mem_denote : ∀ (qs : List Seq) (out : List Nat) (x : Nat), x ∈ out → x ∈ denote out qs := by
  intro qs
  induction qs with
  | nil => intro out x h; exact h
  | cons q qs ih =>
    intro out x h
    simp only [denote]
    apply ih
    have hp := copyMatch_prefix q.dist q.len (out ++ q.lits)
    have : x ∈ (copyMatch (out ++ q.lits) q.dist q.len).take (out ++ q.lits).length := by
      rw [hp]; exact List.mem_append_left _ h
    exact List.mem_of_mem_take this

theorem serSeqs_bytes (mm : Nat) : ∀ (qs : List Seq) (r0 r1 : Nat) (out : List Nat),
    (∀ x ∈ denote out qs, x < 256) →
    (∀ x ∈ (serSeqs mm r0 r1 qs).lit, x < 256) ∧ (∀ x ∈ (serSeqs mm r0 r1 qs).tk, x < 256) ∧
    (∀ x ∈ (serSeqs mm r0 r1 qs).m, x < 256) ∧ (∀ x ∈ (serSeqs mm r0 r1 qs).ml, x < 256) := by
  intro qs
  induction qs with
  | nil =>
    intro r0 r1 out _
    simp [serSeqs]
  | cons q qs ih =>
    intro r0 r1 out h
    simp only [denote] at h
    obtain ⟨h1, h2, h3, h4⟩ := ih q.dist r0 _ h
    have hl : ∀ x ∈ q.lits, x < 256 := by
      intro x hx
      apply h x
      apply mem_denote
      have hp := copyMatch_prefix q.dist q.len (out ++ q.lits)
      have : x ∈ (copyMatch (out ++ q.lits) q.dist q.len).take (out ++ q.lits).length := by
        rw [hp]; exact List.mem_append_right _ hx
      exact List.mem_of_mem_take this
    simp only [serSeqs]
    refine ⟨?_, ?_, ?_, ?_⟩
    · intro x hx
      rcases List.mem_append.mp hx with h | h
      · exact litBytes_bytes _ hl x h
      · exact h1 x h
    · intro x hx
      rcases List.mem_cons.mp hx with h | h
      · subst h; unfold seqTok; exact Nat.mod_lt _ (by decide)
      · exact h2 x h
    · intro x hx
      rcases List.mem_append.mp hx with h | h
      · exact distCode_bytes _ _ _ x h
      · exact h3 x h
    · intro x hx
      rcases List.mem_append.mp hx with h | h
      · unfold seqMl at h
        split at h
        · exact emitLength_bytes _ x h
        · cases h
      · exact h4 x h

theorem stream_bytes (mm far N : Nat) (qs : List Seq) (fl : List Nat) (hfar : far ≤ 1)
    (h : ∀ x ∈ denote [] qs ++ fl, x < 256) : ∀ x ∈ stream mm far N qs fl, x < 256 := by
  obtain ⟨h1, h2, h3, h4⟩ := serSeqs_bytes mm qs N N [] (fun x hx => h x (List.mem_append_left _ hx))
  have hfl := litBytes_bytes fl (fun x hx => h x (List.mem_append_right _ hx))
  intro x hx
  unfold stream at hx
  simp only [List.mem_append, List.mem_cons, List.not_mem_nil, or_false] at hx
  rcases hx with ((((hx | hx) | hx) | hx) | ((hx | hx) | (hx | hx) | hx | hx))
  · exact put32_bytes _ x hx
  · exact put32_bytes _ x hx
  · exact put32_bytes _ x hx
  · subst hx; unfold flagByte; omega
  · exact h1 x hx
  · exact hfl x hx
  · exact h2 x hx
  · subst hx; unfold finTok; exact Nat.mod_lt _ (by decide)
  · exact h3 x hx
  · exact h4 x hx

/-- the output of a successful Forward on a block of bytes consists of bytes -/
theorem lzForward_bytes {extra : Bool} {dt : Nat} {src t : Array Nat} {dstLen : Nat}
    (hb : ∀ x ∈ src.toList, x < 256) (h : lzForward extra dt src dstLen = .ok t) : ∀ x ∈ t.toList, x < 256 := by
  by_cases hne : src.size = 0 ∨ dstLen = 0
  · unfold lzForward at h
    simp only [hne, if_true] at h
    injection h with h
    subst h
    intro x hx; cases hx
  · obtain ⟨mm, far, qs, fl, e1, _, _, e4, _, _, _, e8, _⟩ := lzForward_stream (by omega) (by omega) h
    subst e1
    exact stream_bytes mm far src.size qs fl e4 (by rw [e8]; exact hb)

end Kanzi.LZ
