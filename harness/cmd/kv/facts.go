package main

// `kv facts -which <X> -repo /repo -out <file> [-selftest]`: regenerate a Lean fact base
// (lean/Kanzi/Generated/<X>.lean) from the working tree of the repository under test.
// Generators register themselves with registerFacts; the output must be deterministic (an
// unchanged repository regenerates a byte-identical file).

import (
	"flag"
	"fmt"
	"os"
	"sort"
)

var factsGens = map[string]func(repo string) (string, error){}

// optional self tests (run by `kv facts -which X -selftest`, no repository needed)
var factsSelftests = map[string]func() error{}

func registerFacts(name string, gen func(repo string) (string, error)) { factsGens[name] = gen }

func registerFactsSelftest(name string, f func() error) { factsSelftests[name] = f }

func factsNames() []string {
	names := []string{}
	for k := range factsGens {
		names = append(names, k)
	}
	sort.Strings(names)
	return names
}

func init() {
	register("facts", func(args []string) int {
		fs := flag.NewFlagSet("facts", flag.ExitOnError)
		which := fs.String("which", "", "fact base to generate")
		repo := fs.String("repo", "/repo", "repository under test (root; the Go module is <repo>/v2)")
		out := fs.String("out", "-", "output .lean file ('-' = stdout)")
		selftest := fs.Bool("selftest", false, "run the extractor self test for -which instead of generating")
		fs.Parse(args)
		gen, ok := factsGens[*which]
		if !ok {
			fmt.Fprintln(os.Stderr, "facts: unknown -which", *which, "; known:", factsNames())
			return 2
		}
		if *selftest {
			st, ok := factsSelftests[*which]
			if !ok {
				fmt.Fprintln(os.Stderr, "facts: no self test for", *which)
				return 2
			}
			if err := st(); err != nil {
				fmt.Fprintln(os.Stderr, "facts selftest", *which, "FAILED:", err)
				return 1
			}
			fmt.Println("facts selftest", *which, "ok")
			return 0
		}
		txt, err := gen(*repo)
		if err != nil {
			fmt.Fprintln(os.Stderr, "facts:", err)
			return 1
		}
		if *out == "" || *out == "-" {
			os.Stdout.WriteString(txt)
			return 0
		}
		if err := os.WriteFile(*out, []byte(txt), 0o644); err != nil {
			fmt.Fprintln(os.Stderr, "facts:", err)
			return 3
		}
		return 0
	})
}
