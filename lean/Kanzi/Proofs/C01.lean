import Kanzi.Model.Writer
import Kanzi.Model.Reader
import Kanzi.Spec.Stream
import Kanzi.Proofs.Writer
import Kanzi.Proofs.Reader
namespace Kanzi.C01
open Kanzi.Spec

theorem chunks_valid (B : Nat) (hB : 0 < B) (data : List Nat) :
    Reader.validBlocks B (chunks B data) ∧ (chunks B data).flatten = data := by
  induction hn : data.length using Nat.strongRecOn generalizing data with
  | _ n ih =>
    by_cases hd : data = []
    · subst hd
      rw [Writer.chunks_nil B hB]
      exact ⟨Reader.validBlocks_nil B, rfl⟩
    · have hpos : 0 < data.length := List.length_pos_iff.mpr hd
      rw [Writer.chunks_cons B hB data hd]
      obtain ⟨i1, i2⟩ := ih (data.drop B).length (by rw [List.length_drop]; omega) (data.drop B) rfl
      refine ⟨?_, ?_⟩
      · rw [Reader.validBlocks_cons]
        refine ⟨⟨?_, ?_⟩, ?_, i1⟩
        · rw [List.length_take]; omega
        · rw [List.length_take]; omega
        · intro hne
          rw [List.length_take]
          by_cases hle : data.length ≤ B
          · exfalso; apply hne
            rw [List.drop_eq_nil_of_le hle, Writer.chunks_nil B hB]
          · omega
      · rw [List.flatten_cons, i2, List.take_append_drop]

theorem keptOf_all (c : Reader.Cfg) (hf : c.from_ = none) (ht : c.to_ = none) (id : Nat)
    (bl : List (List Nat)) : Reader.keptOf c id bl = bl := by
  induction bl generalizing id with
  | nil => rfl
  | cons b bs ih =>
    have hr : Reader.inRange c id = true := by simp [Reader.inRange, hf, ht]
    rw [Reader.keptOf, if_pos hr, ih]

theorem selectRange_all (c : Reader.Cfg) (hf : c.from_ = none) (ht : c.to_ = none)
    (bl : List (List Nat)) : selectRange c.from_ c.to_ bl = bl := by
  rw [Reader.selectRange_eq, keptOf_all c hf ht]

theorem roundtrip (cw : Writer.Cfg) (cr : Reader.Cfg) (hB : 0 < cw.B) (hJ : 0 < cw.J)
    (hBr : cr.B = cw.B) (hJr : 0 < cr.J) (hrange : cr.from_ = none ∧ cr.to_ = none)
    (parts : List (List Nat)) (sizes : List Nat) :
    let w := Writer.run cw (Writer.init cw) (Writer.healthyProgram parts)
    let data := parts.flatten
    w.2 = parts.map (fun d => Writer.Out.wrote d.length none) ++ [Writer.Out.closedR none] ∧
    ∀ k, (hk : k < sizes.length) →
      ((Reader.readSeq cr (Reader.init (Reader.validFrames w.1.emitted)) sizes).2)[k]? =
        some (if sizes[k] = 0 then Reader.ReadRes.data [] none
              else if (sizes.take k).sum ≥ data.length then Reader.ReadRes.eof
              else Reader.ReadRes.data (specRead data (sizes.take k).sum sizes[k]) none) := by
  intro w data
  obtain ⟨h1, h2, _⟩ := Writer.healthy_run cw hB hJ parts
  refine ⟨h1, ?_⟩
  intro k hk
  have hBr' : 0 < cr.B := by omega
  obtain ⟨v1, v2⟩ := chunks_valid cr.B hBr' data
  have he : w.1.emitted = chunks cr.B data := by rw [hBr]; exact h2
  rw [he]
  have := Reader.reader_refines_spec cr hBr' hJr (chunks cr.B data) v1 sizes k hk
  rw [selectRange_all cr hrange.1 hrange.2, v2] at this
  exact this

theorem empty_stream (cw : Writer.Cfg) (cr : Reader.Cfg) (hB : 0 < cw.B) (hJ : 0 < cw.J)
    (hBr : cr.B = cw.B) (hJr : 0 < cr.J) (n : Nat) (hn : 0 < n) :
    (Writer.run cw (Writer.init cw) (Writer.healthyProgram [])).1.emitted = [] ∧
    (Reader.read cr (Reader.init (Reader.validFrames [])) n).2 = Reader.ReadRes.eof := by
  constructor
  · obtain ⟨_, h2, _⟩ := Writer.healthy_run cw hB hJ []
    rw [h2, List.flatten_nil, Writer.chunks_nil cw.B hB]
  · have hBr' : 0 < cr.B := by omega
    have := Reader.reader_refines_spec cr hBr' hJr [] (Reader.validBlocks_nil cr.B) [n] 0 (by simp)
    have hs : selectRange cr.from_ cr.to_ ([] : List (List Nat)) = [] := by simp [selectRange]
    have hn0 : n ≠ 0 := by omega
    simpa [Reader.readSeq, hs, hn0] using this

end Kanzi.C01
