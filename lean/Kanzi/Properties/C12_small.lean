/-
C12 (small pieces) — VarInt, alphabet, null entropy codec, frequency headers of the static coders,
one rANS step.  Property theorems only; proofs live in `Kanzi/Proofs/EntSmall.lean` (core Lean)
and `Kanzi/Proofs/EntSmallAns.lean` (uses Mathlib's `ring`/`nlinarith`).
The models (`Kanzi/Model/EntSmall.lean`) mirror v2/entropy/{EntropyUtils,NullEntropyCodec,
ANSRangeCodec,RangeCodec}.go and are tied to /repo by the `entsmall` correspondence stream
(byte-identical bitstreams, both directions).

Every round trip is stated in the "exact consumption" form
    dec (enc x ++ rest) = some (x, rest)      for EVERY continuation `rest`
over the abstract bit strings `Kanzi.Bits` (C14 lifts this to the real bitstreams).
-/
import Kanzi.Model.EntSmall
import Kanzi.Proofs.EntSmall
import Kanzi.Proofs.EntSmallAns
import Kanzi.Proofs.Normalize

namespace Kanzi.C12
open Kanzi.Bits Kanzi.EntSmall

/-! ## 1. VarInt -/

/-- `ReadVarInt (WriteVarInt v) = v` for every `uint32`, consuming exactly the written bits; the
encoding is a whole number of bytes, between 1 and 5 (`varIntLen` = the value returned by
`WriteVarInt`). -/
theorem C12_varint (v : Nat) (hv : v < 2 ^ 32) :
    (∀ rest : Bits, readVarInt (writeVarInt v ++ rest) = some (v, rest)) ∧
    (writeVarInt v).length = 8 * varIntLen v ∧ 1 ≤ varIntLen v ∧ varIntLen v ≤ 5 ∧
    (writeVarInt v).length ≤ 40 := by
  have h := varint_length v
  exact ⟨fun rest => varint_roundtrip v hv rest, h.1, h.2.1, h.2.2, by omega⟩

/-! ## 2. Alphabet -/

/-- for every strictly increasing list of symbols `< 256` (hence of size 0..256: the three
encodings empty / full / partial with bit masks) `EncodeAlphabet` succeeds and `DecodeAlphabet`
returns the same list, consuming exactly the written bits. -/
theorem C12_alphabet (a : List Nat) (hs : a.Pairwise (· < ·)) (ha : ∀ s ∈ a, s < 256) :
    encodeAlphabet a = some (encodeAlphabetBits a) ∧
    ∀ rest : Bits, decodeAlphabet (encodeAlphabetBits a ++ rest) = some (a, rest) :=
  ⟨encodeAlphabet_some a hs ha, fun rest => alphabet_roundtrip a hs ha rest⟩

example : [3, 7, 8, 200].Pairwise (· < ·) ∧ ∀ s ∈ [3, 7, 8, 200], s < 256 := by decide

/-! ## 3. Null entropy codec -/

/-- for every block of bytes (any length, 0 and lengths above the 2^23-byte chunk limit
included) the decoder asked for `b.length` bytes returns `b` and consumes exactly the written
bits; the image is the plain byte string; the chunk sizes sum to the length and never exceed
2^23. -/
theorem C12_none (b : List Nat) (hb : ∀ x ∈ b, x < 256) :
    (∀ rest : Bits, nullDecode (nullEncode b ++ rest) b.length = some (b, rest)) ∧
    nullEncode b = ofBytes b ∧
    (nullChunks b.length).sum = b.length ∧ ∀ c ∈ nullChunks b.length, 0 < c ∧ c ≤ 2 ^ 23 := by
  have h := nullChunksAux_sum b.length b.length (Nat.le_refl _)
  exact ⟨fun rest => null_roundtrip b hb rest, nullEncode_eq b, h.1, h.2⟩

/-! ## 4. Frequency headers (ANS order 0 and Range) -/

/-- **C12_freq_header.**  `a` = alphabet (strictly increasing, non empty, symbols < 256),
`f` = the 256-entry frequency table, zero outside `a`, positive on `a`, summing to `2^lr`,
`8 ≤ lr ≤ 15`.  Then both header decoders return exactly `(a, f, lr)` and consume exactly the
header bits.  (`lr = 16`, accepted by the Go constructors, does not fit the 3-bit field: see the
report; it is excluded here because the Go code itself cannot round trip it.) -/
theorem C12_freq_header (a f : List Nat) (lr : Nat) (hlr : 8 ≤ lr ∧ lr ≤ 15)
    (hs : a.Pairwise (· < ·)) (ha : ∀ s ∈ a, s < 256) (hne : a ≠ [])
    (hlen : f.length = 256) (hz : ∀ i, i ∉ a → f.getD i 0 = 0) (hpos : ∀ s ∈ a, 1 ≤ f.getD s 0)
    (hsum : (a.map (fun s => f.getD s 0)).sum = 2 ^ lr) (rest : Bits) :
    ansDecodeHeader (ansEncodeHeader a f lr ++ rest) = some ((a, f, lr), rest) ∧
    rangeDecodeHeader (rangeEncodeHeader a f lr ++ rest) = some ((a, f, lr), rest) := by
  have hle : ∀ s ∈ a, f.getD s 0 ≤ 2 ^ lr := by
    intro s hsa
    rw [← hsum]
    exact mem_le_sum _ _ (List.mem_map.mpr ⟨s, hsa, rfl⟩)
  have ht : FreqTable a f lr := ⟨hs, ha, hne, hlen, hz, hpos, hle⟩
  exact ⟨ans_header_roundtrip a f lr hlr ht hsum rest, range_header_roundtrip a f lr hlr ht hsum rest⟩

/-- **C12_freq_header_needs_sum** (the direction that makes C16 necessary).  Same table
hypotheses but `Σ f ≠ 2^lr` (each entry still `≤ 2^lr`): whenever a header decoder accepts the
encoder's header it reconstructs a DIFFERENT first frequency (`2^lr − Σ others`), so the table
cannot round trip. -/
theorem C12_freq_header_needs_sum (a f : List Nat) (lr : Nat) (hlr : 8 ≤ lr ∧ lr ≤ 15)
    (hs : a.Pairwise (· < ·)) (ha : ∀ s ∈ a, s < 256) (hne : a ≠ [])
    (hlen : f.length = 256) (hz : ∀ i, i ∉ a → f.getD i 0 = 0) (hpos : ∀ s ∈ a, 1 ≤ f.getD s 0)
    (hle : ∀ s ∈ a, f.getD s 0 ≤ 2 ^ lr)
    (hsum : (a.map (fun s => f.getD s 0)).sum ≠ 2 ^ lr) (rest : Bits) :
    (∀ a' f' lr' r, ansDecodeHeader (ansEncodeHeader a f lr ++ rest) = some ((a', f', lr'), r) →
        a' = a ∧ lr' = lr ∧ r = rest ∧ f'.getD (a.headD 0) 0 ≠ f.getD (a.headD 0) 0) ∧
    (∀ a' f' lr' r, rangeDecodeHeader (rangeEncodeHeader a f lr ++ rest) = some ((a', f', lr'), r) →
        a' = a ∧ lr' = lr ∧ r = rest ∧ f'.getD (a.headD 0) 0 ≠ f.getD (a.headD 0) 0) ∧
    ansDecodeHeader (ansEncodeHeader a f lr ++ rest) ≠ some ((a, f, lr), rest) ∧
    rangeDecodeHeader (rangeEncodeHeader a f lr ++ rest) ≠ some ((a, f, lr), rest) := by
  have ht : FreqTable a f lr := ⟨hs, ha, hne, hlen, hz, hpos, hle⟩
  refine ⟨?_, ?_, ?_, ?_⟩
  · intro a' f' lr' r h
    have hd := ans_header_dec a f lr hlr ht rest a' f' lr' r h
    exact ⟨hd.1, hd.2.1, hd.2.2.1, ans_header_needs_sum a f lr hlr ht hsum rest a' f' lr' r h⟩
  · intro a' f' lr' r h
    have hd := range_header_dec a f lr hlr ht rest a' f' lr' r h
    exact ⟨hd.1, hd.2.1, hd.2.2.1, range_header_needs_sum a f lr hlr ht hsum rest a' f' lr' r h⟩
  · intro h
    exact ans_header_needs_sum a f lr hlr ht hsum rest a f lr rest h rfl
  · intro h
    exact range_header_needs_sum a f lr hlr ht hsum rest a f lr rest h rfl

/-- the hypotheses of `C12_freq_header` are satisfiable: two symbols, 100 + 156 = 2^8 -/
example : ansDecodeHeader (ansEncodeHeader [0, 1] (100 :: 156 :: List.replicate 254 0) 8 ++ [true])
    = some (([0, 1], 100 :: 156 :: List.replicate 254 0, 8), [true]) := by
  refine (C12_freq_header [0, 1] (100 :: 156 :: List.replicate 254 0) 8 ⟨by omega, by omega⟩
    (by decide) (by decide) (by decide) ?_ ?_ ?_ rfl [true]).1
  · rw [List.length_cons, List.length_cons, List.length_replicate]
  · intro i hi
    match i with
    | 0 => exact absurd (List.mem_cons_self) hi
    | 1 => exact absurd (List.mem_cons_of_mem _ List.mem_cons_self) hi
    | j + 2 => exact getD_replicate_zero 254 j
  · intro s hs
    rcases List.mem_cons.mp hs with rfl | hs
    · exact (by decide : 1 ≤ 100)
    · rcases List.mem_cons.mp hs with rfl | hs
      · exact (by decide : 1 ≤ 156)
      · cases hs

/-- **C16 ⟹ header correctness.**  For every histogram `h` over 256 symbols with a positive total
the table produced by `NormalizeFrequencies` (model of C16) at scale `2^lr`, `8 ≤ lr ≤ 15`, is
transmitted exactly by both header codecs. -/
theorem C12_freq_header_after_normalize (h : List Nat) (lr : Nat) (hlr : 8 ≤ lr ∧ lr ≤ 15)
    (hlen : h.length = 256) (htot : 0 < h.sum) :
    ∃ o, Kanzi.Normalize.normalize h h.sum (2 ^ lr) = .ok o ∧ ∀ rest : Bits,
      ansDecodeHeader (ansEncodeHeader o.alphabet o.freqs lr ++ rest) = some ((o.alphabet, o.freqs, lr), rest) ∧
      rangeDecodeHeader (rangeEncodeHeader o.alphabet o.freqs lr ++ rest)
        = some ((o.alphabet, o.freqs, lr), rest) := by
  have hp8 : 2 ^ 8 ≤ 2 ^ lr := Nat.pow_le_pow_right (by decide) hlr.1
  have hp16 : 2 ^ lr ≤ 2 ^ 16 := Nat.pow_le_pow_right (by decide) (by omega)
  obtain ⟨o, ho, hl, hsum, hsup, _, _, hsorted, hmem⟩ :=
    Kanzi.Normalize.normalize_valid h (2 ^ lr) (by omega) ⟨by omega, by omega⟩ htot
  refine ⟨o, ho, ?_⟩
  have halt : ∀ s ∈ o.alphabet, s < 256 := fun s hs => by have := ((hmem s).mp hs).1; omega
  have hz : ∀ i, i ∉ o.alphabet → o.freqs.getD i 0 = 0 := by
    intro i hi
    by_cases hi256 : i < h.length
    · have hh : h.getD i 0 = 0 := by
        by_contra hc
        exact hi ((hmem i).mpr ⟨hi256, hc⟩)
      have := hsup i hi256
      rw [hh] at this
      have : ¬ 0 < o.freqs.getD i 0 := fun hc => by have := this.mpr hc; omega
      omega
    · have hn : o.freqs[i]? = none := List.getElem?_eq_none (by omega)
      rw [List.getD_eq_getElem?_getD, hn]; rfl
  have hpos : ∀ s ∈ o.alphabet, 1 ≤ o.freqs.getD s 0 := by
    intro s hs
    obtain ⟨h1, h2⟩ := (hmem s).mp hs
    exact (hsup s h1).mp (by omega)
  have hne : o.alphabet ≠ [] := by
    intro he
    have hall : ∀ x ∈ h, x = 0 := by
      intro x hx
      obtain ⟨i, hi, rfl⟩ := List.getElem_of_mem hx
      by_contra hc
      have : i ∈ o.alphabet := (hmem i).mpr ⟨hi, by simpa [List.getD_eq_getElem?_getD, hi] using hc⟩
      rw [he] at this; simp at this
    have : h.sum = 0 := sum_eq_zero h hall
    omega
  have hsumA : (o.alphabet.map (fun s => o.freqs.getD s 0)).sum = 2 ^ lr := by
    rw [← sum_over_alphabet o.alphabet o.freqs hsorted (by intro s hs; have := halt s hs; omega) hz, hsum]
  intro rest
  exact C12_freq_header o.alphabet o.freqs lr hlr hsorted halt hne (by omega) hz hpos hsumA rest

/-! ## 5. one rANS step -/

/-- **C12_ans_reciprocal.**  With the `invFreq` / `invShift` fields computed by
`encSymbol.reset(c, f, lr)` for ANY frequency whose clamped value `min f (2^lr − 1)` is at least 2
(`lr ≤ 16`, so every frequency up to 2^16), the multiply–shift used by `encodeSymbol` is the exact
quotient for every state `x < 2^31`, and the 64-bit product does not overflow. -/
theorem C12_ans_reciprocal (c f lr x : Nat) (hlr : lr ≤ 16) (hf : 2 ≤ min f (2 ^ lr - 1)) (hx : x < 2 ^ 31) :
    (x * (encSymReset c f lr).invFreq) >>> (encSymReset c f lr).invShift = x / min f (2 ^ lr - 1) ∧
    x * (encSymReset c f lr).invFreq < 2 ^ 63 :=
  reciprocal_sym c f lr x hlr hf hx

/-- frequency 1 uses the constants `0xFFFFFFFF`, 32 and a compensating bias: in every case
(`f ≥ 1`, `1 ≤ lr ≤ 16`) the new state is `(x / f')·2^lr + x mod f' + c` with `f' = min f (2^lr−1)`,
for every `0 < x < 2^31`. -/
theorem C12_ans_encode_closed_form (c f lr x : Nat) (hlr : 1 ≤ lr ∧ lr ≤ 16) (hf : 0 < f)
    (hx0 : 0 < x) (hx : x < 2 ^ 31) :
    x + (encSymReset c f lr).bias
        + ((x * (encSymReset c f lr).invFreq) >>> (encSymReset c f lr).invShift) * (encSymReset c f lr).cmplFreq
      = (x / min f (2 ^ lr - 1)) * 2 ^ lr + x % min f (2 ^ lr - 1) + c :=
  encode_state c f lr x hlr hf hx0 hx

/-- **C12_ans_step** (no extra hypothesis: the reciprocal is proved).  For `8 ≤ lr ≤ 15`,
`0 < f`, `c + f ≤ 2^lr` and a state `x` in the normalised interval `[2^15, 2^31)`:
the encoder emits at most one 16-bit word and its new state `x'` is again normalised; the slot
`x' mod 2^lr` lies in `[c, c+f)` (it identifies the symbol); and the decoder step on `x'`, with
the emitted words in front of ANY further words `ws`, returns exactly `x` and leaves `ws`. -/
theorem C12_ans_step (lr c f x : Nat) (ws : List Nat) (hlr : 8 ≤ lr ∧ lr ≤ 15) (hf : 0 < f)
    (hc : c + f ≤ 2 ^ lr) (hx : 2 ^ 15 ≤ x ∧ x < 2 ^ 31) :
    2 ^ 15 ≤ (encodeStep x (encSymReset c f lr)).2 ∧ (encodeStep x (encSymReset c f lr)).2 < 2 ^ 31 ∧
    c ≤ (encodeStep x (encSymReset c f lr)).2 % 2 ^ lr ∧
    (encodeStep x (encSymReset c f lr)).2 % 2 ^ lr < c + f ∧
    (∀ w ∈ (encodeStep x (encSymReset c f lr)).1, w < 2 ^ 16) ∧
    (encodeStep x (encSymReset c f lr)).1.length ≤ 1 ∧
    decodeStep (encodeStep x (encSymReset c f lr)).2 (decSymReset c f lr) lr
        ((encodeStep x (encSymReset c f lr)).1 ++ ws) = (x, ws) :=
  ans_step lr c f x ws hlr hf hc hx

example : (8 ≤ 12 ∧ 12 ≤ 15) ∧ 0 < 5 ∧ 7 + 5 ≤ 2 ^ 12 ∧ (2 ^ 15 ≤ 40000 ∧ 40000 < 2 ^ 31) := by decide

end Kanzi.C12
