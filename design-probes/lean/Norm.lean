namespace Norm

/-- one pass of the spreading loop: adjust every entry > 2 by one (up or down) while delta > 0.
    returns (new list, remaining delta) -/
def pass (up : Bool) : List Nat → Nat → List Nat × Nat
  | [], d => ([], d)
  | f :: fs, d =>
    if d = 0 then (f :: fs, 0)
    else if f ≤ 2 then ((f :: (pass up fs d).1), (pass up fs d).2)
    else ((if up then f + 1 else f - 1) :: (pass up fs (d - 1)).1, (pass up fs (d - 1)).2)

theorem pass_sum_up (fs : List Nat) (d : Nat) :
    (pass true fs d).1.sum + (pass true fs d).2 = fs.sum + d := by
  induction fs generalizing d with
  | nil => simp [pass]
  | cons f fs ih =>
    unfold pass
    split
    · simp_all
    · split
      · have := ih d; simp only [List.sum_cons] at *; omega
      · have := ih (d-1); simp only [List.sum_cons, if_true] at *; omega

theorem pass_sum_down (fs : List Nat) (d : Nat) :
    (pass false fs d).1.sum + d = fs.sum + (pass false fs d).2 ∧ (pass false fs d).2 ≤ d := by
  induction fs generalizing d with
  | nil => simp [pass]
  | cons f fs ih =>
    unfold pass
    split
    · simp_all
    · split
      · have := ih d; simp only [List.sum_cons] at *; omega
      · have := ih (d-1)
        simp only [List.sum_cons, Bool.false_eq_true, if_false] at *
        omega

/-- all entries stay ≥ 1 in the down direction (never zero a symbol) -/
theorem pass_pos (up : Bool) (fs : List Nat) (d : Nat) (h : ∀ f ∈ fs, 1 ≤ f) :
    ∀ f ∈ (pass up fs d).1, 1 ≤ f := by
  induction fs generalizing d with
  | nil => simp [pass]
  | cons f fs ih =>
    unfold pass
    have hf := h f (by simp)
    have hfs : ∀ g ∈ fs, 1 ≤ g := fun g hg => h g (by simp [hg])
    split
    · exact h
    · split
      · intro g hg
        simp only [List.mem_cons] at hg
        rcases hg with rfl | hg
        · exact hf
        · exact ih d hfs g hg
      · intro g hg
        simp only [List.mem_cons] at hg
        rcases hg with rfl | hg
        · split <;> omega
        · exact ih (d-1) hfs g hg

end Norm
