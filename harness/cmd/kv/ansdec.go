package main

// ansdec: the REAL ANS range decoders (entropy.NewANSRangeDecoder / NewANSRangeDecoderWithCtx /
// the EntropyCodecFactory, order 0 and 1, bitstream versions 1..6) on FORGED input — property C03
// (the decoder is total).  Every op gives the constructor arguments, the lengths of successive
// Read calls on one decoder, and the bytes of the input bitstream; the canonical answer is, per
// Read, `ret n err fnv(block[:n])` or the class of the panic (eos: raised by the input bitstream
// running out; index: runtime bounds error inside the codec; overrun: raised inside
// ReadArray(buf, count) called with count > 8*len(buf)), then len(this.f2s) and len(this.buffer).
// The Lean model lean/Kanzi/Model/AnsDec.lean (driver lean/Kanzi/Drv/AnsDec.lean) must predict the
// same line.  Oracles on the real code, independent of the model: every Read returns within the
// watchdog; an oversize ReadArray never returns normally; the slices the decoder allocates stay
// within the bound proved for the model (len(buffer) <= max(2*min(chunk,len),256), times 9/8 for
// bitstream version 1, len(f2s) <= dim*32768); the bytes the Go runtime allocated during a Read stay within that bound
// plus a small constant (a forged 2^27 size must be rejected before allocating).

import (
	"fmt"
	"math/rand"
	"reflect"
	"runtime"
	"strconv"
	"strings"
	"time"

	kanzi "github.com/flanglet/kanzi-go/v2"
	"github.com/flanglet/kanzi-go/v2/bitstream"
	"github.com/flanglet/kanzi-go/v2/entropy"
)

func init() {
	registerStream(&Stream{
		Name:     "ansdec",
		Rule:     "ad: real ANS decoders on forged input. Families: valid (real encoder output, orders 0/1, lr 8..16, 1..3 chunks, 1..2 Reads), flip-hdr / flip-size / flip-state / flip-payload (single bit flips by region), trunc (cut at every byte or sampled), garbage (appended / replaced tail), count (Read length differing from the encoded length), params (wrong order / chunk / version), random (random bytes, steered first bits), craft-* (hand-built headers: alphabet 0/1/2/255/256 symbols, logMax > lr, frequency = scale, sum >= scale, sum < scale, every lr; chunk sizes 0, 2len, max(2len,256)+-1, 2^27-1, 2^27, 5-byte varints; extreme states), stale (two Reads, second chunk uses tables left by the first at another log range), v1 (bitstream version 1: decodeChunkV1), ctor (constructor errors). distinct_nontrivial = distinct ops whose first Read did not return all bytes without error (forged input actually rejected or misdecoded).",
		Gen:      adGen,
		Exec:     adExec,
		Serial:   true, // the allocation oracle reads runtime.MemStats around each Read
		Watchdog: 120 * time.Second,
	})
}

// ---------- instrumented input bitstream ----------

type adIBS struct {
	inner   *bitstream.DefaultInputBitStream
	overrun bool // a ReadArray asked for more bits than the destination holds
	inArr   bool
}

func (w *adIBS) ReadBit() int                { return w.inner.ReadBit() }
func (w *adIBS) ReadBits(n uint) uint64      { return w.inner.ReadBits(n) }
func (w *adIBS) Close() error                { return w.inner.Close() }
func (w *adIBS) Read() uint64                { return w.inner.Read() }
func (w *adIBS) HasMoreToRead() (bool, error) { return w.inner.HasMoreToRead() }
func (w *adIBS) ReadArray(bits []byte, count uint) uint {
	if count > 8*uint(len(bits)) {
		w.overrun = true
	}
	w.inArr = true
	r := w.inner.ReadArray(bits, count)
	w.inArr = false
	return r
}

func adOpt(s string) (int, bool, bool) { // value, given, ok
	if s == "-" {
		return 0, false, true
	}
	v, err := strconv.Atoi(s)
	return v, true, err == nil && v >= 0
}

func adFieldLen(d any, name string) int {
	v := reflect.ValueOf(d)
	if v.Kind() == reflect.Pointer || v.Kind() == reflect.Interface {
		v = v.Elem()
	}
	if v.Kind() == reflect.Pointer {
		v = v.Elem()
	}
	f := v.FieldByName(name)
	if !f.IsValid() {
		return -1
	}
	return f.Len()
}

func adExec(op string, res *Result) string {
	w := strings.Fields(op)
	if len(w) != 7 || w[0] != "ad" {
		return "bad-op"
	}
	via := w[1]
	order, hasOrder, ok1 := adOpt(w[2])
	chunk, hasChunk, ok2 := adOpt(w[3])
	bsv, hasBsv, ok3 := adOpt(w[4])
	input, ok4 := esUnhex(w[6])
	if !ok1 || !ok2 || !ok3 || !ok4 {
		return "bad-op"
	}
	var lens []int
	for _, s := range strings.Split(w[5], ",") {
		v, err := strconv.Atoi(s)
		if err != nil || v < 0 {
			return "bad-op"
		}
		lens = append(lens, v)
	}
	ibs := &adIBS{inner: esNewIBS(input)}
	var args []uint
	if hasOrder {
		args = append(args, uint(order))
		if hasChunk {
			args = append(args, uint(chunk))
		}
	}
	var d kanzi.EntropyDecoder
	var err error
	ctx := map[string]any{}
	if hasBsv {
		ctx["bsVersion"] = uint(bsv)
	}
	switch via {
	case "p":
		if hasBsv {
			return "err:ctor"
		}
		d, err = entropy.NewANSRangeDecoder(ibs, args...)
	case "c":
		d, err = entropy.NewANSRangeDecoderWithCtx(ibs, &ctx, args...)
	case "f":
		if !hasOrder || hasChunk || order > 1 {
			return "err:ctor"
		}
		d, err = entropy.NewEntropyDecoder(ibs, ctx, []uint32{entropy.ANS0_TYPE, entropy.ANS1_TYPE}[order])
	default:
		return "err:ctor"
	}
	if err != nil || d == nil {
		res.Tags = append(res.Tags, "out:ctor-error")
		return "err:ctor"
	}
	effBsv := 6
	if hasBsv {
		effBsv = bsv
	}
	chunkEff := 16384
	if via != "p" && effBsv < 4 {
		chunkEff = 32768
	}
	if hasChunk {
		chunkEff = chunk
	}
	dim := 1
	if hasOrder && order == 1 {
		dim = 256
		chunkEff = min(chunkEff<<8, 1<<27)
	}
	var toks []string
	maxBound := 0
	for ri, ln := range lens {
		blk := make([]byte, ln)
		var n int
		var rerr error
		var pv any
		var ms0, ms1 runtime.MemStats
		runtime.ReadMemStats(&ms0)
		func() {
			defer func() { pv = recover() }()
			n, rerr = d.Read(blk)
		}()
		runtime.ReadMemStats(&ms1)
		delta := int64(ms1.TotalAlloc - ms0.TotalAlloc)
		bufLen, f2sLen := adFieldLen(d, "buffer"), adFieldLen(d, "f2s")
		// --- oracles on the real run ---
		site := "entropy.ANSRangeDecoder.Read"
		if ibs.overrun && pv == nil {
			esViol(res, site, "overrun-returned", fmt.Sprintf("ReadArray with count > 8*len(dst) returned normally (%s)", op[:min(len(op), 120)]))
		}
		f2sBound := dim * 32768
		bufBound := max(2*min(chunkEff, ln), 256)
		maxBound = max(maxBound, bufBound) // the buffer persists from Read to Read
		if f2sLen > f2sBound {
			esViol(res, site, "alloc-f2s", fmt.Sprintf("len(f2s)=%d > %d", f2sLen, f2sBound))
		}
		if effBsv != 1 {
			if bufLen > bufBound && ri == 0 {
				esViol(res, site, "alloc-buffer", fmt.Sprintf("len(buffer)=%d > %d for a block of %d bytes", bufLen, bufBound, ln))
			}
			if ri == 0 && delta > int64(f2sBound+bufBound+1<<16) {
				esViol(res, site, "alloc-total", fmt.Sprintf("%d bytes allocated during Read of %d bytes (bound %d)", delta, ln, f2sBound+bufBound+1<<16))
			}
		} else if bufLen > maxBound+maxBound/8 || (ri == 0 && delta > int64(f2sBound+bufBound+bufBound/8+1<<16)) {
			// decodeChunkV1 allocates sz + sz>>3 bytes, sz = the VarInt of the stream.  It used to accept any
			// sz < 2^27 (finding: 144 MiB per task from a 52-byte stream); since the repair sz > max(2*len,256) is
			// rejected, so len(buffer) <= bufBound*9/8 (theorem C03_ans_v1_alloc_bound).  A regression is reported here.
			res.Tags = append(res.Tags, "obs:v1-buffer-from-forged-size")
			esViol(res, "entropy.ANSRangeDecoder.decodeChunkV1", "alloc-forged-size",
				fmt.Sprintf("bitstream version 1: len(buffer)=%d allocated for a Read of %d bytes, beyond 9/8 of max(2*len,256)=%d: the size comes from the stream's VarInt", bufLen, ln, bufBound))
		}
		if pv != nil {
			cls := "eos"
			if _, isRt := pv.(runtime.Error); isRt {
				cls = "index"
			}
			if ibs.overrun {
				res.Tags = append(res.Tags, "obs:overrun-raised-as-"+cls)
				cls = "overrun"
			} else if cls == "index" && ibs.inArr {
				cls = "index-in-readarray" // a bounds error inside the bitstream without an oversize request: unexpected
				esViol(res, "bitstream.DefaultInputBitStream.ReadArray", "index", fmt.Sprint(pv))
			}
			toks = append(toks, "panic:"+cls)
			res.Tags = append(res.Tags, "out:panic-"+cls)
			if ri == 0 {
				res.Nontrivial = true
			}
			toks = append(toks, fmt.Sprintf("f2s=%d buf=%d", f2sLen, bufLen))
			break
		}
		if n < 0 || n > ln {
			esViol(res, site, "bad-count", fmt.Sprintf("Read returned %d for a block of %d", n, ln))
			n = 0
		}
		e := 0
		if rerr != nil {
			e = 1
		}
		toks = append(toks, fmt.Sprintf("ret %d %d %016x", n, e, a1Fnv(blk[:n])))
		switch {
		case rerr != nil:
			res.Tags = append(res.Tags, "out:error")
		case n < ln:
			res.Tags = append(res.Tags, "out:short")
		default:
			res.Tags = append(res.Tags, "out:full")
		}
		if ri == 0 && (rerr != nil || n < ln) {
			res.Nontrivial = true
		}
		if rerr != nil || ri == len(lens)-1 {
			toks = append(toks, fmt.Sprintf("f2s=%d buf=%d", f2sLen, bufLen))
			break
		}
		toks = append(toks, "|")
	}
	if len(lens) == 0 {
		return "bad-op"
	}
	res.Tags = append(res.Tags, fmt.Sprintf("order:%d", order), fmt.Sprintf("bsv:%d", effBsv))
	res.Sample = map[string]any{"via": via, "order": order, "lens": w[5], "inputBytes": len(input), "out": strings.Join(toks, " ")}
	return strings.Join(toks, " ")
}

// ---------- building inputs ----------

// adEncode runs the real encoder on the blocks (one Write per block, same bitstream) and returns the
// bytes plus the bit offsets of the first chunk's regions: header end (start of the VarInt), state start,
// payload start.
func adEncode(order int, chunk, lr uint, blks [][]byte) (out []byte, hdrEnd, stStart, plStart uint64, ok bool) {
	defer func() {
		if r := recover(); r != nil {
			ok = false
		}
	}()
	obs, sink := esNewOBS()
	l := &esLogOBS{inner: obs}
	e, err := entropy.NewANSRangeEncoder(l, uint(order), chunk, lr)
	if err != nil {
		return nil, 0, 0, 0, false
	}
	for _, b := range blks {
		if _, err := e.Write(append([]byte{}, b...)); err != nil {
			return nil, 0, 0, 0, false
		}
	}
	e.Dispose()
	obs.Close()
	pos := uint64(0)
	for k, c := range l.calls {
		if c.kind == 'B' && c.count == 32 {
			payload := uint64(0)
			if k+4 < len(l.calls) && l.calls[k+4].kind == 'A' {
				payload = uint64(l.calls[k+4].count) / 8
			}
			vi := uint64(8)
			for p := payload; p >= 128; p >>= 7 {
				vi += 8
			}
			hdrEnd, stStart, plStart = pos-vi, pos, pos+128
			break
		}
		pos += uint64(c.count)
	}
	return append([]byte{}, sink.Bytes()...), hdrEnd, stStart, plStart, true
}

// bit writer for crafted inputs (MSB first, zero padded)
type adBits struct {
	b  []byte
	nb uint64
}

func (w *adBits) put(v uint64, n uint) {
	for i := int(n) - 1; i >= 0; i-- {
		if w.nb%8 == 0 {
			w.b = append(w.b, 0)
		}
		if (v>>uint(i))&1 != 0 {
			w.b[w.nb/8] |= 0x80 >> (w.nb % 8)
		}
		w.nb++
	}
}
func (w *adBits) bytes(b []byte) {
	for _, c := range b {
		w.put(uint64(c), 8)
	}
}
func (w *adBits) varint(v uint32) {
	for v >= 128 {
		w.put(uint64(0x80|(v&0x7F)), 8)
		v >>= 7
	}
	w.put(uint64(v), 8)
}

// alphabet section: syms sorted; mode 0 = as EncodeAlphabet would, 1 = force the partial form
func (w *adBits) alphabet(syms []int, forcePartial bool) {
	if !forcePartial && len(syms) == 0 {
		w.put(0, 1)
		w.put(1, 1)
		return
	}
	if !forcePartial && len(syms) == 256 {
		w.put(0, 2)
		return
	}
	w.put(1, 1)
	masks := [32]byte{}
	last := 0
	for _, s := range syms {
		masks[s>>3] |= 1 << uint(s&7)
		last = s >> 3
	}
	w.put(uint64(last), 5)
	w.bytes(masks[:last+1])
}

// frequency section for an alphabet of n symbols: freqs[1..n-1] (freqs[0] is inferred), group size by n.
// bump: add to every group's logMax (forged); a value that does not fit is truncated.
func (w *adBits) freqs(n int, fr []int, bump int) {
	chk := 8
	if n < 64 {
		chk = 6
	}
	for i := 1; i < n; i += chk {
		end := min(i+chk, n)
		mx := 0
		for j := i; j < end; j++ {
			mx = max(mx, fr[j]-1)
		}
		lm := 0
		for 1<<uint(lm) <= mx {
			lm++
		}
		lm += bump
		if lm > 15 {
			lm = 15
		}
		if lm < 0 {
			lm = 0
		}
		w.put(uint64(lm), 4)
		if lm > 0 {
			for j := i; j < end; j++ {
				w.put(uint64(fr[j]-1), uint(lm))
			}
		}
	}
}

func adPickSyms(r *rand.Rand, n int) []int {
	p := r.Perm(256)[:n]
	s := append([]int{}, p...)
	for i := 1; i < len(s); i++ { // insertion sort
		for j := i; j > 0 && s[j-1] > s[j]; j-- {
			s[j-1], s[j] = s[j], s[j-1]
		}
	}
	return s
}

// frequencies for n symbols summing to `total` exactly (each >= 1) when total >= n
func adSplit(r *rand.Rand, n, total int) []int {
	f := make([]int, n)
	for i := range f {
		f[i] = 1
	}
	left := total - n
	for left > 0 {
		k := r.Intn(n)
		a := 1 + r.Intn(left)
		if r.Intn(3) != 0 {
			a = 1 + r.Intn(min(left, 1+total/n))
		}
		f[k] += a
		left -= a
	}
	return f
}

func adOp(via string, order, chunk, bsv int, lens []int, in []byte) string {
	f := func(v int) string {
		if v < 0 {
			return "-"
		}
		return strconv.Itoa(v)
	}
	ls := make([]string, len(lens))
	for i, l := range lens {
		ls[i] = strconv.Itoa(l)
	}
	return fmt.Sprintf("ad %s %s %s %s %s %s", via, f(order), f(chunk), f(bsv), strings.Join(ls, ","), esHex(in))
}

func adFlip(in []byte, bit uint64) []byte {
	o := append([]byte{}, in...)
	if int(bit/8) < len(o) {
		o[bit/8] ^= 0x80 >> (bit % 8)
	}
	return o
}

// one crafted context: returns nothing, writes to w.  kind selects the forgery.
func adCraftCtx(r *rand.Rand, w *adBits, lr int, n int, kind string) {
	scale := 1 << uint(lr)
	syms := adPickSyms(r, n)
	switch kind {
	case "empty-partial": // partial form with all masks zero: alphabet size 0
		w.put(1, 1)
		w.put(uint64(r.Intn(32)), 5)
		// masks all zero
		return
	}
	w.alphabet(syms, kind == "force-partial" || (n == 256 && r.Intn(2) == 0))
	if n <= 1 {
		return
	}
	total := scale
	switch kind {
	case "sum-low":
		total = n + r.Intn(max(1, scale-n))
	case "sum-high", "sum-eq":
		total = scale
	}
	if total < n {
		total = n
	}
	fr := adSplit(r, n, total)
	bump := 0
	switch kind {
	case "sum-eq": // other frequencies alone reach scale: first inferred would be 0
		fr[0] = 0
		fr[1+r.Intn(n-1)] += 0
		rest := adSplit(r, n-1, scale)
		copy(fr[1:], rest)
	case "sum-high":
		fr[1+r.Intn(n-1)] += 1 + r.Intn(scale)
	case "logmax-high":
		bump = 1 + r.Intn(8)
	case "freq-scale": // one frequency = scale exactly (needs logMax = lr, value 2^lr - 1)
		fr[1+r.Intn(n-1)] = scale
	}
	for i := range fr {
		if fr[i] > 1<<15 {
			fr[i] = 1 << 15
		}
		if fr[i] < 1 {
			fr[i] = 1
		}
	}
	w.freqs(n, fr, bump)
}

func adGen(r *rand.Rand, tier string, n int, emit func(op string, tags ...string)) {
	thorough := tier == "thorough"
	mul := 1
	if thorough {
		mul = 6
	}
	// ---- valid encodings and their mutations ----
	type base struct {
		order int
		chunk int
		lens  []int
		in    []byte
		h, s, p uint64
	}
	var bases []base
	mk := func(order int, chunk int, lr uint, lens []int, shape int) (base, bool) {
		var blks [][]byte
		for _, l := range lens {
			b := make([]byte, l)
			a1Fill(r, b, shape)
			blks = append(blks, b)
		}
		in, h, s, p, ok := adEncode(order, uint(chunk), lr, blks)
		return base{order, chunk, lens, in, h, s, p}, ok
	}
	nb := 14 * mul
	for i := 0; i < nb; i++ {
		order := i % 2
		ln := 33 + r.Intn(300)
		if i%5 == 0 {
			ln = 33 + r.Intn(12)
		}
		lens := []int{ln}
		chunk := 1024
		if order == 0 && i%7 == 3 {
			lens = []int{1024 + 1 + r.Intn(2500)} // several chunks
		}
		if i%6 == 5 {
			lens = append(lens, 33+r.Intn(100)) // two Reads
		}
		elr := uint(8 + r.Intn(9))
		if order == 1 && i%8 != 1 { // order 1: len(f2s) = 256<<lr; keep most cases small
			elr = uint(8 + r.Intn(5))
		}
		b, ok := mk(order, chunk, elr, lens, r.Intn(8))
		if !ok {
			continue
		}
		bases = append(bases, b)
	}
	for _, b := range bases {
		tag := fmt.Sprintf("-o%d", b.order)
		emit(adOp("p", b.order, b.chunk, -1, b.lens, b.in), "family:valid"+tag)
		emit(adOp("c", b.order, b.chunk, 2+r.Intn(5), b.lens, b.in), "family:valid"+tag)
		nbits := uint64(len(b.in)) * 8
		// header bits
		hb := b.h
		if hb > nbits {
			hb = nbits
		}
		step := uint64(1)
		cap := uint64(48)
		if thorough {
			cap = 128
		}
		if hb > cap {
			step = hb / cap
		}
		for k := uint64(0); k < hb; k += step {
			emit(adOp("p", b.order, b.chunk, -1, b.lens, adFlip(b.in, k)), "family:flip-hdr"+tag)
		}
		// size field
		for k := b.h; k < b.s && k < nbits; k++ {
			emit(adOp("p", b.order, b.chunk, -1, b.lens, adFlip(b.in, k)), "family:flip-size"+tag)
		}
		// states
		for k := b.s; k < b.p && k < nbits; k += uint64(1 + r.Intn(6)) {
			emit(adOp("p", b.order, b.chunk, -1, b.lens, adFlip(b.in, k)), "family:flip-state"+tag)
		}
		// payload
		for j := 0; j < 6*mul && b.p < nbits; j++ {
			emit(adOp("p", b.order, b.chunk, -1, b.lens, adFlip(b.in, b.p+uint64(r.Int63n(int64(nbits-b.p))))), "family:flip-payload"+tag)
		}
		// truncation
		if len(b.in) <= 90 || thorough && len(b.in) <= 200 {
			for c := 0; c < len(b.in); c++ {
				emit(adOp("p", b.order, b.chunk, -1, b.lens, b.in[:c]), "family:trunc"+tag)
			}
		} else {
			for j := 0; j < 16; j++ {
				emit(adOp("p", b.order, b.chunk, -1, b.lens, b.in[:r.Intn(len(b.in))]), "family:trunc"+tag)
			}
			for _, c := range []uint64{b.h / 8, b.h/8 + 1, b.s / 8, b.s/8 + 3, b.p / 8, b.p/8 + 1} {
				if int(c) < len(b.in) {
					emit(adOp("p", b.order, b.chunk, -1, b.lens, b.in[:c]), "family:trunc"+tag)
				}
			}
			emit(adOp("p", b.order, b.chunk, -1, b.lens, b.in[:len(b.in)-1]), "family:trunc"+tag)
		}
		// garbage after / instead of the tail
		g := make([]byte, 1+r.Intn(80))
		r.Read(g)
		emit(adOp("p", b.order, b.chunk, -1, append(append([]int{}, b.lens...), 33+r.Intn(60)), append(append([]byte{}, b.in...), g...)), "family:garbage"+tag)
		cut := len(b.in) / 2
		emit(adOp("p", b.order, b.chunk, -1, b.lens, append(append([]byte{}, b.in[:cut]...), g...)), "family:garbage"+tag)
		// Read length differs from what was encoded
		for _, d := range []int{-1, 1, 2, 3, 4, 5, 64, b.lens[0], -b.lens[0] / 2, 4 * b.lens[0]} {
			l0 := b.lens[0] + d
			if l0 < 0 {
				continue
			}
			emit(adOp("p", b.order, b.chunk, -1, []int{l0}, b.in), "family:count"+tag)
			emit(adOp("p", b.order, b.chunk, -1, []int{l0}, append(append([]byte{}, b.in...), make([]byte, 8*len(b.in))...)), "family:count"+tag)
		}
		// wrong parameters
		emit(adOp("p", 1-b.order, b.chunk, -1, b.lens, b.in), "family:params"+tag)
		emit(adOp("p", b.order, -1, -1, b.lens, b.in), "family:params"+tag)
		emit(adOp("f", b.order, -1, 6, b.lens, b.in), "family:params"+tag)
		emit(adOp("c", b.order, 2048, 3, b.lens, b.in), "family:params"+tag)
		emit(adOp("c", b.order, b.chunk, 1, b.lens, b.in), "family:v1"+tag)
	}
	// ---- random bytes ----
	for i := 0; i < 120*mul; i++ {
		in := make([]byte, r.Intn(160))
		r.Read(in)
		if len(in) > 0 && i%2 == 0 { // steer: keep lr, make the first alphabet partial with few masks
			in[0] = byte(r.Intn(8))<<5 | 0x10 | byte(r.Intn(2))<<3 | byte(r.Intn(8))
		}
		order := r.Intn(2)
		lens := []int{r.Intn(120)}
		if i%9 == 0 {
			lens = append(lens, 33+r.Intn(50))
		}
		emit(adOp("p", order, -1, -1, lens, in), fmt.Sprintf("family:random-o%d", order))
	}
	// ---- crafted headers + chunks ----
	kinds := []string{"valid", "sum-low", "sum-high", "sum-eq", "logmax-high", "freq-scale", "force-partial", "empty-partial"}
	szKinds := []string{"fit", "zero", "2len", "2len+1", "min-1", "min", "min+1", "big", "2^27-1", "2^27", "5byte"}
	for i := 0; i < 260*mul; i++ {
		order := 0
		if i%3 == 2 {
			order = 1
		}
		lr := 8 + r.Intn(8)
		if order == 1 && i%9 != 2 {
			lr = 8 + r.Intn(4)
		}
		kind := kinds[r.Intn(len(kinds))]
		if i%4 == 0 {
			kind = "valid"
		}
		ln := 33 + r.Intn(200)
		if i%11 == 0 {
			ln = 33 + r.Intn(8)
		}
		w := &adBits{}
		w.put(uint64(lr-8), 3)
		ns := []int{0, 1, 2, 2, 3, 5, 6, 7, 13, 63, 64, 65, 100, 255, 256}
		if order == 0 {
			adCraftCtx(r, w, lr, ns[r.Intn(len(ns))], kind)
		} else {
			// 256 contexts: most empty, a few populated (forged ones rarely, so that the chunk is reached)
			for k := 0; k < 256; k++ {
				if k == 0 || r.Intn(24) == 0 {
					ck := "valid"
					if r.Intn(12) == 0 {
						ck = kind
					}
					nn := ns[1+r.Intn(7)]
					if lr >= 13 && r.Intn(3) == 0 {
						nn = ns[r.Intn(len(ns))]
					}
					adCraftCtx(r, w, lr, nn, ck)
				} else {
					w.put(1, 2) // FULL_ALPHABET(0), ALPHABET_0(1)
				}
			}
		}
		szk := szKinds[r.Intn(len(szKinds))]
		minBuf := max(2*ln, 256)
		var sz uint32
		switch szk {
		case "fit":
			sz = uint32(r.Intn(2*ln + 1))
		case "zero":
			sz = 0
		case "2len":
			sz = uint32(2 * ln)
		case "2len+1":
			sz = uint32(2*ln + 1)
		case "min-1":
			sz = uint32(minBuf - 1)
		case "min":
			sz = uint32(minBuf)
		case "min+1":
			sz = uint32(minBuf + 1)
		case "big":
			sz = uint32(minBuf + 2 + r.Intn(100000))
		case "2^27-1":
			sz = 1<<27 - 1
		case "2^27":
			sz = 1 << 27
		case "5byte":
			sz = uint32(r.Int63n(1 << 32))
		}
		if i%13 == 5 && sz&(1<<27-1) > 2000000 && !(thorough && i == 5) {
			// version 1 allocates sz + sz>>3 bytes: keep the model's array small (one full-size case in thorough)
			sz = 1000000 + sz%1000
		}
		w.varint(sz)
		for k := 0; k < 4; k++ {
			switch r.Intn(6) {
			case 0:
				w.put(0, 32)
			case 1:
				w.put(0xFFFFFFFF, 32)
			case 2:
				w.put(uint64(r.Intn(1<<15)), 32)
			default:
				w.put(uint64(1<<15+r.Intn(1<<16)), 32)
			}
		}
		pl := make([]byte, min(int(sz), 3*ln+300))
		switch r.Intn(3) {
		case 0:
			r.Read(pl)
		case 1:
			for j := range pl {
				pl[j] = 0xFF
			}
		}
		if r.Intn(4) == 0 && len(pl) > 0 {
			pl = pl[:r.Intn(len(pl))]
		}
		w.bytes(pl)
		via, bsv := "p", -1
		if i%13 == 5 {
			via, bsv = "c", 1
		}
		emit(adOp(via, order, -1, bsv, []int{ln}, w.b), fmt.Sprintf("family:craft-%s-o%d", kind, order), "size:"+szk)
	}
	// ---- stale tables: first Read builds tables at one log range, the second uses another one with
	// mostly empty contexts and a forged payload that walks into them ----
	for i := 0; i < 30*mul; i++ {
		order := 1
		if i%5 == 4 {
			order = 0
		}
		lrA, lrB := uint(9+r.Intn(5)), uint(8+r.Intn(4))
		if i%6 == 1 {
			lrA = uint(14 + r.Intn(3))
		}
		if i%2 == 0 {
			lrA, lrB = lrB, lrA
		}
		l1, l2 := 40+r.Intn(300), 40+r.Intn(200)
		a := make([]byte, l1)
		a1Fill(r, a, []int{0, 1, 4, 6}[r.Intn(4)])
		b := make([]byte, l2)
		a1Fill(r, b, []int{2, 3, 5, 7}[r.Intn(4)])
		inA, _, _, _, okA := adEncode(order, 1024, lrA, [][]byte{a})
		inB, _, _, pB, okB := adEncode(order, 1024, lrB, [][]byte{b})
		if !okA || !okB {
			continue
		}
		// B starts at a byte boundary only if A's image is used whole (zero padded): the decoder of A
		// stops inside the last byte, so B is misaligned and misread: still a forged input.  Use the
		// real concatenation through one bitstream for the aligned variant.
		obs, sink := esNewOBS()
		e1, _ := entropy.NewANSRangeEncoder(obs, uint(order), 1024, lrA)
		e1.Write(append([]byte{}, a...))
		e2, _ := entropy.NewANSRangeEncoder(obs, uint(order), 1024, lrB)
		e2.Write(append([]byte{}, b...))
		off := obs.Written()
		_ = off
		obs.Close()
		whole := append([]byte{}, sink.Bytes()...)
		emit(adOp("p", order, 1024, -1, []int{l1, l2}, whole), fmt.Sprintf("family:stale-valid-o%d", order))
		nbits := uint64(len(whole)) * 8
		from := uint64(len(inA))*8 + pB - 200
		if from >= nbits {
			from = nbits / 2
		}
		for j := 0; j < 6; j++ {
			k := from + uint64(r.Int63n(int64(nbits-from)))
			emit(adOp("p", order, 1024, -1, []int{l1, l2}, adFlip(whole, k)), fmt.Sprintf("family:stale-flip-o%d", order))
		}
		emit(adOp("p", order, 1024, -1, []int{l1, l2 + 37}, append(append([]byte{}, whole...), make([]byte, 400)...)), fmt.Sprintf("family:stale-count-o%d", order))
		_ = inB
	}
	// ---- version 1 (decodeChunkV1): crafted, small sizes and a forged large one ----
	for i := 0; i < 40*mul; i++ {
		order := i % 2
		lr := 8 + r.Intn(8)
		if order == 1 && i%10 != 3 {
			lr = 8 + r.Intn(4)
		}
		ln := 33 + r.Intn(120)
		w := &adBits{}
		w.put(uint64(lr-8), 3)
		if order == 0 {
			adCraftCtx(r, w, lr, []int{2, 3, 7, 64, 256}[r.Intn(5)], "valid")
		} else {
			for k := 0; k < 256; k++ {
				if k == 0 || r.Intn(16) == 0 {
					adCraftCtx(r, w, lr, 2+r.Intn(6), "valid")
				} else {
					w.put(1, 2)
				}
			}
		}
		sz := uint32(r.Intn(3 * ln))
		switch i % 8 {
		case 3:
			sz = 0
		case 5:
			sz = uint32(1000000 + r.Intn(1000)) // forged: far beyond the block
		case 7:
			sz = 1<<27 + uint32(r.Intn(300)) // masked to 27 bits
		}
		w.varint(sz)
		w.put(uint64(r.Int63n(1<<32)), 32)
		if order == 0 {
			w.put(uint64(1<<15+r.Intn(1<<16)), 32)
		}
		pl := make([]byte, min(int(sz&(1<<27-1)), 600))
		if r.Intn(3) != 0 {
			r.Read(pl)
		}
		w.bytes(pl)
		emit(adOp("c", order, -1, 1, []int{ln}, w.b), fmt.Sprintf("family:v1-craft-o%d", order))
	}
	// ---- order 1 across the smallest chunk (262144): one valid, one forged second header ----
	if thorough {
		ln := 262144 + 40
		b := make([]byte, ln)
		a1Fill(r, b, 4)
		in, _, _, _, ok := adEncode(1, 1024, 12, [][]byte{b})
		if ok {
			emit(adOp("p", 1, 1024, -1, []int{ln}, in), "family:big-valid-o1")
			emit(adOp("p", 1, 1024, -1, []int{ln}, adFlip(in, uint64(len(in))*8-300)), "family:big-flip-o1")
		}
	}
	// ---- constructor errors ----
	for _, a := range [][3]int{{2, -1, -1}, {0, 1023, -1}, {0, 1<<27 + 1, -1}, {1, 1 << 27, -1}, {0, 1 << 27, -1}} {
		emit(adOp("p", a[0], a[1], a[2], []int{40}, []byte{1, 2, 3}), "family:ctor")
	}
	emit(adOp("p", -1, -1, -1, []int{0}, nil), "family:ctor")
	emit(adOp("p", -1, -1, -1, []int{5, 32, 33}, make([]byte, 60)), "family:raw")
	emit(adOp("p", 0, -1, -1, []int{32}, make([]byte, 31)), "family:raw")
	_ = n
}
