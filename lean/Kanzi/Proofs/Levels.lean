/-
Helpers for `Kanzi/Properties/C19_levels.lean` (level table of the command-line tool): definitions
used in the statements, Boolean forms of "succeeds with" / "fails with" for kernel evaluation, and
the one big evaluation over the regenerated tables.
-/
import Kanzi.Model.Names
import Kanzi.Generated.Names
import Kanzi.Generated.Levels

namespace Kanzi.Levels
open Kanzi.Names Kanzi.Generated.Names Kanzi.Generated.Levels

/-- the '+'-separated tokens of a transform chain, as `transform.GetType` splits it -/
def chainTokensOf (chain : String) : List String := (splitPlus chain.toList).map String.ofList

/-- default block size of a level: the explicit `case` of `NewBlockCompressor`, else its `default:` -/
def levelBlockSize (level : Nat) : Nat := (blockSizeCases.lookup level).getD blockSizeDefault

/-- `e` succeeded with a value satisfying `p` (Boolean form, for kernel evaluation) -/
def okWith {α : Type} (e : Except Err α) (p : α → Bool) : Bool :=
  match e with
  | .ok a => p a
  | .error _ => false

theorem okWith_spec {α : Type} {e : Except Err α} {p : α → Bool} (h : okWith e p = true) :
    ∃ a, e = .ok a ∧ p a = true := by
  cases e with
  | ok a => exact ⟨a, rfl, h⟩
  | error x => simp [okWith] at h

/-- `e` failed with "unknown name" -/
def failsUnknown {α : Type} (e : Except Err α) : Bool :=
  match e with
  | .error .unknown => true
  | _ => false

theorem failsUnknown_spec {α : Type} {e : Except Err α} (h : failsUnknown e = true) :
    e = .error .unknown := by
  cases e with
  | ok a => simp [failsUnknown] at h
  | error x => cases x <;> simp [failsUnknown] at h ⊢

/-- everything `C19_level_names_valid` says about a row, in evaluable form -/
theorem rows_ok :
    ∀ r ∈ levels,
      r.2.2 ∈ entropyTokens.map (·.1) ∧
      (chainTokensOf r.2.1).length ≤ 8 ∧
      (∀ t ∈ chainTokensOf r.2.1, t ∈ transformTokens.map (·.1)) ∧
      okWith (getType transformTokens r.2.1) (fun ty => decide (ty < 2 ^ 48) &&
        okWith (getName (nameOfTable transformNameOf) ty) (· == r.2.1)) = true ∧
      okWith (entropyType entropyTokens r.2.2) (fun k => decide (k < 32) &&
        okWith (entropyName (nameOfTable entropyNameOf) k) (· == r.2.2)) = true := by
  decide +kernel

theorem default_rejected :
    failsUnknown (getType transformTokens levelDefault.1) = true ∧
    failsUnknown (entropyType entropyTokens levelDefault.2) = true := by
  decide +kernel

end Kanzi.Levels
