package main

import (
	"fmt"
	"math/rand"

	"github.com/flanglet/kanzi-go/v2/entropy"
)

func check(h []int, scale int) (bool, string) {
	freqs := make([]int, 256)
	copy(freqs, h)
	total := 0
	n := 0
	for _, f := range h {
		total += f
		if f > 0 {
			n++
		}
	}
	alphabet := make([]int, 256)
	as, err := entropy.NormalizeFrequencies(freqs, alphabet, total, scale)
	if err != nil {
		return false, err.Error()
	}
	if n > scale {
		return true, ""
	}
	sum := 0
	for i, f := range freqs {
		if total != scale || true {
			sum += f
		}
		if (h[i] > 0) != (f > 0) {
			return false, fmt.Sprintf("presence sym %d h=%d f=%d", i, h[i], f)
		}
		if f < 0 {
			return false, "neg"
		}
	}
	if as != n {
		return false, fmt.Sprintf("alphabetSize %d != %d", as, n)
	}
	for i := 1; i < as; i++ {
		if alphabet[i] <= alphabet[i-1] {
			return false, "order"
		}
	}
	if sum != scale {
		return false, fmt.Sprintf("sum %d != %d (n=%d total=%d)", sum, scale, n, total)
	}
	return true, ""
}

func main() {
	// directed: 250 symbols once, 6 symbols 232 times; total ~1645, scale 4096
	h := make([]int, 256)
	for i := 0; i < 250; i++ {
		h[i] = 1
	}
	for i := 250; i < 256; i++ {
		h[i] = 232
	}
	fmt.Println(check(h, 4096))
	// two co-dominant + 198 rare at scale 256
	h = make([]int, 256)
	for i := 0; i < 198; i++ {
		h[i] = 1
	}
	h[200] = 100000
	h[201] = 100000
	fmt.Println(check(h, 256))
	r := rand.New(rand.NewSource(1))
	bad := map[int]int{}
	tot := 0
	for it := 0; it < 2000000; it++ {
		h := make([]int, 256)
		k := 1 + r.Intn(256)
		m := r.Intn(8)
		for i := 0; i < k; i++ {
			h[r.Intn(256)] = 1 + r.Intn(4)
		}
		for i := 0; i < m; i++ {
			h[r.Intn(256)] = 1 + r.Intn(1<<uint(1+r.Intn(16)))
		}
		lr := 8 + r.Intn(9)
		ok, msg := check(h, 1<<lr)
		tot++
		if !ok {
			if bad[lr] == 0 {
				fmt.Println("lr", lr, msg)
			}
			bad[lr]++
		}
	}
	fmt.Println(tot, bad)
}
