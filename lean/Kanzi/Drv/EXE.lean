/-
Line-protocol driver of the `exe` stream (see harness/cmd/kv/exe.go).  Core Lean only.

    ef <ctx> <dt> <dstlen> <data>   EXECodec.Forward, then (on success) Inverse (NewEXECodec) of the output
                                    into a destination of len(data) bytes
         -> ok <out> | inv <res> [ctx=<k|->]     res = ok <out> | err:<class> | panic
          | declined:<class> r=<read> w=<written> m=<dst[0]|-> h=<fnv1a-64 of dst[9:written], decimal> [ctx=<k|->]
          | panic                                  class = small | big | dst | type | notexe | format | few | fp
    ei <v> <dstlen> <data>          EXECodec.Inverse on arbitrary input
         -> ok <out> | err:<class> | panic         class = data | type

`<ctx>`: `0` = NewEXECodec(), `1` = NewEXECodecWithCtx; `<dt>`: `-` (no dataType entry) or the DataType number;
`ctx=` (only with `<ctx>` = 1): the dataType entry after the call.
`<v>`: `-` = NewEXECodec(), `n` = NewEXECodecWithCtx without bsVersion entry, else the bsVersion entry.
`<data>`, `<out>`: as in the `rlt` stream (Drv/RLT.lean).
-/
import Kanzi.Model.EXE
import Kanzi.Drv.RLT

namespace Kanzi.Drv
open Kanzi.EXE

def exeShowInv (r : Res) : String :=
  match r with
  | .ok o => "ok " ++ rltOut o
  | .err e => "err:" ++ e
  | .fault _ => "panic"

def exe (line : String) : String :=
  match (line.splitOn " ").filter (· ≠ "") with
  | ["ef", c, dts, d, h] =>
    let dt? : Option (Option Nat) := if dts = "-" then some none else dts.toNat?.map some
    match dt?, d.toNat?, rltData h with
    | some dt, some d, some b =>
      if c = "0" ∧ dts ≠ "-" then "bad-op" else
      let ctxs := if c = "0" then "" else
        match exeCtxWrite dt b d with
        | some k => s!" ctx={k}"
        | none => " ctx=-"
      match exeForward dt b d with
      | .ok t => s!"ok {rltOut t} | inv {exeShowInv (exeInverse false t b.length)}{ctxs}"
      | .err e => "declined:" ++ e ++ ctxs
      | .fault _ => "panic"
    | _, _, _ => "bad-op"
  | ["ei", v, d, h] =>
    let v2? : Option Bool := if v = "-" then some false else if v = "n" then some true else v.toNat?.map (· < 3)
    match v2?, d.toNat?, rltData h with
    | some v2, some d, some b => exeShowInv (exeInverse v2 b d)
    | _, _, _ => "bad-op"
  | _ => "bad-op"

end Kanzi.Drv
