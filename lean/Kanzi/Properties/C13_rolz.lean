/-
C13 for the reduced-offset Lempel-Ziv codecs of v2/transform/ROLZCodec.go: ROLZX (`rolzCodec2`, own adaptive
binary range coder) and ROLZ (`rolzCodec1`, ANS coded side buffers).  Property theorems only; proofs in
`Kanzi/Proofs/RolzCoder.lean` (range coder), `RolzTab.lean` (tables, keys, match verification, `emitCopy`),
`RolzxStep.lean` (one step), `RolzxEnc.lean` (encoder invariants), `RolzxRound.lean` (loops, whole block).
The models (`Kanzi/Model/ROLZX.lean`, `Kanzi/Model/ROLZ1.lean`) mirror the Go code as repaired by 0db08cf
(ROLZX chunk bounds) and cd26df1 (ROLZ token buffers) and are tied to /repo by the `rolz` correspondence
stream (byte-exact outputs of Forward and Inverse, forged inputs included).

Conventions.  `rolzxForward cs lpc hasCtx dt src dstLen` is `ROLZCodec.Forward(src, dst)` with `len(dst) =
dstLen` for a codec built for "ROLZX": `cs` = `_ROLZ_CHUNK_SIZE` (2^24 in Go; the theorems hold for every chunk
size `0 < cs ≤ 2^24`, so the chunk boundary cases are covered at every scale), `lpc` = `logPosChecks` (5 in
Go; any value), `hasCtx` / `dt` = the ctx map and its `dataType` entry (any value: DNA and EXE select other
keys / minimum match lengths; without an entry the type is detected from the block).  `rolzxInverse cs lpc
bsv t dst0` is `Inverse(t, dst)` into a destination whose contents before the call are `dst0`, `bsv` the ctx
entry `bsVersion`.  `.ok` = nil error, `.err` = declined / failed, `.fault` = run-time panic.
"Input left untouched on decline" is not a theorem here (values are immutable); it is an oracle of the stream.

The encoder is heuristic (hash-tagged candidates, first longest match, no claim of optimality); what is proved
is that whatever it emits is decoded back:
  * `C13_rolzx_coder`   the binary range coder round-trips any sequence of symbols;
  * `C13_rolz_sync`     one encoder step and the corresponding decoder step keep positions, match tables
                        (as rings of positions per key), probability tables and coder registers in lock step;
  * `C13_rolzx`         their composition over first literals, main loop, chunks, last literals: the round trip;
  * `C13_rolzx_bound`   size bound;  `C13_rolzx_total`  no fault;
  * `C13_rolz`, `C13_rolz_bound`, `C13_rolz_forward_total`, `C13_rolz_total`  the same for ROLZ (all chunk counts).
-/
import Kanzi.Model.ROLZX
import Kanzi.Model.ROLZ1
import Kanzi.Proofs.RolzxRound
import Kanzi.Proofs.RolzxTotal
import Kanzi.Proofs.RolzxTotal2
import Kanzi.Proofs.Rolz1Total
import Kanzi.Proofs.Rolz1Block

namespace Kanzi.C13
open Kanzi.ROLZ

/-! ## ROLZX: the binary range coder -/

/-- **C13_rolzx_coder.**  The range coder of ROLZX (`rolzEncoder` / `rolzDecoder`: 64-bit carry-less interval
with identical left-over top bytes, 32-bit flushes, 16-bit adaptive probabilities in two context-indexed
tables) round-trips ANY sequence of symbols.  `ys` is a list of symbols (table, context byte, number of bits,
value); the encoder starts after a header `out0` (any bytes), codes them (`setContext` + `encodeBits` each) and
`dispose`s into `out`.  Then a decoder created right after the header (`newRolzDecoder` reads 8 bytes), driven
with the same symbol shapes and the same initial probability tables (every entry below 2^16), returns exactly
the values (their low `n` bits) and has consumed exactly the whole output.  No hypothesis on the probabilities
beyond their 16-bit range: both extremes are safe. -/
theorem C13_rolzx_coder {dstLen lpc : Nat} (out0 : Array Nat) (hout0 : ∀ k, out0.getD k 0 < 256)
    (ys : List Sym) (pl pm : Array Nat) (hpl : ProbOk pl) (hpm : ProbOk pm)
    {r : Enc × Array Nat × Array Nat} (h : encSyms dstLen lpc ys ⟨0, TOP, out0⟩ pl pm = .ok r)
    {out : Array Nat} (hd : r.1.dispose dstLen = .ok out) :
    ∃ d0 d', Dec.init out.toList.toArray out0.size = .ok d0 ∧
      decSyms out.toList.toArray lpc ys d0 pl pm = .ok (ys.map (fun y => y.val % 2 ^ y.n), d') ∧
      d'.idx = out.size :=
  coder_roundtrip out0 hout0 ys pl pm hpl hpm h hd

/-- the bit level: `S` is the complete output of the encoder.  If the encoder state AFTER coding `bit` with
probability `p` is consistent with `S` (`Good`: it has written a prefix of `S` and the 56-bit code value that
follows lies in its interval) then a decoder aligned with the state BEFORE (`DRel`) decodes `bit` and is aligned
with the state after.  (`Good` itself flows backwards from the final state: `encodeBit_back`, `dispose_good`.) -/
theorem C13_rolzx_coder_bit {dstLen : Nat} {S : List Nat} (hS : Bytes S) {e e' : Enc} {d : Dec} (hi : EInv e) {p : Nat}
    (hp : p < 65536) {bit : Bool} (h : e.encodeBit dstLen p bit = .ok e') (hg : Good S e') (hr : DRel S e d) :
    ∃ d', d.decodeBit S.toArray p = .ok (bit, d') ∧ DRel S e' d' :=
  decodeBit_sim hS hi hp h hg hr

/-! ## lock step of encoder and decoder -/

/-- **C13_rolz_sync.**  One iteration of the main loop of ROLZX Forward at position `i` of the chunk
`[base, lim)` (literal, or match length + match index) is mirrored by one iteration of the main loop of Inverse:
if encoder state `sF` and decoder state `sI` are related (`Rel`: aligned range coders, equal probability tables,
the decoder has restored the block below `i`) and their match tables are in lock step (`TRel`: for every key
the RING of remembered positions, most recent first, is the same on both sides - the encoder's entries carry a
hash tag, and the per-key counters may differ, so the tables are not literally equal - and every remembered
position lies before `i`), and the encoder step succeeds, reaching position `i'` and a coder state consistent
with the final output `S`, then the decoder step succeeds, reaches the same `i'`, and both relations hold
again.  Holds for every data-type variant (`ParamsOk`: key of 2 bytes at distance 2 or 3, or hashed key of 8
bytes) and every `logPosChecks`. -/
theorem C13_rolz_sync {S : List Nat} {a : Array Nat} {dstLen dstEnd base lim mm delta lpc i i' : Nat} (hS : Bytes S)
    (ha : ∀ k, a.getD k 0 < 256) (hpar : ParamsOk mm delta) (hmm : 3 ≤ mm ∧ mm ≤ 7)
    (hbi : base + 8 ≤ i) (hlimE : lim ≤ dstEnd) (hchunk : lim - base ≤ 2 ^ 24)
    {sF sF' : FSt} {sI : ISt} (hrel : Rel S a lpc i sF sI) (hsz : lim ≤ sI.dst.size)
    (htr : TRel lpc base lim mm i sF.tab sI.tab)
    (hF : fwdStep a dstLen base lim mm delta lpc i sF = .ok (i', sF')) (hg : Good S sF'.enc) :
    ∃ sI', invStep S.toArray dstEnd base lim mm delta lpc i sI = .ok (i', sI') ∧ Rel S a lpc i' sF' sI' ∧
      sI'.dst.size = sI.dst.size ∧ TRel lpc base lim mm i' sF'.tab sI'.tab ∧ i < i' ∧ i' ≤ lim ∧ Good S sF.enc :=
  step_sim hS ha hpar hmm hbi hlimE hchunk hrel hsz htr hF hg

/-- the shape of the lock-step invariant on the tables: registering a position shifts the ring of its key by
one on both sides and leaves the other keys alone -/
theorem C13_rolz_sync_register {tE tD : Tab} {lpc : Nat} (hE : TabOk tE lpc) (hD : TabOk tD lpc)
    (h : RingEq tE tD lpc) {key : Nat} (hk : key < HASH_SIZE) (vE vD : Nat) (hv : vE % 2 ^ 24 = vD) :
    RingEq (tE.register lpc key vE) (tD.register lpc key vD) lpc :=
  register_ringEq hE hD h hk vE vD hv

/-! ## ROLZX: the whole block -/

/-- **C13_rolzx.**  For every block of byte values, every chunk size `0 < cs ≤ 2^24` (Go: 2^24; multi-chunk
blocks, last chunks shorter than 8 bytes and block lengths `k*cs + 1..11` included - the shapes that were
wrong before 0db08cf), every `logPosChecks`, every ctx / data type hint, and every destination of at least
`MaxEncodedLen` bytes: if Forward succeeds, then Inverse of its output (bitstream version 4 or later) into ANY
destination of at least the original block length (whatever it contained before) succeeds, reports the
original length as bytes written and restores the block exactly. -/
theorem C13_rolzx {cs lpc : Nat} {hasCtx : Bool} {dt : Nat} {src t : List Nat} {dstLen : Nat} (bsv : Nat)
    (dst0 : Array Nat) (hcs : 0 < cs ∧ cs ≤ 2 ^ 24) (hb : ∀ x ∈ src, x < 256) (hbsv : 4 ≤ bsv)
    (hdst : maxEncodedLen2 src.length ≤ dstLen) (hd : src.length ≤ dst0.size)
    (h : rolzxForward cs lpc hasCtx dt src dstLen = .ok t) :
    ∃ dst, rolzxInverse cs lpc bsv t dst0 = .ok (src.length, dst) ∧ dst.size = dst0.size ∧
      ∀ k, k < src.length → dst.getD k 0 = src.getD k 0 :=
  rolzx_roundtrip bsv dst0 hcs hb hbsv hdst hd h

/-- the same with the constants of the Go code -/
theorem C13_rolzx_real {hasCtx : Bool} {dt : Nat} {src t : List Nat} {dstLen : Nat} (dst0 : Array Nat)
    (hb : ∀ x ∈ src, x < 256) (hdst : maxEncodedLen2 src.length ≤ dstLen) (hd : src.length ≤ dst0.size)
    (h : rolzxForward CHUNK_SIZE LOG_POS_CHECKS2 hasCtx dt src dstLen = .ok t) :
    ∃ dst, rolzxInverse CHUNK_SIZE LOG_POS_CHECKS2 6 t dst0 = .ok (src.length, dst) ∧ dst.size = dst0.size ∧
      ∀ k, k < src.length → dst.getD k 0 = src.getD k 0 :=
  rolzx_roundtrip 6 dst0 (by decide) hb (by decide) hdst hd h

/-- **C13_rolzx_bound.**  A successful Forward output is strictly shorter than the block (otherwise Forward
declines with "no compression"), hence fits `MaxEncodedLen`. -/
theorem C13_rolzx_bound {cs lpc : Nat} {hasCtx : Bool} {dt : Nat} {src t : List Nat} {dstLen : Nat}
    (h : rolzxForward cs lpc hasCtx dt src dstLen = .ok t) :
    t.length ≤ src.length ∧ t.length ≤ maxEncodedLen2 src.length := by
  have h1 : t.length ≤ src.length := by
    rcases rolzxForward_len h with h | h
    · rw [h]; exact Nat.zero_le _
    · omega
  refine ⟨h1, ?_⟩
  unfold maxEncodedLen2
  split <;> omega

/-- **C13_rolzx_total.**  Neither direction of ROLZX faults on a block the compressor can hand it, whatever the
number of chunks.  Forward: for EVERY block of byte values, every chunk size `9 ≤ cs ≤ 2^24` (Go: 2^24), every
`logPosChecks ≤ 8` (Go: 5), every ctx / data type hint and every destination of at least `MaxEncodedLen` bytes the
model never reads the block out of range, never runs out of loop fuel, and the range coder never writes past
`dst`.  The room argument has two parts:
  * the test `dstIdx > len(dst) - _ROLZ_DST_MARGIN` (repair 3817ae7) at the head of the main loop leaves 256 bytes
    for one iteration (at most 36 + 4·logPosChecks bytes, one 32-bit flush per coded bit at worst), the 4 last
    literals (144) and `dispose` (8);
  * the 8 first literals of a chunk - and the 4 last literals when they follow them directly, the last chunk
    having at most 8 bytes - are coded WITHOUT any test, right after `reset()`; the crude bound (288 / 432 bytes)
    exceeds what the previous chunk is known to leave (152), so a quantitative one is proved
    (`Kanzi/Proofs/RolzxTotal2.lean`): during the first 12 symbols after `reset()` every probability read is
    within `[22391, 43143]` (a cell is updated at most once per symbol), such a bit keeps more than a third of the
    interval, a flush leaves at least `2^32 - 1` and needs less than `2^24`, hence at least 6 coded bits between
    two flushes: 72 bits emit at most 51 bytes, 108 bits at most 75.
Inverse: on what Forward produced it returns the block (`C13_rolzx`), so it does not fault either. -/
theorem C13_rolzx_total {cs lpc : Nat} {hasCtx : Bool} {dt : Nat} {src : List Nat} {dstLen : Nat}
    (hb : ∀ x ∈ src, x < 256) (hcs : 9 ≤ cs ∧ cs ≤ 2 ^ 24) (hlpc : lpc ≤ 8) (hdst : maxEncodedLen2 src.length ≤ dstLen) :
    (∀ k, rolzxForward cs lpc hasCtx dt src dstLen ≠ .fault k) ∧
    (∀ t bsv dst0, rolzxForward cs lpc hasCtx dt src dstLen = .ok t → 4 ≤ bsv → src.length ≤ dst0.size →
      ∀ k, rolzxInverse cs lpc bsv t dst0 ≠ .fault k) := by
  refine ⟨rolzxForward_nf_multi hb hcs.1 hlpc hdst, fun t bsv dst0 h hbsv hd k => ?_⟩
  obtain ⟨dst, hdst', _⟩ := rolzx_roundtrip bsv dst0 ⟨by omega, hcs.2⟩ hb hbsv hdst hd h
  rw [hdst']
  simp

/-- the one-chunk case (`len ≤ cs + 4`) needs neither the hypothesis on the byte values nor the quantitative
bound: the crude "one flush per bit" suffices there (`MaxEncodedLen ≥ 1088`) -/
theorem C13_rolzx_forward_total_one_chunk {cs lpc : Nat} {hasCtx : Bool} {dt : Nat} {src : List Nat} {dstLen : Nat}
    (hone : src.length ≤ cs + 4) (hlpc : lpc ≤ 8) (hdst : maxEncodedLen2 src.length ≤ dstLen) :
    ∀ k, rolzxForward cs lpc hasCtx dt src dstLen ≠ .fault k :=
  rolzxForward_nf hone hlpc hdst

/-- the quantitative core: a symbol of `n ≤ 9` bits coded in the literal table at most 11 symbols after `reset()`
(`InB`), with `s` bits coded since the last flush (`Pot`), emits at most 4 bytes per 6 bits -/
theorem C13_rolzx_fresh_symbol {dstLen c val k : Nat} (hc : c < 256) (hk : k < 12) (e : Enc) (t : Array Nat) (s : Nat)
    (hsz : t.size = 131072) (hi : EInv e) (hp : Pot e s) (hin : InB k t)
    (hroom : 3 * e.out.size + 2 * s + 2 * 9 + 12 ≤ 3 * dstLen) :
    ∃ e' t' s', encBits dstLen (c <<< 9) val 9 1 e t = .ok (e', t') ∧ Pot e' s' ∧ InB (k + 1) t' ∧
      3 * e'.out.size + 2 * s' ≤ 3 * e.out.size + 2 * s + 2 * 9 := by
  obtain ⟨e', t', s', h1, _, h3, h4, _, h6, _⟩ := encBits_fresh (dstLen := dstLen) (val := val) hc hk 9 1 e t s
    (Nat.le_refl _) (Nat.le_refl _) (by decide) hsz hi hp (inB_succ hin) (fun i _ hi' => hin i hi') hroom
  exact ⟨e', t', s', h1, h3, h4, h6⟩

/-! ## ROLZ (rolzCodec1) -/

/-- **C13_rolz_forward_total.**  ROLZ Forward NEVER faults: for every block (any values, any length, any number
of chunks), every chunk size `cs ≥ 8` (Go: 2^24), every `logPosChecks`, every ctx / data type hint and every
destination size, `rolzForward` returns `.ok` or `.err` (declines), never `.fault`: every read of the block is in
range (keys, hash of 4 bytes at the current position, the 8-byte comparisons of `findMatch`, the lazy check at
the next position), the loops terminate within their fuel, and the four side buffers never overflow:
`litBuf` holds at most one byte per covered position; `lenBuf` (`sizeChunk/5`) gets a byte only for a match of
at least 10 bytes or a literal run of at least 31 bytes, i.e. at most one byte per 10 covered positions;
`tkBuf` / `mIdxBuf` (`sizeChunk/4`) are protected by the decline "too many matches" (repair cd26df1: a block made
of back-to-back 3-byte matches produced one token per 3 bytes and indexed past them), which always leaves room
for the token that follows the last match. -/
theorem C13_rolz_forward_total {cs lpc : Nat} {hasCtx : Bool} {dt : Nat} {src : List Nat} {dstLen : Nat} (hcs : 8 ≤ cs) :
    ∀ k, rolzForward cs lpc hasCtx dt src dstLen ≠ .fault k :=
  rolzForward_nf hcs

/-- the density argument for `lenBuf`: `emitLengthROLZ(v)` stores 1..4 bytes, and never more than `(v + 10) / 10` -/
theorem C13_rolz_length_bytes (v : Nat) :
    1 ≤ (emitLengthBytes v).length ∧ (emitLengthBytes v).length ≤ 4 ∧ 10 * (emitLengthBytes v).length ≤ v + 10 :=
  emitLengthBytes_len v

/-- **C13_rolz.**  ROLZ (`rolzCodec1`).  For every block of byte values, every chunk size `64 ≤ cs ≤ 2^24` (Go:
2^24; multi-chunk blocks included), every `logPosChecks` in `[2, 8]` (the values the constructors accept; the
inverse codec is built with the same one, as the compressor does: 4), every ctx / data type hint (DNA, EXE,
MULTIMEDIA and detection), and every destination of at least `MaxEncodedLen` bytes: if Forward succeeds, then
Inverse of its output (no `bsVersion` entry, or one of at least 4) into ANY destination of at least the original
block length succeeds, reports the original length and restores the block exactly.

The proof composes: the sequence layer (`Kanzi/Proofs/Rolz1Round.lean`: each literal run + match is read back
from token / length / literal / match-index buffers; the positions the encoder visited one by one - with its skip
acceleration and its lazy "next position" check - are re-registered by the decoder's `regRun` in one go, so the
rings of remembered positions stay equal), the bitstream of a chunk (`chunk_transport`: four 32-bit lengths, the
literals through ANS order 0 or 1, tokens / lengths / indexes through ANS order 0, `Close` padding), and the
ANS block round trips of C12 (`C12_ans0_block`, `C12_ans1_block`; repeated in `Rolz1Ans.lean` with the payload
buffer test of `decodeChunkV2`, which an encoder's output always passes). -/
theorem C13_rolz {cs lpc : Nat} {hasCtx : Bool} {dt : Nat} {src t : List Nat} {dstLen : Nat} (hasBsv : Bool)
    (bsv : Nat) (dst0 : Array Nat) (hcs : 64 ≤ cs ∧ cs ≤ 2 ^ 24) (hlpc : 2 ≤ lpc ∧ lpc ≤ 8) (hb : ∀ x ∈ src, x < 256)
    (hbsv : hasBsv = true → 4 ≤ bsv) (hdst : maxEncodedLen1 src.length ≤ dstLen) (hd : src.length ≤ dst0.size)
    (h : rolzForward cs lpc hasCtx dt src dstLen = .ok t) :
    ∃ dst, rolzInverse cs lpc hasBsv bsv t dst0 = .ok (src.length, dst) ∧ dst.size = dst0.size ∧
      ∀ k, k < src.length → dst.getD k 0 = src.getD k 0 :=
  rolz_roundtrip hasBsv bsv dst0 hcs hlpc hb hbsv hdst hd h

/-- the same with the constants of the Go code (codec built by name) -/
theorem C13_rolz_real {hasCtx : Bool} {dt : Nat} {src t : List Nat} {dstLen : Nat} (dst0 : Array Nat)
    (hb : ∀ x ∈ src, x < 256) (hdst : maxEncodedLen1 src.length ≤ dstLen) (hd : src.length ≤ dst0.size)
    (h : rolzForward CHUNK_SIZE LOG_POS_CHECKS1 hasCtx dt src dstLen = .ok t) :
    ∃ dst, rolzInverse CHUNK_SIZE LOG_POS_CHECKS1 false 6 t dst0 = .ok (src.length, dst) ∧ dst.size = dst0.size ∧
      ∀ k, k < src.length → dst.getD k 0 = src.getD k 0 :=
  rolz_roundtrip false 6 dst0 (by decide) (by decide) hb (by intro h; cases h) hdst hd h

/-- **C13_rolz_bound.**  A successful Forward output is strictly shorter than the block, hence fits
`MaxEncodedLen` (which for ROLZ is the block length itself above 512 bytes). -/
theorem C13_rolz_bound {cs lpc : Nat} {hasCtx : Bool} {dt : Nat} {src t : List Nat} {dstLen : Nat}
    (h : rolzForward cs lpc hasCtx dt src dstLen = .ok t) :
    t.length ≤ src.length ∧ t.length ≤ maxEncodedLen1 src.length := by
  have h1 : t.length ≤ src.length := by
    rcases rolzForward_len h with h | h
    · rw [h]; exact Nat.zero_le _
    · omega
  refine ⟨h1, ?_⟩
  unfold maxEncodedLen1
  split <;> omega

/-- **C13_rolz_total.**  Neither direction of ROLZ faults on a block the compressor can hand it: Forward never
faults at all (`C13_rolz_forward_total`), and Inverse, on what Forward produced, returns the block. -/
theorem C13_rolz_total {cs lpc : Nat} {hasCtx : Bool} {dt : Nat} {src : List Nat} {dstLen : Nat}
    (hcs : 64 ≤ cs ∧ cs ≤ 2 ^ 24) (hlpc : 2 ≤ lpc ∧ lpc ≤ 8) (hdst : maxEncodedLen1 src.length ≤ dstLen) :
    (∀ k, rolzForward cs lpc hasCtx dt src dstLen ≠ .fault k) ∧
    (∀ t dst0, rolzForward cs lpc hasCtx dt src dstLen = .ok t → (∀ x ∈ src, x < 256) → src.length ≤ dst0.size →
      ∀ k, rolzInverse cs lpc false 6 t dst0 ≠ .fault k) := by
  refine ⟨rolzForward_nf (by omega), fun t dst0 h hb hd k => ?_⟩
  obtain ⟨dst, hdst', _⟩ := rolz_roundtrip false 6 dst0 hcs hlpc hb (by intro h; cases h) hdst hd h
  rw [hdst']
  simp

/-- the hypotheses are satisfiable: declined blocks, the empty block -/
example : rolzxForward CHUNK_SIZE 5 true 0 [] 100 = .ok [] := by decide
example : rolzxForward CHUNK_SIZE 5 true 0 (List.replicate 63 7) 2000 = .err "small" := by decide
example : rolzxForward CHUNK_SIZE 5 true 0 (List.replicate 64 7) 1087 = .err "dst" := by decide
example : maxEncodedLen2 16384 = 17408 ∧ maxEncodedLen2 16385 = 16897 := by decide
example : (0 < CHUNK_SIZE ∧ CHUNK_SIZE ≤ 2 ^ 24) ∧ (4 : Nat) ≤ 6 ∧ 8 ≤ CHUNK_SIZE := by decide
example : rolzForward CHUNK_SIZE 4 true 0 (List.replicate 63 7) 2000 = .err "small" := by decide
example : maxEncodedLen1 512 = 576 ∧ maxEncodedLen1 513 = 513 := by decide

end Kanzi.C13
