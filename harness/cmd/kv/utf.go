package main

// utf: correspondence stream for the UTF-8 aliasing codec transform.UTFCodec (Forward / Inverse /
// MaxEncodedLen), model lean/Kanzi/Model/UTF.lean, driver lean/Kanzi/Drv/UTF.lean (op grammar there).
//
// Exec runs the REAL transform on caller-owned buffers (trCall of trsmall.go: source with cap == len,
// destination dst[:dstLen] followed by a canary) and evaluates the C13 oracle on the real code,
// independently of the Lean model: no panic in Forward, source buffer unchanged (success or decline),
// canary intact, and when Forward succeeds into a destination of at least MaxEncodedLen bytes:
// everything consumed, output length <= MaxEncodedLen, Inverse(Forward(x)) == x into a destination of
// exactly len(x) bytes and of len(x)+extra bytes, without panic.  A panic of Inverse on an input that
// was not produced by Forward (`ui` ops) is an observation (tag ui:panic), not a violation.

import (
	"bytes"
	"encoding/hex"
	"fmt"
	"math/rand"
	"reflect"
	"strconv"
	"strings"
	"unicode/utf8"

	"github.com/flanglet/kanzi-go/v2/transform"

	"kverif/internal/gen"
)

func init() {
	registerStream(&Stream{
		Name: "utf",
		Rule: "one op = one UTFCodec.Forward (+ Inverse of its output) or one UTFCodec.Inverse call on a caller-owned block, with NewUTFCodec or NewUTFCodecWithCtx (dataType / bsVersion entries); families: sizes around the 1024-byte minimum, destinations around MaxEncodedLen, ASCII only, Latin-1 accents, Greek/Cyrillic, CJK, emoji, mixtures, symbol counts around 128 (1/2-byte alias boundary) and around the 32768 limit, invalid UTF-8 (overlong, surrogates, truncated, stray continuation, C0/C1/F5+) at the start / middle / end, BOM at offsets 0 and 1, heads of 1..5 continuation bytes (start), tails cut inside a sequence (adjust), second-byte violations at the validation boundary, forbidden bytes around the 4096-byte checkpoints of validateUTF and continuation-byte counts around its count/8 threshold, every dataType hint, valid / truncated / mutated / forged inverse inputs with several destination sizes and bsVersion 3/4; distinct_nontrivial = distinct ops with a non-empty block",
		Gen:  utfGen,
		Exec: utfExec,
	})
}

// ---- data <-> text: "-" or comma separated chunks: hex | hex*count | u<hexcp>+<count>

func utfEncodeCp(c int) []byte {
	switch {
	case c < 0x80:
		return []byte{byte(c)}
	case c < 0x800:
		return []byte{byte(0xC0 + c/64), byte(0x80 + c%64)}
	case c < 0x10000:
		return []byte{byte(0xE0 + c/4096), byte(0x80 + c/64%64), byte(0x80 + c%64)}
	}
	return []byte{byte(0xF0 + c/262144%8), byte(0x80 + c/4096%64), byte(0x80 + c/64%64), byte(0x80 + c%64)}
}

func utfDec(s string) ([]byte, bool) {
	if s == "-" {
		return []byte{}, true
	}
	var out []byte
	for _, c := range strings.Split(s, ",") {
		switch {
		case strings.HasPrefix(c, "u"):
			p := strings.Split(c[1:], "+")
			if len(p) != 2 {
				return nil, false
			}
			cp, err := strconv.ParseUint(p[0], 16, 32)
			n, err2 := strconv.Atoi(p[1])
			if err != nil || err2 != nil || n < 0 || n > 1<<22 {
				return nil, false
			}
			for k := 0; k < n; k++ {
				out = append(out, utfEncodeCp(int(cp)+k)...)
			}
		case strings.IndexByte(c, '*') >= 0:
			k := strings.IndexByte(c, '*')
			h, err := hex.DecodeString(c[:k])
			n, err2 := strconv.Atoi(c[k+1:])
			if err != nil || err2 != nil || n < 0 || n*len(h) > 1<<26 {
				return nil, false
			}
			out = append(out, bytes.Repeat(h, n)...)
		default:
			h, err := hex.DecodeString(c)
			if err != nil {
				return nil, false
			}
			out = append(out, h...)
		}
	}
	return out, true
}

func utfHex(b []byte) string {
	if len(b) == 0 {
		return "-"
	}
	return hex.EncodeToString(b)
}

func utfFwdClass(err error) string {
	m := err.Error()
	switch {
	case strings.Contains(m, "Input block is too small"):
		return "small"
	case strings.Contains(m, "Output buffer is too small"):
		return "dst"
	case strings.Contains(m, "invalid or too complex"):
		return "invalid"
	case strings.Contains(m, "no improvement"):
		return "noimp"
	}
	return "other(" + m + ")"
}

func utfInvClass(err error) string {
	m := err.Error()
	switch {
	case strings.Contains(m, "Input block is too small"):
		return "small"
	case strings.Contains(m, "invalid map size"):
		return "mapsize"
	case strings.Contains(m, "invalid UTF alias"):
		return "alias"
	case strings.Contains(m, "invalid output block size"):
		return "dstsize"
	case strings.Contains(m, "invalid data"):
		return "data"
	}
	return "other(" + m + ")"
}

// "not UTF" is returned both for a foreign dataType hint (model class `type`) and for a failed
// validation (`notutf`): told apart by the hint
func utfNotUTFClass(dts string) string {
	if dts != "n" && dts != "-" && dts != "0" && dts != "8" {
		return "type"
	}
	return "notutf"
}

func utfInvLine(res *Result, o trOut, dstLen int, forged bool) string {
	site := "transform.UTFCodec.Inverse"
	if o.panicMsg != "" {
		if !forged {
			trViolate(res, site, "panic", o.panicMsg)
		}
		return "panic"
	}
	if o.inputMod {
		trViolate(res, site, "input-modified", "source buffer changed by the call")
	}
	if o.canary {
		trViolate(res, site, "dst-overrun", "bytes after dst[:len] were written")
	}
	if o.err != nil {
		return "err:" + utfInvClass(o.err)
	}
	if int(o.written) > dstLen {
		trViolate(res, site, "written>len(dst)", fmt.Sprintf("written=%d len(dst)=%d", o.written, dstLen))
		return "overrun"
	}
	return "ok " + rltOut(o.out)
}

func utfNewFwd(dts string) (*transform.UTFCodec, *map[string]any, bool) {
	if dts == "n" {
		t, _ := transform.NewUTFCodec()
		return t, nil, true
	}
	ctx := map[string]any{}
	if dts != "-" {
		k, err := strconv.Atoi(dts)
		if err != nil || k < 0 || k > 64 {
			return nil, nil, false
		}
		v := rltDataType(k)
		if v == nil {
			return nil, nil, false
		}
		ctx["dataType"] = v
	}
	t, _ := transform.NewUTFCodecWithCtx(&ctx)
	return t, &ctx, true
}

func utfNewInv(bsv string) (*transform.UTFCodec, bool) {
	if bsv == "n" {
		t, _ := transform.NewUTFCodec()
		return t, true
	}
	ctx := map[string]any{}
	if bsv != "-" {
		k, err := strconv.Atoi(bsv)
		if err != nil || k < 0 || k > 64 {
			return nil, false
		}
		ctx["bsVersion"] = uint(k)
	}
	t, _ := transform.NewUTFCodecWithCtx(&ctx)
	return t, true
}

func utfExec(op string, res *Result) string {
	w := strings.Fields(op)
	atoi := func(s string) (int, bool) {
		v, err := strconv.Atoi(s)
		return v, err == nil && v >= 0 && v <= 1<<26
	}
	switch {
	case len(w) == 4 && w[0] == "uf":
		dstLen, ok1 := atoi(w[2])
		data, ok2 := utfDec(w[3])
		t, ctx, ok3 := utfNewFwd(w[1])
		if !ok1 || !ok2 || !ok3 {
			return "bad-op"
		}
		site := "transform.UTFCodec.Forward"
		res.Nontrivial = len(data) > 0
		res.Sample = map[string]any{"op": "uf", "len": len(data), "dst": dstLen, "prefix": op[:min(len(op), 80)]}
		o := trCall(t.Forward, data, dstLen)
		ctxs := ""
		if ctx != nil {
			ctxs = " ctx=-"
			if v, ok := (*ctx)["dataType"]; ok {
				ctxs = fmt.Sprintf(" ctx=%d", reflect.ValueOf(v).Int())
			}
		}
		if o.panicMsg != "" {
			trViolate(res, site, "panic", o.panicMsg)
			res.Tags = append(res.Tags, "uf:panic")
			return "panic"
		}
		if o.inputMod {
			trViolate(res, site, "input-modified", "source buffer changed by the call")
		}
		if o.canary {
			trViolate(res, site, "dst-overrun", "bytes after dst[:len] were written")
		}
		if o.err != nil {
			cl := utfFwdClass(o.err)
			if strings.Contains(o.err.Error(), "not UTF") {
				cl = utfNotUTFClass(w[1])
			}
			res.Tags = append(res.Tags, "uf:declined:"+cl)
			return "declined:" + cl + ctxs
		}
		if int(o.written) > dstLen {
			trViolate(res, site, "written>len(dst)", fmt.Sprintf("written=%d len(dst)=%d", o.written, dstLen))
			return "overrun"
		}
		res.Tags = append(res.Tags, "uf:ok")
		maxLen := t.MaxEncodedLen(len(data))
		inScope := len(data) > 0 && dstLen >= maxLen
		if inScope {
			res.Tags = append(res.Tags, fmt.Sprintf("uf:start=%d", o.out[0]), fmt.Sprintf("uf:adjust=%d", o.out[1]))
			if int(o.written) > maxLen {
				trViolate(res, site, "output>MaxEncodedLen", fmt.Sprintf("written=%d max=%d", o.written, maxLen))
			}
			if int(o.read) != len(data) {
				trViolate(res, site, "short-read", fmt.Sprintf("read=%d len=%d with nil error", o.read, len(data)))
			}
		}
		// Inverse of the output into a destination of the original size (part of the canonical line)
		// and into larger ones (oracle only)
		isite := "transform.UTFCodec.Inverse"
		line := ""
		for k, extra := range []int{0, 1 + len(data)/16, 70000} {
			ti, _ := transform.NewUTFCodec()
			b := trCall(ti.Inverse, o.out, len(data)+extra)
			if k == 0 {
				var r2 Result
				line = utfInvLine(&r2, b, len(data), false)
				if r2.Violation != nil && inScope {
					res.Violation = r2.Violation
				}
			}
			if !inScope {
				break
			}
			switch {
			case b.panicMsg != "":
				trViolate(res, isite, "panic", b.panicMsg)
			case b.err != nil:
				trViolate(res, isite, "roundtrip-error", fmt.Sprintf("Inverse(Forward(x)) failed (dst=len+%d): %v", extra, b.err))
			case !bytes.Equal(b.out, data):
				trViolate(res, site, "roundtrip-mismatch", fmt.Sprintf("Inverse(Forward(x)) != x (dst=len+%d, got %d bytes, want %d, start=%d adjust=%d)", extra, len(b.out), len(data), o.out[0], o.out[1]))
			case b.inputMod || b.canary:
				trViolate(res, isite, "buffer-integrity", "inverse modified its input or wrote past dst")
			}
		}
		return "ok " + rltOut(o.out) + " | inv " + line + ctxs
	case len(w) == 4 && w[0] == "ui":
		dstLen, ok1 := atoi(w[2])
		data, ok2 := utfDec(w[3])
		t, ok3 := utfNewInv(w[1])
		if !ok1 || !ok2 || !ok3 {
			return "bad-op"
		}
		res.Nontrivial = len(data) > 0
		res.Sample = map[string]any{"op": "ui", "len": len(data), "dst": dstLen, "prefix": op[:min(len(op), 80)]}
		o := trCall(t.Inverse, data, dstLen)
		line := utfInvLine(res, o, dstLen, true)
		res.Tags = append(res.Tags, "ui:"+strings.Fields(line)[0])
		return line
	}
	return "bad-op"
}

// ------------------------------------------------------------------------------------------
// generators

func utfRealForward(data []byte) ([]byte, bool) {
	t, _ := transform.NewUTFCodec()
	if len(data) == 0 {
		return nil, false
	}
	dst := make([]byte, t.MaxEncodedLen(len(data)))
	_, n, err := t.Forward(append([]byte{}, data...), dst)
	if err != nil {
		return nil, false
	}
	return dst[:n], true
}

// text of about n bytes drawn from the code point ranges `ranges` ([lo, hi) pairs) over `nsyms`
// distinct symbols, with a share of ASCII (percent)
func utfText(r *rand.Rand, n, nsyms, asciiPct int, ranges [][2]int) []byte {
	syms := make([]int, nsyms)
	for i := range syms {
		rg := ranges[r.Intn(len(ranges))]
		c := rg[0] + r.Intn(rg[1]-rg[0])
		if c >= 0xD800 && c < 0xE000 {
			c = 0x4E00 + r.Intn(0x5000)
		}
		syms[i] = c
	}
	var b []byte
	for len(b) < n {
		if r.Intn(100) < asciiPct {
			b = append(b, " etaoinshr\n,.E"[r.Intn(14)])
		} else {
			// skewed choice: low indexes more frequent
			k := r.Intn(nsyms)
			if r.Intn(2) == 0 {
				k = r.Intn(1 + k)
			}
			b = utf8.AppendRune(b, rune(syms[k]))
		}
	}
	return b
}

var (
	utfLatin  = [][2]int{{0xA0, 0x180}}
	utfGreek  = [][2]int{{0x370, 0x400}, {0x400, 0x500}}
	utfCJK    = [][2]int{{0x4E00, 0x9FA5}, {0x3040, 0x3100}}
	utfEmoji  = [][2]int{{0x1F300, 0x1F700}, {0x10000, 0x10100}, {0x100000, 0x10FFFF}}
	utfAll    = [][2]int{{0x80, 0x800}, {0x800, 0xD800}, {0xE000, 0x10000}, {0x10000, 0x110000}}
	utfBadSeq = [][]byte{
		{0xC0, 0x80}, {0xC1, 0xBF}, {0xE0, 0x80, 0x80}, {0xE0, 0x9F, 0xBF}, {0xF0, 0x80, 0x80, 0x80}, {0xF0, 0x8F, 0xBF, 0xBF}, // overlong
		{0xED, 0xA0, 0x80}, {0xED, 0xBF, 0xBF}, // surrogates
		{0xF4, 0x90, 0x80, 0x80}, {0xF5, 0x80, 0x80, 0x80}, {0xFF}, {0xFE}, {0xF8, 0x88, 0x80, 0x80, 0x80}, // beyond U+10FFFF
		{0xC3}, {0xE4, 0xB8}, {0xE4}, {0xF0, 0x9F}, {0xF0, 0x9F, 0x98}, // truncated, followed by whatever comes next
		{0x80}, {0xBF}, {0x80, 0x80}, {0xA0, 0xA1, 0xA2}, // stray continuation bytes
		{0xE1, 0x41, 0x80}, {0xE1, 0x80, 0x41}, {0xF1, 0x41, 0x80, 0x80}, {0xF1, 0x80, 0x41, 0x80}, {0xF1, 0x80, 0x80, 0x41}, {0xC3, 0x41}, {0xDF, 0xC3}, // bad 2nd / 3rd / 4th byte
		{0xE1, 0xC0, 0x80}, {0xE0, 0xFF, 0x80}, {0xF4, 0x00, 0x80, 0x80},
	}
)

func utfGen(r *rand.Rand, tier string, n int, emit func(op string, tags ...string)) {
	thorough := tier == "thorough"
	maxLen := func(n int) int { return n + 8192 }
	hints := []string{"n", "-", "0", "8"}
	uf := func(dt string, spec string, dst int, fam string) {
		emit(fmt.Sprintf("uf %s %d %s", dt, dst, spec), "family:"+fam)
	}
	ufb := func(dt string, b []byte, dst int, fam string) { uf(dt, utfHex(b), dst, fam) }
	ui := func(bsv string, b []byte, dst int, fam string) {
		emit(fmt.Sprintf("ui %s %d %s", bsv, dst, utfHex(b)), "family:"+fam)
	}
	cyr := func(n int) []byte { return utfText(r, n, 40+r.Intn(60), 15, utfGreek) }
	// Inverse of the real Forward output: exact / larger / smaller destination, truncated, mutated
	uiFrom := func(b []byte, fam string) {
		enc, ok := utfRealForward(b)
		if !ok {
			return
		}
		bsv := []string{"n", "-", "4", "6"}[r.Intn(4)]
		ui(bsv, enc, len(b), fam+"-exact")
		nsym := int(enc[2])<<8 | int(enc[3])
		switch r.Intn(9) {
		case 0:
			ui(bsv, enc, len(b)+1+r.Intn(100), fam+"-larger")
		case 1:
			ui(bsv, enc, len(b)-1-r.Intn(min(len(b)-1, 8)), fam+"-smaller")
		case 2:
			m := append([]byte{}, enc...)
			m[r.Intn(len(m))] = []byte{0, 1, 0x7F, 0x80, 0xFF, byte(r.Intn(256))}[r.Intn(6)]
			ui(bsv, m, len(b)+r.Intn(2)*80000, fam+"-mutated")
		case 3:
			ui(bsv, enc[:1+r.Intn(len(enc))], len(b), fam+"-truncated")
		case 4:
			// header mutations: start, adjust, map size
			m := append([]byte{}, enc...)
			switch r.Intn(4) {
			case 0:
				m[0] = byte(r.Intn(8))
			case 1:
				m[1] = byte(r.Intn(8))
			case 2:
				m[3]++
			default:
				m[2] ^= byte(1 << uint(r.Intn(8)))
			}
			ui(bsv, m, len(b)+r.Intn(3), fam+"-header-mutated")
		case 5:
			// mutate one map entry
			m := append([]byte{}, enc...)
			m[4+r.Intn(3*nsym)] = []byte{0, 0x18, 0x20, 0x40, 0xFF, byte(r.Intn(256))}[r.Intn(6)]
			ui(bsv, m, len(b)+r.Intn(3), fam+"-map-mutated")
		case 6:
			ui("3", enc, len(b), fam+"-as-v3")
		case 7:
			// cut right after the map / inside the head bytes
			ui(bsv, enc[:min(len(enc), 4+3*nsym+r.Intn(6))], len(b), fam+"-cut-after-map")
		default:
			ui(bsv, enc[:len(enc)-1-r.Intn(4)], len(b), fam+"-truncated-tail")
		}
	}

	// ---- 1. sizes around the minimum block size, destinations around MaxEncodedLen, every hint
	for _, l := range []int{0, 1, 3, 4, 5, 100, 1000, 1022, 1023, 1024, 1025, 1026, 1027, 1030, 1100} {
		b := bytes.Repeat([]byte("Привет мир, "), 1+l/21)[:l]
		for _, dt := range hints {
			ufb(dt, b, maxLen(l), "size-min")
		}
		for _, d := range []int{0, 1, l, l + 8191, l + 8193} {
			ufb("n", b, d, "size-min/dst")
		}
		// valid text cut at an arbitrary byte: the tail may end inside a sequence
		c := cyr(l + 8)[:l]
		ufb(hints[r.Intn(4)], c, maxLen(l), "size-min-cut")
	}
	for dt := 0; dt <= 12; dt++ {
		ufb(strconv.Itoa(dt), cyr(1100+r.Intn(300)), 10000, "hint-valid")
		ufb(strconv.Itoa(dt), gen.Random(r, 1100+r.Intn(300)), 10000, "hint-random")
		ufb(strconv.Itoa(dt), gen.Text(r, 1100+r.Intn(300)), 10000, "hint-ascii")
	}
	// ---- 2. scripts
	cnt := 40
	if thorough {
		cnt = 400
	}
	if n > 0 {
		cnt = n
	}
	type script struct {
		name   string
		ranges [][2]int
	}
	scripts := []script{{"latin1", utfLatin}, {"greek-cyrillic", utfGreek}, {"cjk", utfCJK}, {"emoji", utfEmoji}, {"all-planes", utfAll}}
	for i := 0; i < cnt; i++ {
		for _, sc := range scripts {
			sz := 1024 + r.Intn(1<<uint(6+r.Intn(9)))
			nsyms := 1 + r.Intn(1<<uint(1+r.Intn(10)))
			b := utfText(r, sz, nsyms, []int{0, 10, 50, 80, 95}[r.Intn(5)], sc.ranges)
			// cut head and tail at arbitrary bytes (block truncation)
			fam := sc.name
			if r.Intn(3) == 0 && len(b) > 1100 {
				b = b[r.Intn(4) : len(b)-r.Intn(4)]
				fam += "/cut"
			}
			dst := maxLen(len(b))
			switch r.Intn(12) {
			case 0:
				dst, fam = dst-1, fam+"/dst-1"
			case 1:
				dst, fam = dst+1+r.Intn(64), fam+"/dst+"
			}
			dt := hints[r.Intn(4)]
			ufb(dt, b, dst, fam)
			if i%3 == 0 {
				uiFrom(b, "ui-"+sc.name)
			}
		}
		// mixtures of scripts
		var b []byte
		for k := 0; k < 2+r.Intn(4); k++ {
			sc := scripts[r.Intn(len(scripts))]
			b = append(b, utfText(r, 300+r.Intn(2000), 1+r.Intn(300), r.Intn(60), sc.ranges)...)
		}
		ufb(hints[r.Intn(4)], b, maxLen(len(b)), "mixture")
		// ASCII only (with and without the UTF8 hint), ASCII with a few multi-byte symbols (ratio near 1/8)
		ufb(hints[r.Intn(4)], gen.Text(r, 1024+r.Intn(3000)), 20000, "ascii")
		share := []int{80, 85, 88, 90, 93, 97}[r.Intn(6)]
		b = utfText(r, 1024+r.Intn(3000), 1+r.Intn(40), share, utfGreek)
		ufb(hints[r.Intn(4)], b, maxLen(len(b)), "ascii-mostly")
		if i%4 == 0 {
			ufb(hints[r.Intn(4)], gen.UTF8(r, 2000+r.Intn(4000), 1+r.Intn(500)), 20000, "gen-utf8")
			ufb(hints[r.Intn(4)], gen.Random(r, 1024+r.Intn(3000)), 20000, "random")
		}
	}
	// ---- 3. symbol counts: around 128 (1 / 2 byte aliases) and the no-improvement thresholds
	for _, ns := range []int{1, 2, 126, 127, 128, 129, 130, 255, 256, 257, 300} {
		for rep := 2; rep <= 8; rep += 3 {
			// each of ns distinct 2- or 3-byte code points `rep` times, in rotating order
			base := []int{0x400, 0x4E00}[r.Intn(2)]
			spec := fmt.Sprintf("u%x+%d", base, ns)
			var parts []string
			for k := 0; k < rep; k++ {
				parts = append(parts, spec)
			}
			pad := "d0b0*600" // 1200 bytes of one more symbol so that the block is large enough
			uf(hints[r.Intn(4)], pad+","+strings.Join(parts, ","), 400000, "symbol-count-128")
		}
	}
	// ---- 4. around the 32768 symbol limit (large blocks; compact op lines)
	big := [][3]int{{32766, 7, 0x4E00}, {32767, 7, 0x4E00}, {32768, 7, 0x4E00}, {32767, 2, 0x4E00}}
	if thorough {
		big = append(big, [3]int{32769, 7, 0x4E00}, [3]int{40000, 3, 0x3000}, [3]int{32767, 8, 0x10000}, [3]int{32768, 8, 0x10000},
			[3]int{32767, 4, 0x4E00}, [3]int{20000, 6, 0x800}, [3]int{32700, 7, 0x800})
	}
	for _, c := range big {
		// 7 passes over c[0] distinct code points (one of them is the pad symbol when base <= pad < base+count)
		var parts []string
		for k := 0; k < c[1]; k++ {
			parts = append(parts, fmt.Sprintf("u%x+%d", c[2], c[0]))
		}
		spec := strings.Join(parts, ",")
		b, _ := utfDec(spec)
		uf("n", spec, maxLen(len(b)), "symbol-limit")
		uf("8", spec, maxLen(len(b)), "symbol-limit")
		// one more distinct symbol in front / an ASCII symbol at the end
		uf("n", "e3818182*2,"+spec+",41*8", maxLen(len(b)+16), "symbol-limit+")
	}
	// many distinct symbols in a small block: 3n+6 and the estimate against count - count/10 (the site
	// of the repaired overrun: map larger than the 8192-byte margin)
	msn, msr, mse := []int{300, 341, 342, 1000, 2730, 2731, 3000, 9000}, []int{1, 3}, []int{1000, 3, 12}
	if thorough {
		msn, msr, mse = []int{300, 340, 341, 342, 400, 1000, 2000, 2729, 2730, 2731, 2732, 3000, 5000, 9000, 20000}, []int{1, 2, 3}, []int{1000, 3, 6, 12, 30}
	}
	for _, ns := range msn {
		for _, rep := range msr {
			var parts []string
			for k := 0; k < rep; k++ {
				parts = append(parts, fmt.Sprintf("u%x+%d", 0x4E00, ns))
			}
			spec := strings.Join(parts, ",")
			b, _ := utfDec(spec)
			if len(b) < 1024 {
				spec += ",d0b0*600"
				b, _ = utfDec(spec)
			}
			uf(hints[r.Intn(4)], spec, maxLen(len(b)), "many-symbols-small-block")
			// estimate near maxTarget: frequent head of one symbol
			for _, ex := range mse {
				extra := ex * ns
				if ex == 1000 {
					extra = 1000
				}
				sp2 := spec + fmt.Sprintf(",d0b0*%d", extra)
				b2, _ := utfDec(sp2)
				uf("n", sp2, maxLen(len(b2)), "many-symbols-estimate")
			}
		}
	}
	// ---- 5. invalid UTF-8 at the start / middle / end, BOM, head and tail handling
	icnt := 1
	if thorough {
		icnt = 6
	}
	for it := 0; it < icnt; it++ {
		base := cyr(1400 + r.Intn(400))
		// make sure base is a sequence of whole symbols and find symbol boundaries
		var bounds []int
		for i := 0; i < len(base); {
			bounds = append(bounds, i)
			_, sz := utf8.DecodeRune(base[i:])
			i += sz
		}
		L := len(base)
		for _, bad := range utfBadSeq {
			// positions: at the very start, after 1..4 symbols, middle, and every offset in the last 12 bytes
			var pos []int
			pos = append(pos, 0, bounds[1], bounds[2], bounds[3], bounds[len(bounds)/2])
			for k := len(bounds) - 1; k >= 0 && bounds[k] >= L-12; k-- {
				pos = append(pos, bounds[k])
			}
			pos = append(pos, L)
			for _, p := range pos {
				b := append(append(append([]byte{}, base[:p]...), bad...), base[p:]...)
				dt := "n"
				if r.Intn(4) == 0 {
					dt = "8"
				}
				ufb(dt, b, maxLen(len(b)), "invalid-insert")
			}
			// overwrite at raw byte offsets near the validation boundary count-4 (second byte unchecked at count-5)
			for off := 3; off <= 9; off++ {
				if len(bad) > off {
					continue
				}
				b := append([]byte{}, base...)
				copy(b[L-off:], bad)
				ufb([]string{"n", "8"}[r.Intn(2)], b, maxLen(L), "invalid-overwrite-tail")
			}
		}
		// BOM at offset 0 (a normal 3-byte symbol) and at offset 1 (the Go test looks at src[1..3])
		bom := []byte{0xEF, 0xBB, 0xBF}
		ufb(hints[r.Intn(4)], append(append([]byte{}, bom...), base...), maxLen(L+3), "bom-0")
		for _, first := range []byte{'a', 0xD0, 0x80, 0xEF} {
			b := append(append([]byte{first}, bom...), base...)
			ufb(hints[r.Intn(4)], b, maxLen(len(b)), "bom-1")
		}
		// heads of 1..6 continuation / invalid bytes (start = 1..4), alone and after a cut sequence
		for k := 1; k <= 6; k++ {
			for _, c := range []byte{0x80, 0xBF, 0xC0, 0xF5, 0xFF} {
				b := append(bytes.Repeat([]byte{c}, k), base...)
				ufb([]string{"n", "8"}[r.Intn(2)], b, maxLen(len(b)), fmt.Sprintf("head-%d", k))
			}
		}
		// every cut of head (0..4 bytes) and tail (0..6 bytes) of CJK / emoji text
		for _, sc := range []script{scripts[2], scripts[3], scripts[1]} {
			t := utfText(r, 1500, 30, 10, sc.ranges)
			for h := 0; h <= 4; h++ {
				for tl := 0; tl <= 6; tl++ {
					if it == 0 || r.Intn(3) == 0 {
						ufb([]string{"n", "-", "8"}[r.Intn(3)], t[h:len(t)-tl], maxLen(len(t)), "cut-head-tail/"+sc.name)
					}
				}
			}
			uiFrom(t[1:len(t)-2], "ui-cut")
			uiFrom(t[3:len(t)-1], "ui-cut")
		}
	}
	// ---- 5b. validateUTF: the 1-byte rule is only evaluated every 4096 bytes of the 4-unrolled loop and
	// after a remainder loop; a forbidden byte (replacing an ASCII byte, so that the pair rules hold) is
	// then caught by the main loop (`invalid`) instead of validateUTF (`notutf`).  And the count/8 threshold.
	for _, total := range []int{4096 + 4, 4096 + 8, 8192 + 4, 8192 + 5, 8192 + 6, 8192 + 7, 8192 + 8, 12288 + 8} {
		t := utfText(r, total+8, 40, 30, utfGreek)[:total]
		for t[total-1] >= 0x80 || t[total-2] >= 0x80 { // end on two ASCII bytes
			t = utfText(r, total+8, 40, 30, utfGreek)[:total]
		}
		for _, pos := range []int{5, 2000, 4088, 4092, 4095, 4096, 4097, 4100, 4104, 8188, 8192, 8196, 8200, total - 12, total - 8, total - 6, total - 5} {
			if pos < 0 || pos >= total {
				continue
			}
			q := pos
			for q < total && (t[q] >= 0x80 || (q > 0 && t[q-1] >= 0xC2) || (q+1 < total && t[q+1] >= 0x80 && t[q+1] < 0xC0)) {
				q++
			}
			if q >= total {
				continue
			}
			b := append([]byte{}, t...)
			b[q] = []byte{0xC0, 0xC1, 0xF5, 0xF8, 0xFF}[r.Intn(5)]
			ufb([]string{"n", "-", "0"}[r.Intn(3)], b, maxLen(total), "validate-early-check")
		}
	}
	for _, total := range []int{1024, 1028, 1031, 2051, 4100, 5003} {
		thr := (total - 4) / 8
		for d := -2; d <= 2; d++ {
			c := thr + d
			spec := fmt.Sprintf("61*%d,d0b4*%d,62*4", total-4-2*c, c)
			uf([]string{"n", "-", "0", "8"}[r.Intn(4)], spec, maxLen(total), "validate-threshold")
			// continuation bytes counted although they are stray (after the accepted head of 3)
			spec2 := fmt.Sprintf("80*3,61*%d,d0b4*%d,62*4", total-7-2*(c-3), c-3)
			uf("n", spec2, maxLen(total), "validate-threshold")
		}
	}
	// ---- 6. forged inverse inputs
	// minimal well-formed: start adjust n=1 map(1 symbol) data tail
	sym := []byte{0x08, 0xD0, 0xB0} // packed 2-byte symbol d0 b0
	for _, st := range []byte{0, 1, 2, 3, 4, 7, 0xFF} {
		for _, adj := range []byte{0, 1, 2, 3, 4, 0xFE} {
			for tail := 0; tail <= 6; tail++ {
				b := append([]byte{st, adj, 0, 1}, sym...)
				b = append(b, bytes.Repeat([]byte{0}, tail)...)
				for _, d := range []int{1, 3, 4, 5, 8, 40} {
					if thorough || r.Intn(3) == 0 {
						ui("n", b, d, "ui-forged-minimal")
					}
				}
			}
		}
	}
	for _, hd := range [][]byte{{0, 0, 0, 0}, {0, 0, 0x80, 0}, {0, 0, 0x7F, 0xFF}, {0, 0, 0, 2}, {0, 0, 1, 0}, {0, 0}, {0}, {0, 0, 0}, {3, 3, 0, 1}} {
		for _, d := range []int{0, 1, 4, 100} {
			ui("n", append(append([]byte{}, hd...), bytes.Repeat([]byte{0x41}, r.Intn(12))...), d, "ui-forged-header")
		}
	}
	// every 3-byte map entry class, both bitstream versions
	for _, hi := range []byte{0x00, 0x07, 0x08, 0x0F, 0x10, 0x17, 0x18, 0x1F, 0x20, 0x27, 0x3F, 0x40, 0x5F, 0x60, 0x7F, 0x80, 0xFF} {
		for _, bsv := range []string{"n", "3", "4"} {
			b := []byte{0, 0, 0, 2, hi, 0xAB, 0xCD, 0, 0, 0x41, 0, 1, 0x80, 0x00, 0x81, 0x01, 0xFF, 0xFF, 9, 9, 9, 9}
			ui(bsv, b, 100, "ui-forged-map-entry")
		}
	}
	fcnt := 600
	if thorough {
		fcnt = 8000
	}
	for i := 0; i < fcnt; i++ {
		ns := 1 + r.Intn(4)
		if r.Intn(8) == 0 {
			ns = 128 + r.Intn(3)
		}
		b := []byte{byte(r.Intn(5)), byte(r.Intn(5)), byte(ns >> 8), byte(ns)}
		for k := 0; k < ns; k++ {
			switch r.Intn(5) {
			case 0:
				b = append(b, 0, 0, byte(r.Intn(128)))
			case 1:
				b = append(b, 0x08, byte(0xC2+r.Intn(30)), byte(0x80+r.Intn(64)))
			case 2:
				b = append(b, 0x10, byte(r.Intn(256)), byte(r.Intn(256)))
			case 3:
				b = append(b, byte(0x20+r.Intn(0x14)), byte(r.Intn(256)), byte(r.Intn(256)))
			default:
				b = append(b, byte(r.Intn(256)), byte(r.Intn(256)), byte(r.Intn(256)))
			}
		}
		for k := r.Intn(30); k > 0; k-- {
			switch r.Intn(4) {
			case 0:
				b = append(b, byte(0x80+r.Intn(128)), byte(r.Intn(3)))
			case 1:
				b = append(b, byte(r.Intn(256)))
			default:
				b = append(b, byte(r.Intn(ns)))
			}
		}
		if r.Intn(6) == 0 {
			b = b[:r.Intn(len(b)+1)]
		}
		ui([]string{"n", "-", "3", "4"}[r.Intn(4)], b, []int{1, 4, 5, 8, 16, 64, 200, 80000}[r.Intn(8)], "ui-forged-random")
	}
	ui("n", []byte{}, 10, "ui-empty")
	ui("n", []byte{0, 0, 0, 1, 0, 0, 0x41, 0, 0, 0, 0}, 0, "ui-dst0")
}
