/-
Range facts about `Int32` operations (two's complement `int32` of Go) used by the TPAQ proofs:
masking with a non negative mask, small sums, shifts of small values, conversions.
-/
namespace Kanzi.TPAQ

theorem i32_lo (x : Int32) : -2147483648 ≤ x.toInt := by have := Int32.le_toInt x; omega
theorem i32_hi (x : Int32) : x.toInt < 2147483648 := by have := Int32.toInt_lt x; omega

/-- `x & m` with `m >= 0` lies in `[0, m]` -/
theorem and_mask (x m : Int32) (hm : 0 ≤ m.toInt) : 0 ≤ (x &&& m).toInt ∧ (x &&& m).toInt ≤ m.toInt := by
  have hmm : m.toBitVec.msb = false := by
    rw [BitVec.msb_eq_toInt, Int32.toInt_toBitVec]; simp; omega
  have h1 : (x &&& m).toBitVec.msb = false := by
    rw [Int32.toBitVec_and, BitVec.msb_and, hmm, Bool.and_false]
  have e1 : (x &&& m).toInt = ((x &&& m).toBitVec.toNat : Int) := by
    rw [← Int32.toInt_toBitVec, BitVec.toInt_eq_toNat_of_msb h1]
  have e2 : m.toInt = (m.toBitVec.toNat : Int) := by
    rw [← Int32.toInt_toBitVec, BitVec.toInt_eq_toNat_of_msb hmm]
  rw [e1, e2, Int32.toBitVec_and, BitVec.toNat_and]
  have := @Nat.and_le_right x.toBitVec.toNat m.toBitVec.toNat
  omega

theorem toInt_add_of (a b : Int32) (h1 : -2147483648 ≤ a.toInt + b.toInt) (h2 : a.toInt + b.toInt < 2147483648) :
    (a + b).toInt = a.toInt + b.toInt := by
  rw [Int32.toInt_add]; exact Int.bmod_eq_of_le (by omega) (by omega)

theorem toInt_sub_of (a b : Int32) (h1 : -2147483648 ≤ a.toInt - b.toInt) (h2 : a.toInt - b.toInt < 2147483648) :
    (a - b).toInt = a.toInt - b.toInt := by
  rw [Int32.toInt_sub]; exact Int.bmod_eq_of_le (by omega) (by omega)

theorem ne_zero_iff (a : Int32) : (a != 0) = true ↔ a.toInt ≠ 0 := by
  rw [bne_iff_ne, ne_eq, ne_eq, ← Int32.toInt_inj, Int32.toInt_zero]

/-- `Int32.ofNat n` for `n < 2^31` -/
theorem toInt_ofNat_small (n : Nat) (h : n < 2147483648) : (Int32.ofNat n).toInt = n :=
  Int32.toInt_ofNat_of_lt (by omega)

/-- `a << 8` for `0 <= a <= 0xFFFF`: no bit is lost, the result is `256 a` -/
theorem shl8_small (a : Int32) (h0 : 0 ≤ a.toInt) (h1 : a.toInt ≤ 65535) :
    (a <<< (8 : Int32)).toInt = a.toInt * 256 := by
  have hm : a.toBitVec.msb = false := by
    rw [BitVec.msb_eq_toInt, Int32.toInt_toBitVec]; simp; omega
  have ea : a.toInt = (a.toBitVec.toNat : Int) := by
    rw [← Int32.toInt_toBitVec, BitVec.toInt_eq_toNat_of_msb hm]
  have e8 : (8 : Int32).toBitVec.smod 32 = 8#32 := by decide
  rw [← Int32.toInt_toBitVec, Int32.toBitVec_shiftLeft, e8]
  have hlt : a.toBitVec.toNat ≤ 65535 := by omega
  have e2 : (a.toBitVec <<< (8#32 : BitVec 32)).toNat = a.toBitVec.toNat * 256 := by
    simp [BitVec.toNat_shiftLeft, Nat.shiftLeft_eq]
    omega
  have hm2 : (a.toBitVec <<< (8#32 : BitVec 32)).msb = false := by
    rw [BitVec.msb_eq_decide]; simp; omega
  rw [BitVec.toInt_eq_toNat_of_msb hm2, e2, ea]; simp

end Kanzi.TPAQ
