/-
Line-protocol driver of the `lz` stream (see harness/cmd/kv/lz.go).  Core Lean only.

    lf <extra> <dt> <dstlen> <data>   LZXCodec.Forward on a fresh codec (`extra` = 1: ctx lz = LZX_TYPE; `dt`: `-` or the
                                      dataType number), then (on success) a fresh LZXCodec.Inverse of the output into a
                                      destination of len(data) bytes pre-filled with 0xAA
         -> ok <out> | inv <res>      res = ok <out> | err:<class> | panic | overrun
          | declined:<class>          class = dst | small | type | lits | nocomp
          | panic
    li <dstlen> <data>                LZXCodec.Inverse (bitstream version 6) on arbitrary input, dst pre-filled with 0xAA
         -> ok <out> | err:<class> | panic | overrun     class = data | dist | end
    ll <n>                            emitLengthLZ(n), then readLengthLZ of the bytes stored (padded to 4 with zeros)
         -> <hex> <value> <consumed>
    lr <hex of 4 bytes>               readLengthLZ  -> <value> <consumed>

`<data>`: `-` (empty) or comma separated chunks, appended in order:
    lower-case hex | `HH*count` (count copies of byte HH) | `~seed*count` (count bytes of the generator below) |
    `~seed*count/HEX` (count bytes drawn from the alphabet HEX) | `dist^len` (copy len bytes from dist back, byte by byte)
    generator: x := seed; per byte x := x * 6364136223846793005 + 1442695040888963407 (mod 2^64), k := x >> 33;
               byte = k mod 256, or alphabet[k mod len(alphabet)]
`<out>`: `<len> <hex>` up to 64 bytes, else `<len> <hex of the first 16 bytes>.. #<fnv1a-64 of all bytes, hex>`.
-/
import Kanzi.Model.LZ
import Kanzi.Drv.TrSmall

namespace Kanzi.Drv
open Kanzi.LZ

def lzGenBytes (seed count : Nat) (alpha : Array Nat) (acc : Array Nat) : Array Nat := Id.run do
  let mut x : UInt64 := UInt64.ofNat seed
  let mut a := acc
  for _ in [0:count] do
    x := x * 6364136223846793005 + 1442695040888963407
    let k := (x >>> 33).toNat
    a := a.push (if alpha.size = 0 then k % 256 else alpha.getD (k % alpha.size) 0)
  return a

def lzCopyBack (dist len : Nat) (acc : Array Nat) : Array Nat := Id.run do
  let mut a := acc
  for _ in [0:len] do
    a := a.push (a.getD (a.size - dist) 0)
  return a

def lzChunk (acc : Array Nat) (s : String) : Option (Array Nat) :=
  if s.startsWith "~" then
    let body := String.ofList (s.toList.drop 1)
    let (main, alpha?) := match body.splitOn "/" with
      | [m] => (m, some #[])
      | [m, a] => (m, (unhexGo a.toList #[]))
      | _ => ("", none)
    match main.splitOn "*", alpha? with
    | [sd, c], some alpha =>
      match sd.toNat?, c.toNat? with
      | some seed, some n => some (lzGenBytes seed n alpha acc)
      | _, _ => none
    | _, _ => none
  else if s.contains '^' then
    match s.splitOn "^" with
    | [d, l] =>
      match d.toNat?, l.toNat? with
      | some dist, some len => if dist = 0 ∨ dist > acc.size then none else some (lzCopyBack dist len acc)
      | _, _ => none
    | _ => none
  else if s.contains '*' then
    match s.splitOn "*" with
    | [h, c] =>
      match unhexGo h.toList #[], c.toNat? with
      | some hb, some n => if hb.size = 1 then some (acc ++ Array.replicate n (hb.getD 0 0)) else none
      | _, _ => none
    | _ => none
  else unhexGo s.toList acc

def lzData (s : String) : Option (Array Nat) :=
  if s = "-" then some #[]
  else (s.splitOn ",").foldl (fun (a : Option (Array Nat)) c => a.bind fun acc => lzChunk acc c) (some #[])

def lzFnv (l : Array Nat) : UInt64 :=
  l.foldl (fun h b => (h ^^^ UInt64.ofNat b) * 1099511628211) 14695981039346656037

def lzHex64 (v : UInt64) : String :=
  String.ofList ((List.range 16).map (fun k => hexDigit ((v.toNat >>> (4 * (15 - k))) % 16)))

def lzOut (l : Array Nat) : String :=
  if l.size ≤ 64 then s!"{l.size} {hex l.toList}"
  else s!"{l.size} {hex (l.extract 0 16).toList}.. #{lzHex64 (lzFnv l)}"

def lzShowInv (r : Res) : String :=
  match r with
  | .ok o => "ok " ++ lzOut o
  | .err e => "err:" ++ e
  | .fault "overrun" => "overrun"
  | .fault _ => "panic"

def lz (line : String) : String :=
  match (line.splitOn " ").filter (· ≠ "") with
  | ["lf", x, dts, d, h] =>
    let dt? : Option Nat := if dts = "-" then some 0 else dts.toNat?
    match dt?, d.toNat?, lzData h with
    | some dt, some d, some b =>
      if x ≠ "0" ∧ x ≠ "1" then "bad-op" else
      match lzForward (x = "1") dt b d with
      | .ok t => s!"ok {lzOut t} | inv {lzShowInv (lzInverse t (Array.replicate b.size 0xAA))}"
      | .err e => "declined:" ++ e
      | .fault _ => "panic"
    | _, _, _ => "bad-op"
  | ["li", d, h] =>
    match d.toNat?, lzData h with
    | some d, some b => lzShowInv (lzInverse b (Array.replicate d 0xAA))
    | _, _ => "bad-op"
  | ["ll", n] =>
    match n.toNat? with
    | some n =>
      let bs := emitLength n
      match readLength (bs ++ [0, 0, 0]).toArray 0 with
      | .ok r => s!"{hex bs} {r.1} {r.2}"
      | _ => "panic"
    | none => "bad-op"
  | ["lr", h] =>
    match unhex h with
    | some bs =>
      if bs.length ≠ 4 then "bad-op" else
      match readLength bs.toArray 0 with
      | .ok r => s!"{r.1} {r.2}"
      | _ => "panic"
    | none => "bad-op"
  | _ => "bad-op"

end Kanzi.Drv
