/-
Model of the run-length transform `transform.RLT` (v2/transform/RLT.go), slice `rlt`, property C13.

  * `rltMaxEncodedLen`           Go `RLT.MaxEncodedLen`
  * `runLenBytes`                Go `emitRunLength` (the bytes it stores)
  * `rltForward dt fast src n`   Go `RLT.Forward(src, dst)` with `len(dst) = n`
  * `rltInverse src n`           Go `RLT.Inverse(src, dst)` with `len(dst) = n`
  * `histogram`, `detectSimpleType`, `selectEscape`: the order-0 branch of `internal.ComputeHistogram`,
    `internal.DetectSimpleType` and the escape selection loop of `Forward`.

Core Lean only (linked into `kmodel`).  Bytes are `Nat` (< 256).  The source is an `Array Nat` read
through `src[i]?`; the destination is the `Array Nat` of the bytes written so far (`out.size` is the Go
`dstIdx`; every Go write is `dst[dstIdx] = v; dstIdx++`, i.e. an append).

Outcomes (`Out`): `.ok` = nil error, `.err c` = non-nil Go error of class `c` (Forward "declines",
Inverse "fails"), `.fault` = a Go run-time panic: EVERY slice read/write of the Go code is modelled
with its bounds check (`src[i]?` = `none`, `wr` beyond `len(dst)`, `dst[dstIdx-1]` with `dstIdx = 0`,
`binary.LittleEndian.Uint32` on fewer than 4 bytes) and yields `.fault` when the Go code would index out
of range.  The loops carry a fuel argument (one unit per Go loop iteration); running out of fuel is a
`.fault "fuel"` as well, so "never `.fault`" (theorem `C13_rlt_total`) also says the fuel is sufficient.

The context of `NewRLTWithCtx` enters `Forward` through two values only, which are explicit parameters:
  `dt`   the `dataType` entry (0 = DT_UNDEFINED = no ctx, no entry or an explicit DT_UNDEFINED);
  `fast` the `entropy` entry upper-cased is one of NONE / ANS0 / HUFFMAN / RANGE (`findBestEscape = false`).
`NewRLT()` is `dt = 0, fast = false`.  Not modelled: the aliasing test `&src[0] == &dst[0]` (callers
own two distinct buffers).  The write-back of the detected type into the ctx map is `rltCtxWrite`.
-/
namespace Kanzi.RLT

/-- result of a Go call or of a piece of it -/
inductive Out (α : Type) where
  | ok (a : α)
  | err (e : String)
  | fault (e : String)
deriving Repr, DecidableEq

def Out.bind {α β : Type} (x : Out α) (f : α → Out β) : Out β :=
  match x with
  | .ok a => f a
  | .err e => .err e
  | .fault e => .fault e

abbrev Res := Out (List Nat)

/-! ## constants -/

def RUN_LEN_ENCODE1 : Nat := 224
def RUN_LEN_ENCODE2 : Nat := (255 - RUN_LEN_ENCODE1) <<< 8
def RUN_THRESHOLD : Nat := 3
def MAX_RUN : Nat := 0xFFFF + RUN_LEN_ENCODE2 + RUN_THRESHOLD - 1
def MAX_RUN4 : Nat := MAX_RUN - 4
def MIN_BLOCK_LENGTH : Nat := 16
def DEFAULT_ESCAPE : Nat := 0xFB

/-- Go: `RLT.MaxEncodedLen` -/
def rltMaxEncodedLen (srcLen : Nat) : Nat := if srcLen ≤ 512 then srcLen + 32 else srcLen

/-! ## writes -/

/-- Go: a sequence of stores `dst[dstIdx] = v; dstIdx++` for the bytes `bs` (nothing is stored for
    `bs = []`).  Panics iff the last index is `≥ len(dst) = dstEnd`. -/
def wr (dstEnd : Nat) (out : Array Nat) (bs : List Nat) : Out (Array Nat) :=
  if bs.isEmpty ∨ out.size + bs.length ≤ dstEnd then .ok (out ++ bs) else .fault "dst-index"

/-- Go: `emitRunLength(dst, run)`: the bytes stored (`run > RUN_THRESHOLD` at the only call site, so the
    `int` subtraction does not go negative) -/
def runLenBytes (run0 : Nat) : List Nat :=
  let run := run0 - RUN_THRESHOLD
  if run < RUN_LEN_ENCODE1 then [run % 256]
  else if run < RUN_LEN_ENCODE2 then
    [(RUN_LEN_ENCODE1 + ((run - RUN_LEN_ENCODE1) >>> 8)) % 256, (run - RUN_LEN_ENCODE1) % 256]
  else [0xFF, ((run - RUN_LEN_ENCODE2) >>> 8) % 256, (run - RUN_LEN_ENCODE2) % 256]

/-- `run` escape literals: Go `for run > 0 { dst[dstIdx] = escape; dst[dstIdx+1] = 0; dstIdx += 2; run-- }` -/
def escLits (esc : Nat) : Nat → List Nat
  | 0 => []
  | n + 1 => esc :: 0 :: escLits esc n

/-! ## histogram, data type detection, escape selection -/

/-- Go: `internal.ComputeHistogram(src, freqs, true, false)` on a zeroed `[256]int` -/
def histogram (src : List Nat) : Array Nat :=
  src.foldl (fun a x => a.modify x (· + 1)) (Array.replicate 256 0)

def fq (freqs : Array Nat) (i : Nat) : Nat := freqs.getD i 0

def sumAt (freqs : Array Nat) (syms : List Nat) : Nat := syms.foldl (fun s c => s + fq freqs c) 0

/-- `acgntuACGNTU` (the first 12 entries of `_DNA_SYMBOLS`) -/
def dnaSymbols : List Nat := [97, 99, 103, 110, 116, 117, 65, 67, 71, 78, 84, 85]
/-- `0123456789+-*/=,.:; ` -/
def numericSymbols : List Nat :=
  [48, 49, 50, 51, 52, 53, 54, 55, 56, 57, 43, 45, 42, 47, 61, 44, 46, 58, 59, 32]
/-- `A-Z a-z 0-9 + /` -/
def base64Symbols : List Nat :=
  (List.range 26).map (· + 65) ++ (List.range 26).map (· + 97) ++ (List.range 10).map (· + 48) ++ [43, 47]

def DT_UNDEFINED : Nat := 0
def DT_NUMERIC : Nat := 4
def DT_BASE64 : Nat := 5
def DT_DNA : Nat := 6
def DT_BIN : Nat := 7
def DT_UTF8 : Nat := 8
def DT_SMALL_ALPHABET : Nat := 9

/-- Go: `internal.DetectSimpleType(count, freqs)` -/
def detectSimpleType (count : Nat) (freqs : Array Nat) : Nat :=
  if count = 0 then DT_UNDEFINED
  else if sumAt freqs dnaSymbols > count - count / 12 then DT_DNA
  else if sumAt freqs numericSymbols = count then DT_NUMERIC
  else if sumAt freqs base64Symbols + fq freqs 0x3D = count then DT_BASE64
  else
    let distinct := ((List.range 256).filter (fun i => fq freqs i > 0)).length
    if distinct = 256 then DT_BIN
    else if distinct ≤ 4 then DT_SMALL_ALPHABET
    else DT_UNDEFINED

/-- the types for which Forward declines -/
def declinedType (dt : Nat) : Bool := dt = DT_DNA ∨ dt = DT_BASE64 ∨ dt = DT_UTF8

/-- Go: `for i, f := range &freqs { if f < freqs[minIdx] { minIdx = i; if f == 0 { break } } }`
    from index `256 - k` with the current `minIdx = m` -/
def selEscGo (freqs : Array Nat) : Nat → Nat → Nat
  | 0, m => m
  | k + 1, m =>
    if fq freqs (256 - (k + 1)) < fq freqs m then
      if fq freqs (256 - (k + 1)) = 0 then 256 - (k + 1) else selEscGo freqs k (256 - (k + 1))
    else selEscGo freqs k m

/-- Go: escape selection (`minIdx := 0; if freqs[minIdx] > 0 { loop }`) -/
def selectEscape (freqs : Array Nat) : Nat :=
  if fq freqs 0 > 0 then selEscGo freqs 256 0 else 0

/-! ## Forward -/

/-- Go: `binary.LittleEndian.Uint32(src[srcIdx:])` (panics when fewer than 4 bytes are left) -/
def le32 (src : Array Nat) (i : Nat) : Option Nat :=
  match src[i]?, src[i + 1]?, src[i + 2]?, src[i + 3]? with
  | some a, some b, some c, some d => some (a + 256 * b + 65536 * c + 16777216 * d)
  | _, _, _, _ => none

/-- outcome of the scanning part of one iteration of the main loop: `cont` = the Go `continue` is
    taken; `i`, `run` = new `srcIdx`, `run` -/
structure Scan where
  cont : Bool
  i : Nat
  run : Nat
deriving Repr, DecidableEq

/-- the part of the main loop of Forward before `if run > _RLT_RUN_THRESHOLD` -/
def scan (src : Array Nat) (prev i run : Nat) : Out Scan :=
  match src[i]? with
  | none => .fault "src-index"
  | some s0 =>
    if prev = s0 then
      match le32 src i with
      | none => .fault "src-index"
      | some w =>
        if (0x01010101 * prev) % 2 ^ 32 = w then
          .ok ⟨decide (run + 4 < MAX_RUN4 ∧ i + 4 < src.size - 4), i + 4, run + 4⟩
        else
          match src[i + 1]? with
          | none => .fault "src-index"
          | some s1 =>
            if prev = s1 then
              match src[i + 2]? with
              | none => .fault "src-index"
              | some s2 =>
                if prev = s2 then
                  .ok ⟨decide (run + 3 < MAX_RUN4 ∧ i + 3 < src.size - 4), i + 3, run + 3⟩
                else .ok ⟨false, i + 2, run + 2⟩
            else .ok ⟨false, i + 1, run + 1⟩
    else .ok ⟨false, i, run⟩

/-- the three emission branches in the main loop of Forward (`.err "dst"`: Go sets `err` and breaks) -/
def emitRun (dstEnd esc prev run : Nat) (out : Array Nat) : Out (Array Nat) :=
  if run > RUN_THRESHOLD then
    if out.size + 6 ≥ dstEnd then .err "dst"
    else
      (wr dstEnd out (prev :: ((if prev = esc then [0] else []) ++ [esc]))).bind fun o =>
        wr dstEnd o (runLenBytes run)
  else if prev ≠ esc then
    if out.size + run ≥ dstEnd then .err "dst" else wr dstEnd out (List.replicate run prev)
  else
    if out.size + 2 * run ≥ dstEnd then .err "dst" else wr dstEnd out (escLits esc run)

/-- Go: the loop "Emit the last few bytes"; returns the final `(srcIdx, dst[0:dstIdx])` -/
def fwdTail (src : Array Nat) (dstEnd esc : Nat) : Nat → Nat → Array Nat → Out (Nat × Array Nat)
  | 0, i, out => if i < src.size ∧ out.size < dstEnd then .fault "fuel" else .ok (i, out)
  | f + 1, i, out =>
    if i < src.size ∧ out.size < dstEnd then
      match src[i]? with
      | none => .fault "src-index"
      | some s =>
        if s = esc then
          if out.size + 2 ≥ dstEnd then .ok (i, out)
          else (wr dstEnd out [esc, 0]).bind fun o => fwdTail src dstEnd esc f (i + 1) o
        else (wr dstEnd out [s]).bind fun o => fwdTail src dstEnd esc f (i + 1) o
    else .ok (i, out)

/-- Go: everything after the main loop of Forward when it ended with `err == nil` -/
def fwdFinish (src : Array Nat) (dstEnd esc i run prev : Nat) (out : Array Nat) : Res :=
  (if prev ≠ esc then
      if out.size + run < dstEnd then wr dstEnd out (List.replicate run prev) else .err "dst"
    else
      if out.size + 2 * run < dstEnd then wr dstEnd out (escLits esc run) else .err "dst").bind fun o1 =>
  (fwdTail src dstEnd esc (src.size - i) i o1).bind fun r =>
    if r.1 ≠ src.size then .err "dst"
    else if r.2.size ≥ r.1 then .err "nocomp"
    else .ok r.2.toList

/-- Go: the main loop of Forward, one unit of fuel per iteration (`srcEnd4 = len(src) - 4`; the block
    has at least 16 bytes) -/
def fwdLoop (src : Array Nat) (dstEnd esc : Nat) : Nat → Nat → Nat → Nat → Array Nat → Res
  | 0, _, _, _, _ => .fault "fuel"
  | f + 1, i, run, prev, out =>
    (scan src prev i run).bind fun s =>
      if s.cont then fwdLoop src dstEnd esc f s.i s.run prev out
      else
        (emitRun dstEnd esc prev s.run out).bind fun o =>
          match src[s.i]? with
          | none => .fault "src-index"
          | some p =>
            if s.i + 1 ≥ src.size - 4 then fwdFinish src dstEnd esc (s.i + 1) 1 p o
            else fwdLoop src dstEnd esc f (s.i + 1) 1 p o

/-- the escape symbol, or `none` when Forward declines because of the (given or detected) data type -/
def chooseEscape (dt : Nat) (fast : Bool) (src : List Nat) : Option Nat :=
  if fast then some DEFAULT_ESCAPE
  else
    let freqs := histogram src
    if dt = DT_UNDEFINED ∧ declinedType (detectSimpleType src.length freqs) then none
    else some (selectEscape freqs)

/-- Go: `RLT.Forward(src, dst)` with `len(dst) = dstLen` -/
def rltForward (dt : Nat) (fast : Bool) (src : List Nat) (dstLen : Nat) : Res :=
  if src.length = 0 ∨ dstLen = 0 then .ok []
  else if src.length < MIN_BLOCK_LENGTH then .err "small"
  else if dstLen < rltMaxEncodedLen src.length then .err "dst"
  else if declinedType dt then .err "type"
  else
    match chooseEscape dt fast src with
    | none => .err "type"
    | some esc =>
      let a := src.toArray
      match a[0]? with
      | none => .fault "src-index"
      | some prev =>
        -- Go (after fix F44): `dstEnd := this.MaxEncodedLen(len(src))` — the decisions no longer depend on `len(dst)`
        (wr (rltMaxEncodedLen src.length) #[] (esc :: prev :: (if prev = esc then [0] else []))).bind fun o =>
          fwdLoop a (rltMaxEncodedLen src.length) esc a.size 1 0 prev o

/-- Go: the value stored by `(*this.ctx)["dataType"] = dt` during `Forward` (when a ctx is present), if
    any: the detected type when it is not DT_UNDEFINED -/
def rltCtxWrite (dt : Nat) (fast : Bool) (src : List Nat) (dstLen : Nat) : Option Nat :=
  if src.length = 0 ∨ dstLen = 0 ∨ src.length < MIN_BLOCK_LENGTH ∨ dstLen < rltMaxEncodedLen src.length
      ∨ declinedType dt ∨ fast ∨ dt ≠ DT_UNDEFINED then none
  else
    let k := detectSimpleType src.length (histogram src)
    if k ≠ DT_UNDEFINED then some k else none

/-! ## Inverse -/

/-- Go: "Decode the length" for a first length byte `r ≠ 0` read at `i2 - 1`; returns the run (before
    `run += _RLT_RUN_THRESHOLD - 1`) and the new `srcIdx` -/
def decodeRun (src : Array Nat) (r i2 : Nat) : Out (Nat × Nat) :=
  if r = 0xFF then
    if i2 + 1 ≥ src.size then .err "data"
    else
      match src[i2]?, src[i2 + 1]? with
      | some a, some b => .ok (((a <<< 8) ||| b) + RUN_LEN_ENCODE2, i2 + 2)
      | _, _ => .fault "src-index"
  else if r ≥ RUN_LEN_ENCODE1 then
    if i2 ≥ src.size then .err "data"
    else
      match src[i2]? with
      | some a => .ok ((((r - RUN_LEN_ENCODE1) <<< 8) ||| a) + RUN_LEN_ENCODE1, i2 + 1)
      | none => .fault "src-index"
  else .ok (r, i2)

/-- Go: the main loop of Inverse; returns the final `(srcIdx, dst[0:dstIdx])` -/
def invLoop (src : Array Nat) (dstEnd esc : Nat) : Nat → Nat → Array Nat → Out (Nat × Array Nat)
  | 0, i, out => if i < src.size then .fault "fuel" else .ok (i, out)
  | f + 1, i, out =>
    if i < src.size then
      match src[i]? with
      | none => .fault "src-index"
      | some x =>
        if x ≠ esc then
          if out.size ≥ dstEnd then .err "data"
          else (wr dstEnd out [x]).bind fun o => invLoop src dstEnd esc f (i + 1) o
        else if i + 1 ≥ src.size then .err "data"
        else
          match src[i + 1]? with
          | none => .fault "src-index"
          | some r =>
            if r = 0 then
              if out.size ≥ dstEnd then .err "data"
              else (wr dstEnd out [esc]).bind fun o => invLoop src dstEnd esc f (i + 2) o
            else
              (decodeRun src r (i + 2)).bind fun d =>
                if d.1 + (RUN_THRESHOLD - 1) > MAX_RUN ∨ out.size + (d.1 + (RUN_THRESHOLD - 1)) ≥ dstEnd then
                  .err "run"
                else if out.size = 0 then .fault "dst-index"   -- `dst[dstIdx-1]` with `dstIdx = 0`
                else
                  (wr dstEnd out (List.replicate (d.1 + (RUN_THRESHOLD - 1)) (out.getD (out.size - 1) 0))).bind
                    fun o => invLoop src dstEnd esc f d.2 o
    else .ok (i, out)

/-- Go: the end of Inverse -/
def invFinish (src : Array Nat) (r : Out (Nat × Array Nat)) : Res :=
  r.bind fun p => if p.1 ≠ src.size then .err "data" else .ok p.2.toList

/-- Go: `RLT.Inverse(src, dst)` with `len(dst) = dstLen` -/
def rltInverse (src : List Nat) (dstLen : Nat) : Res :=
  if src.length = 0 ∨ dstLen = 0 then .ok []
  else if src.length < 2 then .err "data"
  else
    let a := src.toArray
    match a[0]?, a[1]? with
    | some esc, some s1 =>
      if s1 = esc then
        -- srcIdx = 2: "The data cannot start with a run but may start with an escape literal"
        if 2 < a.size ∧ a[2]? ≠ some 0 then
          (if a[2]?.isNone then .fault "src-index" else .err "starts-run")
        else
          (wr dstLen #[] [esc]).bind fun o => invFinish a (invLoop a dstLen esc a.size 3 o)
      else invFinish a (invLoop a dstLen esc a.size 1 #[])
    | _, _ => .fault "src-index"

end Kanzi.RLT
