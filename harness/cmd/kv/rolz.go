package main

// rolz: correspondence stream for the reduced-offset LZ codecs of v2/transform/ROLZCodec.go: ROLZX
// (rolzCodec2, own binary range coder; ops xf / xi) and ROLZ (rolzCodec1, ANS coded side buffers; ops
// rf / ri).  Models lean/Kanzi/Model/ROLZX.lean and ROLZ1.lean, driver lean/Kanzi/Drv/ROLZ.lean (op grammar
// there).
//
// Exec runs the REAL codec (transform.NewROLZCodecWithCtx / NewROLZCodecWithFlag / NewROLZCodec) on
// caller-owned buffers (trCall of trsmall.go: source with cap == len, destination dst[:dstLen] followed by a
// canary) and evaluates the C13 oracle on the real code, independently of the Lean model: no panic in
// Forward, source buffer unchanged (success or decline), canary intact, and when Forward succeeds into a
// destination of at least MaxEncodedLen bytes: everything consumed, output length <= MaxEncodedLen (and <
// len), Inverse(Forward(x)) == x without panic into a destination of exactly len(x) bytes and of larger
// ones, and the sequence built by transform.New(ctx, name) produces the same bytes and inverts them.  A
// panic of Inverse on a forged input is an observation (tag xi:panic / ri:panic), not a violation.

import (
	"bytes"
	"fmt"
	"math/rand"
	"reflect"
	"runtime/debug"
	"strconv"
	"strings"

	kanzi "github.com/flanglet/kanzi-go/v2"
	"github.com/flanglet/kanzi-go/v2/transform"

	"kverif/internal/gen"
)

func init() {
	registerStream(&Stream{
		Name: "rolz",
		Rule: "one op = one ROLZCodec.Forward (+ Inverse of its output) or one ROLZCodec.Inverse call on a caller-owned block, ROLZX (x*) or ROLZ (r*), nil ctx / ctx with or without a dataType hint (DNA, EXE, MULTIMEDIA, others), bsVersion 6/4/3/2 for Inverse; families: empty and tiny blocks around the 64-byte minimum, text, repetitive text, DNA with and without hint, hinted non-DNA, executables, multimedia, runs, periodic data with periods around the match limits, long matches (>= 255+minMatch), matches ending at the chunk end, small alphabets, skewed, random (declines; sizes around the 16384 switch of MaxEncodedLen and the dst margin), destination sizes around MaxEncodedLen, blocks around the 16 MiB chunk size (generated data), key/hash collisions; inverse of real outputs with exact / larger / smaller destinations, truncated, extended, mutated (header, flags, payload), random and short forged inputs; distinct_nontrivial = distinct ops with a non-empty block",
		Gen:  rolzGen,
		Exec: rolzExec,
	})
}

const rolzChunk = 1 << 24

var rolzWords = []string{"alpha ", "beta ", "gamma ", "delta ", "the ", "of ", "kanzi "}

// deterministic test data shared with the Lean driver (genData): a 64-bit LCG, r = its top 31 bits
func rolzGenData(kind int, seed uint64, n int) []byte {
	b := make([]byte, 0, n+8)
	x := seed
	for len(b) < n {
		x = x*6364136223846793005 + 1442695040888963407
		r := int(x >> 33)
		switch kind {
		case 0:
			b = append(b, byte((r%4)*3))
		case 1:
			b = append(b, "acgt"[r%4])
		case 2:
			b = append(b, rolzWords[r%7]...)
		default:
			b = append(b, byte(r%256))
		}
	}
	return b[:n]
}

func rolzDataDec(s string) ([]byte, bool) {
	if strings.HasPrefix(s, "@") {
		w := strings.Split(s[1:], ":")
		if len(w) != 3 {
			return nil, false
		}
		k, e1 := strconv.Atoi(w[0])
		seed, e2 := strconv.ParseUint(w[1], 10, 64)
		n, e3 := strconv.Atoi(w[2])
		if e1 != nil || e2 != nil || e3 != nil || n < 0 || n > 1<<27 {
			return nil, false
		}
		return rolzGenData(k, seed, n), true
	}
	return rltDec(s)
}

func rolzMaxLen2(n int) int {
	if n <= 16384 {
		return n + 1024
	}
	return n + n/32
}

func rolzMaxLen1(n int) int {
	if n <= 512 {
		return n + 64
	}
	return n
}

// the codec for a Forward call
func rolzNewFwd(x bool, hasCtx bool, dt int, lpc int) (kanzi.ByteTransform, *map[string]any) {
	if !hasCtx {
		if !x && lpc != 4 {
			t, _ := transform.NewROLZCodec(uint(lpc))
			return t, nil
		}
		t, _ := transform.NewROLZCodecWithFlag(x)
		return t, nil
	}
	ctx := map[string]any{"transform": map[bool]string{true: "ROLZX", false: "ROLZ"}[x]}
	if dt >= 0 {
		ctx["dataType"] = rltDataType(dt)
	}
	t, _ := transform.NewROLZCodecWithCtx(&ctx)
	return t, &ctx
}

// the codec for an Inverse call
func rolzNewInv(x bool, ver int) kanzi.ByteTransform {
	ctx := map[string]any{"transform": map[bool]string{true: "ROLZX", false: "ROLZ"}[x]}
	if ver >= 0 {
		ctx["bsVersion"] = uint(ver)
	}
	t, _ := transform.NewROLZCodecWithCtx(&ctx)
	return t
}

func rolzFwdClass(err error) string {
	m := err.Error()
	switch {
	case strings.Contains(m, "block too small"):
		return "small"
	case strings.Contains(m, "max ROLZ codec block size"):
		return "big"
	case strings.Contains(m, "Output buffer is too small"), strings.Contains(m, "output buffer is too small"):
		return "dst"
	case strings.Contains(m, "no compression"):
		return "nocomp"
	case strings.Contains(m, "destination buffer too small"):
		return "dstsmall"
	case strings.Contains(m, "too many matches"):
		return "toomany"
	case strings.Contains(m, "ANS") || strings.Contains(m, "bitstream"):
		return "ans"
	}
	return "other(" + m + ")"
}

func rolzInvClass(err error) string {
	m := err.Error()
	switch {
	case strings.Contains(m, "input array too small"):
		return "small"
	case strings.Contains(m, "max ROLZ codec block size"):
		return "big"
	case strings.Contains(m, "invalid 'logPosChecks'"):
		return "lpc"
	case strings.Contains(m, "ANS") || strings.Contains(m, "Invalid bitstream") || strings.Contains(m, "alphabet") || strings.Contains(m, "bitstream"):
		return "ans"
	case strings.Contains(m, "Invalid length for"):
		return "length"
	case strings.Contains(m, "invalid input data"):
		return "input"
	case strings.Contains(m, "invalid data"):
		return "invalid"
	}
	return "other(" + strings.ReplaceAll(m, " ", "_") + ")"
}

// rolzCall is trCall (trsmall.go) that also records where a panic came from: `lib` is set when the panic was
// raised inside the entropy or bitstream packages (ANS decoder on forged data, input bitstream out of bits)
func rolzCall(f func(src, dst []byte) (uint, uint, error), data []byte, dstLen int) (o trOut, lib bool) {
	src := make([]byte, len(data))
	copy(src, data)
	buf := make([]byte, dstLen+trCanary)
	for i := range buf {
		if i < dstLen {
			buf[i] = 0xAA
		} else {
			buf[i] = byte(0xC5 ^ i)
		}
	}
	func() {
		defer func() {
			if r := recover(); r != nil {
				o.panicMsg = fmt.Sprint(r)
				st := string(debug.Stack())
				// the innermost kanzi frame decides
				for _, ln := range strings.Split(st, "\n") {
					if strings.Contains(ln, "kanzi-go/v2/") && !strings.HasPrefix(ln, "\t") {
						lib = strings.Contains(ln, "kanzi-go/v2/entropy.") || strings.Contains(ln, "kanzi-go/v2/bitstream.") || strings.Contains(ln, "kanzi-go/v2/internal.")
						break
					}
				}
			}
		}()
		o.read, o.written, o.err = f(src, buf[:dstLen])
	}()
	o.inputMod = !bytes.Equal(src, data)
	for i := dstLen; i < len(buf); i++ {
		if buf[i] != byte(0xC5^i) {
			o.canary = true
		}
	}
	if o.panicMsg == "" && o.err == nil && int(o.written) <= dstLen {
		o.out = buf[:o.written]
	}
	return o, lib
}

// canonical text of one Inverse call; integrity violations are reported, a panic is not (the caller decides)
func rolzInvLine(res *Result, site string, o trOut, lib bool, dstLen int) string {
	if o.inputMod {
		trViolate(res, site, "input-modified", "source buffer changed by the call")
	}
	if o.canary {
		trViolate(res, site, "dst-overrun", "bytes after dst[:len] were written")
	}
	if o.panicMsg != "" {
		if lib {
			// the input bitstream ran out of bits or the ANS decoder faulted on forged data: same class as an
			// ANS error (the ANS models do not distinguish them)
			return "err:ans"
		}
		return "panic"
	}
	if o.err != nil {
		return "err:" + rolzInvClass(o.err)
	}
	if int(o.written) > dstLen {
		return "overrun"
	}
	return "ok " + rltOut(o.out)
}

func rolzExec(op string, res *Result) string {
	w := strings.Fields(op)
	atoi := func(s string) (int, bool) {
		v, err := strconv.Atoi(s)
		return v, err == nil && v >= 0 && v <= 1<<28
	}
	if len(w) < 4 {
		return "bad-op"
	}
	x := w[0][0] == 'x'
	name := map[bool]string{true: "ROLZX", false: "ROLZ"}[x]
	fsite := map[bool]string{true: "transform.rolzCodec2.Forward", false: "transform.rolzCodec1.Forward"}[x]
	isite := map[bool]string{true: "transform.rolzCodec2.Inverse", false: "transform.rolzCodec1.Inverse"}[x]
	switch w[0] {
	case "xf", "rf":
		// xf <ctx> <dt> <dstlen> <data>      rf <ctx> <dt> <lpc> <dstlen> <data>
		lpc := 5
		k := 3
		if !x {
			if len(w) != 6 {
				return "bad-op"
			}
			var ok bool
			if lpc, ok = atoi(w[3]); !ok {
				return "bad-op"
			}
			k = 4
		} else if len(w) != 5 {
			return "bad-op"
		}
		hasCtx := w[1] == "1"
		dt := -1
		if w[2] != "-" {
			v, ok := atoi(w[2])
			if !ok || v > 20 {
				return "bad-op"
			}
			dt = v
		}
		dstLen, ok1 := atoi(w[k])
		data, ok2 := rolzDataDec(w[k+1])
		if !ok1 || !ok2 || (w[1] != "0" && w[1] != "1") {
			return "bad-op"
		}
		res.Nontrivial = len(data) > 0
		res.Sample = map[string]any{"op": w[0], "ctx": hasCtx, "dt": dt, "len": len(data), "dst": dstLen, "prefix": op[:min(len(op), 80)]}
		if hasCtx && lpc != 4 && !x {
			return "bad-op"
		}
		t, ctx := rolzNewFwd(x, hasCtx, dt, lpc)
		if t == nil {
			return "bad-codec"
		}
		o := trCall(t.Forward, data, dstLen)
		if o.panicMsg != "" {
			trViolate(res, fsite, "panic", o.panicMsg)
			res.Tags = append(res.Tags, w[0]+":panic")
			return "panic"
		}
		if o.inputMod {
			trViolate(res, fsite, "input-modified", "source buffer changed by the call")
		}
		if o.canary {
			trViolate(res, fsite, "dst-overrun", "bytes after dst[:len] were written")
		}
		if o.err != nil {
			cl := rolzFwdClass(o.err)
			res.Tags = append(res.Tags, w[0]+":declined:"+cl)
			if !x && hasCtx {
				if v, ok := (*ctx)["dataType"]; ok {
					return fmt.Sprintf("declined:%s ctx=%d", cl, reflectInt(v))
				}
				return "declined:" + cl + " ctx=-"
			}
			return "declined:" + cl
		}
		if int(o.written) > dstLen {
			trViolate(res, fsite, "written>len(dst)", fmt.Sprintf("written=%d len(dst)=%d", o.written, dstLen))
			return "overrun"
		}
		res.Tags = append(res.Tags, w[0]+":ok")
		maxLen := t.MaxEncodedLen(len(data))
		want := rolzMaxLen1(len(data))
		if x {
			want = rolzMaxLen2(len(data))
		}
		if maxLen != want {
			trViolate(res, "transform.ROLZCodec.MaxEncodedLen", "value", fmt.Sprintf("MaxEncodedLen(%d)=%d", len(data), maxLen))
		}
		inScope := len(data) > 0 && dstLen >= maxLen
		if inScope {
			if int(o.written) > maxLen || int(o.written) >= len(data) {
				trViolate(res, fsite, "output>MaxEncodedLen", fmt.Sprintf("written=%d max=%d len=%d", o.written, maxLen, len(data)))
			}
			if int(o.read) != len(data) {
				trViolate(res, fsite, "short-read", fmt.Sprintf("read=%d len=%d with nil error", o.read, len(data)))
			}
		}
		line := ""
		extras := []int{0, 1 + len(data)/16, 70000}
		if len(data) > 1<<22 {
			extras = []int{0, 4096}
		}
		mkInv := func() kanzi.ByteTransform {
			if !x && lpc != 4 {
				t, _ := transform.NewROLZCodec(uint(lpc))
				return t
			}
			return rolzNewInv(x, -1)
		}
		sfx := ""
		if !x && hasCtx {
			sfx = " ctx=-"
			if v, ok := (*ctx)["dataType"]; ok {
				sfx = fmt.Sprintf(" ctx=%d", reflectInt(v))
			}
		}
		for k, extra := range extras {
			b, lib := rolzCall(mkInv().Inverse, o.out, len(data)+extra)
			if k == 0 {
				var r2 Result
				line = rolzInvLine(&r2, isite, b, lib, len(data))
				if r2.Violation != nil && inScope {
					res.Violation = r2.Violation
				}
			}
			if !inScope {
				break
			}
			switch {
			case b.panicMsg != "":
				trViolate(res, isite, "panic", fmt.Sprintf("Inverse(Forward(x)) panics (dst=len+%d): %s", extra, b.panicMsg))
			case b.err != nil:
				trViolate(res, isite, "roundtrip-error", fmt.Sprintf("Inverse(Forward(x)) failed (dst=len+%d): %v", extra, b.err))
			case !bytes.Equal(b.out, data):
				trViolate(res, fsite, "roundtrip-mismatch", fmt.Sprintf("Inverse(Forward(x)) != x (dst=len+%d, got %d bytes, want %d)", extra, len(b.out), len(data)))
			case b.inputMod || b.canary:
				trViolate(res, isite, "buffer-integrity", "inverse modified its input or wrote past dst")
			}
		}
		if inScope && hasCtx && (x || lpc == 4) && len(data) <= 1<<22 {
			rolzFactoryOracle(res, name, dt, data, o.out)
		}
		return "ok " + rltOut(o.out) + " | inv " + line + sfx
	case "xi", "ri", "rj":
		if len(w) != 4 {
			return "bad-op"
		}
		ver, ok0 := atoi(w[1])
		dstLen, ok1 := atoi(w[2])
		data, ok2 := rolzDataDec(w[3])
		if !ok0 || !ok1 || !ok2 || ver > 100 {
			return "bad-op"
		}
		res.Nontrivial = len(data) > 0
		res.Sample = map[string]any{"op": w[0], "ver": ver, "len": len(data), "dst": dstLen, "prefix": op[:min(len(op), 80)]}
		o, lib := rolzCall(rolzNewInv(x, ver).Inverse, data, dstLen)
		line := rolzInvLine(res, isite, o, lib, dstLen)
		res.Tags = append(res.Tags, w[0]+":"+strings.Fields(line)[0])
		if f := strings.Fields(line); w[0] == "rj" && len(f) >= 2 && f[0] == "ok" {
			// ROLZ on forged input: class and length are compared, the decoded bytes are not (see the generator)
			line = "ok " + f[1] + " ~"
		}
		return line
	}
	return "bad-op"
}

func reflectInt(v any) int64 { return reflect.ValueOf(v).Int() }

// the sequence transform.New(ctx, name) must produce the same bytes as the codec and invert them
func rolzFactoryOracle(res *Result, name string, dt int, data, direct []byte) {
	site := "transform.New(" + name + ")"
	defer func() {
		if r := recover(); r != nil {
			trViolate(res, site, "panic", fmt.Sprint(r))
		}
	}()
	typ, err := transform.GetType(name)
	if err != nil {
		trViolate(res, site, "gettype", err.Error())
		return
	}
	mk := func() map[string]any {
		c := map[string]any{"transform": name, "bsVersion": uint(6), "blockSize": uint(len(data)), "size": uint(len(data)), "jobs": uint(1), "entropy": "NONE"}
		if dt >= 0 {
			c["dataType"] = rltDataType(dt)
		}
		return c
	}
	ctx := mk()
	seq, err := transform.New(&ctx, typ)
	if err != nil {
		trViolate(res, site, "constructor", err.Error())
		return
	}
	src := append([]byte{}, data...)
	dst := make([]byte, seq.MaxEncodedLen(len(src)))
	_, n, err := seq.Forward(src, dst)
	if err != nil || seq.SkipFlags()&0x80 != 0 || !bytes.Equal(dst[:n], direct) {
		trViolate(res, site, "factory-mismatch", fmt.Sprintf("sequence Forward differs from ROLZCodec.Forward (err=%v flags=%02x n=%d want %d)", err, seq.SkipFlags(), n, len(direct)))
		return
	}
	ctx2 := mk()
	seq2, _ := transform.New(&ctx2, typ)
	seq2.SetSkipFlags(seq.SkipFlags())
	back := make([]byte, len(data))
	_, m, err := seq2.Inverse(append([]byte{}, dst[:n]...), back)
	if err != nil || int(m) != len(data) || !bytes.Equal(back, data) {
		trViolate(res, site, "factory-roundtrip", fmt.Sprintf("sequence Inverse(Forward(x)) != x (err=%v m=%d)", err, m))
	}
}

// ------------------------------------------------------------------------------------------
// generators

func rolzRealForward(x bool, dt int, data []byte) ([]byte, bool) {
	if len(data) == 0 {
		return nil, false
	}
	t, _ := rolzNewFwd(x, true, dt, 4)
	dst := make([]byte, t.MaxEncodedLen(len(data)))
	var out []byte
	ok := false
	func() {
		defer func() { recover() }()
		_, n, err := t.Forward(append([]byte{}, data...), dst)
		if err == nil {
			out, ok = dst[:n], true
		}
	}()
	return out, ok
}

// periodic data: a unit of p bytes repeated, with a defect every `every` bytes (0 = none)
func rolzPeriodic(r *rand.Rand, n, p, every int) []byte {
	unit := gen.Random(r, p)
	b := make([]byte, n)
	for i := range b {
		b[i] = unit[i%p]
		if every > 0 && i%every == every-1 {
			b[i] ^= byte(1 + r.Intn(255))
		}
	}
	return b
}

// noise with copies of earlier segments of chosen lengths
func rolzCopies(r *rand.Rand, n int, lens []int, alpha int) []byte {
	b := make([]byte, 0, n+1024)
	for i := 0; i < 40+r.Intn(60); i++ {
		b = append(b, byte(r.Intn(alpha)))
	}
	for len(b) < n {
		l := lens[r.Intn(len(lens))]
		at := r.Intn(len(b))
		for k := 0; k < l; k++ {
			b = append(b, b[at+k]) // may overlap its own output
		}
		for k := r.Intn(12); k > 0; k-- {
			b = append(b, byte(r.Intn(alpha)))
		}
	}
	return b[:n]
}

// 3-byte words with pairwise distinct bytes, in order-3 de Bruijn cycles over k words with a fresh symbol
// permutation per cycle: pairs of words recur, triples do not (within the ring of remembered positions), so every
// match is exactly 3 bytes long and follows the previous one: one token per 3 bytes (finding: the token buffer of
// rolzCodec1 holds len/4 tokens)
func rolzWords3(r *rand.Rand, n, k int) []byte {
	var cyc []int
	a := make([]int, k*3)
	var db func(t, p int)
	db = func(t, p int) {
		if t > 3 {
			if 3%p == 0 {
				cyc = append(cyc, a[1:p+1]...)
			}
			return
		}
		a[t] = a[t-p]
		db(t+1, p)
		for j := a[t-p] + 1; j < k; j++ {
			a[t] = j
			db(t+1, t)
		}
	}
	db(1, 1)
	b := make([]byte, 0, n+3)
	for len(b) < n {
		perm := r.Perm(k)
		for _, c := range cyc {
			v := byte(perm[c])
			b = append(b, 65+v, 97+v, 48+v)
		}
	}
	return b[:n]
}

func rolzGen(r *rand.Rand, tier string, n int, emit func(op string, tags ...string)) {
	thorough := tier == "thorough"
	// one Forward op; x: ROLZX, else ROLZ with logPosChecks lpc (4 when a ctx is used)
	fw := func(x, hasCtx bool, dt, lpc int, b []byte, dst int, fam string) {
		c, d := "0", "-"
		if hasCtx {
			c = "1"
			lpc = 4
		}
		if dt >= 0 {
			d = strconv.Itoa(dt)
		}
		if x {
			emit(fmt.Sprintf("xf %s %s %d %s", c, d, dst, rltEnc(b)), "family:x/"+fam)
		} else {
			emit(fmt.Sprintf("rf %s %s %d %d %s", c, d, lpc, dst, rltEnc(b)), "family:r/"+fam)
		}
	}
	inv := func(x bool, ver int, b []byte, dst int, fam string) {
		if x {
			emit(fmt.Sprintf("xi %d %d %s", ver, dst, rltEnc(b)), "family:xi/"+fam)
		} else {
			// forged ROLZ input: the three ANS Reads of a chunk share one decoder object whose buffer keeps the bytes
			// of the previous Read; the model's ANS functions read zeros there (`C03_rolz_ans_stale_witness`), so
			// the decoded bytes of a forged input are not compared (op `rj`); class and length are
			op := "ri"
			if !strings.HasSuffix(fam, "-exact") && !strings.HasSuffix(fam, "-larger") && !strings.HasSuffix(fam, "-smaller") {
				op = "rj"
			}
			emit(fmt.Sprintf("%s %d %d %s", op, ver, dst, rltEnc(b)), "family:ri/"+fam)
		}
	}
	maxLen := func(x bool, l int) int {
		if x {
			return rolzMaxLen2(l)
		}
		return rolzMaxLen1(l)
	}
	// Inverse of the real Forward output: exact / larger / smaller destination, truncated, extended, mutated
	invFrom := func(x bool, b []byte, dt int, fam string) {
		enc, ok := rolzRealForward(x, dt, b)
		if !ok {
			return
		}
		vers := []int{6, 6, 6, 4, 3, 2}
		if !x {
			vers = []int{6, 6, 6, 4, 3, 3}
		}
		ver := vers[r.Intn(6)]
		inv(x, ver, enc, len(b), fam+"-exact")
		switch r.Intn(10) {
		case 0:
			inv(x, ver, enc, len(b)+1+r.Intn(100), fam+"-larger")
		case 1:
			inv(x, 6, enc, len(b)-1-r.Intn(min(len(b)-1, 70)), fam+"-smaller")
		case 2:
			m := append([]byte{}, enc...)
			m[5+r.Intn(len(m)-5)] ^= byte(1 << uint(r.Intn(8)))
			inv(x, 6, m, len(b)+r.Intn(2)*300, fam+"-bitflip")
		case 3:
			inv(x, ver, enc[:1+r.Intn(len(enc))], len(b), fam+"-truncated")
		case 4:
			inv(x, 6, append(append([]byte{}, enc...), gen.Random(r, 1+r.Intn(8))...), len(b), fam+"-extended")
		case 5:
			m := append([]byte{}, enc...)
			m[4] = []byte{0, 1, 2, 4, 8, 6, 12, 0x80, 0x40, 0x42, 0x20, 0x10, 0x90, byte(r.Intn(256))}[r.Intn(14)]
			inv(x, ver, m, len(b), fam+"-flags")
		case 6:
			m := append([]byte{}, enc...)
			nl := len(b) + []int{-1, 1, 2, 4, 5, 100, -40}[r.Intn(7)]
			if nl < 0 {
				nl = 0
			}
			m[0], m[1], m[2], m[3] = byte(nl>>24), byte(nl>>16), byte(nl>>8), byte(nl)
			inv(x, 6, m, len(b)+r.Intn(2)*200, fam+"-length")
		case 7:
			m := append([]byte{}, enc...)
			for k := 5 + r.Intn(len(m)-5); k < len(m); k++ {
				m[k] = byte(r.Intn(256))
			}
			inv(x, 6, m, len(b)+r.Intn(2)*4000, fam+"-tail-random")
		case 8:
			// the four section lengths of the first ROLZ chunk (bytes 5..20) / early coder bytes of ROLZX
			m := append([]byte{}, enc...)
			if len(m) > 21 {
				k := 5 + r.Intn(16)
				m[k] = []byte{0, 1, 0xFF, m[k] + 1, m[k] - 1}[r.Intn(5)]
			}
			inv(x, 6, m, len(b), fam+"-header")
		default:
			inv(x, ver, enc[:len(enc)-1-r.Intn(4)], len(b), fam+"-truncated-end")
		}
	}

	for _, x := range []bool{true, false} {
		// ---- 1. empty / tiny blocks and the minimum block length
		for _, l := range []int{0, 1, 2, 4, 5, 8, 12, 13, 62, 63, 64, 65, 66, 67, 68, 70, 71, 72, 73, 100, 128} {
			fw(x, true, -1, 4, bytes.Repeat([]byte{0x55}, l), maxLen(x, l), "tiny-equal")
			fw(x, false, -1, 4, gen.Text(r, l), maxLen(x, l), "tiny-text")
			fw(x, true, -1, 4, gen.Random(r, l), maxLen(x, l), "tiny-random")
			fw(x, true, 6, 4, gen.DNA(r, l), maxLen(x, l), "tiny-dna")
			fw(x, true, -1, 4, bytes.Repeat([]byte{7}, l), 0, "tiny-dst0")
			fw(x, true, -1, 4, bytes.Repeat([]byte{7}, l), maxLen(x, l)-1, "tiny-dst-1")
			fw(x, true, -1, 4, bytes.Repeat([]byte{7}, l), l, "tiny-dst=len")
		}
		// ---- 2. structured and random blocks
		cnt := 420
		nbig := 5
		if thorough {
			cnt, nbig = 6000, 80
		}
		if n > 0 {
			cnt = n
		}
		mlens := []int{1, 2, 3, 4, 5, 6, 7, 8, 9, 10, 11, 12, 15, 16, 17, 31, 32, 33, 64, 130, 137, 138, 250, 251, 252, 253, 254, 255, 256, 257, 258, 259, 260, 261, 262, 263, 264, 300, 511, 512, 513, 1000}
		for i := 0; i < cnt; i++ {
			sz := 64 + r.Intn(1<<uint(4+r.Intn(10)))
			if i < nbig {
				sz = 50000 + r.Intn(200000)
			}
			if i%11 == 0 {
				sz = []int{64, 65, 72, 76, 511, 512, 513, 16383, 16384, 16385, 16386, 16500, 17000}[r.Intn(13)]
			}
			if !x && i%40 == 1 {
				sz = []int{131071, 131072, 131073, 140000}[r.Intn(4)] // order-1 literals from 2^17 on
			}
			var b []byte
			fam := ""
			hasCtx := r.Intn(5) != 0
			dt := -1
			switch i % 18 {
			case 0:
				b, fam = gen.Text(r, sz), "text"
			case 1:
				b, fam = gen.RepText(r, sz), "reptext"
			case 2:
				b, fam = gen.DNA(r, sz), "dna-detected"
			case 3:
				b, fam, dt = gen.DNARepeats(r, sz), "dna-hint", 6
			case 4:
				b, fam, dt = gen.Exe(r, sz, r.Intn(2) == 0), "exe-hint", 3
			case 5:
				b, fam, dt = gen.Wave(r, sz, true), "wave-mm-hint", 2
			case 6:
				b, fam = gen.Runs(r, sz), "runs"
			case 7:
				p := []int{1, 2, 3, 4, 5, 7, 8, 9, 16, 255, 256, 257, 258, 259, 1000}[r.Intn(15)]
				b, fam = rolzPeriodic(r, sz, p, []int{0, 0, 97, 1000}[r.Intn(4)]), "periodic"
			case 8:
				b, fam = rolzCopies(r, sz, mlens, 256), "copies-256"
			case 9:
				b, fam = rolzCopies(r, sz, mlens, 2+r.Intn(6)), "copies-small-alpha"
			case 10:
				b, fam = gen.Random(r, sz), "random"
			case 11:
				b, fam = gen.Skewed(r, sz, 3, 2), "skewed"
			case 12:
				b, fam = gen.SmallAlpha(r, sz, 2+r.Intn(3)), "small-alpha"
			case 13:
				// any data with a wrong / other hint (DNA hint on text: minMatch 7, key2)
				b, fam, dt = gen.Text(r, sz), "text-wrong-hint", []int{6, 3, 2, 1, 4, 5, 7, 8, 9, 0}[r.Intn(10)]
			case 14:
				// random data with a compressible part: output size around the limits
				b = gen.Random(r, sz)
				k := r.Intn(sz)
				copy(b[k:], bytes.Repeat([]byte{byte(r.Intn(256))}, r.Intn(sz-k+1)))
				fam = "random+run"
			case 15:
				// long zero / equal regions: hash tag 0 and key 0 meet the cleared table entries
				b = rolzCopies(r, sz, []int{3, 4, 8, 300}, 2)
				for k := range b {
					if b[k] == 1 && r.Intn(3) > 0 {
						b[k] = 0
					}
				}
				fam = "zeros"
			case 16:
				// long literal runs (skip acceleration of ROLZ, literal lengths >= 31 / 159 / 16415) between repeats
				b = gen.Random(r, sz)
				seg := gen.Random(r, 20+r.Intn(300))
				for k := 0; k+len(seg) < sz; k += len(seg) + []int{1, 30, 31, 32, 70, 158, 159, 160, 700, 17000}[r.Intn(10)] {
					copy(b[k:], seg)
				}
				fam = "literal-runs"
			default:
				// one token per 3 bytes
				b, fam = rolzWords3(r, sz, 6+r.Intn(8)), "words3"
			}
			if dt >= 0 {
				hasCtx = true
			}
			lpc := 4
			if !x && !hasCtx && r.Intn(2) == 0 {
				lpc = 2 + r.Intn(7)
			}
			dst := maxLen(x, len(b))
			switch r.Intn(16) {
			case 0:
				dst, fam = dst-1, fam+"/dst-1"
			case 1:
				dst, fam = dst+1+r.Intn(64), fam+"/dst+"
			case 2:
				dst, fam = []int{0, 1, 5, len(b) / 2, len(b)}[r.Intn(5)], fam+"/dst-small"
			}
			fw(x, hasCtx, dt, lpc, b, dst, fam)
			if i%4 == 0 {
				invFrom(x, b, dt, strings.Split(fam, "/")[0])
			}
		}
		// ---- 3. incompressible data around the MaxEncodedLen switches and the destination margin
		for _, sz := range []int{500, 512, 513, 1000, 16000, 16384, 16385, 20000, 24576, 24577, 32768, 40000} {
			fw(x, true, -1, 4, gen.Random(r, sz), maxLen(x, sz), "incompressible")
			fw(x, false, -1, 4, gen.Random(r, sz+r.Intn(50)), maxLen(x, sz+50)+r.Intn(200), "incompressible")
		}
		// ---- 4. the token buffer of ROLZ (directed): words of 3 bytes
		for _, sz := range []int{64, 100, 200, 400, 1000, 3000} {
			for _, k := range []int{5, 8, 12} {
				fw(x, false, -1, 4, rolzWords3(r, sz, k), maxLen(x, sz), "words3-directed")
			}
		}
		// ---- 5. arbitrary inverse inputs
		icnt := 400
		if thorough {
			icnt = 6000
		}
		for l := 0; l <= 14; l++ {
			for _, d := range []int{0, 1, 5, 100} {
				inv(x, 6, bytes.Repeat([]byte{0}, l), d, "short")
				b := gen.Random(r, l)
				if l >= 4 {
					b[0], b[1], b[2], b[3] = 0, 0, 0, byte(1+r.Intn(100))
				}
				inv(x, []int{6, 3, 2}[r.Intn(3)], b, d, "short")
			}
		}
		for i := 0; i < icnt; i++ {
			sz := 13 + r.Intn(200)
			b := gen.Random(r, sz)
			if r.Intn(3) == 0 {
				for k := 5; k < sz; k++ {
					b[k] = []byte{0, 0, 0xFF, 0x80, byte(r.Intn(256))}[r.Intn(5)]
				}
			}
			dl := 1 + r.Intn(3000)
			b[0], b[1], b[2], b[3] = 0, 0, byte(dl>>8), byte(dl)
			b[4] = []byte{0, 0, 0, 4, 8, 1, byte(r.Intn(256))}[r.Intn(7)]
			if !x {
				b[4] = []byte{0x40, 0x40, 0x42, 0x44, 0x48, 0x41, 0x20, 0x80, 0x10, 0x90, byte(r.Intn(256))}[r.Intn(11)]
				if r.Intn(2) == 0 {
					// plausible section lengths
					l := []int{r.Intn(dl + 1), r.Intn(20), r.Intn(10), r.Intn(20)}
					if r.Intn(2) == 0 {
						l[3] = l[1] - 1
					}
					for k, v := range l {
						if 5+4*k+4 <= sz && v >= 0 {
							b[5+4*k], b[6+4*k], b[7+4*k], b[8+4*k] = 0, 0, byte(v>>8), byte(v)
						}
					}
				}
			}
			inv(x, []int{6, 6, 6, 4, 3, 2}[r.Intn(6)], b, dl+[]int{0, 0, 1, 100, -1}[r.Intn(5)], "arbitrary")
		}
	}
	// ---- 6. ROLZX around the chunk size (generated data; the op carries the generator parameters): the two
	// shapes repaired by 0db08cf (k*2^24 + 1..4: undecodable output; + 5..11: Forward fault) and their neighbours
	if thorough {
		// (word data: about 45 s per block in the Lean model)
		for _, sz := range []int{rolzChunk + 3, rolzChunk + 8, rolzChunk + 12} {
			emit(fmt.Sprintf("xf 1 - %d @2:%d:%d", rolzMaxLen2(sz), r.Intn(1000), sz), "family:x/chunk-boundary")
		}
	}
}
