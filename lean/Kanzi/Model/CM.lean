/-
Executable model of the context-mixing bit predictor `/repo/v2/entropy/CMPredictor.go`
(`NewCMPredictor`, `Get`, `Update`).  Core Lean only (linked into `kmodel`).

State = the fields of the Go struct, same names:

    c1, c2        byte               (Nat, < 256 on reachable states)
    ctx, runMask  int32              (Nat: they never become negative; the int32 addition
                                      `ctx += ctx` goes through the wrap function, see below)
    counter1      [256][]int32       rows of 257 entries   (Array (Array Int))
    counter2      [512][]int32       rows of 17 entries    (Array (Array Int))
    idx           int                (Int: `p >> 12`, used as a slice index)
    isBsVersion3  bool

Arithmetic.  Counters and every intermediate value are mathematical integers (`Int`); every Go
operation whose result type is `int32` is passed through a wrap function `w32`, every operation on
`int` through `wi`.  The model that stands for the Go code on amd64 is the instance
`w32 = wrap32`, `wi = wrap64` (two's complement wrap-around).  `Kanzi.C12.C12_cm_int32` proves that
on every reachable state all these wraps are the identity (so even a 32 bit `int` would do), i.e.
the Go arithmetic coincides with arithmetic in Z.  `x >> k` on a signed Go integer is the
arithmetic shift = floor division by `2^k` = `Int.shiftRight` (`>>>` on `Int`).  `p & 4095` on a
two's complement integer is `p mod 4096` with a non negative result = `Int.emod`.

Slice accesses.  `rd`/`wr` are total (a read out of range yields 0, a write out of range is a
no-op); the Go run-time panics of every index expression are the explicit predicates `cmGetOk` /
`cmUpdateOk`, and `cmGetF` / `cmUpdateF` return `none` exactly where the Go code would panic.
`Kanzi.C12.C12_cm_no_fault` proves they never do on reachable states.
-/

namespace Kanzi.CM

/-! ### two's complement wrap-around -/

/-- value of the low 32 bits of `x` read as a signed integer (Go `int32(...)` / int32 overflow).
The first branch is only a fast path for the compiled driver (it avoids big-number arithmetic):
the general formula is the identity there as well (`Kanzi.CM.wrap32_spec`). -/
def wrap32 (x : Int) : Int :=
  if -2147483648 ≤ x ∧ x ≤ 2147483647 then x else (x + 2147483648) % 4294967296 - 2147483648

/-- value of the low 64 bits of `x` read as a signed integer (Go `int` on 64 bit platforms);
same fast path as `wrap32` (`Kanzi.CM.wrap64_spec`) -/
def wrap64 (x : Int) : Int :=
  if -2147483648 ≤ x ∧ x ≤ 2147483647 then x
  else (x + 9223372036854775808) % 18446744073709551616 - 9223372036854775808

/-! ### tables -/

abbrev Table := Array (Array Int)

/-- `t[i][j]`, 0 when out of range (the range conditions are `cmGetOk` / `cmUpdateOk`) -/
@[inline] def rd (t : Table) (i j : Nat) : Int := (t.getD i #[]).getD j 0

/-- `t[i][j] = f(t[i][j])`, no-op when out of range -/
@[inline] def wr (t : Table) (i j : Nat) (f : Int → Int) : Table :=
  t.modify i (fun row => row.modify j f)

/-- length of row `i` (0 when there is no such row) -/
@[inline] def rowLen (t : Table) (i : Nat) : Nat := (t.getD i #[]).size

structure CM where
  c1 : Nat
  c2 : Nat
  ctx : Nat
  runMask : Nat
  counter1 : Table
  counter2 : Table
  idx : Int
  isBsVersion3 : Bool

/-! ### constants of the Go file -/

def fastRate : Nat := 2     -- _CM_FAST_RATE
def mediumRate : Nat := 4   -- _CM_MEDIUM_RATE
def slowRate : Nat := 6     -- _CM_SLOW_RATE
def pscale : Int := 65536   -- _CM_PSCALE

/-! ### NewCMPredictor -/

/-- one row of `counter2`: `j << 12` for `j < 16`, then `15 << 12` (bitstream version < 4) or 65535 -/
def row2Init (v3 : Bool) : Array Int :=
  ((List.range 16).map (fun j => ((j <<< 12 : Nat) : Int))).toArray.push (if v3 then ((15 <<< 12 : Nat) : Int) else 65535)

/-- the state built by `NewCMPredictor` when `isBsVersion3 = v3` (`bsVersion < 4`) -/
def cmInit (v3 : Bool) : CM :=
  { c1 := 0, c2 := 0, ctx := 1, runMask := 0,
    counter1 := Array.replicate 256 (Array.replicate 257 (pscale >>> 1)),
    counter2 := Array.replicate 512 (row2Init v3),
    idx := 0, isBsVersion3 := v3 }

/-- The `bsVersion` entry of the context map, as far as `NewCMPredictor` looks at it:
no map / no key, a `uint` value, or a value of any other dynamic type. -/
inductive BsArg where
  | absent
  | uint (v : Nat)
  | otherType

/-- `NewCMPredictor(ctx)`: `none` = the error "invalid bsVersion parameter type" -/
def cmNew : BsArg → Option CM
  | .absent => some (cmInit (decide (4 < 4)))
  | .uint v => some (cmInit (decide (v < 4)))
  | .otherType => none

/-! ### Get -/

/-- row of `counter2` selected by `this.ctx|this.runMask` -/
@[inline] def row2 (s : CM) : Nat := s.ctx ||| s.runMask

/-- `p := int(13*(pc1[256]+pc1[this.c1])+6*pc1[this.c2]) >> 5` -/
@[inline] def cmP (w32 wi : Int → Int) (s : CM) : Int :=
  let a := rd s.counter1 s.ctx 256
  let b := rd s.counter1 s.ctx s.c1
  let c := rd s.counter1 s.ctx s.c2
  wi (wi (w32 (w32 (13 * w32 (a + b)) + w32 (6 * c))) >>> 5)

/-- the two `return` expressions of `Get()`, from `p`, `x1 = pc2[idx]`, `x2 = pc2[idx+1]` -/
@[inline] def cmOut (wi : Int → Int) (v3 : Bool) (p x1 x2 : Int) : Int :=
  if v3 then
    -- ssep := x1 + (((x2 - x1) * (p & 4095)) >> 12);  return (p + 3*ssep + 32) >> 6
    let ssep := wi (x1 + wi (wi (wi (x2 - x1) * wi (p % 4096)) >>> 12))
    wi (wi (wi (p + wi (3 * ssep)) + 32) >>> 6)
  else
    -- return (p + p + 3*(x1+x2) + 64) >> 7
    wi (wi (wi (wi (p + p) + wi (3 * wi (x1 + x2))) + 64) >>> 7)

/-- `Get()`: the returned value (Go `int`) and the state after the call (`idx` is stored).  -/
def cmGetW (w32 wi : Int → Int) (s : CM) : Int × CM :=
  let p := cmP w32 wi s
  let idx := wi (p >>> 12)
  let x2 := wi (rd s.counter2 (row2 s) (wi (idx + 1)).toNat)
  let x1 := wi (rd s.counter2 (row2 s) idx.toNat)
  (cmOut wi s.isBsVersion3 p x1 x2, { s with idx := idx })

/-- every index expression of `Get()` is in range (in the order of evaluation: `counter2[ctx|runMask]`,
`counter1[ctx]`, `pc1[256]`, `pc1[c1]`, `pc1[c2]`, `pc2[idx+1]`, `pc2[idx]`) -/
def cmGetOkW (w32 wi : Int → Int) (s : CM) : Bool :=
  let idx := wi (cmP w32 wi s >>> 12)
  decide (row2 s < s.counter2.size) && decide (s.ctx < s.counter1.size) &&
  decide (256 < rowLen s.counter1 s.ctx) && decide (s.c1 < rowLen s.counter1 s.ctx) &&
  decide (s.c2 < rowLen s.counter1 s.ctx) &&
  decide (0 ≤ wi (idx + 1)) && decide ((wi (idx + 1)).toNat < rowLen s.counter2 (row2 s)) &&
  decide (0 ≤ idx) && decide (idx.toNat < rowLen s.counter2 (row2 s))

/-! ### Update -/

/-- bit 0: `x -= x >> rate` -/
@[inline] def dec0 (w32 : Int → Int) (rate : Nat) (x : Int) : Int := w32 (x - w32 (x >>> rate))

/-- bit 1: `x -= (x - _CM_PSCALE + 16) >> rate` -/
@[inline] def inc1 (w32 : Int → Int) (rate : Nat) (x : Int) : Int :=
  w32 (x - w32 (w32 (w32 (x - pscale) + 16) >>> rate))

@[inline] def adj (w32 : Int → Int) (bit : Bool) (rate : Nat) (x : Int) : Int :=
  if bit then inc1 w32 rate x else dec0 w32 rate x

/-- the tail of `Update`: `if this.ctx > 255 { c2 = c1; c1 = byte(ctx); ctx = 1; runMask = … }` -/
@[inline] def cmRoll (s : CM) : CM :=
  if s.ctx > 255 then
    let c1' := s.ctx % 256
    { s with c2 := s.c1, c1 := c1', ctx := 1, runMask := if c1' = s.c1 then 0x100 else 0 }
  else s

/-- `Update(bit)` (`bit = true` for every non zero byte; the codecs pass 0 or 1) -/
def cmUpdateW (w32 : Int → Int) (s : CM) (bit : Bool) : CM :=
  let t1 := wr s.counter1 s.ctx 256 (adj w32 bit fastRate)
  let t1 := wr t1 s.ctx s.c1 (adj w32 bit mediumRate)
  let t2 := wr s.counter2 (row2 s) s.idx.toNat (adj w32 bit slowRate)
  let t2 := wr t2 (row2 s) (s.idx + 1).toNat (adj w32 bit slowRate)
  let ctx' := (w32 (if bit then w32 ((s.ctx : Int) + 1) + s.ctx else (s.ctx : Int) + s.ctx)).toNat
  cmRoll { s with counter1 := t1, counter2 := t2, ctx := ctx' }

/-- every index expression of `Update` is in range (`counter2[ctx|runMask]`, `counter1[ctx]`, `pc1[256]`,
`pc1[c1]`, `pc2[idx]`, `pc2[idx+1]`; the writes do not change any length, so all conditions are
evaluated on the state at entry) -/
def cmUpdateOk (s : CM) : Bool :=
  decide (row2 s < s.counter2.size) && decide (s.ctx < s.counter1.size) &&
  decide (256 < rowLen s.counter1 s.ctx) && decide (s.c1 < rowLen s.counter1 s.ctx) &&
  decide (0 ≤ s.idx) && decide (s.idx.toNat < rowLen s.counter2 (row2 s)) &&
  decide (0 ≤ s.idx + 1) && decide ((s.idx + 1).toNat < rowLen s.counter2 (row2 s))

/-! ### the Go code (wrap-around arithmetic) and the ideal integer arithmetic -/

/-- `Get()` as the Go code computes it: returned `int` and new state -/
def cmGetZ (s : CM) : Int × CM := cmGetW wrap32 wrap64 s

/-- `Get()` with the result as a natural number (interface of the binary entropy coder) -/
def cmGet (s : CM) : Nat × CM := ((cmGetZ s).1.toNat, (cmGetZ s).2)

/-- `Update(bit)` as the Go code computes it -/
def cmUpdate (s : CM) (bit : Bool) : CM := cmUpdateW wrap32 s bit

def cmGetOk (s : CM) : Bool := cmGetOkW wrap32 wrap64 s

/-- `Get()` with the Go run-time panic (index out of range) as the outcome `none` -/
def cmGetF (s : CM) : Option (Int × CM) := if cmGetOk s then some (cmGetZ s) else none

/-- `Update(bit)` with the Go run-time panic (index out of range) as the outcome `none` -/
def cmUpdateF (s : CM) (bit : Bool) : Option CM := if cmUpdateOk s then some (cmUpdate s bit) else none

/-! ### a whole run: `p_i = Get(); Update(bit_i)` for every bit, as the binary entropy coder does -/

/-- the values returned by the successive `Get()` calls -/
def cmRun : CM → List Bool → List Nat
  | _, [] => []
  | s, b :: bs => (cmGet s).1 :: cmRun (cmUpdate (cmGet s).2 b) bs

/-- the state after the run -/
def cmRunState : CM → List Bool → CM
  | s, [] => s
  | s, b :: bs => cmRunState (cmUpdate (cmGet s).2 b) bs

/-- the same run with run-time panics: `none` as soon as an index is out of range, values as Go `int` -/
def cmRunF : CM → List Bool → Option (List Int)
  | _, [] => some []
  | s, b :: bs =>
    match cmGetF s with
    | none => none
    | some (p, s1) =>
      match cmUpdateF s1 b with
      | none => none
      | some s2 => (cmRunF s2 bs).map (p :: ·)

/-- the same functions over the integers, no wrap-around (used by the proofs) -/
def cmGetI (s : CM) : Int × CM := cmGetW id id s
def cmUpdateI (s : CM) (bit : Bool) : CM := cmUpdateW id s bit

end Kanzi.CM
