package main

import (
	"bytes"
	"fmt"
	"io"
	"math/rand"

	kio "github.com/flanglet/kanzi-go/v2/io"
	"scratch/gen"
)

type sinkBuf struct{ bytes.Buffer }

func (*sinkBuf) Close() error { return nil }

type rc struct{ io.Reader }

func (rc) Close() error { return nil }

func main() {
	r := rand.New(rand.NewSource(1))
	data := gen.Text(r, 6*1024)
	var sb sinkBuf
	w, _ := kio.NewWriter(&sb, "NONE", "NONE", 1024, 1, 32, 2*1024, false) // hint says 2 blocks, 6 written
	w.Write(data)
	w.Close()
	comp := append([]byte{}, sb.Bytes()...)
	comp[len(comp)-2500] ^= 0x10 // somewhere in block 4
	rd, _ := kio.NewReader(rc{bytes.NewReader(comp)}, 4)
	buf := make([]byte, 500)
	total := 0
	for i := 0; i < 30; i++ {
		n, err := func() (n int, err error) {
			defer func() {
				if r := recover(); r != nil {
					err = fmt.Errorf("ESCAPED PANIC: %v", r)
				}
			}()
			return rd.Read(buf)
		}()
		total += n
		if err != nil {
			fmt.Println("call", i, "n", n, "total", total, "err", err)
			if err == io.EOF {
				break
			}
		}
	}
}
