/-
`text` slice: Forward never faults (no index / slice out of range, no nil slice, model fuel sufficient), for
any block, any destination size, any ctx.
-/
import Kanzi.Proofs.TextDict
import Kanzi.Proofs.AliasBase

namespace Kanzi.Text
open Kanzi.RLT (Out Res wr fq histogram detectSimpleType)

/-! ## the block analysis: an accepted block contains a byte that is not a space -/

theorem or80_and80 (x : Nat) : (MASK_NOT_TEXT ||| x) &&& MASK_NOT_TEXT ≠ 0 := by
  rw [Nat.and_or_distrib_right]
  have : MASK_NOT_TEXT &&& MASK_NOT_TEXT = 0x80 := by decide
  rw [this]
  have := @Nat.left_le_or 0x80 (x &&& MASK_NOT_TEXT)
  omega

theorem detectTextType_bit (f0 f1 : Array Nat) (count : Nat) : detectTextType f0 f1 count &&& MASK_NOT_TEXT ≠ 0 := by
  unfold detectTextType
  have h0 : MASK_NOT_TEXT &&& MASK_NOT_TEXT ≠ 0 := by decide
  simp only
  split
  · exact or80_and80 _
  · split
    · exact h0
    · split
      · exact h0
      · split
        · exact or80_and80 _
        · exact h0

theorem foldl_add_pos (f : Nat → Nat) : ∀ (l : List Nat) (s0 : Nat),
    l.foldl (fun s i => s + f i) s0 > s0 → ∃ i ∈ l, f i > 0
  | [], s0, h => by simp at h
  | i :: l, s0, h => by
    rw [List.foldl_cons] at h
    by_cases hi : f i > 0
    · exact ⟨i, List.mem_cons_self .., hi⟩
    · have : s0 + f i = s0 := by omega
      rw [this] at h
      obtain ⟨j, hj, hf⟩ := foldl_add_pos f l s0 h
      exact ⟨j, List.mem_cons_of_mem _ hj, hf⟩

/-- a block that `computeTextStats` accepts as text contains a letter, a CR or a LF -/
theorem accepted_nonspace (strict : Bool) (src : List Nat) (h4 : 4 ≤ src.length)
    (h : computeStats strict src &&& MASK_NOT_TEXT = 0) : ∃ c ∈ src, c ≠ 32 := by
  unfold computeStats at h
  split at h
  · exact absurd h (by decide)
  · simp only at h
    split at h
    · exact absurd h (detectTextType_bit _ _ _)
    · rename_i hnt
      have hnt' : notText strict (histogram src) src.length = false := by simpa using hnt
      unfold notText at hnt'
      simp only at hnt'
      split at hnt'
      · exact absurd hnt' (by decide)
      · have h1 : ¬ (fq (histogram src) CR + fq (histogram src) LF + sumIf (histogram src) isText 128 <
            src.length / 4) := by
          intro hlt
          have : decide (fq (histogram src) CR + fq (histogram src) LF + sumIf (histogram src) isText 128 <
            src.length / 4) = true := decide_eq_true hlt
          rw [this] at hnt'
          simp at hnt'
        have hpos : fq (histogram src) CR + fq (histogram src) LF + sumIf (histogram src) isText 128 > 0 := by
          omega
        have key : ∃ c, c < 256 ∧ c ≠ 32 ∧ fq (histogram src) c > 0 := by
          by_cases hcr : fq (histogram src) CR > 0
          · exact ⟨CR, by decide, by decide, hcr⟩
          · by_cases hlf : fq (histogram src) LF > 0
            · exact ⟨LF, by decide, by decide, hlf⟩
            · have hs : sumIf (histogram src) isText 128 > 0 := by omega
              unfold sumIf at hs
              obtain ⟨i, hi, hf⟩ := foldl_add_pos (fq (histogram src)) _ 0 hs
              rw [List.mem_filter, List.mem_range] at hi
              refine ⟨i, by omega, ?_, hf⟩
              intro e
              rw [e] at hi
              exact absurd hi.2 (by decide)
        obtain ⟨c, hc, hne, hf⟩ := key
        refine ⟨c, ?_, hne⟩
        rw [Kanzi.Alias.fq_histogram src c hc] at hf
        exact List.count_pos_iff.mp hf

/-! ## emitSymbols stays within the bound -/

theorem lenIdx_eq (idx : Nat) :
    (if idx ≥ THRESHOLD2 then 3 else if idx < THRESHOLD1 then 1 else 2) = (wordIndex1 idx).length := by
  rw [wordIndex1_length]
  have h1 : THRESHOLD1 = 128 := rfl
  have h2 : THRESHOLD2 = 16384 := rfl
  rw [h1, h2]
  by_cases c1 : idx < 128
  · rw [if_neg (by omega), if_pos c1, if_pos c1]
  · by_cases c2 : idx < 16384
    · rw [if_neg (by omega), if_neg c1, if_neg c1, if_pos c2]
    · rw [if_pos (by omega), if_neg c1, if_neg c2]

theorem emitSymbols1_size (crlf : Bool) (ssz dstEnd : Nat) : ∀ (bs : List Nat) (out o : Array Nat),
    emitSymbols1 crlf ssz dstEnd bs out = some o → out.size ≤ dstEnd → o.size ≤ dstEnd
  | [], out, o, h, hb => by
    unfold emitSymbols1 at h
    cases h; exact hb
  | cur :: rest, out, o, h, hb => by
    unfold emitSymbols1 at h
    by_cases c0 : out.size ≥ dstEnd
    · rw [if_pos c0] at h; cases h
    · rw [if_neg c0] at h
      by_cases c1 : cur = ESCAPE_TOKEN1 ∨ cur = ESCAPE_TOKEN2
      · rw [if_pos c1] at h
        simp only at h
        generalize (if cur = ESCAPE_TOKEN1 then ssz - 1 else ssz - 2) = idx at h
        rw [lenIdx_eq] at h
        by_cases c2 : out.size + 1 + (wordIndex1 idx).length ≥ dstEnd
        · rw [if_pos c2] at h; cases h
        · rw [if_neg c2] at h
          refine emitSymbols1_size crlf ssz dstEnd rest _ o h ?_
          rw [size_appendList, Array.size_push]; omega
      · rw [if_neg c1] at h
        by_cases c3 : cur = CR ∧ crlf = true
        · rw [if_pos c3] at h
          exact emitSymbols1_size crlf ssz dstEnd rest _ o h hb
        · rw [if_neg c3] at h
          refine emitSymbols1_size crlf ssz dstEnd rest _ o h ?_
          rw [Array.size_push]; omega

theorem sym2_length (crlf : Bool) (c : Nat) : (sym2 crlf c).length ≤ 2 := by
  unfold sym2
  by_cases c1 : c = ESCAPE_TOKEN1
  · rw [if_pos c1]; exact Nat.le_refl _
  · rw [if_neg c1]
    by_cases c2 : c = CR
    · rw [if_pos c2]; cases crlf <;> simp
    · rw [if_neg c2]
      by_cases c3 : c ≥ 0x80
      · rw [if_pos c3]; exact Nat.le_refl _
      · rw [if_neg c3]; simp

theorem flatMap_sym2_length (crlf : Bool) : ∀ bs : List Nat, (bs.flatMap (sym2 crlf)).length ≤ 2 * bs.length
  | [] => by simp
  | c :: bs => by
    rw [List.flatMap_cons, List.length_append, List.length_cons]
    have := sym2_length crlf c
    have := flatMap_sym2_length crlf bs
    omega

theorem emitSymbols2Slow_size (crlf : Bool) (dstEnd : Nat) : ∀ (bs : List Nat) (out o : Array Nat),
    emitSymbols2Slow crlf dstEnd bs out = some o → out.size ≤ dstEnd → o.size ≤ dstEnd
  | [], out, o, h, hb => by
    unfold emitSymbols2Slow at h
    cases h; exact hb
  | cur :: rest, out, o, h, hb => by
    unfold emitSymbols2Slow at h
    by_cases c1 : cur = ESCAPE_TOKEN1
    · rw [if_pos c1] at h
      by_cases c2 : out.size + 1 ≥ dstEnd
      · rw [if_pos c2] at h; cases h
      · rw [if_neg c2] at h
        refine emitSymbols2Slow_size crlf dstEnd rest _ o h ?_
        rw [Array.size_push, Array.size_push]; omega
    · rw [if_neg c1] at h
      by_cases c2 : cur = CR
      · rw [if_pos c2] at h
        by_cases c3 : crlf = true
        · rw [if_pos c3] at h
          exact emitSymbols2Slow_size crlf dstEnd rest _ o h hb
        · rw [if_neg c3] at h
          by_cases c4 : out.size ≥ dstEnd
          · rw [if_pos c4] at h; cases h
          · rw [if_neg c4] at h
            refine emitSymbols2Slow_size crlf dstEnd rest _ o h ?_
            rw [Array.size_push]; omega
      · rw [if_neg c2] at h
        by_cases c3 : cur ≥ 0x80
        · rw [if_pos c3] at h
          by_cases c4 : out.size ≥ dstEnd
          · rw [if_pos c4] at h; cases h
          · rw [if_neg c4] at h
            by_cases c5 : out.size + 1 ≥ dstEnd
            · rw [if_pos c5] at h; cases h
            · rw [if_neg c5] at h
              refine emitSymbols2Slow_size crlf dstEnd rest _ o h ?_
              rw [Array.size_push, Array.size_push]; omega
        · rw [if_neg c3] at h
          by_cases c4 : out.size ≥ dstEnd
          · rw [if_pos c4] at h; cases h
          · rw [if_neg c4] at h
            refine emitSymbols2Slow_size crlf dstEnd rest _ o h ?_
            rw [Array.size_push]; omega

theorem emitSymbols_size (tc2 crlf : Bool) (ssz dstEnd : Nat) (bs : List Nat) (out o : Array Nat)
    (h : emitSymbols tc2 crlf ssz dstEnd bs out = some o) (hb : out.size ≤ dstEnd) : o.size ≤ dstEnd := by
  unfold emitSymbols at h
  cases tc2
  · simp only [Bool.false_eq_true, if_false] at h
    exact emitSymbols1_size crlf ssz dstEnd bs out o h hb
  · simp only [if_true] at h
    unfold emitSymbols2 at h
    by_cases hfast : 2 * bs.length < dstEnd - out.size
    · rw [if_pos hfast] at h
      cases h
      rw [size_appendList]
      have := flatMap_sym2_length crlf bs
      omega
    · rw [if_neg hfast] at h
      exact emitSymbols2Slow_size crlf dstEnd bs out o h hb

/-! ## the leading spaces -/

theorem wr_ok (dstLen : Nat) (out : Array Nat) (bs : List Nat) (h : out.size + bs.length ≤ dstLen) :
    wr dstLen out bs = .ok (out ++ bs) := by
  unfold Kanzi.RLT.wr
  rw [if_pos (Or.inr h)]

theorem leadSpaces_spec (a : Array Nat) (dstLen k : Nat) (hk : k < a.size) (hks : a.getD k 0 ≠ 32)
    (hd : a.size ≤ dstLen) : ∀ (f i : Nat) (out : Array Nat), i ≤ k → a.size < f + i → out.size = i + 1 →
      ∃ p o, leadSpaces a dstLen f i out = .ok (p, o) ∧ i ≤ p ∧ p ≤ k ∧ a.getD p 0 ≠ 32 ∧ o.size = p + 1
  | 0, i, out, hik, hf, _ => by omega
  | f + 1, i, out, hik, hf, ho => by
    unfold leadSpaces
    by_cases c : i < a.size ∧ a.getD i 0 = 32
    · rw [if_pos c]
      have hne : i ≠ k := fun e => hks (e ▸ c.2)
      rw [wr_ok dstLen out [32] (by simp only [List.length_cons, List.length_nil]; omega)]
      simp only [Kanzi.RLT.Out.bind]
      obtain ⟨p, o, h1, h2, h3, h4, h5⟩ := leadSpaces_spec a dstLen k hk hks hd f (i + 1) (out ++ [32])
        (by omega) (by omega) (by rw [size_appendList]; simp only [List.length_cons, List.length_nil]; omega)
      exact ⟨p, o, h1, by omega, h3, h4, h5⟩
    · rw [if_neg c]
      refine ⟨i, out, rfl, Nat.le_refl _, hik, ?_, ho⟩
      intro e
      exact c ⟨by omega, e⟩

/-! ## dictionary look-up -/

theorem findEntry_some (d : Dict) (h k : Nat) (e : findEntry d h = some k) : d.map.getD (h % d.hsz) 0 = k + 1 := by
  unfold findEntry at e
  simp only at e
  by_cases c : d.map.getD (h % d.hsz) 0 = 0
  · rw [if_pos c] at e; cases e
  · rw [if_neg c] at e
    cases e; omega

theorem hit_some (d : Dict) (k h n : Nat) (e : hit d (some k) h n = true) :
    (entryAt d k).hash = h ∧ (entryAt d k).len = n := by
  unfold hit at e
  simpa using e

theorem hit_none (d : Dict) (h n : Nat) : hit d none h n = false := rfl

/-- an entry reached through the map with a word length >= 2 has its text -/
theorem entry_ptr_of_map (d : Dict) (words h k n : Nat) (hd : DictOK d words) (e : findEntry d h = some k)
    (hl : (entryAt d k).len = n) (hn : 2 ≤ n) : ∃ w, (entryAt d k).ptr = some w ∧ w.length = n ∧
      (entryAt d k).hash = hashWord w ∧ ∀ b ∈ w, isText b = true := by
  have hm := findEntry_some d h k e
  obtain ⟨hk, _⟩ := hd.map _ _ hm
  have he := hd.entry k hk
  unfold EntryOK at he
  cases hp : (entryAt d k).ptr with
  | none => rw [hp] at he; simp only at he; omega
  | some w =>
    rw [hp] at he
    simp only at he
    exact ⟨w, rfl, by omega, (he.2.2 (by omega)).1, (he.2.2 (by omega)).2⟩

/-- the candidate entry of Forward's look-up is reached through the map and has the word's length -/
theorem fwdLookup_ok (d : Dict) (words : Nat) (word : List Nat) (hd : DictOK d words) (hl : 2 ≤ word.length) :
    ∃ r, fwdLookup d word = .ok r ∧ ∀ k, r.1 = some k → (entryAt d k).len = word.length := by
  unfold fwdLookup
  simp only
  generalize hc : (if hit d (findEntry d (hashWord word)) (hashWord word) word.length = true then
      findEntry d (hashWord word)
    else if hit d (findEntry d (hashWord (flipFirst word))) (hashWord (flipFirst word)) word.length = true then
      findEntry d (hashWord (flipFirst word)) else none) = cand
  cases cand with
  | none => exact ⟨_, rfl, fun k hk => by simp at hk⟩
  | some k =>
    have hk : ∃ h, findEntry d h = some k ∧ hit d (some k) h word.length = true := by
      by_cases c1 : hit d (findEntry d (hashWord word)) (hashWord word) word.length = true
      · rw [if_pos c1] at hc
        exact ⟨_, hc, by rw [← hc]; exact c1⟩
      · rw [if_neg c1] at hc
        by_cases c2 : hit d (findEntry d (hashWord (flipFirst word))) (hashWord (flipFirst word)) word.length = true
        · rw [if_pos c2] at hc
          exact ⟨_, hc, by rw [← hc]; exact c2⟩
        · rw [if_neg c2] at hc; cases hc
    obtain ⟨h, hf, hh⟩ := hk
    have hlen := (hit_some d k h _ hh).2
    obtain ⟨w, hw, _, _, _⟩ := entry_ptr_of_map d words h k _ hd hf hlen hl
    simp only [hw]
    by_cases cs : sameTail w word = true
    · rw [if_pos cs]; exact ⟨_, rfl, fun k' hk' => by cases hk'; exact hlen⟩
    · rw [if_neg cs]; exact ⟨_, rfl, fun k' hk' => by simp at hk'⟩

/-! ## the main loop of Forward -/

theorem extract_length (src : Array Nat) (ws i : Nat) (hi : i ≤ src.size) :
    (src.extract ws i).toList.length = i - ws := by
  rw [Array.length_toList, Array.size_extract]; omega

theorem extract_mem (src : Array Nat) (ws i b : Nat) (hi : i ≤ src.size) (hb : b ∈ (src.extract ws i).toList) :
    ∃ k, ws ≤ k ∧ k < i ∧ b = src.getD k 0 := by
  rw [List.mem_iff_getElem] at hb
  obtain ⟨n, hn, e⟩ := hb
  have hn' : n < i - ws := by rw [extract_length src ws i hi] at hn; exact hn
  refine ⟨ws + n, by omega, by omega, ?_⟩
  rw [← e, Array.getElem_toList, Array.getElem_extract]
  rw [Array.getD_eq_getD_getElem?, Array.getElem?_eq_getElem (by omega)]
  rfl

/-- invariant of the loop of Forward at a loop head -/
structure FInv (src : Array Nat) (dstEnd : Nat) (s : FSt) : Prop where
  i_le : s.i ≤ src.size
  ea_le_i : s.ea ≤ s.i
  ea_le_ws : s.ea ≤ s.ws
  ws_le : s.ws ≤ s.i + 1
  out_le : s.out.size ≤ dstEnd
  dict : DictOK s.d s.words
  text : ∀ k, s.ws ≤ k → k < s.i → isText (src.getD k 0) = true

theorem fwdToken_ok (tc2 : Bool) (dstLen : Nat) (o : Array Nat) (via : Bool) (idx : Nat)
    (h : o.size + 4 ≤ dstLen) :
    ∃ o2, fwdToken tc2 dstLen o via idx = .ok o2 ∧ o2.size ≤ o.size + 4 := by
  unfold fwdToken
  cases tc2
  · simp only [Bool.false_eq_true, if_false]
    have hl : ((if via = true then ESCAPE_TOKEN1 else ESCAPE_TOKEN2) :: wordIndex1 idx).length ≤ 4 := by
      rw [List.length_cons, wordIndex1_length]
      by_cases c1 : idx < 128
      · rw [if_pos c1]; omega
      · rw [if_neg c1]
        by_cases c2 : idx < 16384
        · rw [if_pos c2]; omega
        · rw [if_neg c2]; omega
    rw [wr_ok _ _ _ (by omega)]
    exact ⟨_, rfl, by rw [size_appendList]; omega⟩
  · simp only [if_true]
    have hl : ((if via = true then [] else [MASK_FLIP_CASE]) ++ wordIndex2 idx).length ≤ 4 := by
      rw [List.length_append, wordIndex2_length]
      have h1 : (if via = true then ([] : List Nat) else [MASK_FLIP_CASE]).length ≤ 1 := by
        cases via <;> simp
      by_cases c1 : idx + 1 < 64
      · rw [if_pos c1]; omega
      · rw [if_neg c1]
        by_cases c2 : idx + 1 < 8192
        · rw [if_pos c2]; omega
        · rw [if_neg c2]; omega
    rw [wr_ok _ _ _ (by omega)]
    exact ⟨_, rfl, by rw [size_appendList]; omega⟩

theorem emitPending_total (tc2 crlf : Bool) (ssz dstEnd : Nat) (src : Array Nat) (ea ws : Nat) (out : Array Nat)
    (h1 : ea ≤ ws) (h2 : out.size ≤ dstEnd) :
    (∃ e, emitPending tc2 crlf ssz dstEnd src ea ws out = .err e) ∨
    (∃ o, emitPending tc2 crlf ssz dstEnd src ea ws out = .ok o ∧ o.size ≤ dstEnd) := by
  unfold emitPending
  by_cases c2 : ea + 1 ≠ ws ∨ src.getD (ws - 1) 0 ≠ 32
  · rw [if_pos c2, if_neg (by omega), if_neg (by omega)]
    cases he : emitSymbols tc2 crlf ssz dstEnd (src.extract ea ws).toList out with
    | none => exact Or.inl ⟨_, rfl⟩
    | some o => exact Or.inr ⟨o, rfl, emitSymbols_size _ _ _ _ _ _ _ he h2⟩
  · rw [if_neg c2]; exact Or.inr ⟨_, rfl, h2⟩

/-- one delimiter of Forward: no fault; on success the state is again well formed -/
theorem fwdWord_total (tc2 : Bool) (src : Array Nat) (dstLen dstEnd : Nat) (crlf : Bool) (s : FSt) (c : Nat)
    (hi : s.i < src.size) (hde : dstEnd ≤ dstLen) (hinv : FInv src dstEnd s) :
    (∃ e, fwdWord tc2 src dstLen dstEnd crlf s c = .err e) ∨
    (∃ s', fwdWord tc2 src dstLen dstEnd crlf s c = .ok s' ∧ s'.i = s.i ∧ s'.ea ≤ s.i ∧
      s'.out.size ≤ dstEnd ∧ DictOK s'.d s'.words) := by
  unfold fwdWord
  simp only
  by_cases c0 : s.i ≥ s.ws + 2 ∧ isDelimiter c = true ∧ s.i - s.ws ≤ MAX_WORD_LENGTH
  · rw [if_pos c0]
    have hlen : (src.extract s.ws s.i).toList.length = s.i - s.ws := extract_length src s.ws s.i (by omega)
    have htext : ∀ b ∈ (src.extract s.ws s.i).toList, isText b = true := by
      intro b hb
      obtain ⟨k, h1, h2, e⟩ := extract_mem src s.ws s.i b (by omega) hb
      rw [e]; exact hinv.text k h1 h2
    obtain ⟨r, hr, hrlen⟩ := fwdLookup_ok s.d s.words _ hinv.dict (by rw [hlen]; omega)
    rw [hr]
    simp only
    cases hr1 : r.1 with
    | none =>
      simp only
      by_cases c1 : (s.i - s.ws > 3 ∨ s.i - s.ws = 3 ∧ s.words < THRESHOLD2) ∧ r.2 = none
      · rw [if_pos c1]
        obtain ⟨d', w', hl, hok, _, _⟩ := learn_ok s.d s.words _ hinv.dict htext
        rw [hl]
        exact Or.inr ⟨_, rfl, rfl, hinv.ea_le_i, hinv.out_le, hok⟩
      · rw [if_neg c1]
        exact Or.inr ⟨_, rfl, rfl, hinv.ea_le_i, hinv.out_le, hinv.dict⟩
    | some k =>
      simp only
      have hk := hrlen k hr1
      have hem := emitPending_total tc2 crlf s.d.ssz dstEnd src s.ea s.ws s.out hinv.ea_le_ws hinv.out_le
      rcases hem with ⟨e, he⟩ | ⟨o, ho, hos⟩
      · rw [he]; exact Or.inl ⟨_, rfl⟩
      · rw [ho]
        simp only
        by_cases c3 : o.size + (if tc2 = true then 3 else 4) ≥ dstEnd
        · rw [if_pos c3]; exact Or.inl ⟨_, rfl⟩
        · rw [if_neg c3]
          have hroom : o.size + 4 ≤ dstEnd := by
            cases tc2 <;> simp at c3 <;> omega
          obtain ⟨o2, ht, hs2⟩ := fwdToken_ok tc2 dstLen o (decide (r.2 = some k))
            ((entryAt s.d k).idx % (MASK_LENGTH + 1)) (by omega)
          rw [ht]
          refine Or.inr ⟨_, rfl, rfl, ?_, by simp only; omega, hinv.dict⟩
          simp only
          rw [hk, hlen]; have := hinv.ws_le; omega
  · rw [if_neg c0]
    exact Or.inr ⟨_, rfl, rfl, hinv.ea_le_i, hinv.out_le, hinv.dict⟩

/-- the main loop of Forward: no fault, and the final state is well formed with `srcIdx = len(src)` -/
theorem fwdLoop_total (tc2 : Bool) (src : Array Nat) (dstLen dstEnd : Nat) (crlf : Bool) (hde : dstEnd ≤ dstLen) :
    ∀ (f : Nat) (s : FSt), FInv src dstEnd s → src.size < f + s.i →
      (∃ e, fwdLoop tc2 src dstLen dstEnd crlf f s = .err e) ∨
      (∃ s', fwdLoop tc2 src dstLen dstEnd crlf f s = .ok s' ∧ FInv src dstEnd s' ∧ s'.i = src.size)
  | 0, s, hinv, hf => by have := hinv.i_le; omega
  | f + 1, s, hinv, hf => by
    unfold fwdLoop
    simp only
    by_cases c0 : s.i < src.size
    · rw [if_pos c0]
      by_cases c1 : isText (src.getD s.i 0) = true
      · rw [if_pos c1]
        refine fwdLoop_total tc2 src dstLen dstEnd crlf hde f _ ?_ (by simp only; omega)
        refine ⟨by simp only; omega, by have := hinv.ea_le_i; simp only; omega, hinv.ea_le_ws,
          by have := hinv.ws_le; simp only; omega, hinv.out_le, hinv.dict, ?_⟩
        intro k hk1 hk2
        by_cases hk : k = s.i
        · rw [hk]; exact c1
        · exact hinv.text k hk1 (by simp only at hk2; omega)
      · rw [if_neg c1]
        rcases fwdWord_total tc2 src dstLen dstEnd crlf s (src.getD s.i 0) c0 hde hinv with
          ⟨e, he⟩ | ⟨s', hs', h1, h2, h3, h4⟩
        · rw [he]; exact Or.inl ⟨_, rfl⟩
        · rw [hs']
          simp only
          refine fwdLoop_total tc2 src dstLen dstEnd crlf hde f _ ?_ (by simp only; omega)
          exact ⟨by simp only; omega, by simp only; omega, by simp only; omega, by simp only; omega, h3, h4,
            fun k hk1 hk2 => by simp only at hk1 hk2; omega⟩
    · rw [if_neg c0]
      exact Or.inr ⟨s, rfl, hinv, by have := hinv.i_le; omega⟩

theorem fwdFinish_total (tc2 : Bool) (src : Array Nat) (dstEnd : Nat) (crlf : Bool) (s : FSt)
    (hinv : FInv src dstEnd s) :
    (∃ e, fwdFinish tc2 src dstEnd crlf s = .err e) ∨
    (∃ o, fwdFinish tc2 src dstEnd crlf s = .ok o ∧ o.length ≤ dstEnd) := by
  unfold fwdFinish
  rw [if_neg (by have := hinv.ea_le_i; have := hinv.i_le; omega), if_neg (by have := hinv.out_le; omega)]
  cases he : emitSymbols tc2 crlf s.d.ssz dstEnd (src.extract s.ea src.size).toList s.out with
  | none => exact Or.inl ⟨_, rfl⟩
  | some o =>
    simp only
    by_cases c : s.i ≠ src.size
    · rw [if_pos c]; exact Or.inl ⟨_, rfl⟩
    · rw [if_neg c]
      exact Or.inr ⟨_, rfl, by rw [Array.length_toList]; exact emitSymbols_size _ _ _ _ _ _ _ he hinv.out_le⟩

/-- `textCodec{1,2}.Forward` on a block of at least 4 bytes: an error (decline) or an output of at most
    `len(src)` bytes; never a fault -/
theorem codecForwardS_total (sw : Nat) (sd : Array Entry) (hs : StaticOK sw sd) (tc2 : Bool) (hsz dt : Nat)
    (hpos : 0 < hsz) (src : List Nat) (dstLen : Nat) (h4 : 4 ≤ src.length) :
    (∃ e, codecForwardS sw sd tc2 hsz dt src dstLen = .err e) ∨
    (∃ o, codecForwardS sw sd tc2 hsz dt src dstLen = .ok o ∧ o.length ≤ src.length) := by
  unfold codecForwardS
  by_cases c0 : dstLen < src.length
  · rw [if_pos c0]; exact Or.inl ⟨_, rfl⟩
  · rw [if_neg c0]
    by_cases c1 : dt ≠ 0 ∧ dt ≠ DT_TEXT ∧ dt ≠ Kanzi.RLT.DT_BIN
    · rw [if_pos c1]; exact Or.inl ⟨_, rfl⟩
    · rw [if_neg c1]
      simp only
      by_cases c2 : computeStats (!tc2) src &&& MASK_NOT_TEXT ≠ 0
      · rw [if_pos c2]; exact Or.inl ⟨_, rfl⟩
      · rw [if_neg c2]
        have hacc : computeStats (!tc2) src &&& MASK_NOT_TEXT = 0 := by omega
        obtain ⟨c, hc, hne⟩ := accepted_nonspace (!tc2) src h4 hacc
        obtain ⟨k, hk, e⟩ := List.mem_iff_getElem.mp hc
        have hka : k < src.toArray.size := by simpa using hk
        have hks : src.toArray.getD k 0 ≠ 32 := by
          rw [Array.getD_eq_getD_getElem?, Array.getElem?_eq_getElem hka]
          simpa [e] using hne
        have hsize : src.toArray.size = src.length := by simp
        unfold codecForwardLoopS
        simp only
        rw [wr_ok dstLen #[] [computeStats (!tc2) src] (by simp; omega)]
        simp only [Kanzi.RLT.Out.bind]
        obtain ⟨p, o, hl, _, hp2, hp3, hp4⟩ := leadSpaces_spec src.toArray dstLen k hka hks (by omega)
          (src.toArray.size + 1) 0 (#[] ++ [computeStats (!tc2) src]) (by omega) (by omega)
          (by rw [size_appendList]; simp)
        rw [hl]
        simp only
        have hpa : p < src.toArray.size := by omega
        rw [Array.getElem?_eq_getElem hpa]
        simp only
        have hd := reset_ok sw sd tc2 hsz src.length hs hpos
        have hinv0 : FInv src.toArray src.toArray.size
            ⟨p, if isText src.toArray[p] = true then p else p + 1, p, (reset sw sd tc2 hsz src.length).ssz,
              reset sw sd tc2 hsz src.length, o⟩ := by
          refine ⟨by simp only; omega, Nat.le_refl _, ?_, ?_, by simp only; omega, hd, ?_⟩
          · simp only; split <;> omega
          · simp only; split <;> omega
          · intro k' h1 h2
            simp only at h1 h2
            split at h1 <;> omega
        rcases fwdLoop_total tc2 src.toArray dstLen src.toArray.size _ (by omega) (src.toArray.size + 1) _ hinv0
            (by simp only; omega) with ⟨e, he⟩ | ⟨s', hs', hinv', _⟩
        · rw [he]; exact Or.inl ⟨_, rfl⟩
        · rw [hs']
          simp only
          rcases fwdFinish_total tc2 src.toArray src.toArray.size _ s' hinv' with ⟨e, he⟩ | ⟨o', ho', hol⟩
          · exact Or.inl ⟨_, he⟩
          · exact Or.inr ⟨_, ho', by omega⟩

/-- `TextCodec.Forward`: any block, any destination size, any ctx: a clean decline or an output of at most
    `MaxEncodedLen = len(src)` bytes -/
theorem textForwardS_total (sw : Nat) (sd : Array Entry) (hs : StaticOK sw sd) (tc2 : Bool) (hsz dt : Nat)
    (hpos : 0 < hsz) (src : List Nat) (dstLen : Nat) :
    (∃ e, textForwardS sw sd tc2 hsz dt src dstLen = .err e) ∨
    (∃ o, textForwardS sw sd tc2 hsz dt src dstLen = .ok o ∧ o.length ≤ src.length) := by
  unfold textForwardS
  by_cases c0 : src.length = 0 ∨ dstLen = 0
  · rw [if_pos c0]; exact Or.inr ⟨_, rfl, Nat.zero_le _⟩
  · rw [if_neg c0]
    by_cases c1 : src.length < MIN_BLOCK_SIZE
    · rw [if_pos c1]; exact Or.inl ⟨_, rfl⟩
    · rw [if_neg c1]
      by_cases c2 : src.length > MAX_BLOCK_SIZE
      · rw [if_pos c2]; exact Or.inl ⟨_, rfl⟩
      · rw [if_neg c2]
        have : MIN_BLOCK_SIZE = 1024 := rfl
        exact codecForwardS_total sw sd hs tc2 hsz dt hpos src dstLen (by omega)

end Kanzi.Text
