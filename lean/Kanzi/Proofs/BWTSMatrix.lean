/-
Slice `bwts` (C13): the matrix `bwtsMatrix s` (all rotations of the Lyndon factors, sorted by
`omegaLe`) satisfies `SortedRots`.
-/
import Kanzi.Proofs.BWTSCycle

namespace Kanzi.BWTS

/-! ## rotations -/

theorem rotations_length (w : List Nat) : (rotations w).length = w.length := by
  simp [rotations]

theorem mem_rotations {w x : List Nat} : x ∈ rotations w ↔ ∃ k, k < w.length ∧ x = rot w k := by
  simp [rotations, eq_comm]

theorem rot_zero (w : List Nat) : rot w 0 = w := by simp [rot]

theorem rot_length_self (w : List Nat) : rot w w.length = w := by simp [rot]

theorem self_mem_rotations {w : List Nat} (hw : w ≠ []) : w ∈ rotations w :=
  mem_rotations.2 ⟨0, List.length_pos_iff.2 hw, (rot_zero w).symm⟩

theorem flatMap_rotations_length (fs : List (List Nat)) :
    (fs.flatMap rotations).length = fs.flatten.length := by
  induction fs with
  | nil => rfl
  | cons w fs ih => simp [rotations_length, ih]

/-- a cyclic shift of the index is a permutation -/
theorem shift_perm {α : Type} (m : Nat) (f : Nat → α) (h : f m = f 0) :
    ((List.range m).map (fun i => f (i + 1))).Perm ((List.range m).map f) := by
  cases m with
  | zero => simp
  | succ k =>
    have h1 : (List.range (k + 1)).map (fun i => f (i + 1)) =
        (List.range k).map (fun i => f (i + 1)) ++ [f 0] := by
      rw [List.range_succ, List.map_append, List.map_singleton, h]
    have h2 : (List.range (k + 1)).map f = f 0 :: (List.range k).map (fun i => f (i + 1)) := by
      rw [List.range_succ_eq_map, List.map_cons, List.map_map]; rfl
    rw [h1, h2]
    exact List.perm_append_singleton _ _

theorem rotR_rot (w : List Nat) (hw : w ≠ []) (k : Nat) (hk : k ≤ w.length) :
    rotR (rot w k) = rot w ((k + w.length - 1) % w.length) := by
  have hm : 0 < w.length := List.length_pos_iff.2 hw
  unfold rotR
  rw [rot_length, rot_rot w hw k _ hk (by omega)]
  congr 2; omega

theorem rotations_rotR_perm (w : List Nat) (hw : w ≠ []) :
    ((rotations w).map rotR).Perm (rotations w) := by
  have hm : 0 < w.length := List.length_pos_iff.2 hw
  unfold rotations
  rw [List.map_map]
  -- `g i = rot w ((i + m - 1) % m)`: `g (i + 1) = rot w i`
  have h1 : (List.range w.length).map (rotR ∘ rot w) =
      (List.range w.length).map (fun i => rot w ((i + w.length - 1) % w.length)) := by
    apply List.map_congr_left
    intro i hi
    exact rotR_rot w hw i (by have := List.mem_range.1 hi; omega)
  have h2 : (List.range w.length).map (rot w) =
      (List.range w.length).map (fun i => (fun j => rot w ((j + w.length - 1) % w.length)) (i + 1)) := by
    apply List.map_congr_left
    intro i hi
    have := List.mem_range.1 hi
    simp only
    rw [show i + 1 + w.length - 1 = i + w.length by omega, Nat.add_mod_right, Nat.mod_eq_of_lt this]
  rw [h1, h2]
  refine (shift_perm w.length (fun j => rot w ((j + w.length - 1) % w.length)) ?_).symm
  show rot w _ = rot w _
  congr 1
  rw [show w.length + w.length - 1 = w.length - 1 + w.length by omega, Nat.add_mod_right,
    show 0 + w.length - 1 = w.length - 1 by omega]

/-! ## `omegaLe` as a total preorder -/

/-- `omegaLe` with the empty word as least element: a total preorder on all words -/
def oLe' (u v : List Nat) : Bool := u.isEmpty || (!v.isEmpty && omegaLe u v)

theorem oLe'_eq (u v : List Nat) (hu : u ≠ []) (hv : v ≠ []) : oLe' u v = omegaLe u v := by
  unfold oLe'
  have h1 : u.isEmpty = false := by simpa using hu
  have h2 : v.isEmpty = false := by simpa using hv
  simp [h1, h2]

theorem oLe'_trans (a b c : List Nat) (h1 : oLe' a b = true) (h2 : oLe' b c = true) :
    oLe' a c = true := by
  by_cases ha : a = []
  · simp [oLe', ha]
  · by_cases hb : b = []
    · subst hb
      have : a.isEmpty = false := by simpa using ha
      simp [oLe', this] at h1
    · by_cases hc : c = []
      · subst hc
        have : b.isEmpty = false := by simpa using hb
        simp [oLe', this] at h2
      · rw [oLe'_eq _ _ ha hb, omegaLe_iff _ _ ha hb] at h1
        rw [oLe'_eq _ _ hb hc, omegaLe_iff _ _ hb hc] at h2
        rw [oLe'_eq _ _ ha hc, omegaLe_iff _ _ ha hc]
        exact h1.trans h2

theorem oLe'_total (a b : List Nat) : (oLe' a b || oLe' b a) = true := by
  by_cases ha : a = []
  · simp [oLe', ha]
  · by_cases hb : b = []
    · simp [oLe', hb]
    · rw [oLe'_eq _ _ ha hb, oLe'_eq _ _ hb ha, Bool.or_eq_true, omegaLe_iff _ _ ha hb,
        omegaLe_iff _ _ hb ha]
      rcases seq_trichotomy (pw a) (pw b) with h | h | h
      · exact Or.inl h.asymm
      · exact Or.inl (seqLe_iff.2 (Or.inr h))
      · exact Or.inr h.asymm

theorem mergeSort_omegaLe_sorted (R : List (List Nat)) (hR : ∀ x ∈ R, x ≠ []) :
    (R.mergeSort omegaLe).Pairwise (fun a b => SeqLe (pw a) (pw b)) := by
  have h1 : R.mergeSort omegaLe = R.mergeSort oLe' := by
    have := List.map_mergeSort (r := omegaLe) (s := oLe') (f := id) (l := R)
      (fun a ha b hb => (oLe'_eq a b (hR a ha) (hR b hb)).symm)
    simpa using this
  have h2 := List.pairwise_mergeSort (le := oLe') oLe'_trans oLe'_total R
  rw [h1]
  have hmem : ∀ x ∈ R.mergeSort oLe', x ≠ [] := fun x hx =>
    hR x ((List.mergeSort_perm R oLe').mem_iff.1 hx)
  refine List.Pairwise.imp_of_mem ?_ h2
  intro a b ha hb hab
  rw [oLe'_eq _ _ (hmem a ha) (hmem b hb), omegaLe_iff _ _ (hmem a ha) (hmem b hb)] at hab
  exact hab

/-! ## the matrix -/

theorem bwtsMatrix_perm (s : List Nat) :
    (bwtsMatrix s).Perm ((lyndonFactors s).flatMap rotations) := List.mergeSort_perm _ _

theorem mem_flatMap_rotations {fs : List (List Nat)} {x : List Nat} :
    x ∈ fs.flatMap rotations ↔ ∃ w ∈ fs, ∃ k, k < w.length ∧ x = rot w k := by
  simp [List.mem_flatMap, mem_rotations]

theorem bwtsMatrix_sortedRots (s : List Nat) : SortedRots (bwtsMatrix s) := by
  have hf := lyndonFactors_spec s
  have hp := bwtsMatrix_perm s
  have hrot : ∀ x ∈ (lyndonFactors s).flatMap rotations, RotL x := by
    intro x hx
    obtain ⟨w, hw, k, hk, rfl⟩ := mem_flatMap_rotations.1 hx
    exact ⟨w, k, hf.2.1 w hw, hk, rfl⟩
  refine ⟨fun x hx => hrot x (hp.mem_iff.1 hx), ?_, ?_⟩
  · exact mergeSort_omegaLe_sorted _ (fun x hx => (hrot x hx).ne_nil)
  · refine ((hp.map rotR).trans ?_).trans hp.symm
    rw [List.map_flatMap]
    exact List.Perm.flatMap_left _ (fun w hw => rotations_rotR_perm w (hf.2.1 w hw).1)

theorem bwtsMatrix_length (s : List Nat) : (bwtsMatrix s).length = s.length := by
  rw [(bwtsMatrix_perm s).length_eq, flatMap_rotations_length, (lyndonFactors_spec s).1]

theorem bwtsSpec_eq (s : List Nat) : bwtsSpec s = (bwtsMatrix s).map lastL := rfl

theorem bwtsSpec_length (s : List Nat) : (bwtsSpec s).length = s.length := by
  rw [bwtsSpec_eq, List.length_map, bwtsMatrix_length]

end Kanzi.BWTS
