/-
Proofs for `Kanzi/Model/BlockGen3.lean`, part 1: decode ∘ encode for ANY list of transforms that satisfy the
per-transform law `Law3` of `Proofs/BlockGen3Seq.lean` (Inverse restores the block into every ADMISSIBLE destination
strictly longer than the block) with an output bound below the common step bound `stepB` (`len + len/16 + 1028`).
This is `Proofs/BlockGen2.lean` (`postOf_spec`, `decode_encode_noncopy2`, `block_roundtrip2`) with `kindTrs ks`
replaced by `ltrs ls` and the admissibility predicate `P` threaded to the destination size of the decoding task
(`decDstLen B p`: at least the frame bytes and the task block length).
Property statements: `Kanzi/Properties/C01_blockgen3.lean`.
-/
import Kanzi.Model.BlockGen3
import Kanzi.Proofs.BlockGen2
import Kanzi.Proofs.BlockGen3Seq

namespace Kanzi.BlockGen3
open Kanzi.Bits Kanzi.TrSmall Kanzi.Block Kanzi.BlockGen Kanzi.BlockGen2

/-- every stage stays below the common step bound -/
def StepOK (ls : List LTr) : Prop := ∀ l ∈ ls, ∀ a, max a (l.g a) ≤ stepB a

theorem runG_le_iterB_gen : ∀ (ls : List LTr), StepOK ls → ∀ s, runG ls s ≤ iterB ls.length s := by
  intro ls
  induction ls with
  | nil => intro _ s; exact Nat.le_refl _
  | cons l ls ih =>
    intro h s
    show runG ls (max s (l.g s)) ≤ iterB ls.length (stepB s)
    exact Nat.le_trans (ih (fun l' h' => h l' (List.mem_cons_of_mem _ h')) _)
      (iterB_mono _ _ _ (h l (List.mem_cons_self ..) s))

/-- at most eight stages on a block of at most 2^30 bytes: every intermediate block is within the length limit
of the laws -/
theorem runG_le_lawLim_gen (ls : List LTr) (hs : StepOK ls) (s : Nat) (hn : ls.length ≤ 8) (h30 : s ≤ 2 ^ 30) :
    runG ls s ≤ lawLim := by
  have h1 := runG_le_iterB_gen ls hs s
  have h2 := iterB_le_of_le ls.length 8 s hn
  have h3 := iterB_mono 8 s (2 ^ 30) h30
  have h4 : iterB 8 (2 ^ 30) ≤ lawLim := by decide
  omega

/-! ### a bound on `MaxEncodedLen` of the sequence -/

/-- a common bound on `MaxEncodedLen` of one stage: `len/8 + 8192` more bytes -/
def stepM (m : Nat) : Nat := m + m / 8 + 8192

def iterM : Nat → Nat → Nat
  | 0, a => a
  | n + 1, a => iterM n (stepM a)

/-- `MaxEncodedLen` of every stage is below the common bound -/
def MaxOK (ls : List LTr) : Prop := ∀ l ∈ ls, ∀ m, l.t.maxLen m ≤ stepM m

theorem iterM_mono : ∀ n a b, a ≤ b → iterM n a ≤ iterM n b := by
  intro n
  induction n with
  | zero => intro a b h; exact h
  | succ n ih =>
    intro a b h
    simp only [iterM]
    apply ih
    unfold stepM
    have : a / 8 ≤ b / 8 := Nat.div_le_div_right h
    omega

theorem iterM_succ_ge (n a : Nat) : iterM n a ≤ iterM (n + 1) a := by
  simp only [iterM]
  exact iterM_mono n a (stepM a) (by unfold stepM; omega)

theorem iterM_le_of_le : ∀ n m a, n ≤ m → iterM n a ≤ iterM m a := by
  intro n m a h
  induction m with
  | zero => have : n = 0 := by omega
            subst this; exact Nat.le_refl _
  | succ m ih =>
    by_cases hn : n = m + 1
    · subst hn; exact Nat.le_refl _
    · exact Nat.le_trans (ih (by omega)) (iterM_succ_ge m a)

theorem runMax_le_iterM : ∀ (ls : List LTr), MaxOK ls → ∀ m, runMax ls m ≤ iterM ls.length m := by
  intro ls
  induction ls with
  | nil => intro _ m; exact Nat.le_refl _
  | cons l ls ih =>
    intro h m
    show runMax ls (if l.t.maxLen m > m then l.t.maxLen m else m) ≤ iterM ls.length (stepM m)
    have hl := h l (List.mem_cons_self ..) m
    have h2 : (if l.t.maxLen m > m then l.t.maxLen m else m) ≤ stepM m := by
      split
      · exact hl
      · unfold stepM; omega
    exact Nat.le_trans (ih (fun l' h' => h l' (List.mem_cons_of_mem _ h')) _) (iterM_mono _ _ _ h2)

/-- the inverse sequence of a decoding task whose frame respects the Reader's bound of 2^34 bits works in buffers
of less than 2^39 bytes -/
theorem invDst_lt (ls : List LTr) (hmax : MaxOK ls) (hn : ls.length ≤ 8) (B : Nat) (hB : B ≤ 2 ^ 30) (p : Bits)
    (hp : p.length ≤ 2 ^ 34) :
    max (decDstLen B p) (seqMaxLen (trsOf (ltrs ls)) (decDstLen B p)) < 2 ^ 39 := by
  have hdl : decDstLen B p ≤ 2 ^ 31 := by
    unfold decDstLen taskBlockLength
    omega
  rw [seqMaxLen_ltrs]
  have h1 := runMax_le_iterM ls hmax (decDstLen B p)
  have h2 := iterM_le_of_le ls.length 8 (decDstLen B p) hn
  have h3 := iterM_mono 8 (decDstLen B p) (2 ^ 31) hdl
  have h4 : iterM 8 (2 ^ 31) < 2 ^ 39 := by decide
  omega

/-! ### the block handed to the entropy coder -/

/-- what the sequence and the bound of fix F43 (block size `B` in the ctx) hand to the entropy coder: a
non-empty block of bytes within the decoder's bound, with well-formed skip flags, from which the inverse
sequence restores the block, in buffers of every admissible size at least the task block length -/
theorem postOf_specL (P : Nat → Prop) (ls : List LTr) (hlaws : ∀ l ∈ ls, Law3 l.t l.g lawLim P) (hstep : StepOK ls)
    (hn : ls.length ≤ 8) (B obuf : Nat) (b : List Nat)
    (hb : ∀ x ∈ b, x < 256) (hb0 : 0 < b.length) (hB : b.length ≤ B) (hmax : B ≤ 2 ^ 30) :
    (postOf (ltrs ls) (some B) obuf b).2 < 256 ∧
    ((ltrs ls).length ≤ 4 → (postOf (ltrs ls) (some B) obuf b).2 % 16 = 15) ∧
    IsBlock (maxTransformLength B) (postOf (ltrs ls) (some B) obuf b).1 ∧
    (postOf (ltrs ls) (some B) obuf b).1 ≠ [] ∧
    ∀ dl, taskBlockLength B ≤ dl → P (max dl (seqMaxLen (trsOf (ltrs ls)) dl)) →
      seqInverse (invStages (trsOf (ltrs ls)) dl) (postOf (ltrs ls) (some B) obuf b).2
        (postOf (ltrs ls) (some B) obuf b).1 = .ok b := by
  have hne : b ≠ [] := fun h => by rw [h] at hb0; exact Nat.lt_irrefl 0 hb0
  have hlen8 : ls.length ≤ 8 := hn
  have hlim : runG ls b.length ≤ lawLim := runG_le_lawLim_gen ls hstep b.length hn (by omega)
  have hbB : b.length ≤ maxTransformLength B := le_maxTransformLength b.length B hB (by omega)
  have hreq0 : 0 < seqMaxLen (trsOf (ltrs ls)) b.length := by
    rw [seqMaxLen_ltrs]
    have := le_runMax ls b.length
    omega
  have hl0 : 0 < growTo obuf (seqMaxLen (trsOf (ltrs ls)) b.length) := by
    unfold growTo; split <;> omega
  unfold postOf
  generalize hFdef : forwardOf (ltrs ls) obuf b = F
  have hF : forwardOf (ltrs ls) obuf b = seqForward2 (ltrs ls) (seqMaxLen (trsOf (ltrs ls)) b.length)
    (growTo obuf (seqMaxLen (trsOf (ltrs ls)) b.length)) (initDt b) b := rfl
  have hrt : ∀ dl, (b.length < dl → P (max dl (seqMaxLen (trsOf (ltrs ls)) dl)) →
      seqInverse (invStages (trsOf (ltrs ls)) dl) F.2 F.1 = .ok b) ∧ Bytes F.1 ∧
        F.1.length ≤ runG ls b.length ∧ F.1 ≠ [] := by
    intro dl
    have := seq3_roundtrip lawLim (seqMaxLen (trsOf (ltrs ls)) b.length)
      (growTo obuf (seqMaxLen (trsOf (ltrs ls)) b.length)) (max dl (seqMaxLen (trsOf (ltrs ls)) dl))
      (initDt b) dl P ls b hlaws hlen8 hreq0 hl0 hb hlim
    rw [← hF, hFdef] at this
    obtain ⟨h1, h2, h3, h4⟩ := this
    exact ⟨fun hdl hP => h1 hdl (by rw [seqMaxLen_ltrs]; omega) hP, h2, h3, h4 hne⟩
  obtain ⟨hflt, hflow⟩ := seqForward2_flags_shape (ltrs ls) (seqMaxLen (trsOf (ltrs ls)) b.length)
    (growTo obuf (seqMaxLen (trsOf (ltrs ls)) b.length)) (initDt b) b
    (by simp only [ltrs, List.length_map]; exact hlen8)
  rw [← hF, hFdef] at hflt hflow
  unfold fallback
  have hml : maxLengthOf (some B) = maxTransformLength B := rfl
  rw [hml]
  split
  · -- stored untransformed
    exact ⟨by simp, fun _ => by simp, ⟨hb, hbB⟩, hne, fun dl _ _ => seqInverse_ff _ b⟩
  · rename_i hnf
    obtain ⟨_, hFb, hFl, hFne⟩ := hrt b.length
    have hpm : F.1.length ≤ maxTransformLength B := by
      by_cases h1 : F.1.length ≤ maxTransformLength B
      · exact h1
      · have hreq : seqMaxLen (trsOf (ltrs ls)) b.length ≤ maxTransformLength B := by
          by_cases h2 : seqMaxLen (trsOf (ltrs ls)) b.length ≤ maxTransformLength B
          · exact h2
          · exact absurd ⟨by omega, by omega⟩ hnf
        have := runG_le_runMax3 lawLim P ls hlaws b.length b.length (Nat.le_refl _) hlim
        rw [seqMaxLen_ltrs] at hreq
        omega
    refine ⟨hflt, fun h4 => flags_low_nibble _ hflt _ h4 hflow, ⟨hFb, hpm⟩, hFne, fun dl hdl hP => ?_⟩
    have htb : B < taskBlockLength B := by unfold taskBlockLength; omega
    exact (hrt dl).1 (by omega) hP

/-! ### decode ∘ encode for a given block handed to the entropy coder -/

/-- `BlockGen.decode_encodeOf` with the inverse sequence known to work for the destination sizes `Q` only: the
decoding task returns the block if its own destination size (`decDstLen B p`) is one of them -/
theorem decode_encodeOfQ (Q : Nat → Prop) (c : Cfg) (B : Nat) (b : List Nat) (f : List Nat × Nat) (e : Bits)
    (hflt : f.2 < 256) (hlow : c.trs.length ≤ 4 → f.2 % 16 = 15)
    (hne : f.1 ≠ []) (hpm : f.1.length ≤ maxTransformLength B)
    (he : c.ent.enc f.1 = some e)
    (hdec : ∀ rest : Bits, c.ent.dec f.1.length (e ++ rest) = some (f.1, rest))
    (hinv : ∀ dl, taskBlockLength B ≤ dl → Q dl → seqInverse (invStages c.trs dl) f.2 f.1 = .ok b)
    (hB : b.length ≤ B) :
    ∃ p, encodeOf false c.trs.length c.ent (ckWidth c.ck) (checksum c.ck b) f = .ok p ∧
      (Q (decDstLen B p) → decodeTaskGen c B p = ⟨b.length, .ok b⟩) := by
  have hmt : maxTransformLength B ≤ 2 ^ 30 := by unfold maxTransformLength; omega
  have hpost0 : f.1.length ≠ 0 := fun h => hne (List.eq_nil_of_length_eq_zero h)
  have hpost32 : f.1.length < 2 ^ 32 := by omega
  refine ⟨_, encodeOf_eq false c.trs.length c.ent _ _ f e hpost32 he, fun hQ => ?_⟩
  have hds1 := dataSizeOf_pos f.1.length
  have hds4 := dataSizeOf_le _ hpost32
  have hpow := lt_pow_dataSizeOf f.1.length
  have hm := modeOK_encodeMode false (dataSizeOf f.1.length) f.2 c.trs.length hds1 hds4 hflt hlow
  rw [decodeTaskGen_prologue c B false _ _ _ _ _ e _ hm hds1 hflt hpow hpost0 hpm (checksum_lt c.ck b) rfl]
  simp only [Bool.false_eq_true, if_false] at hQ ⊢
  generalize hdle : decDstLen B _ = dl at hQ ⊢
  have hdl : taskBlockLength B ≤ dl := by rw [← hdle]; exact decDstLen_ge B _
  generalize List.replicate _ false = pad
  unfold decodeBody
  rw [hdec pad]
  simp only [padZero_of_length _ _ rfl]
  rw [hinv dl hdl hQ]
  simp only
  have := taskBlockLength_ge B
  rw [if_neg (by omega), if_neg (by simp)]

/-! ### decode ∘ encode, non-copy blocks -/

theorem decode_encode_noncopyL (P : Nat → Prop) (c : Cfg2) (ls : List LTr) (hc : c.trs = ltrs ls)
    (hlaws : ∀ l ∈ ls, Law3 l.t l.g lawLim P) (hstep : StepOK ls) (hn : ls.length ≤ 8)
    (B obuf : Nat) (b : List Nat) (hbs : c.bs = some B)
    (hent : EntLawAt c.ent (maxTransformLength B) (postBlock c.trs c.bs obuf b))
    (hb : ∀ x ∈ b, x < 256) (hb0 : 0 < b.length) (hB : b.length ≤ B) (hmax : B ≤ 2 ^ 30) :
    ∃ p, encodeWith2 c.trs c.ent (ckWidth c.ck) (checksum c.ck b) c.bs obuf b = .ok p ∧
      (P (max (decDstLen B p) (seqMaxLen (trsOf c.trs) (decDstLen B p))) →
        decodeTaskGen c.toCfg B p = ⟨b.length, .ok b⟩) ∧ (c.ent = noneEnt → FrameFit B p) := by
  obtain ⟨hflt, hlow, hblk, hPne, hinv⟩ := postOf_specL P ls hlaws hstep hn B obuf b hb hb0 hB hmax
  rw [← hc, ← hbs] at hflt hlow hblk hPne hinv
  unfold postBlock at hent
  obtain ⟨e, he, hdec⟩ := hent hblk hPne
  have hcl : c.toCfg.trs.length = c.trs.length := by simp [Cfg2.toCfg, trsOf]
  obtain ⟨p, hp, hd⟩ := decode_encodeOfQ (fun dl => P (max dl (seqMaxLen (trsOf c.trs) dl))) c.toCfg B b
    (postOf c.trs c.bs obuf b) e hflt (by rw [hcl]; exact hlow) hPne hblk.2 he hdec hinv hB
  rw [hcl] at hp
  refine ⟨p, hp, hd, fun hne' => ?_⟩
  obtain ⟨e', he', h8, hle⟩ := encodeOf_shape _ _ _ _ _ _ _ hp
  have he'' : c.ent.enc (postOf c.trs c.bs obuf b).1 = some e' := he'
  rw [hne'] at he''
  have he' := he''
  have hel : e'.length = 8 * (postOf c.trs c.bs obuf b).1.length := by
    have : some (EntSmall.nullEncode (postOf c.trs c.bs obuf b).1) = some e' := he'
    injection this with this
    rw [← this, EntSmall.nullEncode_eq, Block.ofBytes_length]
  have hck := ckWidth_le c.ck
  have hpm := hblk.2
  have hc' : ckWidth c.toCfg.ck = ckWidth c.ck := rfl
  have hmt : maxTransformLength B ≤ 2 ^ 30 := by unfold maxTransformLength; omega
  unfold FrameFit
  simp only [maxFrameBits]
  omega

/-- H_codec for every chain of lawful transforms: for a block of 1..B bytes the encoding task of a Writer
with block size `B` succeeds (whatever the length `obuf` of the task's output buffer) and the decoding task
returns the block — provided the size of its inverse buffers is admissible -/
theorem block_roundtripL (P : Nat → Prop) (c : Cfg2) (ls : List LTr) (hc : c.trs = ltrs ls)
    (hlaws : ∀ l ∈ ls, Law3 l.t l.g lawLim P) (hstep : StepOK ls) (hn : ls.length ≤ 8)
    (B obuf : Nat) (b : List Nat) (hbs : c.bs = some B)
    (hent : EntLawAt c.ent (maxTransformLength B) (postBlock c.trs c.bs obuf b))
    (hb : ∀ x ∈ b, x < 256) (hb0 : 0 < b.length) (hB : b.length ≤ B) (hmax : B ≤ 2 ^ 30) :
    ∃ p, encodeTaskGen2 c obuf b = .ok p ∧
      (P (max (decDstLen B p) (seqMaxLen (trsOf c.trs) (decDstLen B p))) →
        decodeTaskGen2 c B p = ⟨b.length, .ok b⟩) ∧
      (c.ent = noneEnt → FrameFit B p) := by
  unfold encodeTaskGen2 decodeTaskGen2
  by_cases hcp : isCopy c.toCfg b = true
  · rw [if_pos hcp]
    obtain ⟨p, hp, hd⟩ := decode_encode_copy c.toCfg B b hb hb0 hB hmax
    refine ⟨p, hp, fun _ => hd, fun _ => ?_⟩
    obtain ⟨e, he, h8, hle⟩ := encodeWith_shape _ _ _ _ _ _ _ _ hp
    have hfb : (fallback c.toCfg.bs (seqMaxLen [nullTr] b.length) b
        (seqForward (fwdStages [nullTr] b.length) b)).1 = b := by
      rcases fallback_null c.toCfg.bs (seqMaxLen [nullTr] b.length) b hb0 with h' | h' <;> rw [h']
    rw [hfb] at he
    have hel : e.length = 8 * b.length := by
      have : some (EntSmall.nullEncode b) = some e := he
      injection this with this
      rw [← this, EntSmall.nullEncode_eq, Block.ofBytes_length]
    have hck := ckWidth_le c.ck
    exact frameFit_of_le B b.length p h8 hB hmax (by show p.length ≤ 48 + 64 + 8 * b.length; have : ckWidth c.toCfg.ck = ckWidth c.ck := rfl; omega)
  · rw [if_neg hcp]
    exact decode_encode_noncopyL P c ls hc hlaws hstep hn B obuf b hbs hent hb hb0 hB hmax

end Kanzi.BlockGen3
