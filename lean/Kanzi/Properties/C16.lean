/-
C16 — frequency scaling always yields a valid table.
Property theorems only; helper lemmas live in `Kanzi/Proofs/Normalize.lean`.
The model (`Kanzi/Model/Normalize.lean`) mirrors `entropy.NormalizeFrequencies` as repaired by the
fix for finding F4 and is tied to /repo by the `norm` correspondence stream.
-/
import Kanzi.Model.Normalize
import Kanzi.Proofs.Normalize

namespace Kanzi.C16
open Kanzi.Normalize

/-- C16, full strength: for every histogram `h` over at most 256 symbols with a positive total and
every scale accepted by the routine (in particular every power of two 2^8 .. 2^16), the call
succeeds and returns a table that sums exactly to `scale`, keeps exactly the present symbols, and
reports them in increasing order.  (`present ≤ scale` holds automatically: ≤ 256 ≤ scale.) -/
theorem C16_normalize (h : List Nat) (scale : Nat)
    (hlen : h.length ≤ 256) (hscale : 256 ≤ scale ∧ scale ≤ 65536) (htot : 0 < h.sum) :
    ∃ o, normalize h h.sum scale = .ok o ∧
      o.freqs.length = h.length ∧
      o.freqs.sum = scale ∧
      (∀ i, i < h.length → (0 < h.getD i 0 ↔ 0 < o.freqs.getD i 0)) ∧
      o.size = (h.filter (· ≠ 0)).length ∧
      o.alphabet.length = o.size ∧
      o.alphabet.Pairwise (· < ·) ∧
      (∀ i, i ∈ o.alphabet ↔ (i < h.length ∧ h.getD i 0 ≠ 0)) :=
  Kanzi.Normalize.normalize_valid h scale hlen hscale htot

/-- the two parameter errors are the only errors, and they are raised exactly when documented -/
theorem C16_errors (h : List Nat) (total scale : Nat) :
    (∃ m, normalize h total scale = .err m) ↔ (h.length > 256 ∨ scale < 256 ∨ scale > 65536) :=
  Kanzi.Normalize.normalize_err_iff h total scale

/-- no 64-bit overflow in the proportional rounding for chunk totals below 2^31 -/
theorem C16_no_overflow (f total scale : Nat) (hf : f ≤ total) (ht : total < 2 ^ 31)
    (hs : scale ≤ 65536) : f * scale + total / 2 < 2 ^ 63 := by
  have h1 : f * scale ≤ total * 65536 := Nat.mul_le_mul hf hs
  omega

end Kanzi.C16
