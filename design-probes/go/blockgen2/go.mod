module blockgen2probe

go 1.24

require github.com/flanglet/kanzi-go/v2 v2.0.0

replace github.com/flanglet/kanzi-go/v2 => /repo/v2
