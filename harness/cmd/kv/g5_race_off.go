//go:build !race

package main

const g5RaceEnabled = false
