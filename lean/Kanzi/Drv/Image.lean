/-
Line-protocol driver of the `image` correspondence stream (core Lean only).

  img  bs=<B> ck=<0|32|64> hint=<n> j=<jobs> sizes=<n1,n2,...>
        → hex of `streamImage (mkHeader (ck/32) 0 0 B hint) ck (chunks B data)`;
          data = position-coded pattern of length Σ sizes (the sizes are the Write call sizes and the
          job count only matters for the real Writer)
  imgr  (same fields)
        → the same hex, then ` | r=<stop>:<bytes>:<hash32>` = `parseImage` of that image
          (the Go side feeds the image of the INDEPENDENT builder to the real Reader)
  imgx  (same fields) x=<pos>:<byte>,<pos>:<byte>,... cut=<n|->
        → `x=<stop>:<bytes>:<hash32>` = `parseImage` of the image with the bytes at the given positions
          replaced (positions inside the header are ignored) and then cut to `cut` bytes (not below the
          header length); real Reader with jobs = 1 on the Go side

The image is computed by `Block.streamImageFast` (proved equal to `streamImage`:
`Kanzi.Block.streamImageFast_eq`).
-/
import Kanzi.Model.Block
import Kanzi.Spec.Stream
import Kanzi.Drv.Stream
import Kanzi.Drv.Hash

namespace Kanzi.Drv

namespace ImageDrv

open Kanzi.Bits Kanzi.Block

def stopName : Stop → String
  | .endOfStream => "ok"
  | .header _ => "header"
  | .unsupported => "unsupported"
  | .truncated => "process"
  | .frameSize => "size"
  | .block .eos => "process"
  | .block .size => "size"
  | .block .crc => "crc"
  | .oversize => "process"

def natList (s : String) : List Nat := ((s.splitOn ",").filter (· ≠ "")).filterMap String.toNat?

/-- the image of the op -/
def opImage (ws : List String) : List Nat :=
  let B := kvNat ws "bs" 1024
  let ck := kvNat ws "ck" 0
  let hint := kvNat ws "hint" 0
  let total := (natList ((kvs ws "sizes").getD "")).sum
  streamImageFast (Header.mkHeader (ck / 32) 0 0 B hint) ck (Spec.chunks B (patRange 0 total))

def report (tag : String) (r : Option Header.Header × List (List Nat) × Stop) : String :=
  let d := r.2.1.flatten
  s!"{tag}={stopName r.2.2}:{d.length}:{hash32 d}"

/-- `p:v,p:v` replacements -/
def patches (s : String) : List (Nat × Nat) :=
  ((s.splitOn ",").filter (· ≠ "")).filterMap (fun it =>
    match it.splitOn ":" with
    | [p, v] => match p.toNat?, v.toNat? with
      | some p, some v => some (p, v % 256)
      | _, _ => none
    | _ => none)

end ImageDrv

open ImageDrv HashDrv in
def image (line : String) : String :=
  match words line with
  | "img" :: ws => bytesHex (opImage ws)
  | "imgr" :: ws =>
    let img := opImage ws
    bytesHex img ++ " | " ++ report "r" (Block.parseImage img)
  | "imgx" :: ws =>
    let img := opImage ws
    -- the header is left intact: positions inside it are ignored, the cut never reaches into it
    let hdrLen := (Header.headerBits (Header.mkHeader (kvNat ws "ck" 0 / 32) 0 0 (kvNat ws "bs" 1024) (kvNat ws "hint" 0))).length / 8
    let img := (patches ((kvs ws "x").getD "")).foldl (fun l pv => if pv.1 < hdrLen then l else l.set pv.1 pv.2) img
    let img := match optNat ws "cut" with
      | some n => img.take (max n hdrLen)
      | none => img
    report "x" (Block.parseImage img)
  | _ => "bad-op"

end Kanzi.Drv
