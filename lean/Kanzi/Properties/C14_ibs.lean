/-
C14 (reader half) — `bitstream.DefaultInputBitStream` is an exact mirror of the bit string it is
given.  Property theorems only; proofs in `Kanzi/Proofs/IBS*.lean`.

Model: `Kanzi/Model/IBS.lean` (tied to /repo by the `ibs` correspondence stream).  Abstraction:
`remaining s : Bits` = the low `availBits` bits of `current` ++ the bits of
`buffer[position .. maxPosition]` ++ the bits of all bytes the source will still deliver
(all chunks up to and including the first one returned together with an error); `[]` once closed.
`Inv` is the representation invariant (`availBits ≤ 64`, buffered size a multiple of 8 unless an
error/EOF was recorded in `pendingErr`, non-empty chunks, …); it holds initially (`init_inv`) and
is preserved by every operation, also by the failing ones.  `Fresh s` = open and
`position ≤ maxPosition + 1`; it is preserved by every operation that does not panic.
`s.count` is `Read()`.
-/
import Kanzi.Proofs.IBSThm

namespace Kanzi.C14
open Kanzi.IBS Kanzi.Bits Kanzi.BitsIbs

/-- `ReadBits(n)`, `1 ≤ n ≤ 64`, with at least `n` bits left: returns the big-endian value of the
next `n` bits, drops exactly them, `Read()` grows by exactly `n` — for every chunking of the
source, every buffer state, whether or not the source ends with an error after those bits. -/
theorem C14_ibs_readBits (s : St) (hi : Inv s) (hc : s.closed = false) (n : Nat)
    (h1 : 1 ≤ n) (h64 : n ≤ 64) (hen : n ≤ (remaining s).length) :
    ∃ v s', readBits s n = (.val v, s') ∧ v.toNat = bitsNat ((remaining s).take n) ∧
      remaining s' = (remaining s).drop n ∧ Inv s' ∧ s'.count = s.count + n ∧
      s'.closed = false ∧ (Fresh s → Fresh s') :=
  readBits_refines s hi hc n h1 h64 hen

/-- `ReadBit` with at least one bit left. -/
theorem C14_ibs_readBit (s : St) (hi : Inv s) (hc : s.closed = false)
    (hen : 1 ≤ (remaining s).length) :
    ∃ v s', readBit s = (.val v, s') ∧ v.toNat = bitsNat ((remaining s).take 1) ∧
      remaining s' = (remaining s).drop 1 ∧ Inv s' ∧ s'.count = s.count + 1 ∧
      s'.closed = false ∧ (Fresh s → Fresh s') :=
  readBit_refines s hi hc hen

/-- `ReadArray(bits, k)` with at least `k` bits left (any `k`, any alignment of the cursor, across
any number of refills): the bytes stored are the packed image of the next `k` bits (last byte zero
padded), exactly `k` bits are dropped, `Read()` grows by exactly `k`.  Covers the aligned bulk
copy and the unaligned 256-bit / 64-bit word loops. -/
theorem C14_ibs_readArray (s : St) (hi : Inv s) (hf : Fresh s) (k : Nat)
    (hen : k ≤ (remaining s).length) :
    ∃ out s', readArray s k = (.val out, s') ∧
      out.map BitVec.toNat = packBytes ((remaining s).take k) ∧
      remaining s' = (remaining s).drop k ∧ Inv s' ∧ s'.count = s.count + k ∧ Fresh s' :=
  readArray_refines s hi hf k hen

/-- End of stream (needed by C09): over a source that ends with EOF, asking for more bits than
remain panics with class `eos` — zero bits are never fabricated. -/
theorem C14_ibs_eos (s : St) (hi : Inv s) (hc : s.closed = false) (ht : s.src.term = .eof) :
    (∀ n, 1 ≤ n → n ≤ 64 → (remaining s).length < n → (readBits s n).1 = .panic .eos) ∧
    ((remaining s).length = 0 → (readBit s).1 = .panic .eos) ∧
    (∀ k, Fresh s → (remaining s).length < k → (readArray s k).1 = .panic .eos) := by
  have he : s.src.term.err = .eos := by rw [ht]; rfl
  refine ⟨fun n h1 h64 h => ?_, fun h => ?_, fun k hf h => ?_⟩
  · rw [← he]; exact readBits_short s hi hc n h1 h64 h
  · rw [← he]; exact readBit_short s hi hc h
  · rw [← he]; exact readArray_short s hi hf k h

/-- `HasMoreToRead` on an open stream: true iff a bit remains, else the ending of the source as
an error value; it consumes nothing. -/
theorem C14_ibs_hasMore (s : St) (hi : Inv s) (hc : s.closed = false) :
    (hasMore s).1 = (if (remaining s).length = 0 then .panic s.src.term.err else .val ()) ∧
    remaining (hasMore s).2 = remaining s ∧ (hasMore s).2.count = s.count :=
  hasMore_spec s hi hc

/-- After `Close`: the stream is closed, `Read()` is unchanged, `Close` is idempotent, and every
read operation panics with class `closed` (Go: `pull → readFromInputStream → "Stream closed"`) and
leaves the state unchanged; `ReadBits` still checks its count first. -/
theorem C14_ibs_closed (s : St) (hi : Inv s) :
    (close s).closed = true ∧ (close s).count = s.count ∧ close (close s) = close s ∧
    Inv (close s) ∧
    (∀ t, IBS.Inv t → t.closed = true →
      readBit t = (.panic .closed, t) ∧
      (∀ n, 1 ≤ n → n ≤ 64 → readBits t n = (.panic .closed, t)) ∧
      (∀ n, n = 0 ∨ n > 64 → readBits t n = (.panic .invalidCount, t)) ∧
      (∀ k, readArray t k = (.panic .closed, t)) ∧
      hasMore t = (.panic .closed, t)) :=
  ⟨close_closed s, close_count s, close_idem s, (close_sim s hi).2,
    fun t ht hc => ⟨readBit_after_close t ht hc, fun n h1 h64 => readBits_after_close t ht hc n h1 h64,
      fun n hn => readBits_invalid t n hn, fun k => readArray_after_close t hc k,
      hasMore_after_close t hc⟩⟩

/-- Mirror, stated on `Kanzi.Bits` only: reading the byte image `packBytes w` of the bits written
by `WriteBits(v, n)` calls (`v < 2^n`) with reads of the same sizes returns the written values. -/
theorem C14_mirror (ws : List (Nat × Nat)) (hv : ∀ w ∈ ws, w.1 < 2 ^ w.2) :
    specReads (ofBytes (packBytes (bitsOfWrites ws))) (ws.map (·.2)) = ws.map (·.1) := by
  rw [ofBytes_packBytes _ _ rfl]
  exact specReads_writes ws hv _

/-- Mirror through the model: a stream over any chunking of the bytes `packBytes w` (any buffer
size) returns, for reads of the sizes written, the written values, and `Read()` after each read is
the number of bits read so far. -/
theorem C14_mirror_ibs (bs : Nat) (hb : bs % 8 = 0 ∧ 0 < bs) (chunks : List (List IBS.Byte))
    (hne : ∀ c ∈ chunks, c ≠ []) (term : Term) (ws : List (Nat × Nat))
    (hw : ∀ w ∈ ws, 1 ≤ w.2 ∧ w.2 ≤ 64 ∧ w.1 < 2 ^ w.2)
    (himg : chunks.flatten.map BitVec.toNat = packBytes (bitsOfWrites ws)) :
    run (init bs (plainSrc chunks term)) (ws.map (fun w => Op.readBits w.2)) = mirrorOut 0 ws := by
  have hrem : remaining (init bs (plainSrc chunks term)) =
      bitsOfWrites ws ++ List.replicate ((8 - (bitsOfWrites ws).length % 8) % 8) false := by
    rw [remaining_init]
    simp only [plainSrc]
    rw [srcBytes_plain, bytesBits, himg, ofBytes_packBytes _ _ rfl]
  exact run_mirror ws _ _ (init_inv bs _ hb.1 hb.2 (plain_ne chunks hne term)) rfl hw hrem

/-- the hypotheses are satisfiable: the initial state over a two-chunk source -/
example : Inv (init 1024 (plainSrc [[1, 2, 3], [4]] .eof)) ∧
    Fresh (init 1024 (plainSrc [[1, 2, 3], [4]] .eof)) ∧
    (remaining (init 1024 (plainSrc [[1, 2, 3], [4]] .eof))).length = 32 := by
  refine ⟨init_inv _ _ (by decide) (by decide) (plain_ne _ (by decide) _),
    (init_good _ _ (by decide) (by decide) (plain_ne _ (by decide) _)).2.resolve_left (by decide), ?_⟩
  rw [remaining_init]
  simp only [plainSrc]
  rw [srcBytes_plain, bytesBits_length]
  rfl

end Kanzi.C14
