/-
Proofs for `Kanzi/Model/BlockGen3.lean`, part 2: the law of an abstract TEXT implementation (`TextLaw`), and every
kind of `Kind3` satisfies the per-transform law `Tr2.Law` (from the round-trip theorems of the slices utf, exe,
rolz, bwt, bwts), with its output bound `Kind3.grow`: EXE adds at most `len/50` bytes, BWT at most 33 (its header),
the other new transforms never expand a block (UTF, ROLZ, ROLZX shrink it or decline, BWTS and TEXT keep at most
its length).
-/
import Kanzi.Proofs.BlockGen3
import Kanzi.Properties.C13_utf
import Kanzi.Properties.C13_exe
import Kanzi.Properties.C13_rolz
import Kanzi.Properties.C13_bwt
import Kanzi.Properties.C13_bwts

namespace Kanzi.BlockGen3
open Kanzi.Bits Kanzi.TrSmall Kanzi.Block Kanzi.BlockGen Kanzi.BlockGen2

/-! ### the law of a TEXT implementation -/

/-- What the chain theorems need from an implementation of `transform.TextCodec` — the shape of the C13 theorems of
the other transform slices (`C13_utf`, `C13_exe`, …), with the two restrictions on the destination of Inverse that
TextCodec.go really has (slice text):
  * `maxLen`      `MaxEncodedLen(n) = n` (both delegates of TextCodec.go);
  * `inverse_nil` Inverse of an empty input is empty (`len(src) == 0`: "0 bytes, no error");
  * `roundtrip`   for every block of bytes (shorter than 2^31), every data type hint and every destination of at least
                  `MaxEncodedLen` bytes: an ACCEPTED Forward returns at most `MaxEncodedLen(len)` bytes, all of them byte
                  values, which Inverse turns back into the block in ANY destination STRICTLY LONGER than the block and
                  SHORTER THAN 2^39 bytes.  (Strict: `textCodec1.Inverse` fails into a destination of exactly the
                  block length when the block ends with an escape byte 0x0E / 0x0F — finding of the text slice; the
                  sequence always inverts into buffers of at least `blockSize + 512` bytes.  2^39: both codecs size
                  their hash table from `uint32(len(dst)/128)`, which wraps there; the Reader never hands a decoding
                  task a frame of more than 2^34 bits, which keeps its buffers below 2^33 bytes.)
  * `small_dst`   Forward does not succeed into a non-empty destination smaller than `MaxEncodedLen` ("Output buffer
                  is too small");
  * `no_fault`    Forward never panics into a destination of at least `MaxEncodedLen` bytes.
(The `dataType` write-back `ctxWrite` is unconstrained: every theorem holds whatever hint the later stages see.) -/
structure TextLaw (t : TextImpl) : Prop where
  maxLen : ∀ n, t.maxEncodedLen n = n
  inverse_nil : ∀ n, t.inverse [] n = .ok []
  roundtrip : ∀ (dt : Nat) (b y : List Nat) (dstLen : Nat), (∀ x ∈ b, x < 256) → b.length < 2 ^ 31 →
    t.maxEncodedLen b.length ≤ dstLen → t.forward dt b dstLen = .ok y →
      y.length ≤ t.maxEncodedLen b.length ∧ (∀ v ∈ y, v < 256) ∧
        ∀ n, b.length < n → n < 2 ^ 39 → t.inverse y n = .ok b
  small_dst : ∀ (dt : Nat) (b y : List Nat) (dstLen : Nat), b ≠ [] → 0 < dstLen →
    dstLen < t.maxEncodedLen b.length → t.forward dt b dstLen ≠ .ok y
  no_fault : ∀ (dt : Nat) (b : List Nat) (dstLen : Nat) (e : String), (∀ x ∈ b, x < 256) →
    t.maxEncodedLen b.length ≤ dstLen → t.forward dt b dstLen ≠ .fault e

/-- the stub used for chains without TEXT satisfies the law (it accepts nothing but the empty block) -/
def idText : TextImpl :=
  ⟨fun _ x d => if x.length = 0 ∨ d = 0 then .ok [] else .err "no-text", fun _ _ _ => Option.none,
   fun y _ => if y.length = 0 then .ok [] else .err "no-text", fun n => n⟩

theorem textLaw_idText : TextLaw idText where
  maxLen := fun _ => rfl
  inverse_nil := fun _ => rfl
  roundtrip := by
    intro dt b y d _ _ hdst h
    simp only [idText] at h hdst ⊢
    split at h
    · rename_i h0
      injection h with h
      subst h
      have hb : b = [] := by
        rcases h0 with h0 | h0
        · exact List.eq_nil_of_length_eq_zero h0
        · exact List.eq_nil_of_length_eq_zero (by omega)
      subst hb
      exact ⟨Nat.le_refl _, by simp, fun _ _ _ => rfl⟩
    · cases h
  small_dst := by
    intro dt b y d hne hd _ h
    simp only [idText] at h
    split at h
    · rename_i h0
      rcases h0 with h0 | h0
      · exact hne (List.eq_nil_of_length_eq_zero h0)
      · omega
    · cases h
  no_fault := by
    intro dt b d e _ _ h
    simp only [idText] at h
    split at h <;> cases h

/-! ### output bounds -/

/-- bound on the output length of a successful Forward -/
def Kind3.grow : Kind3 → Nat → Nat
  | .old k => k.grow
  | .exe => fun a => a + a / 50
  | .bwt _ => fun a => a + 33
  | _ => fun a => a

def Kind3.ltr (text : TextImpl) (k : Kind3) : LTr := ⟨k.tr text, k.grow⟩

def kind3Ltrs (text : TextImpl) (ks : List Kind3) : List LTr := ks.map (Kind3.ltr text)

theorem ltrs_kind3Ltrs (text : TextImpl) (ks : List Kind3) : ltrs (kind3Ltrs text ks) = kind3Trs text ks := by
  simp [ltrs, kind3Ltrs, kind3Trs, Kind3.ltr, List.map_map, Function.comp_def]

/-- a well-formed kind: the job count handed to the BWT is at least 1 (`NewBWTWithCtx` fails otherwise: "The
number of jobs must be at least 1"; every task of a Writer / Reader gets at least one job) -/
def Kind3.WF : Kind3 → Prop
  | .bwt jobs => 1 ≤ jobs
  | _ => True

instance (k : Kind3) : Decidable k.WF := by cases k <;> unfold Kind3.WF <;> infer_instance

/-! ### UTF -/

theorem law_utf (text : TextImpl) : (Kind3.utf.tr text).Law Kind3.utf.grow lawLim where
  gmono := fun a b h => h
  gbound := fun s r h _ => by show s ≤ max r (Kanzi.UTF.utfMaxEncodedLen r); omega
  invNil := fun n => by simp [Kind3.tr, ofRlt, Kanzi.UTF.utfInverse]
  rt := by
    intro dt x d y hb hl hd hf
    have hf' : Kanzi.UTF.utfForward dt x d = .ok y := ofRlt_ok hf
    by_cases hx : x.length = 0
    · have hx' : x = [] := List.eq_nil_of_length_eq_zero hx
      subst hx'
      have : y = [] := by
        unfold Kanzi.UTF.utfForward at hf'
        simp at hf'
        first | exact hf' | exact hf'.symm
      exact nil_case this (fun n => by simp [Kind3.tr, ofRlt, Kanzi.UTF.utfInverse])
    · have hdst : Kanzi.UTF.utfMaxEncodedLen x.length ≤ d := by
        by_cases hlt : d < Kanzi.UTF.utfMaxEncodedLen x.length
        · unfold Kanzi.UTF.utfForward at hf'
          rw [if_neg (by omega)] at hf'
          split at hf'
          · cases hf'
          · first | cases hf' | (rw [if_pos hlt] at hf'; cases hf')
        · omega
      obtain ⟨_, h2, h3, h4, _⟩ := Kanzi.UTF.utf_roundtrip dt x y d hb hdst hf'
      refine ⟨h3, Nat.le_of_lt (h2 (fun h => hx (by rw [h]; rfl))), fun n hn => ?_⟩
      show ofRlt (Kanzi.UTF.utfInverse false y n) = .ok x
      rw [h4 n hn]; rfl

/-! ### EXE -/

/-- an accepted block grows by at most 2 % (the cap both section encoders enforce) -/
theorem exe_len50 (dt : Option Nat) (src t : List Nat) (dstLen : Nat)
    (hb : ∀ x ∈ src, x < 256) (hdst : Kanzi.EXE.exeMaxEncodedLen src.length ≤ dstLen)
    (h : Kanzi.EXE.exeForward dt src dstLen = .ok t) : t.length ≤ src.length + src.length / 50 := by
  simp only [Kanzi.EXE.exeForward] at h
  split at h
  next h0 =>
    cases h
    simp
  next h0 =>
    split at h
    · cases h
    next hmin =>
      split at h
      · cases h
      next hmax =>
        split at h
        · cases h
        · split at h
          · cases h
          · cases hd : Kanzi.EXE.detectExeType (List.take (src.length - 4) src).toArray 0 ((src.length : Int) - 8) with
            | ok d =>
              rw [hd] at h
              simp only [Kanzi.RLT.Out.bind_ok] at h
              have hlen : src.length ≤ Kanzi.EXE.MAX_BLOCK_SIZE := by omega
              split at h
              · cases h
              · split at h
                · exact (Kanzi.EXE.fwdX86_roundtrip src dstLen _ _ t hb hlen h).1
                · split at h
                  · exact (Kanzi.EXE.fwdARM_roundtrip src dstLen _ _ t hb hlen h).1
                  · cases h
            | err e => rw [hd] at h; cases h
            | fault e => rw [hd] at h; cases h

theorem law_exe (text : TextImpl) : (Kind3.exe.tr text).Law Kind3.exe.grow lawLim where
  gmono := fun a b h => by show a + a / 50 ≤ b + b / 50; omega
  gbound := fun s r h _ => by
    show s + s / 50 ≤ max r (Kanzi.EXE.exeMaxEncodedLen r)
    unfold Kanzi.EXE.exeMaxEncodedLen
    split <;> omega
  invNil := fun n => by simp [Kind3.tr, ofRlt, Kanzi.EXE.exeInverse_nil]
  rt := by
    intro dt x d y hb hl hd hf
    have hf' : Kanzi.EXE.exeForward (some dt) x d = .ok y := ofRlt_ok hf
    by_cases hx : x.length = 0
    · have hx' : x = [] := List.eq_nil_of_length_eq_zero hx
      subst hx'
      have : y = [] := by
        unfold Kanzi.EXE.exeForward at hf'
        simp at hf'
        first | exact hf' | exact hf'.symm
      exact nil_case this (fun n => by simp [Kind3.tr, ofRlt, Kanzi.EXE.exeInverse_nil])
    · have hdst : Kanzi.EXE.exeMaxEncodedLen x.length ≤ d := by
        by_cases hlt : d < Kanzi.EXE.exeMaxEncodedLen x.length
        · simp only [Kanzi.EXE.exeForward] at hf'
          rw [if_neg (by omega)] at hf'
          split at hf'
          · cases hf'
          · split at hf'
            · cases hf'
            · first | cases hf' | (rw [if_pos hlt] at hf'; cases hf')
        · omega
      obtain ⟨_, h2, h3⟩ := Kanzi.EXE.exe_roundtrip (some dt) x y d hb hdst hf'
      refine ⟨h2, exe_len50 (some dt) x y d hb hdst hf', fun n hn => ?_⟩
      show ofRlt (Kanzi.EXE.exeInverse false y n) = .ok x
      rw [h3 n hn]; rfl

/-! ### BWTS (forward = the specification) -/

theorem ofBwts_ok {r : Kanzi.BWTS.Res} {y : List Nat} (h : ofBwts r = .ok y) : r = .ok y := by
  cases r <;> simp [ofBwts] at h ⊢
  exact h

theorem law_bwts (text : TextImpl) : (Kind3.bwts.tr text).Law Kind3.bwts.grow lawLim where
  gmono := fun a b h => h
  gbound := fun s r h _ => by show s ≤ max r (Kanzi.BWTS.maxEncodedLen r); omega
  invNil := fun n => by
    show ofBwts (Kanzi.BWTS.bwtsInverseFill 0 [] n) = .ok []
    simp [Kanzi.BWTS.bwtsInverseFill, ofBwts]
  rt := by
    intro dt x d y hb hl hd hf
    have hf' : bwtsSpecForward x d = .ok y := ofBwts_ok hf
    unfold bwtsSpecForward at hf'
    split at hf'
    · rename_i h0
      injection hf' with hf'
      have hx : x = [] := by
        rcases h0 with h0 | h0
        · exact List.eq_nil_of_length_eq_zero h0
        · omega
      subst hx
      refine nil_case hf'.symm (fun n => ?_)
      show ofBwts (Kanzi.BWTS.bwtsInverseFill 0 [] n) = .ok []
      simp [Kanzi.BWTS.bwtsInverseFill, ofBwts]
    · split at hf'
      · cases hf'
      · split at hf'
        · cases hf'
        · rename_i _ _ hmax
          injection hf' with hf'
          subst hf'
          refine ⟨Kanzi.BWTS.bwtsSpec_bytes hb, by rw [Kanzi.BWTS.bwtsSpec_length]; exact Nat.le_refl _,
            fun n hn => ?_⟩
          show ofBwts (Kanzi.BWTS.bwtsInverseFill 0 (Kanzi.BWTS.bwtsSpec x) n) = .ok x
          rw [Kanzi.BWTS.bwtsInverse_bwtsSpec 0 x n hb (by omega) hn]; rfl

/-! ### BWT (forward = the specification + the header of BWTBlockCodec) -/

theorem ofBwtF_ok {r : Kanzi.BWT.Res (List Nat)} {y : List Nat} (h : ofBwtF r = .ok y) : r = .ok y := by
  cases r <;> simp [ofBwtF] at h ⊢
  exact h

theorem blockInverse_nil (jobs n : Nat) :
    ofBwtI (Kanzi.BWT.blockInverse #[] (List.replicate 8 0) jobs ([] : List Nat).toArray n).1 = .ok [] := by
  simp [Kanzi.BWT.blockInverse, ofBwtI]

theorem headerBytes_lt (chunks psz : Nat) (pidx : List Nat) :
    ∀ b ∈ Kanzi.BWT.headerBytes chunks psz pidx, b < 256 := by
  intro b hb
  rw [Kanzi.BWT.headerBytes_eq] at hb
  rcases List.mem_cons.mp hb with hb | hb
  · subst hb; exact Nat.mod_lt _ (by decide)
  · simp only [Kanzi.BWT.indexBytes, List.mem_flatten, List.mem_map] at hb
    obtain ⟨l, ⟨i, _, rfl⟩, hbl⟩ := hb
    exact Kanzi.BWT.beBytes_lt _ _ b hbl

theorem law_bwt (text : TextImpl) (jobs : Nat) (hj : 1 ≤ jobs) :
    ((Kind3.bwt jobs).tr text).Law (Kind3.bwt jobs).grow lawLim where
  gmono := fun a b h => by show a + 33 ≤ b + 33; omega
  gbound := fun s r h _ => by
    show s + 33 ≤ max r (Kanzi.BWT.maxEncodedLen r)
    unfold Kanzi.BWT.maxEncodedLen Kanzi.BWT.MAX_HEADER_SIZE; omega
  invNil := fun n => blockInverse_nil jobs n
  rt := by
    intro dt x d y hb hl hd hf
    have hf' : Kanzi.BWT.blockForward x d = .ok y := ofBwtF_ok hf
    by_cases hx : x.length = 0
    · have hx' : x = [] := List.eq_nil_of_length_eq_zero hx
      subst hx'
      have : y = [] := by
        unfold Kanzi.BWT.blockForward at hf'
        simp at hf'
        first | exact hf' | exact hf'.symm
      exact nil_case this (fun n => blockInverse_nil jobs n)
    · -- the checks of Forward
      have hdst : Kanzi.BWT.maxEncodedLen x.length ≤ d := by
        by_cases hlt : d < Kanzi.BWT.maxEncodedLen x.length
        · unfold Kanzi.BWT.blockForward at hf'
          rw [if_neg (by omega), if_pos hlt] at hf'; cases hf'
        · omega
      have h2 : 2 ≤ x.length := by
        by_cases h1 : x.length = 1
        · unfold Kanzi.BWT.blockForward at hf'
          rw [if_neg (by omega), if_neg (by omega)] at hf'
          have hp : Kanzi.BWT.pIndexSizeOf x.length = 0 := by rw [h1]; decide
          simp only [hp, true_or, ite_true] at hf'
          cases hf'
        · omega
      have hmax : x.length ≤ Kanzi.BWT.MAX_BLOCK_SIZE := by
        by_cases hgt : x.length > Kanzi.BWT.MAX_BLOCK_SIZE
        · unfold Kanzi.BWT.blockForward at hf'
          rw [if_neg (by omega), if_neg (by omega)] at hf'
          simp only at hf'
          split at hf'
          · cases hf'
          · split at hf'
            · cases hf'
            · first | cases hf' | (rw [if_pos hgt] at hf'; cases hf')
        · omega
      have heq := Kanzi.BWT.blockForward_eq x h2 hmax d hdst
      rw [heq] at hf'
      injection hf' with hf'
      have hbytes : Bytes y := by
        rw [← hf']
        intro b hb'
        rcases List.mem_append.mp hb' with hb' | hb'
        · exact headerBytes_lt _ _ _ b hb'
        · exact Kanzi.BWT.bwtData_lt x hb b hb'
      have hlen : y.length ≤ x.length + 33 := by
        obtain ⟨enc, he, _, hle⟩ := Kanzi.BWT.blockForward_length x h2 hmax d hdst
        rw [heq] at he
        injection he with he
        rw [← hf', he]
        unfold Kanzi.BWT.maxEncodedLen Kanzi.BWT.MAX_HEADER_SIZE at hle
        omega
      refine ⟨hbytes, hlen, fun n hn => ?_⟩
      show ofBwtI (Kanzi.BWT.blockInverse #[] (List.replicate 8 0) jobs y.toArray n).1 = .ok x
      by_cases hsm : x.length ≤ Kanzi.BWT.THRESHOLD2
      · obtain ⟨enc, he, _, hinv⟩ := Kanzi.BWT.block_roundtrip_small x h2 hsm hb d hdst #[] (by decide)
          (List.replicate 8 0) jobs n hn
        rw [heq] at he
        injection he with he
        rw [← hf', he, hinv]
        simp [ofBwtI]
      · obtain ⟨enc, he, _, hinv⟩ := Kanzi.BWT.block_roundtrip_big x (by omega) hmax hb d hdst #[]
          (List.replicate 8 0) jobs n hj hn
        rw [heq] at he
        injection he with he
        rw [← hf', he, hinv]
        simp [ofBwtI]

/-! ### ROLZX -/

theorem ofRolzF_ok {r : Kanzi.ROLZ.Out (List Nat)} {y : List Nat} (h : ofRolzF r = .ok y) : r = .ok y := by
  cases r <;> simp [ofRolzF] at h ⊢
  exact h

/-- `dst[0:written]` of an Inverse that restored the block in a destination of `n` bytes -/
theorem extract_restored (x : List Nat) (dst : Array Nat) (hsz : x.length ≤ dst.size)
    (h : ∀ k, k < x.length → dst.getD k 0 = x.getD k 0) : (dst.extract 0 x.length).toList = x := by
  apply List.ext_getElem
  · simp; omega
  · intro i h1 h2
    have hi : i < x.length := h2
    have := h i hi
    simp only [Array.getD_eq_getD_getElem?, List.getD_eq_getElem?_getD] at this
    rw [Array.getElem?_eq_getElem (by omega), List.getElem?_eq_getElem hi] at this
    simp only [Option.getD_some] at this
    simp [this]

theorem mem_of_getD_lt (t : List Nat) (h : ∀ k, t.getD k 0 < 256) : ∀ y ∈ t, y < 256 := by
  intro y hy
  obtain ⟨i, hi, rfl⟩ := List.getElem_of_mem hy
  have := h i
  rw [List.getD_eq_getElem?_getD, List.getElem?_eq_getElem hi] at this
  exact this

/-- the output of an accepted ROLZX Forward consists of byte values (header bytes + the bytes of the range coder) -/
theorem rolzxForward_bytes {cs lpc : Nat} {hasCtx : Bool} {dt : Nat} {src t : List Nat} {dstLen : Nat}
    (h : Kanzi.ROLZ.rolzxForward cs lpc hasCtx dt src dstLen = .ok t) : ∀ y ∈ t, y < 256 := by
  unfold Kanzi.ROLZ.rolzxForward at h
  by_cases h0 : src.length = 0 ∨ dstLen = 0
  · rw [if_pos h0] at h
    injection h with h
    subst h
    intro y hy; cases hy
  · rw [if_neg h0] at h
    split at h
    · cases h
    · split at h
      · cases h
      · split at h
        · cases h
        · dsimp only at h
          obtain ⟨_, _, _, hfl, _⟩ := Kanzi.ROLZ.fwdParams2_spec (Kanzi.ROLZ.effType hasCtx dt src)
          generalize Kanzi.ROLZ.fwdParams2 (Kanzi.ROLZ.effType hasCtx dt src) = prm at h hfl
          split at h
          · rename_i srcIdx startChunk sizeChunk s hch
            split at h
            · rename_i s' hlast
              split at h
              · rename_i out hdisp
                split at h
                · cases h
                · split at h
                  · cases h
                  · injection h with h
                    subst h
                    have hob0 : Kanzi.ROLZ.OutBytes ⟨0, Kanzi.ROLZ.TOP, #[(src.toArray.size >>> 24) % 256,
                        (src.toArray.size >>> 16) % 256, (src.toArray.size >>> 8) % 256, src.toArray.size % 256,
                        prm.2.2]⟩ :=
                      Kanzi.ROLZ.header_getD _ _ _ _ _ (Nat.mod_lt _ (by decide)) (Nat.mod_lt _ (by decide))
                        (Nat.mod_lt _ (by decide)) (Nat.mod_lt _ (by decide)) hfl
                    have ho0 : Kanzi.ROLZ.EncOk ⟨⟨Kanzi.ROLZ.matches0 lpc, Array.replicate Kanzi.ROLZ.HASH_SIZE 0⟩,
                        ⟨0, Kanzi.ROLZ.TOP, #[(src.toArray.size >>> 24) % 256, (src.toArray.size >>> 16) % 256,
                          (src.toArray.size >>> 8) % 256, src.toArray.size % 256, prm.2.2]⟩, Kanzi.ROLZ.probs0 9,
                        Kanzi.ROLZ.probs0 lpc⟩ :=
                      ⟨Kanzi.ROLZ.einv_init _, Kanzi.ROLZ.probs0_ok 9, Kanzi.ROLZ.probs0_ok lpc, hob0⟩
                    have hB0 : Kanzi.ROLZ.Bytes [] := fun k => by simp
                    obtain ⟨o1, _⟩ := Kanzi.ROLZ.fwdChunks_enc hB0 _ _ _ _ _ _ hch ho0
                    obtain ⟨o2, _⟩ := Kanzi.ROLZ.fwdLast_enc hB0 _ _ _ _ hlast o1
                    apply mem_of_getD_lt
                    intro k
                    rw [Kanzi.ROLZ.toList_getD]
                    exact Kanzi.ROLZ.dispose_bytes hdisp o2.bytes k
              · cases h
              · cases h
            · cases h
            · cases h
          · cases h
          · cases h

theorem law_rolzx (text : TextImpl) : (Kind3.rolzx.tr text).Law Kind3.rolzx.grow lawLim where
  gmono := fun a b h => h
  gbound := fun s r h _ => by show s ≤ max r (Kanzi.ROLZ.maxEncodedLen2 r); omega
  invNil := fun n => by simp [Kind3.tr, ofRolzI, Kanzi.ROLZ.rolzxInverse]
  rt := by
    intro dt x d y hb hl hd hf
    have hf' : Kanzi.ROLZ.rolzxForward Kanzi.ROLZ.CHUNK_SIZE Kanzi.ROLZ.LOG_POS_CHECKS2 true dt x d = .ok y :=
      ofRolzF_ok hf
    by_cases hx : x.length = 0
    · have hx' : x = [] := List.eq_nil_of_length_eq_zero hx
      subst hx'
      have : y = [] := by
        unfold Kanzi.ROLZ.rolzxForward at hf'
        simp at hf'
        first | exact hf' | exact hf'.symm
      exact nil_case this (fun n => by simp [Kind3.tr, ofRolzI, Kanzi.ROLZ.rolzxInverse])
    · have hdst : Kanzi.ROLZ.maxEncodedLen2 x.length ≤ d := by
        by_cases hlt : d < Kanzi.ROLZ.maxEncodedLen2 x.length
        · unfold Kanzi.ROLZ.rolzxForward at hf'
          rw [if_neg (by omega)] at hf'
          split at hf'
          · cases hf'
          · split at hf'
            · cases hf'
            · first | cases hf' | (rw [if_pos hlt] at hf'; cases hf')
        · omega
      have hlen : y.length ≤ x.length := (Kanzi.C13.C13_rolzx_bound hf').1
      refine ⟨rolzxForward_bytes hf', hlen, fun n hn => ?_⟩
      obtain ⟨dst, hinv, hsz, hget⟩ := Kanzi.C13.C13_rolzx_real (Array.replicate n 0) hb hdst
        (by rw [Array.size_replicate]; exact hn) hf'
      show ofRolzI (Kanzi.ROLZ.rolzxInverse Kanzi.ROLZ.CHUNK_SIZE Kanzi.ROLZ.LOG_POS_CHECKS2 6 y
        (Array.replicate n 0)) = .ok x
      rw [hinv]
      show Except.ok (dst.extract 0 x.length).toList = .ok x
      rw [extract_restored x dst (by rw [hsz, Array.size_replicate]; exact hn) hget]

/-! ### ROLZ -/

theorem all_lt_append (a b : Array Nat) (ha : ∀ v ∈ a.toList, v < 256) (hb : ∀ v ∈ b.toList, v < 256) :
    ∀ v ∈ (a ++ b).toList, v < 256 := by
  intro v hv
  rw [Array.toList_append] at hv
  rcases List.mem_append.mp hv with hv | hv
  · exact ha v hv
  · exact hb v hv

theorem fwd1Chunks_bytes {a : Array Nat} {cp : Kanzi.ROLZ.Caps} {dstLen srcEnd mm delta lpc litOrder : Nat} :
    ∀ (f st sz : Nat) (tab : Kanzi.ROLZ.Tab) (out : Array Nat) (r : Nat × Nat × Kanzi.ROLZ.Tab × Array Nat),
    Kanzi.ROLZ.fwd1Chunks a cp dstLen srcEnd mm delta lpc litOrder f st sz tab out = .ok r →
    (∀ v ∈ out.toList, v < 256) → ∀ v ∈ r.2.2.2.toList, v < 256 := by
  intro f
  induction f with
  | zero => intro st sz tab out r h; simp [Kanzi.ROLZ.fwd1Chunks] at h
  | succ f ih =>
    intro st sz tab out r h hout
    simp only [Kanzi.ROLZ.fwd1Chunks] at h
    split at h
    · split at h
      · cases h
      · split at h
        · split at h
          · split at h
            · cases h
            · split at h
              · cases h
              · refine ih _ _ _ _ _ h (all_lt_append _ _ hout ?_)
                intro v hv
                rw [Kanzi.ROLZ.packFast_toList] at hv
                exact Kanzi.Block.packFast_lt _ v hv
          · cases h
          · cases h
        · cases h
        · cases h
    · injection h with h
      subst h
      exact hout

/-- the output of an accepted ROLZ Forward consists of byte values (header, packed chunk bitstreams, the four last
bytes of the block) -/
theorem rolzForward_bytes {cs lpc : Nat} {hasCtx : Bool} {dt : Nat} {src t : List Nat} {dstLen : Nat}
    (hb : ∀ x ∈ src, x < 256) (h : Kanzi.ROLZ.rolzForward cs lpc hasCtx dt src dstLen = .ok t) : ∀ y ∈ t, y < 256 := by
  unfold Kanzi.ROLZ.rolzForward at h
  by_cases h0 : src.length = 0 ∨ dstLen = 0
  · rw [if_pos h0] at h
    injection h with h
    subst h
    intro y hy; cases hy
  · rw [if_neg h0] at h
    split at h
    · cases h
    · split at h
      · cases h
      · split at h
        · cases h
        · dsimp only at h
          split at h
          · rename_i startChunk szf tabf out hch
            have hout : ∀ v ∈ out.toList, v < 256 := by
              refine fwd1Chunks_bytes _ _ _ _ _ _ hch ?_
              intro v hv
              simp only [List.mem_cons, List.not_mem_nil, or_false] at hv
              rcases hv with rfl | rfl | rfl | rfl | rfl <;> exact Nat.mod_lt _ (by decide)
            split at h
            · cases h
            · split at h
              · rename_i b0 b1 b2 b3 e0 e1 e2 e3
                split at h
                · cases h
                · split at h
                  · cases h
                  · injection h with h
                    subst h
                    have hrd : ∀ (i v : Nat), Kanzi.ROLZ.rd1 src.toArray src.toArray.size i = some v → v < 256 := by
                      intro i v hv
                      by_cases hi : i < src.toArray.size
                      · rw [Kanzi.ROLZ.rd1_eq hi] at hv
                        injection hv with hv
                        rw [← hv, Kanzi.ROLZ.toArray_getD]
                        by_cases hk : i < src.length
                        · rw [List.getD_eq_getElem?_getD, List.getElem?_eq_getElem hk]
                          exact hb _ (List.getElem_mem hk)
                        · rw [List.getD_eq_getElem?_getD, List.getElem?_eq_none (by omega)]
                          decide
                      · unfold Kanzi.ROLZ.rd1 at hv
                        rw [if_neg hi] at hv
                        cases hv
                    intro y hy
                    simp only [Array.toList_push, List.mem_append, List.mem_singleton] at hy
                    rcases hy with (((hy | rfl) | rfl) | rfl) | rfl
                    · exact hout y hy
                    · exact hrd _ _ e0
                    · exact hrd _ _ e1
                    · exact hrd _ _ e2
                    · exact hrd _ _ e3
              · cases h
          · cases h
          · cases h

theorem law_rolz (text : TextImpl) : (Kind3.rolz.tr text).Law Kind3.rolz.grow lawLim where
  gmono := fun a b h => h
  gbound := fun s r h _ => by show s ≤ max r (Kanzi.ROLZ.maxEncodedLen1 r); omega
  invNil := fun n => by simp [Kind3.tr, ofRolzI, Kanzi.ROLZ.rolzInverse]
  rt := by
    intro dt x d y hb hl hd hf
    have hf' : Kanzi.ROLZ.rolzForward Kanzi.ROLZ.CHUNK_SIZE Kanzi.ROLZ.LOG_POS_CHECKS1 true dt x d = .ok y :=
      ofRolzF_ok hf
    by_cases hx : x.length = 0
    · have hx' : x = [] := List.eq_nil_of_length_eq_zero hx
      subst hx'
      have : y = [] := by
        unfold Kanzi.ROLZ.rolzForward at hf'
        simp at hf'
        first | exact hf' | exact hf'.symm
      exact nil_case this (fun n => by simp [Kind3.tr, ofRolzI, Kanzi.ROLZ.rolzInverse])
    · have hdst : Kanzi.ROLZ.maxEncodedLen1 x.length ≤ d := by
        by_cases hlt : d < Kanzi.ROLZ.maxEncodedLen1 x.length
        · unfold Kanzi.ROLZ.rolzForward at hf'
          rw [if_neg (by omega)] at hf'
          split at hf'
          · cases hf'
          · split at hf'
            · cases hf'
            · first | cases hf' | (rw [if_pos hlt] at hf'; cases hf')
        · omega
      have hlen : y.length ≤ x.length := (Kanzi.C13.C13_rolz_bound hf').1
      refine ⟨rolzForward_bytes hb hf', hlen, fun n hn => ?_⟩
      obtain ⟨dst, hinv, hsz, hget⟩ := Kanzi.ROLZ.rolz_roundtrip true 6 (Array.replicate n 0) (by decide)
        (by decide) hb (fun _ => by decide) hdst (by rw [Array.size_replicate]; exact hn) hf'
      show ofRolzI (Kanzi.ROLZ.rolzInverse Kanzi.ROLZ.CHUNK_SIZE Kanzi.ROLZ.LOG_POS_CHECKS1 true 6 y
        (Array.replicate n 0)) = .ok x
      rw [hinv]
      show Except.ok (dst.extract 0 x.length).toList = .ok x
      rw [extract_restored x dst (by rw [hsz, Array.size_replicate]; exact hn) hget]

/-! ### the strict bound `gboundS` of every kind -/

theorem old_gboundS (k : Kind) (s r : Nat) (h : s < r) (hs : s ≤ lawLim) :
    max s (k.grow s) < max r (k.tr.maxLen r) := by
  unfold lawLim at hs
  cases k with
  | none => show max s s < max r (nullMaxEncodedLen r); unfold nullMaxEncodedLen; omega
  | zrlt => show max s s < max r (zrltMaxEncodedLen r); unfold zrltMaxEncodedLen; omega
  | sbrt m => show max s s < max r (sbrtMaxEncodedLen r); unfold sbrtMaxEncodedLen; omega
  | rlt f => show max s s < max r (RLT.rltMaxEncodedLen r); omega
  | srt =>
    show max s (s + 1024 + s / 268435456) < max r (SRT.maxEncodedLen r)
    unfold SRT.maxEncodedLen; omega
  | «alias» o => show max s s < max r (Alias.aliasMaxEncodedLen r); omega
  | lz e => show max s s < max r (LZ.maxEncodedLen r); omega
  | lzp => show max s s < max r (LZP.lzpMaxEncodedLen r); omega
  | fsd =>
    show max s (FSD.fsdMaxEncodedLen s) < max r (FSD.fsdMaxEncodedLen r)
    unfold FSD.fsdMaxEncodedLen
    simp only [Nat.shiftRight_eq_div_pow]
    have : s / 2 ^ 4 ≤ r / 2 ^ 4 := Nat.div_le_div_right (Nat.le_of_lt h)
    omega

/-! ### TEXT, under the law -/

/-- the destination sizes TEXT inverts into -/
def TextDst (n : Nat) : Prop := n < 2 ^ 39

theorem law_text (text : TextImpl) (ht : TextLaw text) (P : Nat → Prop) (hP : ∀ n, P n → TextDst n) :
    Law3 (Kind3.text.tr text) Kind3.text.grow lawLim P where
  gmono := fun a b h => h
  gbound := fun s r h _ => by
    show s ≤ max r (text.maxEncodedLen r)
    rw [ht.maxLen]; omega
  gboundS := fun s r h _ => by
    show max s s < max r (text.maxEncodedLen r)
    rw [ht.maxLen]; omega
  rt := by
    intro dt x d y hb hl hd hf
    have hf' : text.forward dt x d = .ok y := ofRlt_ok hf
    have hdst : text.maxEncodedLen x.length ≤ d := by
      by_cases hx : x = []
      · subst hx; rw [ht.maxLen]; simp
      · by_cases hlt : d < text.maxEncodedLen x.length
        · exact absurd hf' (ht.small_dst dt x y d hx hd hlt)
        · omega
    have hl31 : x.length < 2 ^ 31 := by unfold lawLim at hl; omega
    obtain ⟨h1, h2, h3⟩ := ht.roundtrip dt x y d hb hl31 hdst hf'
    rw [ht.maxLen] at h1
    refine ⟨h2, h1, fun hx hy => ?_, fun n hn hPn => ?_⟩
    · subst hy
      have := h3 (x.length + 1) (Nat.lt_succ_self _) (by omega)
      rw [ht.inverse_nil] at this
      injection this with this
      exact hx this.symm
    · show ofRlt (text.inverse y n) = .ok x
      rw [h3 n hn (hP n hPn)]; rfl

/-! ### all kinds -/

/-- every kind satisfies the law: BWT for a job count of at least 1; every kind but TEXT for any destination
sizes; TEXT under `TextLaw`, for destinations below 2^39 bytes -/
theorem kind3_law (text : TextImpl) (k : Kind3) (hwf : k.WF) (P : Nat → Prop)
    (ht : k = .text → TextLaw text ∧ ∀ n, P n → TextDst n) : Law3 (k.tr text) k.grow lawLim P := by
  cases k with
  | old k => exact Law3.ofLaw (kind_law k) (old_gboundS k) P
  | utf =>
    refine Law3.ofLaw (law_utf text) (fun s r h _ => ?_) P
    show max s s < max r (UTF.utfMaxEncodedLen r); omega
  | exe =>
    refine Law3.ofLaw (law_exe text) (fun s r h _ => ?_) P
    show max s (s + s / 50) < max r (EXE.exeMaxEncodedLen r)
    unfold EXE.exeMaxEncodedLen
    split <;> omega
  | rolz =>
    refine Law3.ofLaw (law_rolz text) (fun s r h _ => ?_) P
    show max s s < max r (ROLZ.maxEncodedLen1 r); omega
  | rolzx =>
    refine Law3.ofLaw (law_rolzx text) (fun s r h _ => ?_) P
    show max s s < max r (ROLZ.maxEncodedLen2 r); omega
  | bwt jobs =>
    refine Law3.ofLaw (law_bwt text jobs hwf) (fun s r h _ => ?_) P
    show max s (s + 33) < max r (BWT.maxEncodedLen r)
    unfold BWT.maxEncodedLen BWT.MAX_HEADER_SIZE; omega
  | bwts =>
    refine Law3.ofLaw (law_bwts text) (fun s r h _ => ?_) P
    show max s s < max r (BWTS.maxEncodedLen r); omega
  | text => exact law_text text (ht rfl).1 P (ht rfl).2

/-- the admissible destination sizes of a chain: below 2^39 bytes if TEXT occurs in it -/
def ChainDst (ks : List Kind3) (n : Nat) : Prop := Kind3.text ∈ ks → TextDst n

theorem kind3Ltrs_law (text : TextImpl) (ks : List Kind3) (hwf : ∀ k ∈ ks, k.WF)
    (ht : Kind3.text ∈ ks → TextLaw text) : ∀ l ∈ kind3Ltrs text ks, Law3 l.t l.g lawLim (ChainDst ks) := by
  intro l hl
  obtain ⟨k, hk, rfl⟩ := List.mem_map.mp hl
  exact kind3_law text k (hwf k hk) (ChainDst ks) (fun h => ⟨ht (h ▸ hk), fun n hn => hn (h ▸ hk)⟩)

/-- `MaxEncodedLen` of every kind is below the common bound `len + len/8 + 8192` (TEXT: under its law) -/
theorem kind3_maxLen_le (text : TextImpl) (k : Kind3) (ht : k = .text → TextLaw text) (m : Nat) :
    (k.tr text).maxLen m ≤ stepM m := by
  unfold stepM
  cases k with
  | old k =>
    cases k with
    | none => show nullMaxEncodedLen m ≤ _; unfold nullMaxEncodedLen; omega
    | zrlt => show zrltMaxEncodedLen m ≤ _; unfold zrltMaxEncodedLen; omega
    | sbrt _ => show sbrtMaxEncodedLen m ≤ _; unfold sbrtMaxEncodedLen; omega
    | rlt _ => show RLT.rltMaxEncodedLen m ≤ _; unfold RLT.rltMaxEncodedLen; split <;> omega
    | srt => show SRT.maxEncodedLen m ≤ _; unfold SRT.maxEncodedLen; omega
    | «alias» _ => show Alias.aliasMaxEncodedLen m ≤ _; unfold Alias.aliasMaxEncodedLen; omega
    | lz _ => show LZ.maxEncodedLen m ≤ _; unfold LZ.maxEncodedLen; split <;> omega
    | lzp => show LZP.lzpMaxEncodedLen m ≤ _; unfold LZP.lzpMaxEncodedLen; split <;> omega
    | fsd =>
      show FSD.fsdMaxEncodedLen m ≤ _
      unfold FSD.fsdMaxEncodedLen
      simp only [Nat.shiftRight_eq_div_pow]
      omega
  | utf => show UTF.utfMaxEncodedLen m ≤ _; unfold UTF.utfMaxEncodedLen; omega
  | exe => show EXE.exeMaxEncodedLen m ≤ _; unfold EXE.exeMaxEncodedLen; split <;> omega
  | rolz => show ROLZ.maxEncodedLen1 m ≤ _; unfold ROLZ.maxEncodedLen1; split <;> omega
  | rolzx => show ROLZ.maxEncodedLen2 m ≤ _; unfold ROLZ.maxEncodedLen2; split <;> omega
  | bwt _ => show BWT.maxEncodedLen m ≤ _; unfold BWT.maxEncodedLen BWT.MAX_HEADER_SIZE; omega
  | bwts => show BWTS.maxEncodedLen m ≤ _; unfold BWTS.maxEncodedLen; omega
  | text => show text.maxEncodedLen m ≤ _; rw [(ht rfl).maxLen]; omega

theorem kind3Ltrs_maxOK (text : TextImpl) (ks : List Kind3) (ht : Kind3.text ∈ ks → TextLaw text) :
    MaxOK (kind3Ltrs text ks) := by
  intro l hl m
  obtain ⟨k, hk, rfl⟩ := List.mem_map.mp hl
  exact kind3_maxLen_le text k (fun h => ht (h ▸ hk)) m

theorem grow3_le_stepB (k : Kind3) (a : Nat) : max a (k.grow a) ≤ stepB a := by
  cases k with
  | old k => exact grow_le_stepB k a
  | exe => show max a (a + a / 50) ≤ stepB a; unfold stepB; omega
  | bwt _ => show max a (a + 33) ≤ stepB a; unfold stepB; omega
  | _ => show max a a ≤ stepB a; unfold stepB; omega

theorem kind3Ltrs_step (text : TextImpl) (ks : List Kind3) : StepOK (kind3Ltrs text ks) := by
  intro l hl a
  obtain ⟨k, _, rfl⟩ := List.mem_map.mp hl
  exact grow3_le_stepB k a

/-! ### no Forward faults

The adapters of `Kind3.tr` map a `.fault` / `.hang` of a transform model (a Go panic) to a declined stage.  For
Forward that would be unfaithful (a panic fails the whole block), but it never happens: -/

theorem utf_no_fault (dt : Nat) (b : List Nat) (d : Nat) (e : String) (hb : ∀ x ∈ b, x < 256) :
    Kanzi.UTF.utfForward dt b d ≠ .fault e := by
  by_cases hd : Kanzi.UTF.utfMaxEncodedLen b.length ≤ d
  · exact Kanzi.UTF.utfForward_ne_fault dt b d hb hd e
  · unfold Kanzi.UTF.utfForward
    split
    · simp
    · split
      · simp
      · rw [if_pos (by omega)]; simp

theorem exe_no_fault (dt : Option Nat) (b : List Nat) (d : Nat) (e : String) :
    Kanzi.EXE.exeForward dt b d ≠ .fault e := by
  by_cases hd : Kanzi.EXE.exeMaxEncodedLen b.length ≤ d
  · exact (Kanzi.C13.C13_exe_total.1 dt b d e hd)
  · simp only [Kanzi.EXE.exeForward]
    split
    · simp
    · split
      · simp
      · split
        · simp
        · rw [if_pos (by omega)]; simp

theorem rolzx_no_fault (dt : Nat) (b : List Nat) (d : Nat) (e : String) (hb : ∀ x ∈ b, x < 256) :
    Kanzi.ROLZ.rolzxForward Kanzi.ROLZ.CHUNK_SIZE Kanzi.ROLZ.LOG_POS_CHECKS2 true dt b d ≠ .fault e := by
  by_cases hd : Kanzi.ROLZ.maxEncodedLen2 b.length ≤ d
  · exact Kanzi.ROLZ.rolzxForward_nf_multi hb (by decide) (by decide) hd e
  · unfold Kanzi.ROLZ.rolzxForward
    split
    · simp
    · split
      · simp
      · split
        · simp
        · rw [if_pos (by omega)]; simp

theorem bwt_no_fault (b : List Nat) (d : Nat) :
    Kanzi.BWT.blockForward b d ≠ .fault ∧ Kanzi.BWT.blockForward b d ≠ .hang := by
  unfold Kanzi.BWT.blockForward
  constructor <;> (repeat' split) <;> (try simp only []) <;> (repeat' split) <;> simp

theorem bwts_no_fault (b : List Nat) (d : Nat) : bwtsSpecForward b d ≠ .fault := by
  unfold bwtsSpecForward
  (repeat' split) <;> simp

end Kanzi.BlockGen3
