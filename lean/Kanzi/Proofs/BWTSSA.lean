/-
Slice `bwts` (C13): the specification `suffixArray` handed to the forward model in place of
DivSufSort is what its name says: the start positions of all suffixes, in strictly increasing
lexicographic order of the suffixes.
-/
import Kanzi.Proofs.BWTSLex

namespace Kanzi.BWTS

theorem suffixes_length (s : List Nat) : (suffixes s).length = s.length := by
  induction s with
  | nil => rfl
  | cons a s ih => simp [suffixes, ih]

theorem suffixes_getElem (s : List Nat) (i : Nat) (h : i < (suffixes s).length) :
    (suffixes s)[i] = s.drop i := by
  induction s generalizing i with
  | nil => simp [suffixes] at h
  | cons a s ih =>
    cases i with
    | zero => simp [suffixes]
    | succ i =>
      simp only [suffixes, List.getElem_cons_succ, List.drop_succ_cons]
      exact ih i (by simpa [suffixes] using h)

theorem mem_zip_suffixes {s : List Nat} {p : Nat × List Nat}
    (h : p ∈ (List.range s.length).zip (suffixes s)) : p.1 < s.length ∧ p.2 = s.drop p.1 := by
  obtain ⟨i, h1, h2⟩ := List.mem_iff_getElem.1 h
  have hl : i < s.length := by simpa [suffixes_length] using h1
  rw [List.getElem_zip] at h2
  subst h2
  simp only [List.getElem_range]
  exact ⟨hl, suffixes_getElem s i (by rw [suffixes_length]; exact hl)⟩

theorem suffixArray_perm (s : List Nat) : (suffixArray s).Perm (List.range s.length) := by
  unfold suffixArray
  refine ((List.mergeSort_perm _ _).map _).trans ?_
  rw [List.map_fst_zip (by rw [suffixes_length, List.length_range]; exact Nat.le_refl _)]

theorem drop_injective_lt {s : List Nat} {i j : Nat} (hi : i < s.length) (hj : j < s.length)
    (h : s.drop i = s.drop j) : i = j := by
  have := congrArg List.length h
  simp only [List.length_drop] at this
  omega

/-- the suffixes come in strictly increasing order -/
theorem suffixArray_sorted (s : List Nat) :
    (suffixArray s).Pairwise (fun i j => lexLt (s.drop i) (s.drop j) = true) := by
  unfold suffixArray
  have hs := List.pairwise_mergeSort (le := fun (a b : Nat × List Nat) => !lexLt b.2 a.2)
    (fun a b c h1 h2 => by
      simp only [Bool.not_eq_eq_eq_not, Bool.not_true] at h1 h2 ⊢
      exact lexLe_trans (u := a.2) (v := b.2) (w := c.2) h1 h2)
    (fun a b => by
      cases h : lexLt b.2 a.2 with
      | false => simp
      | true => simp [lexLt_asymm h])
    ((List.range s.length).zip (suffixes s))
  have hp := List.mergeSort_perm ((List.range s.length).zip (suffixes s))
    (fun (a b : Nat × List Nat) => !lexLt b.2 a.2)
  have hnd : (((List.range s.length).zip (suffixes s)).mergeSort
      (fun a b => !lexLt b.2 a.2)).Pairwise (fun a b => a.1 ≠ b.1) := by
    have h1 : ((((List.range s.length).zip (suffixes s)).mergeSort
        (fun a b => !lexLt b.2 a.2)).map (·.1)).Nodup := by
      have := suffixArray_perm s
      unfold suffixArray at this
      exact this.nodup_iff.2 List.nodup_range
    exact (List.pairwise_map.1 h1)
  rw [List.pairwise_map]
  have hboth := hs.and hnd
  refine List.Pairwise.imp_of_mem ?_ hboth
  intro a b ha hb hab
  obtain ⟨ha1, ha2⟩ := mem_zip_suffixes (hp.mem_iff.1 ha)
  obtain ⟨hb1, hb2⟩ := mem_zip_suffixes (hp.mem_iff.1 hb)
  have hle : lexLt b.2 a.2 = false := by simpa using hab.1
  rw [ha2, hb2] at hle
  rcases lexLe_iff.1 (show lexLe (s.drop a.1) (s.drop b.1) from hle) with h | h
  · exact absurd (drop_injective_lt ha1 hb1 h) hab.2
  · exact h

end Kanzi.BWTS
