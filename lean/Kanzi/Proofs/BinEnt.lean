/-
Proofs for the generic binary arithmetic coder (`Kanzi/Model/BinEnt.lean`, property C12).
The property theorems are restated in `Kanzi/Properties/C12_binary.lean`.

Structure:
  1. bit-operation facts on `Nat` (xor / or / shifts as div, mod, add)
  2. `natBits` / `bitsNat` / `ofBytes` facts
  3. the pure coder on 56-bit intervals (parametric in the first shift of the split computation:
     4 for BinaryEntropyCodec.go, 8 for FPAQCodec.go): invariant, window-in-range lemma
  4. the encoder model simulates the pure coder (the identical left-over top 8 bits)
  5. the decoder model, fed the pure coder's output, follows it
  6. bytes, chunks, blocks
-/
import Kanzi.Model.BinEnt
import Kanzi.Proofs.EntSmall

namespace Kanzi.BinEnt
open Kanzi.Bits Kanzi.EntSmall

/-! ## 1. bit operations -/

theorem xor_eq_zero_iff' (a b : Nat) : a ^^^ b = 0 ↔ a = b := by
  constructor
  · intro h
    apply Nat.eq_of_testBit_eq
    intro i
    have := congrArg (fun x => x.testBit i) h
    simp only [Nat.testBit_xor, Nat.zero_testBit] at this
    cases ha : a.testBit i <;> cases hb : b.testBit i <;> simp_all
  · intro h; subst h; exact Nat.xor_self a

/-- the flush test: `(low ^ high) < 1<<24` iff the bits above the low 24 agree -/
theorem xor_lt_iff (a b : Nat) : (a ^^^ b) < 2 ^ 24 ↔ a / 2 ^ 24 = b / 2 ^ 24 := by
  rw [← Nat.shiftRight_eq_div_pow, ← Nat.shiftRight_eq_div_pow, ← xor_eq_zero_iff',
    ← Nat.shiftRight_xor_distrib, Nat.shiftRight_eq_div_pow]
  constructor
  · intro h; exact Nat.div_eq_of_lt h
  · intro h
    rcases Nat.lt_or_ge (a ^^^ b) (2 ^ 24) with hc | hc
    · exact hc
    · have := Nat.div_pos hc (by decide : 0 < 2 ^ 24)
      omega

/-- `x | (2^k - 1)` sets the low `k` bits -/
theorem or_mask (x k : Nat) : x ||| (2 ^ k - 1) = (x / 2 ^ k) * 2 ^ k + (2 ^ k - 1) := by
  have hp : 0 < 2 ^ k := Nat.two_pow_pos k
  have hlt : 2 ^ k - 1 < 2 ^ k := by omega
  rw [Nat.mul_comm, Nat.two_pow_add_eq_or_of_lt hlt]
  apply Nat.eq_of_testBit_eq
  intro i
  rw [Nat.testBit_or, Nat.testBit_or, Nat.testBit_two_pow_sub_one, Nat.testBit_two_pow_mul,
    Nat.testBit_div_two_pow]
  by_cases h : i < k
  · simp [h]
  · have h2 : i ≥ k := by omega
    have h3 : i - k + k = i := by omega
    simp [h, h2, h3]

theorem shl_or (a v k : Nat) (hv : v < 2 ^ k) : (a <<< k) ||| v = a * 2 ^ k + v := by
  rw [← Nat.shiftLeft_add_eq_or_of_lt hv, Nat.shiftLeft_eq]

theorem and_mask56 (x : Nat) : x &&& MASK_0_56 = x % 2 ^ 56 :=
  Nat.and_two_pow_sub_one_eq_mod x 56

/-! ## 2. bit strings -/

theorem testBit_hi_lo (x y b j : Nat) (hy : y < 2 ^ b) :
    (x * 2 ^ b + y).testBit j = if j < b then y.testBit j else x.testBit (j - b) := by
  rw [Nat.mul_comm]; exact Nat.testBit_two_pow_mul_add x hy j

theorem natBits_ext (v w n : Nat) (h : ∀ j, j < n → v.testBit j = w.testBit j) :
    natBits v n = natBits w n := by
  unfold natBits
  apply List.map_congr_left
  intro i hi
  have := List.mem_range.mp hi
  exact h _ (by omega)

theorem natBits_split (x y a b : Nat) (hy : y < 2 ^ b) :
    natBits (x * 2 ^ b + y) (a + b) = natBits x a ++ natBits y b := by
  induction a with
  | zero =>
    rw [Nat.zero_add, natBits_zero, List.nil_append]
    apply natBits_ext
    intro j hj
    rw [testBit_hi_lo x y b j hy, if_pos hj]
  | succ a ih =>
    have e : a + 1 + b = (a + b) + 1 := by omega
    rw [e, natBits_succ, natBits_succ, ih, testBit_hi_lo x y b (a + b) hy]
    have h1 : ¬ a + b < b := by omega
    have h2 : a + b - b = a := by omega
    rw [if_neg h1, h2]
    rfl

theorem natBits_mod' (v n : Nat) : natBits (v % 2 ^ n) n = natBits v n := by
  apply natBits_ext
  intro j hj
  rw [Nat.testBit_mod_two_pow]
  simp [hj]

theorem natBits_bitsNat (l : Bits) : natBits (bitsNat l) l.length = l := by
  induction l with
  | nil => rfl
  | cons c t ih =>
    rw [List.length_cons, natBits_succ, bitsNat_cons]
    have hlt := bitsNat_lt t
    congr 1
    · rw [testBit_hi_lo c.toNat (bitsNat t) t.length t.length hlt, if_neg (Nat.lt_irrefl _), Nat.sub_self]
      cases c <;> rfl
    · have : natBits (c.toNat * 2 ^ t.length + bitsNat t) t.length = natBits (bitsNat t) t.length := by
        apply natBits_ext
        intro j hj
        rw [testBit_hi_lo _ _ _ _ hlt, if_pos hj]
      rw [this, ih]

/-- big-endian value of 4 bytes -/
theorem ofBytes_four (b0 b1 b2 b3 : Nat) (_h0 : b0 < 256) (h1 : b1 < 256) (h2 : b2 < 256) (h3 : b3 < 256) :
    ofBytes [b0, b1, b2, b3] = natBits (b0 * 2 ^ 24 + b1 * 2 ^ 16 + b2 * 2 ^ 8 + b3) 32 := by
  have e1 : natBits (b0 * 2 ^ 24 + (b1 * 2 ^ 16 + (b2 * 2 ^ 8 + b3))) 32
      = natBits b0 8 ++ natBits (b1 * 2 ^ 16 + (b2 * 2 ^ 8 + b3)) 24 :=
    natBits_split b0 (b1 * 2 ^ 16 + (b2 * 2 ^ 8 + b3)) 8 24 (by omega)
  have e2 : natBits (b1 * 2 ^ 16 + (b2 * 2 ^ 8 + b3)) 24 = natBits b1 8 ++ natBits (b2 * 2 ^ 8 + b3) 16 :=
    natBits_split b1 (b2 * 2 ^ 8 + b3) 8 16 (by omega)
  have e3 : natBits (b2 * 2 ^ 8 + b3) 16 = natBits b2 8 ++ natBits b3 8 :=
    natBits_split b2 b3 8 8 (by omega)
  have a1 : b0 * 2 ^ 24 + b1 * 2 ^ 16 + b2 * 2 ^ 8 + b3 = b0 * 2 ^ 24 + (b1 * 2 ^ 16 + (b2 * 2 ^ 8 + b3)) := by
    omega
  rw [a1, e1, e2, e3]
  simp [ofBytes_cons, ofBytes_nil]

theorem be32_value (w : Nat) (hw : w < 2 ^ 32) :
    ((w >>> 24) % 256) * 2 ^ 24 + ((w >>> 16) % 256) * 2 ^ 16 + ((w >>> 8) % 256) * 2 ^ 8 + w % 256 = w := by
  simp only [Nat.shiftRight_eq_div_pow]
  omega

theorem ofBytes_be32 (w : Nat) (hw : w < 2 ^ 32) : ofBytes (be32 w) = natBits w 32 := by
  unfold be32
  rw [ofBytes_four _ _ _ _ (Nat.mod_lt _ (by decide)) (Nat.mod_lt _ (by decide))
    (Nat.mod_lt _ (by decide)) (Nat.mod_lt _ (by decide)), be32_value w hw]

theorem be32_lt (w : Nat) : ∀ b ∈ be32 w, b < 256 := by
  intro b hb
  unfold be32 at hb
  simp only [List.mem_cons, List.not_mem_nil, or_false] at hb
  rcases hb with h | h | h | h <;> subst h <;> exact Nat.mod_lt _ (by decide)

theorem be32_length (w : Nat) : (be32 w).length = 4 := rfl

/-! ## 3. the pure coder on 56-bit intervals -/

/-- admissible (shift, probability) pairs: the split computation is
    `(((high - low) >> sh) * p) >> 8` with a `(8 + sh)`-bit probability `p`;
    `sh = 4` (12-bit `p`, BinaryEntropyCodec.go) or `sh = 8` (16-bit `p`, FPAQCodec.go) -/
def OkP (sh p : Nat) : Prop := (sh = 4 ∨ sh = 8) ∧ p < 2 ^ (8 + sh)

/-- the kanzi.Predictor contract, relative to a state invariant `R` chosen by the instance:
    `R` is preserved by `Get(); Update(b)` and on `R` every value returned by `Get()` is in range:
    `0 ≤ p < 2^(8 + shift)`, i.e. the 12-bit range `[0, 4095]` for `kanzi.Predictor`s (`shift = 4`);
    both ends are included: they are safe for the coder -/
structure Pred.Safe (P : Pred σ) (R : σ → Prop) : Prop where
  step : ∀ s b, R s → R (P.update s b)
  range : ∀ s, R s → OkP P.shift (P.get s)

/-- the usual way to establish the contract for a `kanzi.Predictor` (`shift = 4`): `Get() ≤ 4095` -/
theorem Pred.Safe.of12 {P : Pred σ} {R : σ → Prop} (hsh : P.shift = 4)
    (step : ∀ s b, R s → R (P.update s b)) (range : ∀ s, R s → P.get s ≤ 4095) : P.Safe R :=
  ⟨step, fun s hs => ⟨Or.inl hsh, by rw [hsh]; have := range s hs; omega⟩⟩

/-- the special case `R = True` for a `kanzi.Predictor`: every `Get()` is in `[0, 4095]` -/
def Pred.Ok (P : Pred σ) : Prop := P.shift = 4 ∧ ∀ s, P.get s ≤ 4095

theorem Pred.Ok.safe {P : Pred σ} (h : P.Ok) : P.Safe (fun _ => True) :=
  Pred.Safe.of12 h.1 (fun _ _ _ => trivial) (fun s _ => h.2 s)

def psplit (sh l h p : Nat) : Nat := ((h - l) / 2 ^ sh * p) / 256
def pl1 (sh l h p : Nat) (b : Bool) : Nat := if b then l else l + psplit sh l h p + 1
def ph1 (sh l h p : Nat) (b : Bool) : Nat := if b then l + psplit sh l h p else h
def pflush (sh l h p : Nat) (b : Bool) : Bool := decide (pl1 sh l h p b / 2 ^ 24 = ph1 sh l h p b / 2 ^ 24)
def pl2 (sh l h p : Nat) (b : Bool) : Nat :=
  if pflush sh l h p b then (pl1 sh l h p b % 2 ^ 24) * 2 ^ 32 else pl1 sh l h p b
def ph2 (sh l h p : Nat) (b : Bool) : Nat :=
  if pflush sh l h p b then (ph1 sh l h p b % 2 ^ 24) * 2 ^ 32 + (2 ^ 32 - 1) else ph1 sh l h p b

/-- the interval invariant between two `EncodeBit` calls: the 32 top bits (of 56) differ -/
structure Inv (l h : Nat) : Prop where
  lt : l / 2 ^ 24 < h / 2 ^ 24
  hi : h < 2 ^ 56

theorem inv_init : Inv 0 TOP := ⟨by decide, by decide⟩

theorem psplit_lt (sh l h p : Nat) (hlt : l < h) (hp : OkP sh p) : l + psplit sh l h p < h := by
  obtain ⟨hsh, hp⟩ := hp
  unfold psplit
  rcases hsh with rfl | rfl
  · have hp' : p ≤ 4095 := by have : p < 4096 := hp; omega
    have h1 : (h - l) / 2 ^ 4 * p ≤ (h - l) / 2 ^ 4 * 4095 := Nat.mul_le_mul_left _ hp'
    omega
  · have hp' : p ≤ 65535 := by have : p < 65536 := hp; omega
    have h1 : (h - l) / 2 ^ 8 * p ≤ (h - l) / 2 ^ 8 * 65535 := Nat.mul_le_mul_left _ hp'
    omega

theorem psplit_bound (sh l h p : Nat) (hh : h < 2 ^ 56) (hp : OkP sh p) :
    (h - l) / 2 ^ sh * p < 2 ^ 64 := by
  obtain ⟨hsh, hp⟩ := hp
  rcases hsh with rfl | rfl
  · have hp' : p ≤ 4095 := by have : p < 4096 := hp; omega
    have h1 : (h - l) / 2 ^ 4 * p ≤ (h - l) / 2 ^ 4 * 4095 := Nat.mul_le_mul_left _ hp'
    omega
  · have hp' : p ≤ 65535 := by have : p < 65536 := hp; omega
    have h1 : (h - l) / 2 ^ 8 * p ≤ (h - l) / 2 ^ 8 * 65535 := Nat.mul_le_mul_left _ hp'
    omega

/-- one step: the new interval is inside the old one, ordered, and the invariant is restored
    by at most one flush -/
theorem step_facts (sh l h p : Nat) (b : Bool) (hi : Inv l h) (hp : OkP sh p) :
    l ≤ pl1 sh l h p b ∧ pl1 sh l h p b ≤ ph1 sh l h p b ∧ ph1 sh l h p b ≤ h ∧
    Inv (pl2 sh l h p b) (ph2 sh l h p b) := by
  have hlt : l < h := by have := hi.lt; omega
  have hs := psplit_lt sh l h p hlt hp
  have hh := hi.hi
  have h1 : l ≤ pl1 sh l h p b := by unfold pl1; split <;> omega
  have h2 : pl1 sh l h p b ≤ ph1 sh l h p b := by unfold pl1 ph1; split <;> omega
  have h3 : ph1 sh l h p b ≤ h := by unfold ph1; split <;> omega
  refine ⟨h1, h2, h3, ?_⟩
  unfold pl2 ph2 pflush
  by_cases hf : pl1 sh l h p b / 2 ^ 24 = ph1 sh l h p b / 2 ^ 24
  · simp only [hf, decide_true, if_true]
    constructor <;> omega
  · simp only [hf, decide_false]
    constructor
    · simp only [Bool.false_eq_true, if_false]; omega
    · simp only [Bool.false_eq_true, if_false]; omega

/-- final (predictor state, low, high) after coding `bits` -/
def pFin (P : Pred σ) : σ → Nat → Nat → List Bool → σ × Nat × Nat
  | s, l, h, [] => (s, l, h)
  | s, l, h, b :: bs => pFin P (P.update s b) (pl2 P.shift l h (P.get s) b) (ph2 P.shift l h (P.get s) b) bs

/-- the bytes flushed while coding `bits` -/
def pBytes (P : Pred σ) : σ → Nat → Nat → List Bool → List Nat
  | _, _, _, [] => []
  | s, l, h, b :: bs =>
    (if pflush P.shift l h (P.get s) b then be32 (ph1 P.shift l h (P.get s) b / 2 ^ 24) else [])
      ++ pBytes P (P.update s b) (pl2 P.shift l h (P.get s) b) (ph2 P.shift l h (P.get s) b) bs

/-- the 56-bit trailer `low | MASK_0_24` -/
def trailerVal (l : Nat) : Nat := (l / 2 ^ 24) * 2 ^ 24 + (2 ^ 24 - 1)

/-- the code string of `bits`: the flushed bytes, then the trailer -/
def pOut (P : Pred σ) (s : σ) (l h : Nat) (bits : List Bool) : Bits :=
  ofBytes (pBytes P s l h bits) ++ natBits (trailerVal (pFin P s l h bits).2.1) 56

theorem pFin_append (P : Pred σ) (a b : List Bool) : ∀ (s : σ) (l h : Nat),
    pFin P s l h (a ++ b)
      = pFin P (pFin P s l h a).1 (pFin P s l h a).2.1 (pFin P s l h a).2.2 b := by
  induction a with
  | nil => intro s l h; rfl
  | cons x xs ih => intro s l h; simp only [List.cons_append, pFin]; exact ih _ _ _

theorem pBytes_append (P : Pred σ) (a b : List Bool) : ∀ (s : σ) (l h : Nat),
    pBytes P s l h (a ++ b)
      = pBytes P s l h a ++ pBytes P (pFin P s l h a).1 (pFin P s l h a).2.1 (pFin P s l h a).2.2 b := by
  induction a with
  | nil => intro s l h; rfl
  | cons x xs ih => intro s l h; simp only [List.cons_append, pBytes, pFin, List.append_assoc]; rw [ih]

theorem pFin_inv (P : Pred σ) {R : σ → Prop} (hP : P.Safe R) (bits : List Bool) :
    ∀ (s : σ) (l h : Nat), R s → Inv l h →
    R (pFin P s l h bits).1 ∧ Inv (pFin P s l h bits).2.1 (pFin P s l h bits).2.2 := by
  induction bits with
  | nil => intro s l h hs hi; exact ⟨hs, hi⟩
  | cons b bs ih =>
    intro s l h hs hi
    simp only [pFin]
    exact ih _ _ _ (hP.step s b hs) (step_facts P.shift l h (P.get s) b hi (hP.range s hs)).2.2.2

theorem pBytes_lt (P : Pred σ) (bits : List Bool) : ∀ (s : σ) (l h : Nat),
    ∀ x ∈ pBytes P s l h bits, x < 256 := by
  induction bits with
  | nil => intro s l h x hx; cases hx
  | cons b bs ih =>
    intro s l h x hx
    simp only [pBytes, List.mem_append] at hx
    rcases hx with hx | hx
    · split at hx
      · exact be32_lt _ x hx
      · cases hx
    · exact ih _ _ _ x hx

/-- at most one flush (4 bytes) per coded bit -/
theorem pBytes_length_le (P : Pred σ) (bits : List Bool) : ∀ (s : σ) (l h : Nat),
    (pBytes P s l h bits).length ≤ 4 * bits.length := by
  induction bits with
  | nil => intro s l h; simp [pBytes]
  | cons b bs ih =>
    intro s l h
    simp only [pBytes, List.length_append, List.length_cons]
    have := ih (P.update s b) (pl2 P.shift l h (P.get s) b) (ph2 P.shift l h (P.get s) b)
    split
    · rw [be32_length]; omega
    · simp only [List.length_nil]; omega

theorem pOut_length (P : Pred σ) (s : σ) (l h : Nat) (bits : List Bool) :
    (pOut P s l h bits).length = 8 * (pBytes P s l h bits).length + 56 := by
  unfold pOut
  rw [List.length_append, ofBytes_length, natBits_length]

theorem pOut_nil (P : Pred σ) (s : σ) (l h : Nat) : pOut P s l h [] = natBits (trailerVal l) 56 := by
  simp [pOut, pBytes, pFin, ofBytes_nil]

theorem pOut_cons_noflush (P : Pred σ) (s : σ) (l h : Nat) (b : Bool) (bs : List Bool)
    (hf : pflush P.shift l h (P.get s) b = false) :
    pOut P s l h (b :: bs) = pOut P (P.update s b) (pl2 P.shift l h (P.get s) b) (ph2 P.shift l h (P.get s) b) bs := by
  simp [pOut, pBytes, pFin, hf]

theorem pOut_cons_flush (P : Pred σ) (s : σ) (l h : Nat) (b : Bool) (bs : List Bool)
    (hh : h < 2 ^ 56) (hle : ph1 P.shift l h (P.get s) b ≤ h)
    (hf : pflush P.shift l h (P.get s) b = true) :
    pOut P s l h (b :: bs) = natBits (ph1 P.shift l h (P.get s) b / 2 ^ 24) 32
      ++ pOut P (P.update s b) (pl2 P.shift l h (P.get s) b) (ph2 P.shift l h (P.get s) b) bs := by
  have hw : ph1 P.shift l h (P.get s) b / 2 ^ 24 < 2 ^ 32 := by omega
  simp only [pOut, pBytes, pFin, hf, if_true, ofBytes_append, ofBytes_be32 _ hw, List.append_assoc]

/-- the first 56 bits of the code string: what the decoder holds in `current` -/
def win (P : Pred σ) (s : σ) (l h : Nat) (bits : List Bool) : Nat :=
  bitsNat ((pOut P s l h bits).take 56)

theorem take_append_len_add {α : Type} (A X : List α) (n k : Nat) (h : A.length = n) :
    (A ++ X).take (n + k) = A ++ X.take k := by
  subst h; exact List.take_length_add_append ..

theorem drop_append_len_add {α : Type} (A X : List α) (n k : Nat) (h : A.length = n) :
    (A ++ X).drop (n + k) = X.drop k := by
  subst h; exact List.drop_length_add_append ..

theorem take24_of_take56 (X : Bits) (hX : 56 ≤ X.length) :
    bitsNat (X.take 24) = bitsNat (X.take 56) / 2 ^ 32 := by
  have e : X.take 56 = X.take 24 ++ (X.drop 24).take 32 := by
    rw [show (56 : Nat) = 24 + 32 from rfl, List.take_add]
  have hl : ((X.drop 24).take 32).length = 32 := by
    rw [List.length_take, List.length_drop]; omega
  have hlt := bitsNat_lt ((X.drop 24).take 32)
  rw [e, bitsNat_append, hl]
  rw [hl] at hlt
  omega

theorem win_cons (P : Pred σ) (s : σ) (l h : Nat) (b : Bool) (bs : List Bool) (hi : Inv l h)
    (hp : OkP P.shift (P.get s))
    (hw : pl2 P.shift l h (P.get s) b ≤ win P (P.update s b) (pl2 P.shift l h (P.get s) b) (ph2 P.shift l h (P.get s) b) bs ∧
          win P (P.update s b) (pl2 P.shift l h (P.get s) b) (ph2 P.shift l h (P.get s) b) bs ≤ ph2 P.shift l h (P.get s) b) :
    pl1 P.shift l h (P.get s) b ≤ win P s l h (b :: bs) ∧ win P s l h (b :: bs) ≤ ph1 P.shift l h (P.get s) b := by
  obtain ⟨f1, f2, f3, _⟩ := step_facts P.shift l h (P.get s) b hi hp
  have hh := hi.hi
  cases hf : pflush P.shift l h (P.get s) b
  · have e2 : pl2 P.shift l h (P.get s) b = pl1 P.shift l h (P.get s) b := by simp [pl2, hf]
    have e3 : ph2 P.shift l h (P.get s) b = ph1 P.shift l h (P.get s) b := by simp [ph2, hf]
    unfold win at hw ⊢
    rw [pOut_cons_noflush P s l h b bs hf]
    rw [e2, e3] at hw
    rw [e2, e3]
    exact hw
  · have e2 : pl2 P.shift l h (P.get s) b = (pl1 P.shift l h (P.get s) b % 2 ^ 24) * 2 ^ 32 := by simp [pl2, hf]
    have e3 : ph2 P.shift l h (P.get s) b = (ph1 P.shift l h (P.get s) b % 2 ^ 24) * 2 ^ 32 + (2 ^ 32 - 1) := by
      simp [ph2, hf]
    have hfe : pl1 P.shift l h (P.get s) b / 2 ^ 24 = ph1 P.shift l h (P.get s) b / 2 ^ 24 := by
      simpa [pflush] using hf
    have hlen := pOut_length P (P.update s b) (pl2 P.shift l h (P.get s) b) (ph2 P.shift l h (P.get s) b) bs
    have ht := take24_of_take56 (pOut P (P.update s b) (pl2 P.shift l h (P.get s) b) (ph2 P.shift l h (P.get s) b) bs)
      (by omega)
    have hwlt : ph1 P.shift l h (P.get s) b / 2 ^ 24 < 2 ^ 32 := by omega
    have e : win P s l h (b :: bs) = (ph1 P.shift l h (P.get s) b / 2 ^ 24) * 2 ^ 24
        + win P (P.update s b) (pl2 P.shift l h (P.get s) b) (ph2 P.shift l h (P.get s) b) bs / 2 ^ 32 := by
      unfold win
      rw [pOut_cons_flush P s l h b bs hh f3 hf]
      rw [take_append_len_add _ _ 32 24 (natBits_length _ _), bitsNat_append,
        bitsNat_natBits, Nat.mod_eq_of_lt hwlt, ht, List.length_take]
      have : min 24 (pOut P (P.update s b) (pl2 P.shift l h (P.get s) b) (ph2 P.shift l h (P.get s) b) bs).length = 24 := by
        omega
      rw [this]
    rw [e]
    have hw1 := Nat.le_trans (Nat.le_of_eq e2.symm) hw.1
    have hw2 := Nat.le_trans hw.2 (Nat.le_of_eq e3)
    omega

/-- **the code value stays in the interval**: the first 56 bits of what the encoder will still
    produce lie in `[low, high]` -/
theorem win_range (P : Pred σ) {R : σ → Prop} (hP : P.Safe R) (bits : List Bool) :
    ∀ (s : σ) (l h : Nat), R s → Inv l h →
    l ≤ win P s l h bits ∧ win P s l h bits ≤ h := by
  induction bits with
  | nil =>
    intro s l h _ hi
    have h1 := hi.lt
    have h2 := hi.hi
    unfold win
    rw [pOut_nil, List.take_of_length_le (by simp [natBits_length]), bitsNat_natBits]
    unfold trailerVal
    have : (l / 2 ^ 24) * 2 ^ 24 + (2 ^ 24 - 1) < 2 ^ 56 := by omega
    rw [Nat.mod_eq_of_lt this]
    omega
  | cons b bs ih =>
    intro s l h hs hi
    obtain ⟨f1, f2, f3, f4⟩ := step_facts P.shift l h (P.get s) b hi (hP.range s hs)
    have := win_cons P s l h b bs hi (hP.range s hs) (ih _ _ _ (hP.step s b hs) f4)
    omega

theorem win_cons_range (P : Pred σ) {R : σ → Prop} (hP : P.Safe R) (s : σ) (l h : Nat) (b : Bool)
    (bs : List Bool) (hs : R s) (hi : Inv l h) :
    pl1 P.shift l h (P.get s) b ≤ win P s l h (b :: bs) ∧ win P s l h (b :: bs) ≤ ph1 P.shift l h (P.get s) b :=
  win_cons P s l h b bs hi (hP.range s hs)
    (win_range P hP bs _ _ _ (hP.step s b hs) (step_facts P.shift l h (P.get s) b hi (hP.range s hs)).2.2.2)

theorem win_lt (P : Pred σ) (s : σ) (l h : Nat) (bits : List Bool) : win P s l h bits < 2 ^ 56 := by
  unfold win
  have := bitsNat_lt ((pOut P s l h bits).take 56)
  have hl : ((pOut P s l h bits).take 56).length = 56 := by
    rw [List.length_take, pOut_length]; omega
  rw [hl] at this
  exact this

/-! ## 4. the encoder model simulates the pure coder -/

/-- the encoder's `uint64` registers are the pure 56-bit interval plus IDENTICAL left-over top
    8 bits `g` (the Go encoder never masks `low` / `high`) -/
def ERel (e : Enc σ) (l h : Nat) : Prop :=
  ∃ g, g < 256 ∧ e.low = g * 2 ^ 56 + l ∧ e.high = g * 2 ^ 56 + h

theorem erel_init (s0 : σ) : ERel (Enc.init s0) 0 TOP := ⟨0, by decide, rfl, by simp [Enc.init]⟩

theorem enc_split (P : Pred σ) (e : Enc σ) (l h : Nat) (hr : ERel e l h) (hi : Inv l h)
    (hp : OkP P.shift (P.get e.ps)) : e.split P = psplit P.shift l h (P.get e.ps) := by
  obtain ⟨g, hg, h1, h2⟩ := hr
  have hlt := hi.lt
  have hh := hi.hi
  have hb := psplit_bound P.shift l h (P.get e.ps) hh hp
  unfold Enc.split psplit
  have e1 : (e.high + 2 ^ 64 - e.low) % 2 ^ 64 = h - l := by rw [h1, h2]; omega
  rw [e1, Nat.shiftRight_eq_div_pow, Nat.shiftRight_eq_div_pow, Nat.mod_eq_of_lt hb]

theorem enc_step (P : Pred σ) (e : Enc σ) (l h : Nat) (b : Bool) (hr : ERel e l h) (hi : Inv l h)
    (hp : OkP P.shift (P.get e.ps)) :
    ERel (e.step P b) (pl1 P.shift l h (P.get e.ps) b) (ph1 P.shift l h (P.get e.ps) b) := by
  have hs := enc_split P e l h hr hi hp
  obtain ⟨g, hg, h1, h2⟩ := hr
  have hlt : l < h := by have := hi.lt; omega
  have hh := hi.hi
  have hsl := psplit_lt P.shift l h (P.get e.ps) hlt hp
  refine ⟨g, hg, ?_, ?_⟩
  · show (if b then e.low else (e.low + (e.split P + 1)) % 2 ^ 64) = _
    rw [hs, h1]
    unfold pl1
    cases b
    · simp only [Bool.false_eq_true, if_false]; omega
    · simp only [if_true]
  · show (if b then (e.low + e.split P) % 2 ^ 64 else e.high) = _
    rw [hs, h1, h2]
    unfold ph1
    cases b
    · simp only [Bool.false_eq_true, if_false]
    · simp only [if_true]; omega

theorem enc_flush_test (e : Enc σ) (l h : Nat) (hr : ERel e l h) :
    ((e.low ^^^ e.high) < 2 ^ 24) ↔ l / 2 ^ 24 = h / 2 ^ 24 := by
  obtain ⟨g, hg, h1, h2⟩ := hr
  rw [xor_lt_iff, h1, h2]
  omega

/-- the stores of `flush` on an encoder whose interval has equal top 32 bits -/
theorem enc_store (e : Enc σ) (l h : Nat) (n : Nat) (hr : ERel e l h) (hh : h < 2 ^ 56)
    (heq : l / 2 ^ 24 = h / 2 ^ 24) :
    ERel (e.store n) ((l % 2 ^ 24) * 2 ^ 32) ((h % 2 ^ 24) * 2 ^ 32 + (2 ^ 32 - 1)) ∧
    (e.store n).ps = e.ps ∧ (e.store n).rev = (be32 (h / 2 ^ 24)).reverse ++ e.rev ∧
    (e.store n).index = e.index + 4 ∧ (e.store n).bufLen = n ∧
    (e.store n).disposed = e.disposed ∧ (e.store n).grow = e.grow := by
  obtain ⟨g, hg, h1, h2⟩ := hr
  unfold Enc.store
  refine ⟨?_, rfl, ?_, rfl, rfl, rfl, rfl⟩
  · refine ⟨(h / 2 ^ 24) % 256, Nat.mod_lt _ (by decide), ?_, ?_⟩
    · show (e.low <<< 32) % 2 ^ 64 = _
      rw [Nat.shiftLeft_eq, h1]
      omega
    · show ((e.high <<< 32) % 2 ^ 64) ||| MASK_0_32 = _
      rw [show MASK_0_32 = 2 ^ 32 - 1 from rfl, or_mask, Nat.shiftLeft_eq, h2]
      omega
  · have hw : (e.high >>> 24) % 2 ^ 32 = h / 2 ^ 24 := by
      rw [Nat.shiftRight_eq_div_pow, h2]; omega
    show _ :: _ :: _ :: _ :: e.rev = _
    rw [hw]
    rfl

/-- what an encoder state `e'` reached from `e` by flushing the bytes `F` looks like -/
structure Stepped (e e' : Enc σ) (F : List Nat) : Prop where
  rev : e'.rev = F.reverse ++ e.rev
  index : e'.index = e.index + F.length
  disposed : e'.disposed = e.disposed
  grow : e'.grow = e.grow
  /-- the buffer only grows … -/
  mono : e.bufLen ≤ e'.bufLen
  /-- … always holds what has been flushed … -/
  fits : e'.index ≤ e'.bufLen
  /-- … and is untouched when the estimate was sufficient -/
  same : e.index + F.length ≤ e.bufLen → e'.bufLen = e.bufLen

/-- the effect of `flush` on an encoder whose interval has equal top 32 bits: a growing encoder
    (BinaryEntropyEncoder) always succeeds, a non-growing one (FPAQ) iff 4 bytes are left -/
theorem enc_flush (e : Enc σ) (l h : Nat) (hr : ERel e l h) (hh : h < 2 ^ 56)
    (heq : l / 2 ^ 24 = h / 2 ^ 24) (hix : e.index ≤ e.bufLen) :
    ((e.grow = true ∨ e.index + 4 ≤ e.bufLen) → ∃ e', e.flush = .ok e' ∧
        ERel e' ((l % 2 ^ 24) * 2 ^ 32) ((h % 2 ^ 24) * 2 ^ 32 + (2 ^ 32 - 1)) ∧
        e'.ps = e.ps ∧ Stepped e e' (be32 (h / 2 ^ 24))) ∧
    (e.grow = false ∧ ¬ e.index + 4 ≤ e.bufLen → e.flush = .error .index) := by
  constructor
  · intro hc
    unfold Enc.flush
    by_cases hb : e.index + 4 ≤ e.bufLen
    · rw [if_pos hb]
      obtain ⟨s1, s2, s3, s4, s5, s6, s7⟩ := enc_store e l h e.bufLen hr hh heq
      exact ⟨_, rfl, s1, s2, ⟨s3, by rw [s4, be32_length], s6, s7, by rw [s5]; exact Nat.le_refl _,
        by rw [s4, s5]; exact hb, fun _ => s5⟩⟩
    · have hg : e.grow = true := by
        rcases hc with hc | hc
        · exact hc
        · exact absurd hc hb
      rw [if_neg hb, if_pos ⟨hg, hix⟩]
      obtain ⟨s1, s2, s3, s4, s5, s6, s7⟩ := enc_store e l h (2 * e.bufLen + 4) hr hh heq
      exact ⟨_, rfl, s1, s2, ⟨s3, by rw [s4, be32_length], s6, s7, by rw [s5]; omega,
        by rw [s4, s5]; omega, fun hf => absurd (by rw [be32_length] at hf; exact hf) hb⟩⟩
  · intro ⟨hg, hb⟩
    unfold Enc.flush
    rw [if_neg hb, if_neg (by rw [hg]; simp)]

theorem flushBytes_length (c : Bool) (w : Nat) :
    (if c then be32 w else []).length = if c then 4 else 0 := by
  cases c <;> rfl

/-- one `EncodeBit` -/
theorem enc_bit (P : Pred σ) (e : Enc σ) (l h : Nat) (b : Bool) (hr : ERel e l h) (hi : Inv l h)
    (hp : OkP P.shift (P.get e.ps)) (hix : e.index ≤ e.bufLen) :
    ((e.grow = true ∨ e.index + (if pflush P.shift l h (P.get e.ps) b then 4 else 0) ≤ e.bufLen) →
      ∃ e', e.encodeBit P b = .ok e' ∧
        ERel e' (pl2 P.shift l h (P.get e.ps) b) (ph2 P.shift l h (P.get e.ps) b) ∧
        e'.ps = P.update e.ps b ∧
        Stepped e e' (if pflush P.shift l h (P.get e.ps) b then be32 (ph1 P.shift l h (P.get e.ps) b / 2 ^ 24) else [])) ∧
    (e.grow = false ∧ ¬ e.index + (if pflush P.shift l h (P.get e.ps) b then 4 else 0) ≤ e.bufLen →
      e.encodeBit P b = .error .index) := by
  have hst := enc_step P e l h b hr hi hp
  obtain ⟨f1, f2, f3, f4⟩ := step_facts P.shift l h (P.get e.ps) b hi hp
  have hh := hi.hi
  have ht := enc_flush_test (e.step P b) _ _ hst
  unfold Enc.encodeBit
  cases hf : pflush P.shift l h (P.get e.ps) b
  · have hne : ¬ pl1 P.shift l h (P.get e.ps) b / 2 ^ 24 = ph1 P.shift l h (P.get e.ps) b / 2 ^ 24 := by
      simpa [pflush] using hf
    have hnt : ¬ ((e.step P b).low ^^^ (e.step P b).high) < 2 ^ 24 := fun hc => hne (ht.mp hc)
    rw [if_neg hnt]
    have e2 : pl2 P.shift l h (P.get e.ps) b = pl1 P.shift l h (P.get e.ps) b := by simp [pl2, hf]
    have e3 : ph2 P.shift l h (P.get e.ps) b = ph1 P.shift l h (P.get e.ps) b := by simp [ph2, hf]
    constructor
    · intro _
      refine ⟨_, rfl, ?_, rfl, ⟨?_, rfl, rfl, rfl, Nat.le_refl _, hix, fun _ => rfl⟩⟩
      · rw [e2, e3]; exact hst
      · simp [Enc.step]
    · intro ⟨_, hb⟩
      exact absurd (by simpa using hix) hb
  · have heq : pl1 P.shift l h (P.get e.ps) b / 2 ^ 24 = ph1 P.shift l h (P.get e.ps) b / 2 ^ 24 := by
      simpa [pflush] using hf
    rw [if_pos (ht.mpr heq)]
    have e2 : pl2 P.shift l h (P.get e.ps) b = (pl1 P.shift l h (P.get e.ps) b % 2 ^ 24) * 2 ^ 32 := by
      simp [pl2, hf]
    have e3 : ph2 P.shift l h (P.get e.ps) b = (ph1 P.shift l h (P.get e.ps) b % 2 ^ 24) * 2 ^ 32 + (2 ^ 32 - 1) := by
      simp [ph2, hf]
    have hfl := enc_flush (e.step P b) _ _ hst (by omega) heq hix
    simp only [if_true]
    constructor
    · intro hb
      obtain ⟨e', he', hr', hps, hs'⟩ := hfl.1 hb
      refine ⟨e', he', ?_, hps, ⟨hs'.rev, hs'.index, hs'.disposed, hs'.grow, hs'.mono, hs'.fits, hs'.same⟩⟩
      rw [e2, e3]; exact hr'
    · intro hb
      exact hfl.2 hb

/-- a run of `EncodeBit`: a growing encoder always succeeds, a non-growing one iff the flushed
    bytes fit in the buffer; in both cases it follows the pure coder -/
theorem enc_bits (P : Pred σ) {R : σ → Prop} (hP : P.Safe R) (bits : List Bool) :
    ∀ (e : Enc σ) (l h : Nat), R e.ps → ERel e l h → Inv l h → e.index ≤ e.bufLen →
    ((e.grow = true ∨ e.index + (pBytes P e.ps l h bits).length ≤ e.bufLen) →
      ∃ e', e.encodeBits P bits = .ok e' ∧
        ERel e' (pFin P e.ps l h bits).2.1 (pFin P e.ps l h bits).2.2 ∧
        e'.ps = (pFin P e.ps l h bits).1 ∧ Stepped e e' (pBytes P e.ps l h bits)) ∧
    (e.grow = false ∧ ¬ e.index + (pBytes P e.ps l h bits).length ≤ e.bufLen →
      e.encodeBits P bits = .error .index) := by
  induction bits with
  | nil =>
    intro e l h _ hr _ hix
    simp only [pBytes, pFin, List.length_nil, Nat.add_zero, Enc.encodeBits]
    exact ⟨fun _ => ⟨e, rfl, hr, rfl, ⟨rfl, rfl, rfl, rfl, Nat.le_refl _, hix, fun _ => rfl⟩⟩,
      fun hc => absurd hix hc.2⟩
  | cons b bs ih =>
    intro e l h hs hr hi hix
    have hb := enc_bit P e l h b hr hi (hP.range _ hs) hix
    have hi' := (step_facts P.shift l h (P.get e.ps) b hi (hP.range _ hs)).2.2.2
    simp only [pBytes, pFin, List.length_append, flushBytes_length, Enc.encodeBits]
    by_cases hc : e.grow = true ∨ e.index + (if pflush P.shift l h (P.get e.ps) b then 4 else 0) ≤ e.bufLen
    · obtain ⟨e1, he1, hr1, hps1, hs1⟩ := hb.1 hc
      rw [he1]
      have hlen1 := hs1.index
      rw [flushBytes_length] at hlen1
      have hih := ih e1 _ _ (by rw [hps1]; exact hP.step _ b hs) hr1 hi' hs1.fits
      rw [hps1] at hih
      constructor
      · intro hfit
        have hfit1 : e1.grow = true ∨ e1.index + (pBytes P (P.update e.ps b) (pl2 P.shift l h (P.get e.ps) b)
            (ph2 P.shift l h (P.get e.ps) b) bs).length ≤ e1.bufLen := by
          rcases hfit with hg | hf
          · exact Or.inl (by rw [hs1.grow]; exact hg)
          · right
            have := hs1.same (by rw [flushBytes_length]; omega)
            omega
        obtain ⟨e', he', hr', hps', hs'⟩ := hih.1 hfit1
        refine ⟨e', he', hr', hps', ⟨?_, ?_, ?_, ?_, ?_, hs'.fits, ?_⟩⟩
        · rw [hs'.rev, hs1.rev, List.reverse_append, List.append_assoc]
        · rw [hs'.index, hlen1, List.length_append, flushBytes_length]; omega
        · rw [hs'.disposed, hs1.disposed]
        · rw [hs'.grow, hs1.grow]
        · exact Nat.le_trans hs1.mono hs'.mono
        · intro hf
          rw [List.length_append, flushBytes_length] at hf
          have h1 := hs1.same (by rw [flushBytes_length]; omega)
          have h2 := hs'.same (by omega)
          omega
      · intro ⟨hg, hnf⟩
        refine hih.2 ⟨by rw [hs1.grow]; exact hg, ?_⟩
        intro hc2
        have := hs1.mono
        by_cases hsm : e.index + (if pflush P.shift l h (P.get e.ps) b then 4 else 0) ≤ e.bufLen
        · have := hs1.same (by rw [flushBytes_length]; exact hsm)
          omega
        · rcases hc with hc | hc
          · rw [hg] at hc; cases hc
          · exact hsm hc
    · have hg : e.grow = false := by
        cases hgg : e.grow
        · rfl
        · exact absurd (Or.inl hgg) hc
      rw [hb.2 ⟨hg, fun hx => hc (Or.inr hx)⟩]
      refine ⟨fun hfit => ?_, fun _ => rfl⟩
      rcases hfit with hfit | hfit
      · rw [hg] at hfit; cases hfit
      · exact absurd (Or.inr (by omega)) hc

end Kanzi.BinEnt
