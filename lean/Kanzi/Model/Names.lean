/-
Model of the codec-name tables of kanzi-go (property C15), core Lean only.

Go code mirrored (v2/transform/Factory.go, v2/entropy/EntropyCodecFactory.go):
  * `getByteFunctionTypeToken` / `entropy.GetType`: `strings.ToUpper` then a `switch` over the
    canonical names  →  `upper` + lookup in a name↦token table (the table is a PARAMETER here; the
    driver and the theorems instantiate it with the regenerated `Kanzi.Generated.Names` tables).
  * `transform.GetType`: no '+' → single token `<< 42`; else `strings.Split(name, "+")`, more than
    8 tokens → error, every token looked up, NONE (0) tokens skipped, the others OR-ed in at
    shift 42, 36, …  →  `getTypeL` / `chainType`.
  * `transform.GetName`: 8 six-bit fields from bit 42 down, NONE skipped, names joined with '+',
    "NONE" when nothing is left  →  `chainTokens` / `getNameL`.
Strings are handled as `List Char` inside the model (`String.toList` at the boundary) so that the
theorems are statements about plain lists.
-/
namespace Kanzi.Names

/-! ### upper-casing (`strings.ToUpper`) -/

/-- `unicode.ToUpper` restricted to what can matter for a comparison with an ASCII upper-case name:
ASCII letters, and the only two non-ASCII code points whose upper case is ASCII
(U+0131 dotless i ↦ 'I', U+017F long s ↦ 'S'; checked against Go's tables by the generated fact
`upperIntoAscii`).  Any other character is left alone (Go may map it to another NON-ASCII
character, which matches no codec name either way). -/
def upperChar (c : Char) : Char :=
  if 97 ≤ c.toNat ∧ c.toNat ≤ 122 then Char.ofNat (c.toNat - 32)
  else if c.toNat = 305 then 'I'
  else if c.toNat = 383 then 'S'
  else c

def lowerChar (c : Char) : Char :=
  if 65 ≤ c.toNat ∧ c.toNat ≤ 90 then Char.ofNat (c.toNat + 32) else c

def isAsciiLetter (c : Char) : Bool :=
  (65 ≤ c.toNat && c.toNat ≤ 90) || (97 ≤ c.toNat && c.toNat ≤ 122)

def upperL (s : List Char) : List Char := s.map upperChar

def upper (s : String) : String := String.ofList (upperL s.toList)

/-- every ASCII upper/lower-case spelling of a word (2^letters of them), in the order used by the
fact generator: per letter, first all spellings with the upper-case letter, then the lower-case. -/
def caseVariantsL : List Char → List (List Char)
  | [] => [[]]
  | c :: cs =>
    if isAsciiLetter c then
      (caseVariantsL cs).map (upperChar c :: ·) ++ (caseVariantsL cs).map (lowerChar c :: ·)
    else (caseVariantsL cs).map (c :: ·)

def caseVariants (s : String) : List String := (caseVariantsL s.toList).map String.ofList

/-! ### token level: packing of up to 8 six-bit tokens into a type word -/

def oneShift : Nat := 6          -- _BFF_ONE_SHIFT
def maxShift : Nat := 42         -- _BFF_MAX_SHIFT = (8-1)*6
def mask : Nat := 63             -- _BFF_MASK
def noneType : Nat := 0          -- NONE_TYPE

/-- loop of `GetType`: `if tk != NONE { res |= tk << shift; shift -= 6 }`.  (`shift` is an `int` in
Go; it would become negative only after 8 placed tokens and is never used again then, because at
most 8 tokens are accepted; truncated subtraction is therefore faithful.) -/
def chainTypeAux : List Nat → Nat → Nat → Nat
  | [], res, _ => res
  | t :: ts, res, shift =>
    if t ≠ noneType then chainTypeAux ts (res ||| (t <<< shift)) (shift - oneShift)
    else chainTypeAux ts res shift

/-- type word of a list of tokens (first token at bit 42) -/
def chainType (tokens : List Nat) : Nat := chainTypeAux tokens 0 maxShift

/-- the 8 six-bit fields read by `GetName` / `New`: `(t >> (42 - 6*i)) & 63`, i = 0..7 -/
def chainFields (t : Nat) : List Nat :=
  (List.range 8).map (fun i => (t >>> (maxShift - oneShift * i)) &&& mask)

/-- the tokens `GetName` prints: the fields that are not NONE -/
def chainTokens (t : Nat) : List Nat := (chainFields t).filter (· ≠ noneType)

/-! ### string level -/

inductive Err where
  | unknown    -- "Unknown transform type" / "Unsupported entropy codec type"
  | tooMany    -- "Only 8 transforms allowed"
  deriving DecidableEq, Repr

/-- `strings.Split(s, "+")` on a character list (always at least one piece) -/
def splitPlus : List Char → List (List Char)
  | [] => [[]]
  | c :: cs =>
    if c = '+' then [] :: splitPlus cs
    else match splitPlus cs with
      | [] => [[c]]
      | h :: t => (c :: h) :: t

/-- `s` built by `GetName`: `if len(s) != 0 { s += "+" }; s += name` -/
def joinPlus (names : List (List Char)) : List Char :=
  names.foldl (fun s n => if s.isEmpty then n else s ++ '+' :: n) []

/-- `strings.Join(tokens, "+")` (specification side: how a caller writes a chain) -/
def plusJoin : List (List Char) → List Char
  | [] => []
  | [t] => t
  | t :: ts => t ++ '+' :: plusJoin ts

/-- the canonical spelling of a chain given as tokens: upper-case, NONE elements removed, "NONE" if
nothing is left -/
def canonChain (toks : List (List Char)) : List Char :=
  let c := (toks.map upperL).filter (· ≠ ['N', 'O', 'N', 'E'])
  if c.isEmpty then ['N', 'O', 'N', 'E'] else plusJoin c

/-- `getByteFunctionTypeToken` / `entropy.GetType`: upper-case, then the switch (= table lookup) -/
def tokenOf (tbl : List (String × Nat)) (tok : List Char) : Option Nat :=
  tbl.lookup (String.ofList (upperL tok))

/-- `transform.GetType` -/
def getTypeL (tbl : List (String × Nat)) (name : List Char) : Except Err Nat :=
  if ¬ name.contains '+' then
    match tokenOf tbl name with
    | none => .error .unknown
    | some t => .ok (t <<< maxShift)
  else
    let tokens := splitPlus name
    -- (`len(tokens) == 0` cannot happen: Split returns at least one piece)
    if tokens.length > 8 then .error .tooMany
    else match tokens.mapM (tokenOf tbl) with
      | none => .error .unknown
      | some ts => .ok (chainType ts)

/-- `transform.GetName`; `nameOf` = `getByteFunctionNameToken` -/
def getNameL (nameOf : Nat → Option String) (t : Nat) : Except Err (List Char) :=
  match (chainTokens t).mapM nameOf with
  | none => .error .unknown
  | some ns =>
    let s := joinPlus (ns.map String.toList)
    if s.isEmpty then
      match nameOf noneType with
      | none => .error .unknown
      | some n => .ok n.toList
    else .ok s

def getType (tbl : List (String × Nat)) (name : String) : Except Err Nat := getTypeL tbl name.toList

def getName (nameOf : Nat → Option String) (t : Nat) : Except Err String :=
  (getNameL nameOf t).map String.ofList

/-- `entropy.GetType` -/
def entropyType (tbl : List (String × Nat)) (name : String) : Except Err Nat :=
  match tokenOf tbl name.toList with
  | none => .error .unknown
  | some t => .ok t

/-- `entropy.GetName` (a `switch` with a default error) -/
def entropyName (nameOf : Nat → Option String) (code : Nat) : Except Err String :=
  match nameOf code with
  | none => .error .unknown
  | some n => .ok n

/-- code ↦ name function of a generated `…NameOf` table (codes outside the table: error) -/
def nameOfTable (tbl : List (Nat × Option String)) (code : Nat) : Option String :=
  (tbl.lookup code).join

end Kanzi.Names
