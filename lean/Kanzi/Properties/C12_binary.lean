/-
C12 (generic binary arithmetic coder) — `BinaryEntropyEncoder` / `BinaryEntropyDecoder` of
v2/entropy/BinaryEntropyCodec.go, the engine of the CM, TPAQ and TPAQX entropy codecs (each plugs a
`kanzi.Predictor` into it).  Property theorems only; proofs live in
`Kanzi/Proofs/BinEnt.lean` (pure coder, encoder), `Kanzi/Proofs/BinEntDec.lean` (decoder) and
`Kanzi/Proofs/BinEntBlock.lean` (bytes, chunks, blocks).  Core Lean only, no Mathlib.

The model (`Kanzi/Model/BinEnt.lean`) mirrors `EncodeBit`, `flush`, `EncodeByte`, `Write` (chunk
rule, VarInt payload size, `WriteArray` of the chunk buffer, 56-bit trailer `low | MASK_0_24`
between chunks), `Dispose`, and `DecodeBit`, `read`, `DecodeByte`, `Read` (VarInt, 56-bit
`current`, `ReadArray`, buffer index) with the Go `uint64` arithmetic (the encoder never masks
`low` / `high` to 56 bits: the proof carries the identical left-over top 8 bits).  It is tied
byte-identically to /repo by the `binent` correspondence stream.

THE PREDICTOR IS A PARAMETER.  `Pred σ` is a deterministic state machine: `get s` = the value
returned by `Get()` in state `s`, `update s b` = the state after `Get(); Update(b)` (the coder calls
`Get()` exactly once before each `Update`, in both directions; for a predictor whose `Get()` mutates
its state, e.g. CMPredictor's `idx`, use `Pred.ofImpure`).  The ONLY hypothesis on the predictor is
`P.Safe R`: some state invariant `R` (chosen by the instance) is preserved by `update` and on `R`
every `Get()` is in the documented range `0 ≤ p ≤ 4095` (`Pred.Safe.of12`).  Both ends are safe;
`4096` is not (the split could reach `high`).  `Pred.Ok` is the special case `R = True`.
(`Pred` also carries the first shift of the split computation, `shift = 4` here; the proofs are
shared with FPAQ, whose coder uses `shift = 8` and 16-bit probabilities: `Safe.range` is stated as
`p < 2^(8 + shift)`.)

Every round trip is in the exact-consumption form  dec (enc x ++ rest) = (x, rest)  for EVERY
continuation `rest`.

The model follows the code AFTER the repairs d8b7b56 and f731923 (finding F36: `flush` stored 4
bytes past a buffer of `length + length>>3` bytes when the predictor kept guessing wrong): `flush` now
grows the buffer, so the encoder never fails (`C12_binary_encode_total`); `Read` accepts a chunk
larger than the estimate only below TWICE the chunk length `length` (to bound the allocation a forged
size can cause).  The coder itself only guarantees 32 bytes per byte (`C12_binary_flushed_le`, tight:
`C12_binary_estimate_exceeded_adversarial`), so the round trip needs the explicit, decidable
hypothesis `fits2 P M s0 blk` — every chunk flushes fewer than `2·length` bytes — which is EXACTLY the
decoder's acceptance: with it the block round-trips (`C12_binary_block`), without it the decoder
answers "Invalid bitstream" (`C12_binary_reject`), and `C12_binary_expansion_limit` exhibits a
predictor within the 12-bit contract and a block in that case.  Whether the real CM / TPAQ predictors
can be driven to a two-fold expansion is not decided here (the adversaries of the `binent` stream
reach about 1.2).
-/
import Kanzi.Model.BinEnt
import Kanzi.Proofs.BinEntBlock

namespace Kanzi.C12
open Kanzi.Bits Kanzi.EntSmall Kanzi.BinEnt

/-! ## 1. bit level -/

/-- **C12_binary_bits.**  For every predictor satisfying the contract, every initial predictor
state and every bit list: the encoder (fresh, buffer of `bufLen` bytes, any `bufLen`) codes `bits`
without failing (the buffer grows when needed and always holds the `index` flushed bytes; `index ≤
4·|bits|`: at most one 32-bit flush per coded bit).  Let `S` be what `Write` / `Dispose` put on the
stream after the VarInt: the flushed bytes `buffer[0:index]` then the 56-bit trailer.  A fresh decoder
that has loaded `S` the way `Read` does (`current` = the first 56 bits, the buffer = the remaining
`index` bytes, followed by ANY stale bytes) decodes exactly `bits` (as the number `acc·2^n + bits`,
the way `DecodeByte` accumulates them), its predictor state and its interval equal the encoder's, and
it has consumed exactly the `index` payload bytes (only `stale` is left in the buffer). -/
theorem C12_binary_bits {σ : Type} (P : Pred σ) {R : σ → Prop} (hP : P.Safe R) (s0 : σ) (hs : R s0)
    (bits : List Bool) (bufLen : Nat) :
    ∃ e', Enc.encodeBits P (Enc.fresh s0 bufLen) bits = .ok e' ∧
      e'.index = e'.rev.length ∧ e'.index ≤ 4 * bits.length ∧ e'.index ≤ e'.bufLen ∧ bufLen ≤ e'.bufLen ∧
      ∀ (stale : List Nat) (acc : Nat), ∃ d', Dec.decodeBitsAcc P bits.length
        (Dec.fresh s0 (bitsNat ((ofBytes e'.rev.reverse ++ e'.trailer).take 56))
          (bytesOf e'.index ((ofBytes e'.rev.reverse ++ e'.trailer).drop 56) ++ stale)) acc
        = .ok (acc * 2 ^ bits.length + bitsNat bits, d') ∧
      d'.ps = e'.ps ∧ d'.low = e'.low % 2 ^ 56 ∧ d'.high = e'.high % 2 ^ 56 ∧ d'.rem = stale :=
  bits_rt P hP s0 hs bits bufLen

/-- the bit list is determined by the decoded number: `natBits (bitsNat bits) |bits| = bits` -/
theorem C12_binary_bits_number (bits : List Bool) : natBits (bitsNat bits) bits.length = bits :=
  natBits_bitsNat bits

/-- the code value stays inside the interval: from ANY reachable coder state `(s, l, h)` the first
56 bits of everything the encoder will still emit (flushed words, then the trailer) lie in
`[l, h]`.  This is the invariant behind every decoding decision. -/
theorem C12_binary_code_value_in_interval {σ : Type} (P : Pred σ) {R : σ → Prop} (hP : P.Safe R)
    (s : σ) (l h : Nat) (hs : R s) (hi : Inv l h) (bits : List Bool) :
    l ≤ win P s l h bits ∧ win P s l h bits ≤ h :=
  win_range P hP bits s l h hs hi

/-! ## 2. block level -/

/-- **C12_binary_encode_total.**  `Write` + `Dispose` never fail on a block of at most 2^30 bytes
(any predictor satisfying the contract, any `M`): `flush` grows the buffer instead of running past
its end. -/
theorem C12_binary_encode_total {σ : Type} (P : Pred σ) {R : σ → Prop} (hP : P.Safe R) (M : Nat)
    (s0 : σ) (hs : R s0) (blk : List Nat) (hlen : blk.length ≤ MAX_BLOCK) :
    ∃ out, encodeBlock P M s0 blk = .ok out :=
  encodeBlock_total P hP M s0 hs blk hlen

/-- **C12_binary_block.**  For every predictor satisfying the contract and every NON-EMPTY block
of bytes of length `≤ 2^30` (the Go limit; `M` = `_BINARY_ENTROPY_MAX_CHUNK`, any value with
`8 ≤ M ≤ 2^27`, so single-chunk blocks, blocks shorter than 64 bytes and multi-chunk blocks are all
covered) such that every chunk flushes fewer than twice the chunk length (`fits2`, the decoder's
acceptance test): `Write` + `Dispose` succeed, and `Read` of the same length on the written bits
followed by ANY bits `rest` returns the block and leaves exactly `rest` unread.
(`M ≤ 2^27` keeps every chunk below 2^27 bytes, hence its payload below 2^32 bytes, the range of
the `uint32` VarInt.) -/
theorem C12_binary_block {σ : Type} (P : Pred σ) {R : σ → Prop} (hP : P.Safe R) (M : Nat) (hM : 8 ≤ M)
    (hM27 : M ≤ 2 ^ 27) (s0 : σ) (hs : R s0) (blk : List Nat) (hne : blk ≠ []) (hb : ∀ v ∈ blk, v < 256)
    (hlen : blk.length ≤ MAX_BLOCK) (hfit : fits2 P M s0 blk = true) :
    ∃ out, encodeBlock P M s0 blk = .ok out ∧
      ∀ rest : Bits, decodeBlock P M s0 (out ++ rest) blk.length = .ok (blk, rest) :=
  block_rt P hP M hM hM27 s0 hs blk hne hb hlen hfit

/-- **C12_binary_reject.**  `fits2` is exactly the decoder's acceptance: when some chunk flushes at
least twice the chunk length, the encoder still succeeds but `Read` reports "Invalid bitstream". -/
theorem C12_binary_reject {σ : Type} (P : Pred σ) {R : σ → Prop} (hP : P.Safe R) (M : Nat) (hM : 8 ≤ M)
    (hM27 : M ≤ 2 ^ 27) (s0 : σ) (hs : R s0) (blk : List Nat) (hne : blk ≠ []) (hb : ∀ v ∈ blk, v < 256)
    (hlen : blk.length ≤ MAX_BLOCK) (hfit : fits2 P M s0 blk = false) :
    ∃ out, encodeBlock P M s0 blk = .ok out ∧
      ∀ rest : Bits, decodeBlock P M s0 (out ++ rest) blk.length = .error .invalid :=
  block_reject P hP M hM hM27 s0 hs blk hne hb hlen hfit

/-- the same with the real constant `_BINARY_ENTROPY_MAX_CHUNK = 1 << 26` -/
theorem C12_binary_block_real {σ : Type} (P : Pred σ) {R : σ → Prop} (hP : P.Safe R)
    (s0 : σ) (hs : R s0) (blk : List Nat) (hne : blk ≠ []) (hb : ∀ v ∈ blk, v < 256)
    (hlen : blk.length ≤ 2 ^ 30) (hfit : fits2 P MAX_CHUNK s0 blk = true) :
    ∃ out, encodeBlock P MAX_CHUNK s0 blk = .ok out ∧
      ∀ rest : Bits, decodeBlock P MAX_CHUNK s0 (out ++ rest) blk.length = .ok (blk, rest) :=
  block_rt P hP MAX_CHUNK (by decide) (by decide) s0 hs blk hne hb hlen hfit

/-- for a single-chunk block (`0 < n < M`) `fits2` reads: the flushed bytes number fewer than
`2·max(n, 64)` -/
theorem C12_binary_fits2_single {σ : Type} (P : Pred σ) (M : Nat) (s0 : σ) (blk : List Nat) (hne : blk ≠ [])
    (hM : blk.length < M) :
    fits2 P M s0 blk = decide (flushedLen P s0 blk < 2 * max blk.length 64) :=
  fits2_single P M s0 blk hne hM

/-- with the final states: after `Read` the decoder's predictor state is the encoder's and its
interval is the encoder's (the encoder's registers carry identical left-over top 8 bits `g`) -/
theorem C12_binary_block_states {σ : Type} (P : Pred σ) {R : σ → Prop} (hP : P.Safe R) (M : Nat) (hM : 8 ≤ M)
    (hM27 : M ≤ 2 ^ 27) (s0 : σ) (hs : R s0) (blk : List Nat) (hne : blk ≠ []) (hb : ∀ v ∈ blk, v < 256)
    (hlen : blk.length ≤ MAX_BLOCK) (hfit : fits2 P M s0 blk = true) (rest : Bits) :
    ∃ bits e', (Enc.init s0).write P M blk = .ok (bits, e') ∧ e'.dispose.1 = e'.trailer ∧
    ∃ d' lf hf, (Dec.init s0).readBlock P M (bits ++ e'.dispose.1 ++ rest) blk.length = .ok (blk, d', rest) ∧
      d'.ps = e'.ps ∧ ERel e' lf hf ∧ Inv lf hf ∧ d'.low = lf ∧ d'.high = hf := by
  obtain ⟨r, hw⟩ := write_total P hP M s0 hs blk hlen
  have h := block_rt_full P hP M hM hM27 s0 hs blk hne hb hlen r.1 r.2 hw rest
  exact ⟨r.1, r.2, hw, h.1, h.2.1 hfit⟩

/-! ## 3. the empty block (known finding F11) -/

/-- **C12_binary_empty_mismatch.**  On a 0-length block `Write` writes nothing and `Dispose` writes
the 56 bits `0x00000000FFFFFF`, while `Read` of 0 bytes reads nothing at all: the 56 bits stay in
front of whatever follows, so data after an empty block is NOT read correctly.  (Unreachable through
the stream layer: empty blocks are never entropy coded.) -/
theorem C12_binary_empty_mismatch {σ : Type} (P : Pred σ) (M : Nat) (s0 : σ) (rest : Bits) :
    encodeBlock P M s0 [] = .ok (natBits 0xFFFFFF 56) ∧
    decodeBlock P M s0 (natBits 0xFFFFFF 56 ++ rest) 0 = .ok ([], natBits 0xFFFFFF 56 ++ rest) ∧
    natBits 0xFFFFFF 56 ++ rest ≠ rest :=
  ⟨encodeBlock_nil P M s0, decodeBlock_zero P M s0 _, by
    intro h
    have := congrArg List.length h
    rw [List.length_append, natBits_length] at this
    omega⟩

/-! ## 4. the buffer estimate `length + length>>3` and the bound `32·n` -/

/-- `flushedLen P s0 blk` = the number of bytes `flush` stores for the block (pure coder): at most
one 32-bit word per coded bit, i.e. `32·n` bytes for `n` bytes of input. -/
theorem C12_binary_flushed_le {σ : Type} (P : Pred σ) (s0 : σ) (blk : List Nat) :
    flushedLen P s0 blk ≤ 32 * blk.length :=
  flushedLen_le P s0 blk

/-- **C12_binary_encode_single.**  What the encoder writes for a single-chunk block (`0 < n < M`,
`n < 2^27`): the VarInt of the number of flushed bytes, these bytes, the 56-bit trailer — whether or
not that number exceeds the estimate. -/
theorem C12_binary_encode_single {σ : Type} (P : Pred σ) {R : σ → Prop} (hP : P.Safe R) (M : Nat)
    (s0 : σ) (hs : R s0) (blk : List Nat) (hne : blk ≠ []) (hM : blk.length < M)
    (hlen : blk.length < 2 ^ 27) :
    encodeBlock P M s0 blk = .ok (writeVarInt (flushedLen P s0 blk) ++ pOut P s0 0 TOP (ofBytes blk)) :=
  encodeBlock_single P hP M s0 hs blk hne hM hlen

/-- **C12_binary_estimate_exceeded_adversarial.**  The ESTIMATE `length + length>>3` (`length =
max(n, 64)`) is false for predictors that respect the 12-bit contract: with `Get() = 0` always ("a one
is impossible"), a block of `n ≥ 3` bytes `0xFF` flushes on every bit: `32·n` bytes — the maximum of
`C12_binary_flushed_le`, so the bound `32·n` is tight — which is more than the estimate.  Before
the repair this was an index out of range in `flush` (and the real TPAQ predictor reaches it on a
67-byte block: `binent` stream, `real TPAQ 67 adv 0`); now the buffer grows. -/
theorem C12_binary_estimate_exceeded_adversarial {σ : Type} (P : Pred σ) (h0 : ∀ s, P.get s = 0)
    (s0 : σ) (n : Nat) (hn : 3 ≤ n) :
    flushedLen P s0 (List.replicate n 255) = 32 * n ∧
    bufSizeOf (max n 64) < flushedLen P s0 (List.replicate n 255) :=
  estimate_exceeded P h0 s0 n hn

/-- **C12_binary_expansion_limit.**  The residual gap, explicit: a predictor WITHIN the 12-bit
contract (`Get() = 0` always) and a block (`n ≥ 4` bytes `0xFF`, single chunk) for which the encoder
succeeds and the decoder rejects its output ("Invalid bitstream"): `32·n ≥ 2·max(n, 64)`.  The coder
round-trips every block only for predictors that never let a chunk double in size. -/
theorem C12_binary_expansion_limit {σ : Type} (P : Pred σ) (hsh : P.shift = 4) (h0 : ∀ s, P.get s = 0)
    (M : Nat) (hM : 8 ≤ M) (hM27 : M ≤ 2 ^ 27) (s0 : σ) (n : Nat) (hn : 4 ≤ n) (hnM : n < M) :
    fits2 P M s0 (List.replicate n 255) = false ∧
    ∃ out, encodeBlock P M s0 (List.replicate n 255) = .ok out ∧
      ∀ rest : Bits, decodeBlock P M s0 (out ++ rest) n = .error .invalid := by
  have hf := fits2_false_adversarial P h0 M s0 n hn hnM
  have hP : P.Safe (fun _ => True) := Pred.Ok.safe ⟨hsh, fun s => by rw [h0 s]; omega⟩
  have hne : List.replicate n 255 ≠ [] := by
    intro hc
    have := congrArg List.length hc
    rw [List.length_replicate, List.length_nil] at this
    omega
  have hmb : MAX_BLOCK = 1073741824 := rfl
  have := block_reject P hP M hM hM27 s0 trivial (List.replicate n 255) hne
    (fun v hv => by rw [(List.mem_replicate.mp hv).2]; omega)
    (by rw [List.length_replicate]; omega) hf
  rw [List.length_replicate] at this
  exact ⟨hf, this⟩

/-! ## 5. the hypotheses are satisfiable -/

/-- a constant predictor satisfies the contract -/
example : ({ get := fun _ => 2048, update := fun s _ => s } : Pred Unit).Ok :=
  ⟨rfl, fun _ => (by decide : 2048 ≤ 4095)⟩

/-- the two extreme values are allowed -/
example : ({ get := fun s => if s then 0 else 4095, update := fun s _ => !s } : Pred Bool).Safe (fun _ => True) :=
  Pred.Safe.of12 rfl (fun _ _ _ => trivial) (fun s _ => by cases s <;> decide)

/-- `fits2` is decidable and holds e.g. for 3 bytes with a constant predictor (kernel evaluation) -/
example : fits2 ({ get := fun _ => 2048, update := fun s _ => s } : Pred Unit) MAX_CHUNK () [0, 255, 16] = true := by
  decide

end Kanzi.C12
