/-
C01 / C02 for the one codec that is modelled completely — transform NONE + entropy NONE — down to
the bytes at the sink: H_codec is a THEOREM for NONE/NONE, and the abstract stream-layer theorems
(blocks, frames) are connected to the real byte image.
Property theorems only; proofs in `Kanzi/Proofs/Block.lean` (+ `BlockLemmas.lean`).

Model: `Kanzi/Model/Block.lean` — `encodeNone` mirrors `encodingTask.encode`, `decodeTask` /
`decodeNone` mirror `decodingTask.decode`, `streamImage` is the byte image of a whole stream,
`parseImage` reads it back (header, frames with the `maxFrameLength` bound, blocks, result loop of
`processBlock`).  Tied to /repo by the `image` correspondence stream: `img` — the bytes produced by
the REAL Writer are `streamImage` byte for byte; `imgr` / `imgx` — what the REAL Reader returns on
valid and on damaged images (delivered bytes, error class) is `parseImage`.
-/
import Kanzi.Model.Block
import Kanzi.Proofs.Block
import Kanzi.Properties.C10_header
import Kanzi.Properties.ContainerP
import Kanzi.Properties.StreamW
import Kanzi.Properties.C01

namespace Kanzi.C01none
open Kanzi.Bits Kanzi.Block Kanzi.Header

/-- C01_codec_NONE (H_codec for NONE/NONE).  For every checksum setting, every block size `B` up to
the format limit 2^30 and every block of 1..B bytes: the decoding task run on what the encoding task
wrote returns exactly the block — through the copy-block branch (≤ 15 bytes), the 1/2/3/4-byte length
field, and the checksum comparison.  (No lower bound on `B` is needed; `B ≤ 2^30` is what the Writer
and Reader constructors enforce: beyond it the 4-byte length field and `maxTransformLength` fail.) -/
theorem C01_codec_NONE (ck B : Nat) (data : List Nat) (h0 : 0 < data.length) (hB : data.length ≤ B)
    (hmax : B ≤ 2 ^ 30) (hbytes : ∀ b ∈ data, b < 256) :
    decodeNone ck B (encodeNone ck data) = .ok data :=
  decodeNone_encodeNone ck B data h0 hB (by omega) hbytes

/-- the decoding task also reports `decoded = len ≤ B`, so the result loop of `processBlock`
(`r.decoded > blockSize` ⇒ "incorrectly decompressed") accepts it -/
theorem C01_codec_NONE_task (ck B : Nat) (data : List Nat) (h0 : 0 < data.length) (hB : data.length ≤ B)
    (hmax : B ≤ 2 ^ 30) (hbytes : ∀ b ∈ data, b < 256) :
    decodeTask ck B (encodeNone ck data) = ⟨data.length, .ok data⟩ :=
  decodeTask_encodeNone ck B data h0 hB (by omega) hbytes

/-- C01_codec_NONE, size: the payload has exactly the number of bits the Writer model charges for a
NONE/NONE block (`Kanzi.Drv.nonePayloadBits` = 8 + 8·dataSize + ck + 8·len), and its frame exactly
`Kanzi.Drv.noneFrameBits` — the value of `Writer.Cfg.frameBits` used by the `sw` stream, which
justifies the `GetWritten` accounting of the Writer model for this codec. -/
theorem C01_codec_NONE_bits (ck : Nat) (hck : ck = 0 ∨ ck = 32 ∨ ck = 64) (data : List Nat) :
    (encodeNone ck data).length = Kanzi.Drv.nonePayloadBits data.length ck ∧
    (Container.frameBits (encodeNone ck data)).length = Kanzi.Drv.noneFrameBits ck data :=
  ⟨encodeNone_length ck data hck, frameBits_encodeNone_length ck data hck⟩

/-- C02_crc_mismatch_detected (the mechanism; no claim about collisions).  Take the payload of a
block `d` and replace its data bits by other bytes `d'` of the same length (mode byte, length field
and checksum field unchanged): if the checksum of `d'` differs from the stored one, the decoding task
fails with `crc` — it never returns `d'`. -/
theorem C02_crc_mismatch_detected (ck B : Nat) (hck : ck = 32 ∨ ck = 64) (d d' : List Nat)
    (hlen : d'.length = d.length) (h0 : 0 < d.length) (hB : d.length ≤ B) (hmax : B ≤ 2 ^ 30)
    (hbytes : ∀ b ∈ d', b < 256) (hne : checksum ck d' ≠ checksum ck d) :
    decodeNone ck B (encodeNoneWith ck (checksum ck d) d') = .error .crc :=
  decodeNone_crc ck B _ d' hck (by omega) (by omega) (by omega) hbytes
    (by have := checksum_lt ck d; rwa [ckWidth_of ck (by omega)] at this) hne

/-- the damaged payload of `C02_crc_mismatch_detected` is the original payload with the data bits
replaced: same prologue (it depends on the length only), `d'` instead of `d` -/
theorem C02_damaged_payload_shape (ck : Nat) (d d' : List Nat) (hlen : d'.length = d.length) :
    encodeNone ck d = natBits (modeByte d.length) 8 ++ natBits d.length (8 * dataSizeOf d.length) ++
        natBits (checksum ck d) (ckWidth ck) ++ ofBytes d ∧
    encodeNoneWith ck (checksum ck d) d' = natBits (modeByte d.length) 8 ++
        natBits d.length (8 * dataSizeOf d.length) ++ natBits (checksum ck d) (ckWidth ck) ++ ofBytes d' := by
  constructor
  · rfl
  · unfold encodeNoneWith; rw [hlen]

/-- C02, any stored value: whatever 32/64-bit value sits in the checksum field, the block is
returned only if it equals the checksum of the bytes actually decoded -/
theorem C02_crc_field_checked (ck B sum : Nat) (hck : ck = 32 ∨ ck = 64) (d : List Nat)
    (h0 : 0 < d.length) (hB : d.length ≤ B) (hmax : B ≤ 2 ^ 30) (hbytes : ∀ b ∈ d, b < 256)
    (hs : sum < 2 ^ ck) (hne : checksum ck d ≠ sum) :
    decodeNone ck B (encodeNoneWith ck sum d) = .error .crc :=
  decodeNone_crc ck B sum d hck h0 hB (by omega) hbytes hs hne

/-- C01_stream_image_layers: the three layers composed explicitly.  The bits of the byte image are
the stream bits plus fewer than 8 zero bits; `parseHeader` (C10_header_roundtrip) returns the header
and leaves the frames; `Container.parseFrames` (C10_stream_layout) returns the payloads in order,
then the end marker; `decodeNone` (C01_codec_NONE) turns every payload back into its block. -/
theorem C01_stream_image_layers (h : Header) (wf : WF h) (ck : Nat) (blocks : List (List Nat))
    (hv : ValidBlocks h.blockSize blocks) :
    ∃ pad rest, pad.length < 8 ∧ (∀ b ∈ pad, b = false) ∧
      ofBytes (streamImage h ck blocks) = streamBits h ck blocks ++ pad ∧
      parseHeader (ofBytes (streamImage h ck blocks)) = .ok (h, rest) ∧
      Container.parseFrames (blocks.length + 1) rest =
        blocks.map (fun b => Container.Item.payload (encodeNone ck b)) ++ [Container.Item.endMark] ∧
      ∀ b ∈ blocks, decodeNone ck h.blockSize (encodeNone ck b) = .ok b := by
  refine ⟨List.replicate (padLen (streamBits h ck blocks).length) false,
    (blocks.map (encodeNone ck)).flatMap Container.frameBits ++ Container.endMarker ++
      List.replicate (padLen (streamBits h ck blocks).length) false, ?_, ?_, ?_, ?_, ?_, ?_⟩
  · simpa using padLen_lt _
  · intro b hb; exact (List.mem_replicate.mp hb).2
  · exact ofBytes_streamImage h ck blocks
  · rw [ofBytes_streamImage, streamBits_eq, List.append_assoc]
    exact Kanzi.C10.C10_header_roundtrip h wf _
  · have := Kanzi.ContainerP.C10_stream_layout (blocks.map (encodeNone ck))
      (List.replicate (padLen (streamBits h ck blocks).length) false)
      (fun p hp => by
        have := payloads_bounds ck h.blockSize blocks hv wf.bsHi p hp
        exact ⟨this.1, this.2.1⟩)
    rw [List.length_map, List.map_map] at this
    exact this
  · intro b hb
    have := hv b hb
    exact C01_codec_NONE ck h.blockSize b this.1 this.2.1 wf.bsHi this.2.2

/-- C01_stream_image_parses: reading the byte image of a NONE/NONE stream — header, frames (with the
reader's `maxFrameLength` bound), decoding tasks, result loop — yields the header, exactly the
blocks, and stops at the end marker.  For every well-formed header announcing NONE/NONE, every list
of blocks of 1..blockSize bytes; `ck = 32·ckSize` is the checksum width the header announces. -/
theorem C01_stream_image_parses (h : Header) (wf : WF h) (hent : h.entropyType = 0)
    (htr : h.transformType = 0) (blocks : List (List Nat)) (hv : ValidBlocks h.blockSize blocks) :
    parseImage (streamImage h (32 * h.ckSize) blocks) = (some h, blocks, .endOfStream) :=
  parseImage_streamImage h wf hent htr blocks hv

/-- the driver of the `image` stream prints `streamImageFast`: it is `streamImage` -/
theorem C01_stream_image_fast (h : Header) (ck : Nat) (blocks : List (List Nat)) :
    streamImageFast h ck blocks = streamImage h ck blocks :=
  streamImageFast_eq h ck blocks

/-- C01 for NONE/NONE, end to end over bytes.  Run the Writer model (any partition into Write calls,
any job count, any size hint) with the NONE/NONE frame size; take the byte image of the header and of
the blocks it emitted.  Then (i) the image has exactly `GetWritten` bytes, and (ii) reading the image
back yields the header, stops at the end marker, and the blocks concatenate to the data written. -/
theorem C01_none_end_to_end (h : Header) (wf : WF h) (hent : h.entropyType = 0) (htr : h.transformType = 0)
    (c : Writer.Cfg) (hB : c.B = h.blockSize) (hJ : 0 < c.J) (hhl : c.headless = false)
    (hhb : c.headerBits = (headerBits h).length)
    (hfb : c.frameBits = Kanzi.Drv.noneFrameBits (32 * h.ckSize))
    (parts : List (List Nat)) (hbytes : ∀ d ∈ parts, ∀ x ∈ d, x < 256) :
    let w := Writer.run c (Writer.init c) (Writer.healthyProgram parts)
    let img := streamImage h (32 * h.ckSize) w.1.emitted
    img.length = Writer.getWritten w.1 ∧
    (parseImage img).1 = some h ∧ (parseImage img).2.2 = Stop.endOfStream ∧
    (parseImage img).2.1.flatten = parts.flatten := by
  intro w img
  have hBpos : 0 < c.B := by have := wf.bsLo; omega
  have hem : w.1.emitted = Spec.chunks c.B parts.flatten :=
    (Kanzi.StreamW.C04_writer_blocks c hBpos hJ parts).2.1
  have hcv := Kanzi.C01.C01_writer_blocks_valid c.B hBpos parts.flatten
  have hck : 32 * h.ckSize = 0 ∨ 32 * h.ckSize = 32 ∨ 32 * h.ckSize = 64 := by
    have := wf.ck; omega
  have hv : ValidBlocks h.blockSize w.1.emitted := by
    intro b hb
    rw [hem] at hb
    have := hcv.1.1 b hb
    refine ⟨this.1, by omega, ?_⟩
    intro x hx
    have hx' := mem_of_mem_chunks c.B parts.flatten b hb x hx
    obtain ⟨d, hd, hxd⟩ := List.mem_flatten.mp hx'
    exact hbytes d hd x hxd
  have hp := parseImage_streamImage h wf hent htr w.1.emitted hv
  refine ⟨?_, ?_, ?_, ?_⟩
  · show (streamImage h (32 * h.ckSize) w.1.emitted).length = Writer.getWritten w.1
    rw [streamImage_length h _ _ hck, Kanzi.StreamW.C17_getWritten_final c hBpos hJ parts, hem, hhl, hhb, hfb]
    simp
  · show (parseImage (streamImage h (32 * h.ckSize) w.1.emitted)).1 = some h
    rw [hp]
  · show (parseImage (streamImage h (32 * h.ckSize) w.1.emitted)).2.2 = Stop.endOfStream
    rw [hp]
  · show (parseImage (streamImage h (32 * h.ckSize) w.1.emitted)).2.1.flatten = parts.flatten
    rw [hp, hem]
    exact hcv.2

/-- the hypotheses are satisfiable: XXHash64, 1 MiB blocks, a 17-byte copy-block-sized and a
300-byte block -/
example : WF (mkHeader 2 0 0 (1024 * 1024) 317) ∧
    ValidBlocks (mkHeader 2 0 0 (1024 * 1024) 317).blockSize [List.replicate 17 65, List.replicate 300 66] := by
  refine ⟨by decide, ?_⟩
  intro b hb
  simp only [List.mem_cons, List.not_mem_nil, or_false] at hb
  rcases hb with rfl | rfl <;>
  · refine ⟨by simp only [List.length_replicate]; omega,
      by simp only [List.length_replicate, mkHeader]; omega, ?_⟩
    intro x hx; rw [List.mem_replicate] at hx; omega

/-- the hypothesis of `C02_crc_mismatch_detected` is satisfiable (both checksum widths) -/
example : checksum 32 [2] ≠ checksum 32 [1] ∧ checksum 64 [2] ≠ checksum 64 [1] := by decide

end Kanzi.C01none
