/-
Proofs about the pieces shared by the two ROLZ codecs (`Kanzi/Model/ROLZX.lean`): the ring of remembered
positions per key (`Tab`, `ring`, `Tab.register`), the context keys, the match verification loops and `emitCopy`.

The decoder does not keep the tables of the encoder literally: the encoder stores `hash tag | position`, the
decoder `position`; and the encoder of ROLZX does not register the last `minMatch - 1` positions of a chunk
while the decoder does (its per-key counters then differ for the rest of the block, `counters` being cleared
per block only).  What both sides agree on is the LOGICAL ring `ring t lpc key j` = the `j`-th most recent
entry of `key` (`RingEq`), which is all either side ever reads.
-/
import Kanzi.Model.ROLZX
import Kanzi.Proofs.RolzCoder

namespace Kanzi.ROLZ

/-! ## tables -/

/-- the `j`-th most recent entry of `key`: Go `m[(counters[key] - j) & maskChecks]` -/
def ring (t : Tab) (lpc key j : Nat) : Nat :=
  t.mts.getD (key * 2 ^ lpc + (t.counters.getD key 0 + 2 ^ lpc - j) % 2 ^ lpc) 0

/-- the Go allocations: `matches` has `65536 << logPosChecks` entries, `counters` 65536 -/
structure TabOk (t : Tab) (lpc : Nat) : Prop where
  mts : t.mts.size = HASH_SIZE * 2 ^ lpc
  cnt : t.counters.size = HASH_SIZE

theorem register_ok {t : Tab} {lpc : Nat} (h : TabOk t lpc) (key v : Nat) : TabOk (t.register lpc key v) lpc := by
  constructor
  · simp only [Tab.register, Array.size_setIfInBounds]; exact h.mts
  · simp only [Tab.register, Array.size_setIfInBounds]; exact h.cnt

theorem register_counters {t : Tab} {lpc : Nat} (h : TabOk t lpc) {key : Nat} (hk : key < HASH_SIZE) (v key' : Nat) :
    (t.register lpc key v).counters.getD key' 0 =
      if key' = key then (t.counters.getD key 0 + 1) % 2 ^ lpc else t.counters.getD key' 0 := by
  simp only [Tab.register]
  rw [getD_setIfInBounds]
  by_cases hkk : key' = key
  · rw [if_pos ⟨hkk, by rw [h.cnt]; exact hk⟩, if_pos hkk]
  · rw [if_neg (fun hc => hkk hc.1), if_neg hkk]

theorem register_mts {t : Tab} {lpc : Nat} (h : TabOk t lpc) {key : Nat} (hk : key < HASH_SIZE) (v idx : Nat) :
    (t.register lpc key v).mts.getD idx 0 =
      if idx = key * 2 ^ lpc + (t.counters.getD key 0 + 1) % 2 ^ lpc then v else t.mts.getD idx 0 := by
  have hP : 0 < 2 ^ lpc := Nat.two_pow_pos lpc
  have hc : (t.counters.getD key 0 + 1) % 2 ^ lpc < 2 ^ lpc := Nat.mod_lt _ hP
  have hin : key * 2 ^ lpc + (t.counters.getD key 0 + 1) % 2 ^ lpc < t.mts.size := by
    rw [h.mts]
    have h1 : key * 2 ^ lpc + (t.counters.getD key 0 + 1) % 2 ^ lpc < (key + 1) * 2 ^ lpc := by
      rw [Nat.add_mul, Nat.one_mul]; omega
    have h2 : (key + 1) * 2 ^ lpc ≤ HASH_SIZE * 2 ^ lpc := Nat.mul_le_mul_right _ hk
    omega
  simp only [Tab.register]
  rw [getD_setIfInBounds]
  by_cases hi : idx = key * 2 ^ lpc + (t.counters.getD key 0 + 1) % 2 ^ lpc
  · rw [if_pos ⟨hi, hin⟩, if_pos hi]
  · rw [if_neg (fun hc2 => hi hc2.1), if_neg hi]

/-- registering `v` under `key` shifts the ring of `key` by one and leaves the other keys alone -/
theorem register_ring {t : Tab} {lpc : Nat} (h : TabOk t lpc) {key : Nat} (hk : key < HASH_SIZE) (v key' j : Nat)
    (hk' : key' < HASH_SIZE) (hj : j < 2 ^ lpc) :
    ring (t.register lpc key v) lpc key' j =
      if key' = key then (if j = 0 then v else ring t lpc key (j - 1)) else ring t lpc key' j := by
  have hP : 0 < 2 ^ lpc := Nat.two_pow_pos lpc
  have hc : (t.counters.getD key 0 + 1) % 2 ^ lpc < 2 ^ lpc := Nat.mod_lt _ hP
  unfold ring
  rw [register_counters h hk, register_mts h hk]
  by_cases hkk : key' = key
  · subst hkk
    rw [if_pos rfl, if_pos rfl]
    by_cases hj0 : j = 0
    · subst hj0
      rw [if_pos rfl, if_pos]
      congr 1
      rw [Nat.sub_zero, Nat.add_mod_right, Nat.mod_mod]
    · rw [if_neg hj0]
      have hne : ¬ ((t.counters.getD key' 0 + 1) % 2 ^ lpc + 2 ^ lpc - j) % 2 ^ lpc = (t.counters.getD key' 0 + 1) % 2 ^ lpc := by
        intro hc2
        -- (c' + P - j) % P = c' with 0 < j < P is impossible
        have h1 : ((t.counters.getD key' 0 + 1) % 2 ^ lpc + 2 ^ lpc - j)
            = ((t.counters.getD key' 0 + 1) % 2 ^ lpc + (2 ^ lpc - j)) := by omega
        rw [h1] at hc2
        by_cases hlt : (t.counters.getD key' 0 + 1) % 2 ^ lpc + (2 ^ lpc - j) < 2 ^ lpc
        · rw [Nat.mod_eq_of_lt hlt] at hc2; omega
        · have h2 : (t.counters.getD key' 0 + 1) % 2 ^ lpc + (2 ^ lpc - j)
              = ((t.counters.getD key' 0 + 1) % 2 ^ lpc + (2 ^ lpc - j) - 2 ^ lpc) + 2 ^ lpc := by omega
          rw [h2, Nat.add_mod_right, Nat.mod_eq_of_lt (by omega)] at hc2
          omega
      rw [if_neg (fun hc2 => hne (by omega))]
      congr 2
      -- ((c+1)%P + P - j) % P = (c + P - (j-1)) % P
      have e1 : (t.counters.getD key' 0 + 1) % 2 ^ lpc + 2 ^ lpc - j
          = (t.counters.getD key' 0 + 1) % 2 ^ lpc + (2 ^ lpc - j) := by omega
      have e2 : t.counters.getD key' 0 + 2 ^ lpc - (j - 1) = t.counters.getD key' 0 + 1 + (2 ^ lpc - j) := by omega
      rw [e1, e2, Nat.add_mod ((t.counters.getD key' 0 + 1) % 2 ^ lpc), Nat.mod_mod, ← Nat.add_mod]
  · rw [if_neg hkk, if_neg hkk, if_neg]
    intro hc2
    -- different keys address different blocks of `2^lpc` entries
    have hs : (t.counters.getD key' 0 + 2 ^ lpc - j) % 2 ^ lpc < 2 ^ lpc := Nat.mod_lt _ hP
    rcases Nat.lt_or_gt_of_ne hkk with hlt | hgt
    · have : (key' + 1) * 2 ^ lpc ≤ key * 2 ^ lpc := Nat.mul_le_mul_right _ hlt
      rw [Nat.add_mul, Nat.one_mul] at this
      omega
    · have : (key + 1) * 2 ^ lpc ≤ key' * 2 ^ lpc := Nat.mul_le_mul_right _ hgt
      rw [Nat.add_mul, Nat.one_mul] at this
      omega

/-- the tables of encoder (`tE`) and decoder (`tD`) hold the same positions, most recent first -/
def RingEq (tE tD : Tab) (lpc : Nat) : Prop :=
  ∀ key, key < HASH_SIZE → ∀ j, j < 2 ^ lpc → ring tE lpc key j % 2 ^ 24 = ring tD lpc key j

/-- every position in the encoder's table is below `b` (chunk relative) -/
def EntLt (t : Tab) (b : Nat) : Prop := ∀ k, t.mts.getD k 0 % 2 ^ 24 < b

theorem ring_lt {t : Tab} {b : Nat} (h : EntLt t b) (lpc key j : Nat) : ring t lpc key j % 2 ^ 24 < b := h _

theorem register_entLt {t : Tab} {b b' : Nat} (h : EntLt t b) (hb : b ≤ b') (lpc key v : Nat) (hv : v % 2 ^ 24 < b') :
    EntLt (t.register lpc key v) b' := by
  intro k
  simp only [Tab.register]
  rw [getD_setIfInBounds]
  split
  · exact hv
  · exact Nat.lt_of_lt_of_le (h k) hb

theorem register_ringEq {tE tD : Tab} {lpc : Nat} (hE : TabOk tE lpc) (hD : TabOk tD lpc) (h : RingEq tE tD lpc)
    {key : Nat} (hk : key < HASH_SIZE) (vE vD : Nat) (hv : vE % 2 ^ 24 = vD) :
    RingEq (tE.register lpc key vE) (tD.register lpc key vD) lpc := by
  intro key' hk' j hj
  rw [register_ring hE hk vE key' j hk' hj, register_ring hD hk vD key' j hk' hj]
  by_cases hkk : key' = key
  · rw [if_pos hkk, if_pos hkk]
    by_cases hj0 : j = 0
    · rw [if_pos hj0, if_pos hj0]; exact hv
    · rw [if_neg hj0, if_neg hj0]; exact h key hk (j - 1) (by omega)
  · rw [if_neg hkk, if_neg hkk]; exact h key' hk' j hj

/-- cleared tables agree whatever the counters are -/
theorem ringEq_clear (cE cD : Array Nat) (lpc : Nat) : RingEq ⟨matches0 lpc, cE⟩ ⟨matches0 lpc, cD⟩ lpc := by
  intro key _ j _
  unfold ring matches0
  simp only [Array.getD_eq_getD_getElem?, Array.getElem?_replicate]
  split <;> split <;> simp

theorem entLt_clear (c : Array Nat) (lpc b : Nat) (hb : 0 < b) : EntLt ⟨matches0 lpc, c⟩ b := by
  intro k
  unfold matches0
  simp only [Array.getD_eq_getD_getElem?, Array.getElem?_replicate]
  split <;> simpa using hb

theorem tabOk_clear (c : Array Nat) (lpc : Nat) (hc : c.size = HASH_SIZE) : TabOk ⟨matches0 lpc, c⟩ lpc :=
  ⟨by simp [matches0], hc⟩

/-! ## the hash tag -/

theorem rolzhashW_mod (w : Nat) : rolzhashW w % 2 ^ 24 = 0 := by
  unfold rolzhashW; omega

theorem tag_pos (w p : Nat) (hp : p < 2 ^ 24) : (rolzhashW w + p) % 2 ^ 24 = p := by
  have := rolzhashW_mod w; omega

/-! ## keys -/

/-- the (minMatch, delta) pairs the codecs use -/
def ParamsOk (mm delta : Nat) : Prop :=
  (mm = MIN_MATCH3 ∧ (delta = 2 ∨ delta = 3)) ∨ (mm ≠ MIN_MATCH3 ∧ delta = 8)

theorem le16_lt {a : Array Nat} (ha : ∀ k, a.getD k 0 < 256) {lim i v : Nat} (h : le16 a lim i = some v) : v < 65536 := by
  unfold le16 at h
  split at h
  · injection h with h
    have := ha i; have := ha (i + 1); omega
  · cases h

theorem getKey_lt {mm delta : Nat} {a : Array Nat} (ha : ∀ k, a.getD k 0 < 256) {base lim i key : Nat}
    (h : getKey mm delta a base lim i = some key) : key < HASH_SIZE := by
  unfold getKey at h
  split at h
  · cases h
  · split at h
    · exact le16_lt ha h
    · unfold getKey2 at h
      cases h2 : le64 a lim (i - delta) with
      | none => rw [h2] at h; cases h
      | some w =>
        rw [h2] at h
        simp only [Option.map] at h
        injection h with h
        rw [← h]
        exact Nat.mod_lt _ (by decide)

/-- the key at `i` only reads the `delta` bytes before `i`: two arrays that agree below `i` give the same key -/
theorem getKey_agree {mm delta : Nat} (hp : ParamsOk mm delta) {a b : Array Nat} {base lim i : Nat}
    (hagree : ∀ k, k < i → b.getD k 0 = a.getD k 0) : getKey mm delta b base lim i = getKey mm delta a base lim i := by
  unfold getKey
  split
  · rfl
  · rename_i hge
    rcases hp with ⟨h3, hd⟩ | ⟨hn3, hd⟩
    · rw [if_pos h3, if_pos h3]
      unfold getKey1 le16
      rw [hagree (i - delta) (by omega), hagree (i - delta + 1) (by omega)]
    · rw [if_neg hn3, if_neg hn3]
      unfold getKey2 le64
      subst hd
      rw [hagree (i - 8) (by omega), hagree (i - 8 + 1) (by omega), hagree (i - 8 + 2) (by omega),
        hagree (i - 8 + 3) (by omega), hagree (i - 8 + 4) (by omega), hagree (i - 8 + 5) (by omega),
        hagree (i - 8 + 6) (by omega), hagree (i - 8 + 7) (by omega)]

/-! ## match verification -/

theorem cpl4_spec (a : Array Nat) (i j : Nat) :
    cpl4 a i j ≤ 4 ∧ ∀ k, k < cpl4 a i j → a.getD (i + k) 0 = a.getD (j + k) 0 := by
  unfold cpl4
  split
  · exact ⟨by omega, fun k hk => by omega⟩
  · rename_i h0
    split
    · refine ⟨by omega, fun k hk => ?_⟩
      have : k = 0 := by omega
      subst this; simpa using h0
    · rename_i h1
      split
      · refine ⟨by omega, fun k hk => ?_⟩
        have : k = 0 ∨ k = 1 := by omega
        rcases this with rfl | rfl
        · simpa using h0
        · simpa using h1
      · rename_i h2
        split
        · refine ⟨by omega, fun k hk => ?_⟩
          have : k = 0 ∨ k = 1 ∨ k = 2 := by omega
          rcases this with rfl | rfl | rfl
          · simpa using h0
          · simpa using h1
          · simpa using h2
        · rename_i h3
          refine ⟨by omega, fun k hk => ?_⟩
          have : k = 0 ∨ k = 1 ∨ k = 2 ∨ k = 3 := by omega
          rcases this with rfl | rfl | rfl | rfl
          · simpa using h0
          · simpa using h1
          · simpa using h2
          · simpa using h3

/-- the bytes at `r ..` and `p ..` agree on `n` positions -/
def Same (a : Array Nat) (r p n : Nat) : Prop := ∀ k, k < n → a.getD (r + k) 0 = a.getD (p + k) 0

theorem matchLen2_spec (a : Array Nat) (lim r p maxMatch : Nat) : ∀ (f n res : Nat),
    Same a r p n → matchLen2 a lim r p maxMatch f n = .ok res →
    Same a r p res ∧ (res = n ∨ (res < maxMatch + 4 ∧ 0 < maxMatch)) ∧ n ≤ res := by
  intro f
  induction f with
  | zero => intro n res _ h; simp [matchLen2] at h
  | succ f ih =>
    intro n res hs h
    simp only [matchLen2] at h
    split at h
    · rename_i hlt
      split at h
      · split at h
        · rename_i hc
          injection h with h
          subst h
          have sp := cpl4_spec a (r + n) (p + n)
          refine ⟨fun k hk => ?_, Or.inr ⟨by omega, by omega⟩, by omega⟩
          by_cases hkn : k < n
          · exact hs k hkn
          · have := sp.2 (k - n) (by omega)
            have e1 : r + n + (k - n) = r + k := by omega
            have e2 : p + n + (k - n) = p + k := by omega
            rw [e1, e2] at this
            exact this
        · rename_i hc
          have sp := cpl4_spec a (r + n) (p + n)
          have hc4 : cpl4 a (r + n) (p + n) = 4 := by omega
          have hs' : Same a r p (n + 4) := by
            intro k hk
            by_cases hkn : k < n
            · exact hs k hkn
            · have := sp.2 (k - n) (by omega)
              have e1 : r + n + (k - n) = r + k := by omega
              have e2 : p + n + (k - n) = p + k := by omega
              rw [e1, e2] at this
              exact this
          obtain ⟨q1, q2, q3⟩ := ih (n + 4) res hs' h
          refine ⟨q1, ?_, by omega⟩
          rcases q2 with q2 | q2
          · right; exact ⟨by omega, by omega⟩
          · right; exact q2
      · cases h
    · injection h with h
      subst h
      exact ⟨hs, Or.inl rfl, Nat.le_refl _⟩

/-! ## `emitCopy` -/

theorem copyLoop_size (n : Nat) : ∀ (dst : Array Nat) (d r : Nat), (copyLoop dst n d r).size = dst.size := by
  induction n with
  | zero => intro dst d r; rfl
  | succ n ih => intro dst d r; simp only [copyLoop]; rw [ih, Array.size_setIfInBounds]

/-- the byte loop reproduces a verified match: `dst` agrees with `a` below `d`, the source of the copy starts
    below `d`, and `a[r ..]` = `a[d ..]` on `n` bytes -/
theorem copyLoop_spec (a : Array Nat) (n : Nat) : ∀ (dst : Array Nat) (d r : Nat),
    r < d → d + n ≤ dst.size → (∀ k, k < d → dst.getD k 0 = a.getD k 0) → Same a r d n →
    ∀ k, k < d + n → (copyLoop dst n d r).getD k 0 = a.getD k 0 := by
  induction n with
  | zero => intro dst d r _ _ hag _ k hk; exact hag k (by omega)
  | succ n ih =>
    intro dst d r hr hsz hag hs k hk
    simp only [copyLoop]
    have hag' : ∀ k, k < d + 1 → (dst.setIfInBounds d (dst.getD r 0)).getD k 0 = a.getD k 0 := by
      intro k hk
      rw [getD_setIfInBounds]
      by_cases hkd : k = d
      · rw [if_pos ⟨hkd, by omega⟩, hag r hr, hkd]
        have := hs 0 (by omega)
        simpa using this
      · rw [if_neg (fun hc => hkd hc.1)]
        exact hag k (by omega)
    have hs' : Same a (r + 1) (d + 1) n := by
      intro j hj
      have := hs (j + 1) (by omega)
      have e1 : r + 1 + j = r + (j + 1) := by omega
      have e2 : d + 1 + j = d + (j + 1) := by omega
      rw [e1, e2]; exact this
    exact ih _ (d + 1) (r + 1) (by omega) (by rw [Array.size_setIfInBounds]; omega) hag' hs' k (by omega)

theorem emitCopy_spec (a dst : Array Nat) (lim d r n : Nat) (hr : r < d) (hlim : d + n ≤ lim) (hsz : lim ≤ dst.size)
    (hag : ∀ k, k < d → dst.getD k 0 = a.getD k 0) (hs : Same a r d n) :
    ∃ dst', emitCopy dst lim d r n = .ok (dst', d + n) ∧ dst'.size = dst.size ∧
      ∀ k, k < d + n → dst'.getD k 0 = a.getD k 0 := by
  unfold emitCopy
  by_cases hc : d ≥ r + n
  · rw [if_pos hc]
    have hm : min n (lim - d) = n := by omega
    rw [hm]
    exact ⟨_, rfl, copyLoop_size _ _ _ _, copyLoop_spec a n dst d r hr (by omega) hag hs⟩
  · rw [if_neg hc, if_pos hlim]
    exact ⟨_, rfl, copyLoop_size _ _ _ _, copyLoop_spec a n dst d r hr (by omega) hag hs⟩

end Kanzi.ROLZ
