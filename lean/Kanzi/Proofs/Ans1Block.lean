/-
Proofs for the order-1 rANS codec, part 2 (property C12, slice ans1): the (context, symbol) pairs
of the four walks are the pairs counted by `rebuildStatistics`; the 2-D histogram; normalisation of
the 256 rows (through `normalize_valid`, i.e. C16); the 256-context header round trip; one chunk
of `Write`; the whole block.
-/
import Kanzi.Proofs.Ans1

namespace Kanzi.Ans1
open Kanzi.Bits Kanzi.EntSmall

/-! ### F. the steps of the four walks are counted pairs -/

/-- walk pairs with an arbitrary initial context -/
theorem zipCons_mem0 (x : Nat) (seg : List Nat) (h : 0 < seg.length) :
    (x, seg.getD 0 0) ∈ (x :: seg).zip seg := by
  cases seg with
  | nil => simp at h
  | cons y ys => simp

theorem zipCons_memS (x : Nat) (seg : List Nat) (i : Nat) (h : i + 1 < seg.length) :
    (seg.getD i 0, seg.getD (i + 1) 0) ∈ (x :: seg).zip seg := by
  rw [List.mem_iff_getElem]
  refine ⟨i + 1, by simp; omega, ?_⟩
  simp [List.getD_eq_getElem?_getD, h, (by omega : i < seg.length)]

theorem pairsOf_mem0 (seg : List Nat) (h : 0 < seg.length) : (0, seg.getD 0 0) ∈ pairsOf seg :=
  zipCons_mem0 0 seg h

theorem pairsOf_memS (seg : List Nat) (i : Nat) (h : i + 1 < seg.length) :
    (seg.getD i 0, seg.getD (i + 1) 0) ∈ pairsOf seg :=
  zipCons_memS 0 seg i h

/-! the four-cursor loop of `ComputeHistogram` visits every consecutive pair -/

def proj : Nat → Quad → Nat
  | 0, x => x.1
  | 1, x => x.2.1
  | 2, x => x.2.2.1
  | _, x => x.2.2.2

theorem proj_rowAt (b : Array Nat) (q j k : Nat) (hk : k < 4) :
    proj k (rowAt b q j) = b.getD (k * q + j) 0 := by
  match k, hk with
  | 0, _ => simp [proj, rowAt]
  | 1, _ => simp [proj, rowAt]
  | 2, _ => simp [proj, rowAt]
  | 3, _ => simp [proj, rowAt]

theorem proj_init (b : Array Nat) (q k : Nat) (h1 : 1 ≤ k) (hk : k < 4) :
    proj k (0, b.getD (q - 1) 0, b.getD (2 * q - 1) 0, b.getD (3 * q - 1) 0) = b.getD (k * q - 1) 0 := by
  match k, h1, hk with
  | 1, _, _ => simp [proj]
  | 2, _, _ => simp [proj]
  | 3, _, _ => simp [proj]

theorem quadPairs_proj (p c : Quad) (k : Nat) (hk : k < 4) : (proj k p, proj k c) ∈ quadPairs p c := by
  match k, hk with
  | 0, _ => simp [proj, quadPairs]
  | 1, _ => simp [proj, quadPairs]
  | 2, _ => simp [proj, quadPairs]
  | 3, _ => simp [proj, quadPairs]

theorem chLoop_head (b : Array Nat) (q f n0 : Nat) (prv : Quad) (pr : Nat × Nat) (hf : 0 < f)
    (h : pr ∈ quadPairs prv (rowAt b q n0)) : pr ∈ chLoop b q f n0 prv := by
  cases f with
  | zero => omega
  | succ f => simp only [chLoop, List.mem_append]; exact Or.inl h

theorem chLoop_step (b : Array Nat) (q : Nat) (pr : Nat × Nat) : ∀ (f n0 : Nat) (prv : Quad) (i : Nat),
    n0 ≤ i → i + 1 < n0 + f → pr ∈ quadPairs (rowAt b q i) (rowAt b q (i + 1)) →
    pr ∈ chLoop b q f n0 prv := by
  intro f
  induction f with
  | zero => intro n0 prv i h1 h2; omega
  | succ f ih =>
    intro n0 prv i h1 h2 hm
    simp only [chLoop, List.mem_append]
    right
    by_cases hi : i = n0
    · subst hi
      exact chLoop_head b q f (i + 1) (rowAt b q i) pr (by omega) hm
    · exact ih (n0 + 1) (rowAt b q n0) i (by omega) (by omega) hm

theorem drop_getD (l : List Nat) (o j : Nat) : (l.drop o).getD j 0 = l.getD (o + j) 0 := by
  simp [List.getD_eq_getElem?_getD, List.getElem?_drop]

theorem compHist_mem0 (seg : List Nat) (h : 0 < seg.length) : (0, seg.getD 0 0) ∈ compHistPairs seg := by
  unfold compHistPairs
  split
  · exact pairsOf_mem0 seg h
  · rename_i h32
    rw [List.mem_append]
    left
    apply chLoop_head _ _ _ _ _ _ (by omega)
    have := quadPairs_proj (0, seg.toArray.getD (seg.length / 4 - 1) 0,
      seg.toArray.getD (2 * (seg.length / 4) - 1) 0, seg.toArray.getD (3 * (seg.length / 4) - 1) 0)
      (rowAt seg.toArray (seg.length / 4) 0) 0 (by omega)
    rw [proj_rowAt _ _ _ _ (by omega), toArray_getD] at this
    simpa [proj] using this

theorem compHist_memS (seg : List Nat) (i : Nat) (h : i + 1 < seg.length) :
    (seg.getD i 0, seg.getD (i + 1) 0) ∈ compHistPairs seg := by
  unfold compHistPairs
  split
  · exact pairsOf_memS seg i h
  · rename_i h32
    generalize hq : seg.length / 4 = q at *
    have hq8 : 8 ≤ q := by omega
    rw [List.mem_append]
    simp only [toArray_getD]
    by_cases ht : 4 * q ≤ i + 1
    · -- the sequential tail of the last cursor
      right
      by_cases he : i + 1 = 4 * q
      · have := zipCons_mem0 (seg.toArray.getD (4 * q - 1) 0) (seg.drop (4 * q))
          (by rw [List.length_drop]; omega)
        rw [drop_getD] at this
        simp only [toArray_getD] at this
        have e1 : 4 * q - 1 = i := by omega
        have e2 : 4 * q + 0 = i + 1 := by omega
        rw [e1, e2] at this
        rw [e1]
        exact this
      · have := zipCons_memS (seg.toArray.getD (4 * q - 1) 0) (seg.drop (4 * q)) (i - 4 * q)
          (by rw [List.length_drop]; omega)
        rw [drop_getD, drop_getD] at this
        simp only [toArray_getD] at this
        have e1 : 4 * q + (i - 4 * q) = i := by omega
        have e2 : 4 * q + (i - 4 * q + 1) = i + 1 := by omega
        rw [e1, e2] at this
        exact this
    · -- inside the four-cursor loop: cursor k, position n
      left
      have hk : (i + 1) / q < 4 := by
        rw [Nat.div_lt_iff_lt_mul (by omega)]; omega
      have hdm : (i + 1) / q * q + (i + 1) % q = i + 1 := by
        rw [Nat.mul_comm]; exact Nat.div_add_mod (i + 1) q
      have hn : (i + 1) % q < q := Nat.mod_lt _ (by omega)
      generalize hkk : (i + 1) / q = k at *
      generalize hnn : (i + 1) % q = n at *
      by_cases hn0 : n = 0
      · have hk1 : 1 ≤ k := by
          by_contra hc
          have : k = 0 := by omega
          subst this
          omega
        apply chLoop_head _ _ _ _ _ _ (by omega)
        have := quadPairs_proj (0, seg.toArray.getD (q - 1) 0, seg.toArray.getD (2 * q - 1) 0,
          seg.toArray.getD (3 * q - 1) 0) (rowAt seg.toArray q 0) k hk
        rw [proj_rowAt _ _ _ _ hk, proj_init _ _ _ hk1 hk] at this
        simp only [toArray_getD] at this
        generalize k * q = kq at *
        have e1 : kq - 1 = i := by omega
        have e2 : kq + 0 = i + 1 := by omega
        rw [e1, e2] at this
        exact this
      · apply chLoop_step _ _ _ _ _ _ (n - 1) (by omega) (by omega)
        have := quadPairs_proj (rowAt seg.toArray q (n - 1)) (rowAt seg.toArray q (n - 1 + 1)) k hk
        rw [proj_rowAt _ _ _ _ hk, proj_rowAt _ _ _ _ hk] at this
        simp only [toArray_getD] at this
        generalize k * q = kq at *
        have e1 : kq + (n - 1) = i := by omega
        have e2 : kq + (n - 1 + 1) = i + 1 := by omega
        rw [e1, e2] at this
        exact this

def QuadLt (x : Quad) : Prop := x.1 < 256 ∧ x.2.1 < 256 ∧ x.2.2.1 < 256 ∧ x.2.2.2 < 256

theorem getD_lt (seg : List Nat) (h : ∀ b ∈ seg, b < 256) (j : Nat) : seg.getD j 0 < 256 := by
  by_cases hj : j < seg.length
  · have : seg.getD j 0 = seg[j] := by simp [List.getD_eq_getElem?_getD, hj]
    rw [this]; exact h _ (List.getElem_mem hj)
  · have hn : seg[j]? = none := List.getElem?_eq_none (by omega)
    rw [List.getD_eq_getElem?_getD, hn]; decide

theorem quadPairs_lt (p c : Quad) (hp : QuadLt p) (hc : QuadLt c) :
    ∀ pr ∈ quadPairs p c, pr.1 < 256 ∧ pr.2 < 256 := by
  intro pr hm
  simp only [quadPairs, List.mem_cons, List.mem_nil_iff, or_false] at hm
  rcases hm with e | e | e | e <;> subst e
  · exact ⟨hp.1, hc.1⟩
  · exact ⟨hp.2.1, hc.2.1⟩
  · exact ⟨hp.2.2.1, hc.2.2.1⟩
  · exact ⟨hp.2.2.2, hc.2.2.2⟩

theorem chLoop_lt (b : Array Nat) (q : Nat) (hb : ∀ j, b.getD j 0 < 256) : ∀ (f n0 : Nat) (prv : Quad),
    QuadLt prv → ∀ pr ∈ chLoop b q f n0 prv, pr.1 < 256 ∧ pr.2 < 256 := by
  intro f
  induction f with
  | zero => intro n0 prv _ pr hm; cases hm
  | succ f ih =>
    intro n0 prv hp pr hm
    have hr : QuadLt (rowAt b q n0) := ⟨hb _, hb _, hb _, hb _⟩
    simp only [chLoop, List.mem_append] at hm
    rcases hm with hm | hm
    · exact quadPairs_lt prv _ hp hr pr hm
    · exact ih (n0 + 1) _ hr pr hm

theorem zipCons_lt (x : Nat) (seg : List Nat) (hx : x < 256) (h : ∀ b ∈ seg, b < 256) :
    ∀ pr ∈ (x :: seg).zip seg, pr.1 < 256 ∧ pr.2 < 256 := by
  intro pr hp
  have h1 := List.of_mem_zip hp
  refine ⟨?_, h pr.2 h1.2⟩
  rcases List.mem_cons.mp h1.1 with e | e
  · rw [e]; exact hx
  · exact h pr.1 e

theorem compHist_lt (seg : List Nat) (h : ∀ b ∈ seg, b < 256) :
    ∀ pr ∈ compHistPairs seg, pr.1 < 256 ∧ pr.2 < 256 := by
  have hb : ∀ j, seg.toArray.getD j 0 < 256 := fun j => by rw [toArray_getD]; exact getD_lt seg h j
  intro pr hp
  unfold compHistPairs at hp
  split at hp
  · exact zipCons_lt 0 seg (by decide) h pr hp
  · rw [List.mem_append] at hp
    rcases hp with hp | hp
    · exact chLoop_lt _ _ hb _ _ _ ⟨(by show (0 : Nat) < 256; decide), hb _, hb _, hb _⟩ pr hp
    · exact zipCons_lt _ _ (hb _) (fun b hbm => h b (List.mem_of_mem_drop hbm)) pr hp

theorem seg_getD (blk : List Nat) (o q i : Nat) (hi : i < q) (_h : o + q ≤ blk.length) :
    ((blk.drop o).take q).getD i 0 = blk.getD (o + i) 0 := by
  simp [List.getD_eq_getElem?_getD, hi, List.getElem?_drop]

theorem seg_length (blk : List Nat) (o q : Nat) (h : o + q ≤ blk.length) :
    ((blk.drop o).take q).length = q := by
  rw [List.length_take, List.length_drop]; omega

theorem seg_pair0 (blk : List Nat) (o q : Nat) (hq : 0 < q) (h : o + q ≤ blk.length) :
    (0, blk.getD o 0) ∈ compHistPairs ((blk.drop o).take q) := by
  have := compHist_mem0 ((blk.drop o).take q) (by rw [seg_length blk o q h]; exact hq)
  rw [seg_getD blk o q 0 hq h] at this
  exact this

theorem seg_pairS (blk : List Nat) (o q i : Nat) (hi : i + 1 < q) (h : o + q ≤ blk.length) :
    (blk.getD (o + i) 0, blk.getD (o + (i + 1)) 0) ∈ compHistPairs ((blk.drop o).take q) := by
  have := compHist_memS ((blk.drop o).take q) i (by rw [seg_length blk o q h]; exact hi)
  rw [seg_getD blk o q i (by omega) h, seg_getD blk o q (i + 1) hi h] at this
  exact this

/-- chain predicate from the first step and the consecutive steps -/
theorem rowsOk_drop (fsE fsD : List (List Nat)) (lr : Nat) (blk : Array Nat) (q : Nat)
    (hS : ∀ i, i + 1 < q → QuadOk fsE fsD lr (rowAt blk q i) (rowAt blk q (i + 1))) :
    ∀ (n j : Nat), j + n = q → ∀ p : Quad, (j < q → QuadOk fsE fsD lr p (rowAt blk q j)) →
      RowsOk fsE fsD lr p ((rowsOf blk q).drop j) := by
  intro n
  induction n with
  | zero =>
    intro j hj p _
    have : (rowsOf blk q).drop j = [] := by
      apply List.drop_eq_nil_of_le
      rw [rowsOf_length]; omega
    rw [this]
    trivial
  | succ n ih =>
    intro j hj p h0
    rw [rowsOf_drop blk q j (by omega)]
    exact ⟨h0 (by omega), ih (j + 1) (by omega) (rowAt blk q j) (fun h => hS j h)⟩

theorem rowsOk_of_pairs (fsE fsD : List (List Nat)) (lr : Nat) (blk : List Nat)
    (h : ∀ pr ∈ statPairs blk, StepOk fsE fsD lr pr.1 pr.2) :
    RowsOk fsE fsD lr (0, 0, 0, 0) (rowsOf blk.toArray (blk.length / 4)) := by
  by_cases hq : blk.length / 4 = 0
  · rw [hq]; trivial
  · have hq0 : 0 < blk.length / 4 := by omega
    generalize hqq : blk.length / 4 = q at *
    have hlen : 4 * q ≤ blk.length := by omega
    unfold statPairs at h
    rw [hqq, if_neg hq] at h
    have hd0 : blk.take q = (blk.drop 0).take q := by rw [List.drop_zero]
    rw [hd0] at h
    have m0 : ∀ pr ∈ compHistPairs ((blk.drop 0).take q), StepOk fsE fsD lr pr.1 pr.2 :=
      fun pr hp => h pr (by simp only [List.mem_append]; exact Or.inl (Or.inl (Or.inl hp)))
    have m1 : ∀ pr ∈ compHistPairs ((blk.drop q).take q), StepOk fsE fsD lr pr.1 pr.2 :=
      fun pr hp => h pr (by simp only [List.mem_append]; exact Or.inl (Or.inl (Or.inr hp)))
    have m2 : ∀ pr ∈ compHistPairs ((blk.drop (2 * q)).take q), StepOk fsE fsD lr pr.1 pr.2 :=
      fun pr hp => h pr (by simp only [List.mem_append]; exact Or.inl (Or.inr hp))
    have m3 : ∀ pr ∈ compHistPairs ((blk.drop (3 * q)).take q), StepOk fsE fsD lr pr.1 pr.2 :=
      fun pr hp => h pr (by simp only [List.mem_append]; exact Or.inr hp)
    have key := rowsOk_drop fsE fsD lr blk.toArray q ?_ q 0 (by omega) (0, 0, 0, 0) ?_
    · rw [List.drop_zero] at key; exact key
    · intro i hi
      refine ⟨?_, ?_, ?_, ?_⟩
      · have := m0 _ (seg_pairS blk 0 q i hi (by omega))
        simpa [rowAt, toArray_getD] using this
      · have := m1 _ (seg_pairS blk q q i hi (by omega))
        simpa [rowAt, toArray_getD] using this
      · have := m2 _ (seg_pairS blk (2 * q) q i hi (by omega))
        simpa [rowAt, toArray_getD] using this
      · have := m3 _ (seg_pairS blk (3 * q) q i hi (by omega))
        simpa [rowAt, toArray_getD] using this
    · intro _
      refine ⟨?_, ?_, ?_, ?_⟩
      · have := m0 _ (seg_pair0 blk 0 q hq0 (by omega))
        simpa [rowAt, toArray_getD] using this
      · have := m1 _ (seg_pair0 blk q q hq0 (by omega))
        simpa [rowAt, toArray_getD] using this
      · have := m2 _ (seg_pair0 blk (2 * q) q hq0 (by omega))
        simpa [rowAt, toArray_getD] using this
      · have := m3 _ (seg_pair0 blk (3 * q) q hq0 (by omega))
        simpa [rowAt, toArray_getD] using this

theorem statPairs_lt (blk : List Nat) (h : ∀ b ∈ blk, b < 256) :
    ∀ pr ∈ statPairs blk, pr.1 < 256 ∧ pr.2 < 256 := by
  intro pr hp
  unfold statPairs at hp
  split at hp
  · exact compHist_lt blk h pr hp
  · simp only [List.mem_append] at hp
    rcases hp with ((hp | hp) | hp) | hp
    · exact compHist_lt _ (fun b hb => h b (List.mem_of_mem_take hb)) pr hp
    · exact compHist_lt _ (fun b hb => h b (List.mem_of_mem_drop (List.mem_of_mem_take hb))) pr hp
    · exact compHist_lt _ (fun b hb => h b (List.mem_of_mem_drop (List.mem_of_mem_take hb))) pr hp
    · exact compHist_lt _ (fun b hb => h b (List.mem_of_mem_drop (List.mem_of_mem_take hb))) pr hp

theorem statPairs_ne_nil (blk : List Nat) (hne : blk ≠ []) : statPairs blk ≠ [] := by
  have hpos : 0 < blk.length := List.length_pos_iff.mpr hne
  unfold statPairs
  split
  · intro hn
    have := compHist_mem0 blk hpos
    rw [hn] at this
    cases this
  · rename_i hq
    intro hn
    have := seg_pair0 blk 0 (blk.length / 4) (by omega) (by omega)
    rw [List.drop_zero] at this
    have hm : (0, blk.getD 0 0) ∈ compHistPairs (blk.take (blk.length / 4))
        ++ compHistPairs ((blk.drop (blk.length / 4)).take (blk.length / 4))
        ++ compHistPairs ((blk.drop (2 * (blk.length / 4))).take (blk.length / 4))
        ++ compHistPairs ((blk.drop (3 * (blk.length / 4))).take (blk.length / 4)) := by
      simp only [List.mem_append]; exact Or.inl (Or.inl (Or.inl this))
    rw [hn] at hm
    cases hm

/-! ### G. the 2-D histogram -/

def histLL (ps : List (Nat × Nat)) (h0 : List (List Nat)) : List (List Nat) :=
  ps.foldl (fun h p => h.modify p.1 (fun r => r.modify p.2 (· + 1))) h0

theorem map_modify {α β : Type} (g : α → β) (f : α → α) (f' : β → β) (hc : ∀ x, g (f x) = f' (g x)) :
    ∀ (l : List α) (i : Nat), (l.modify i f).map g = (l.map g).modify i f' := by
  intro l
  induction l with
  | nil => intro i; simp
  | cons x xs ih =>
    intro i
    cases i with
    | zero => simp [hc]
    | succ k => simp [ih k]

theorem hist1_fold : ∀ (ps : List (Nat × Nat)) (arr : Array (Array Nat)),
    (ps.foldl (fun (h : Array (Array Nat)) p => h.modify p.1 (fun r => r.modify p.2 (· + 1))) arr).toList.map
        Array.toList = histLL ps (arr.toList.map Array.toList) := by
  intro ps
  induction ps with
  | nil => intro arr; rfl
  | cons p ps ih =>
    intro arr
    rw [List.foldl_cons, ih, Array.toList_modify]
    rw [map_modify Array.toList (fun r => r.modify p.2 (· + 1)) (fun r => r.modify p.2 (· + 1))
      (fun x => Array.toList_modify ..)]
    rfl

theorem hist1_eq (ps : List (Nat × Nat)) :
    hist1 ps = histLL ps (List.replicate 256 (List.replicate 256 0)) := by
  unfold hist1
  rw [hist1_fold, Array.toList_replicate, List.map_replicate, Array.toList_replicate]

def cell (h : List (List Nat)) (c a : Nat) : Nat := (h.getD c []).getD a 0

theorem modify_getD_outer (h : List (List Nat)) (f : List Nat → List Nat) (i j : Nat) :
    (h.modify i f).getD j [] = if i = j ∧ j < h.length then f (h.getD j []) else h.getD j [] := by
  by_cases hj : j < h.length
  · by_cases hij : i = j
    · subst hij
      simp [List.getD_eq_getElem?_getD, hj]
    · simp [List.getD_eq_getElem?_getD, hj, hij]
  · simp [List.getD_eq_getElem?_getD, hj]

theorem cell_modify_ge (h : List (List Nat)) (c' a' c a : Nat) :
    cell h c a ≤ cell (h.modify c' (fun r => r.modify a' (· + 1))) c a := by
  unfold cell
  rw [modify_getD_outer]
  split
  · rw [modify_getD]
    split <;> omega
  · exact Nat.le_refl _

theorem cell_modify_self (h : List (List Nat)) (c a : Nat) (hc : c < h.length)
    (ha : a < (h.getD c []).length) :
    cell h c a < cell (h.modify c (fun r => r.modify a (· + 1))) c a := by
  unfold cell
  rw [modify_getD_outer, if_pos ⟨rfl, hc⟩, modify_getD, if_pos ⟨rfl, ha⟩]
  omega

/-- every row has 256 entries, and there are 256 rows -/
def Shape (h : List (List Nat)) : Prop := h.length = 256 ∧ ∀ k, k < 256 → (h.getD k []).length = 256

theorem shape_modify (h : List (List Nat)) (c a : Nat) (hs : Shape h) :
    Shape (h.modify c (fun r => r.modify a (· + 1))) := by
  refine ⟨by rw [List.length_modify]; exact hs.1, ?_⟩
  intro k hk
  rw [modify_getD_outer]
  split
  · rw [List.length_modify]; exact hs.2 k hk
  · exact hs.2 k hk

theorem histLL_shape : ∀ (ps : List (Nat × Nat)) (h0 : List (List Nat)), Shape h0 → Shape (histLL ps h0) := by
  intro ps
  induction ps with
  | nil => intro h0 hs; exact hs
  | cons p ps ih =>
    intro h0 hs
    exact ih _ (shape_modify h0 p.1 p.2 hs)

theorem histLL_ge : ∀ (ps : List (Nat × Nat)) (h0 : List (List Nat)) (c a : Nat),
    cell h0 c a ≤ cell (histLL ps h0) c a := by
  intro ps
  induction ps with
  | nil => intro h0 c a; exact Nat.le_refl _
  | cons p ps ih =>
    intro h0 c a
    exact Nat.le_trans (cell_modify_ge h0 p.1 p.2 c a) (ih _ c a)

theorem histLL_pos : ∀ (ps : List (Nat × Nat)) (h0 : List (List Nat)) (c a : Nat), Shape h0 →
    (c, a) ∈ ps → c < 256 → a < 256 → cell h0 c a < cell (histLL ps h0) c a := by
  intro ps
  induction ps with
  | nil => intro h0 c a _ h; cases h
  | cons p ps ih =>
    intro h0 c a hs hm hc ha
    rcases List.mem_cons.mp hm with e | e
    · subst e
      have h1 := cell_modify_self h0 c a (by rw [hs.1]; exact hc) (by rw [hs.2 c hc]; exact ha)
      have h2 := histLL_ge ps (h0.modify c (fun r => r.modify a (· + 1))) c a
      exact Nat.lt_of_lt_of_le h1 h2
    · have h1 := cell_modify_ge h0 p.1 p.2 c a
      have h2 := ih _ c a (shape_modify h0 p.1 p.2 hs) e hc ha
      exact Nat.lt_of_le_of_lt h1 h2

theorem shape_init : Shape (List.replicate 256 (List.replicate 256 0)) := by
  refine ⟨List.length_replicate, ?_⟩
  intro k hk
  simp only [List.getD_eq_getElem?_getD, List.getElem?_replicate, hk, if_true, Option.getD_some,
    List.length_replicate]

theorem hist1_shape (ps : List (Nat × Nat)) : Shape (hist1 ps) := by
  rw [hist1_eq]; exact histLL_shape ps _ shape_init

theorem hist1_pos (ps : List (Nat × Nat)) (c a : Nat) (hm : (c, a) ∈ ps) (hc : c < 256) (ha : a < 256) :
    0 < cell (hist1 ps) c a := by
  rw [hist1_eq]
  have := histLL_pos ps _ c a shape_init hm hc ha
  omega

/-! ### H. normalisation of the 256 rows (C16) -/

/-- what `updateFrequencies` produces for one context from its histogram row -/
def CtxOk (lr : Nat) (row : List Nat) (t : List Nat × List Nat) : Prop :=
  (row.sum = 0 ∧ t.1 = [] ∧ t.2 = row) ∨
  (FreqTable t.1 t.2 lr ∧ (t.1.map (fun s => t.2.getD s 0)).sum = 2 ^ lr ∧
    ∀ a, a < 256 → 0 < row.getD a 0 → a ∈ t.1)

theorem normalize_row (row : List Nat) (lr : Nat) (hlr : 8 ≤ lr ∧ lr ≤ 15) (hlen : row.length = 256) :
    ∃ o, Kanzi.Normalize.normalize row row.sum (2 ^ lr) = .ok o ∧ CtxOk lr row (o.alphabet, o.freqs) := by
  have hp8 : 2 ^ 8 ≤ 2 ^ lr := Nat.pow_le_pow_right (by decide) hlr.1
  have hp16 : 2 ^ lr ≤ 2 ^ 16 := Nat.pow_le_pow_right (by decide) (by omega)
  by_cases h0 : row.sum = 0
  · refine ⟨⟨0, [], row⟩, ?_, Or.inl ⟨h0, rfl, rfl⟩⟩
    unfold Kanzi.Normalize.normalize
    rw [if_neg (by omega), if_neg (by omega), if_pos (Or.inr h0)]
  · obtain ⟨o, ho, hl, hsum, hsup, _, hasz, hsorted, hmem⟩ :=
      Kanzi.Normalize.normalize_valid row (2 ^ lr) (by omega) ⟨by omega, by omega⟩ (by omega)
    refine ⟨o, ho, Or.inr ?_⟩
    have halt : ∀ s ∈ o.alphabet, s < 256 := fun s hs => by have := ((hmem s).mp hs).1; omega
    have hz : ∀ i, i ∉ o.alphabet → o.freqs.getD i 0 = 0 := by
      intro i hi
      by_cases hi256 : i < row.length
      · have hh : row.getD i 0 = 0 := by
          by_contra hc
          exact hi ((hmem i).mpr ⟨hi256, hc⟩)
        have := hsup i hi256
        rw [hh] at this
        have : ¬ 0 < o.freqs.getD i 0 := fun hc => by have := this.mpr hc; omega
        omega
      · have hn : o.freqs[i]? = none := List.getElem?_eq_none (by omega)
        rw [List.getD_eq_getElem?_getD, hn]; rfl
    have hposA : ∀ s ∈ o.alphabet, 1 ≤ o.freqs.getD s 0 := by
      intro s hs
      obtain ⟨h1, h2⟩ := (hmem s).mp hs
      exact (hsup s h1).mp (by omega)
    have hsumA : (o.alphabet.map (fun s => o.freqs.getD s 0)).sum = 2 ^ lr := by
      rw [← sum_over_alphabet o.alphabet o.freqs hsorted (by intro s hs; have := halt s hs; omega) hz, hsum]
    have hle : ∀ s ∈ o.alphabet, o.freqs.getD s 0 ≤ 2 ^ lr := by
      intro s hsa
      rw [← hsumA]
      exact mem_le_sum _ _ (List.mem_map.mpr ⟨s, hsa, rfl⟩)
    have hneA : o.alphabet ≠ [] := by
      intro hnil
      have : o.freqs.sum = 0 := by
        rw [sum_over_alphabet o.alphabet o.freqs hsorted (by intro s hs; have := halt s hs; omega) hz, hnil]
        rfl
      have : 0 < 2 ^ lr := Nat.two_pow_pos lr
      omega
    exact ⟨⟨hsorted, halt, hneA, (by show o.freqs.length = 256; omega), hz, hposA, hle⟩, hsumA,
      fun a ha hpos => (hmem a).mpr ⟨by omega, by omega⟩⟩

theorem normRows_spec (lr : Nat) (hlr : 8 ≤ lr ∧ lr ≤ 15) : ∀ (rows : List (List Nat)),
    (∀ k, k < rows.length → (rows.getD k []).length = 256) →
    ∃ ts, normRows lr rows = some ts ∧ ts.length = rows.length ∧
      ∀ k, k < rows.length → CtxOk lr (rows.getD k []) (ts.getD k ([], [])) := by
  intro rows
  induction rows with
  | nil => intro _; exact ⟨[], rfl, rfl, fun k hk => by simp at hk⟩
  | cons r rs ih =>
    intro hlen
    obtain ⟨o, ho, hc⟩ := normalize_row r lr hlr (by simpa using hlen 0 (by simp))
    obtain ⟨ts, hts, hl, hk⟩ := ih (fun k hk => by simpa using hlen (k + 1) (by simpa using hk))
    refine ⟨(o.alphabet, o.freqs) :: ts, ?_, by simp [hl], ?_⟩
    · simp only [normRows, ho, hts]
    · intro k hklt
      cases k with
      | zero => simpa using hc
      | succ j => simpa using hk j (by simpa using hklt)

/-! ### I. the 256-context header -/

/-- what the header round trip needs about one context -/
def HdrOk (lr : Nat) (t : List Nat × List Nat) : Prop :=
  t.1 = [] ∨ (FreqTable t.1 t.2 lr ∧ (t.1.map (fun s => t.2.getD s 0)).sum = 2 ^ lr)

theorem ctxOk_hdrOk (lr : Nat) (row : List Nat) (t : List Nat × List Nat) (h : CtxOk lr row t) : HdrOk lr t := by
  rcases h with h | h
  · exact Or.inl h.2.1
  · exact Or.inr ⟨h.1, h.2.1⟩

/-- the decoder keeps the previous table of a context whose alphabet is empty -/
def mergeCtx (p : List Nat) (t : List Nat × List Nat) : List Nat × List Nat :=
  if t.1.length = 0 then ([], p) else t

def mergeTabs (prev : List (List Nat)) (ts : List (List Nat × List Nat)) : List (List Nat × List Nat) :=
  List.zipWith mergeCtx prev ts

theorem ctx_rt (lr : Nat) (hlr : 8 ≤ lr ∧ lr ≤ 15) (p : List Nat) (t : List Nat × List Nat)
    (h : HdrOk lr t) (rest : Bits) :
    ans1DecodeCtx p lr (ctxHeader t.1 t.2 lr ++ rest) = some (mergeCtx p t, rest) := by
  unfold ans1DecodeCtx ctxHeader mergeCtx
  rcases h with h | ⟨ht, hsum⟩
  · rw [h]
    simp [encodeAlphabetBits, decodeAlphabet, readBit]
  · rw [encodeFreqs_if, List.append_assoc, alphabet_roundtrip t.1 ht.sorted ht.lt256]
    simp only
    rw [if_neg (length_ne_zero_of_ne_nil t.1 ht.nonempty), decodeFreqTable_ok t.1 t.2 lr hlr ht hsum]
    simp only
    rw [if_neg (length_ne_zero_of_ne_nil t.1 ht.nonempty)]

theorem ctxs_rt (lr : Nat) (hlr : 8 ≤ lr ∧ lr ≤ 15) (rest : Bits) : ∀ (ts : List (List Nat × List Nat))
    (prev : List (List Nat)), prev.length = ts.length → (∀ t ∈ ts, HdrOk lr t) →
    ans1DecodeCtxs lr prev (ts.flatMap (fun t => ctxHeader t.1 t.2 lr) ++ rest)
      = some (mergeTabs prev ts, rest) := by
  intro ts
  induction ts with
  | nil =>
    intro prev hl _
    have : prev = [] := List.length_eq_zero_iff.mp (by simpa using hl)
    subst this
    rfl
  | cons t ts ih =>
    intro prev hl hok
    cases prev with
    | nil => simp at hl
    | cons p ps =>
      simp only [List.flatMap_cons, List.append_assoc, ans1DecodeCtxs]
      rw [ctx_rt lr hlr p t (hok t (by simp))]
      simp only
      rw [ih ps (by simpa using hl) (fun x hx => hok x (List.mem_cons_of_mem _ hx))]
      rfl

theorem header1_rt (lr : Nat) (hlr : 8 ≤ lr ∧ lr ≤ 15) (ts : List (List Nat × List Nat))
    (prev : List (List Nat)) (hl : prev.length = ts.length) (hok : ∀ t ∈ ts, HdrOk lr t) (rest : Bits) :
    ans1DecodeHeader prev (ans1EncodeHeader ts lr ++ rest) = some ((lr, mergeTabs prev ts), rest) := by
  unfold ans1DecodeHeader ans1EncodeHeader
  rw [List.append_assoc, readBits_natBits_lt _ 3 _ (by omega)]
  simp only
  have : 8 + (lr - 8) = lr := by omega
  rw [this, ctxs_rt lr hlr rest ts prev hl hok]

theorem mergeCtx_fst (p : List Nat) (t : List Nat × List Nat) : (mergeCtx p t).1 = t.1 := by
  unfold mergeCtx
  split
  · rename_i h
    exact (List.length_eq_zero_iff.mp h).symm
  · rfl

theorem mergeTabs_fst : ∀ (ts : List (List Nat × List Nat)) (prev : List (List Nat)),
    prev.length = ts.length → (mergeTabs prev ts).map (·.1) = ts.map (·.1) := by
  intro ts
  induction ts with
  | nil => intro prev _; simp [mergeTabs]
  | cons t ts ih =>
    intro prev hl
    cases prev with
    | nil => simp at hl
    | cons p ps =>
      simp only [mergeTabs, List.zipWith_cons_cons, List.map_cons, mergeCtx_fst]
      congr 1
      exact ih ps (by simpa using hl)

theorem mergeTabs_length (ts : List (List Nat × List Nat)) (prev : List (List Nat))
    (hl : prev.length = ts.length) : (mergeTabs prev ts).length = ts.length := by
  unfold mergeTabs
  rw [List.length_zipWith, hl, Nat.min_self]

theorem mergeTabs_getD_snd (ts : List (List Nat × List Nat)) (prev : List (List Nat))
    (hl : prev.length = ts.length) (k : Nat) (hk : k < ts.length) (hne : (ts.getD k ([], [])).1 ≠ []) :
    ((mergeTabs prev ts).map (·.2)).getD k [] = (ts.getD k ([], [])).2 := by
  have hk' : k < prev.length := by omega
  have e : ts.getD k ([], []) = ts[k] := by simp [List.getD_eq_getElem?_getD, hk]
  rw [e] at hne ⊢
  have : ((mergeTabs prev ts).map (·.2))[k]? = some (mergeCtx prev[k] ts[k]).2 := by
    simp [mergeTabs, hk, hk']
  rw [List.getD_eq_getElem?_getD, this]
  simp only [Option.getD_some]
  unfold mergeCtx
  rw [if_neg (length_ne_zero_of_ne_nil _ hne)]

theorem map_snd_getD (ts : List (List Nat × List Nat)) (k : Nat) :
    (ts.map (·.2)).getD k [] = (ts.getD k ([], [])).2 := by
  by_cases hk : k < ts.length
  · simp [List.getD_eq_getElem?_getD, hk]
  · simp [List.getD_eq_getElem?_getD, hk]

theorem eq_replicate_of_sum_zero : ∀ (l : List Nat), l.sum = 0 → l = List.replicate l.length 0 := by
  intro l
  induction l with
  | nil => intro _; rfl
  | cons x xs ih =>
    intro h
    rw [List.sum_cons] at h
    have hx : x = 0 := by omega
    rw [List.length_cons, List.replicate_succ, ← ih (by omega), hx]

/-- on a decoder whose tables are all `z`, nothing is kept from before when the encoder's tables of
    the empty contexts are `z` too -/
theorem merge_fresh (z : List Nat) : ∀ (ts : List (List Nat × List Nat)),
    (∀ t ∈ ts, t.1 = [] → t.2 = z) → mergeTabs (List.replicate ts.length z) ts = ts := by
  intro ts
  induction ts with
  | nil => intro _; rfl
  | cons t ts ih =>
    intro h
    rw [List.length_cons, List.replicate_succ]
    simp only [mergeTabs, List.zipWith_cons_cons]
    have e := ih (fun x hx => h x (List.mem_cons_of_mem _ hx))
    unfold mergeTabs at e
    rw [e]
    congr 1
    unfold mergeCtx
    split
    · rename_i hl
      have h1 : t.1 = [] := List.length_eq_zero_iff.mp hl
      have h2 := h t List.mem_cons_self h1
      rw [← h1, ← h2]
    · rfl

/-! ### J. one chunk of `Write`; the whole block -/

theorem alph_sum_merge (ts : List (List Nat × List Nat)) (prev : List (List Nat))
    (hl : prev.length = ts.length) :
    ((mergeTabs prev ts).map (·.1.length)).sum = (ts.map (·.1.length)).sum := by
  have e : ∀ l : List (List Nat × List Nat), l.map (·.1.length) = (l.map (·.1)).map List.length := by
    intro l; simp
  rw [e, e, mergeTabs_fst ts prev hl]

/-- everything `rebuildStatistics` + `encodeChunk` guarantee for one non-empty chunk -/
theorem oneChunk1_facts (c : List Nat) (lr : Nat) (hlr : 8 ≤ lr ∧ lr ≤ 15) (hne : c ≠ [])
    (hb : ∀ b ∈ c, b < 256) :
    ∃ ts, normRows lr (hist1 (statPairs c)) = some ts ∧ ts.length = 256 ∧ (∀ t ∈ ts, HdrOk lr t) ∧
      (ts.map (·.1.length)).sum ≠ 0 ∧
      (∀ prev : List (List Nat), prev.length = 256 →
        ChunkOk (ts.map (·.2)) ((mergeTabs prev ts).map (·.2)) lr c) ∧
      (∀ t ∈ ts, t.1 = [] → t.2 = List.replicate 256 0) := by
  have hshape := hist1_shape (statPairs c)
  obtain ⟨ts, hts, hl, hk⟩ := normRows_spec lr hlr (hist1 (statPairs c))
    (fun k hk => hshape.2 k (by rw [hshape.1] at hk; exact hk))
  rw [hshape.1] at hl hk
  -- every counted pair lands in a non-empty, valid context
  have key : ∀ pr ∈ statPairs c, FreqTable (ts.getD pr.1 ([], [])).1 (ts.getD pr.1 ([], [])).2 lr ∧
      ((ts.getD pr.1 ([], [])).1.map (fun s => (ts.getD pr.1 ([], [])).2.getD s 0)).sum = 2 ^ lr ∧
      pr.2 ∈ (ts.getD pr.1 ([], [])).1 ∧ pr.1 < 256 := by
    intro pr hp
    obtain ⟨h1, h2⟩ := statPairs_lt c hb pr hp
    have hpos := hist1_pos (statPairs c) pr.1 pr.2 hp h1 h2
    unfold cell at hpos
    rcases hk pr.1 h1 with hz | hr
    · have := getD_le_sum ((hist1 (statPairs c)).getD pr.1 []) pr.2
      omega
    · exact ⟨hr.1, hr.2.1, hr.2.2 pr.2 h2 hpos, h1⟩
  refine ⟨ts, hts, hl, ?_, ?_, ?_, ?_⟩
  · intro t ht
    obtain ⟨k, hklt, rfl⟩ := List.getElem_of_mem ht
    have := hk k (by omega)
    have e : ts.getD k ([], []) = ts[k] := by simp [List.getD_eq_getElem?_getD, hklt]
    rw [e] at this
    exact ctxOk_hdrOk lr _ _ this
  · obtain ⟨pr, hp⟩ := List.exists_mem_of_ne_nil _ (statPairs_ne_nil c hne)
    obtain ⟨ht, _, _, h1⟩ := key pr hp
    have e : ts.getD pr.1 ([], []) = ts[pr.1] := by simp [List.getD_eq_getElem?_getD, (by omega : pr.1 < ts.length)]
    rw [e] at ht
    have hm : (ts[pr.1]).1.length ∈ ts.map (·.1.length) :=
      List.mem_map.mpr ⟨ts[pr.1], List.getElem_mem _, rfl⟩
    have hle := mem_le_sum _ _ hm
    have := length_ne_zero_of_ne_nil _ ht.nonempty
    omega
  · intro prev hpl
    refine ⟨hb, rowsOk_of_pairs _ _ lr c ?_⟩
    intro pr hp
    obtain ⟨ht, hsum, hmem, h1⟩ := key pr hp
    unfold StepOk
    rw [mergeTabs_getD_snd ts prev (by omega) pr.1 (by omega) ht.nonempty, map_snd_getD]
    exact ⟨rfl, table_sum _ _ lr ht hsum, symOk_of_table _ _ lr ht pr.2 hmem⟩
  · intro t ht hnil
    obtain ⟨k, hklt, rfl⟩ := List.getElem_of_mem ht
    have hck := hk k (by omega)
    have e : ts.getD k ([], []) = ts[k] := by simp [List.getD_eq_getElem?_getD, hklt]
    rw [e] at hck
    rcases hck with hz | hr
    · rw [hz.2.2]
      have := eq_replicate_of_sum_zero _ hz.1
      rw [hshape.2 k (by omega)] at this
      exact this
    · exact absurd hnil hr.1.nonempty

theorem chunks1_rt (chunkSize lr : Nat) (hlr : 8 ≤ lr ∧ lr ≤ 15) (hcs0 : 0 < chunkSize)
    (hcs : chunkSize < 2 ^ 26) : ∀ (fuel : Nat) (blk : List Nat), blk.length ≤ fuel →
    (∀ b ∈ blk, b < 256) →
    ∃ enc, ans1EncodeChunks fuel chunkSize lr blk = some enc ∧
      ∀ (prev : List (List Nat)), prev.length = 256 → ∀ rest : Bits,
        ans1DecodeChunks fuel chunkSize blk.length prev (enc ++ rest) = some (blk, rest) := by
  intro fuel
  induction fuel with
  | zero =>
    intro blk hl _
    have : blk = [] := List.length_eq_zero_iff.mp (by omega)
    subst this
    exact ⟨[], rfl, fun _ _ rest => rfl⟩
  | succ fuel ih =>
    intro blk hl hb
    by_cases h0 : blk.length = 0
    · have : blk = [] := List.length_eq_zero_iff.mp h0
      subst this
      exact ⟨[], rfl, fun _ _ rest => rfl⟩
    · have hclen : (blk.take chunkSize).length = min chunkSize blk.length := List.length_take
      have hcne : blk.take chunkSize ≠ [] := by
        intro h
        rw [h] at hclen
        simp only [List.length_nil] at hclen
        omega
      obtain ⟨ts, hts, htl, hhdr, hsum, hchunk, _⟩ := oneChunk1_facts (blk.take chunkSize) lr hlr hcne
        (fun b h => hb b (List.mem_of_mem_take h))
      obtain ⟨tl, htlenc, hdec⟩ := ih (blk.drop chunkSize) (by rw [List.length_drop]; omega)
        (fun b h => hb b (List.mem_of_mem_drop h))
      have hdl : blk.length - min chunkSize blk.length = (blk.drop chunkSize).length := by
        rw [List.length_drop]; omega
      refine ⟨ans1EncodeHeader ts lr
          ++ ans1EncodeChunk (blk.take chunkSize) (mkEncTabs (ts.map (·.2)) lr) ++ tl, ?_, ?_⟩
      · simp only [ans1EncodeChunks, if_neg h0, ans1EncodeOneChunk, hts, htlenc]
      · intro prev hpl rest
        simp only [ans1DecodeChunks, if_neg h0, List.append_assoc]
        rw [header1_rt lr hlr ts prev (by omega) hhdr]
        simp only
        rw [alph_sum_merge ts prev (by omega), if_neg hsum, ← hclen,
          chunk1_rt (blk.take chunkSize) _ _ lr hlr (hchunk prev hpl) (by omega)]
        simp only
        rw [hclen, hdl, hdec _ (by rw [List.length_map, mergeTabs_length ts prev (by omega)]; exact htl) rest]
        simp only [List.take_append_drop]

/-- the whole `Write` / `Read` of the order-1 codec -/
theorem block1_rt (blk : List Nat) (chunkSize lr : Nat) (hlr : 8 ≤ lr ∧ lr ≤ 15) (hcs0 : 0 < chunkSize)
    (hcs : chunkSize < 2 ^ 26) (hb : ∀ b ∈ blk, b < 256) :
    ∃ enc, ans1Encode blk chunkSize lr = some enc ∧
      ∀ (prev : List (List Nat)), prev.length = 256 → ∀ rest : Bits,
        ans1Decode (enc ++ rest) blk.length chunkSize prev = some (blk, rest) := by
  unfold ans1Encode ans1Decode
  by_cases h32 : blk.length ≤ 32
  · simp only [if_pos h32]
    refine ⟨_, rfl, fun _ _ rest => ?_⟩
    rw [arrayBits_eq, List.take_of_length_le (Nat.le_refl _)]
    exact readBytes_ofBytes blk rest hb
  · simp only [if_neg h32]
    exact chunks1_rt chunkSize lr hlr hcs0 hcs blk.length blk (Nat.le_refl _) hb

end Kanzi.Ans1
