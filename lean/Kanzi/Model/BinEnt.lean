/-
Model of the generic binary arithmetic coder of kanzi-go (property C12):

  v2/entropy/BinaryEntropyCodec.go   BinaryEntropyEncoder  (EncodeBit, flush, EncodeByte, Write, Dispose)
                                     BinaryEntropyDecoder  (DecodeBit, read, DecodeByte, Read)

It is the engine of the CM, TPAQ and TPAQX entropy codecs: each of them plugs a `kanzi.Predictor`
into it (EntropyCodecFactory.go).  The predictor is a PARAMETER of the model: a deterministic
state machine `Pred σ` (`get` = the value returned by `Get()`, `update s b` = the state after
`Get(); Update(b)`; the coder always calls `Get()` exactly once before each `Update`).

Arithmetic is the Go arithmetic: `low`, `high`, `current`, `split` are `uint64`; every operation
that can wrap is written with an explicit `% 2^64`.  The encoder does NOT mask `low`/`high` to 56
bits (the top 8 bits hold identical left-overs in both); the decoder does.  Output is a bit string
(`Kanzi.Bits`), `WriteVarInt`/`ReadVarInt` are the models of `Kanzi.EntSmall`.

Go panics / errors are explicit:
  `.index`    slice index out of range in `read` (decoder) or in the `flush` of an encoder that does
              not grow its buffer (FPAQ; BinaryEntropyEncoder before the repair d8b7b56)
  `.eos`      the input bitstream panics (not enough bits)
  `.invalid`  "Invalid bitstream" (chunk payload size larger than the buffer estimate AND at least
              twice the chunk length)
  `.size`     "Invalid block size parameter (max is 1<<30)"
Core Lean only (linked into `kmodel`).
-/
import Kanzi.Spec.Bits
import Kanzi.Model.EntSmall

namespace Kanzi.BinEnt
open Kanzi.Bits Kanzi.EntSmall

def TOP : Nat := 0x00FFFFFFFFFFFFFF        -- _BINARY_ENTROPY_TOP
def MASK_0_56 : Nat := 0x00FFFFFFFFFFFFFF  -- _BINARY_MASK_0_56
def MASK_0_24 : Nat := 0x0000000000FFFFFF  -- _BINARY_MASK_0_24
def MASK_0_32 : Nat := 0x00000000FFFFFFFF  -- _BINARY_MASK_0_32
def MAX_BLOCK : Nat := 1073741824          -- _BINARY_ENTROPY_MAX_BLOCK = 1 << 30
def MAX_CHUNK : Nat := 67108864            -- _BINARY_ENTROPY_MAX_CHUNK = 1 << 26

/-- a `kanzi.Predictor` as a deterministic state machine -/
structure Pred (σ : Type) where
  get : σ → Nat
  update : σ → Bool → σ
  /-- the first shift of the split computation `(((high - low) >> shift) * p) >> 8`: 4 in
      BinaryEntropyCodec.go (12-bit `p`), 8 in FPAQCodec.go (16-bit `p`) -/
  shift : Nat := 4

/-- a predictor whose `Get()` itself mutates the state (CMPredictor stores `idx`, used by the next
    `Update`): `g` = `Get()` (value, state after), `u` = `Update(bit)` -/
def Pred.ofImpure (g : σ → Nat × σ) (u : σ → Bool → σ) : Pred σ :=
  { get := fun s => (g s).1, update := fun s b => u (g s).2 b }

inductive Err where
  | index | eos | invalid | size
deriving Repr, DecidableEq

/-- big-endian bytes of a 32-bit word (`binary.BigEndian.PutUint32`) -/
def be32 (w : Nat) : List Nat := [(w >>> 24) % 256, (w >>> 16) % 256, (w >>> 8) % 256, w % 256]

/-! ### encoder -/

structure Enc (σ : Type) where
  ps : σ
  low : Nat
  high : Nat
  /-- `buffer[0:index]`, LAST byte first (the bytes flushed since `index = 0`) -/
  rev : List Nat
  index : Nat
  /-- `len(this.buffer)` -/
  bufLen : Nat
  disposed : Bool
  /-- which `flush` this encoder has: `true` = BinaryEntropyEncoder and FPAQEncoder as they are now
      (repairs d8b7b56, 1e1b76f: `flush` grows the buffer when the chunk expands more than estimated),
      `false` = both encoders before the repairs (stores without any check); kept so that the old
      behaviour stays expressible -/
  grow : Bool

/-- `NewBinaryEntropyEncoder` -/
def Enc.init (s0 : σ) : Enc σ :=
  { ps := s0, low := 0, high := TOP, rev := [], index := 0, bufLen := 0, disposed := false, grow := true }

/-- the stores of `flush`: `PutUint32(buffer[index:], uint32(high>>24)); index += 4; low <<= 32;
    high = (high << 32) | MASK_0_32`, into a buffer of `newLen` bytes -/
def Enc.store (e : Enc σ) (newLen : Nat) : Enc σ :=
  { e with
    rev := ((e.high >>> 24) % 2 ^ 32) % 256 :: (((e.high >>> 24) % 2 ^ 32) >>> 8) % 256 ::
           (((e.high >>> 24) % 2 ^ 32) >>> 16) % 256 :: (((e.high >>> 24) % 2 ^ 32) >>> 24) % 256 :: e.rev,
    index := e.index + 4,
    low := (e.low <<< 32) % 2 ^ 64,
    high := ((e.high <<< 32) % 2 ^ 64) ||| MASK_0_32,
    bufLen := newLen }

/-- Go `flush` (BinaryEntropyEncoder after d8b7b56, FPAQEncoder after 1e1b76f): `if index+4 >
    len(buffer) { buf := make([]byte, 2*len(buffer)+4); copy(buf, buffer[0:index]); buffer = buf }`
    then the stores (the slice `buffer[0:index]` panics if `index > len(buffer)`, which never
    happens).  With `grow = false` (before the repairs): the stores only; panics when fewer than
    4 bytes are left in the buffer. -/
def Enc.flush (e : Enc σ) : Except Err (Enc σ) :=
  if e.index + 4 ≤ e.bufLen then .ok (e.store e.bufLen)
  else if e.grow = true ∧ e.index ≤ e.bufLen then .ok (e.store (2 * e.bufLen + 4))
  else .error .index

/-- `split := (((high - low) >> 4) * uint64(pred)) >> 8` with `pred = predictor.Get()`
    (`P.shift = 4` for this file) -/
def Enc.split (P : Pred σ) (e : Enc σ) : Nat :=
  (((((e.high + 2 ^ 64 - e.low) % 2 ^ 64) >>> P.shift) * P.get e.ps) % 2 ^ 64) >>> 8

/-- the interval update of `EncodeBit` and `predictor.Update(bit)` -/
def Enc.step (P : Pred σ) (e : Enc σ) (bit : Bool) : Enc σ :=
  { e with
    ps := P.update e.ps bit,
    low := if bit then e.low else (e.low + (e.split P + 1)) % 2 ^ 64,
    high := if bit then (e.low + e.split P) % 2 ^ 64 else e.high }

/-- Go `EncodeBit(bit, predictor.Get())` -/
def Enc.encodeBit (P : Pred σ) (e : Enc σ) (bit : Bool) : Except Err (Enc σ) :=
  if ((e.step P bit).low ^^^ (e.step P bit).high) < 2 ^ 24 then (e.step P bit).flush
  else .ok (e.step P bit)

/-- a run of `EncodeBit` calls -/
def Enc.encodeBits (P : Pred σ) : Enc σ → List Bool → Except Err (Enc σ)
  | e, [] => .ok e
  | e, b :: bs =>
    match e.encodeBit P b with
    | .ok e1 => Enc.encodeBits P e1 bs
    | .error x => .error x

/-- Go `EncodeByte(val)`: bits 7, 6, …, 0 of `val` (`natBits val 8`, most significant first) -/
def Enc.encodeByte (P : Pred σ) (e : Enc σ) (val : Nat) : Except Err (Enc σ) :=
  e.encodeBits P (natBits val 8)

/-- `for i := range buf { this.EncodeByte(buf[i]) }` -/
def Enc.encodeBytes (P : Pred σ) : Enc σ → List Nat → Except Err (Enc σ)
  | e, [] => .ok e
  | e, v :: vs =>
    match e.encodeByte P v with
    | .ok e1 => Enc.encodeBytes P e1 vs
    | .error x => .error x

/-- the chunk length chosen by `Write` / `Read` for a block of `count` bytes
    (`maxChunk` = `_BINARY_ENTROPY_MAX_CHUNK`) -/
def chunkLenOf (maxChunk count : Nat) : Nat :=
  if count ≥ maxChunk then
    (if count < 8 * maxChunk then count >>> 3 else count >>> 4)
  else if count < 64 then 64
  else count

/-- `bufSize := length + (length >> 3)` -/
def bufSizeOf (length : Nat) : Nat := length + (length >>> 3)

/-- the 56-bit trailer `WriteBits(low | MASK_0_24, 56)` -/
def Enc.trailer (e : Enc σ) : Bits := natBits (e.low ||| MASK_0_24) 56

/-- the chunk loop of `Write`; `blk` = `block[startChunk:]`.  Returns the bits written. -/
def Enc.writeChunks (P : Pred σ) : Nat → Nat → Enc σ → List Nat → Except Err (Bits × Enc σ)
  | 0, _, e, _ => .ok ([], e)
  | fuel + 1, length, e, blk =>
    if blk.length = 0 then .ok ([], e)
    else
      match Enc.encodeBytes P { e with rev := [], index := 0 } (blk.take (min length blk.length)) with
      | .error x => .error x
      | .ok e1 =>
        match Enc.writeChunks P fuel length e1 (blk.drop (min length blk.length)) with
        | .error x => .error x
        | .ok r =>
          .ok (writeVarInt (e1.index % 2 ^ 32) ++ arrayBits e1.rev.reverse (8 * e1.index)
                ++ (if (blk.drop (min length blk.length)).length = 0 then [] else e1.trailer) ++ r.1, r.2)

/-- Go `Write(block)` (`M` = `_BINARY_ENTROPY_MAX_CHUNK`) -/
def Enc.write (P : Pred σ) (M : Nat) (e : Enc σ) (blk : List Nat) : Except Err (Bits × Enc σ) :=
  if blk.length > MAX_BLOCK then .error .size
  else
    Enc.writeChunks P blk.length (chunkLenOf M blk.length)
      (if e.bufLen < bufSizeOf (chunkLenOf M blk.length)
        then { e with bufLen := bufSizeOf (chunkLenOf M blk.length) } else e)
      blk

/-- Go `Dispose` -/
def Enc.dispose (e : Enc σ) : Bits × Enc σ :=
  if e.disposed then ([], e) else (e.trailer, { e with disposed := true })

/-- a fresh encoder, one `Write`, `Dispose`: the bits appended to the bitstream -/
def encodeBlock (P : Pred σ) (M : Nat) (s0 : σ) (blk : List Nat) : Except Err Bits :=
  match (Enc.init s0).write P M blk with
  | .error x => .error x
  | .ok r => .ok (r.1 ++ r.2.dispose.1)

/-! ### decoder -/

structure Dec (σ : Type) where
  ps : σ
  low : Nat
  high : Nat
  current : Nat
  /-- `this.buffer` (all of it; bytes past the last payload are stale) -/
  buffer : List Nat
  /-- `this.buffer[this.index:]` -/
  rem : List Nat

/-- `NewBinaryEntropyDecoder` -/
def Dec.init (s0 : σ) : Dec σ :=
  { ps := s0, low := 0, high := TOP, current := 0, buffer := [], rem := [] }

/-- Go `read`: 32 more bits from the buffer.  Panics when fewer than 4 bytes are left. -/
def Dec.read (d : Dec σ) : Except Err (Dec σ) :=
  match d.rem with
  | b0 :: b1 :: b2 :: b3 :: t =>
    .ok { d with
      low := (d.low <<< 32) &&& MASK_0_56,
      high := ((d.high <<< 32) ||| MASK_0_32) &&& MASK_0_56,
      current := ((d.current <<< 32) ||| (b0 * 2 ^ 24 + b1 * 2 ^ 16 + b2 * 2 ^ 8 + b3)) &&& MASK_0_56,
      rem := t }
  | _ => .error .index

/-- `split` of `DecodeBit` -/
def Dec.split (P : Pred σ) (d : Dec σ) : Nat :=
  (((((((d.high + 2 ^ 64 - d.low) % 2 ^ 64) >>> P.shift) * P.get d.ps) % 2 ^ 64) >>> 8) + d.low) % 2 ^ 64

/-- the bit decided by `DecodeBit`: `split >= current` -/
def Dec.bit (P : Pred σ) (d : Dec σ) : Bool := decide (d.split P ≥ d.current)

/-- the interval update of `DecodeBit` (`this.low = -^split` is `split + 1` in `uint64`) and
    `predictor.Update(bit)` -/
def Dec.step (P : Pred σ) (d : Dec σ) : Dec σ :=
  { d with
    ps := P.update d.ps (d.bit P),
    low := if d.bit P then d.low else (d.split P + 1) % 2 ^ 64,
    high := if d.bit P then d.split P else d.high }

/-- Go `DecodeBit(predictor.Get())` -/
def Dec.decodeBit (P : Pred σ) (d : Dec σ) : Except Err (Bool × Dec σ) :=
  if ((d.step P).low ^^^ (d.step P).high) < 2 ^ 24 then
    match (d.step P).read with
    | .ok d2 => .ok (d.bit P, d2)
    | .error x => .error x
  else .ok (d.bit P, d.step P)

/-- `k` calls of `DecodeBit`, most significant first: `acc` ↦ `acc·2^k + bits` -/
def Dec.decodeBitsAcc (P : Pred σ) : Nat → Dec σ → Nat → Except Err (Nat × Dec σ)
  | 0, d, acc => .ok (acc, d)
  | k + 1, d, acc =>
    match d.decodeBit P with
    | .error x => .error x
    | .ok r => Dec.decodeBitsAcc P k r.2 (2 * acc + r.1.toNat)

/-- Go `DecodeByte` -/
def Dec.decodeByte (P : Pred σ) (d : Dec σ) : Except Err (Nat × Dec σ) := d.decodeBitsAcc P 8 0

/-- `for i := range buf { buf[i] = this.DecodeByte() }`; `acc` = decoded bytes, last first -/
def Dec.decodeBytes (P : Pred σ) : Nat → Dec σ → List Nat → Except Err (List Nat × Dec σ)
  | 0, d, acc => .ok (acc.reverse, d)
  | n + 1, d, acc =>
    match d.decodeByte P with
    | .error x => .error x
    | .ok r => Dec.decodeBytes P n r.2 (r.1 :: acc)

/-- `if szBytes > bufSize { if szBytes >= 2*length → "Invalid bitstream";
    if len(buffer) < szBytes { buffer = make([]byte, szBytes) } }` (repairs d8b7b56, f731923: a chunk
    larger than the estimate is accepted below twice the chunk length `length`, the limit of FPAQ) -/
def decBufFor (buffer : List Nat) (bufSize sz : Nat) : List Nat :=
  if sz > bufSize then (if buffer.length < sz then List.replicate sz 0 else buffer) else buffer

/-- one iteration of the chunk loop of `Read` -/
def Dec.readChunk (P : Pred σ) (bufSize length chunkSize : Nat) (d : Dec σ) (bs : Bits) :
    Except Err (List Nat × Dec σ × Bits) :=
  match readVarInt bs with
  | none => .error .eos
  | some (sz, r) =>
    if sz > bufSize ∧ sz ≥ 2 * length then .error .invalid
    else
      match readBits 56 r with
      | none => .error .eos
      | some (cur, r1) =>
        match (if sz ≠ 0 then readBytes sz r1 else some ([], r1)) with
        | none => .error .eos
        | some (bytes, r2) =>
          match Dec.decodeBytes P chunkSize
              { d with current := cur, buffer := bytes ++ (decBufFor d.buffer bufSize sz).drop sz,
                       rem := bytes ++ (decBufFor d.buffer bufSize sz).drop sz } [] with
          | .error x => .error x
          | .ok res => .ok (res.1, res.2, r2)

/-- the chunk loop of `Read`; `count` = bytes still to decode -/
def Dec.readChunks (P : Pred σ) : Nat → Nat → Nat → Dec σ → Nat → Bits → Except Err (List Nat × Dec σ × Bits)
  | 0, _, _, d, _, bs => .ok ([], d, bs)
  | fuel + 1, length, bufSize, d, count, bs =>
    if count = 0 then .ok ([], d, bs)
    else
      match Dec.readChunk P bufSize length (min length count) d bs with
      | .error x => .error x
      | .ok c =>
        match Dec.readChunks P fuel length bufSize c.2.1 (count - min length count) c.2.2 with
        | .error x => .error x
        | .ok t => .ok (c.1 ++ t.1, t.2)

/-- Go `Read(block)` with `len(block) = count` -/
def Dec.readBlock (P : Pred σ) (M : Nat) (d : Dec σ) (bs : Bits) (count : Nat) :
    Except Err (List Nat × Dec σ × Bits) :=
  if count > MAX_BLOCK then .error .size
  else
    Dec.readChunks P count (chunkLenOf M count) (bufSizeOf (chunkLenOf M count))
      (if d.buffer.length < bufSizeOf (chunkLenOf M count)
        then { d with buffer := List.replicate (bufSizeOf (chunkLenOf M count)) 0 } else d)
      count bs

/-- a fresh decoder, one `Read` of `count` bytes: the block and the bits left unread -/
def decodeBlock (P : Pred σ) (M : Nat) (s0 : σ) (bs : Bits) (count : Nat) : Except Err (List Nat × Bits) :=
  match (Dec.init s0).readBlock P M bs count with
  | .error x => .error x
  | .ok r => .ok (r.1, r.2.2)

end Kanzi.BinEnt
