/-
`text` slice: the round trip.  Assembly of the refinements (TextRefine), the simulation (TextSim .. TextSim3), the
meaning of the CR+LF flag (TextStats) and the monotonicity of the initial dictionary size (TextLog).
-/
import Kanzi.Proofs.TextStats
import Kanzi.Proofs.TextLog

namespace Kanzi.Text
open Kanzi.RLT (Out Res wr)

/-! ## the two dictionaries after `reset` -/

theorem resetMap_congr (hsz : Nat) (l1 l2 : Array Entry) : ∀ n,
    (∀ i, i < n → l1.getD i Entry.zero = l2.getD i Entry.zero) → resetMap hsz n l1 = resetMap hsz n l2
  | 0, _ => rfl
  | n + 1, h => by
    have ih := resetMap_congr hsz l1 l2 n (fun i hi => h i (by omega))
    unfold resetMap at ih ⊢
    rw [List.range_succ, List.foldl_append, List.foldl_append, ih]
    simp only [List.foldl_cons, List.foldl_nil]
    rw [h n (by omega)]

theorem reset_entry (sw : Nat) (sd : Array Entry) (tc2 : Bool) (hsz count k : Nat) :
    entryAt (reset sw sd tc2 hsz count) k =
      if k < dictSizeFor count then
        (if k < sw then sd.getD k Entry.zero
          else if tc2 then Entry.fresh k
          else if k = sw then ⟨0, 1, sw, some [ESCAPE_TOKEN2]⟩
          else if k = sw + 1 then ⟨0, 1, sw + 1, some [ESCAPE_TOKEN1]⟩
          else Entry.fresh k)
      else Entry.zero := by
  unfold entryAt reset
  simp only
  by_cases c : k < dictSizeFor count
  · rw [if_pos c, resetList_getD _ _ _ _ _ c]
  · rw [if_neg c, getD_of_ge _ _ _ (by rw [resetList_size]; omega)]

theorem reset_sim (sw : Nat) (sd : Array Entry) (tc2 : Bool) (hsz count n : Nat) (hs : StaticOK sw sd)
    (hcn : count ≤ n) (hn : n < 2 ^ 39) :
    DictSim (reset sw sd tc2 hsz count) (reset sw sd tc2 hsz n) := by
  have hmono := dictSizeFor_mono count n hcn hn
  have hge := dictSizeFor_ge count
  have hss := staticSize_le sw tc2 hs.le
  have hsw := hs.le
  refine ⟨?_, rfl, rfl, hmono, ?_⟩
  · show resetMap hsz (staticSize sw tc2) (resetList sw sd tc2 (dictSizeFor n)) =
      resetMap hsz (staticSize sw tc2) (resetList sw sd tc2 (dictSizeFor count))
    apply resetMap_congr
    intro i hi
    rw [resetList_getD _ _ _ _ _ (by omega), resetList_getD _ _ _ _ _ (by omega)]
  · intro k
    rw [reset_entry, reset_entry]
    show _ = if k < dictSizeFor count then _ else if k < dictSizeFor n then _ else _
    by_cases c1 : k < dictSizeFor count
    · rw [if_pos c1, if_pos (by omega), if_pos c1]
    · rw [if_neg c1]
      by_cases c2 : k < dictSizeFor n
      · rw [if_pos c2, if_pos c2, if_neg (by omega)]
        cases tc2
        · simp only [Bool.false_eq_true, if_false]
          rw [if_neg (by omega), if_neg (by omega)]
        · simp only [if_true]
      · rw [if_neg c2, if_neg c2]

theorem reset_spec (sw : Nat) (sd : Array Entry) (hsz n : Nat) (hs : StaticOK sw sd) :
    2 ≤ staticSize sw false ∧
    entryAt (reset sw sd false hsz n) (staticSize sw false - 2) =
      ⟨0, 1, staticSize sw false - 2, some [ESCAPE_TOKEN2]⟩ ∧
    entryAt (reset sw sd false hsz n) (staticSize sw false - 1) =
      ⟨0, 1, staticSize sw false - 1, some [ESCAPE_TOKEN1]⟩ := by
  have hge := dictSizeFor_ge n
  have hsw := hs.le
  have e : staticSize sw false = sw + 2 := rfl
  rw [e]
  refine ⟨by omega, ?_, ?_⟩
  · rw [reset_entry, if_pos (by omega), if_neg (by omega)]
    simp only [Bool.false_eq_true, if_false, Nat.add_sub_cancel, if_true]
  · rw [reset_entry, if_pos (by omega), if_neg (by omega)]
    simp only [Bool.false_eq_true, if_false]
    rw [if_neg (by omega), if_pos (by omega)]
    congr 1 <;> omega

/-! ## the leading spaces -/

theorem wr_one (n : Nat) (out o : Array Nat) (v : Nat) (h : wr n out [v] = .ok o) : o = out ++ [v] :=
  wr_eq n out o [v] h

theorem leadSpaces_eq (a : Array Nat) (dstLen : Nat) : ∀ (f i : Nat) (out o : Array Nat) (p : Nat),
    leadSpaces a dstLen f i out = .ok (p, o) →
      o = out ++ List.replicate (p - i) 32 ∧ i ≤ p ∧ (∀ j, i ≤ j → j < p → a.getD j 0 = 32) ∧
        (p < a.size → a.getD p 0 ≠ 32)
  | 0, i, out, o, p, h => by unfold leadSpaces at h; cases h
  | f + 1, i, out, o, p, h => by
    unfold leadSpaces at h
    by_cases c : i < a.size ∧ a.getD i 0 = 32
    · rw [if_pos c] at h
      cases hw : wr dstLen out [32] with
      | err x => rw [hw] at h; cases h
      | fault x => rw [hw] at h; cases h
      | ok o1 =>
        rw [hw] at h
        simp only [Kanzi.RLT.Out.bind] at h
        have ho1 := wr_one _ _ _ _ hw
        obtain ⟨h1, h2, h3, h4⟩ := leadSpaces_eq a dstLen f (i + 1) o1 o p h
        refine ⟨?_, by omega, ?_, h4⟩
        · rw [h1, ho1, appendList_assoc]
          congr 1
          have : p - i = (p - (i + 1)) + 1 := by omega
          rw [this, List.replicate_succ]
          rfl
        · intro j hj1 hj2
          by_cases cj : j = i
          · rw [cj]; exact c.2
          · exact h3 j (by omega) hj2
    · rw [if_neg c] at h
      cases h
      refine ⟨by simp, Nat.le_refl _, fun j h1 h2 => by omega, fun hp he => c ⟨hp, he⟩⟩

theorem dec_spaces (tc2 : Bool) (n : Nat) (crlf : Bool) : ∀ (k : Nat) (L : List Nat) (t : DS),
    t.pw = some [] → t.run = false → t.out.length + k ≤ n →
    decL tc2 false n crlf (List.replicate k 32 ++ L) t =
      decL tc2 false n crlf L { t with out := t.out ++ List.replicate k 32 }
  | 0, L, t, _, _, _ => by simp
  | k + 1, L, t, hpw, hrun, hroom => by
    rw [List.replicate_succ, List.cons_append]
    have hlit : litL n crlf { t with d := t.d, words := t.words } 32 =
        .ok { t with out := t.out ++ [32] } := by
      unfold litL
      rw [if_neg (by intro h; exact absurd h.2 (by decide))]
      obtain ⟨tpw, tw, trun, td, tout⟩ := t
      simp only at hpw hrun
      simp only [hpw, hrun]
    rw [decL_lit tc2 false n crlf 32 _ t _ t.d t.words (by omega) (by decide) (by cases tc2 <;> decide)
      (by rw [hpw]; exact learnL_short [] _ _ _ (by simp)) hlit]
    have hr2 : ({ t with out := t.out ++ [32] } : DS).out.length + k ≤ n := by
      simp only [List.length_append, List.length_cons, List.length_nil]; omega
    rw [dec_spaces tc2 n crlf k L { t with out := t.out ++ [32] } hpw hrun hr2]
    simp only [List.append_assoc, List.cons_append, List.nil_append]

theorem crlfOK_drop_spaces : ∀ (k : Nat) (r : List Nat), CrlfOK (List.replicate k 32 ++ r) → CrlfOK r
  | 0, r, h => by simpa using h
  | k + 1, r, h => by
    rw [List.replicate_succ, List.cons_append] at h
    unfold CrlfOK at h
    rw [if_neg (by decide)] at h
    exact crlfOK_drop_spaces k r h.2

theorem take_spaces (src : List Nat) : ∀ (p : Nat), p ≤ src.length →
    (∀ j, j < p → src.toArray.getD j 0 = 32) → src.take p = List.replicate p 32
  | 0, _, _ => by simp
  | p + 1, hp, h => by
    have hlt : p < src.length := by omega
    rw [List.take_succ_eq_append_getElem hlt, take_spaces src p (by omega) (fun j hj => h j (by omega)),
      List.replicate_succ']
    congr 1
    have := h p (by omega)
    rw [Array.getD_eq_getD_getElem?, List.getElem?_toArray, List.getElem?_eq_getElem hlt] at this
    simpa using this

/-! ## the first byte of the encoded block -/

theorem tokL_pw (tc2 old : Bool) (n : Nat) (crlf : Bool) (pw1 pw2 : Option (List Nat)) (w : Nat) (r : Bool)
    (d : Dict) (o : List Nat) (cur : Nat) (l : List Nat) :
    tokL tc2 old n crlf ⟨pw1, w, r, d, o⟩ cur l = tokL tc2 old n crlf ⟨pw2, w, r, d, o⟩ cur l := rfl

/-- the decoder starts with `delimAnchor` on or before the first byte; for a first byte that is not a letter
    both give the same run -/
theorem decL_pw_norm (tc2 old : Bool) (n : Nat) (crlf : Bool) (c : Nat) (l : List Nat) (w : Nat) (r : Bool)
    (d : Dict) (o : List Nat) (hc : isText c = false) :
    decL tc2 old n crlf (c :: l) ⟨none, w, r, d, o⟩ = decL tc2 old n crlf (c :: l) ⟨some [], w, r, d, o⟩ := by
  rw [decL, decL]
  simp only
  by_cases cr : o.length < n
  · rw [if_pos cr, if_pos cr]
    unfold decStep
    simp only
    rw [if_neg (by rw [hc]; decide), if_neg (by rw [hc]; decide), learnL_none, learnL_short [] _ _ _ (by simp)]
    simp only
    rw [tokL_pw tc2 old n crlf none (some [])]
  · rw [if_neg cr, if_neg cr]

/-- when the first byte of a block is not a letter, `delimAnchor` starts on it -/
theorem fwdLoop_first (tc2 : Bool) (src : Array Nat) (dstLen dstEnd : Nat) (crlf : Bool) (f p0 ea words : Nat)
    (d : Dict) (out : Array Nat) (hp : p0 < src.size) (hnt : isText (src.getD p0 0) = false) :
    fwdLoop tc2 src dstLen dstEnd crlf (f + 1) ⟨p0, p0 + 1, ea, words, d, out⟩ =
      fwdLoop tc2 src dstLen dstEnd crlf (f + 1) ⟨p0, p0, ea, words, d, out⟩ := by
  unfold fwdLoop
  simp only
  rw [if_pos hp, if_pos hp, if_neg (by rw [hnt]; decide), if_neg (by rw [hnt]; decide)]
  unfold fwdWord
  simp only
  rw [if_neg (by omega), if_neg (by omega)]

/-! ## the output only grows -/

theorem encStep_out (tc2 : Bool) (dstLen dstEnd : Nat) (crlf : Bool) (e e1 : ES) (c : Nat)
    (h : encStep tc2 dstLen dstEnd crlf e c = .ok e1) : ∃ l : List Nat, e1.out = e.out ++ l := by
  unfold encStep at h
  by_cases ct : isText c = true
  · rw [if_pos ct] at h
    cases h
    exact ⟨[], by simp⟩
  · rw [if_neg ct] at h
    by_cases cg : e.pw.length ≥ 2 ∧ isDelimiter c = true ∧ e.pw.length ≤ MAX_WORD_LENGTH
    · rw [if_pos cg] at h
      cases hr : fwdLookup e.d e.pw with
      | err x => rw [hr] at h; cases h
      | fault x => rw [hr] at h; cases h
      | ok r =>
        rw [hr] at h
        simp only at h
        cases hr1 : r.1 with
        | none =>
          rw [hr1] at h
          simp only at h
          by_cases cc : (e.pw.length > 3 ∨ e.pw.length = 3 ∧ e.words < THRESHOLD2) ∧ r.2 = none
          · rw [if_pos cc] at h
            cases hl : learn e.d e.words e.pw (hashWord e.pw) with
            | err x => rw [hl] at h; cases h
            | fault x => rw [hl] at h; cases h
            | ok q =>
              rw [hl] at h
              cases h
              exact ⟨[], by simp⟩
          · rw [if_neg cc] at h
            cases h
            exact ⟨[], by simp⟩
        | some k =>
          rw [hr1] at h
          simp only at h
          cases hpend : emitPendingL tc2 crlf e.d.ssz dstEnd e.X e.out with
          | err x => rw [hpend] at h; cases h
          | fault x => rw [hpend] at h; cases h
          | ok o =>
            rw [hpend] at h
            simp only at h
            by_cases cm : o.size + (if tc2 = true then 3 else 4) ≥ dstEnd
            · rw [if_pos cm] at h; cases h
            · rw [if_neg cm] at h
              cases htok : fwdToken tc2 dstLen o (decide (r.2 = some k)) ((entryAt e.d k).idx % (MASK_LENGTH + 1)) with
              | err x => rw [htok] at h; cases h
              | fault x => rw [htok] at h; cases h
              | ok o2 =>
                rw [htok] at h
                cases h
                have ho := emitPendingL_eq _ _ _ _ _ _ _ hpend
                have ho2 := fwdToken_eq _ _ _ _ _ _ htok
                rw [ho2, ho]
                by_cases cx : e.X ≠ [32]
                · rw [if_pos cx, appendList_assoc]; exact ⟨_, rfl⟩
                · rw [if_neg cx]; exact ⟨_, rfl⟩
    · rw [if_neg cg] at h
      cases h
      exact ⟨[], by simp⟩

theorem encL_out (tc2 : Bool) (dstLen dstEnd : Nat) (crlf : Bool) : ∀ (rest : List Nat) (e ef : ES),
    encL tc2 dstLen dstEnd crlf rest e = .ok ef → ∃ l : List Nat, ef.out = e.out ++ l
  | [], e, ef, h => by
    unfold encL at h
    cases h
    exact ⟨[], by simp⟩
  | c :: rest, e, ef, h => by
    unfold encL at h
    cases hs : encStep tc2 dstLen dstEnd crlf e c with
    | err x => rw [hs] at h; cases h
    | fault x => rw [hs] at h; cases h
    | ok e1 =>
      rw [hs] at h
      obtain ⟨l1, h1⟩ := encStep_out _ _ _ _ _ _ _ hs
      obtain ⟨l2, h2⟩ := encL_out tc2 dstLen dstEnd crlf rest e1 ef h
      exact ⟨l1 ++ l2, by rw [h2, h1, appendList_assoc]⟩

/-! ## the output consists of byte values -/

theorem symE_bytes (tc2 crlf : Bool) (ssz c : Nat) (hc : c < 256) : ∀ y ∈ symE tc2 crlf ssz c, y < 256 := by
  intro y hy
  unfold symE at hy
  cases tc2
  · simp only [Bool.false_eq_true, if_false] at hy
    unfold sym1 at hy
    split at hy
    · rcases List.mem_cons.mp hy with h | h
      · rw [h]; decide
      · exact wordIndex1_bytes _ y h
    · split at hy
      · simp at hy
      · rw [List.mem_singleton.mp hy]; exact hc
  · simp only [if_true] at hy
    unfold sym2 at hy
    split at hy
    · simp only [List.mem_cons, List.not_mem_nil, or_false] at hy
      rcases hy with h | h <;> (rw [h]; decide)
    · split at hy
      · split at hy
        · simp at hy
        · rw [List.mem_singleton.mp hy]; exact hc
      · split at hy
        · simp only [List.mem_cons, List.not_mem_nil, or_false] at hy
          rcases hy with h | h
          · rw [h]; decide
          · rw [h]; exact hc
        · rw [List.mem_singleton.mp hy]; exact hc

theorem encLits_bytes (tc2 crlf : Bool) (ssz : Nat) (X : List Nat) (hX : ∀ x ∈ X, x < 256) :
    ∀ y ∈ encLits tc2 crlf ssz X, y < 256 := by
  intro y hy
  unfold encLits at hy
  obtain ⟨c, hc, hyc⟩ := List.mem_flatMap.mp hy
  exact symE_bytes tc2 crlf ssz c (hX c hc) y hyc

theorem tokBytes_bytes (tc2 via : Bool) (idx : Nat) (h19 : idx < 2 ^ 19) : ∀ y ∈ tokBytes tc2 via idx, y < 256 := by
  intro y hy
  unfold tokBytes at hy
  cases tc2
  · simp only [Bool.false_eq_true, if_false] at hy
    rcases List.mem_cons.mp hy with h | h
    · rw [h]; cases via <;> decide
    · exact wordIndex1_bytes _ y h
  · simp only [if_true] at hy
    rcases List.mem_append.mp hy with h | h
    · cases via
      · simp only [Bool.false_eq_true, if_false, List.mem_singleton] at h
        rw [h]; decide
      · simp at h
    · exact wordIndex2_bytes _ h19 y h

/-- the bytes stored so far, the pending literals and the current word are byte values -/
def ESBytes (e : ES) : Prop :=
  (∀ x ∈ e.out.toList, x < 256) ∧ (∀ x ∈ e.X, x < 256) ∧ (∀ x ∈ e.pw, x < 256)

theorem mem_append3 {A B : List Nat} {c : Nat} (hA : ∀ x ∈ A, x < 256) (hB : ∀ x ∈ B, x < 256) (hc : c < 256) :
    ∀ x ∈ A ++ B ++ [c], x < 256 := by
  intro x hx
  rcases List.mem_append.mp hx with h | h
  · rcases List.mem_append.mp h with h | h
    · exact hA x h
    · exact hB x h
  · rw [List.mem_singleton.mp h]; exact hc

theorem encStep_bytes (tc2 : Bool) (dstLen dstEnd : Nat) (crlf : Bool) (e e1 : ES) (c : Nat) (hc : c < 256)
    (hB : ESBytes e) (h : encStep tc2 dstLen dstEnd crlf e c = .ok e1) : ESBytes e1 := by
  obtain ⟨ho, hX, hp⟩ := hB
  have hnil : ∀ x ∈ ([] : List Nat), x < 256 := fun x hx => by simp at hx
  unfold encStep at h
  by_cases ct : isText c = true
  · rw [if_pos ct] at h
    cases h
    refine ⟨ho, hX, ?_⟩
    intro x hx
    rcases List.mem_append.mp hx with h | h
    · exact hp x h
    · rw [List.mem_singleton.mp h]; exact hc
  · rw [if_neg ct] at h
    by_cases cg : e.pw.length ≥ 2 ∧ isDelimiter c = true ∧ e.pw.length ≤ MAX_WORD_LENGTH
    · rw [if_pos cg] at h
      cases hr : fwdLookup e.d e.pw with
      | err x => rw [hr] at h; cases h
      | fault x => rw [hr] at h; cases h
      | ok r =>
        rw [hr] at h
        simp only at h
        cases hr1 : r.1 with
        | none =>
          rw [hr1] at h
          simp only at h
          by_cases cc : (e.pw.length > 3 ∨ e.pw.length = 3 ∧ e.words < THRESHOLD2) ∧ r.2 = none
          · rw [if_pos cc] at h
            cases hl : learn e.d e.words e.pw (hashWord e.pw) with
            | err x => rw [hl] at h; cases h
            | fault x => rw [hl] at h; cases h
            | ok q =>
              rw [hl] at h
              cases h
              exact ⟨ho, mem_append3 hX hp hc, hnil⟩
          · rw [if_neg cc] at h
            cases h
            exact ⟨ho, mem_append3 hX hp hc, hnil⟩
        | some k =>
          rw [hr1] at h
          simp only at h
          cases hpend : emitPendingL tc2 crlf e.d.ssz dstEnd e.X e.out with
          | err x => rw [hpend] at h; cases h
          | fault x => rw [hpend] at h; cases h
          | ok o =>
            rw [hpend] at h
            simp only at h
            by_cases cm : o.size + (if tc2 = true then 3 else 4) ≥ dstEnd
            · rw [if_pos cm] at h; cases h
            · rw [if_neg cm] at h
              cases htok : fwdToken tc2 dstLen o (decide (r.2 = some k)) ((entryAt e.d k).idx % (MASK_LENGTH + 1)) with
              | err x => rw [htok] at h; cases h
              | fault x => rw [htok] at h; cases h
              | ok o2 =>
                rw [htok] at h
                cases h
                have hoo := emitPendingL_eq _ _ _ _ _ _ _ hpend
                have ho2 := fwdToken_eq _ _ _ _ _ _ htok
                have h19 : (entryAt e.d k).idx % (MASK_LENGTH + 1) < 2 ^ 19 := Nat.mod_lt _ (by decide)
                refine ⟨?_, fun x hx => by rw [List.mem_singleton.mp hx]; exact hc, hnil⟩
                intro x hx
                have hx' : x ∈ o2.toList := hx
                rw [ho2, toList_appendList, hoo] at hx'
                rcases List.mem_append.mp hx' with h | h
                · by_cases cx : e.X ≠ [32]
                  · rw [if_pos cx, toList_appendList] at h
                    rcases List.mem_append.mp h with h | h
                    · exact ho x h
                    · exact encLits_bytes _ _ _ _ hX x h
                  · rw [if_neg cx] at h; exact ho x h
                · exact tokBytes_bytes _ _ _ h19 x h
    · rw [if_neg cg] at h
      cases h
      exact ⟨ho, mem_append3 hX hp hc, hnil⟩

theorem encL_bytes (tc2 : Bool) (dstLen dstEnd : Nat) (crlf : Bool) : ∀ (rest : List Nat) (e ef : ES),
    (∀ x ∈ rest, x < 256) → ESBytes e → encL tc2 dstLen dstEnd crlf rest e = .ok ef → ESBytes ef
  | [], e, ef, _, hB, h => by
    unfold encL at h
    cases h; exact hB
  | c :: rest, e, ef, hr, hB, h => by
    unfold encL at h
    cases hs : encStep tc2 dstLen dstEnd crlf e c with
    | err x => rw [hs] at h; cases h
    | fault x => rw [hs] at h; cases h
    | ok e1 =>
      rw [hs] at h
      exact encL_bytes tc2 dstLen dstEnd crlf rest e1 ef (fun x hx => hr x (List.mem_cons_of_mem _ hx))
        (encStep_bytes _ _ _ _ _ _ _ (hr c (List.mem_cons_self ..)) hB hs) h

theorem mode_lt (strict : Bool) (src : List Nat) : computeStats strict src &&& MASK_NOT_TEXT = 0 →
    computeStats strict src < 256 := by
  intro h
  unfold computeStats at h ⊢
  split at h
  · exact absurd h (by decide)
  · rename_i hm
    rw [if_neg hm]
    simp only at h ⊢
    split at h
    · exact absurd h (detectTextType_bit _ _ _)
    · rename_i hnt
      rw [if_neg hnt]
      apply Nat.or_lt_two_pow (n := 8)
      · unfold xmlFlag
        simp only
        repeat' split
        all_goals decide
      · unfold crlfFlag
        repeat' split
        all_goals decide

/-! ## the round trip of the codecs -/

theorem getLast?_drop_lt (l : List Nat) (k : Nat) (h : k < l.length) : (l.drop k).getLast? = l.getLast? := by
  rw [List.getLast?_drop, if_neg (by omega)]

set_option maxHeartbeats 400000 in
/-- `textCodec{1,2}.Inverse` restores what `textCodec{1,2}.Forward` accepted -/
theorem codec_roundtrip (sw : Nat) (sd : Array Entry) (hs : StaticOK sw sd) (tc2 : Bool) (hsz lh dt : Nat)
    (hh : hsz = 2 ^ lh) (h6 : 6 ≤ lh) (h32 : lh ≤ 32) (src t : List Nat) (dstLen n : Nat)
    (hb : ∀ x ∈ src, x < 256) (h4 : 4 ≤ src.length)
    (h : codecForwardS sw sd tc2 hsz dt src dstLen = .ok t)
    (hn : src.length ≤ n) (hn39 : n < 2 ^ 39)
    (htail : tc2 = false → ∀ c, src.getLast? = some c → (c = ESCAPE_TOKEN1 ∨ c = ESCAPE_TOKEN2) → src.length < n) :
    codecInverseS sw sd tc2 false hsz t n = .ok src ∧ (∀ v ∈ t, v < 256) ∧
      ∃ sF tI, codecForwardLoopS sw sd tc2 hsz (computeStats (!tc2) src) src dstLen = .ok sF ∧
        codecInverseLoopS sw sd tc2 false hsz t n = .ok tI ∧ DictSim sF.d tI.d ∧ tI.words = sF.words := by
  have hpos : 0 < hsz := by rw [hh]; exact Nat.two_pow_pos lh
  unfold codecForwardS at h
  by_cases c0 : dstLen < src.length
  · rw [if_pos c0] at h; cases h
  rw [if_neg c0] at h
  by_cases c1 : dt ≠ 0 ∧ dt ≠ DT_TEXT ∧ dt ≠ Kanzi.RLT.DT_BIN
  · rw [if_pos c1] at h; cases h
  rw [if_neg c1] at h
  simp only at h
  by_cases c2 : computeStats (!tc2) src &&& MASK_NOT_TEXT ≠ 0
  · rw [if_pos c2] at h; cases h
  rw [if_neg c2] at h
  have hacc : computeStats (!tc2) src &&& MASK_NOT_TEXT = 0 := by omega
  generalize hmode : computeStats (!tc2) src = mode at h hacc ⊢
  have hsize : src.toArray.size = src.length := by simp
  cases hloop : codecForwardLoopS sw sd tc2 hsz mode src dstLen with
  | err x => rw [hloop] at h; cases h
  | fault x => rw [hloop] at h; cases h
  | ok sF =>
  rw [hloop] at h
  simp only [Kanzi.RLT.Out.bind] at h
  have hloop0 := hloop
  unfold codecForwardLoopS at hloop
  simp only at hloop
  rw [wr_ok dstLen #[] [mode] (by simp; omega)] at hloop
  simp only [Kanzi.RLT.Out.bind] at hloop
  cases hls : leadSpaces src.toArray dstLen (src.toArray.size + 1) 0 ((#[] : Array Nat) ++ [mode]) with
  | err x => rw [hls] at hloop; cases hloop
  | fault x => rw [hls] at hloop; cases hloop
  | ok pr =>
    rw [hls] at hloop
    simp only at hloop
    obtain ⟨p0, out0⟩ := pr
    obtain ⟨hout0, _, hsp, hnsp⟩ := leadSpaces_eq _ _ _ _ _ _ _ hls
    simp only [Nat.sub_zero] at hout0
    cases hc : src.toArray[p0]? with
    | none => rw [hc] at hloop; cases hloop
    | some c =>
      rw [hc] at hloop
      simp only at hloop
      have hp0 : p0 < src.toArray.size := get_some_lt _ _ _ hc
      have hcg : src.toArray.getD p0 0 = c := by
        rw [Array.getD_eq_getD_getElem?, hc]; rfl
      have hc32 : c ≠ 32 := by rw [← hcg]; exact hnsp hp0
      -- the loop
      generalize hcrlf : (decide (mode &&& MASK_CRLF ≠ 0)) = crlf at h hloop
      have hfl := hloop
      · have hfl' : fwdLoop tc2 src.toArray dstLen src.toArray.size crlf (src.toArray.size + 1)
            ⟨p0, p0, p0, (reset sw sd tc2 hsz src.length).ssz, reset sw sd tc2 hsz src.length, out0⟩ = .ok sF := by
          by_cases ct : isText c = true
          · rw [if_pos ct] at hfl; exact hfl
          · rw [if_neg ct] at hfl
            rw [← fwdLoop_first tc2 src.toArray dstLen src.toArray.size crlf _ p0 p0 _ _ _ hp0
              (by rw [hcg]; simpa using ct)]
            exact hfl
        -- Forward as `encL`
        obtain ⟨ef, hencL, hRF, hiF⟩ := fwdLoop_encL tc2 src.toArray dstLen src.toArray.size crlf _ _ sF
          ⟨[], [], (reset sw sd tc2 hsz src.length).ssz, reset sw sd tc2 hsz src.length, out0⟩
          ⟨Nat.le_refl _, Nat.le_refl _, by simp only; omega, by simp only; rw [ext_self],
            by simp only; rw [ext_self], rfl, rfl, rfl⟩ (by simp only; omega) hfl'
        simp only at hencL
        -- the invariant at the start
        let par : Par := ⟨tc2, n, crlf, staticSize sw tc2, lh,
          ⟨some [], staticSize sw tc2, false, reset sw sd tc2 hsz n, []⟩⟩
        have hrsz : (reset sw sd tc2 hsz src.length).ssz = staticSize sw tc2 := rfl
        have hp0n : p0 ≤ n := by omega
        have hS0 : Sim par ⟨[], [], staticSize sw tc2, reset sw sd tc2 hsz src.length, out0⟩
            ⟨some [], staticSize sw tc2, false, reset sw sd tc2 hsz n, List.replicate p0 32⟩
            (List.replicate p0 32) := by
          refine ⟨reset_ok sw sd tc2 hsz src.length hs hpos, reset_ok sw sd tc2 hsz n hs hpos,
            reset_sim sw sd tc2 hsz src.length n hs hn hn39, rfl, hh, rfl, rfl, rfl, rfl,
            fun b hb' => by simp at hb', ?_, ?_, ?_, fun hx => by simp at hx⟩
          · show 1 ≤ out0.size
            rw [hout0, size_appendList, size_appendList]; simp
          · intro htc
            have : tc2 = false := htc
            subst this
            exact reset_spec sw sd hsz n hs
          · intro L
            have hG : G par ⟨[], [], staticSize sw tc2, reset sw sd tc2 hsz src.length, out0⟩ ++ L =
                List.replicate p0 32 ++ L := by
              unfold G
              simp only
              rw [hout0, toList_appendList, toList_appendList]
              simp [encLits]
            rw [hG]
            show decL tc2 false n crlf _ _ = decL tc2 false n crlf L _
            rw [dec_spaces tc2 n crlf p0 L ⟨some [], staticSize sw tc2, false, reset sw sd tc2 hsz n, []⟩ rfl rfl
              (by show 0 + p0 ≤ n; omega)]
            rfl
        -- the block as spaces ++ rest
        have hp0l : p0 ≤ src.length := by omega
        have htake : src.take p0 = List.replicate p0 32 :=
          take_spaces src p0 hp0l (fun j hj => hsp j (Nat.zero_le _) hj)
        have hsplit : src = List.replicate p0 32 ++ src.drop p0 := by
          rw [← htake, List.take_append_drop]
        have hdl : (src.drop p0).length = src.length - p0 := by simp
        have hhead : (src.drop p0).head? = some c := by
          rw [List.head?_drop, ← hcg, Array.getD_eq_getD_getElem?, List.getElem?_toArray,
            List.getElem?_eq_getElem (by omega)]
          simp
        have hencL' : encL tc2 dstLen src.toArray.size crlf (src.drop p0)
            ⟨[], [], staticSize sw tc2, reset sw sd tc2 hsz src.length, out0⟩ = .ok ef := by
          exact hencL
        have hroomM : (List.replicate p0 32).length + ([] : List Nat).length + (src.drop p0).length ≤ n := by
          simp only [List.length_replicate, List.length_nil, hdl]; omega
        have hmain := sim_main par dstLen src.toArray.size h6 h32 (src.drop p0) _ _ _ ef hS0
          (fun hcr => by
            have hcr' : crlf = true := hcr
            have hm : mode &&& MASK_CRLF ≠ 0 := by
              rw [← hcrlf] at hcr'
              simpa using hcr'
            have := crlfOK_of_stats (!tc2) src hb (by rw [hmode]; exact hacc) (by rw [hmode]; exact hm)
            rw [hsplit] at this
            exact crlfOK_drop_spaces p0 _ this)
          hroomM
          (fun htc c' hl hc' => by
            have htc' : tc2 = false := htc
            rw [getLast?_drop_lt src p0 (by omega)] at hl
            have := htail htc' c' hl hc'
            show (List.replicate p0 32).length + ([] : List Nat).length + (src.drop p0).length < n
            simp only [List.length_replicate, List.length_nil, hdl]
            omega)
          (fun _ _ => by rw [hhead]; intro he; exact hc32 (Option.some.inj he))
          hencL'
        obtain ⟨tF, PF, hSF, hPF⟩ := hmain
        simp only [List.append_nil] at hPF
        rw [← hsplit] at hPF
        -- the output of Forward
        unfold fwdFinish at h
        by_cases f1 : sF.ea > src.toArray.size
        · rw [if_pos f1] at h; cases h
        rw [if_neg f1] at h
        by_cases f2 : sF.out.size > src.toArray.size
        · rw [if_pos f2] at h; cases h
        rw [if_neg f2] at h
        cases hem : emitSymbols tc2 crlf sF.d.ssz src.toArray.size
            (src.toArray.extract sF.ea src.toArray.size).toList sF.out with
        | none => rw [hem] at h; cases h
        | some o =>
          rw [hem] at h
          simp only at h
          by_cases f3 : sF.i ≠ src.toArray.size
          · rw [if_pos f3] at h; cases h
          rw [if_neg f3] at h
          have ht : t = o.toList := (Out.ok.inj h).symm
          have hXpw : (src.toArray.extract sF.ea src.toArray.size).toList = ef.X ++ ef.pw := by
            rw [ext_append src.toArray sF.ea sF.ws src.toArray.size hRF.ea_le
              (by have := hRF.ws_le; omega) (Nat.le_refl _), hRF.X_eq, hRF.pw_eq, hiF]
          have ho := emitSymbols_pure _ _ _ _ _ _ _ hem
          rw [hXpw, ← hRF.d_eq, hSF.ssz, ← hRF.out_eq] at ho
          have ht1 : t.drop 1 = G par ef ++ ef.pw := by
            rw [ht, ho, toList_appendList,
              drop_one_append _ _ (by rw [Array.length_toList]; exact hSF.out1)]
            unfold G
            show _ = _ ++ encLits tc2 crlf (staticSize sw tc2) ef.X ++ ef.pw
            rw [encLits_append, encLits_text _ _ _ ef.pw hSF.text, List.append_assoc]
          -- the decoder on the output
          have hlenF : PF.length + ef.pw.length = src.length := by
            rw [← List.length_append, hPF]
          have hdec : decL tc2 false n crlf (t.drop 1)
              ⟨some [], staticSize sw tc2, false, reset sw sd tc2 hsz n, []⟩ =
              .ok ⟨some ([] ++ ef.pw), tF.words, tF.run, tF.d, src⟩ := by
            rw [ht1]
            have := hSF.inv ef.pw
            show dec par _ par.ds0 = _
            rw [this]
            show decL tc2 false n crlf ef.pw tF = _
            have hl := decL_letters tc2 false n crlf ef.pw [] tF [] hSF.text hSF.pw
              (by rw [hSF.out]; omega)
            rw [List.append_nil] at hl
            rw [hl, decL, hSF.out, hPF]
          -- Inverse
          have ht0 : ∃ c1 l1, t = mode :: c1 :: l1 := by
            have hm : t = mode :: t.drop 1 := by
              obtain ⟨l, hl⟩ := encL_out _ _ _ _ _ _ _ hencL'
              simp only at hl
              rw [ht, ho, hl, hout0, toList_appendList, toList_appendList, toList_appendList, toList_appendList]
              simp
            cases htd : t.drop 1 with
            | nil =>
              rw [htd, decL] at hdec
              have := congrArg DS.out (Out.ok.inj hdec)
              simp only at this
              rw [← this] at h4
              simp at h4
            | cons c1 l1 => exact ⟨c1, l1, by rw [hm, htd]⟩
          obtain ⟨c1, l1, htl⟩ := ht0
          have ha0 : t.toArray[0]? = some mode := by rw [htl]; rfl
          have ha1 : t.toArray[1]? = some c1 := by rw [htl]; rfl
          have htd1 : t.drop 1 = c1 :: l1 := by rw [htl]; rfl
          have hdec' : decL tc2 false n crlf (t.toArray.toList.drop 1)
              ⟨if isText c1 = true then some [] else none, staticSize sw tc2, false, reset sw sd tc2 hsz n, []⟩ =
              .ok ⟨some ([] ++ ef.pw), tF.words, tF.run, tF.d, src⟩ := by
            rw [List.toList_toArray, ← hdec]
            by_cases ct1 : isText c1 = true
            · rw [if_pos ct1]
            · rw [if_neg ct1, htd1]
              exact decL_pw_norm tc2 false n crlf c1 l1 _ _ _ _ (by simpa using ct1)
          have hts : 2 ≤ t.toArray.size := by rw [List.size_toArray, htl]; simp
          obtain ⟨tI, hI, hiI, hRI⟩ := invLoop_decL tc2 false t.toArray n crlf (t.toArray.size + 1)
            ⟨1, if isText c1 = true then 1 else 2, (reset sw sd tc2 hsz n).ssz, false, reset sw sd tc2 hsz n, #[]⟩
            ⟨if isText c1 = true then some [] else none, staticSize sw tc2, false, reset sw sd tc2 hsz n, []⟩ _
            ⟨by simp only; omega, by simp only; split <;> omega, by
                simp only
                by_cases ct1 : isText c1 = true
                · rw [if_pos ct1, if_pos ct1, if_pos (Nat.le_refl _), ext_self]
                · rw [if_neg ct1, if_neg ct1, if_neg (by omega)], rfl, rfl, rfl, rfl⟩
            (by simp only; omega) hdec'
          have hIL : codecInverseLoopS sw sd tc2 false hsz t n = .ok tI := by
            unfold codecInverseLoopS
            simp only
            rw [ha0, ha1]
            simp only
            rw [hcrlf]
            exact hI
          refine ⟨?_, ?_, sF, tI, rfl, hIL, ?_, ?_⟩
          · unfold codecInverseS
            rw [hIL]
            simp only [Kanzi.RLT.Out.bind]
            rw [if_neg (by omega)]
            congr 1
            rw [← hRI.out_eq]
          · -- byte values
            have hB0 : ESBytes ⟨[], [], staticSize sw tc2, reset sw sd tc2 hsz src.length, out0⟩ := by
              refine ⟨?_, fun x hx => by simp at hx, fun x hx => by simp at hx⟩
              intro x hx
              have hx' : x ∈ out0.toList := hx
              rw [hout0, toList_appendList, toList_appendList] at hx'
              simp only [List.mem_append, List.mem_replicate, List.mem_singleton, Array.toList_empty,
                List.not_mem_nil, false_or] at hx'
              rcases hx' with h | h
              · rw [h, ← hmode]; exact mode_lt _ _ (by rw [hmode]; exact hacc)
              · rw [h.2]; decide
            obtain ⟨hbo, hbX, hbp⟩ := encL_bytes _ _ _ _ _ _ _ (fun x hx => hb x (List.mem_of_mem_drop hx)) hB0 hencL'
            intro v hv
            rw [ht, ho, toList_appendList] at hv
            rcases List.mem_append.mp hv with h | h
            · exact hbo v h
            · refine encLits_bytes _ _ _ _ ?_ v h
              intro x hx
              rcases List.mem_append.mp hx with h | h
              · exact hbX x h
              · exact hbp x h
          · have h1 : tI.d = tF.d := hRI.d_eq.symm
            rw [h1, ← hRF.d_eq]
            exact hSF.sim
          · have h1 : tI.words = tF.words := hRI.words_eq.symm
            rw [h1, hSF.words, hRF.words_eq]

/-! ## the wrapper `TextCodec` -/

/-- `TextCodec.Inverse` restores what `TextCodec.Forward` accepted, and the two loops end with related
    dictionaries (when a block was actually transformed) -/
theorem text_roundtrip (sw : Nat) (sd : Array Entry) (hs : StaticOK sw sd) (tc2 : Bool) (hsz lh dt : Nat)
    (hh : hsz = 2 ^ lh) (h6 : 6 ≤ lh) (h32 : lh ≤ 32) (src t : List Nat) (dstLen n : Nat)
    (hb : ∀ x ∈ src, x < 256) (hdst : src.length ≤ dstLen)
    (h : textForwardS sw sd tc2 hsz dt src dstLen = .ok t)
    (hn : src.length ≤ n) (hn39 : n < 2 ^ 39)
    (htail : tc2 = false → ∀ c, src.getLast? = some c → (c = ESCAPE_TOKEN1 ∨ c = ESCAPE_TOKEN2) → src.length < n) :
    t.length ≤ src.length ∧ textInverseS sw sd tc2 false hsz t n = .ok src ∧ ∀ v ∈ t, v < 256 := by
  have hpos : 0 < hsz := by rw [hh]; exact Nat.two_pow_pos lh
  have hlen : t.length ≤ src.length := by
    rcases textForwardS_total sw sd hs tc2 hsz dt hpos src dstLen with ⟨e, he⟩ | ⟨o, ho, hol⟩
    · rw [he] at h; cases h
    · rw [ho] at h; cases h; exact hol
  refine ⟨hlen, ?_⟩
  unfold textForwardS at h
  by_cases c0 : src.length = 0 ∨ dstLen = 0
  · rw [if_pos c0] at h
    cases h
    have : src = [] := List.eq_nil_of_length_eq_zero (by omega)
    subst this
    unfold textInverseS
    simp
  · rw [if_neg c0] at h
    by_cases c1 : src.length < MIN_BLOCK_SIZE
    · rw [if_pos c1] at h; cases h
    · rw [if_neg c1] at h
      by_cases c2 : src.length > MAX_BLOCK_SIZE
      · rw [if_pos c2] at h; cases h
      · rw [if_neg c2] at h
        have hmin : MIN_BLOCK_SIZE = 1024 := rfl
        obtain ⟨hinv, hbytes, sF, tI, _, hIL, _, _⟩ := codec_roundtrip sw sd hs tc2 hsz lh dt hh h6 h32 src t dstLen n hb
          (by omega) h hn hn39 htail
        have ht2 : 2 ≤ t.length := by
          unfold codecInverseLoopS at hIL
          simp only at hIL
          cases t with
          | nil => simp at hIL
          | cons x t' =>
            cases t' with
            | nil => simp at hIL
            | cons y t'' => simp
        refine ⟨?_, hbytes⟩
        unfold textInverseS
        rw [if_neg (by omega), if_neg (by omega), if_neg (by omega)]
        exact hinv

theorem text_accept_len (sw : Nat) (sd : Array Entry) (tc2 : Bool) (hsz dt : Nat) (src t : List Nat) (dstLen : Nat)
    (h : textForwardS sw sd tc2 hsz dt src dstLen = .ok t) : src.length ≤ 2 ^ 30 ∨ dstLen = 0 := by
  unfold textForwardS at h
  by_cases c0 : src.length = 0 ∨ dstLen = 0
  · rcases c0 with c0 | c0
    · left; omega
    · right; exact c0
  · rw [if_neg c0] at h
    by_cases c1 : src.length < MIN_BLOCK_SIZE
    · rw [if_pos c1] at h; cases h
    · rw [if_neg c1] at h
      by_cases c2 : src.length > MAX_BLOCK_SIZE
      · rw [if_pos c2] at h; cases h
      · have : MAX_BLOCK_SIZE = 2 ^ 30 := by decide
        left; omega

/-- the output of Forward consists of byte values -/
theorem text_bytes (sw : Nat) (sd : Array Entry) (hs : StaticOK sw sd) (tc2 : Bool) (hsz lh dt : Nat)
    (hh : hsz = 2 ^ lh) (h6 : 6 ≤ lh) (h32 : lh ≤ 32) (src t : List Nat) (dstLen : Nat)
    (hb : ∀ x ∈ src, x < 256) (hdst : src.length ≤ dstLen)
    (h : textForwardS sw sd tc2 hsz dt src dstLen = .ok t) : ∀ v ∈ t, v < 256 := by
  have hl : src.length ≤ 2 ^ 30 := by
    rcases text_accept_len sw sd tc2 hsz dt src t dstLen h with h1 | h1
    · exact h1
    · omega
  have e30 : (2 : Nat) ^ 30 = 1073741824 := by decide
  have e39 : (2 : Nat) ^ 39 = 549755813888 := by decide
  exact (text_roundtrip sw sd hs tc2 hsz lh dt hh h6 h32 src t dstLen (src.length + 1) hb hdst h (by omega) (by omega)
    (fun _ _ _ _ => by omega)).2.2

theorem text_bound (sw : Nat) (sd : Array Entry) (hs : StaticOK sw sd) (tc2 : Bool) (hsz dt : Nat) (hpos : 0 < hsz)
    (src t : List Nat) (dstLen : Nat) (h : textForwardS sw sd tc2 hsz dt src dstLen = .ok t) :
    t.length ≤ src.length := by
  rcases textForwardS_total sw sd hs tc2 hsz dt hpos src dstLen with ⟨e, he⟩ | ⟨o, ho, hol⟩
  · rw [he] at h; cases h
  · rw [ho] at h; cases h; exact hol

/-- lock step: for a block that was transformed, the loop of Inverse ends with the dictionary and the ring index
    the loop of Forward ended with -/
theorem text_sync (sw : Nat) (sd : Array Entry) (hs : StaticOK sw sd) (tc2 : Bool) (hsz lh dt : Nat)
    (hh : hsz = 2 ^ lh) (h6 : 6 ≤ lh) (h32 : lh ≤ 32) (src t : List Nat) (dstLen n : Nat)
    (hb : ∀ x ∈ src, x < 256) (hdst : src.length ≤ dstLen) (hne : src ≠ [])
    (h : textForwardS sw sd tc2 hsz dt src dstLen = .ok t)
    (hn : src.length ≤ n) (hn39 : n < 2 ^ 39)
    (htail : tc2 = false → ∀ c, src.getLast? = some c → (c = ESCAPE_TOKEN1 ∨ c = ESCAPE_TOKEN2) → src.length < n) :
    ∃ sF tI, codecForwardLoopS sw sd tc2 hsz (computeStats (!tc2) src) src dstLen = .ok sF ∧
      codecInverseLoopS sw sd tc2 false hsz t n = .ok tI ∧ DictSim sF.d tI.d ∧ tI.words = sF.words := by
  have hl : src.length ≠ 0 := fun e => hne (List.eq_nil_of_length_eq_zero e)
  unfold textForwardS at h
  rw [if_neg (by omega)] at h
  by_cases c1 : src.length < MIN_BLOCK_SIZE
  · rw [if_pos c1] at h; cases h
  · rw [if_neg c1] at h
    by_cases c2 : src.length > MAX_BLOCK_SIZE
    · rw [if_pos c2] at h; cases h
    · rw [if_neg c2] at h
      have hmin : MIN_BLOCK_SIZE = 1024 := rfl
      exact (codec_roundtrip sw sd hs tc2 hsz lh dt hh h6 h32 src t dstLen n hb (by omega) h hn hn39 htail).2.2

end Kanzi.Text
