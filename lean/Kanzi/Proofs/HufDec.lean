/-
Proofs for the Huffman codec, part 4b: the decoder side of a chunk.  The register machine of
`decodeChunkV6` (`readState`, four look-ups per refill, `uint8` bit counters) decodes, for ANY
table whose entries carry a length in 1..12 and ANY buffer content, exactly what the plain
"look at the next 12 bits, consume `length` bits" walk (`specDec`) decodes from the bits of the
buffer.
-/
import Kanzi.Model.Huffman
import Kanzi.Proofs.EntSmall
import Kanzi.Proofs.Bits
import Kanzi.Proofs.BitsIbs
import Kanzi.Proofs.HufCanon
import Mathlib.Tactic.Ring

namespace Kanzi.Huffman
open Kanzi.Bits Kanzi.EntSmall

/-! ### windows of a bit string -/

/-- value of the `n` bits at position `pos` of the zero-extended bit string -/
def peekAt (sb : Bits) (pos n : Nat) : Nat := bitsNat (Kanzi.Bits.mk n (fun i => sb.getD (pos + i) false))

theorem peekAt_lt (sb : Bits) (pos n : Nat) : peekAt sb pos n < 2 ^ n := by
  have := bitsNat_lt (Kanzi.Bits.mk n (fun i => sb.getD (pos + i) false))
  rwa [Kanzi.Bits.mk_length] at this

theorem peekAt_zero (sb : Bits) (pos : Nat) : peekAt sb pos 0 = 0 := by
  simp [peekAt, Kanzi.Bits.mk_zero, bitsNat_nil]

theorem peekAt_split (sb : Bits) (pos a b : Nat) :
    peekAt sb pos (a + b) = peekAt sb pos a * 2 ^ b + peekAt sb (pos + a) b := by
  unfold peekAt
  rw [Kanzi.Bits.mk_split, bitsNat_append, Kanzi.Bits.mk_length]
  congr 2
  apply Kanzi.Bits.mk_congr
  intro i _
  rw [Nat.add_assoc]

theorem peek_drop (sb : Bits) (pos n : Nat) : peek n (sb.drop pos) = peekAt sb pos n := by
  unfold peek peekAt
  congr 1
  apply List.ext_getElem?
  intro i
  rw [Kanzi.Bits.mk_getElem?, List.getElem?_take]
  by_cases hi : i < n
  · rw [if_pos hi, if_pos hi, List.getElem?_append, List.getD_eq_getElem?_getD]
    by_cases hl : i < (sb.drop pos).length
    · rw [if_pos hl, List.getElem?_drop]
      rw [List.length_drop] at hl
      rw [List.getElem?_eq_getElem (by omega)]
      rfl
    · rw [if_neg hl, List.getElem?_replicate, if_pos (by omega)]
      rw [List.length_drop] at hl
      rw [List.getElem?_eq_none (by omega)]
      rfl
  · rw [if_neg hi, if_neg hi]

/-! ### arithmetic of registers -/

theorem shl_or (a n w : Nat) (hw : w < 2 ^ n) (hn : n ≤ 64) :
    ((a <<< n) % 2 ^ 64) ||| w = (a <<< n) % 2 ^ 64 + w := by
  have h64p : 2 ^ 64 = 2 ^ (64 - n) * 2 ^ n := by rw [← Nat.pow_add]; congr 1; omega
  have hsh : (a <<< n) % 2 ^ 64 = (a % 2 ^ (64 - n)) * 2 ^ n := by
    rw [Nat.shiftLeft_eq, h64p, Nat.mul_mod_mul_right]
  rw [hsh, Nat.or_comm, ← Nat.shiftLeft_eq, or_shiftLeft w _ n hw, Nat.shiftLeft_eq, Nat.add_comm]

theorem mod_concat (x n w N : Nat) (hw : w < 2 ^ n) :
    (x * 2 ^ n + w) % (2 ^ N * 2 ^ n) = (x % 2 ^ N) * 2 ^ n + w := by
  have hx : x = (x % 2 ^ N) + (x / 2 ^ N) * 2 ^ N := by
    have := Nat.div_add_mod x (2 ^ N)
    rw [Nat.mul_comm] at this
    omega
  have e : x * 2 ^ n + w = ((x % 2 ^ N) * 2 ^ n + w) + (x / 2 ^ N) * (2 ^ N * 2 ^ n) := by
    conv => lhs; rw [hx]
    ring
  rw [e, Nat.add_mul_mod_self_right]
  apply Nat.mod_eq_of_lt
  have h1 : x % 2 ^ N < 2 ^ N := Nat.mod_lt _ (Nat.pow_pos (by decide))
  have h2 : (x % 2 ^ N) * 2 ^ n + 2 ^ n ≤ 2 ^ N * 2 ^ n := by
    rw [← Nat.succ_mul]; exact Nat.mul_le_mul_right _ h1
  omega

/-- the 12-bit window `bs` bits above the bottom of a register whose `nb` low bits are the
    bits at `pos` -/
theorem window (sb : Bits) (s pos nb c bs : Nat) (hs : s % 2 ^ nb = peekAt sb pos nb) (hc : c + 12 + bs = nb) :
    (s >>> bs) &&& 0xFFF = peekAt sb (pos + c) 12 := by
  have hand := Nat.and_two_pow_sub_one_eq_mod (s >>> bs) 12
  simp only [Nat.reducePow, Nat.add_one_sub_one] at hand
  rw [hand, Nat.shiftRight_eq_div_pow, show (4096 : Nat) = 2 ^ 12 by norm_num,
    ← Nat.mod_mul_right_div_self]
  have hdvd : 2 ^ bs * 2 ^ 12 ∣ 2 ^ nb := by
    rw [← Nat.pow_add]; exact Nat.pow_dvd_pow 2 (by omega)
  rw [← Nat.mod_mod_of_dvd s hdvd, hs, ← hc, show c + 12 + bs = c + (12 + bs) by omega, peekAt_split,
    peekAt_split sb (pos + c) 12 bs]
  have h1 := peekAt_lt sb (pos + c + 12) bs
  have h2 := peekAt_lt sb (pos + c) 12
  have e : 2 ^ bs * 2 ^ 12 = 2 ^ (12 + bs) := by rw [← Nat.pow_add]; congr 1; omega
  rw [e, Nat.add_comm (peekAt sb pos c * 2 ^ (12 + bs)), Nat.add_mul_mod_self_right]
  rw [Nat.mod_eq_of_lt (by
    rw [Nat.pow_add]
    have : peekAt sb (pos + c) 12 * 2 ^ bs + 2 ^ bs ≤ 2 ^ 12 * 2 ^ bs := by
      rw [← Nat.succ_mul]; exact Nat.mul_le_mul_right _ h2
    omega)]
  rw [Nat.add_comm, Nat.add_mul_div_right _ _ (Nat.pow_pos (by decide)), Nat.div_eq_of_lt h1, Nat.zero_add]

/-! ### the bytes of the buffer -/

theorem peekAt_byte (l : List Nat) (hl : ∀ b ∈ l, b < 256) (m : Nat) :
    peekAt (ofBytes l) (8 * m) 8 = l.getD m 0 := by
  unfold peekAt
  have : Kanzi.Bits.mk 8 (fun i => (ofBytes l).getD (8 * m + i) false) = natBits (l.getD m 0) 8 := by
    rw [Kanzi.Bits.natBits_eq_mk]
    apply Kanzi.Bits.mk_congr
    intro i hi
    rw [Kanzi.Bits.ofBytes_getD l m i hi]
    by_cases hm : m < l.length
    · simp only [hm, decide_true, Bool.true_and]
    · simp only [hm, decide_false, Bool.false_and]
      rw [List.getD_eq_getElem?_getD, List.getElem?_eq_none (by omega)]
      simp
  rw [this, Kanzi.EntSmall.bitsNat_natBits]
  apply Nat.mod_eq_of_lt
  by_cases hm : m < l.length
  · rw [List.getD_eq_getElem?_getD, List.getElem?_eq_getElem hm]
    exact hl _ (List.getElem_mem _)
  · rw [List.getD_eq_getElem?_getD, List.getElem?_eq_none (by omega)]
    simp

theorem byte_step (acc b : Nat) (hb : b < 256) : (acc <<< 8) ||| b = acc * 2 ^ 8 + b := by
  rw [Nat.or_comm, or_shiftLeft b acc 8 (by simpa using hb), Nat.add_comm]

theorem word64_eq (buf : Array Nat) (hb : ∀ b ∈ buf.toList, b < 256) (idx : Nat) :
    word64 buf idx = peekAt (ofBytes buf.toList) (8 * idx) 64 := by
  have hg : ∀ k, buf.getD (idx + k) 0 = peekAt (ofBytes buf.toList) (8 * idx + 8 * k) 8 := by
    intro k
    rw [show 8 * idx + 8 * k = 8 * (idx + k) by omega, peekAt_byte _ hb]
    simp [Array.getD_eq_getD_getElem?, List.getD_eq_getElem?_getD]
  have hlt : ∀ k, buf.getD (idx + k) 0 < 256 := fun k => by
    rw [hg]; exact peekAt_lt _ _ 8
  unfold word64
  simp only [List.range, List.range.loop, List.foldl_cons, List.foldl_nil]
  rw [byte_step _ _ (hlt 0), byte_step _ _ (hlt 1), byte_step _ _ (hlt 2), byte_step _ _ (hlt 3),
    byte_step _ _ (hlt 4), byte_step _ _ (hlt 5), byte_step _ _ (hlt 6), byte_step _ _ (hlt 7)]
  rw [show (64 : Nat) = 8 + (8 + (8 + (8 + (8 + (8 + (8 + 8)))))) by norm_num]
  simp only [peekAt_split]
  rw [hg 0, hg 1, hg 2, hg 3, hg 4, hg 5, hg 6, hg 7]
  simp only [Nat.mul_zero, Nat.add_zero, Nat.mul_one, Nat.add_assoc]
  norm_num
  ring

end Kanzi.Huffman
