/-
Proofs about the version 6 header model (`Kanzi/Model/Header.lean`).  Core Lean only.
-/
import Kanzi.Model.Header

namespace Kanzi.Header

open Kanzi.Bits

/-! ### bit strings -/

theorem natBits_length (v n : Nat) : (natBits v n).length = n := by
  simp [natBits]

theorem natBits_succ (v n : Nat) : natBits v (n + 1) = v.testBit n :: natBits v n := by
  simp only [natBits, List.range_succ_eq_map, List.map_cons, List.map_map]
  congr 1
  apply List.map_congr_left
  intro i _
  simp only [Function.comp]
  congr 1
  omega

theorem foldl_bits (bs : Bits) (a : Nat) :
    bs.foldl (fun a b => 2 * a + b.toNat) a = a * 2 ^ bs.length + bs.foldl (fun a b => 2 * a + b.toNat) 0 := by
  induction bs generalizing a with
  | nil => simp
  | cons b bs ih =>
    simp only [List.foldl_cons, List.length_cons]
    rw [ih (2 * a + b.toNat), ih (2 * 0 + b.toNat)]
    rw [Nat.pow_succ]
    simp only [Nat.mul_zero, Nat.zero_add, Nat.add_mul, Nat.add_assoc]
    congr 1
    rw [Nat.mul_comm (2 ^ bs.length) 2, Nat.mul_assoc]
    exact Nat.mul_left_comm 2 a _

theorem bitsNat_cons (b : Bool) (bs : Bits) : bitsNat (b :: bs) = b.toNat * 2 ^ bs.length + bitsNat bs := by
  simp only [bitsNat, List.foldl_cons]
  rw [foldl_bits]
  simp

theorem bitsNat_natBits (v n : Nat) : bitsNat (natBits v n) = v % 2 ^ n := by
  induction n with
  | zero => simp [natBits, bitsNat, Nat.mod_one]
  | succ n ih =>
    rw [natBits_succ, bitsNat_cons, ih, natBits_length, Nat.toNat_testBit, Nat.mod_pow_succ]
    rw [Nat.mul_comm, Nat.add_comm]

theorem readBits_natBits_append (v n : Nat) (rest : Bits) :
    readBits n (natBits v n ++ rest) = .ok (v % 2 ^ n, rest) := by
  have hl := natBits_length v n
  unfold readBits
  have h1 : ¬ (natBits v n ++ rest).length < n := by
    rw [List.length_append, hl]; omega
  rw [if_neg h1]
  have h2 : (natBits v n ++ rest).take n = natBits v n := by
    rw [List.take_append_of_le_length (by omega), List.take_of_length_le (by omega)]
  have h3 : (natBits v n ++ rest).drop n = rest := by
    rw [List.drop_append_of_le_length (by omega), List.drop_of_length_le (by omega), List.nil_append]
  rw [h2, h3, bitsNat_natBits]

theorem headerBits_length (h : Header) : (headerBits h).length = 160 + 16 * (if h.szMask > 0 then h.szMask else 0) := by
  unfold headerBits
  split <;> simp [natBits_length] <;> omega

/-! ### field ranges -/

theorem validEntropy_lt {e : Nat} (h : validEntropy e = true) : e < 32 := by
  simp [validEntropy] at h; omega

theorem shift_block {b : Nat} (h16 : b % 16 = 0) : (b >>> 4) <<< 4 = b := by
  rw [Nat.shiftRight_eq_div_pow, Nat.shiftLeft_eq]
  omega

theorem shift_block_lt {b : Nat} (hi : b ≤ 2 ^ 30) : b >>> 4 < 2 ^ 28 := by
  rw [Nat.shiftRight_eq_div_pow]
  omega

/-! ### round trip -/

/-- `readHeader` accepts what `writeHeader` wrote and returns the same fields, leaving exactly the
bits that follow the header -/
theorem parseHeader_headerBits (h : Header) (wf : WF h) (rest : Bits) :
    parseHeader (headerBits h ++ rest) = .ok (h, rest) := by
  obtain ⟨ck, ent, trLt, tr, bsLo, bsHi, bs16, mask, size⟩ := wf
  have e1 : h.ckSize % 2 ^ 2 = h.ckSize := Nat.mod_eq_of_lt (by omega)
  have e2 : h.entropyType % 2 ^ 5 = h.entropyType := Nat.mod_eq_of_lt (validEntropy_lt ent)
  have e3 : h.transformType % 2 ^ 48 = h.transformType := Nat.mod_eq_of_lt trLt
  have e4 : (h.blockSize >>> 4) % 2 ^ 28 = h.blockSize >>> 4 := Nat.mod_eq_of_lt (shift_block_lt bsHi)
  have e5 : h.szMask % 2 ^ 2 = h.szMask := Nat.mod_eq_of_lt (by omega)
  have e6 : h.origSize % 2 ^ (16 * h.szMask) = h.origSize := Nat.mod_eq_of_lt size
  have e7 : (h.blockSize >>> 4) <<< 4 = h.blockSize := shift_block bs16
  have m1 : magic % 2 ^ 32 = magic := by decide
  have m2 : version % 2 ^ 4 = version := by decide
  have hb1 : ¬ (h.blockSize < minBlockSize ∨ h.blockSize > maxBlockSize) := by
    simp only [minBlockSize, maxBlockSize]; omega
  have hck : ¬ h.ckSize = 3 := by omega
  unfold parseHeader headerBits
  simp only [List.append_assoc, readBits_natBits_append, bind, Except.bind, m1, m2, e1, e2, e3, e4, e5, e7,
    ne_eq, not_true_eq_false, if_false, Nat.lt_irrefl, pure, Except.pure, hck, ent, tr,
    Bool.not_true, Bool.false_eq_true, hb1, gt_iff_lt]
  by_cases hm : h.szMask = 0
  · have hs : h.origSize = 0 := by
      rw [hm] at size; simpa using size
    simp only [hm, Nat.lt_irrefl, if_false, not_true_eq_false, List.nil_append, readBits_natBits_append,
      Nat.zero_mod]
    have : ({ ckSize := h.ckSize, entropyType := h.entropyType, transformType := h.transformType,
              blockSize := h.blockSize, szMask := 0, origSize := 0 } : Header) = h := by
      cases h; simp_all
    rw [this]
    simp
  · have hp : h.szMask > 0 := Nat.pos_of_ne_zero hm
    simp only [hm, hp, if_true, not_false_eq_true, readBits_natBits_append, e6]
    simp

/-! ### a damaged block-size field is always detected

`headerBitsF h f c` is the header image with an arbitrary 28-bit block field `f` and an arbitrary
stored CRC `c`; `headerBits h = headerBitsF h (h.blockSize >>> 4) (headerCrc h)`. -/

def headerBitsF (h : Header) (f c : Nat) : Bits :=
  natBits magic 32 ++ natBits version 4 ++ natBits h.ckSize 2 ++ natBits h.entropyType 5 ++
  natBits h.transformType 48 ++ natBits f 28 ++ natBits h.szMask 2 ++
  (if h.szMask > 0 then natBits h.origSize (16 * h.szMask) else []) ++
  natBits 0 15 ++ natBits c 24

theorem headerBits_eq_F (h : Header) : headerBits h = headerBitsF h (h.blockSize >>> 4) (headerCrc h) := rfl

/-- what `readHeader` does with a header whose block field and CRC are arbitrary -/
theorem parseHeader_headerBitsF (h : Header) (wf : WF h) (f c : Nat) (hf : f < 2 ^ 28) (rest : Bits) :
    parseHeader (headerBitsF h f c ++ rest) =
      if f <<< 4 < minBlockSize ∨ f <<< 4 > maxBlockSize then .error .blockSize
      else if c % 2 ^ 24 ≠ headerCrc { h with blockSize := f <<< 4 } % 2 ^ 24 then .error .crc
      else .ok ({ h with blockSize := f <<< 4 }, rest) := by
  obtain ⟨ck, ent, trLt, tr, bsLo, bsHi, bs16, mask, size⟩ := wf
  cases h with
  | mk ckS eT tT bS sM oS =>
  dsimp only at ck ent trLt tr mask size ⊢
  have e1 : ckS % 2 ^ 2 = ckS := Nat.mod_eq_of_lt (by omega)
  have e2 : eT % 2 ^ 5 = eT := Nat.mod_eq_of_lt (validEntropy_lt ent)
  have e3 : tT % 2 ^ 48 = tT := Nat.mod_eq_of_lt trLt
  have e4 : f % 2 ^ 28 = f := Nat.mod_eq_of_lt hf
  have e5 : sM % 2 ^ 2 = sM := Nat.mod_eq_of_lt (by omega)
  have e6 : oS % 2 ^ (16 * sM) = oS := Nat.mod_eq_of_lt size
  have m1 : magic % 2 ^ 32 = magic := by decide
  have m2 : version % 2 ^ 4 = version := by decide
  have hck : ¬ ckS = 3 := by omega
  unfold parseHeader headerBitsF
  simp only [List.append_assoc, readBits_natBits_append, bind, Except.bind, m1, m2, e1, e2, e3, e4, e5,
    ne_eq, not_true_eq_false, if_false, Nat.lt_irrefl, pure, Except.pure, hck, ent, tr,
    Bool.not_true, Bool.false_eq_true, gt_iff_lt]
  by_cases hb : f <<< 4 < minBlockSize ∨ maxBlockSize < f <<< 4
  · simp only [hb, if_true]
    rfl
  · simp only [hb, if_false]
    by_cases hm : sM = 0
    · subst hm
      have hs : oS = 0 := by simpa using size
      subst hs
      simp only [Nat.lt_irrefl, if_false, not_true_eq_false, List.nil_append, readBits_natBits_append,
        Nat.zero_mod]
      split <;> rfl
    · have hp : sM > 0 := Nat.pos_of_ne_zero hm
      simp only [hm, hp, if_true, not_false_eq_true, readBits_natBits_append, e6]
      split <;> rfl

/-! #### arithmetic of the CRC fold -/

/-- the 24 stored bits of `crcFold`, on the value of the accumulator -/
def fold24 (n : Nat) : Nat := (n / 2 ^ 3 % 2 ^ 24) ^^^ (n / 2 ^ 23)

theorem crcFold_toNat_mod (c : BitVec 32) : (crcFold c).toNat % 2 ^ 24 = fold24 c.toNat := by
  have hc := c.isLt
  unfold crcFold fold24
  rw [BitVec.toNat_xor, BitVec.toNat_ushiftRight, BitVec.toNat_ushiftRight, Nat.xor_comm,
    Nat.xor_mod_two_pow, Nat.shiftRight_eq_div_pow, Nat.shiftRight_eq_div_pow]
  have : c.toNat / 2 ^ 23 % 2 ^ 24 = c.toNat / 2 ^ 23 := by omega
  rw [this]

theorem xor_cancel_right {x y r : Nat} (h : x ^^^ r = y ^^^ r) : x = y := by
  have h2 := congrArg (· ^^^ r) h
  simpa [Nat.xor_assoc] using h2

theorem xor_cancel_left {x y r : Nat} (h : r ^^^ x = r ^^^ y) : x = y := by
  rw [Nat.xor_comm r x, Nat.xor_comm r y] at h
  exact xor_cancel_right h

theorem fold24_xor (x y : Nat) : fold24 (x ^^^ y) = fold24 x ^^^ fold24 y := by
  unfold fold24
  rw [Nat.xor_div_two_pow, Nat.xor_div_two_pow, Nat.xor_mod_two_pow]
  simp only [Nat.xor_assoc]
  congr 1
  rw [← Nat.xor_assoc, ← Nat.xor_assoc, Nat.xor_comm (x / 2 ^ 23)]

/-- the fold separates two accumulators that differ by a constant `t` (mod 2^32) whenever `t` has a set
bit in positions 12..26 that cannot be absorbed by a carry, or lives entirely in bits 27..31 -/
theorem fold24_detects (a a' t : Nat) (ha : a < 2 ^ 32) (h' : a' = (a + t) % 2 ^ 32)
    (ht : (4096 ≤ t % 2 ^ 27 ∧ t % 2 ^ 27 ≤ 2 ^ 27 - 4096) ∨ (t % 2 ^ 27 = 0 ∧ t % 2 ^ 32 ≠ 0)) :
    fold24 a ≠ fold24 a' := by
  intro heq
  unfold fold24 at heq
  have hV : a / 2 ^ 23 / 2 ^ 9 = 0 := by omega
  have hV' : a' / 2 ^ 23 / 2 ^ 9 = 0 := by omega
  have c1 := congrArg (· / 2 ^ 9) heq
  simp only [Nat.xor_div_two_pow, hV, hV', Nat.xor_zero] at c1
  rcases ht with ht | ht
  · omega
  · have c2 := congrArg (· % 2 ^ 9) heq
    simp only [Nat.xor_mod_two_pow] at c2
    have e1 : a / 2 ^ 3 % 2 ^ 24 % 2 ^ 9 = a' / 2 ^ 3 % 2 ^ 24 % 2 ^ 9 := by omega
    have e2 : a / 2 ^ 23 % 2 ^ 9 = a / 2 ^ 23 := by omega
    have e3 : a' / 2 ^ 23 % 2 ^ 9 = a' / 2 ^ 23 := by omega
    rw [e1, e2, e3] at c2
    have c3 := xor_cancel_left c2
    omega

/-! #### one flipped bit of the block size moves the accumulator by ± crcHash·2^p -/

theorem notLo_xor (b p : Nat) : notLo (b ^^^ 2 ^ p) = notLo b ^^^ BitVec.twoPow 32 p := by
  unfold notLo
  ext i hi
  simp
  rw [← BitVec.getLsbD_eq_getElem, BitVec.getLsbD_ofNat, Nat.testBit_two_pow]
  simp [hi, eq_comm]

theorem getLsbD_not_of_getElem (N : BitVec 32) (p : Nat) (hp : p < 32) (hb : N.getLsbD p = false) : N[p] = false := by
  rw [← BitVec.getLsbD_eq_getElem]; exact hb

theorem xor_twoPow_add (N : BitVec 32) (p : Nat) (hp : p < 32) (hb : N.getLsbD p = false) :
    N ^^^ BitVec.twoPow 32 p = N + BitVec.twoPow 32 p := by
  have hb' := getLsbD_not_of_getElem N p hp hb
  rw [BitVec.add_eq_or_of_and_eq_zero]
  · ext i hi
    simp
    by_cases h : i = p
    · subst h; simp [hb']
    · simp [h]
  · ext i hi
    simp
    intro h1 h2
    subst h2
    rw [hb'] at h1
    exact Bool.noConfusion h1

theorem t_ok : ∀ p, p < 32 → 4 ≤ p →
    (4096 ≤ (crcHash * BitVec.twoPow 32 p).toNat % 2 ^ 27 ∧
      (crcHash * BitVec.twoPow 32 p).toNat % 2 ^ 27 ≤ 2 ^ 27 - 4096) ∨
    ((crcHash * BitVec.twoPow 32 p).toNat % 2 ^ 27 = 0 ∧ (crcHash * BitVec.twoPow 32 p).toNat % 2 ^ 32 ≠ 0) := by
  decide

/-- flipping bit `p` of the factor moves the product by ± `crcHash * 2^p` -/
theorem mul_flip (N : BitVec 32) (p : Nat) (hp : p < 32) :
    crcHash * (N ^^^ BitVec.twoPow 32 p) = crcHash * N + crcHash * BitVec.twoPow 32 p ∨
    crcHash * N = crcHash * (N ^^^ BitVec.twoPow 32 p) + crcHash * BitVec.twoPow 32 p := by
  cases hb : N.getLsbD p with
  | false => left; rw [xor_twoPow_add N p hp hb, BitVec.mul_add]
  | true =>
    right
    have hb2 : (N ^^^ BitVec.twoPow 32 p).getLsbD p = false := by
      simp [hb, hp]
    have := xor_twoPow_add (N ^^^ BitVec.twoPow 32 p) p hp hb2
    rw [BitVec.xor_assoc, BitVec.xor_self, BitVec.xor_zero] at this
    rw [← BitVec.mul_add, ← this]

theorem fold24_mul_flip_ne (N : BitVec 32) (p : Nat) (hp : p < 32) (h4 : 4 ≤ p) :
    fold24 (crcHash * N).toNat ≠ fold24 (crcHash * (N ^^^ BitVec.twoPow 32 p)).toNat := by
  rcases mul_flip N p hp with h | h
  · apply fold24_detects _ _ (crcHash * BitVec.twoPow 32 p).toNat (crcHash * N).isLt _ (t_ok p hp h4)
    rw [h, BitVec.toNat_add]
  · intro heq
    refine fold24_detects _ _ (crcHash * BitVec.twoPow 32 p).toNat
      (crcHash * (N ^^^ BitVec.twoPow 32 p)).isLt ?_ (t_ok p hp h4) heq.symm
    rw [h, BitVec.toNat_add]

/-- the part of the accumulator that does not depend on the block size -/
def crcRest (h : Header) : BitVec 32 :=
  let c0 := crcHash * crcSeed
  let c1 := c0 ^^^ (crcHash * notLo h.ckSize)
  let c2 := c1 ^^^ (crcHash * notLo h.entropyType)
  let c3 := c2 ^^^ (crcHash * notHi h.transformType)
  let c4 := c3 ^^^ (crcHash * notLo h.transformType)
  if h.szMask > 0 then
    (c4 ^^^ (crcHash * notHi h.origSize)) ^^^ (crcHash * notLo h.origSize)
  else c4

theorem crcAcc_split (h : Header) : crcAcc h = (crcHash * notLo h.blockSize) ^^^ crcRest h := by
  unfold crcAcc crcRest
  split <;> (dsimp only; ac_rfl)

theorem headerCrc_mod (h : Header) :
    headerCrc h % 2 ^ 24 = fold24 (crcHash * notLo h.blockSize).toNat ^^^ fold24 (crcRest h).toNat := by
  unfold headerCrc
  rw [crcFold_toNat_mod, crcAcc_split, BitVec.toNat_xor, fold24_xor]

/-- the stored CRC changes whenever one bit (weight ≥ 16, below 2^32) of the block size changes -/
theorem headerCrc_flip_ne (h : Header) (p : Nat) (hp : p < 32) (h4 : 4 ≤ p) :
    headerCrc h % 2 ^ 24 ≠ headerCrc { h with blockSize := h.blockSize ^^^ 2 ^ p } % 2 ^ 24 := by
  rw [headerCrc_mod, headerCrc_mod]
  have hr : crcRest { h with blockSize := h.blockSize ^^^ 2 ^ p } = crcRest h := rfl
  rw [hr]
  dsimp only
  rw [notLo_xor]
  intro heq
  exact fold24_mul_flip_ne (notLo h.blockSize) p hp h4 (xor_cancel_right heq)

/-! #### flipping one bit of the image -/

/-- the bit string with bit `i` inverted (unchanged when `i` is out of range) -/
def flipBit (bs : Bits) (i : Nat) : Bits := bs.set i (!bs.getD i false)

theorem flipBit_append_right (A B : Bits) (n j : Nat) (hA : A.length = n) :
    flipBit (A ++ B) (n + j) = A ++ flipBit B j := by
  unfold flipBit
  subst hA
  rw [List.set_append_right _ _ (by omega)]
  simp [List.getD_eq_getElem?_getD, List.getElem?_append_right]

theorem flipBit_append_left (A B : Bits) (j : Nat) (hj : j < A.length) :
    flipBit (A ++ B) j = flipBit A j ++ B := by
  unfold flipBit
  rw [List.set_append_left _ _ hj]
  simp [List.getD_eq_getElem?_getD, List.getElem?_append_left hj]

theorem natBits_getElem (v n j : Nat) (hj : j < (natBits v n).length) :
    (natBits v n)[j] = v.testBit (n - 1 - j) := by
  simp [natBits]

theorem flipBit_length (bs : Bits) (j : Nat) : (flipBit bs j).length = bs.length := by
  simp [flipBit]

theorem flipBit_getElem (bs : Bits) (j i : Nat) (h : i < (flipBit bs j).length) :
    (flipBit bs j)[i] = if j = i then !bs.getD j false else bs[i]'(by rw [flipBit_length] at h; exact h) := by
  simp [flipBit, List.getElem_set]

theorem flipBit_natBits (v n j : Nat) (hj : j < n) :
    flipBit (natBits v n) j = natBits (v ^^^ 2 ^ (n - 1 - j)) n := by
  apply List.ext_getElem
  · simp [flipBit_length, natBits_length]
  · intro i h1 h2
    have hi : i < n := by rw [natBits_length] at h2; exact h2
    rw [natBits_getElem, flipBit_getElem, Nat.testBit_xor, Nat.testBit_two_pow]
    split
    · rename_i hji
      subst hji
      rw [List.getD_eq_getElem?_getD, List.getElem?_eq_getElem (by rw [natBits_length]; exact hj),
        Option.getD_some, natBits_getElem]
      simp
    · rename_i hji
      rw [natBits_getElem]
      have : ¬ (n - 1 - j = n - 1 - i) := by omega
      simp [this]

theorem flipBit_headerBits (h : Header) (j : Nat) (hj : j < 28) :
    flipBit (headerBits h) (91 + j) = headerBitsF h ((h.blockSize >>> 4) ^^^ 2 ^ (27 - j)) (headerCrc h) := by
  rw [headerBits_eq_F]
  unfold headerBitsF
  simp only [List.append_assoc]
  rw [show 91 + j = 32 + (4 + (2 + (5 + (48 + j)))) by omega]
  rw [flipBit_append_right _ _ _ _ (natBits_length _ _), flipBit_append_right _ _ _ _ (natBits_length _ _),
    flipBit_append_right _ _ _ _ (natBits_length _ _), flipBit_append_right _ _ _ _ (natBits_length _ _),
    flipBit_append_right _ _ _ _ (natBits_length _ _),
    flipBit_append_left _ _ _ (by rw [natBits_length]; exact hj), flipBit_natBits _ _ _ hj]

/-- inverting any single bit of the 28-bit block-size field of a well-formed header makes
`readHeader` fail: with an out-of-range block size, or else with a CRC mismatch -/
theorem parseHeader_flip_blockSize (h : Header) (wf : WF h) (rest : Bits) (j : Nat) (hj : j < 28) :
    parseHeader (flipBit (headerBits h) (91 + j) ++ rest) = .error .blockSize ∨
    parseHeader (flipBit (headerBits h) (91 + j) ++ rest) = .error .crc := by
  have hf : (h.blockSize >>> 4) ^^^ 2 ^ (27 - j) < 2 ^ 28 :=
    Nat.xor_lt_two_pow (shift_block_lt wf.bsHi) (Nat.pow_lt_pow_right (by omega) (by omega))
  have hsh : ((h.blockSize >>> 4) ^^^ 2 ^ (27 - j)) <<< 4 = h.blockSize ^^^ 2 ^ (27 - j + 4) := by
    rw [Nat.shiftLeft_xor_distrib, shift_block wf.bs16, Nat.shiftLeft_eq, ← Nat.pow_add]
  rw [flipBit_headerBits h j hj, parseHeader_headerBitsF h wf _ _ hf, hsh]
  split
  · left; rfl
  · right
    rw [if_pos (headerCrc_flip_ne h (27 - j + 4) (by omega) (by omega))]

/-! ### the writer only produces well-formed headers -/

theorem szMaskOf_le (n : Nat) : szMaskOf n ≤ 3 := by
  unfold szMaskOf
  repeat' split
  all_goals omega

theorem mkHeader_wf (ck ent tr bs sz : Nat) (hck : ck ≤ 2) (hent : validEntropy ent = true)
    (htr : tr < 2 ^ 48) (hval : validTransform tr = true) (hlo : 1024 ≤ bs) (hhi : bs ≤ 2 ^ 30)
    (h16 : bs % 16 = 0) : WF (mkHeader ck ent tr bs sz) := by
  refine ⟨hck, hent, htr, hval, hlo, hhi, h16, szMaskOf_le sz, ?_⟩
  simp only [mkHeader, szMaskOf]
  repeat' split
  all_goals first | omega | (simp_all; done) | (simp_all; omega)

end Kanzi.Header
