package main

// Stream `race` (C18): K concurrent pipelines (each: own Writer -> bytes -> own Reader, one
// goroutine per pipeline) over all codecs with internal jobs 1..16 and hook-perturbed schedules.
//
//   race k=<K> j=<jobs> off=<first config> seed=<n> size=<bytes> bs=<block size> hook=<0|1> [big=1]
//
// Every scenario runs in a child process (`kv racechild <op>`): the child first runs each pipeline
// alone (sequentially), then all K at once, and compares compressed bytes, decoded bytes and error
// classes (no interference).  When kv was built with -race (the orchestrator's kv-race binary) the
// child runs with GORACE="log_path=... exitcode=66 halt_on_error=0" and every report in the log is
// a violation (Site = first kanzi frame of the report, Symptom data-race, the report text in What).
// TPAQ/TPAQX pipelines appear only in scenarios with heavy=1.
// From a non-race binary only the interference comparison is done; the stats say so (Notes and the
// histogram key race-detector:off).
// big=1: one BWT pipeline with a > 4 MiB block and jobs > 1 (inverseBiPSIv2 helper goroutines).

import (
	"bytes"
	"encoding/json"
	"fmt"
	"io"
	"math/rand"
	"os"
	"os/exec"
	"path/filepath"
	"regexp"
	"runtime"
	"sort"
	"strconv"
	"strings"
	"sync"
	"sync/atomic"
	"time"

	kanzi "github.com/flanglet/kanzi-go/v2"
	kio "github.com/flanglet/kanzi-go/v2/io"
	"github.com/flanglet/kanzi-go/v2/transform"
)

type raceCfg struct {
	tf, en, shape string
}

// all 19 transforms, all 9 entropy codecs, the ten level chains
func raceConfigs() []raceCfg {
	var cs []raceCfg
	for i, tf := range g5Transforms {
		cs = append(cs, raceCfg{tf, g5Entropies[i%7], g5FriendlyShape(tf)}) // cheap entropies with the single transforms
	}
	for i, en := range g5Entropies {
		cs = append(cs, raceCfg{[]string{"NONE", "BWT", "LZ"}[i%3], en, "mixed"})
	}
	for _, l := range g5Levels {
		cs = append(cs, raceCfg{l[0], l[1], "mixed"})
	}
	return cs
}

type racePipe struct {
	cfg        raceCfg
	data       []byte
	bs, jobs   uint
	ck         uint
	comp, back []byte
	encErr     string
	decErr     string
	info       string // hash of the BLOCK_INFO events (offsets) seen by a listener with verbosity 5
}

// raceListener records the BLOCK_INFO messages (they carry the bit offset of every block in the
// shared bitstream): listeners run on the task goroutines, and the code that feeds them is part of
// "state shared between the tasks of one instance".
type raceListener struct {
	mu   sync.Mutex
	msgs []string
}

func (l *raceListener) ProcessEvent(e *kanzi.Event) {
	if e.Type() == kanzi.EVT_BLOCK_INFO {
		l.mu.Lock()
		l.msgs = append(l.msgs, e.String())
		l.mu.Unlock()
	}
}

// raceListenRoundTrip: same stream, through NewWriterWithCtx / NewReaderWithCtx with a listener and
// verbosity 5 on both sides; returns a digest of the sorted BLOCK_INFO messages
func raceListenRoundTrip(p *racePipe) string {
	var sink memSink
	wctx := map[string]any{"transform": p.cfg.tf, "entropy": p.cfg.en, "blockSize": p.bs, "jobs": p.jobs, "checksum": p.ck, "verbosity": uint(5)}
	w, err := kio.NewWriterWithCtx(&sink, wctx)
	if err != nil {
		return "wctor:" + err.Error()
	}
	wl := &raceListener{}
	w.AddListener(wl)
	if _, err := w.Write(p.data); err != nil {
		return "write:" + err.Error()
	}
	if err := w.Close(); err != nil {
		return "close:" + err.Error()
	}
	rctx := map[string]any{"jobs": p.jobs, "verbosity": uint(5)}
	r, err := kio.NewReaderWithCtx(rdCloser{bytes.NewReader(sink.Bytes())}, rctx)
	if err != nil {
		return "rctor:" + err.Error()
	}
	rl := &raceListener{}
	r.AddListener(rl)
	back, err := io.ReadAll(r)
	if err != nil {
		return "read:" + err.Error()
	}
	if !bytes.Equal(back, p.data) {
		return "mismatch"
	}
	all := append(append([]string{}, wl.msgs...), rl.msgs...)
	sort.Strings(all)
	return fmt.Sprintf("%d:%s", len(all), cliHash([]byte(strings.Join(all, "\n"))))
}

func (p *racePipe) run() {
	c := g5Cfg{Tf: p.cfg.tf, En: p.cfg.en, Bs: p.bs, Ck: p.ck, Fs: true}
	p.comp, p.encErr = g5Cur.encode(p.data, c, p.jobs)
	p.back, p.decErr = nil, ""
	if p.encErr == "" {
		p.back, p.decErr = g5Cur.decode(p.comp, c, p.jobs, int64(len(p.data)))
		p.info = raceListenRoundTrip(p)
	}
}

func (p *racePipe) outcome() string {
	return fmt.Sprintf("enc=%q comp=%d:%s dec=%q back=%d:%s info=%s", p.encErr, len(p.comp), cliHash(p.comp), p.decErr, len(p.back), cliHash(p.back), p.info)
}

var raceHookCtr, raceHookSeed uint64

// schedule perturbation at the hand-off points; touches only its own atomic counter
func raceHook(side, point int, id int32, ctr *int32) {
	n := atomic.AddUint64(&raceHookCtr, 1)
	h := ((n + raceHookSeed) * 0x9E3779B97F4A7C15) >> 58
	switch {
	case h < 28:
		runtime.Gosched()
	case h < 31:
		time.Sleep(time.Duration(1+h%4) * 20 * time.Microsecond)
	}
}

// kv racechild <op tokens>: prints one line
func raceChild(args []string) int {
	m := g5ParseKV(args)
	num := func(k string, d int) int {
		if v, err := strconv.Atoi(m[k]); err == nil {
			return v
		}
		return d
	}
	if m["selftest"] == "1" {
		// deliberate race in the harness itself: checks the detection plumbing
		x := 0
		var wg sync.WaitGroup
		for i := 0; i < 2; i++ {
			wg.Add(1)
			go func() { defer wg.Done(); x++ }()
		}
		wg.Wait()
		fmt.Println("ok selftest", x > 0)
		return 0
	}
	K, J, off, seed := num("k", 2), num("j", 1), num("off", 0), int64(num("seed", 1))
	size, bs := num("size", 20000), num("bs", 4096)
	if m["hook"] == "1" {
		raceHookSeed = uint64(seed)
		kio.VerifHook = raceHook // installed once, before any stream exists
	}
	cfgs := raceConfigs()
	r := rand.New(rand.NewSource(seed))
	if m["odd"] == "1" {
		// the inverse BWT itself, 8 chunks of an ODD size, 8 / 4 / 8 worker goroutines: the workers' write
		// ranges must be disjoint (F46, `C13_bwt_tasks_disjoint`); under the race detector an overlap at a chunk
		// boundary is a write-write report even though both workers store the same value
		if msg := raceOddBWT(seed); msg != "" {
			fmt.Println(msg)
			return 0
		}
	}
	var pipes []*racePipe
	heavy := 0
	for i := 0; i < K; i++ {
		c := cfgs[(off+i)%len(cfgs)]
		if g5HeavyEntropy(c.en) {
			heavy++
			// TPAQ/TPAQX capped (>= 50 MB of model per task, cleared per block): only in scenarios
			// marked heavy=1, at most two such pipelines at once
			if heavy > 2 || m["heavy"] != "1" {
				c = cfgs[(off+i+11)%19]
			}
		}
		// 2..12 blocks (the hand-off protocol needs several batches when jobs is small); codecs that
		// allocate and clear tens of MB per block (ROLZ/ROLZX tables, CM/TPAQ/TPAQX models) get at most 4
		nblk := 2 + r.Intn(11)
		if strings.Contains(c.tf, "ROLZ") || g5HeavyEntropy(c.en) || c.en == "CM" {
			nblk = 2 + r.Intn(3)
		}
		n := nblk*bs - r.Intn(bs)
		if n > size {
			n = size
		}
		p := &racePipe{cfg: c, data: g5Data(c.shape, n, r.Int63n(1<<40)), bs: uint(bs), jobs: uint(J), ck: []uint{0, 32, 64}[r.Intn(3)]}
		if g5HeavyEntropy(c.en) && p.jobs > 2 {
			p.jobs = 2
		}
		if m["big"] == "1" && i == 0 {
			p.cfg = raceCfg{"BWT", "NONE", "text"}
			p.bs = 8 << 20
			p.data = g5Data("text", 5<<20+r.Intn(1<<20), r.Int63n(1<<40))
			if m["odd"] == "1" {
				// 8 chunks of an ODD size: the last bi-gram of every chunk straddles the chunk boundary, so the
				// workers' write ranges are disjoint only if the second byte of that pair is not stored (F46)
				p.data = g5Data("text", 8*524289, r.Int63n(1<<40))
				p.jobs = 8
			}
			if p.jobs < 2 {
				p.jobs = 4
			}
		}
		pipes = append(pipes, p)
	}
	// isolated sequential runs
	alone := make([]string, K)
	for i, p := range pipes {
		p.run()
		alone[i] = p.outcome()
		if p.encErr == "" && p.decErr == "" && !bytes.Equal(p.back, p.data) {
			fmt.Printf("roundtrip-failure p=%d %s&%s bs=%d jobs=%d size=%d (alone)\n", i, p.cfg.tf, p.cfg.en, p.bs, p.jobs, len(p.data))
			return 0
		}
	}
	// concurrent runs
	for rep := 0; rep < 1; rep++ {
		var wg sync.WaitGroup
		start := make(chan struct{})
		for _, p := range pipes {
			wg.Add(1)
			go func(p *racePipe) { defer wg.Done(); <-start; p.run() }(p)
		}
		close(start)
		wg.Wait()
		for i, p := range pipes {
			if got := p.outcome(); got != alone[i] {
				fmt.Printf("interference p=%d %s&%s bs=%d jobs=%d size=%d alone{%s} concurrent{%s}\n", i, p.cfg.tf, p.cfg.en, p.bs, p.jobs, len(p.data), alone[i], got)
				return 0
			}
		}
	}
	nerr := 0
	for _, p := range pipes {
		if p.encErr != "" || p.decErr != "" {
			nerr++
		}
	}
	fmt.Printf("ok pipes=%d failing-alone-and-concurrently=%d\n", K, nerr)
	return 0
}

var raceFrame = regexp.MustCompile(`(?m)^\s+(github\.com/flanglet/kanzi-go/v2/[^\s(]+(?:\(\*?\w+\))?[^\s(]*)\(`)

func raceSite(report string) string {
	m := raceFrame.FindStringSubmatch(report)
	if m == nil {
		return "harness"
	}
	s := strings.TrimPrefix(m[1], "github.com/flanglet/kanzi-go/v2/")
	s = strings.NewReplacer("(*", "", ")", "").Replace(s)
	s = regexp.MustCompile(`\.func\d+(\.\d+)*$`).ReplaceAllString(s, "")
	return s
}

func raceExec(op string, res *Result) string {
	ws := strings.Fields(op)
	if len(ws) < 2 || ws[0] != "race" {
		return "bad-op"
	}
	exe, err := os.Executable()
	if err != nil {
		res.Violation = &Violation{Kind: "input", Site: "harness", Symptom: "race-child-failed", What: err.Error()}
		return "harness-error"
	}
	tmp, err := cliScratch()
	if err != nil {
		res.Violation = &Violation{Kind: "input", Site: "harness", Symptom: "scratch", What: err.Error()}
		return "harness-error"
	}
	defer os.RemoveAll(tmp)
	cmd := exec.Command(exe, append([]string{"racechild"}, ws[1:]...)...)
	cmd.Env = append(os.Environ(), "GORACE=log_path="+filepath.Join(tmp, "race")+" exitcode=66 halt_on_error=0 history_size="+map[bool]string{true: "7", false: "3"}[strings.Contains(op, "big=1")])
	var so, se bytes.Buffer
	cmd.Stdout, cmd.Stderr = &so, &se
	done := make(chan error, 1)
	if err := cmd.Start(); err != nil {
		res.Violation = &Violation{Kind: "input", Site: "harness", Symptom: "race-child-failed", What: err.Error()}
		return "harness-error"
	}
	go func() { done <- cmd.Wait() }()
	select {
	case err = <-done:
	case <-time.After(30 * time.Minute):
		cmd.Process.Kill()
		<-done
		res.Violation = &Violation{Kind: "input", Site: "io", Symptom: "hang", What: "race child did not finish within 30 minutes: " + op}
		return "hang"
	}
	rc := 0
	if ee, ok := err.(*exec.ExitError); ok {
		rc = ee.ExitCode()
	} else if err != nil {
		rc = -1
	}
	line := strings.TrimSpace(so.String())
	if i := strings.IndexByte(line, '\n'); i >= 0 {
		line = line[:i]
	}
	if g5RaceEnabled {
		res.Tags = append(res.Tags, "race-detector:on")
	} else {
		res.Tags = append(res.Tags, "race-detector:off")
	}
	m := g5ParseKV(ws[1:])
	res.Tags = append(res.Tags, "K:"+m["k"], "jobs:"+m["j"], "hook:"+m["hook"])
	// race reports
	logs, _ := filepath.Glob(filepath.Join(tmp, "race.*"))
	var reports []string
	for _, l := range logs {
		b, _ := os.ReadFile(l)
		for _, part := range strings.Split(string(b), "==================") {
			if strings.Contains(part, "WARNING: DATA RACE") {
				reports = append(reports, strings.TrimSpace(part))
			}
		}
	}
	if strings.Contains(se.String(), "WARNING: DATA RACE") { // in case the log path was not honoured
		reports = append(reports, se.String())
	}
	switch {
	case len(reports) > 0:
		rep := reports[0]
		if len(rep) > 6000 {
			rep = rep[:6000] + "\n[...]"
		}
		res.Violation = &Violation{Kind: "schedule", Site: raceSite(reports[0]), Symptom: "data-race",
			What:     fmt.Sprintf("%d race report(s); first:\n%s", len(reports), rep),
			Scenario: map[string]any{"stream": "race", "op": op, "reports": len(reports), "child_output": line}}
		return "data-race"
	case rc != 0 || line == "":
		e := se.String()
		if len(e) > 3000 {
			e = e[len(e)-3000:]
		}
		res.Violation = &Violation{Kind: "input", Site: "harness", Symptom: "race-child-failed", What: fmt.Sprintf("exit status %d, stdout %q, stderr tail: %s", rc, line, e)}
		return "child-failed"
	case strings.HasPrefix(line, "interference"):
		res.Violation = &Violation{Kind: "schedule", Site: "io.Writer/io.Reader", Symptom: "interference", What: line}
		return "interference"
	case strings.HasPrefix(line, "roundtrip-failure"):
		res.Violation = &Violation{Kind: "input", Site: "io.Writer/io.Reader", Symptom: "roundtrip", What: line}
		return "roundtrip-failure"
	}
	res.Nontrivial = true
	res.Sample = map[string]any{"op": op, "child": line}
	if strings.Contains(line, "failing-alone-and-concurrently=0") {
		return "ok"
	}
	res.Tags = append(res.Tags, "pipeline-fails-identically-alone-and-concurrently")
	return "ok"
}

func raceGen(r *rand.Rand, tier string, n int, emit func(op string, tags ...string)) {
	nc := len(raceConfigs())
	count := 18
	if tier == "thorough" {
		count = 240
	}
	if n > 0 {
		count = n
	}
	// TPAQ, TPAQX and the two level chains using them: once each per run (quick), with 2 jobs
	emit(fmt.Sprintf("race k=2 j=2 off=26 seed=%d size=20000 bs=4096 hook=1 heavy=1", r.Int63n(1<<31)), "family:pipelines-tpaq")
	emit(fmt.Sprintf("race k=2 j=3 off=36 seed=%d size=20000 bs=4096 hook=1 heavy=1", r.Int63n(1<<31)), "family:pipelines-tpaq")
	off := r.Intn(nc)
	for i := 0; i < count; i++ {
		K := []int{2, 4, 8}[i%3]
		J := 1 + (i*5+r.Intn(3))%16
		emit(fmt.Sprintf("race k=%d j=%d off=%d seed=%d size=%d bs=%d hook=%d heavy=%d", K, J, off%nc, r.Int63n(1<<31),
			[]int{20000, 60000, 200000}[r.Intn(3)], []int{1024, 4096, 16384}[r.Intn(3)], b2i(i%4 != 3), b2i(tier == "thorough" && i%6 == 0)), "family:pipelines")
		off += K
	}
	// one BWT pipeline whose inverse runs 8 workers over chunks of an odd size (also in the quick tier)
	emit(fmt.Sprintf("race k=1 j=8 off=0 seed=%d size=20000 bs=4096 hook=0 big=1 odd=1", r.Int63n(1<<31)), "family:bwt-odd-chunks")
	if tier == "thorough" {
		for i := 0; i < 3; i++ {
			emit(fmt.Sprintf("race k=%d j=%d off=%d seed=%d size=20000 bs=4096 hook=1 big=1", 2, []int{2, 4, 7}[i], r.Intn(nc), r.Int63n(1<<31)), "family:bwt-big-block")
		}
	}
}

func raceOddBWT(seed int64) string {
	n := 8 * 524289
	src := g5Data("text", n, seed)
	c1 := map[string]any{"jobs": uint(1)}
	f, err := transform.NewBWTWithCtx(&c1)
	if err != nil {
		return "bwt-ctor-failure " + err.Error()
	}
	enc := make([]byte, n)
	if _, _, err := f.Forward(src, enc); err != nil {
		return "bwt-forward-failure " + err.Error()
	}
	for _, jobs := range []uint{8, 4, 8} {
		c2 := map[string]any{"jobs": jobs}
		g, err := transform.NewBWTWithCtx(&c2)
		if err != nil {
			return "bwt-ctor-failure " + err.Error()
		}
		for k := 0; k < 8; k++ {
			g.SetPrimaryIndex(k, f.PrimaryIndex(k))
		}
		dec := make([]byte, n)
		if _, _, err := g.Inverse(enc, dec); err != nil {
			return "bwt-inverse-failure " + err.Error()
		}
		if !bytes.Equal(dec, src) {
			return fmt.Sprintf("roundtrip-failure direct BWT inverse jobs=%d size=%d", jobs, n)
		}
	}
	return ""
}

func b2i(b bool) int {
	if b {
		return 1
	}
	return 0
}

func init() {
	s := &Stream{
		Name:     "race",
		Parallel: 4,
		Rule: "K in {2,4,8} concurrent Writer->Reader pipelines (own instances per goroutine) walking the list of 38 configurations (19 transforms, 9 entropy codecs, 10 level chains; TPAQ/TPAQX at most two at a time) with internal jobs 1..16, protocol-hook yields/sleeps on 3 of 4 scenarios; compressed and decoded bytes compared with the isolated sequential runs of the same pipelines; " +
			"under the -race build every detector report is a violation; thorough adds BWT inverse with 2/4/7 jobs on a > 4 MiB block. distinct_nontrivial = scenarios whose child ran to the comparison",
		Gen:  raceGen,
		Exec: raceExec,
	}
	streams[s.Name] = s
	register("race", func(args []string) int {
		rc := runStream(s, args)
		// say in the stats whether the detector was active (runStream owns the stats file)
		for i, a := range args {
			path := ""
			if (a == "-stats" || a == "--stats") && i+1 < len(args) {
				path = args[i+1]
			} else if strings.HasPrefix(a, "-stats=") || strings.HasPrefix(a, "--stats=") {
				path = a[strings.IndexByte(a, '=')+1:]
			}
			if path == "" || path == "-" {
				continue
			}
			b, err := os.ReadFile(path)
			if err != nil {
				continue
			}
			var st Stats
			if json.Unmarshal(b, &st) != nil {
				continue
			}
			if g5RaceEnabled {
				st.Notes = append(st.Notes, "binary built with -race: data-race detection active in every scenario (child processes, GORACE log parsed)")
			} else {
				st.Notes = append(st.Notes, "binary NOT built with -race: interference comparison only, no data-race detection (run this stream from the kv-race binary)")
			}
			st.write(path)
		}
		return rc
	})
	register("racechild", raceChild)
}
