package main

import (
	"math/rand"
	"testing"

	"kverif/internal/gen"
)

// Every scenario line produced by the G1 generators (both tiers) must parse, name a known shape and
// regenerate its data deterministically; prints the population sizes (go test -v -run G1Gen).
func TestG1GenLinesParse(t *testing.T) {
	known := map[string]bool{}
	for _, n := range gen.ShapeNames() {
		known[n] = true
	}
	for _, name := range []string{"rt", "rtbig", "det", "namesrt", "shortread"} {
		for _, tier := range []string{"quick", "thorough"} {
			cnt := 0
			fam := map[string]int{}
			streams[name].Gen(rand.New(rand.NewSource(1)), tier, 0, func(op string, tags ...string) {
				cnt++
				for _, tg := range tags {
					if len(tg) > 7 && tg[:7] == "family:" {
						fam[tg]++
					}
				}
				c, err := g1Parse(op)
				if err != nil {
					t.Fatalf("%s/%s: %q: %v", name, tier, op, err)
				}
				if !known[c.Shape] {
					t.Fatalf("%s/%s: unknown shape in %q", name, tier, op)
				}
				if c.BS < 1024 || c.BS%16 != 0 {
					t.Fatalf("%s/%s: block size in %q", name, tier, op)
				}
			})
			t.Logf("%s/%s: %d scenarios %v", name, tier, cnt, fam)
		}
	}
	a, _ := gen.Generate("mixed", 20000, 5, 1024)
	b, _ := gen.Generate("mixed", 20000, 5, 1024)
	if string(a) != string(b) || len(a) != 20000 {
		t.Fatal("Generate is not deterministic")
	}
}
