/-
`text` slice: the lock-step simulation between the list specifications `encL` (Forward) and `decL` (Inverse).
Part 1: the relation between the two dictionaries (`DictSim`: same map, same entries; the decoder's `dictSize`,
chosen from `len(dst)`, may be larger: its extra entries are still empty) and its preservation by `learn`.
-/
import Kanzi.Proofs.TextRefine

namespace Kanzi.Text
open Kanzi.RLT (Out Res wr)

/-- the encoder's dictionary `dE` and the decoder's dictionary `dD` hold the same words -/
structure DictSim (dE dD : Dict) : Prop where
  map_eq : dD.map = dE.map
  ssz_eq : dD.ssz = dE.ssz
  hsz_eq : dD.hsz = dE.hsz
  size_le : dE.size ≤ dD.size
  entry : ∀ k, entryAt dD k =
    if k < dE.size then entryAt dE k else if k < dD.size then Entry.fresh k else Entry.zero

theorem DictSim.findEntry {dE dD : Dict} (h : DictSim dE dD) (x : Nat) : findEntry dD x = findEntry dE x := by
  unfold Kanzi.Text.findEntry
  rw [h.map_eq, h.hsz_eq]

theorem DictSim.entry_lt {dE dD : Dict} (h : DictSim dE dD) (k : Nat) (hk : k < dE.size) :
    entryAt dD k = entryAt dE k := by
  rw [h.entry k, if_pos hk]

theorem entryAt_ge (d : Dict) (w k : Nat) (hd : DictOK d w) (hk : d.size ≤ k) : entryAt d k = Entry.zero := by
  unfold entryAt
  exact getD_of_ge _ _ _ (by rw [hd.size_eq]; exact hk)

theorem learnCore_entry (d : Dict) (w : Nat) (word : List Nat) (h1 k : Nat) (hd : DictOK d w) :
    entryAt (learnCore d w word h1) k = if k = w then ⟨h1, word.length, w, some word⟩ else entryAt d k := by
  unfold learnCore entryAt
  simp only
  rw [getD_set]
  have hw : w < d.list.size := by rw [hd.size_eq]; exact hd.words_lt
  by_cases c : k = w
  · rw [if_pos ⟨c.symm, hw⟩, if_pos c]
  · rw [if_neg (fun h => c h.1.symm), if_neg c]

theorem learnCore_sim (dE dD : Dict) (w : Nat) (word : List Nat) (h1 : Nat) (hE : DictOK dE w) (hD : DictOK dD w)
    (hs : DictSim dE dD) : DictSim (learnCore dE w word h1) (learnCore dD w word h1) := by
  refine ⟨?_, hs.ssz_eq, hs.hsz_eq, hs.size_le, ?_⟩
  · show (dD.map.setIfInBounds _ 0).setIfInBounds _ _ = (dE.map.setIfInBounds _ 0).setIfInBounds _ _
    rw [hs.map_eq, hs.hsz_eq, hs.entry_lt w hE.words_lt]
  · intro k
    rw [learnCore_entry dD w word h1 k hD, learnCore_entry dE w word h1 k hE]
    show _ = if k < dE.size then _ else if k < dD.size then _ else _
    by_cases c : k = w
    · rw [if_pos c, if_pos c, if_pos (by rw [c]; exact hE.words_lt)]
    · rw [if_neg c, if_neg c]; exact hs.entry k

theorem pow_two_lt_double {a b : Nat} (h : 2 ^ a < 2 ^ b) : 2 ^ a * 2 ≤ 2 ^ b := by
  have hab : a < b := (Nat.pow_lt_pow_iff_right (by decide)).mp h
  calc 2 ^ a * 2 = 2 ^ (a + 1) := (Nat.pow_succ ..).symm
    _ ≤ 2 ^ b := Nat.pow_le_pow_right (by decide) hab

theorem expand_entry (d : Dict) (w k : Nat) (hd : DictOK d w) :
    entryAt (expand d) k =
      if k < d.size then entryAt d k else if k < 2 * d.size then Entry.fresh k else Entry.zero :=
  (expand_list d hd.size_eq).2 k

theorem expand_size (d : Dict) : (expand d).size = d.size * 2 := rfl
theorem expand_map (d : Dict) : (expand d).map = d.map := rfl
theorem expand_ssz (d : Dict) : (expand d).ssz = d.ssz := rfl
theorem expand_hsz (d : Dict) : (expand d).hsz = d.hsz := rfl

/-- decide an equation between nested `if`s over linear conditions -/
macro "ifs_omega" : tactic => `(tactic| (repeat' split) <;> first | rfl | (exfalso; omega))

theorem sim_expand_both (dE dD : Dict) (w : Nat) (hE : DictOK dE w) (hD : DictOK dD w) (hs : DictSim dE dD)
    (he : dD.size = dE.size) : DictSim (expand dE) (expand dD) := by
  refine ⟨by rw [expand_map, expand_map]; exact hs.map_eq, hs.ssz_eq, hs.hsz_eq,
    by rw [expand_size, expand_size]; omega, ?_⟩
  intro k
  rw [expand_entry dD w k hD, expand_entry dE w k hE, hs.entry k, he, expand_size, expand_size, he]
  ifs_omega

theorem sim_expand_enc (dE dD : Dict) (w : Nat) (hE : DictOK dE w) (hs : DictSim dE dD)
    (hdbl : dE.size * 2 ≤ dD.size) : DictSim (expand dE) dD := by
  refine ⟨by rw [expand_map]; exact hs.map_eq, hs.ssz_eq, hs.hsz_eq, by rw [expand_size]; exact hdbl, ?_⟩
  intro k
  rw [expand_entry dE w k hE, hs.entry k, expand_size]
  ifs_omega

theorem learnNext_sim (dE dD : Dict) (w : Nat) (hE : DictOK dE w) (hD : DictOK dD w) (hs : DictSim dE dD) :
    DictSim (learnNext dE w).1 (learnNext dD w).1 ∧ (learnNext dD w).2 = (learnNext dE w).2 := by
  obtain ⟨a, ea⟩ := hE.size_pow
  obtain ⟨b, eb⟩ := hD.size_pow
  have hle := hs.size_le
  have hwE := hE.words_lt
  have hwD := hD.words_lt
  have hmE := hE.size_le
  have hmD := hD.size_le
  unfold learnNext
  by_cases c1 : w + 1 ≥ dE.size
  · rw [if_pos c1]
    by_cases c2 : dE.size ≥ MAX_DICT_SIZE
    · -- both are at the maximal size: both wrap
      rw [if_pos c2, if_pos (by omega), if_pos (by omega)]
      exact ⟨hs, hs.ssz_eq⟩
    · rw [if_neg c2]
      by_cases c3 : w + 1 ≥ dD.size
      · -- same size: both expand
        rw [if_pos c3, if_neg (by omega)]
        exact ⟨sim_expand_both dE dD w hE hD hs (by omega), rfl⟩
      · -- the decoder's dictionary is larger: only the encoder expands, into entries the decoder has already
        rw [if_neg c3]
        have hlt : dE.size < dD.size := by omega
        have hdbl : dE.size * 2 ≤ dD.size := by
          rw [ea, eb] at hlt ⊢
          exact pow_two_lt_double hlt
        exact ⟨sim_expand_enc dE dD w hE hs hdbl, rfl⟩
  · rw [if_neg c1, if_neg (by omega)]
    exact ⟨hs, rfl⟩

/-- both sides learn the same word into the same slot: the dictionaries stay related, the ring index is the same -/
theorem learn_sim (dE dD : Dict) (w : Nat) (word : List Nat) (hE : DictOK dE w) (hD : DictOK dD w)
    (hs : DictSim dE dD) (ht : ∀ b ∈ word, isText b = true) :
    ∃ dE' dD' w', learn dE w word (hashWord word) = .ok (dE', w') ∧ learn dD w word (hashWord word) = .ok (dD', w') ∧
      DictOK dE' w' ∧ DictOK dD' w' ∧ DictSim dE' dD' := by
  have hcE := learnCore_ok dE w word hE ht
  have hcD := learnCore_ok dD w word hD ht
  have hcs := learnCore_sim dE dD w word (hashWord word) hE hD hs
  obtain ⟨hsim, hw⟩ := learnNext_sim _ _ w hcE hcD hcs
  have hokD := learnNext_ok _ _ hcD
  rw [hw] at hokD
  refine ⟨_, _, _, learn_eq dE w word _ hE, ?_, learnNext_ok _ _ hcE, hokD, hsim⟩
  rw [learn_eq dD w word _ hD]
  congr 1
  exact Prod.ext rfl hw

/-! ## Part 2: what the decoder does with each kind of token (continuation form: `L` is the rest of the input) -/

theorem isText_ge128 (c : Nat) (h : 128 ≤ c) : isText c = false := by
  unfold isText isLower
  have : c ≤ c ||| 0x20 := Nat.left_le_or
  simp only [decide_eq_false_iff_not]
  omega

theorem isDelimiter_lt (c : Nat) (h : isDelimiter c = true) : c < 128 := by
  unfold isDelimiter at h
  simp only [Bool.or_eq_true, decide_eq_true_eq, beq_iff_eq] at h
  omega

theorem isDelimiter_not_text (c : Nat) (h : isDelimiter c = true) : isText c = false := by
  have hlt := isDelimiter_lt c h
  have : ∀ c, c < 128 → isDelimiter c = true → isText c = false := by decide
  exact this c hlt h

theorem learnL_nondelim (pw : Option (List Nat)) (w : Nat) (d : Dict) (c : Nat) (h : isDelimiter c = false) :
    learnL pw w d c = .ok (d, w) := by
  unfold learnL
  cases pw with
  | none => rfl
  | some word =>
    simp only
    rw [if_neg (by rw [h]; intro hc; exact absurd hc.2.1 (by decide))]

theorem learnL_short (v : List Nat) (w : Nat) (d : Dict) (c : Nat) (h : v.length < 3) :
    learnL (some v) w d c = .ok (d, w) := by
  unfold learnL
  simp only
  rw [if_neg (by omega)]

theorem learnL_none (w : Nat) (d : Dict) (c : Nat) : learnL none w d c = .ok (d, w) := rfl

/-- letters are copied and extend the current word -/
theorem decL_letters (tc2 old : Bool) (n : Nat) (crlf : Bool) : ∀ (w L : List Nat) (t : DS) (v : List Nat),
    (∀ b ∈ w, isText b = true) → t.pw = some v → t.out.length + w.length ≤ n →
    decL tc2 old n crlf (w ++ L) t = decL tc2 old n crlf L { t with pw := some (v ++ w), out := t.out ++ w }
  | [], L, t, v, _, hpw, _ => by
    cases t
    simp only at hpw
    simp only [List.nil_append, List.append_nil, hpw]
  | c :: w, L, t, v, hw, hpw, hroom => by
    rw [List.cons_append, decL]
    simp only [List.length_cons] at hroom
    rw [if_pos (by omega)]
    have hc : isText c = true := hw c (List.mem_cons_self ..)
    unfold decStep
    rw [if_pos hc]
    simp only [List.drop_zero]
    rw [decL_letters tc2 old n crlf w L _ (v ++ [c]) (fun b hb => hw b (List.mem_cons_of_mem _ hb))
      (by simp only [hpw, pwPush]) (by simp only [List.length_append, List.length_cons, List.length_nil]; omega)]
    simp only [List.append_assoc, List.cons_append, List.nil_append]

/-- an ordinary (non-letter, non-token) byte -/
theorem decL_lit (tc2 old : Bool) (n : Nat) (crlf : Bool) (c : Nat) (L : List Nat) (t t' : DS) (d' : Dict) (w' : Nat)
    (hroom : t.out.length < n) (hnt : isText c = false)
    (hplain : if tc2 = true then c < 128 ∧ c ≠ ESCAPE_TOKEN1 else c ≠ ESCAPE_TOKEN1 ∧ c ≠ ESCAPE_TOKEN2)
    (hl : learnL t.pw t.words t.d c = .ok (d', w'))
    (hlit : litL n crlf { t with d := d', words := w' } c = .ok t') :
    decL tc2 old n crlf (c :: L) t = decL tc2 old n crlf L t' := by
  rw [decL, if_pos hroom]
  unfold decStep
  rw [if_neg (by rw [hnt]; decide), hl]
  simp only
  unfold tokL
  cases tc2
  · simp only [Bool.false_eq_true, if_false] at hplain ⊢
    rw [if_neg (by intro h; rcases h with h | h; exact hplain.1 h; exact hplain.2 h), hlit]
    simp only [List.drop_zero]
  · simp only [if_true] at hplain ⊢
    rw [if_neg (by omega), if_neg hplain.2, hlit]
    simp only [List.drop_zero]

theorem emitWordL_word (n : Nat) (t : DS) (idx flip : Nat) (w : List Nat) (hi : idx < t.d.list.size)
    (hp : (entryAt t.d idx).ptr = some w) (hl : (entryAt t.d idx).len = w.length) (h2 : 2 ≤ w.length)
    (h256 : w.length < 256)
    (hroom : (if t.run = true then t.out ++ [32] else t.out).length + w.length < n) :
    emitWordL n t idx flip = .ok ⟨none, t.words, true, t.d,
      (if t.run = true then t.out ++ [32] else t.out) ++ flipHead flip w⟩ := by
  unfold emitWordL
  rw [if_neg (by omega), hp]
  simp only
  rw [hl, Nat.mod_eq_of_lt h256]
  have hg : w.length > 1 := by omega
  simp only [hg, true_and, if_true, decide_true, List.take_length]
  rw [if_neg (by omega)]

theorem emitWordL_esc (n : Nat) (t : DS) (idx c : Nat) (hi : idx < t.d.list.size)
    (he : entryAt t.d idx = ⟨0, 1, idx, some [c]⟩) (hroom : t.out.length + 1 < n) :
    emitWordL n t idx 0 = .ok ⟨some [], t.words, false, t.d, t.out ++ [c]⟩ := by
  unfold emitWordL
  rw [if_neg (by omega), he]
  simp only [Nat.reduceMod, Nat.lt_irrefl, false_and, if_false, decide_false, gt_iff_lt]
  rw [if_neg (by omega)]
  simp [flipHead]

/-- codec 1: an escaped 0x0E / 0x0F (token `0x0F` + the index of the special entry) -/
theorem decL_esc1 (old : Bool) (n : Nat) (crlf : Bool) (c idx : Nat) (L : List Nat) (t : DS)
    (hroom : t.out.length + 1 < n) (hi : idx < t.d.list.size) (hs : idx < t.d.size) (h19 : idx < 2 ^ 19)
    (he : entryAt t.d idx = ⟨0, 1, idx, some [c]⟩) :
    decL false old n crlf (ESCAPE_TOKEN1 :: (wordIndex1 idx ++ L)) t =
      decL false old n crlf L ⟨some [], t.words, false, t.d, t.out ++ [c]⟩ := by
  obtain ⟨tpw, tw, trun, td, tout⟩ := t
  simp only at hroom hi hs he ⊢
  rw [decL, if_pos (by simp only; omega)]
  unfold decStep
  rw [if_neg (by decide), learnL_nondelim _ _ _ _ (by decide)]
  simp only
  unfold tokL
  simp only [Bool.false_eq_true, if_false, true_or, if_true]
  have hr := readIdx1_wordIndex1 [] L idx td.size h19 hs
  simp only [List.nil_append, List.length_nil, Nat.zero_add] at hr
  rw [hr]
  simp only
  rw [if_neg (by decide), emitWordL_esc n ⟨tpw, tw, trun, td, tout⟩ idx c hi he hroom]
  simp only [List.drop_left]

/-- codec 2: an escaped byte (`0x0F` + the byte) -/
theorem decL_esc2 (old : Bool) (n : Nat) (crlf : Bool) (b : Nat) (L : List Nat) (t : DS)
    (hroom : t.out.length < n) :
    decL true old n crlf (ESCAPE_TOKEN1 :: b :: L) t =
      decL true old n crlf L ⟨some [], t.words, false, t.d, t.out ++ [b]⟩ := by
  obtain ⟨tpw, tw, trun, td, tout⟩ := t
  simp only at hroom ⊢
  rw [decL, if_pos hroom]
  unfold decStep
  rw [if_neg (by decide), learnL_nondelim _ _ _ _ (by decide)]
  simp only
  unfold tokL
  simp only [if_true]
  rw [if_neg (by decide)]
  simp only [List.drop_one, List.tail_cons]

/-- codec 1: a word token -/
theorem decL_word1 (old : Bool) (n : Nat) (crlf : Bool) (via : Bool) (idx : Nat) (w L : List Nat) (t : DS)
    (hroom0 : t.out.length < n) (hi : idx < t.d.list.size) (hs : idx < t.d.size) (h19 : idx < 2 ^ 19)
    (hp : (entryAt t.d idx).ptr = some w) (hl : (entryAt t.d idx).len = w.length) (h2 : 2 ≤ w.length)
    (h256 : w.length < 256)
    (hroom : (if t.run = true then t.out ++ [32] else t.out).length + w.length < n)
    (hlearn : ∀ c, isDelimiter c = false → learnL t.pw t.words t.d c = .ok (t.d, t.words)) :
    decL false old n crlf ((if via = true then ESCAPE_TOKEN1 else ESCAPE_TOKEN2) :: (wordIndex1 idx ++ L)) t =
      decL false old n crlf L ⟨none, t.words, true, t.d,
        (if t.run = true then t.out ++ [32] else t.out) ++ flipHead (if via = true then 0 else 0x20) w⟩ := by
  obtain ⟨tpw, tw, trun, td, tout⟩ := t
  simp only at hroom0 hi hs hp hl hroom hlearn ⊢
  rw [decL, if_pos hroom0]
  unfold decStep
  have hnt : isText (if via = true then ESCAPE_TOKEN1 else ESCAPE_TOKEN2) = false := by cases via <;> decide
  have hnd : isDelimiter (if via = true then ESCAPE_TOKEN1 else ESCAPE_TOKEN2) = false := by cases via <;> decide
  rw [if_neg (by rw [hnt]; decide), hlearn _ hnd]
  simp only
  unfold tokL
  simp only [Bool.false_eq_true, if_false]
  rw [if_pos (by cases via <;> simp)]
  have hr := readIdx1_wordIndex1 [] L idx td.size h19 hs
  simp only [List.nil_append, List.length_nil, Nat.zero_add] at hr
  rw [hr]
  simp only
  have hfl : (if (if via = true then ESCAPE_TOKEN1 else ESCAPE_TOKEN2) = ESCAPE_TOKEN2 then 0x20 else 0) =
      (if via = true then 0 else 0x20) := by cases via <;> decide
  rw [hfl, emitWordL_word n ⟨tpw, tw, trun, td, tout⟩ idx _ w hi hp hl h2 h256 hroom]
  simp only [List.drop_left]

theorem not_delim_ge128 (c : Nat) (h : 128 ≤ c) : isDelimiter c = false := by
  cases hd : isDelimiter c with
  | false => rfl
  | true => have := isDelimiter_lt c hd; omega

/-- codec 2 (current bitstream version): a word token -/
theorem decL_word2 (n : Nat) (crlf : Bool) (via : Bool) (idx c : Nat) (tl w L : List Nat) (t : DS)
    (hw2 : wordIndex2 idx = c :: tl)
    (hroom0 : t.out.length < n) (hi : idx < t.d.list.size) (hs : idx < t.d.size) (h19 : idx < 2 ^ 19)
    (hp : (entryAt t.d idx).ptr = some w) (hl : (entryAt t.d idx).len = w.length) (h2 : 2 ≤ w.length)
    (h256 : w.length < 256)
    (hroom : (if t.run = true then t.out ++ [32] else t.out).length + w.length < n)
    (hlearn : ∀ c, isDelimiter c = false → learnL t.pw t.words t.d c = .ok (t.d, t.words)) :
    decL true false n crlf ((if via = true then [] else [MASK_FLIP_CASE]) ++ (c :: tl) ++ L) t =
      decL true false n crlf L ⟨none, t.words, true, t.d,
        (if t.run = true then t.out ++ [32] else t.out) ++ flipHead (if via = true then 0 else 0x20) w⟩ := by
  obtain ⟨tpw, tw, trun, td, tout⟩ := t
  simp only at hroom0 hi hs hp hl hroom hlearn ⊢
  obtain ⟨c', tl', e', hc128, _⟩ := wordIndex2_head idx h19
  rw [hw2] at e'
  obtain ⟨rfl, rfl⟩ := List.cons.inj e'
  cases via
  · -- flip marker first
    simp only [Bool.false_eq_true, if_false, List.cons_append, List.nil_append]
    rw [decL, if_pos hroom0]
    unfold decStep
    rw [if_neg (by decide), hlearn _ (by decide)]
    simp only
    unfold tokL
    simp only [if_true]
    rw [if_pos (by decide)]
    simp only [Bool.false_eq_true, if_false]
    have hr := readIdx2_flip [] L tl c idx td.size h19 hs hw2
    simp only [List.nil_append, List.length_nil, Nat.zero_add] at hr
    rw [hr]
    simp only
    rw [emitWordL_word n ⟨tpw, tw, trun, td, tout⟩ idx _ w hi hp hl h2 h256 hroom]
    simp only
    have : List.drop (1 + tl.length) (c :: (tl ++ L)) = L := by
      rw [Nat.add_comm, List.drop_succ_cons, List.drop_left]
    rw [this]
  · simp only [if_true, List.nil_append, List.cons_append]
    rw [decL, if_pos hroom0]
    unfold decStep
    rw [if_neg (by rw [isText_ge128 c (by omega)]; decide), hlearn _ (not_delim_ge128 c (by omega))]
    simp only
    unfold tokL
    simp only [if_true]
    rw [if_pos (by omega)]
    simp only [Bool.false_eq_true, if_false]
    have hr := readIdx2_plain [] L tl c idx td.size h19 hs hw2
    simp only [List.nil_append, List.length_nil, Nat.zero_add] at hr
    rw [hr]
    simp only
    rw [emitWordL_word n ⟨tpw, tw, trun, td, tout⟩ idx _ w hi hp hl h2 h256 hroom]
    simp only [List.drop_left]

/-! ## Part 3: the look-up of Forward is exact, and both sides take the same decision to learn -/

theorem sameTail_drop (w pw : List Nat) (hl : w.length = pw.length) (h : sameTail w pw = true) :
    w.drop 1 = pw.drop 1 := by
  unfold sameTail at h
  rw [← hl, List.take_length] at h
  simpa using h

theorem flipHead_zero (w : List Nat) : flipHead 0 w = w := by
  cases w with
  | nil => rfl
  | cons a t => simp [flipHead]

theorem xor_xor_cancel (a b : Nat) : (a ^^^ b) ^^^ b = a := by
  rw [Nat.xor_assoc, Nat.xor_self, Nat.xor_zero]

/-- a word found by Forward: the entry holds the word itself (found through `h1`: `pe == pe1`) or the word
    with the case bit of its first letter flipped (found through `h2`: `pe != pe1`); the decoder, which applies
    the flip announced by the token, reproduces the word -/
theorem found_word (d : Dict) (words lh : Nat) (pw : List Nat) (k : Nat) (p1 : Option Nat)
    (hd : DictOK d words) (hh : d.hsz = 2 ^ lh) (h6 : 6 ≤ lh) (h32 : lh ≤ 32)
    (ht : ∀ b ∈ pw, isText b = true) (h2 : 2 ≤ pw.length)
    (h : fwdLookup d pw = .ok (some k, p1)) :
    ∃ w, (entryAt d k).ptr = some w ∧ (entryAt d k).len = w.length ∧ w.length = pw.length ∧
      k < d.list.size ∧ (entryAt d k).idx = k ∧
      flipHead (if decide (p1 = some k) = true then 0 else 0x20) w = pw := by
  unfold fwdLookup at h
  simp only at h
  generalize hc : (if hit d (findEntry d (hashWord pw)) (hashWord pw) pw.length = true then
      findEntry d (hashWord pw)
    else if hit d (findEntry d (hashWord (flipFirst pw))) (hashWord (flipFirst pw)) pw.length = true then
      findEntry d (hashWord (flipFirst pw)) else none) = cand at h
  cases cand with
  | none => simp only at h; cases h
  | some k' =>
    simp only at h
    cases hp : (entryAt d k').ptr with
    | none => rw [hp] at h; cases h
    | some w =>
      rw [hp] at h
      simp only at h
      by_cases cs : sameTail w pw = true
      · rw [if_pos cs] at h
        obtain ⟨hk, hp1⟩ := Prod.mk.inj (Out.ok.inj h)
        cases hk
        -- which hash?
        obtain ⟨p0, pt, rfl⟩ : ∃ p0 pt, pw = p0 :: pt := by
          cases pw with
          | nil => simp at h2
          | cons a t => exact ⟨a, t, rfl⟩
        have hp0 : p0 < 128 := isText_lt (ht p0 (List.mem_cons_self ..))
        by_cases c1 : hit d (findEntry d (hashWord (p0 :: pt))) (hashWord (p0 :: pt)) (p0 :: pt).length = true
        · rw [if_pos c1] at hc
          have hf : findEntry d (hashWord (p0 :: pt)) = some k := hc
          rw [hf] at c1
          obtain ⟨hhash, hlen⟩ := hit_some d k _ _ c1
          obtain ⟨w', hw', hwl, hwh, hwt⟩ := entry_ptr_of_map d words _ k _ hd hf hlen h2
          rw [hp] at hw'
          cases hw'
          have htl := sameTail_drop w (p0 :: pt) hwl cs
          obtain ⟨w0, wt, rfl⟩ : ∃ w0 wt, w = w0 :: wt := by
            cases w with
            | nil => simp at hwl
            | cons a t => exact ⟨a, t, rfl⟩
          simp only [List.drop_succ_cons, List.drop_zero] at htl
          subst htl
          have hw0 : w0 < 128 := isText_lt (hwt w0 (List.mem_cons_self ..))
          have e0 : w0 = p0 := hashWord_first w0 p0 wt (by omega) (by omega) (by rw [← hwh, hhash])
          subst e0
          have hk := (hd.map _ _ (findEntry_some d _ k hf)).1
          refine ⟨_, hp, by rw [hlen, hwl], hwl, hk, (hd.entry k hk).1, ?_⟩
          rw [← hp1, hf]
          simp only [decide_true, if_true]
          exact flipHead_zero _
        · rw [if_neg c1] at hc
          by_cases c2 : hit d (findEntry d (hashWord (flipFirst (p0 :: pt)))) (hashWord (flipFirst (p0 :: pt)))
              (p0 :: pt).length = true
          · rw [if_pos c2] at hc
            have hf : findEntry d (hashWord (flipFirst (p0 :: pt))) = some k := hc
            rw [hf] at c2
            obtain ⟨hhash, hlen⟩ := hit_some d k _ _ c2
            obtain ⟨w', hw', hwl, hwh, hwt⟩ := entry_ptr_of_map d words _ k _ hd hf hlen h2
            rw [hp] at hw'
            cases hw'
            have htl := sameTail_drop w (p0 :: pt) hwl cs
            obtain ⟨w0, wt, rfl⟩ : ∃ w0 wt, w = w0 :: wt := by
              cases w with
              | nil => simp at hwl
              | cons a t => exact ⟨a, t, rfl⟩
            simp only [List.drop_succ_cons, List.drop_zero] at htl
            subst htl
            have hw0 : w0 < 128 := isText_lt (hwt w0 (List.mem_cons_self ..))
            have hx : p0 ^^^ 0x20 < 256 := Nat.xor_lt_two_pow (n := 8) (by omega) (by decide)
            have e0 : w0 = p0 ^^^ 0x20 :=
              hashWord_first w0 (p0 ^^^ 0x20) wt (by omega) hx (by rw [← hwh, hhash]; rfl)
            have hk := (hd.map _ _ (findEntry_some d _ k hf)).1
            -- the entry does not sit in the slot of `h1`
            have hne : p1 ≠ some k := by
              intro e1
              rw [← hp1] at e1
              have hm1 := (hd.map _ _ (findEntry_some d _ k e1)).2
              have hm2 := (hd.map _ _ (findEntry_some d _ k hf)).2
              rw [hhash] at hm1
              rw [hh] at hm1
              have := hashWord_flip_slot p0 wt lh h6 h32
              apply this
              have hflip : hashWord (flipFirst (p0 :: wt)) = hashWord ((p0 ^^^ 0x20) :: wt) := rfl
              rw [← hflip, hm1]
            refine ⟨_, hp, by rw [hlen, hwl], hwl, hk, (hd.entry k hk).1, ?_⟩
            rw [if_neg (by simpa using hne)]
            show (w0 ^^^ 0x20) :: wt = p0 :: wt
            rw [e0, xor_xor_cancel]
          · rw [if_neg c2] at hc; cases hc
      · rw [if_neg cs] at h
        cases h

theorem fwdLookup_p1 (d : Dict) (pw : List Nat) (r : Option Nat × Option Nat) (h : fwdLookup d pw = .ok r) :
    r.2 = findEntry d (hashWord pw) := by
  unfold fwdLookup at h
  simp only at h
  generalize (if hit d (findEntry d (hashWord pw)) (hashWord pw) pw.length = true then
      findEntry d (hashWord pw)
    else if hit d (findEntry d (hashWord (flipFirst pw))) (hashWord (flipFirst pw)) pw.length = true then
      findEntry d (hashWord (flipFirst pw)) else none) = cand at h
  cases cand with
  | none => simp only at h; cases h; rfl
  | some k =>
    simp only at h
    cases hp : (entryAt d k).ptr with
    | none => rw [hp] at h; cases h
    | some w =>
      rw [hp] at h
      simp only at h
      split at h <;> (cases h; rfl)

theorem learnL_guard_false (pw : List Nat) (w : Nat) (d : Dict) (c : Nat)
    (h : ¬ (pw.length ≥ 2 ∧ isDelimiter c = true ∧ pw.length ≤ MAX_WORD_LENGTH)) :
    learnL (some pw) w d c = .ok (d, w) := by
  unfold learnL
  simp only
  rw [if_neg (fun hc => h ⟨by omega, hc.2.1, hc.2.2⟩)]

/-- at a delimiter after a word that Forward did not find, Inverse learns exactly when Forward learns -/
theorem learnL_notfound (pw : List Nat) (w : Nat) (d : Dict) (c : Nat) (hd : DictOK d w)
    (hg : pw.length ≥ 2 ∧ isDelimiter c = true ∧ pw.length ≤ MAX_WORD_LENGTH) :
    learnL (some pw) w d c =
      if (pw.length > 3 ∨ (pw.length = 3 ∧ w < THRESHOLD2)) ∧ findEntry d (hashWord pw) = none then
        learn d w pw (hashWord pw)
      else .ok (d, w) := by
  unfold learnL
  simp only
  by_cases c3 : pw.length ≥ 3
  · rw [if_pos ⟨c3, hg.2.1, hg.2.2⟩]
    unfold invLearnW
    simp only
    cases hf : findEntry d (hashWord pw) with
    | none =>
      simp only [and_true]
      by_cases cc : pw.length > 3 ∨ w < THRESHOLD2
      · rw [if_pos (by simpa using cc), if_pos (by omega)]
      · rw [if_neg (by simpa using cc), if_neg (by omega)]
    | some k =>
      simp only
      have hno : ¬ ((pw.length > 3 ∨ pw.length = 3 ∧ w < THRESHOLD2) ∧ (some k : Option Nat) = none) := by simp
      rw [if_neg hno]
      by_cases ch : (entryAt d k).hash = hashWord pw ∧ (entryAt d k).len = pw.length
      · rw [if_pos ch]
        obtain ⟨v, hv, _, _, _⟩ := entry_ptr_of_map d w _ k _ hd hf ch.2 (by omega)
        rw [hv]
        simp only
        rw [if_neg (by simp)]
      · rw [if_neg ch]
        simp only
        rw [if_neg (by simp)]
  · rw [if_neg (by omega), if_neg (by omega)]

end Kanzi.Text
