//go:build race

package main

// built with -race: the race stream parses the detector reports of its child processes
const g5RaceEnabled = true
