/-
Line-protocol driver of the `rolzdec` stream (see harness/cmd/kv/rolzdec.go).  Core Lean only.

    rd <v> <lpc0> <bsv> <dstlen>[/<dstlen>..] <data>[/<data>..]
        <v>    x = ROLZX (rolzCodec2), r = ROLZ (rolzCodec1)
        <lpc0> n = codec built by name (NewROLZCodecWithCtx: logPosChecks 5 for ROLZX, 4 for ROLZ), or 2..8 =
               NewROLZCodec(<lpc0>) (ROLZ only, nil ctx)
        <bsv>  - = no bsVersion entry, else the ctx entry (by name only)
        one to three Inverse calls on ONE codec object, call k with a destination of <dstlen k> bytes of 0xAA
     -> per call, separated by " / ":   <class> m=<len(matches)> c=<len(counters)>
        class = ok <n> <bytes|#hash> | overrun | err:<class> | panic:index

The decoding is `rolzxInverse` / `rolzInverse` of slice rolz (every call is modelled as a call on a fresh object:
`counters` are cleared and `matches` is cleared per chunk by the Go code, `logPosChecks` is re-read from the
stream; only `len(matches)` persists, `rolz1MatchesAfter`).
-/
import Kanzi.Model.RolzDec
import Kanzi.Drv.ROLZ

namespace Kanzi.Drv
open Kanzi.ROLZ

/-- `lenOnly` (variant letter `R`, ROLZ on forged input): the decoded bytes are not compared — the ANS
    functions of the rolz slice read zeros where the real decoder object holds bytes of its previous Read
    (`C03_rolz_ans_stale_witness`); class, length and table sizes do not depend on them. -/
def rolzdecShow (dstLen : Nat) (r : Out (Nat × Array Nat)) (lenOnly : Bool := false) : String :=
  match r with
  | .ok (w, dst) =>
    if w > dstLen then "overrun"
    else if lenOnly then s!"ok {w} ~"
    else "ok " ++ rltOut (dst.extract 0 w).toList
  | .err e => "err:" ++ e
  | .fault _ => "panic:index"

def rolzdecCalls (x : Bool) (lpc0 : Nat) (hasBsv : Bool) (bsv : Nat) (lenOnly : Bool := false) :
    List (Nat × List Nat) → Nat → List String
  | [], _ => []
  | (d, b) :: rest, mLen =>
    let hdr := beN b.toArray 0 4
    if x then
      let r := rolzxInverse CHUNK_SIZE lpc0 (if hasBsv then bsv else 6) b (Array.replicate d 0xAA)
      s!"{rolzdecShow d r} m={HASH_SIZE * 2 ^ lpc0} c={HASH_SIZE}" :: rolzdecCalls x lpc0 hasBsv bsv lenOnly rest mLen
    else
      let r := rolzInverse CHUNK_SIZE lpc0 hasBsv bsv b (Array.replicate d 0xAA)
      let m' := rolz1MatchesAfter lpc0 b.length d hdr mLen
      s!"{rolzdecShow d r lenOnly} m={m'} c={HASH_SIZE}" :: rolzdecCalls x lpc0 hasBsv bsv lenOnly rest m'

def rolzdec (line : String) : String :=
  match (line.splitOn " ").filter (· ≠ "") with
  | ["rd", v, lp, bv, ds, hs] =>
    let x := v = "x"
    let lpc0? : Option Nat := if lp = "n" then some (if x then 5 else 4) else lp.toNat?
    let bsv? : Option Nat := if bv = "-" then some 6 else bv.toNat?
    match lpc0?, bsv?, (ds.splitOn "/").mapM String.toNat?, (hs.splitOn "/").mapM rolzData with
    | some lpc0, some bsv, some dl, some hl =>
      if dl.length ≠ hl.length ∨ (v ≠ "x" ∧ v ≠ "r" ∧ v ≠ "R") then "bad-op"
      else " / ".intercalate (rolzdecCalls x lpc0 (bv ≠ "-") bsv (v = "R") (dl.zip hl) 0)
    | _, _, _, _ => "bad-op"
  | _ => "bad-op"

end Kanzi.Drv
