/-
inverseBiPSIv2, part 8: the tables on the SPEC output of a block `s`.  The level-1 rows are the LF
mapping (`posOf_spec`), the BWT symbol of a row is the symbol in front of its suffix (`Lrow_spec`), the
entry scattered for the row holding suffix `q` carries the bigram at `q-2` and the row of `q`.
-/
import Kanzi.Proofs.BWTBi5
import Kanzi.Proofs.BWTMergeThm

namespace Kanzi.BWT

/-- row (in `SA'`) of suffix `q`, `q = n` (the empty suffix) included -/
def rowS (s : List Nat) (q : Nat) : Nat := if q = s.length then 0 else rowOf s q

/-- flat key of the bigram at position `j` -/
def big (s : List Nat) (j : Nat) : Nat := flat (s.getD j 0) (s.getD (j + 1) 0)

theorem rowOf_getElem (s : List Nat) (a : Nat) (h : a < (sa s).length) : rowOf s (sa s)[a] = a + 1 := by
  unfold rowOf
  rw [(sa_nodup s).idxOf_getElem a h]

theorem sa_rowOf (s : List Nat) (j : Nat) (hj : j < s.length) : (sa s).getD (rowOf s j - 1) 0 = j := by
  have hm : j ∈ sa s := mem_sa.2 hj
  have hidx : (sa s).idxOf j < (sa s).length := List.idxOf_lt_length_iff.2 hm
  unfold rowOf
  rw [Nat.add_sub_cancel, List.getD_eq_getElem?_getD, List.getElem?_eq_getElem hidx, List.getElem_idxOf]
  rfl

/-- positions of the elements of a bucket of a duplicate-free list sorted by key -/
theorem bucket_idxOf (L : List Nat) (key : Nat → Nat) (hs : L.Pairwise (fun a b => key a ≤ key b))
    (hn : L.Nodup) (c : Nat) :
    (bucket key L c).map (fun x => L.idxOf x) = List.range' (below key L c) (bucket key L c).length := by
  apply List.ext_getElem
  · simp
  · intro m h1 h2
    have hm : m < (bucket key L c).length := by simpa using h1
    rw [List.getElem_map, List.getElem_range']
    have e := sorted_getD_bucket key hs c m hm 0
    have hlen : below key L c + m < L.length := by
      have := below_bucket_le_length key L c; omega
    rw [List.getD_eq_getElem?_getD, List.getElem?_eq_getElem hlen, List.getD_eq_getElem?_getD,
      List.getElem?_eq_getElem hm] at e
    simp only [Option.getD_some] at e
    rw [← e, hn.idxOf_getElem _ hlen]
    omega

variable (s : List Nat)

/-- the source bytes as the `i`-th row of `rowsQ` sees them -/
theorem src_eq_prevSym (hs : 1 ≤ s.length) (i : Nat) (hi : i < s.length) :
    rd (bwtData s).toArray i = prevSym s ((rowsQ s).getD i 0) := by
  rw [rd_toArray, ← entries_keys, entries]
  have hl : i < (rowsQ s).length := by
    have := entries_length s hs
    simp only [entries, List.length_map] at this
    omega
  simp only [List.map_map, List.getD_eq_getElem?_getD, List.getElem?_map, List.getElem?_eq_getElem hl,
    Option.map_some, Option.getD_some, Function.comp, entryOf]

theorem rowsQ_length (hs : 1 ≤ s.length) : (rowsQ s).length = s.length := by
  have := entries_length s hs
  simpa [entries] using this

theorem rowsQ_getD_mem (hs : 1 ≤ s.length) (i : Nat) (hi : i < s.length) :
    1 ≤ (rowsQ s).getD i 0 ∧ (rowsQ s).getD i 0 ≤ s.length := by
  have hl : i < (rowsQ s).length := by rw [rowsQ_length s hs]; exact hi
  rw [List.getD_eq_getElem?_getD, List.getElem?_eq_getElem hl]
  exact (mem_rowsQ hs).1 (List.getElem_mem hl)

/-- filtering the index range by the source symbol = filtering the rows by the symbol in front -/
theorem filter_idx_rows (hs : 1 ≤ s.length) (c : Nat) :
    ((List.range s.length).filter (fun i => rd (bwtData s).toArray i = c)).map (fun i => (rowsQ s).getD i 0)
      = (rowsQ s).filter (fun q => prevSym s q = c) := by
  have h1 : (rowsQ s) = (List.range s.length).map (fun i => (rowsQ s).getD i 0) := by
    apply List.ext_getElem
    · simp [rowsQ_length s hs]
    · intro i h1 h2
      simp [List.getD_eq_getElem?_getD, h1]
  conv => rhs; rw [h1]
  rw [List.filter_map]
  congr 1
  apply List.filter_congr
  intro i hi
  have hi' := List.mem_range.1 hi
  simp only [Function.comp, src_eq_prevSym s hs i hi']

theorem fC_spec (hs : 1 ≤ s.length) (c : Nat) :
    fC (bwtData s).toArray c = 1 + below (skey s) (sa s) c := by
  unfold fC
  rw [below_map]
  simp only [List.toList_toArray]
  rw [← entries_keys]
  exact congrArg (1 + ·) ((entries_keys_perm s hs).filter _).length_eq

/-- LEVEL 1 IS LF: the row handed to source index `i` is the row of the suffix one position before
the suffix of row `i`. -/
theorem posOf_spec (hs : 1 ≤ s.length) (i : Nat) (hi : i < s.length) :
    posOf (bwtData s).toArray i = rowOf s ((rowsQ s).getD i 0 - 1) := by
  have hsize : (bwtData s).toArray.size = s.length := by simp [bwtData_length s hs]
  generalize hc : rd (bwtData s).toArray i = c
  -- both maps agree on the list of indexes holding symbol c
  have h1 := idxs_pos (bwtData s).toArray c s.length (by rw [hsize]; exact Nat.le_refl _)
  have h2 : ((List.range s.length).filter (fun i => rd (bwtData s).toArray i = c)).map
      (fun i => rowOf s ((rowsQ s).getD i 0 - 1))
      = List.range' (fC (bwtData s).toArray c) (seen (bwtData s).toArray s.length c) := by
    have e1 : ((List.range s.length).filter (fun i => rd (bwtData s).toArray i = c)).map
        (fun i => rowOf s ((rowsQ s).getD i 0 - 1))
        = ((bucket (skey s) (sa s) c).map (fun x => (sa s).idxOf x)).map (· + 1) := by
      rw [show bucket (skey s) (sa s) c = ((rowsQ s).filter (fun q => prevSym s q = c)).map (· - 1) from
        (lf_bucket s hs c).symm, ← filter_idx_rows s hs c]
      simp only [List.map_map]
      rfl
    rw [e1, bucket_idxOf (sa s) (skey s) (sa_sorted_key s) (sa_nodup s) c, fC_spec s hs c]
    have hlen : (bucket (skey s) (sa s) c).length = seen (bwtData s).toArray s.length c := by
      have := congrArg List.length h1
      rw [List.length_map, List.length_range'] at this
      rw [← this, ← ebucket_length s hs c]
      have e2 := congrArg List.length (filter_idx_rows s hs c)
      rw [List.length_map] at e2
      rw [e2]
      simp only [ebucket, bucket, entries, List.filter_map, List.length_map]
      rfl
    rw [hlen]
    apply List.ext_getElem
    · simp
    · intro m h3 h4
      simp only [List.getElem_map, List.getElem_range']
      omega
  have hmem : i ∈ (List.range s.length).filter (fun i => rd (bwtData s).toArray i = c) := by
    rw [List.mem_filter]; exact ⟨List.mem_range.2 hi, by simpa using hc⟩
  have := List.map_inj_left.1 (h1.trans h2.symm) i hmem
  exact this

/-- the BWT symbol of a row is the symbol in front of the suffix of that row -/
theorem Lrow_spec (hs : 1 ≤ s.length) (r : Nat) (h1 : 1 ≤ r) (h2 : r ≤ s.length) (hne : r ≠ zpos s + 1) :
    Lrow (bwtData s).toArray (zpos s + 1) r = prevSym s ((sa s).getD (r - 1) 0) := by
  have hz := zpos_lt s hs
  have hA : ((sa s).take (zpos s)).length = zpos s := by rw [List.length_take, sa_length]; omega
  unfold Lrow
  rw [rd_toArray, rd_toArray, bwtData_split s hs]
  by_cases hlt : r < zpos s + 1
  · rw [if_pos hlt]
    obtain ⟨r', rfl⟩ : ∃ r', r = r' + 1 := ⟨r - 1, by omega⟩
    rw [List.getD_cons_succ, Nat.add_sub_cancel, List.getD_eq_getElem?_getD,
      List.getElem?_append_left (by rw [List.length_map, hA]; omega), List.getElem?_map, List.getElem?_take_of_lt (by omega)]
    rw [List.getD_eq_getElem?_getD]
    cases h : (sa s)[r']? <;> simp
    · have : r' < (sa s).length := by rw [sa_length]; omega
      rw [List.getElem?_eq_getElem this] at h; cases h
  · rw [if_neg hlt]
    obtain ⟨r', rfl⟩ : ∃ r', r = r' + 2 := ⟨r - 2, by omega⟩
    have e : r' + 2 - 1 = r' + 1 := by omega
    rw [e, List.getD_cons_succ, List.getD_eq_getElem?_getD,
      List.getElem?_append_right (by rw [List.length_map, hA]; omega), List.length_map, hA, List.getElem?_map,
      List.getElem?_drop]
    have e2 : zpos s + 1 + (r' - zpos s) = r' + 1 := by omega
    rw [e2, List.getD_eq_getElem?_getD]
    have hl : r' + 1 < (sa s).length := by rw [sa_length]; omega
    rw [List.getElem?_eq_getElem hl]
    simp

/-- the row written for source index `i` is the row of the suffix of row `i` -/
theorem rowOfIdx_spec (hs : 1 ≤ s.length) (i : Nat) (hi : i < s.length) :
    rowOfIdx (zpos s + 1) i = rowS s ((rowsQ s).getD i 0) := by
  have hz := zpos_lt s hs
  have hA : ((sa s).take (zpos s)).length = zpos s := by rw [List.length_take, sa_length]; omega
  rw [rowsQ_split s hs]
  unfold rowOfIdx rowS
  cases i with
  | zero => simp
  | succ i =>
    rw [List.getD_cons_succ]
    by_cases hlt : i + 1 < zpos s + 1
    · rw [if_pos hlt, List.getD_eq_getElem?_getD, List.getElem?_append_left (by rw [hA]; omega),
        List.getElem?_take_of_lt (by omega)]
      have hl : i < (sa s).length := by rw [sa_length]; omega
      rw [List.getElem?_eq_getElem hl]
      simp only [Option.getD_some]
      have hm : (sa s)[i] < s.length := mem_sa.1 (List.getElem_mem hl)
      rw [if_neg (by omega), rowOf_getElem s i hl]
    · rw [if_neg hlt, List.getD_eq_getElem?_getD, List.getElem?_append_right (by rw [hA]; omega), hA,
        List.getElem?_drop]
      have e : zpos s + 1 + (i - zpos s) = i + 1 := by omega
      have hl : i + 1 < (sa s).length := by rw [sa_length]; omega
      rw [e, List.getElem?_eq_getElem hl]
      simp only [Option.getD_some]
      have hm : (sa s)[i + 1] < s.length := mem_sa.1 (List.getElem_mem hl)
      rw [if_neg (by omega), rowOf_getElem s (i + 1) hl]

end Kanzi.BWT
