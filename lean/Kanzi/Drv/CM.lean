/-
Line-protocol driver of the `cmpred` correspondence stream (see harness/cmd/kv/cmpred.go).
Core Lean only.

    cm <vspec> <kind> <nbits> <hex>

`<vspec>`  how `NewCMPredictor` is called: `nil` (nil context), `nokey` (map without "bsVersion"),
           `u<N>` (ctx["bsVersion"] = uint(N)), `i<N>` / `s<N>` (an int / a string: wrong dynamic type).
`<kind>`   `d`  bit i = data bit i
           `l`  bit i = (the LESS likely bit according to the Get() just returned) xor data bit i
           `m`  bit i = (the MORE likely bit) xor data bit i        (likely bit = 1 iff Get() >= 2048)
`<hex>`    data bytes, bits MSB first, `-` = empty; data bits beyond the end are 0.
For i in 0..nbits-1:  p_i = Get(); Update(bit_i).

    -> ok n=<nbits> ones=<number of 1 bits fed> h=<FNV-1a style hash of p_0..p_{n-1}> min=<> max=<> first=<p_0,..,p_7> last=<last 8>
     | err type                 (NewCMPredictor returned its error)
     | fault get <i> | fault update <i>     (index out of range at step i; never observed)
-/
import Kanzi.Model.CM

namespace Kanzi.Drv
open Kanzi.CM

namespace CMDrv

def hexVal (c : Char) : Option Nat :=
  if '0' ≤ c ∧ c ≤ '9' then some (c.toNat - '0'.toNat)
  else if 'a' ≤ c ∧ c ≤ 'f' then some (c.toNat - 'a'.toNat + 10)
  else if 'A' ≤ c ∧ c ≤ 'F' then some (c.toNat - 'A'.toNat + 10)
  else none

def unhexGo : List Char → Array Nat → Option (Array Nat)
  | [], acc => some acc
  | [_], _ => none
  | a :: b :: rest, acc =>
    match hexVal a, hexVal b with
    | some x, some y => unhexGo rest (acc.push (16 * x + y))
    | _, _ => none

def unhex (s : String) : Option (Array Nat) :=
  if s = "-" then some #[] else unhexGo s.toList #[]

def dataBit (d : Array Nat) (i : Nat) : Bool :=
  ((d.getD (i / 8) 0) >>> (7 - i % 8)) % 2 = 1

def parseV (s : String) : Option BsArg :=
  if s = "nil" ∨ s = "nokey" then some .absent
  else match s.toList with
    | 'u' :: r => (String.ofList r).toNat?.map BsArg.uint
    | 'i' :: _ => some .otherType
    | 's' :: _ => some .otherType
    | _ => none

def hashStep (h : UInt64) (v : Int) : UInt64 :=
  (h ^^^ UInt64.ofNat ((v + 1) % 18446744073709551616).toNat) * 1099511628211

inductive Out where
  | ok (s : CM) (gets : Array Int) (ones : Nat)
  | faultGet (i : Nat)
  | faultUpdate (i : Nat)

/-- `fuel` steps starting at step `i` -/
def run (kind : Char) (d : Array Nat) : Nat → Nat → CM → Array Int → Nat → Out
  | 0, _, s, gets, ones => .ok s gets ones
  | fuel + 1, i, s, gets, ones =>
    match cmGetF s with
    | none => .faultGet i
    | some (p, s1) =>
      let likely := decide (p ≥ 2048)
      let b := dataBit d i
      let bit := if kind = 'l' then (!likely) != b else if kind = 'm' then likely != b else b
      match cmUpdateF s1 bit with
      | none => .faultUpdate i
      | some s2 => run kind d fuel (i + 1) s2 (gets.push p) (if bit then ones + 1 else ones)

def joinInts (l : List Int) : String := ",".intercalate (l.map toString)

end CMDrv

open CMDrv in
def cmpred (line : String) : String :=
  match (line.splitOn " ").filter (· ≠ "") with
  | ["cm", v, k, n, hx] =>
    match parseV v, k.toList, n.toNat?, unhex hx with
    | some arg, [kind], some n, some d =>
      if kind ≠ 'd' ∧ kind ≠ 'l' ∧ kind ≠ 'm' then "bad-op" else
      match cmNew arg with
      | none => "err type"
      | some s0 =>
        match run kind d n 0 s0 (Array.mkEmpty n) 0 with
        | .faultGet i => s!"fault get {i}"
        | .faultUpdate i => s!"fault update {i}"
        | .ok _ gets ones =>
          let h := gets.foldl hashStep 14695981039346656037
          let mn := gets.foldl (fun a x => if x < a then x else a) (gets.getD 0 0)
          let mx := gets.foldl (fun a x => if x > a then x else a) (gets.getD 0 0)
          let first := (gets.extract 0 8).toList
          let last := (gets.extract (gets.size - 8) gets.size).toList
          s!"ok n={n} ones={ones} h={h.toNat} min={mn} max={mx} first={joinInts first} last={joinInts last}"
    | _, _, _, _ => "bad-op"
  | _ => "bad-op"

end Kanzi.Drv
