/-
Proofs for the generic binary arithmetic coder, part 2: the decoder model, fed the code string
of the pure coder, follows it (`Kanzi/Proofs/BinEnt.lean` has the pure coder and the encoder).
-/
import Kanzi.Proofs.BinEnt

namespace Kanzi.BinEnt
open Kanzi.Bits Kanzi.EntSmall

/-! ## 5. the decoder follows the pure coder -/

/-- decoder registers = pure state -/
def DRel (d : Dec σ) (s : σ) (l h : Nat) : Prop := d.ps = s ∧ d.low = l ∧ d.high = h

/-- the decoder's view: `current` then the unread payload bytes spell the code string `O`;
    the bytes `J` behind it (stale buffer content) are never needed -/
def View (d : Dec σ) (O : Bits) (J : List Nat) : Prop :=
  ∃ X, d.rem = X ++ J ∧ (∀ x ∈ X, x < 256) ∧ d.current < 2 ^ 56 ∧ natBits d.current 56 ++ ofBytes X = O

theorem view_cur (d : Dec σ) (O : Bits) (J : List Nat) (hv : View d O J) :
    d.current = bitsNat (O.take 56) := by
  obtain ⟨X, _, _, hc, hO⟩ := hv
  rw [← hO]
  have := take_append_len_add (natBits d.current 56) (ofBytes X) 56 0 (natBits_length _ _)
  rw [Nat.add_zero, List.take_zero, List.append_nil] at this
  rw [this, bitsNat_natBits, Nat.mod_eq_of_lt hc]

theorem dec_split (P : Pred σ) (d : Dec σ) (s : σ) (l h : Nat) (hr : DRel d s l h) (hi : Inv l h)
    (hp : OkP P.shift (P.get s)) : d.split P = psplit P.shift l h (P.get s) + l := by
  obtain ⟨h0, h1, h2⟩ := hr
  have hlt : l < h := by have := hi.lt; omega
  have hh := hi.hi
  have hb := psplit_bound P.shift l h (P.get s) hh hp
  have hsl := psplit_lt P.shift l h (P.get s) hlt hp
  unfold Dec.split
  rw [h0, h1, h2]
  have e1 : (h + 2 ^ 64 - l) % 2 ^ 64 = h - l := by omega
  rw [e1, Nat.shiftRight_eq_div_pow, Nat.shiftRight_eq_div_pow, Nat.mod_eq_of_lt hb]
  show (psplit P.shift l h (P.get s) + l) % 2 ^ 64 = _
  omega

/-- the decision and interval update of `DecodeBit` when `current` is inside the sub-interval
    of the coded bit -/
theorem dec_bit_step (P : Pred σ) (d : Dec σ) (s : σ) (l h : Nat) (b : Bool) (hr : DRel d s l h)
    (hi : Inv l h) (hp : OkP P.shift (P.get s))
    (hc : pl1 P.shift l h (P.get s) b ≤ d.current ∧ d.current ≤ ph1 P.shift l h (P.get s) b) :
    d.bit P = b ∧ DRel (d.step P) (P.update s b) (pl1 P.shift l h (P.get s) b) (ph1 P.shift l h (P.get s) b) ∧
    (d.step P).current = d.current ∧ (d.step P).rem = d.rem ∧ (d.step P).buffer = d.buffer := by
  have hs := dec_split P d s l h hr hi hp
  have hlt : l < h := by have := hi.lt; omega
  have hh := hi.hi
  have hsl := psplit_lt P.shift l h (P.get s) hlt hp
  have hbit : d.bit P = b := by
    unfold Dec.bit
    rw [hs]
    cases b
    · simp only [pl1, Bool.false_eq_true, if_false] at hc
      simp only [decide_eq_false_iff_not]
      omega
    · simp only [ph1, if_true] at hc
      simp only [decide_eq_true_eq]
      omega
  obtain ⟨h0, h1, h2⟩ := hr
  refine ⟨hbit, ⟨?_, ?_, ?_⟩, rfl, rfl, rfl⟩
  · show P.update d.ps (d.bit P) = _
    rw [hbit, h0]
  · show (if d.bit P then d.low else (d.split P + 1) % 2 ^ 64) = _
    rw [hbit, hs, h1]
    unfold pl1
    cases b
    · simp only [Bool.false_eq_true, if_false]; omega
    · simp only [if_true]
  · show (if d.bit P then d.split P else d.high) = _
    rw [hbit, hs, h2]
    unfold ph1
    cases b
    · simp only [Bool.false_eq_true, if_false]
    · simp only [if_true]; omega

/-- Go `read` with at least 4 payload bytes left -/
theorem dec_read (d : Dec σ) (b0 b1 b2 b3 : Nat) (t : List Nat) (hrem : d.rem = b0 :: b1 :: b2 :: b3 :: t)
    (hb : b0 < 256 ∧ b1 < 256 ∧ b2 < 256 ∧ b3 < 256) (_hl : d.low < 2 ^ 56) (_hh : d.high < 2 ^ 56)
    (_hc : d.current < 2 ^ 56) :
    ∃ d', d.read = .ok d' ∧ d'.ps = d.ps ∧ d'.low = (d.low % 2 ^ 24) * 2 ^ 32 ∧
      d'.high = (d.high % 2 ^ 24) * 2 ^ 32 + (2 ^ 32 - 1) ∧
      d'.current = (d.current % 2 ^ 24) * 2 ^ 32 + (b0 * 2 ^ 24 + b1 * 2 ^ 16 + b2 * 2 ^ 8 + b3) ∧
      d'.rem = t ∧ d'.buffer = d.buffer := by
  unfold Dec.read
  rw [hrem]
  refine ⟨_, rfl, rfl, ?_, ?_, ?_, rfl, rfl⟩
  · show (d.low <<< 32) &&& MASK_0_56 = _
    rw [and_mask56, Nat.shiftLeft_eq]; omega
  · show ((d.high <<< 32) ||| MASK_0_32) &&& MASK_0_56 = _
    rw [and_mask56, show MASK_0_32 = 2 ^ 32 - 1 from rfl, shl_or _ _ _ (by omega)]; omega
  · show ((d.current <<< 32) ||| (b0 * 2 ^ 24 + b1 * 2 ^ 16 + b2 * 2 ^ 8 + b3)) &&& MASK_0_56 = _
    rw [and_mask56, shl_or _ _ _ (by omega)]; omega

theorem acc_shift (acc t X y : Nat) : (2 * acc + t) * X + y = acc * (X * 2) + (t * X + y) := by
  rw [Nat.add_mul, Nat.mul_comm 2 acc, Nat.mul_assoc, Nat.mul_comm 2 X, Nat.add_assoc]

/-- **decoder correctness at bit level.**  A decoder whose registers equal the pure state and
    whose view is the code string of `bits ++ more` decodes exactly `bits`, ends with registers
    equal to the pure state after `bits` and with the view of the code string of `more`. -/
theorem dec_bits (P : Pred σ) {R : σ → Prop} (hP : P.Safe R) (bits : List Bool) :
    ∀ (more : List Bool) (s : σ) (l h : Nat) (d : Dec σ) (J : List Nat) (acc : Nat),
    R s → Inv l h → DRel d s l h → View d (pOut P s l h (bits ++ more)) J →
    ∃ d', d.decodeBitsAcc P bits.length acc = .ok (acc * 2 ^ bits.length + bitsNat bits, d') ∧
      DRel d' (pFin P s l h bits).1 (pFin P s l h bits).2.1 (pFin P s l h bits).2.2 ∧
      View d' (pOut P (pFin P s l h bits).1 (pFin P s l h bits).2.1 (pFin P s l h bits).2.2 more) J ∧
      d'.buffer = d.buffer := by
  induction bits with
  | nil =>
    intro more s l h d J acc _ _ hr hv
    refine ⟨d, ?_, hr, hv, rfl⟩
    simp [Dec.decodeBitsAcc, bitsNat_nil]
  | cons b bs ih =>
    intro more s l h d J acc hs hi hr hv
    have hp := hP.range s hs
    obtain ⟨f1, f2, f3, f4⟩ := step_facts P.shift l h (P.get s) b hi hp
    have hh := hi.hi
    have hcur : d.current = win P s l h (b :: (bs ++ more)) := view_cur d _ J hv
    have hrange := win_cons_range P hP s l h b (bs ++ more) hs hi
    rw [← hcur] at hrange
    obtain ⟨hbit, hr1, hc1, hrem1, hbuf1⟩ := dec_bit_step P d s l h b hr hi hp hrange
    have ht : (((d.step P).low ^^^ (d.step P).high) < 2 ^ 24)
        ↔ pl1 P.shift l h (P.get s) b / 2 ^ 24 = ph1 P.shift l h (P.get s) b / 2 ^ 24 := by
      rw [xor_lt_iff, hr1.2.1, hr1.2.2]
    simp only [List.length_cons, Dec.decodeBitsAcc, Dec.decodeBit, pFin]
    cases hf : pflush P.shift l h (P.get s) b
    · -- no flush
      have hne : ¬ pl1 P.shift l h (P.get s) b / 2 ^ 24 = ph1 P.shift l h (P.get s) b / 2 ^ 24 := by
        simpa [pflush] using hf
      rw [if_neg (fun hc => hne (ht.mp hc))]
      have e2 : pl2 P.shift l h (P.get s) b = pl1 P.shift l h (P.get s) b := by simp [pl2, hf]
      have e3 : ph2 P.shift l h (P.get s) b = ph1 P.shift l h (P.get s) b := by simp [ph2, hf]
      have hv1 : View (d.step P) (pOut P (P.update s b) (pl2 P.shift l h (P.get s) b) (ph2 P.shift l h (P.get s) b) (bs ++ more)) J := by
        rw [← pOut_cons_noflush P s l h b (bs ++ more) hf]
        obtain ⟨X, hX1, hX2, hX3, hX4⟩ := hv
        exact ⟨X, by rw [hrem1]; exact hX1, hX2, by rw [hc1]; exact hX3, by rw [hc1]; exact hX4⟩
      have hr1' : DRel (d.step P) (P.update s b) (pl2 P.shift l h (P.get s) b) (ph2 P.shift l h (P.get s) b) := by
        rw [e2, e3]; exact hr1
      obtain ⟨d', hd', hr', hv', hb'⟩ := ih more _ _ _ (d.step P) J (2 * acc + (d.bit P).toNat)
        (hP.step s b hs) f4 hr1' hv1
      refine ⟨d', ?_, hr', hv', by rw [hb', hbuf1]⟩
      show Dec.decodeBitsAcc P bs.length (d.step P) (2 * acc + (d.bit P).toNat) = _
      rw [hd', hbit, bitsNat_cons, Nat.pow_succ, acc_shift]
    · -- flush: 32 more bits are read
      have heq : pl1 P.shift l h (P.get s) b / 2 ^ 24 = ph1 P.shift l h (P.get s) b / 2 ^ 24 := by
        simpa [pflush] using hf
      rw [if_pos (ht.mpr heq)]
      have e2 : pl2 P.shift l h (P.get s) b = (pl1 P.shift l h (P.get s) b % 2 ^ 24) * 2 ^ 32 := by simp [pl2, hf]
      have e3 : ph2 P.shift l h (P.get s) b = (ph1 P.shift l h (P.get s) b % 2 ^ 24) * 2 ^ 32 + (2 ^ 32 - 1) := by
        simp [ph2, hf]
      obtain ⟨X, hX1, hX2, hX3, hX4⟩ := hv
      rw [List.cons_append, pOut_cons_flush P s l h b (bs ++ more) hh f3 hf] at hX4
      have hlenO := pOut_length P (P.update s b) (pl2 P.shift l h (P.get s) b) (ph2 P.shift l h (P.get s) b) (bs ++ more)
      have hlenX : 4 ≤ X.length := by
        have := congrArg List.length hX4
        rw [List.length_append, List.length_append, natBits_length, natBits_length, ofBytes_length, hlenO] at this
        omega
      match X, hX1, hX2, hX4, hlenX with
      | b0 :: b1 :: b2 :: b3 :: X', hX1, hX2, hX4, _ =>
        have hb0 : b0 < 256 := hX2 b0 (by simp)
        have hb1 : b1 < 256 := hX2 b1 (by simp)
        have hb2 : b2 < 256 := hX2 b2 (by simp)
        have hb3 : b3 < 256 := hX2 b3 (by simp)
        have hrem : (d.step P).rem = b0 :: b1 :: b2 :: b3 :: (X' ++ J) := by rw [hrem1, hX1]; rfl
        obtain ⟨d2, hd2, hps2, hl2, hh2, hc2, hrem2, hbuf2⟩ := dec_read (d.step P) b0 b1 b2 b3 (X' ++ J) hrem
          ⟨hb0, hb1, hb2, hb3⟩ (by rw [hr1.2.1]; omega) (by rw [hr1.2.2]; omega) (by rw [hc1]; exact hX3)
        rw [hd2]
        have hr2 : DRel d2 (P.update s b) (pl2 P.shift l h (P.get s) b) (ph2 P.shift l h (P.get s) b) := by
          refine ⟨by rw [hps2]; exact hr1.1, ?_, ?_⟩
          · rw [hl2, hr1.2.1, e2]
          · rw [hh2, hr1.2.2, e3]
        have hv2 : View d2 (pOut P (P.update s b) (pl2 P.shift l h (P.get s) b) (ph2 P.shift l h (P.get s) b) (bs ++ more)) J := by
          refine ⟨X', hrem2, fun x hx => hX2 x (by simp [hx]), ?_, ?_⟩
          · rw [hc2]; omega
          · -- split the old `current` and the 4 bytes
            have hcs : d.current = (d.current / 2 ^ 24) * 2 ^ 24 + d.current % 2 ^ 24 := by omega
            have hs1 : natBits d.current 56 = natBits (d.current / 2 ^ 24) 32 ++ natBits (d.current % 2 ^ 24) 24 := by
              have := natBits_split (d.current / 2 ^ 24) (d.current % 2 ^ 24) 32 24 (Nat.mod_lt _ (by decide))
              rw [← hcs] at this
              exact this
            have hs2 : ofBytes (b0 :: b1 :: b2 :: b3 :: X')
                = natBits (b0 * 2 ^ 24 + b1 * 2 ^ 16 + b2 * 2 ^ 8 + b3) 32 ++ ofBytes X' := by
              rw [show b0 :: b1 :: b2 :: b3 :: X' = [b0, b1, b2, b3] ++ X' from rfl, ofBytes_append,
                ofBytes_four b0 b1 b2 b3 hb0 hb1 hb2 hb3]
            rw [hs1, hs2, List.append_assoc] at hX4
            have hinj := List.append_inj hX4 (by rw [natBits_length, natBits_length])
            rw [hc2, hc1]
            have := natBits_split (d.current % 2 ^ 24) (b0 * 2 ^ 24 + b1 * 2 ^ 16 + b2 * 2 ^ 8 + b3) 24 32
              (by omega)
            rw [show (24 : Nat) + 32 = 56 from rfl] at this
            rw [this, List.append_assoc]
            exact hinj.2
        obtain ⟨d', hd', hr', hv', hb'⟩ := ih more _ _ _ d2 J (2 * acc + (d.bit P).toNat)
          (hP.step s b hs) f4 hr2 hv2
        refine ⟨d', ?_, hr', hv', by rw [hb', hbuf2, hbuf1]⟩
        show Dec.decodeBitsAcc P bs.length d2 (2 * acc + (d.bit P).toNat) = _
        rw [hd', hbit, bitsNat_cons, Nat.pow_succ, acc_shift]

end Kanzi.BinEnt
