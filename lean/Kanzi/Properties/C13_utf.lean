/-
C13 for the UTF-8 aliasing codec `transform.UTFCodec` — property theorems only; proofs in
`Kanzi/Proofs/UTFBytes.lean`, `UTFPack.lean`, `UTFTok.lean`, `UTFCount.lean`, `UTFMap.lean`, `UTFEmit.lean`,
`UTFFwd.lean`, `UTFInv.lean`, `UTFRound.lean`, `UTF.lean`.  The model (`Kanzi/Model/UTF.lean`) mirrors
v2/transform/UTFCodec.go as repaired by /repo commit c2cdc0f (Forward, validateUTF, packUTF, unpackUTF0,
unpackUTF1, Inverse, MaxEncodedLen, the data type and bitstream version entries of the ctx) and is tied
to /repo by the `utf` correspondence stream.

Conventions: a block is a `List Nat` of byte values (hypothesis `∀ x ∈ b, x < 256`); the last argument
of `utfForward` / `utfInverse` is `len(dst)` of the Go call; `.ok t` is `dst[0:written]` with a nil error,
`.err c` a non-nil error (Forward declines / Inverse fails), `.fault` a Go run-time panic (index out of
range) or exhausted model fuel.  `dt` is the `dataType` entry Forward reads from its ctx (`0` = none);
`v3` says that Inverse runs with a `bsVersion` entry below 4.  The theorems hold for all of them.
"Input left untouched on decline" is not a theorem here (values are immutable); it is an oracle of the
stream on the real code.

The ranking of the symbols by frequency (a stable sort in Go, `List.mergeSort` in the model) enters the
proofs through one fact only: the ranked list is a permutation of the distinct packed values
(`ranked_keys_perm`).  Any other injective assignment of ranks would round-trip as well.
-/
import Kanzi.Generated.Consts
import Kanzi.Model.UTF
import Kanzi.Proofs.UTF

namespace Kanzi.C13
open Kanzi.RLT Kanzi.UTF

/-- C13_utf_pack: `packUTF` / `unpackUTF1` on ANY four bytes `b0 b1 b2 b3` (the bytes at and after a
position of the block).
(1) the size returned by `packUTF` is the table entry of the lead byte, at most 4, and the packed value
    indexes the 2^22-entry `aliasMap`;
(2) on every sequence the counting loop of Forward accepts (`seqValid`: lead byte of size 1..4, i.e.
    00..7F, C2..DF, E0..EF, F0..F4, and continuation bytes 80..BF in positions 2..size of a 3 or 4 byte
    sequence), `unpackUTF1 ∘ packUTF` gives back exactly the bytes consumed;
(3) on any other input: a lead byte of size 0 packs to `(0, 0)` (Forward declines); for sizes 3 and 4 only
    the six low bits of the bytes 2..size are kept, so they come back forced into 80..BF - this is why
    the acceptance test of (2) has to check them (defects B, C of the slice report, repaired in c2cdc0f). -/
theorem C13_utf_pack (b0 b1 b2 b3 : Nat) (h0 : b0 < 256) (h1 : b1 < 256) :
    ((packVal b0 b1 b2 b3).1 = utfSize b0 ∧ utfSize b0 ≤ 4 ∧ (packVal b0 b1 b2 b3).2 < 2 ^ 22) ∧
    (seqValid b0 b1 b2 b3 →
      unpack1 (packVal b0 b1 b2 b3).2 = [b0, b1, b2, b3].take (packVal b0 b1 b2 b3).1 ∧ 0 < (packVal b0 b1 b2 b3).1) ∧
    (unpack1 (packVal b0 b1 b2 b3).2 =
      (if utfSize b0 = 0 then [0]
       else if utfSize b0 = 1 then [b0]
       else if utfSize b0 = 2 then [b0, b1]
       else if utfSize b0 = 3 then [b0, 0x80 + b1 % 64, 0x80 + b2 % 64]
       else [b0, 0x80 + b1 % 64, 0x80 + b2 % 64, 0x80 + b3 % 64])) ∧
    (utfSize b0 = 0 → packVal b0 b1 b2 b3 = (0, 0)) :=
  ⟨⟨packVal_fst b0 b1 b2 b3, utfSize_le b0, packVal_lt b0 b1 b2 b3 h1⟩,
   fun hv => ⟨unpack1_packVal_valid b0 b1 b2 b3 h0 h1 hv, by rw [packVal_fst]; exact Nat.pos_of_ne_zero hv.1⟩,
   unpack1_packVal b0 b1 b2 b3 h0 h1,
   packVal_0 b0 b1 b2 b3⟩

/-- the size table in closed form: 1 for 00..7F, 2 for C2..DF, 3 for E0..EF, 4 for F0..F4, else 0 -/
theorem C13_utf_sizes (b : Nat) (h : b < 256) : utfSize b =
    (if b < 0x80 then 1 else if b < 0xC2 then 0 else if b < 0xE0 then 2
     else if b < 0xF0 then 3 else if b < 0xF5 then 4 else 0) := utfSize_eq b h

/-- C13_utf: for every block of bytes, every data type hint, and every destination at least as large as
advertised by `MaxEncodedLen`: if Forward succeeds, its output is at most `MaxEncodedLen(len)` bytes long
(in fact shorter than the block), and Inverse into ANY destination of at least the original block length
restores the block exactly.  Holds whatever permutation the ranking produces. -/
theorem C13_utf (dt : Nat) (b t : List Nat) (dstLen : Nat)
    (hb : ∀ x ∈ b, x < 256) (hdst : utfMaxEncodedLen b.length ≤ dstLen)
    (h : utfForward dt b dstLen = .ok t) :
    t.length ≤ utfMaxEncodedLen b.length ∧ ∀ n, b.length ≤ n → utfInverse false t n = .ok b :=
  ⟨(utf_roundtrip dt b t dstLen hb hdst h).1, (utf_roundtrip dt b t dstLen hb hdst h).2.2.2.1⟩

/-- a successful Forward really compresses: the output is strictly shorter than the (non-empty) block;
and it only happens for blocks of at least 1024 bytes with no or a UTF-8 data type hint -/
theorem C13_utf_shorter (dt : Nat) (b t : List Nat) (dstLen : Nat)
    (hb : ∀ x ∈ b, x < 256) (hdst : utfMaxEncodedLen b.length ≤ dstLen) (hne : b ≠ [])
    (h : utfForward dt b dstLen = .ok t) :
    t.length < b.length ∧ MIN_BLOCKSIZE ≤ b.length ∧ (dt = DT_UNDEFINED ∨ dt = DT_UTF8) := by
  refine ⟨(utf_roundtrip dt b t dstLen hb hdst h).2.1 hne, ?_⟩
  rcases utfForward_ok_len dt b t dstLen h with (h0 | h0) | h0
  · exact absurd h0 hne
  · unfold utfMaxEncodedLen at hdst; omega
  · exact h0

/-- C13_utf_total: no direction ever indexes out of range on what the compressor can hand it (the model
marks every slice access of the Go code that would panic, and exhausted loop fuel, as `.fault`):
(1) Forward on ANY block of bytes into any destination of at least `MaxEncodedLen(len)` bytes, with any
    hint - in particular blocks with very many distinct code points, whose symbol map is larger than the
    8192-byte margin (the defect repaired in 5b55042), and blocks with more than 32767 distinct code points;
(2) Inverse on an output of Forward, into a destination of ANY size, with either bitstream version;
(3) Inverse on ARBITRARY bytes (forged, truncated), any destination size, either version: a block or a
    clean error, except under the EXACT condition `invFaultPre`: header and symbol map pass all checks,
    the destination has room for head and tail, and the `start` head bytes overlap the tail bytes
    (`invOverlap`: `4 + 3n + start > len - 4 + adjust`); then the final copy loop reads past the end of the
    input (`.fault "src-index"`).  See the `example`s below: such inputs do make the real Inverse panic
    (index out of range); reported as an observation, no Forward output has such a header (2). -/
theorem C13_utf_total :
    (∀ (dt : Nat) (b : List Nat) (dstLen : Nat) (e : String), (∀ x ∈ b, x < 256) →
      utfMaxEncodedLen b.length ≤ dstLen → utfForward dt b dstLen ≠ .fault e) ∧
    (∀ (dt : Nat) (b t : List Nat) (dstLen : Nat), (∀ x ∈ b, x < 256) → utfMaxEncodedLen b.length ≤ dstLen →
      utfForward dt b dstLen = .ok t → ∀ (v3 : Bool) (n : Nat) (e : String), utfInverse v3 t n ≠ .fault e) ∧
    (∀ (v3 : Bool) (src : List Nat) (n : Nat) (e : String), (∀ x ∈ src, x < 256) →
      (utfInverse v3 src n = .fault e ↔ (e = "src-index" ∧ invFaultPre v3 src n))) :=
  ⟨fun dt b dstLen e hb hdst => utfForward_ne_fault dt b dstLen hb hdst e,
   fun dt b t dstLen hb hdst h => (utf_roundtrip dt b t dstLen hb hdst h).2.2.2.2,
   fun v3 src n e hb => utfInverse_fault_iff v3 src n e hb⟩

/-- the fault condition of Inverse implies the overlap of head and tail bytes in the header -/
theorem C13_utf_fault_overlap (v3 : Bool) (src : List Nat) (n : Nat) (h : invFaultPre v3 src n) : invOverlap src :=
  h.2.2.2.2.2.2.2.2.2

/-- C13_utf_bytes: the encoded block consists of byte values -/
theorem C13_utf_bytes (dt : Nat) (b t : List Nat) (dstLen : Nat)
    (hb : ∀ x ∈ b, x < 256) (hdst : utfMaxEncodedLen b.length ≤ dstLen)
    (h : utfForward dt b dstLen = .ok t) : ∀ y ∈ t, y < 256 :=
  (utf_roundtrip dt b t dstLen hb hdst h).2.2.1

/-- C13_utf_consts: the named constants of the model are those of /repo (`Kanzi/Generated/Consts.lean` is
regenerated from the Go source on every run).  The other constants of UTFCodec.go are literals there
(8192, 32768, 1<<22, the masks and shifts) and are covered by the correspondence stream. -/
theorem C13_utf_consts :
    Kanzi.Generated.Consts.transform._UTF_MIN_BLOCKSIZE = Kanzi.UTF.MIN_BLOCKSIZE ∧
    Kanzi.Generated.Consts.internal.DT_UTF8 = Kanzi.RLT.DT_UTF8 ∧
    Kanzi.Generated.Consts.internal.DT_UNDEFINED = Kanzi.RLT.DT_UNDEFINED ∧
    Kanzi.UTF.ALIAS_MAP_SIZE = 2 ^ 22 ∧ Kanzi.UTF.MAX_SYMBOLS = 2 ^ 15 ∧
    Kanzi.UTF.sizesArr.size = 256 :=
  ⟨by decide, by decide, by decide, by decide, by decide, sizesArr_size⟩

/-- the hypotheses of `C13_utf` are satisfiable (any byte block with the advertised destination) -/
example : (∀ x ∈ List.replicate 2000 0xD0, x < 256) ∧ utfMaxEncodedLen 2000 ≤ 10192 := by
  constructor
  · intro x hx; rw [(List.mem_replicate.mp hx).2]; decide
  · decide

/-- observation (C13_utf_total (3)): forged headers whose head bytes overlap the tail make Inverse read
past the end of its input; the real code panics on the same inputs (corpus/C13/utf.ops) -/
example : utfInverse false [3, 1, 0, 1, 8, 0xD0, 0xB0, 0, 0, 0] 40 = .fault "src-index" := by decide
example : invOverlap [3, 1, 0, 1, 8, 0xD0, 0xB0, 0, 0, 0] := by decide
example : utfInverse true [2, 0, 0, 1, 0, 0, 0x41, 0, 0, 0, 0] 8 = .fault "src-index" := by decide
/-- the same header with room for the head bytes decodes (one 2-byte symbol, no alias, four tail bytes) -/
example : utfInverse false [0, 0, 0, 1, 8, 0xD0, 0xB0, 0, 0x41, 0x42, 0x43, 0x44] 40 =
    .ok [0xD0, 0xB0, 0x41, 0x42, 0x43, 0x44] := by decide
example : utfInverse false [0, 0, 0, 1, 8, 0xD0, 0xB0, 0, 0x41, 0x42, 0x43, 0x44] 3 = .err "dstsize" := by decide
example : utfInverse false [0, 0, 0x80, 0, 8, 0xD0, 0xB0] 40 = .err "mapsize" := by decide
example : utfInverse false [0, 0, 0, 1, 0x18, 0xD0, 0xB0, 0, 0, 0, 0] 40 = .err "alias" := by decide
-- pack / unpack of U+20AC (E2 82 AC), U+1F600 (F0 9F 98 80), and a lossy pack (second byte 0x41)
set_option maxRecDepth 100000 in
example : packVal 0xE2 0x82 0xAC 0 = (3, 0x1020AC) ∧ unpack1 0x1020AC = [0xE2, 0x82, 0xAC] := by decide
set_option maxRecDepth 100000 in
example : packVal 0xF0 0x9F 0x98 0x80 = (4, 0x21F600) ∧ unpack1 0x21F600 = [0xF0, 0x9F, 0x98, 0x80] := by decide
set_option maxRecDepth 100000 in
example : unpack1 (packVal 0xE1 0x41 0x80 0).2 = [0xE1, 0x81, 0x80] ∧ ¬ seqValid 0xE1 0x41 0x80 0 := by decide
example : utfForward 0 [1, 2, 3] 9000 = .err "small" := by decide
set_option maxRecDepth 100000 in
example : utfForward 6 (List.replicate 1024 0x41) 9216 = .err "type" := by decide
set_option maxRecDepth 100000 in
example : utfForward 0 (List.replicate 1024 0x41) 9215 = .err "dst" := by decide

end Kanzi.C13
