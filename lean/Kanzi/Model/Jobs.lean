/-
Model of `internal.ComputeJobsPerTask` (/repo/v2/internal/Global.go) and of the loop in
`transform.BWT.inverseBiPSIv2` (/repo/v2/transform/BWT.go) that turns its result into the chunk
ranges handed to the decoding goroutines.  Core Lean only (linked into `kmodel`).

Go code mirrored (the slice argument is `make([]uint, tasks)` at every call site):

    if tasks == 0 { return jobsPerTask, errors.New("Invalid number of tasks provided: 0") }
    if jobs == 0  { return jobsPerTask, errors.New("Invalid number of jobs provided: 0") }
    var q, r uint
    if jobs <= tasks { q = 1; r = 0 } else { q = jobs / tasks; r = jobs - q*tasks }
    for i := range jobsPerTask { jobsPerTask[i] = q }
    n := uint(0)
    for r != 0 { jobsPerTask[n]++; r--; n++; if n == tasks { n = 0 } }
    return jobsPerTask, nil

`uint` arithmetic is modelled by `Nat`: `q*tasks ≤ jobs` so the subtraction never wraps, and the
increments stay below `jobs`.
-/
namespace Kanzi.Jobs

/-- `jobsPerTask[n]++` (the index is always in range; out of range would be a Go panic) -/
def bump (l : List Nat) (n : Nat) : List Nat := l.set n (l.getD n 0 + 1)

/-- `for r != 0 { jobsPerTask[n]++; r--; n++; if n == tasks { n = 0 } }` — recursion on `r` -/
def spread (tasks : Nat) : (r n : Nat) → List Nat → List Nat
  | 0, _, l => l
  | r + 1, n, l => spread tasks r (if n + 1 = tasks then 0 else n + 1) (bump l n)

def errTasks : String := "Invalid number of tasks provided: 0"
def errJobs : String := "Invalid number of jobs provided: 0"

/-- `internal.ComputeJobsPerTask(make([]uint, tasks), jobs, tasks)` -/
def computeJobsPerTask (jobs tasks : Nat) : Except String (List Nat) :=
  if tasks = 0 then .error errTasks
  else if jobs = 0 then .error errJobs
  else
    let q := if jobs ≤ tasks then 1 else jobs / tasks
    let r := if jobs ≤ tasks then 0 else jobs - q * tasks
    .ok (spread tasks r 0 (List.replicate tasks q))

/-- BWT.inverseBiPSIv2: `for j, c := 0, 0; j < nbTasks; j++ { task(firstChunk = c,
lastChunk = c + jobsPerTask[j]); c += jobsPerTask[j] }` — the (firstChunk, lastChunk) pairs. -/
def chunkRanges : List Nat → Nat → List (Nat × Nat)
  | [], _ => []
  | k :: ks, c => (c, c + k) :: chunkRanges ks (c + k)

/-- the chunks a task decodes: `for c := firstChunk; c < lastChunk; c++` -/
def chunksOf (p : Nat × Nat) : List Nat := List.range' p.1 (p.2 - p.1)

/-- `nbTasks := min(int(this.jobs), chunks)` followed by the split of `chunks` among them -/
def bwtSplit (jobs chunks : Nat) : Except String (List (Nat × Nat)) :=
  match computeJobsPerTask chunks (min jobs chunks) with
  | .error e => .error e
  | .ok l => .ok (chunkRanges l 0)

end Kanzi.Jobs
