package main

// text: correspondence stream for the dictionary text transform transform.TextCodec (both delegates
// textCodec1 / textCodec2: Forward / Inverse / MaxEncodedLen, the block analysis computeTextStats, the static
// and the dynamic dictionary), model lean/Kanzi/Model/Text.lean, driver lean/Kanzi/Drv/Text.lean (op grammar
// there).
//
// Exec runs the REAL codec (transform.NewTextCodec / NewTextCodecWithCtx with the ctx entries of the op) on
// caller-owned buffers (trCall of trsmall.go: source with cap == len, destination dst[:dstLen] followed by a
// canary) and evaluates the C13 oracle on the real code, independently of the Lean model: no panic in
// Forward, source buffer unchanged (success or decline), canary intact, and when Forward succeeds into a
// destination of at least MaxEncodedLen bytes: everything consumed, output length <= MaxEncodedLen,
// Inverse(Forward(x)) == x without panic by a codec built with the CANONICAL (upper-case) entropy name into a
// destination of exactly len(x) bytes and of larger ones, same bytes from a codec instance that has
// already processed another block (re-use), same bytes from the sequence built by transform.New(ctx, TEXT).
// A panic of Inverse on a forged input is an observation (tag ti:panic), not a violation.

import (
	"bytes"
	"encoding/hex"
	"fmt"
	"math/rand"
	"reflect"
	"strconv"
	"strings"

	"github.com/flanglet/kanzi-go/v2/transform"

	"kverif/internal/gen"
)

func init() {
	registerStream(&Stream{
		Name:     "text",
		Rule:     "one op = one TextCodec.Forward (+ Inverse of its output) or one TextCodec.Inverse call on a caller-owned block; codec 1 / codec 2 / NewTextCodec(); ctx entries blockSize (hash table size thresholds), entropy (every spelling of TPAQX and others, forward and inverse side separately), bsVersion, dataType hints; families: English prose over the static dictionary, learned words, words of 1..40 letters (limits 2, 3, 31, 32), Capitalised / ALLCAPS / mIxed case and case-flipped repeats, LF / CRLF / mixed line ends, XML / HTML, escape bytes 0x0E 0x0F (also as last byte), bytes >= 0x80 and UTF-8, leading spaces, binary / DNA / base64 / numeric / small alphabet / magic headers (declines, dataType write-back), expanding blocks (output bound), more distinct words than the dictionary holds (expansion at 2^13.., ring replacement at 2^19), 3-letter words after 2^14 words, block sizes around 1024 and the dictionary size thresholds, destination sizes around MaxEncodedLen; inverse of real outputs with exact / larger / smaller destinations, truncated, mutated, forged tokens, short inputs, old codec-2 token format; distinct_nontrivial = distinct ops with a non-empty block",
		Gen:      textGen,
		Exec:     textExec,
		Parallel: 6,
	})
}

// ---- data <-> text (grammar in Drv/Text.lean)

func textWordBytes(v, l int) []byte {
	w := make([]byte, l)
	for j := 0; j < l; j++ {
		w[j] = byte('a' + v%26)
		v /= 26
	}
	return w
}

func textDec(s string) ([]byte, bool) {
	if s == "-" {
		return []byte{}, true
	}
	var out []byte
	for _, c := range strings.Split(s, ",") {
		switch {
		case strings.HasPrefix(c, "R"):
			p := strings.Split(c[1:], ":")
			if len(p) != 2 {
				return nil, false
			}
			n, err := strconv.Atoi(p[0])
			h, err2 := hex.DecodeString(p[1])
			if err != nil || err2 != nil || n < 0 || n*len(h) > 1<<27 {
				return nil, false
			}
			out = append(out, bytes.Repeat(h, n)...)
		case strings.HasPrefix(c, "W"):
			p := strings.Split(c[1:], ":")
			if len(p) != 4 {
				return nil, false
			}
			st, e1 := strconv.Atoi(p[0])
			cnt, e2 := strconv.Atoi(p[1])
			l, e3 := strconv.Atoi(p[2])
			sep, e4 := hex.DecodeString(p[3])
			if e1 != nil || e2 != nil || e3 != nil || e4 != nil || st < 0 || cnt < 0 || l < 0 || l > 64 || cnt*(l+len(sep)) > 1<<27 {
				return nil, false
			}
			for k := 0; k < cnt; k++ {
				out = append(out, textWordBytes(st+k, l)...)
				out = append(out, sep...)
			}
		default:
			b, ok := rltDec(c)
			if !ok {
				return nil, false
			}
			out = append(out, b...)
		}
	}
	return out, true
}

// ---- ctx

func textOpt(s string) (int, bool, bool) { // value, present, well-formed
	if s == "-" {
		return 0, false, true
	}
	v, err := strconv.Atoi(s)
	return v, true, err == nil && v >= 0
}

// tc 0: NewTextCodec(); 1 / 2: NewTextCodecWithCtx with textcodec = tc and the given entries
func textNew(tc int, bs, ent, ver, dt string) (*transform.TextCodec, map[string]any, error) {
	if tc == 0 {
		t, err := transform.NewTextCodec()
		return t, nil, err
	}
	ctx := map[string]any{"textcodec": tc}
	if v, has, _ := textOpt(bs); has {
		ctx["blockSize"] = uint(v)
	}
	if ent != "-" {
		ctx["entropy"] = ent
	}
	if v, has, _ := textOpt(ver); has {
		ctx["bsVersion"] = uint(v)
	}
	if v, has, _ := textOpt(dt); has {
		ctx["dataType"] = rltDataType(v)
	}
	t, err := transform.NewTextCodecWithCtx(&ctx)
	return t, ctx, err
}

func textCtxDT(ctx map[string]any) string {
	if ctx == nil {
		return "-"
	}
	v, ok := ctx["dataType"]
	if !ok {
		return "-"
	}
	return strconv.FormatInt(reflect.ValueOf(v).Int(), 10)
}

func textFwdClass(err error) string {
	m := err.Error()
	switch {
	case strings.Contains(m, "The min text transform block size"):
		return "small"
	case strings.Contains(m, "The max text transform block size"):
		return "big"
	case strings.Contains(m, "Output buffer is too small"):
		return "dst"
	case strings.Contains(m, "Input is not text, skip"):
		return "nottext"
	case strings.Contains(m, "Text transform failed. Output buffer too small"):
		return "full"
	case strings.Contains(m, "Text transform failed. Source index"):
		return "srcidx"
	}
	return "other(" + strings.ReplaceAll(m, " ", "_") + ")"
}

func textInvClass(err error) string {
	m := err.Error()
	switch {
	case strings.Contains(m, "Input block is too small"):
		return "small"
	case strings.Contains(m, "The max text transform block size"):
		return "big"
	case strings.Contains(m, "Invalid index"):
		return "index"
	case strings.Contains(m, "Invalid input data"):
		return "data"
	case strings.Contains(m, "Text transform failed. Source index"):
		return "srcidx"
	}
	return "other(" + strings.ReplaceAll(m, " ", "_") + ")"
}

// canonical text of one Inverse call; integrity violations are reported, a panic is not (the caller decides)
func textInvLine(res *Result, o trOut, dstLen int) string {
	site := "transform.TextCodec.Inverse"
	if o.inputMod {
		trViolate(res, site, "input-modified", "source buffer changed by the call")
	}
	if o.canary {
		trViolate(res, site, "dst-overrun", "bytes after dst[:len] were written")
	}
	if o.panicMsg != "" {
		return "panic"
	}
	if o.err != nil {
		return "err:" + textInvClass(o.err)
	}
	if int(o.written) > dstLen {
		trViolate(res, site, "written>len(dst)", fmt.Sprintf("written=%d len(dst)=%d", o.written, dstLen))
		return "overrun"
	}
	return "ok " + rltOut(o.out)
}

func textIsTPAQX(ent string) bool { return ent != "-" && strings.ToUpper(ent) == "TPAQX" }

func textCanon(ent string) string {
	if ent == "-" {
		return "-"
	}
	return strings.ToUpper(ent)
}

func textExec(op string, res *Result) string {
	w := strings.Fields(op)
	if len(w) == 0 {
		return "bad-op"
	}
	num := func(s string) (int, bool) {
		v, err := strconv.Atoi(s)
		return v, err == nil && v >= 0 && v <= 1<<28
	}
	switch w[0] {
	case "tf":
		if len(w) != 10 {
			return "bad-op"
		}
		tc, ok0 := num(w[1])
		_, _, ok1 := textOpt(w[2])
		entF, entI := w[3], w[4]
		_, _, ok2 := textOpt(w[5])
		_, _, ok3 := textOpt(w[6])
		dstLen, ok4 := num(w[7])
		extra, ok5 := num(w[8])
		data, ok6 := textDec(w[9])
		if !ok0 || !ok1 || !ok2 || !ok3 || !ok4 || !ok5 || !ok6 || tc > 2 {
			return "bad-op"
		}
		if tc == 0 && (w[2] != "-" || entF != "-" || entI != "-" || w[5] != "-" || w[6] != "-") {
			return "bad-op"
		}
		res.Nontrivial = len(data) > 0
		res.Sample = map[string]any{"op": "tf", "tc": tc, "bs": w[2], "entF": entF, "entI": entI, "ver": w[5], "dt": w[6], "len": len(data), "dst": dstLen, "extra": extra, "prefix": op[:min(len(op), 100)]}
		site := "transform.TextCodec.Forward"
		t, ctx, err := textNew(tc, w[2], entF, "-", w[6])
		if err != nil {
			return "ctor-error"
		}
		o := trCall(t.Forward, data, dstLen)
		if o.panicMsg != "" {
			trViolate(res, site, "panic", o.panicMsg)
			res.Tags = append(res.Tags, "tf:panic")
			return "panic"
		}
		if o.inputMod {
			trViolate(res, site, "input-modified", "source buffer changed by the call")
		}
		if o.canary {
			trViolate(res, site, "dst-overrun", "bytes after dst[:len] were written")
		}
		ctxs := " ctx=" + textCtxDT(ctx)
		if o.err != nil {
			cl := textFwdClass(o.err)
			res.Tags = append(res.Tags, "tf:declined:"+cl, fmt.Sprintf("tc:%d", tc))
			return "declined:" + cl + ctxs
		}
		if int(o.written) > dstLen {
			trViolate(res, site, "written>len(dst)", fmt.Sprintf("written=%d len(dst)=%d", o.written, dstLen))
			return "overrun"
		}
		res.Tags = append(res.Tags, "tf:ok", fmt.Sprintf("tc:%d", tc))
		maxLen := t.MaxEncodedLen(len(data))
		if maxLen != len(data) {
			trViolate(res, "transform.TextCodec.MaxEncodedLen", "value", fmt.Sprintf("MaxEncodedLen(%d)=%d", len(data), maxLen))
		}
		inScope := len(data) > 0 && dstLen >= maxLen
		if inScope {
			if len(o.out) > 0 {
				res.Tags = append(res.Tags, fmt.Sprintf("mode:%02x", o.out[0]))
			}
			if int(o.written) > maxLen {
				trViolate(res, site, "output>MaxEncodedLen", fmt.Sprintf("written=%d max=%d", o.written, maxLen))
			}
			if int(o.read) != len(data) {
				trViolate(res, site, "short-read", fmt.Sprintf("read=%d len=%d with nil error", o.read, len(data)))
			}
		}
		// the canonical line: the inverse side as described by the op
		ti, _, err := textNew(tc, w[2], entI, w[5], "-")
		if err != nil {
			return "ctor-error"
		}
		var r2 Result
		line := textInvLine(&r2, trCall(ti.Inverse, o.out, len(data)+extra), len(data)+extra)
		if r2.Violation != nil && inScope {
			res.Violation = r2.Violation
		}
		// the oracle: the inverse side as the Reader builds it (canonical entropy name, current bitstream version)
		if inScope {
			isite := "transform.TextCodec.Inverse"
			lastEsc := tc != 2 && (data[len(data)-1] == 0x0E || data[len(data)-1] == 0x0F)
			for _, ex := range []int{0, 1, 1 + len(data)/16, 3 * len(data)} {
				tr, _, _ := textNew(tc, w[2], textCanon(entF), "-", "-")
				b := trCall(tr.Inverse, o.out, len(data)+ex)
				switch {
				case b.panicMsg != "":
					trViolate(res, isite, "panic", b.panicMsg)
				case b.err != nil && ex == 0 && lastEsc:
					// codec 1, last byte 0x0E / 0x0F: Inverse needs one spare byte
					// OBSERVATION, not a C13 violation: C13 speaks of "a buffer of the size the decompressor provides", and the
					// stream decoder always provides at least len + len/16 bytes; with one spare byte Inverse succeeds (checked by
					// the ex > 0 iterations).  The model predicts this error exactly: it is the hypothesis `lastIsEscape b -> len < n`
					// of C13_text1.
					res.Tags = append(res.Tags, "observation:exact-dst-last-byte-escape")
				case b.err != nil:
					trViolate(res, isite, "roundtrip-error", fmt.Sprintf("Inverse(Forward(x)) failed (dst=len+%d): %v", ex, b.err))
				case !bytes.Equal(b.out, data):
					trViolate(res, site, "roundtrip-mismatch", fmt.Sprintf("Inverse(Forward(x)) != x (dst=len+%d, got %d bytes, want %d)", ex, len(b.out), len(data)))
				case b.inputMod || b.canary:
					trViolate(res, isite, "buffer-integrity", "inverse modified its input or wrote past dst")
				}
			}
			textReuseOracle(res, tc, w, data, o.out)
			textFactoryOracle(res, tc, w[2], entF, data, o.out)
		}
		return "ok " + rltOut(o.out) + ctxs + " | inv " + line
	case "ti":
		if len(w) != 7 {
			return "bad-op"
		}
		tc, ok0 := num(w[1])
		_, _, ok1 := textOpt(w[2])
		_, _, ok2 := textOpt(w[4])
		dstLen, ok3 := num(w[5])
		data, ok4 := textDec(w[6])
		if !ok0 || !ok1 || !ok2 || !ok3 || !ok4 || tc > 2 {
			return "bad-op"
		}
		if tc == 0 && (w[2] != "-" || w[3] != "-" || w[4] != "-") {
			return "bad-op"
		}
		res.Nontrivial = len(data) > 0
		res.Sample = map[string]any{"op": "ti", "tc": tc, "len": len(data), "dst": dstLen, "prefix": op[:min(len(op), 100)]}
		t, _, err := textNew(tc, w[2], w[3], w[4], "-")
		if err != nil {
			return "ctor-error"
		}
		line := textInvLine(res, trCall(t.Inverse, data, dstLen), dstLen)
		res.Tags = append(res.Tags, "ti:"+strings.Fields(line)[0], fmt.Sprintf("tc:%d", tc))
		return line
	}
	return "bad-op"
}

// one codec instance that has already processed another block must give the same bytes as a fresh one
func textReuseOracle(res *Result, tc int, w []string, data, direct []byte) {
	site := "transform.TextCodec.Forward(reuse)"
	defer func() {
		if r := recover(); r != nil {
			trViolate(res, site, "panic", fmt.Sprint(r))
		}
	}()
	t, _, err := textNew(tc, w[2], w[3], "-", "-")
	if err != nil {
		return
	}
	// another text block of a different size: the second half of the data twice plus the first half
	h := len(data) / 2
	other := append(append(append([]byte{}, data[h:]...), data[h:]...), data[:h]...)
	big := make([]byte, 2*len(other)+64)
	if _, _, e0 := t.Forward(other, big); e0 != nil {
		// the first block was declined: its detected data type stays in the instance's ctx (that is what the hint is
		// for; the stream gives every block a fresh ctx copy), so the second call is not comparable with a fresh instance
		res.Tags = append(res.Tags, "reuse:first-block-declined(skipped)")
		return
	}
	dst := make([]byte, len(data)+37)
	for i := range dst {
		dst[i] = 0x5A
	}
	_, n, err := t.Forward(append([]byte{}, data...), dst)
	if err != nil || !bytes.Equal(dst[:n], direct) {
		trViolate(res, site, "reuse-mismatch", fmt.Sprintf("second Forward of one instance differs from a fresh instance (err=%v n=%d want %d)", err, n, len(direct)))
		return
	}
	ti, _, _ := textNew(tc, w[2], textCanon(w[3]), "-", "-")
	tmp := make([]byte, len(other)+5)
	ti.Inverse(append([]byte{}, direct...), tmp)
	back := make([]byte, len(data)+1)
	_, m, err := ti.Inverse(append([]byte{}, direct...), back)
	if err != nil || !bytes.Equal(back[:m], data) {
		trViolate(res, "transform.TextCodec.Inverse(reuse)", "reuse-mismatch", fmt.Sprintf("second Inverse of one instance failed (err=%v m=%d want %d)", err, m, len(data)))
	}
}

// the sequence transform.New(ctx, TEXT) picks codec 2 for NONE / ANS0 / HUFFMAN / RANGE and codec 1 otherwise;
// when that is the codec of the op it must produce the same bytes and invert them
func textFactoryOracle(res *Result, tc int, bs, ent string, data, direct []byte) {
	site := "transform.New(TEXT)"
	if tc == 0 || ent == "-" {
		return
	}
	u := strings.ToUpper(ent)
	want := 1
	if u == "NONE" || u == "ANS0" || u == "HUFFMAN" || u == "RANGE" {
		want = 2
	}
	if want != tc {
		return
	}
	defer func() {
		if r := recover(); r != nil {
			trViolate(res, site, "panic", fmt.Sprint(r))
		}
	}()
	typ, err := transform.GetType("TEXT")
	if err != nil {
		trViolate(res, site, "gettype", err.Error())
		return
	}
	mk := func(e string) map[string]any {
		ctx := map[string]any{"transform": "TEXT", "bsVersion": uint(6), "size": uint(len(data)), "jobs": uint(1), "entropy": e}
		if v, has, _ := textOpt(bs); has {
			ctx["blockSize"] = uint(v)
		}
		return ctx
	}
	ctx := mk(ent)
	seq, err := transform.New(&ctx, typ)
	if err != nil {
		trViolate(res, site, "constructor", err.Error())
		return
	}
	src := append([]byte{}, data...)
	dst := make([]byte, seq.MaxEncodedLen(len(src)))
	_, n, err := seq.Forward(src, dst)
	if err != nil || seq.SkipFlags()&0x80 != 0 || !bytes.Equal(dst[:n], direct) {
		trViolate(res, site, "factory-mismatch", fmt.Sprintf("sequence Forward differs from TextCodec.Forward (err=%v flags=%02x n=%d want %d)", err, seq.SkipFlags(), n, len(direct)))
		return
	}
	ctx2 := mk(u)
	seq2, _ := transform.New(&ctx2, typ)
	seq2.SetSkipFlags(seq.SkipFlags())
	// a buffer of the size the decompressor provides: block size + max(512, blockSize/16)
	back := make([]byte, len(data)+max(512, len(data)/16))
	_, m, err := seq2.Inverse(append([]byte{}, dst[:n]...), back)
	if err != nil || int(m) != len(data) || !bytes.Equal(back[:m], data) {
		trViolate(res, site, "factory-roundtrip", fmt.Sprintf("sequence Inverse(Forward(x)) != x (err=%v m=%d)", err, m))
	}
}

// ------------------------------------------------------------------------------------------
// generators

// words of the static dictionary (a sample), words that are not in it
var textStaticWords = strings.Fields(`the be and of in to with it that for you he have on said say at but we by had they as would who or can may do this was is much any from not she what their which get give has are him her come my our were will some because there through tell when work them yet up own out into just could over old think day way than like other how then its people two more these been now want first new use see time man many thing make here well only his very after without another no all believe before off though so against while last too down today same back take each different where between those even seen under about one also fact must actually prevent expect contain concern if school year going cannot due ever toward girl firm glass gas keep world still went should spend stage doctor might job go continue everyone never answer few mean difference tend need leave try nice hold something ask warm lip cover issue happen turn look sure discover fight mad direction agree someone fail respect notice choice begin three system level feel meet company box show play live letter egg number open problem fat hand measure question call remember certain put next chair start run raise goal really home tea candidate money business young good court find know kind help night child lot your us eye yes word bit van month half low million high organization red green blue white black yourself eight both little house let despite provide service himself friend describe father development away kill trip hour game often plant place end among since stand design particular suddenly member pay law book silence almost include again either tool four once least explain identify until site minute couple week matter bring detail information nothing anything everything ago lead sometimes understand whether nature together follow parent stop indeed difficult public already speak maintain remain hear allow media office benefit door hug person later during war history argue within set article station morning walk event win choose behavior shoot fire food title around air teacher gap subject enough prove across although head foot second boy main lie able civil table love process offer student consider appear study buy nearly human evidence text method including send realize sense build control audience several cut college interest success special risk experience behind better result treat five relationship animal improve hair stay top reduce perhaps late writer pick else significant chance hotel general rock require along fit themselves report condition reach truth effort decide rate education force garden drug leader voice quite whole seem mind finally sir return free story respond push according brother learn son hope develop feeling read carry disease road various ball case operation close visit receive building value research full model join season known director position player sport error record row data paper theory space every form support action official whose idea happy heart best team project hit base represent town pull bus map dry mom cat dad room smile field impact fund large dog huge prepare environmental produce herself teach oil such situation tie cost industry skin street image itself phone price wear most sun soon clear practice piece wait recent important product left wall series news share movie kid nor simply wife onto catch myself fine computer song attention draw film republican security score test stock positive cause century window memory exist listen straight culture billion former decision energy move summer wonder relate available line likely outside shot short country role area single rule daughter market indicate present land campaign material population economy medical hospital church ground thousand authority instead recently future wrong involve life height increase right bank cultural certainly west executive board seek long officer statement rest bay deal worker resource throw forward policy science eyes bed item weapon fill plan military gun hot heat address cold focus foreign treatment blood upon course third watch affect early store thus sound everywhere baby administration mouth page enter probably point seat natural race far challenge pass apply mail usually mix tough clearly grow factor state local guy east save south scene mother career quickly central face ice above beyond picture network management individual woman size speed busy serious occur add ready sign collection list approach charge quality pressure vote note part real web current determine true sad whatever break worry cup particularly amount ability eat recognize sit character somebody loss degree effect attack staff middle television why legal capital trade election everybody drop major view standard bill employee discussion opportunity analysis ten suggest lawyer husband section become skill sister style crime program compare cap miss bad sort training easy near region strategy purpose perform technology economic budget example check environment done dark term rather laugh guess car lower hang past social forget hundred remove manager enjoy exactly die final maybe health floor change american poor fun establish trial spring dinner big thank protect avoid imagine tonight star arm finish music owner cry art private others simple popular reflect especially small light message step key peace progress made side great fix interview manage national fish lose camera discuss equal weight performance seven water production personal cell power evening color inside bar unit less adult wide range mention deep edge strong hard trouble necessary safe common fear family sea dream conference reply property meeting always stuff agency death growth sell soldier act heavy wet bag marriage dead sing rise decade whom figure police body machine category ahead front care order reality partner yard beat violence total defense write consumer center group thought modern task coach reason age finger specific connection wish response pretty movement card log number sum tree entire citizen throughout pet similar victim newspaper threat class shake source account pain fall rich possible accept solid travel talk said create none plenty period define normal reveal drink author serve name moment agent document activity anyway afraid type active train interesting radio danger generation leaf copy match claim anyone software party device code language link however confirm comment city anywhere somewhere debate drive higher beautiful online fan priority traditional six united`)

var textOtherWords = strings.Fields(`kanzi compressor bitstream entropy transform lorem ipsum dolor amet consectetur adipiscing elit zebra quokka xylophone vexillology syzygy a i o qu zz abc xyz foo bar baz qux hello worlds algorithm dictionary frequency probability arithmetic huffman predictor checksum pipeline goroutine verification theorem lemma proof invariant lockstep roundtrip codec parser lexer token buffer slice pointer overflow underflow antidisestablishmentarianism pneumonoultramicroscopicsilicovolcanoconiosis supercalifragilisticexpialidocious floccinaucinihilipilification honorificabilitudinitatibus thyroparathyroidectomized incomprehensibilities`)

type textStyle struct {
	eol       string  // line end
	mixedEOL  bool    // sometimes a lone CR / LF
	caseMix   int     // 0..100: probability (%) of a case variation per word
	esc       int     // per-mille of escape bytes
	hi        int     // per-mille of bytes >= 0x80
	xml       bool    // tags and entities
	vocab     int     // number of learned (non-dictionary) words to draw from
	longWords bool    // words around the 31-letter limit
	lead      int     // leading spaces
}

func textRandWord(r *rand.Rand, l int) string {
	b := make([]byte, l)
	for i := range b {
		b[i] = byte('a' + r.Intn(26))
	}
	return string(b)
}

func textCase(r *rand.Rand, w string, pct int) string {
	if r.Intn(100) >= pct || w == "" {
		return w
	}
	switch r.Intn(4) {
	case 0:
		return strings.ToUpper(w[:1]) + w[1:]
	case 1:
		return strings.ToUpper(w)
	case 2: // mIxed
		b := []byte(w)
		for i := range b {
			if r.Intn(2) == 0 {
				b[i] ^= 0x20
			}
		}
		return string(b)
	default: // only the first letter flipped relative to the spelling (learned words keep their spelling)
		b := []byte(w)
		b[0] ^= 0x20
		return string(b)
	}
}

func textProse(r *rand.Rand, n int, st textStyle) []byte {
	vocab := make([]string, st.vocab)
	for i := range vocab {
		switch r.Intn(6) {
		case 0:
			vocab[i] = textOtherWords[r.Intn(len(textOtherWords))]
		case 1:
			vocab[i] = textCase(r, textRandWord(r, 3+r.Intn(9)), 30)
		default:
			vocab[i] = textRandWord(r, 2+r.Intn(10))
		}
	}
	var sb bytes.Buffer
	for i := 0; i < st.lead; i++ {
		sb.WriteByte(' ')
	}
	delims := []string{" ", " ", " ", " ", " ", " ", ", ", ". ", "; ", ": ", "-", "_", " (", ") ", "\"", "'", "/", "|", "[", "]", "{", "}", "=", "?", "! ", "\t", "  ", "1", "42 ", "*"}
	tags := []string{"p", "div", "span", "a", "b", "html", "body", "title", "li"}
	ents := []string{"&amp;", "&lt;", "&gt;", "&quot;", "&apos;"}
	col := 0
	for sb.Len() < n {
		var w string
		switch k := r.Intn(10); {
		case k < 6:
			w = textStaticWords[r.Intn(len(textStaticWords))]
		case k < 9 && len(vocab) > 0:
			w = vocab[r.Intn(len(vocab))]
		default:
			w = textRandWord(r, 1+r.Intn(12))
		}
		if st.longWords && r.Intn(8) == 0 {
			w = textRandWord(r, []int{29, 30, 31, 32, 33, 40, 64}[r.Intn(7)])
			if r.Intn(2) == 0 { // repeat it so that it can be found again
				vocab = append(vocab, w)
			}
		}
		w = textCase(r, w, st.caseMix)
		if st.xml && r.Intn(6) == 0 {
			tg := tags[r.Intn(len(tags))]
			sb.WriteString("<" + tg + ">" + w + "</" + tg + ">")
			if r.Intn(2) == 0 {
				sb.WriteString(ents[r.Intn(len(ents))])
			}
		} else {
			sb.WriteString(w)
		}
		if st.esc > 0 && r.Intn(1000) < st.esc {
			sb.WriteByte([]byte{0x0E, 0x0F}[r.Intn(2)])
			if r.Intn(3) == 0 {
				sb.WriteByte([]byte{0x0E, 0x0F}[r.Intn(2)])
			}
		}
		if st.hi > 0 && r.Intn(1000) < st.hi {
			switch r.Intn(3) {
			case 0:
				sb.Write([]byte{0xC3, byte(0xA0 + r.Intn(0x1F))}) // accented latin letter, UTF-8
			case 1:
				sb.WriteByte(byte(0x80 + r.Intn(128)))
			default:
				sb.Write([]byte{0xE2, 0x80, byte(0x98 + r.Intn(6))}) // typographic quotes
			}
		}
		col += len(w) + 1
		if col > 60+r.Intn(20) {
			col = 0
			if st.mixedEOL && r.Intn(4) == 0 {
				sb.WriteString([]string{"\n", "\r", "\n\r", "\r\r\n"}[r.Intn(4)])
			} else {
				sb.WriteString(st.eol)
			}
		} else {
			sb.WriteString(delims[r.Intn(len(delims))])
		}
	}
	return sb.Bytes()[:n]
}

func textMaxHexLen(b []byte) string { return rltEnc(b) }

var textEntSpellings = []string{"-", "NONE", "none", "ANS0", "HUFFMAN", "huffman", "RANGE", "FPAQ", "CM", "TPAQ", "tpaq", "TPAQX", "tpaqx", "TpaqX", "tPAQx", "TPAQx", "TPAQXX", "XTPAQX", "TPAQX_"}

func textGen(r *rand.Rand, tier string, n int, emit func(op string, tags ...string)) {
	thorough := tier == "thorough"
	type cfg struct {
		tc                       int
		bs, entF, entI, ver, dt string
	}
	plain := func(tc int) cfg { return cfg{tc, "-", "-", "-", "-", "-"} }
	randCfg := func() cfg {
		tc := 1 + r.Intn(2)
		c := cfg{tc, "-", "-", "-", "-", "-"}
		if r.Intn(3) > 0 {
			c.bs = strconv.Itoa([]int{0, 7, 8, 31, 32, 1024, 65535, 65536, 65537, 131071, 131072, 262144, 524288, 1 << 20, 1<<20 + 1, 1 << 21, 4 << 20}[r.Intn(17)])
		}
		if r.Intn(3) > 0 {
			c.entF = textEntSpellings[r.Intn(len(textEntSpellings))]
			c.entI = textCanon(c.entF)
			if r.Intn(12) == 0 { // deliberately different table sizes on the two sides
				c.entI = textEntSpellings[r.Intn(len(textEntSpellings))]
			}
		}
		if tc == 2 && r.Intn(4) == 0 {
			c.ver = strconv.Itoa([]int{6, 6, 7, 5, 4, 3, 0}[r.Intn(7)])
		}
		return c
	}
	type heavyOp struct{ op, fam string }
	var heavy []heavyOp
	tf := func(c cfg, data string, dlen, dst, extra int, fam string) {
		op := fmt.Sprintf("tf %d %s %s %s %s %s %d %d %s", c.tc, c.bs, c.entF, c.entI, c.ver, c.dt, dst, extra, data)
		if dlen > 300000 { // spread the expensive scenarios over the stream (the model runs in contiguous shards)
			heavy = append(heavy, heavyOp{op, fam})
			return
		}
		emit(op, "family:"+fam)
	}
	tfb := func(c cfg, b []byte, dst, extra int, fam string) { tf(c, rltEnc(b), len(b), dst, extra, fam) }
	ti := func(c cfg, b []byte, dst int, fam string) {
		emit(fmt.Sprintf("ti %d %s %s %s %d %s", c.tc, c.bs, c.entI, c.ver, dst, rltEnc(b)), "family:"+fam)
	}
	realForward := func(c cfg, b []byte) ([]byte, bool) {
		if len(b) == 0 {
			return nil, false
		}
		t, _, err := textNew(c.tc, c.bs, c.entF, "-", "-")
		if err != nil {
			return nil, false
		}
		dst := make([]byte, len(b))
		_, nn, err := t.Forward(append([]byte{}, b...), dst)
		if err != nil {
			return nil, false
		}
		return dst[:nn], true
	}
	// Inverse of the real Forward output: exact / larger / smaller destination, truncated, mutated
	tiFrom := func(c cfg, b []byte, fam string) {
		enc, ok := realForward(c, b)
		if !ok {
			return
		}
		c.entI = textCanon(c.entF)
		switch r.Intn(8) {
		case 0:
			ti(c, enc, len(b)+1+r.Intn(100), fam+"-larger")
		case 1:
			ti(c, enc, len(b)-1-r.Intn(min(len(b)-1, 70)), fam+"-smaller")
		case 2, 3:
			m := append([]byte{}, enc...)
			for k := 0; k <= r.Intn(3); k++ {
				m[r.Intn(len(m))] = []byte{0, 0x0E, 0x0F, 0x80, 0xC0, 0xFF, 0xE0, 0xF0, 0x88, ' ', 'a', byte(r.Intn(256))}[r.Intn(12)]
			}
			ti(c, m, len(b)+r.Intn(2)*800, fam+"-mutated")
		case 4:
			ti(c, enc[:1+r.Intn(len(enc))], len(b), fam+"-truncated")
		case 5:
			tail := [][]byte{{0x0F}, {0x0E}, {0x0F, 0x88}, {0x80}, {0xC0}, {0xF0, 1}, {0x0F, 0xE0, 0x80}}[r.Intn(7)]
			ti(c, append(append([]byte{}, enc...), tail...), len(b)+40, fam+"-dangling-token")
		case 6:
			c2 := c
			if c.tc == 2 {
				c2.ver = strconv.Itoa([]int{5, 3, 0}[r.Intn(3)])
			} else {
				c2.bs = "1024"
			}
			ti(c2, enc, len(b)+1, fam+"-other-ctx")
		default:
			ti(c, enc, len(b), fam+"-exact")
		}
	}

	// ---- 1. sizes around the minimum block size, empty / tiny blocks, destination sizes
	for _, tc := range []int{1, 2, 0} {
		if tc == 0 && !thorough {
			continue
		}
		for _, l := range []int{0, 1, 2, 100, 1023, 1024, 1025, 1100} {
			b := textProse(r, l, textStyle{eol: "\n", vocab: 5})
			tfb(plain(tc), b, l, 0, "size-min")
			tfb(plain(tc), b, l+1, 1, "size-min")
			if l > 0 {
				tfb(plain(tc), b, l-1, 0, "dst-1")
				tfb(plain(tc), b, 0, 0, "dst0")
			}
		}
	}
	{
		b := textProse(r, 2000, textStyle{eol: "\n", vocab: 5})
		tfb(plain(0), b, 2000, 0, "newtextcodec")
		if enc, ok := realForward(plain(0), b); ok {
			ti(plain(0), enc, 2000, "newtextcodec-inverse")
		}
	}
	// ---- 4. many distinct words: dictionary expansion (2^13, 2^14, ...), the 3-letter rule after 2^14 words,
	// ring replacement at 2^19; block sizes at the dictionary-size thresholds (count/128 >= 2^14 ...)
	type wcase struct {
		words, wl int
		fam      string
	}
	wcs := []wcase{{7000, 4, "words-7000"}, {8300, 4, "words-expand-13"}, {17000, 4, "words-expand-14"}, {17500, 3, "words-3-letter"}}
	if thorough {
		wcs = append(wcs, wcase{70000, 5, "words-expand-16"}, wcase{270000, 5, "words-expand-18"}, wcase{540000, 5, "words-ring"}, wcase{600000, 6, "words-ring"})
	} else {
		wcs = append(wcs, wcase{530000, 5, "words-ring"})
	}
	for _, wc := range wcs {
		pick := 1 + r.Intn(2)
		for _, tc := range []int{1, 2} {
			if !thorough && wc.words > 100000 && tc != pick {
				continue
			}
			c := plain(tc)
			c.bs = strconv.Itoa([]int{65536, 1 << 20, 4 << 20}[r.Intn(3)])
			st := r.Intn(1000)
			sep := []string{"20", "0a", "0d0a", "2c20"}[r.Intn(4)]
			// pass 1: distinct words; pass 2: the same words again (found where still in the dictionary),
			// first letter upper-cased in the third pass
			d := fmt.Sprintf("W%d:%d:%d:%s,W%d:%d:%d:%s,W%d:%d:3:%s", st, wc.words, wc.wl, sep, st, wc.words/2, wc.wl, sep, st, 300, sep)
			l := wc.words*(wc.wl+len(sep)/2) + wc.words/2*(wc.wl+len(sep)/2) + 300*(3+len(sep)/2)
			tf(c, d, l, l, []int{0, 1, l}[r.Intn(3)], wc.fam)
		}
	}
	// block sizes that change the initial dictionary size (count/128 = 2^14: 2 MiB) and destination sizes that
	// change it on the inverse side only
	base := hex.EncodeToString(textProse(r, 4096, textStyle{eol: "\n", vocab: 200, caseMix: 10}))
	reps := []int{255, 256, 511, 512}
	if thorough {
		reps = append(reps, 1023, 1024, 2048)
	}
	for _, k := range reps {
		pick := 1 + r.Intn(2)
		for _, tc := range []int{1, 2} {
			if !thorough && k != 256 && tc != pick {
				continue
			}
			c := plain(tc)
			c.bs = "4194304"
			tf(c, fmt.Sprintf("R%d:%s,W0:9000:5:20", k, base), k*4096+54000, k*4096+54000, []int{0, 1, 3 << 20}[r.Intn(3)], "dict-size-threshold")
		}
	}
	// ---- 2. prose in every style
	cnt := 2500
	if thorough {
		cnt = 20000
	}
	if n > 0 {
		cnt = n
	}
	for i := 0; i < cnt; i++ {
		sz := 1024 + r.Intn(1<<uint(6+r.Intn(9)))
		if thorough && i%50 == 0 {
			sz = 100000 + r.Intn(400000)
		}
		st := textStyle{eol: "\n", vocab: 1 + r.Intn(300)}
		fam := "prose"
		switch i % 14 {
		case 0:
			st.eol, fam = "\r\n", "crlf"
		case 1:
			st.eol, st.mixedEOL, fam = "\r\n", true, "mixed-eol"
		case 2:
			st.caseMix, fam = 40, "case"
		case 3:
			st.esc, fam = 5+r.Intn(60), "escape-bytes"
		case 4:
			st.hi, fam = 20+r.Intn(200), "high-bytes"
		case 5:
			st.xml, fam = true, "xml"
		case 6:
			st.longWords, fam = true, "long-words"
		case 7:
			st.lead, fam = 1+r.Intn(40), "leading-spaces"
		case 8:
			st = textStyle{eol: "\r\n", caseMix: 25, esc: 8, hi: 30, xml: true, vocab: 50, longWords: true, lead: r.Intn(3)}
			fam = "everything"
		case 9:
			st.vocab, fam = 2000+r.Intn(3000), "big-vocab"
			sz = max(sz, 30000)
		case 10:
			st.esc, st.hi, fam = 150, 150, "expanding"
		}
		b := textProse(r, sz, st)
		switch i % 14 {
		case 11: // escape byte as the very last byte / first byte
			b[len(b)-1] = []byte{0x0E, 0x0F}[r.Intn(2)]
			fam = "escape-last"
		case 12:
			b[0] = []byte{0x0E, 0x0F, 0x80, 'A', '<', '\r'}[r.Intn(6)]
			fam = "first-byte"
		case 13: // ends inside a word / with a dictionary word
			b = append(b[:len(b)-4], []byte([]string{" the", "that", "a th", "\r\nof", "The ", " THE"}[r.Intn(6)])...)
			fam = "word-at-end"
		}
		c := randCfg()
		dst, extra := len(b), 0
		switch r.Intn(10) {
		case 0:
			dst += 1 + r.Intn(64)
		case 1:
			extra = 1 + r.Intn(3)
		case 2:
			extra = len(b) + r.Intn(len(b))
		}
		if fam == "escape-last" && r.Intn(2) == 0 {
			extra = 1
		}
		tfb(c, b, dst, extra, fam)
		if i%3 == 0 {
			tiFrom(c, b, "ti-"+fam)
		}
		if len(heavy) > 0 && i%(cnt/(len(heavy)+1)+1) == 0 {
			emit(heavy[0].op, "family:"+heavy[0].fam)
			heavy = heavy[1:]
		}
	}
	for _, h := range heavy {
		emit(h.op, "family:"+h.fam)
	}
	heavy = nil
	// ---- 3. declines: binary and typed data, dataType hints, magic headers
	dcnt := 12
	if thorough {
		dcnt = 60
	}
	for i := 0; i < dcnt; i++ {
		sz := 1024 + r.Intn(6000)
		for k, b := range [][]byte{
			gen.Random(r, sz), gen.DNA(r, sz), gen.Base64(r, sz), gen.Numeric(r, sz), gen.SmallAlpha(r, sz, 1+r.Intn(4)),
			gen.UTF8(r, sz, 50+r.Intn(500)), gen.Skewed(r, sz, 3, 2), gen.Exe(r, sz, true), gen.Runs(r, sz),
			bytes.Repeat([]byte{' '}, sz), bytes.Repeat([]byte{'a'}, sz), append(bytes.Repeat([]byte{' '}, sz-1), 'a'),
			append(bytes.Repeat([]byte{' '}, sz-sz/4), bytes.Repeat([]byte("ab "), sz/12+1)...),
			textProse(r, sz, textStyle{eol: "\n", hi: 300 + r.Intn(500), vocab: 20}),
			append(bytes.Repeat([]byte{0}, sz/100+r.Intn(3)), textProse(r, sz, textStyle{eol: "\n", vocab: 20})...),
		} {
			c := randCfg()
			tfb(c, b, len(b), 0, fmt.Sprintf("typed-%d", k))
		}
		// the thresholds of notText: text share around 1/4, binary share around 1/4, NUL share around 1/100,
		// spaces around 1/50 (codec 2), ASCII/95 against count/100 (codec 1)
		txt := textProse(r, sz, textStyle{eol: "\n", vocab: 20})
		for _, d := range []int{-2, -1, 0, 1, 2} {
			mk := func(fill byte, share int) []byte {
				b := append([]byte{}, txt...)
				k := len(b)/share + d
				for j := 0; j < k && j < len(b); j++ {
					b[len(b)-1-j] = fill
				}
				return b
			}
			for _, tc := range []int{1, 2} {
				tfb(plain(tc), mk(0x90, 4), sz, 0, "threshold-binary")
				tfb(plain(tc), mk(0, 100), sz, 0, "threshold-nul")
				tfb(plain(tc), mk('7', 4), len(txt), 0, "threshold-digits")
			}
			// mostly digits: few text chars
			b := bytes.Repeat([]byte{'1'}, sz)
			copy(b, textProse(r, sz/4+d, textStyle{eol: "\n", vocab: 3}))
			tfb(plain(1), b, sz, 0, "threshold-text-quarter")
			tfb(plain(2), b, sz, 0, "threshold-text-quarter")
			// few spaces (codec 2): count/50
			b = []byte(strings.ReplaceAll(string(txt), " ", "_"))
			for j := 0; j < len(b)/50+d; j++ {
				b[j*40%len(b)] = ' '
			}
			tfb(plain(2), b, len(b), 0, "threshold-spaces")
		}
		b := textProse(r, sz, textStyle{eol: "\n", vocab: 30})
		for dt := 0; dt <= 10; dt++ {
			c := plain(1 + r.Intn(2))
			c.dt = strconv.Itoa(dt)
			tfb(c, b, len(b), 0, "datatype-hint")
		}
		for _, hdr := range [][]byte{{0xFF, 0xD8, 0xFF, 0xE0}, []byte("GIF8"), []byte("%PDF"), []byte("PK\x03\x04"), {0x7F, 'E', 'L', 'F'}, []byte("BZh9"), []byte("ID3x"), {0x1F, 0x8B, 'a', 'b'}, []byte("BMab"), []byte("MZab"), []byte("P4\nx"), []byte("P5 x"), []byte("P6xx"), []byte("RIFF"), []byte("KANZ"), []byte("Rar!"), []byte("fLaC")} {
			h := append(append([]byte{}, hdr...), b[4:]...)
			tfb(plain(1+i%2), h, len(h), 0, "magic")
		}
	}
	// ---- 5. arbitrary inverse inputs: short, exhaustive over an edge alphabet, forged tokens
	for _, tc := range []int{1, 2} {
		for l := 0; l <= 3; l++ {
			for d := 0; d <= 3; d++ {
				ti(plain(tc), bytes.Repeat([]byte{'a'}, l), d, "ti-short")
				ti(plain(tc), bytes.Repeat([]byte{0x0F}, l), d, "ti-short")
			}
		}
	}
	alpha := []byte{'a', 'B', ' ', '\n', 0x0F, 0x0E, 0x80, 0x88, 0xC0, 0xE0, 0xF0, 0x00, 0x01, 0x7F}
	depth := 3
	if thorough {
		depth = 4
	}
	var rec func(b []byte)
	rec = func(b []byte) {
		if len(b) > 0 {
			for _, mode := range []byte{0, 0x40} {
				full := append([]byte{mode}, b...)
				for _, tc := range []int{1, 2} {
					c := plain(tc)
					ti(c, full, []int{1, 2, 3, 8, 100}[r.Intn(5)], "ti-exhaustive")
					if tc == 2 && r.Intn(4) == 0 {
						c.ver = "5"
						ti(c, full, 100, "ti-exhaustive-old")
					}
				}
			}
		}
		if len(b) == depth {
			return
		}
		for _, ch := range alpha {
			rec(append(append([]byte{}, b...), ch))
		}
	}
	rec(nil)
	icnt := 1500
	if thorough {
		icnt = 15000
	}
	for i := 0; i < icnt; i++ {
		sz := 2 + r.Intn(60)
		b := make([]byte, sz)
		for k := range b {
			switch r.Intn(10) {
			case 0, 1:
				b[k] = []byte{0x0F, 0x0E}[r.Intn(2)]
			case 2:
				b[k] = byte(0x80 + r.Intn(128))
			case 3:
				b[k] = byte(r.Intn(256))
			case 4:
				b[k] = []byte{' ', '\n', '\r', '.', '_'}[r.Intn(5)]
			default:
				b[k] = byte('a' + r.Intn(26))
			}
		}
		b[0] = []byte{0, 0x40, 0x20, 0x60, 0xFF}[r.Intn(5)]
		c := plain(1 + r.Intn(2))
		if c.tc == 2 && r.Intn(3) == 0 {
			c.ver = strconv.Itoa(r.Intn(8))
		}
		ti(c, b, []int{1, 4, sz, 3 * sz, 100, 300, 9000}[r.Intn(7)], "ti-arbitrary")
	}
	// forged indexes: every index form, at / above the dictionary size, pointing at empty entries, index 0
	for _, tok := range [][]byte{
		{0x0F, 0x00}, {0x0F, 0x7F}, {0x0F, 0x80, 0x00}, {0x0F, 0x88, 0x00}, {0x0F, 0x88, 0x01}, {0x0F, 0x88, 0x02}, {0x0F, 0xBF, 0x7F}, {0x0F, 0xC0, 0x00}, {0x0F, 0xFF, 0x7F},
		{0x0F, 0xE0, 0x80, 0x00}, {0x0F, 0xE0, 0xC0, 0x00}, {0x0F, 0xE1, 0x80, 0x00}, {0x0F, 0xFF, 0xFF, 0xFF}, {0x0E, 0x05}, {0x0E, 0x88, 0x00},
		{0x81}, {0x80, 0x81}, {0x80}, {0xBF}, {0xC0, 0x00}, {0xC0, 0x01}, {0xC0, 0x40}, {0xC4, 0x00}, {0xC4, 0x01}, {0xDF, 0xFF}, {0xE0, 0x00}, {0xEF, 0xFF}, {0xF0, 0x00, 0x00}, {0xF0, 0x20, 0x00}, {0xF0, 0x20, 0x01}, {0xF0, 0x20, 0x02}, {0xFF, 0xFF, 0xFF}, {0xF0}, {0xF0, 0x00}, {0x0F}, {0x0F, 0x0F}, {0x0F, 0x41},
	} {
		for _, pre := range []string{"", "a ", "hello ", " "} {
			for _, post := range []string{"", " x", "yz "} {
				b := append(append(append([]byte{0}, pre...), tok...), post...)
				for _, tc := range []int{1, 2} {
					ti(plain(tc), b, 64, "ti-forged-index")
					ti(plain(tc), b, len(pre)+3, "ti-forged-index-tight")
				}
				c := plain(2)
				c.ver = "5"
				ti(c, b, 64, "ti-forged-index-old")
			}
		}
	}
}
