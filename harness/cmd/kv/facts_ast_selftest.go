package main

// Self test of the fact extractors (`kv facts -which GoSites -selftest`, same for Globals): a tiny
// synthetic module with known go statements and globals; every classification is checked.

import (
	"fmt"
	"sort"
	"strings"
)

const selftestIO = `package io

import (
	"sync"

	internal "github.com/flanglet/kanzi-go/v2/internal"
)

type task struct{ n int }
type other struct{ n int }

var table = [4]int{1, 2, 3, 4}     // never written
var lazy []int                      // written at run time by fill (assignment + append)
var counter int                     // ++ in bump
var shadowed = 7                    // only a LOCAL of the same name is written
var viaAddr [8]byte                 // &viaAddr[0] in addr
var dst [8]byte                     // copy(dst[:], ...) in cp
var words = []byte("abc")           // handed to a function in a package-level initialiser (alias)
var nwords = count(words)           // initialiser only
var byInit [4]int                   // written by init()
var m = map[string]int{}            // delete(m, k) in del
var rows = [][]int{{1}, {2}}        // row := rows[i] is an alias (slice element)
var scalars = []int32{1, 2}         // x := scalars[i] is a plain read
var once sync.Once                  // once.Do(...) = method call on a global => alias

func count(w []byte) int { return len(w) }

func init() { byInit[0] = 1 }

func fill() {
	if lazy == nil {
		lazy = make([]int, 4)
	}
	lazy = append(lazy, 1)
}
func bump()             { counter++ }
func local() int        { shadowed := 1; shadowed++; return shadowed + table[1] }
func param(counter int) { counter = 3 }
func addr() *byte       { return &viaAddr[0] }
func cp(src []byte)     { copy(dst[:], src) }
func del(k string)      { delete(m, k) }
func readers(i int) int {
	row := rows[i]
	x := scalars[i]
	once.Do(func() {})
	for _, v := range table {
		x += int32(v)
	}
	return row[0] + int(x) + len(lazy) + internal.Shared[0]
}
func cross() { internal.Shared[1] = 2 }

func (t *task) run(res *int) {
	x := 0
	defer func() {
		if r := recover(); r != nil {
			*res = x
		}
	}()
	x = 1
}

func (t *task) bare(res *int) { *res = 1 }

func (o *other) run() {}

// nested recover does NOT protect the goroutine
func fake() {
	defer func() {
		func() { recover() }()
	}()
}

func named() {
	defer func() { recover() }()
}

func readHeader() {}

type Reader struct{}

func (this *Reader) readHeader() (err error) {
	defer func() {
		if r := recover(); r != nil {
			err = nil
		}
	}()
	return nil
}

type Writer struct{}

func (this *Writer) writeEndMarker() error { return nil }

func spawn() {
	var wg sync.WaitGroup
	t := task{n: 1}
	var r int
	go t.run(&r)    // line A: method with recover, receiver type inferred
	go t.bare(&r)   // line B: method without recover
	go func() {     // line C: literal with recover
		defer wg.Done()
		defer func() { _ = recover() }()
	}()
	go func() {     // line D: literal without recover
		defer wg.Done()
	}()
	go named()      // line E: named function with recover
	go fake()       // line F: recover only in a nested literal
	go internal.Helper() // line G: other package, not followed
	f := func() { defer func() { recover() }() }
	go f()          // line H: local func literal with recover
}
`

const selftestInternal = `package internal

var Shared [4]int
var Quiet = [2]int{1, 2}

func Helper() {}
`

const selftestTagged = `//go:build verif

package io

var Hook func()

func tagged() { go func() {}() }
`

const selftestTest = `package io

var testOnly int

func helperForTests() { go func() {}() ; testOnly++ }
`

func factsAstSelftest() error {
	files := []srcFile{
		{rel: "io/a.go", src: selftestIO},
		{rel: "internal/g.go", src: selftestInternal},
		{rel: "io/hook_on.go", src: selftestTagged},
		{rel: "io/a_test.go", src: selftestTest},
	}
	t, err := parseTree(files)
	if err != nil {
		return err
	}
	var errs []string
	fail := func(f string, a ...any) { errs = append(errs, fmt.Sprintf(f, a...)) }

	// --- go sites
	sites, callers := extractGoSites(t)
	want := []struct {
		callee string
		rec    bool
	}{
		{"task.run", true}, {"task.bare", false}, {"func literal", true}, {"func literal", false},
		{"named", true}, {"fake", false}, {"internal.Helper (other package)", false}, {"f (local func literal)", true},
	}
	if len(sites) != len(want) {
		fail("go sites: got %d, want %d: %+v", len(sites), len(want), sites)
	} else {
		for i, w := range want {
			s := sites[i]
			if s.callee != w.callee || s.recovers != w.rec || s.fn != "spawn" || s.pkg != "io" || s.file != "io/a.go" {
				fail("go site %d: got %+v, want callee=%q recovers=%v in spawn", i, s, w.callee, w.rec)
			}
			if i > 0 && sites[i-1].line >= s.line {
				fail("go sites not sorted by line")
			}
		}
	}
	gotCallers := map[string]bool{}
	for _, c := range callers {
		gotCallers[c.callee] = c.recovers
	}
	if len(callers) != 2 || gotCallers["Reader.readHeader"] != true || gotCallers["Writer.writeEndMarker"] != false {
		fail("caller sites: %+v", callers)
	}

	// --- globals
	gs := extractGlobals(t)
	type wa struct{ w, a string }
	wantG := map[string]wa{
		"internal.Quiet":  {"", ""},
		"internal.Shared": {"io.cross", ""},
		"io.byInit":       {"init", ""},
		"io.counter":      {"bump", ""},
		"io.dst":          {"cp", ""},
		"io.lazy":         {"fill", ""},
		"io.m":            {"del", ""},
		"io.nwords":       {"", ""},
		"io.once":         {"", "readers"},
		"io.rows":         {"", "readers"},
		"io.scalars":      {"", ""},
		"io.shadowed":     {"", ""},
		"io.table":        {"", ""},
		"io.viaAddr":      {"addr", ""},
		"io.words":        {"", pkgLevelInit},
	}
	keys := func(m map[string]bool) string {
		var l []string
		for k := range m {
			l = append(l, k)
		}
		sort.Strings(l)
		return strings.Join(l, ",")
	}
	seen := map[string]bool{}
	for _, g := range gs {
		k := g.pkg + "." + g.name
		seen[k] = true
		w, ok := wantG[k]
		if !ok {
			fail("unexpected global %s (test files and `verif`-tagged files must be skipped)", k)
			continue
		}
		if keys(g.writers) != w.w || keys(g.aliases) != w.a {
			fail("global %s: writers=[%s] aliases=[%s], want writers=[%s] aliases=[%s]", k, keys(g.writers), keys(g.aliases), w.w, w.a)
		}
	}
	for k := range wantG {
		if !seen[k] {
			fail("global %s not found", k)
		}
	}
	// --- determinism of the rendering
	t2, _ := parseTree([]srcFile{files[3], files[1], files[2], files[0]})
	s2, c2 := extractGoSites(t2)
	if renderGoSites(sites, callers) != renderGoSites(s2, c2) || renderGlobals(gs) != renderGlobals(extractGlobals(t2)) {
		fail("rendering depends on the input order")
	}
	if len(errs) > 0 {
		return fmt.Errorf("%d problem(s):\n  %s", len(errs), strings.Join(errs, "\n  "))
	}
	return nil
}
