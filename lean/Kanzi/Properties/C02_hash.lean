/-
C02 (checksummed streams), hash part — executable models of the block checksums.
The substantive C02 theorems are stated at the stream level with the hash as a parameter
`h : List Byte → BitVec w`; this file delivers the two instances used by the format
(`Kanzi/Model/XXHash.lean`, mirroring /repo/v2/hash/XXHash32.go and XXHash64.go, tied to the Go code
by the `hash` correspondence stream, ops `h32` / `h64`) and the facts the stream level needs about
them.  Proofs live in `Kanzi/Proofs/XXHash.lean`.
-/
import Kanzi.Model.XXHash
import Kanzi.Proofs.XXHash

namespace Kanzi.C02
open Kanzi.XXHash

/-- the checksums are total functions of (seed, data): a value exists for every input, it is unique
(a function), and nothing but seed and data enters (no state is kept between calls; the Go `Hash`
method only reads `this.seed`) -/
theorem C02_hash_total :
    (∀ (seed : BitVec 32) (data : List Byte), ∃ c : BitVec 32, xxh32 seed data = c ∧
        ∀ c', xxh32 seed data = c' → c' = c) ∧
    (∀ (seed : BitVec 64) (data : List Byte), ∃ c : BitVec 64, xxh64 seed data = c ∧
        ∀ c', xxh64 seed data = c' → c' = c) :=
  ⟨fun _ _ => ⟨_, rfl, fun _ h => h.symm⟩, fun _ _ => ⟨_, rfl, fun _ h => h.symm⟩⟩

/-- the stripe loops of the models stop where the Go loops stop (`for n <= end-16`, `for n <= end-32`):
after them exactly `len mod 16` (`len mod 32`) bytes are left for the tail loops -/
theorem C02_hash_stripes (v32 : Lanes32) (v64 : Lanes64) (data : List Byte) :
    (stripes32 v32 data).2 = data.drop (16 * (data.length / 16)) ∧
    (stripes64 v64 data).2 = data.drop (32 * (data.length / 32)) :=
  ⟨stripes32_tail v32 data, stripes64_tail v64 data⟩

/-- the 32-bit model reproduces the published XXH32 test vectors (seed 0: "", "a", "abc" and a
39-byte text that runs the stripe loop, the word loop and the byte loop) -/
theorem C02_hash_xxh32_vectors :
    xxh32 0#32 [] = 0x02CC5D05#32 ∧ xxh32 0#32 (ascii [0x61]) = 0x550D7456#32 ∧
    xxh32 0#32 (ascii [0x61, 0x62, 0x63]) = 0x32D153FF#32 ∧ xxh32 0#32 spam = 0xE2293B2F#32 :=
  ⟨xxh32_vector_empty, xxh32_vector_a, xxh32_vector_abc, xxh32_vector_spam⟩

end Kanzi.C02
