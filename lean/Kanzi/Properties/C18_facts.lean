/-
C18 (fact-base part) — package-level variables of the library are written only during package
initialisation, hence shared read-only between concurrently running streams.

`Kanzi.Generated.Globals` is REGENERATED from /repo on every check (`kv facts -which Globals`, syntax
only).  For every package-level `var` of v2/{io,transform,entropy,bitstream,hash,internal} (default build:
the `verif`-tagged hook variable is not part of it) it lists

* `writers`: functions containing a syntactic write (assignment / op-assignment / `++` / `--` / range
  key-value to the variable or to an index, field, deref or slice expression rooted at it; `&v…`;
  first argument of `copy`, `clear`, `delete`; `v = append(v, …)`), also from other packages of the
  module for exported variables (`pkg.func`); locals and parameters that shadow the name are resolved
  with go/parser's scope resolution;
* `aliases`: functions in which a reference into the variable's storage escapes that tracking (a slice
  or pointer typed part is stored, returned or passed on; method call on the variable).

Approximation (no type checker, no alias analysis): a write THROUGH an alias is not attributed to the
variable.  Therefore the set of run-time aliases is pinned below (`C18_global_aliases_reviewed`): a new
alias makes the build fail until a human has checked that it is only read.
-/
import Kanzi.Generated.Globals

namespace Kanzi.C18
open Kanzi.Generated

/-- writers that run before `main` (single goroutine, happens-before everything else) -/
def initWriters : List String := ["init", "<pkg-level initializer>"]

/-- Allow-list of globals written at run time under a lock / `sync.Once` visible in the AST.
EMPTY for the current /repo: no package-level variable is written after initialisation. -/
def guardedRuntimeWriters : List (String × String × String) := []

/-- C18_globals_readonly: every write to a package-level variable of the library happens in `init` or
in a package-level initialiser (or is allow-listed as provably guarded: currently nothing is). -/
theorem C18_globals_readonly :
    ∀ g ∈ globals, ∀ w ∈ g.writers, w ∈ initWriters ∨ (g.pkg, g.name, w) ∈ guardedRuntimeWriters := by
  decide

/-- Run-time aliases, each reviewed by hand (read-only use):
* `entropy._EXPG_VALUES` — `NewExpGolombEncoder` stores `_EXPG_VALUES[k][:]` in `this.cache`; the only
  other use of `cache` is the read `this.cache[val]` in `EncodeByte`.
* `entropy._TPAQ_STATE_TRANSITIONS` — `TPAQPredictor.Update`: `table := _TPAQ_STATE_TRANSITIONS[bit]`,
  `table` is only indexed on the right-hand side.
* `transform._TC_STATIC_DICTIONARY` — `textCodec{1,2}.reset` copy the entries into the instance's own
  `dictList`; the copied `dictEntry.ptr` slices still point into the shared dictionary text
  (`_TC_DICT_EN_1024`), which the codecs only read (`sameWords(pe.ptr…)`, `copy(dst, pe.ptr…)`);
  `pe.ptr = src[…]` re-points the instance's entry, it does not write through it.
(At initialisation time `createDictionary` is handed `_TC_DICT_EN_1024` and `_TC_STATIC_DICTIONARY[:]`
and does write through both: package-level initialiser, not listed here.) -/
def reviewedRuntimeAliases : List (String × String × List String) := [
  ("entropy", "_EXPG_VALUES", ["NewExpGolombEncoder"]),
  ("entropy", "_TPAQ_STATE_TRANSITIONS", ["TPAQPredictor.Update"]),
  ("transform", "_TC_STATIC_DICTIONARY", ["textCodec1.reset", "textCodec2.reset"])]

/-- the run-time aliases of package-level variables are exactly the reviewed ones -/
theorem C18_global_aliases_reviewed :
    globals.filterMap (fun g =>
      let a := g.aliases.filter (fun f => !initWriters.contains f)
      if a.isEmpty then none else some (g.pkg, g.name, a)) = reviewedRuntimeAliases := by
  decide

/-- the fact base is not vacuous: variables were found, and the extractor does see writes
(the tables filled by `init` in v2/internal) -/
theorem C18_facts_nonvacuous :
    globals.length ≥ 10 ∧ ∃ g ∈ globals, g.writers = ["init"] := by
  decide

end Kanzi.C18
