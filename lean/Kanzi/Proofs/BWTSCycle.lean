/-
Slice `bwts` (C13): the cycles of the LF mapping on the sorted rotations.

For `SortedRots L`, `t = L.map lastL`, `π = lfRank t`: the orbit of `r` under `π` has exactly
`m = |L[r]|` elements, `L[π^k r]` is `L[r]` rotated `k` times to the right, and the letters
`t[π^(m-1) r] … t[π r] t[r]` spell `L[r]`.
-/
import Kanzi.Proofs.BWTSSort

namespace Kanzi.BWTS

/-- `π^k r` -/
def itr (π : Nat → Nat) : Nat → Nat → Nat
  | 0, r => r
  | k + 1, r => π (itr π k r)

theorem itr_add (π : Nat → Nat) (a b r : Nat) : itr π (a + b) r = itr π a (itr π b r) := by
  induction a with
  | zero => simp [itr]
  | succ a ih => rw [Nat.succ_add]; simp [itr, ih]

theorem itr_succ' (π : Nat → Nat) (k r : Nat) : itr π (k + 1) r = itr π k (π r) := by
  rw [itr_add π k 1 r]; rfl

/-- `k` rotations to the right -/
def rotRn : Nat → List Nat → List Nat
  | 0, x => x
  | k + 1, x => rotR (rotRn k x)

theorem rotRn_length (k : Nat) (x : List Nat) : (rotRn k x).length = x.length := by
  induction k with
  | zero => rfl
  | succ k ih => simp [rotRn, rotR_length, ih]

theorem rotRn_ne_nil (k : Nat) (x : List Nat) (hx : x ≠ []) : rotRn k x ≠ [] := by
  intro h
  have := congrArg List.length h
  rw [rotRn_length] at this
  exact hx (List.eq_nil_of_length_eq_zero (by simpa using this))

theorem pw_rotRn (k : Nat) (x : List Nat) (hx : x ≠ []) (i : Nat) :
    pw (rotRn k x) (i + k) = pw x i := by
  induction k generalizing i with
  | zero => rfl
  | succ k ih =>
    have := congrFun (sh_pw_rotR (rotRn k x) (rotRn_ne_nil k x hx)) (i + k)
    simp only [sh] at this
    rw [show i + (k + 1) = i + k + 1 by omega]
    simp only [rotRn]
    rw [this, ih]

theorem RotL.rotRn {x : List Nat} (h : RotL x) (k : Nat) : RotL (rotRn k x) := by
  induction k with
  | zero => exact h
  | succ k ih => exact ih.rotR

theorem rotRn_self (x : List Nat) (hx : x ≠ []) : rotRn x.length x = x := by
  apply eq_of_length_of_seqEq (rotRn_length _ _)
  intro i
  have h1 := pw_add_length (rotRn x.length x) i
  rw [rotRn_length] at h1
  rw [← h1, pw_rotRn _ x hx]

/-- a rotation of a Lyndon word is different from its non-trivial rotations -/
theorem rotRn_ne {x : List Nat} (hx : RotL x) (k : Nat) (hk : 0 < k) (hkl : k < x.length) :
    rotRn k x ≠ x := by
  intro he
  -- `x^ω` has the period `k`
  have hper : ∀ i, pw x (i + k) = pw x i := fun i => by
    have := pw_rotRn k x hx.ne_nil i
    rwa [he] at this
  obtain ⟨w, a, hw, ha, rfl⟩ := hx
  rw [rot_length] at hkl
  have hper' : ∀ i, pw w (i + k) = pw w i := fun i => by
    have h1 := hper (i + (w.length - a))
    rw [pw_rot w a (by omega), pw_rot w a (by omega)] at h1
    rw [show i + (w.length - a) + k + a = i + k + w.length by omega,
      show i + (w.length - a) + a = i + w.length by omega, pw_add_length, pw_add_length] at h1
    exact h1
  have := lyndon_lt_rot hw k hk hkl
  exact this.not_eq (fun i => by rw [pw_rot w k (by omega), hper'])

theorem lastL_rotRn (x : List Nat) (hx : x ≠ []) (k : Nat) (hk : k < x.length) :
    lastL (rotRn k x) = x.getD (x.length - 1 - k) 0 := by
  rw [lastL_eq _ (rotRn_ne_nil k x hx), rotRn_length, ← pw_of_lt _ _ (by rw [rotRn_length]; omega),
    ← pw_of_lt x _ (by omega)]
  have := pw_rotRn k x hx (x.length - 1 - k)
  rwa [show x.length - 1 - k + k = x.length - 1 by omega] at this

/-! ## orbits -/

section
variable {L : List (List Nat)}

/-- the LF mapping of the last column of `L` -/
def lfOfL (L : List (List Nat)) : Nat → Nat := lfRank (L.map lastL)

theorem lfOfL_lt (hL : SortedRots L) (r : Nat) (hr : r < L.length) : lfOfL L r < L.length :=
  (lf_step hL r hr).1

theorem itr_spec (hL : SortedRots L) (r : Nat) (hr : r < L.length) (k : Nat) :
    ∃ hq : itr (lfOfL L) k r < L.length, L[itr (lfOfL L) k r] = rotRn k L[r] := by
  induction k with
  | zero => exact ⟨hr, rfl⟩
  | succ k ih =>
    obtain ⟨hq, h⟩ := ih
    obtain ⟨hq', h'⟩ := lf_step hL _ hq
    exact ⟨hq', by simp only [itr, rotRn]; rw [← h]; exact h'⟩

theorem itr_lt (hL : SortedRots L) (r : Nat) (hr : r < L.length) (k : Nat) : itr (lfOfL L) k r < L.length :=
  (itr_spec hL r hr k).1

/-- `π` is strictly increasing on indices carrying the same letter -/
theorem lfRank_strict (t : List Nat) (a b : Nat) (hab : a < b) (hb : b < t.length)
    (h : t.getD a 0 = t.getD b 0) : lfRank t a < lfRank t b := by
  unfold lfRank
  rw [h]
  have h1 : t.take b = t.take a ++ (t.drop a).take (b - a) := by
    rw [← List.take_add, show a + (b - a) = b by omega]
  have h2 : (t.drop a).take (b - a) = t.getD a 0 :: (t.drop (a + 1)).take (b - a - 1) := by
    rw [List.drop_eq_getElem_cons (by omega), show b - a = (b - a - 1) + 1 by omega,
      List.take_succ_cons]
    simp [List.getD_eq_getElem?_getD, List.getElem?_eq_getElem (show a < t.length by omega)]
  rw [h1, h2, List.count_append, List.count_cons, h]
  simp

theorem lfOfL_strict (a b : Nat) (hab : a < b) (hb : b < L.length) (h : L[a]'(by omega) = L[b]) :
    lfOfL L a < lfOfL L b := by
  apply lfRank_strict _ a b hab (by simpa using hb)
  simp [List.getD_eq_getElem?_getD, List.getElem?_eq_getElem hb,
    List.getElem?_eq_getElem (show a < L.length by omega), h]

theorem itr_strict (hL : SortedRots L) (a b : Nat) (hab : a < b) (hb : b < L.length) (h : L[a]'(by omega) = L[b])
    (k : Nat) : itr (lfOfL L) k a < itr (lfOfL L) k b := by
  induction k with
  | zero => exact hab
  | succ k ih =>
    obtain ⟨h1, e1⟩ := itr_spec hL a (by omega) k
    obtain ⟨h2, e2⟩ := itr_spec hL b hb k
    exact lfOfL_strict _ _ ih h2 (by rw [e1, e2, h])

/-- after `|L[r]|` steps the orbit closes -/
theorem itr_length_self (hL : SortedRots L) (r : Nat) (hr : r < L.length) : itr (lfOfL L) L[r].length r = r := by
  -- `f = π^m` maps the block of `L[r]` to itself, strictly increasing: it is the identity
  have hX : L[r] ≠ [] := (hL.rotl _ (List.getElem_mem hr)).ne_nil
  have hblock : ∀ q (hq : q < L.length), L[q] = L[r] →
      ∃ hq' : itr (lfOfL L) L[r].length q < L.length, L[itr (lfOfL L) L[r].length q] = L[r] := by
    intro q hq he
    obtain ⟨h1, e1⟩ := itr_spec hL q hq L[r].length
    exact ⟨h1, by rw [e1, he, rotRn_self _ hX]⟩
  have hlow : ∀ N q (hq : q < L.length), q ≤ N → L[q] = L[r] → q ≤ itr (lfOfL L) L[r].length q := by
    intro N
    induction N with
    | zero => intro q _ h0 _; omega
    | succ N ih =>
      intro q hq hN he
      apply Classical.byContradiction
      intro hc
      obtain ⟨hq', he'⟩ := hblock q hq he
      have h1 := ih _ hq' (by omega) he'
      have h2 := itr_strict hL (itr (lfOfL L) L[r].length q) q (by omega) hq (by rw [he', he]) L[r].length
      omega
  have hup : ∀ N q (hq : q < L.length), L.length - q ≤ N → L[q] = L[r] →
      itr (lfOfL L) L[r].length q ≤ q := by
    intro N
    induction N with
    | zero => intro q hq h0 _; omega
    | succ N ih =>
      intro q hq hN he
      apply Classical.byContradiction
      intro hc
      obtain ⟨hq', he'⟩ := hblock q hq he
      have h1 := ih _ hq' (by omega) he'
      have h2 := itr_strict hL q (itr (lfOfL L) L[r].length q) (by omega) hq' (by rw [he', he]) L[r].length
      omega
  have := hlow r r hr (Nat.le_refl _) rfl
  have := hup (L.length - r) r hr (Nat.le_refl _) rfl
  omega

theorem itr_ne_self (hL : SortedRots L) (r : Nat) (hr : r < L.length) (k : Nat) (hk : 0 < k) (hkl : k < L[r].length) :
    itr (lfOfL L) k r ≠ r := by
  intro he
  obtain ⟨h1, e1⟩ := itr_spec hL r hr k
  have : L[itr (lfOfL L) k r] = L[r] := by congr 1
  rw [e1] at this
  exact rotRn_ne (hL.rotl _ (List.getElem_mem hr)) k hk hkl this

theorem itr_injective (hL : SortedRots L) (r : Nat) (hr : r < L.length) (a b : Nat) (hab : a < b) (hb : b < L[r].length) :
    itr (lfOfL L) a r ≠ itr (lfOfL L) b r := by
  intro he
  have h1 : itr (lfOfL L) (L[r].length - b + a) r = itr (lfOfL L) (L[r].length - b + b) r := by
    rw [itr_add, itr_add _ _ b, he]
  rw [show L[r].length - b + b = L[r].length by omega, itr_length_self hL r hr] at h1
  exact itr_ne_self hL r hr _ (by omega) (by omega) h1

/-- the letter at the `k`-th point of the orbit -/
theorem letter_itr (hL : SortedRots L) (r : Nat) (hr : r < L.length) (k : Nat) (hk : k < L[r].length) :
    (L.map lastL).getD (itr (lfOfL L) k r) 0 = L[r].getD (L[r].length - 1 - k) 0 := by
  obtain ⟨h1, e1⟩ := itr_spec hL r hr k
  have hX : L[r] ≠ [] := (hL.rotl _ (List.getElem_mem hr)).ne_nil
  rw [← lastL_rotRn _ hX k hk, ← e1]
  simp [List.getD_eq_getElem?_getD, List.getElem?_eq_getElem h1]

end

end Kanzi.BWTS
