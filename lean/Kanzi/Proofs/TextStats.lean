/-
`text` slice: what the CR+LF flag of `computeTextStats` means: in a block for which the flag is set every CR is
followed by a LF and every LF is preceded by a CR (`CrlfOK`).
-/
import Kanzi.Proofs.TextSim3

namespace Kanzi.Text
open Kanzi.RLT (Out Res wr fq histogram)

/-- number of adjacent pairs `(p, c)` in `prv :: l` -/
def pairs (p c : Nat) : Nat → List Nat → Nat
  | _, [] => 0
  | prv, x :: r => (if prv = p ∧ x = c then 1 else 0) + pairs p c x r

theorem order1Go_size : ∀ (l : List Nat) (prv : Nat) (a : Array Nat), (order1Go l prv a).size = a.size
  | [], _, _ => rfl
  | x :: r, prv, a => by
    unfold order1Go
    rw [order1Go_size r x _, Array.size_modify]

/-- the order-1 table counts adjacent pairs -/
theorem order1Go_get (p c : Nat) (hp : p < 256) (hc : c < 256) :
    ∀ (l : List Nat) (prv : Nat) (a : Array Nat), prv < 256 → (∀ x ∈ l, x < 256) → a.size = 65536 →
      f1 (order1Go l prv a) p c = f1 a p c + pairs p c prv l
  | [], _, _, _, _, _ => rfl
  | x :: r, prv, a, hprv, hl, ha => by
    unfold order1Go pairs
    have hx : x < 256 := hl x (List.mem_cons_self ..)
    rw [order1Go_get p c hp hc r x _ hx (fun y hy => hl y (List.mem_cons_of_mem _ hy))
      (by rw [Array.size_modify]; exact ha)]
    unfold f1
    rw [Array.getD_eq_getD_getElem?, Array.getD_eq_getD_getElem?, Array.getElem?_modify]
    have hin : p * 256 + c < a.size := by rw [ha]; omega
    by_cases hidx : prv * 256 + x = p * 256 + c
    · have h1 : prv = p ∧ x = c := by omega
      rw [if_pos hidx, if_pos h1, Array.getElem?_eq_getElem hin]
      simp only [Option.map_some, Option.getD_some]
      omega
    · have h1 : ¬ (prv = p ∧ x = c) := by omega
      rw [if_neg hidx, if_neg h1]
      omega

/-- `prv :: l` is consistent: a CR is followed by a LF, a LF is preceded by a CR -/
def Good : Nat → List Nat → Prop
  | _, [] => True
  | prv, x :: r => (prv = CR → x = LF) ∧ (x = LF → prv = CR) ∧ Good x r

theorem good_of_pairs : ∀ (l : List Nat) (prv : Nat), prv < 256 → (∀ x ∈ l, x < 256) →
    (∀ i, i < 256 → i ≠ LF → pairs CR i prv l = 0) → (∀ i, i < 256 → i ≠ CR → pairs i LF prv l = 0) → Good prv l
  | [], _, _, _, _, _ => trivial
  | x :: r, prv, hprv, hl, hA, hB => by
    have hx : x < 256 := hl x (List.mem_cons_self ..)
    refine ⟨?_, ?_, good_of_pairs r x hx (fun y hy => hl y (List.mem_cons_of_mem _ hy)) ?_ ?_⟩
    · intro h
      by_cases c : x = LF
      · exact c
      · have := hA x hx c
        unfold pairs at this
        rw [if_pos ⟨h, rfl⟩] at this
        omega
    · intro h
      by_cases c : prv = CR
      · exact c
      · have := hB prv hprv c
        unfold pairs at this
        rw [if_pos ⟨rfl, h⟩] at this
        omega
    · intro i hi hne
      have := hA i hi hne
      unfold pairs at this
      omega
    · intro i hi hne
      have := hB i hi hne
      unfold pairs at this
      omega

/-- in a consistent list the CRs and the LFs are paired, except for a CR at the very end -/
theorem good_count : ∀ (l : List Nat) (prv : Nat), Good prv l →
    l.count CR + (if prv = CR then 1 else 0) = l.count LF + (if (prv :: l).getLast? = some CR then 1 else 0)
  | [], prv, _ => by simp
  | x :: r, prv, h => by
    obtain ⟨h1, h2, h3⟩ := h
    have ih := good_count r x h3
    have hl : (prv :: x :: r).getLast? = (x :: r).getLast? := by simp [List.getLast?_cons_cons]
    rw [hl, List.count_cons, List.count_cons]
    have hne : CR ≠ LF := by decide
    by_cases c1 : x = CR
    · have c2 : x ≠ LF := by rw [c1]; exact hne
      have c3 : prv ≠ CR := fun hp => c2 (h1 hp)
      simp only [c1, beq_self_eq_true, if_true] at ih ⊢
      rw [if_neg c3]
      have : ((CR : Nat) == LF) = false := by decide
      simp only [this] at ih ⊢
      simp only [Bool.false_eq_true, if_false] at ih ⊢
      omega
    · by_cases c2 : x = LF
      · have c3 : prv = CR := h2 c2
        simp only [c2] at ih ⊢
        have e1 : ((LF : Nat) == CR) = false := by decide
        have e2 : ¬ ((LF : Nat) = CR) := by decide
        rw [if_neg e2] at ih
        simp only [e1, beq_self_eq_true, if_true, Bool.false_eq_true, if_false, c3] at ih ⊢
        omega
      · have c3 : prv ≠ CR := fun hp => c2 (h1 hp)
        have e1 : (x == CR) = false := by simpa using c1
        have e2 : (x == LF) = false := by simpa using c2
        rw [if_neg c3]
        simp only [e1, e2, Bool.false_eq_true, if_false] at ih ⊢
        rw [if_neg c1] at ih
        omega

theorem crlfOK_of_good : ∀ (l : List Nat) (prv : Nat), Good prv l → prv ≠ CR → (prv :: l).getLast? ≠ some CR →
    CrlfOK l
  | [], _, _, _, _ => trivial
  | [x], prv, h, hp, hlast => by
    obtain ⟨_, h2, _⟩ := h
    unfold CrlfOK
    have : x ≠ CR := by
      intro e
      apply hlast
      simp [e]
    rw [if_neg this]
    exact ⟨fun e => hp (h2 e), trivial⟩
  | x :: y :: r, prv, h, hp, hlast => by
    obtain ⟨_, h2, h3⟩ := h
    have hl : (prv :: x :: y :: r).getLast? = (y :: r).getLast? := by
      simp [List.getLast?_cons_cons]
    unfold CrlfOK
    by_cases c1 : x = CR
    · rw [if_pos c1]
      simp only
      obtain ⟨g1, _, g3⟩ := h3
      have hy : y = LF := g1 c1
      refine ⟨hy, ?_⟩
      refine crlfOK_of_good r y g3 (by rw [hy]; decide) ?_
      rw [← hl]; exact hlast
    · rw [if_neg c1]
      refine ⟨fun e => hp (h2 e), ?_⟩
      refine crlfOK_of_good (y :: r) x h3 c1 ?_
      have : (x :: y :: r).getLast? = (y :: r).getLast? := by simp [List.getLast?_cons_cons]
      rw [this, ← hl]; exact hlast

theorem xmlFlag_and (f0 f1 : Array Nat) (count nb : Nat) : xmlFlag f0 f1 count nb &&& MASK_CRLF = 0 := by
  unfold xmlFlag
  have h0 : (0 : Nat) &&& MASK_CRLF = 0 := by decide
  have h1 : MASK_XML_HTML &&& MASK_CRLF = 0 := by decide
  simp only
  repeat' split
  all_goals first | exact h0 | exact h1

/-- the CR+LF flag of the mode byte implies that the block is CR+LF consistent -/
theorem crlfOK_of_stats (strict : Bool) (src : List Nat) (hb : ∀ x ∈ src, x < 256)
    (hacc : computeStats strict src &&& MASK_NOT_TEXT = 0) (hcr : computeStats strict src &&& MASK_CRLF ≠ 0) :
    CrlfOK src := by
  unfold computeStats at hacc hcr
  split at hacc
  · exact absurd hacc (by decide)
  · rename_i hmagic
    rw [if_neg hmagic] at hcr
    simp only at hacc hcr
    split at hacc
    · exact absurd hacc (detectTextType_bit _ _ _)
    · rename_i hnt
      rw [if_neg hnt] at hcr
      rw [Nat.and_or_distrib_right, xmlFlag_and, Nat.zero_or] at hcr
      have hflag : crlfFlag (histogram src) (order1Go src 0 (Array.replicate 65536 0)) ≠ 0 := by
        intro h; rw [h] at hcr; exact hcr (by decide)
      unfold crlfFlag at hflag
      split at hflag
      · rename_i hc
        split at hflag
        · rename_i hall
          rw [List.all_eq_true] at hall
          have hf1 : ∀ p c, p < 256 → c < 256 →
              f1 (order1Go src 0 (Array.replicate 65536 0)) p c = pairs p c 0 src := by
            intro p c hp hc'
            rw [order1Go_get p c hp hc' src 0 _ (by decide) hb (by simp)]
            unfold f1
            rw [Array.getD_eq_getD_getElem?, Array.getElem?_replicate, if_pos (by omega)]
            simp
          have hA : ∀ i, i < 256 → i ≠ LF → pairs CR i 0 src = 0 := by
            intro i hi hne
            have := hall i (List.mem_range.mpr hi)
            simp only [Bool.not_eq_true', decide_eq_false_iff_not, not_or, not_and, Decidable.not_not] at this
            rw [← hf1 CR i (by decide) hi]
            exact this.1 hne
          have hB : ∀ i, i < 256 → i ≠ CR → pairs i LF 0 src = 0 := by
            intro i hi hne
            have := hall i (List.mem_range.mpr hi)
            simp only [Bool.not_eq_true', decide_eq_false_iff_not, not_or, not_and, Decidable.not_not] at this
            rw [← hf1 i LF hi (by decide)]
            exact this.2 hne
          have hgood := good_of_pairs src 0 (by decide) hb hA hB
          have hcount := good_count src 0 hgood
          rw [Kanzi.Alias.fq_histogram src CR (by decide), Kanzi.Alias.fq_histogram src LF (by decide)] at hc
          have h0 : ¬ ((0 : Nat) = CR) := by decide
          rw [if_neg h0] at hcount
          refine crlfOK_of_good src 0 hgood h0 ?_
          intro hl
          rw [if_pos hl] at hcount
          omega
        · exact absurd rfl hflag
      · exact absurd rfl hflag

end Kanzi.Text
