/-
Line-protocol driver of the `rolz` stream (see harness/cmd/kv/rolz.go).  Core Lean only.

    xf <ctx> <dt> <dstlen> <data>    ROLZX: ROLZCodec.Forward (codec built by NewROLZCodecWithCtx, transform
                                     "ROLZX"), then (on success) Inverse of the output (bsVersion 6) into a
                                     destination of len(data) bytes filled with 0xAA
         -> ok <out> | inv <res>          res = ok <out> | err:<class> | panic | overrun
          | declined:<class>              class = small | big | dst | nocomp | dstsmall
          | panic
    xi <bsv> <dstlen> <data>         ROLZX: ROLZCodec.Inverse on arbitrary input, ctx bsVersion = <bsv>,
                                     destination of <dstlen> bytes filled with 0xAA
         -> ok <out> | err:<class> | panic | overrun      class = small | big | invalid
    rf <ctx> <dt> <lpc> <dstlen> <data>   ROLZ (rolzCodec1): ROLZCodec.Forward; codec built by NewROLZCodecWithCtx
                                     (transform "ROLZ"; <ctx> = 1), NewROLZCodecWithFlag(false) (<ctx> = 0, <lpc> = 4) or
                                     NewROLZCodec(<lpc>) (<ctx> = 0); then Inverse of the output with a codec of the same
                                     logPosChecks (no bsVersion entry) into a destination of len(data) bytes of 0xAA
         -> ok <out> | inv <res> [ctx=<k|->]   as for xf; classes of Forward also: ans, toomany; of Inverse: small | big |
          | declined:<class> [ctx=<k|->]       input | lpc | length | invalid | ans
          | panic                                ctx= (only with <ctx> = 1): the dataType entry after the call
    ri <bsv> <dstlen> <data>         ROLZ: ROLZCodec.Inverse on arbitrary input (codec built by name, ctx bsVersion = <bsv>)

`<ctx>`: `0` = nil ctx (NewROLZCodecWithFlag), `1` = ctx map; `<dt>`: `-` (no dataType entry) or the DataType
number.  `<data>`: as in the `rlt` stream (Kanzi.Drv.RLT), or `@<kind>:<seed>:<len>` = `<len>` bytes of the
generator `genData` (both sides implement it; used for blocks too large for a hex line).
`<out>`: `<len> <hex>` up to 64 bytes, else `<len> #<fnv1a-64 of the bytes, hex>`.  `overrun`: nil error but a
"bytes written" count larger than `len(dst)`.
-/
import Kanzi.Model.ROLZX
import Kanzi.Model.ROLZ1
import Kanzi.Drv.RLT

namespace Kanzi.Drv
open Kanzi.ROLZ

def rolzWords : Array (List Nat) :=
  #["alpha ", "beta ", "gamma ", "delta ", "the ", "of ", "kanzi "].map (fun s => s.toList.map Char.toNat)

/-- deterministic test data: a 64-bit LCG, `r` = its top 31 bits -/
partial def genLoop (kind len : Nat) (x : UInt64) (acc : Array Nat) : Array Nat :=
  if acc.size ≥ len then acc.extract 0 len
  else
    let x' := x * 6364136223846793005 + 1442695040888963407
    let r := (x' >>> 33).toNat
    match kind with
    | 0 => genLoop kind len x' (acc.push ((r % 4) * 3))
    | 1 => genLoop kind len x' (acc.push (#[97, 99, 103, 116].getD (r % 4) 0))
    | 2 => genLoop kind len x' (acc ++ rolzWords.getD (r % 7) [])
    | _ => genLoop kind len x' (acc.push (r % 256))

def genData (kind seed len : Nat) : List Nat := (genLoop kind len (UInt64.ofNat seed) #[]).toList

def rolzData (s : String) : Option (List Nat) :=
  if s.startsWith "@" then
    match ((String.ofList (s.toList.drop 1)).splitOn ":").map String.toNat? with
    | [some k, some seed, some len] => some (genData k seed len)
    | _ => none
  else rltData s

def rolzShowInv (dstLen : Nat) (r : Out (Nat × Array Nat)) : String :=
  match r with
  | .ok (w, dst) => if w > dstLen then "overrun" else "ok " ++ rltOut (dst.extract 0 w).toList
  | .err e => "err:" ++ e
  | .fault _ => "panic"

def rolz (line : String) : String :=
  match (line.splitOn " ").filter (· ≠ "") with
  | ["xf", c, dts, d, h] =>
    let dt? : Option Nat := if dts = "-" then some 0 else dts.toNat?
    match dt?, d.toNat?, rolzData h with
    | some dt, some d, some b =>
      match rolzxForward CHUNK_SIZE LOG_POS_CHECKS2 (c = "1") dt b d with
      | .ok t =>
        s!"ok {rltOut t} | inv {rolzShowInv b.length (rolzxInverse CHUNK_SIZE LOG_POS_CHECKS2 6 t (Array.replicate b.length 0xAA))}"
      | .err e => "declined:" ++ e
      | .fault _ => "panic"
    | _, _, _ => "bad-op"
  | ["xi", v, d, h] =>
    match v.toNat?, d.toNat?, rolzData h with
    | some v, some d, some b => rolzShowInv d (rolzxInverse CHUNK_SIZE LOG_POS_CHECKS2 v b (Array.replicate d 0xAA))
    | _, _, _ => "bad-op"
  | ["rf", c, dts, lp, d, h] =>
    let dt? : Option Nat := if dts = "-" then some 0 else dts.toNat?
    match dt?, lp.toNat?, d.toNat?, rolzData h with
    | some dt, some lpc, some d, some b =>
      let sfx :=
        if c = "1" then
          match rolzCtxWrite true dt b d with
          | some k => s!" ctx={k}"
          | none => if dts = "-" then " ctx=-" else s!" ctx={dt}"
        else ""
      match rolzForward CHUNK_SIZE lpc (c = "1") dt b d with
      | .ok t =>
        s!"ok {rltOut t} | inv {rolzShowInv b.length (rolzInverse CHUNK_SIZE lpc false 6 t (Array.replicate b.length 0xAA))}{sfx}"
      | .err e => "declined:" ++ e ++ sfx
      | .fault _ => "panic"
    | _, _, _, _ => "bad-op"
  | ["rj", v, d, h] =>
    -- ROLZ on forged input: class and length only (the ANS functions of this model read zeros where the real
    -- decoder object holds bytes of its previous Read: `C03_rolz_ans_stale_witness`)
    match v.toNat?, d.toNat?, rolzData h with
    | some v, some d, some b =>
      match rolzInverse CHUNK_SIZE LOG_POS_CHECKS1 true v b (Array.replicate d 0xAA) with
      | .ok (w, _) => if w > d then "overrun" else s!"ok {w} ~"
      | r => rolzShowInv d r
    | _, _, _ => "bad-op"
  | ["ri", v, d, h] =>
    match v.toNat?, d.toNat?, rolzData h with
    | some v, some d, some b =>
      rolzShowInv d (rolzInverse CHUNK_SIZE LOG_POS_CHECKS1 true v b (Array.replicate d 0xAA))
    | _, _, _ => "bad-op"
  | _ => "bad-op"

end Kanzi.Drv
