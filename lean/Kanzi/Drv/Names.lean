/-
Line-protocol driver of the `names` correspondence stream (property C15), core Lean only.
  t <chain>   → type <decimal> | err unknown | err toomany      (transform.GetType)
  n <decimal> → name <string>  | err unknown                     (transform.GetName)
  et <name>   → type <decimal> | err unknown                     (entropy.GetType)
  en <code>   → name <string>  | err unknown                     (entropy.GetName)
The argument is everything after the first space, verbatim (it may be empty or contain spaces).
The model functions are instantiated with the regenerated tables of `Kanzi.Generated.Names`.
-/
import Kanzi.Model.Names
import Kanzi.Generated.Names

namespace Kanzi.Drv
open Kanzi.Names Kanzi.Generated.Names

def namesErr : Err → String
  | .unknown => "err unknown"
  | .tooMany => "err toomany"

def names (line : String) : String :=
  let cs := line.toList
  let op := String.ofList (cs.takeWhile (· ≠ ' '))
  let arg := String.ofList ((cs.dropWhile (· ≠ ' ')).drop 1)
  match op with
  | "t" =>
    match getType transformTokens arg with
    | .ok t => s!"type {t}"
    | .error e => namesErr e
  | "n" =>
    match arg.toNat? with
    | none => "bad-op"
    | some t =>
      if t ≥ 2 ^ 64 then "bad-op" else
      match getName (nameOfTable transformNameOf) t with
      | .ok s => s!"name {s}"
      | .error e => namesErr e
  | "et" =>
    match entropyType entropyTokens arg with
    | .ok t => s!"type {t}"
    | .error e => namesErr e
  | "en" =>
    match arg.toNat? with
    | none => "bad-op"
    | some c =>
      if c ≥ 2 ^ 32 then "bad-op" else
      match entropyName (nameOfTable entropyNameOf) c with
      | .ok s => s!"name {s}"
      | .error e => namesErr e
  | _ => "bad-op"

end Kanzi.Drv
