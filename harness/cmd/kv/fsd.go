package main

// fsd: correspondence stream for the fixed-step delta codec transform.FSDCodec (transform name "MM":
// Forward / Inverse / MaxEncodedLen), model lean/Kanzi/Model/FSD.lean, driver lean/Kanzi/Drv/FSD.lean
// (op grammar there).
//
// Exec runs the REAL transform on caller-owned buffers (trCall of trsmall.go: source with cap == len,
// destination dst[:dstLen] followed by a canary) and evaluates the C13 oracle on the real code,
// independently of the Lean model: no panic, source buffer unchanged (success or decline), canary
// intact, and when Forward succeeds into a destination of at least MaxEncodedLen bytes: everything
// consumed, output length <= MaxEncodedLen, Inverse(Forward(x)) == x into a destination of exactly
// len(x) bytes and of len(x)+extra bytes.  A panic of Inverse on a forged input is reported as the
// output token `panic` (and as a violation, so that it is seen), a clean error is not a violation.

import (
	"bytes"
	"encoding/binary"
	"fmt"
	"math"
	"math/rand"
	"reflect"
	"strconv"
	"strings"

	"github.com/flanglet/kanzi-go/v2/transform"

	"kverif/internal/gen"
)

func init() {
	registerStream(&Stream{
		Name: "fsd",
		Rule: "one op = one FSDCodec.Forward (+ Inverse of its output) or one FSDCodec.Inverse call on a caller-owned block, with NewFSDCodec or NewFSDCodecWithCtx (every dataType hint); families: empty / short blocks around _FSD_MIN_BLOCK_LENGTH, 16-bit PCM sine+noise mixtures (mono, stereo, 3/4/8 channels), 8-bit images with gradients (1/3/4 bytes per pixel, several row widths), every step 1,2,3,4,8,16, smooth sampled windows with wild unsampled regions (escape-heavy delta coding, escape count around the expansion limit MaxEncodedLen), large-delta ratio around the xor/delta threshold, magic headers (RIFF/BMP/PBM/PGM/PPM accepted, JPG/PNG/ZIP/GZIP/... declined), random, text, DNA, numeric, small alphabet, block lengths around multiples of 10, destination sizes around MaxEncodedLen, valid / truncated / mutated / dangling-escape / arbitrary / exhaustive short inverse inputs with destination sizes around the decoded length; distinct_nontrivial = distinct ops with a non-empty block",
		Gen:  fsdGen,
		Exec: fsdExec,
	})
}

func fsdMaxLen(n int) int { return n + max(n>>4, 64) }

func fsdFwdClass(err error) string {
	m := err.Error()
	switch {
	case strings.HasPrefix(m, "Output buffer is too small"):
		return "dst"
	case strings.HasPrefix(m, "Block too small"):
		return "small"
	case m == "FSD forward transform skip":
		return "skip"
	case strings.HasPrefix(m, "FSD forward skip: found"):
		return "magic"
	case strings.Contains(m, "skip: output buffer too small"):
		return "full"
	case strings.Contains(m, "no improvement"):
		return "nogain"
	}
	return "other(" + m + ")"
}

func fsdInvClass(err error) string {
	m := err.Error()
	switch {
	case strings.HasPrefix(m, "Input block is too small"):
		return "small"
	case strings.Contains(m, "invalid distance"):
		return "dist"
	case strings.Contains(m, "invalid data"):
		return "data"
	case strings.Contains(m, "output buffer too small"):
		return "dst"
	case strings.Contains(m, "invalid mode"):
		return "mode"
	}
	return "other(" + m + ")"
}

func fsdInvLine(res *Result, o trOut, dstLen int) string {
	site := "transform.FSDCodec.Inverse"
	if o.panicMsg != "" {
		trViolate(res, site, "panic", o.panicMsg)
		return "panic"
	}
	if o.inputMod {
		trViolate(res, site, "input-modified", "source buffer changed by the call")
	}
	if o.canary {
		trViolate(res, site, "dst-overrun", "bytes after dst[:len] were written")
	}
	if o.err != nil {
		return "err:" + fsdInvClass(o.err)
	}
	if int(o.written) > dstLen {
		trViolate(res, site, "written>len(dst)", fmt.Sprintf("written=%d len(dst)=%d", o.written, dstLen))
		return "overrun"
	}
	return "ok " + rltOut(o.out)
}

func fsdNew(c, dts string) (*transform.FSDCodec, *map[string]any, bool) {
	if c == "0" {
		if dts != "-" {
			return nil, nil, false
		}
		t, _ := transform.NewFSDCodec()
		return t, nil, true
	}
	ctx := map[string]any{}
	if dts != "-" {
		k, err := strconv.Atoi(dts)
		if err != nil || k < 0 || k > 64 {
			return nil, nil, false
		}
		v := rltDataType(k)
		if v == nil {
			return nil, nil, false
		}
		ctx["dataType"] = v
	}
	t, _ := transform.NewFSDCodecWithCtx(&ctx)
	return t, &ctx, true
}

func fsdExec(op string, res *Result) string {
	w := strings.Fields(op)
	atoi := func(s string) (int, bool) {
		v, err := strconv.Atoi(s)
		return v, err == nil && v >= 0 && v <= 1<<26
	}
	switch {
	case len(w) == 5 && w[0] == "ff":
		dstLen, ok1 := atoi(w[3])
		data, ok2 := rltDec(w[4])
		t, ctx, ok3 := fsdNew(w[1], w[2])
		if !ok1 || !ok2 || !ok3 {
			return "bad-op"
		}
		site := "transform.FSDCodec.Forward"
		res.Nontrivial = len(data) > 0
		res.Sample = map[string]any{"op": "ff", "len": len(data), "dst": dstLen, "prefix": op[:min(len(op), 80)]}
		o := trCall(t.Forward, data, dstLen)
		ctxs := ""
		if ctx != nil {
			ctxs = " ctx=-"
			if v, ok := (*ctx)["dataType"]; ok {
				ctxs = fmt.Sprintf(" ctx=%d", reflect.ValueOf(v).Int())
			}
		}
		if o.panicMsg != "" {
			trViolate(res, site, "panic", o.panicMsg)
			res.Tags = append(res.Tags, "ff:panic")
			return "panic"
		}
		if o.inputMod {
			trViolate(res, site, "input-modified", "source buffer changed by the call")
		}
		if o.canary {
			trViolate(res, site, "dst-overrun", "bytes after dst[:len] were written")
		}
		if o.err != nil {
			cl := fsdFwdClass(o.err)
			res.Tags = append(res.Tags, "ff:declined:"+cl)
			return "declined:" + cl + ctxs
		}
		if int(o.written) > dstLen {
			trViolate(res, site, "written>len(dst)", fmt.Sprintf("written=%d len(dst)=%d", o.written, dstLen))
			return "overrun"
		}
		maxLen := t.MaxEncodedLen(len(data))
		if maxLen != fsdMaxLen(len(data)) {
			trViolate(res, "transform.FSDCodec.MaxEncodedLen", "maxlen", fmt.Sprintf("MaxEncodedLen(%d)=%d", len(data), maxLen))
		}
		inScope := len(data) > 0 && dstLen >= maxLen
		if len(o.out) > 0 {
			res.Tags = append(res.Tags, fmt.Sprintf("ff:ok:mode%d:dist%d", o.out[0], o.out[1]))
			if len(o.out) > len(data)+2 {
				res.Tags = append(res.Tags, "ff:ok:with-escapes")
			}
		} else {
			res.Tags = append(res.Tags, "ff:ok:empty")
		}
		if inScope {
			if int(o.written) > maxLen {
				trViolate(res, site, "output>MaxEncodedLen", fmt.Sprintf("written=%d max=%d", o.written, maxLen))
			}
			if int(o.read) != len(data) {
				trViolate(res, site, "short-read", fmt.Sprintf("read=%d len=%d with nil error", o.read, len(data)))
			}
		}
		// Inverse of the output into a destination of the original size (part of the canonical line)
		// and into larger ones (oracle only)
		isite := "transform.FSDCodec.Inverse"
		line := ""
		for k, extra := range []int{0, 1 + len(data)/16, 70000} {
			ti, _ := transform.NewFSDCodec()
			b := trCall(ti.Inverse, o.out, len(data)+extra)
			if k == 0 {
				var r2 Result
				line = fsdInvLine(&r2, b, len(data))
				if r2.Violation != nil && inScope {
					res.Violation = r2.Violation
				}
			}
			if !inScope {
				break
			}
			switch {
			case b.panicMsg != "":
				trViolate(res, isite, "panic", b.panicMsg)
			case b.err != nil:
				trViolate(res, isite, "roundtrip-error", fmt.Sprintf("Inverse(Forward(x)) failed (dst=len+%d): %v", extra, b.err))
			case !bytes.Equal(b.out, data):
				trViolate(res, site, "roundtrip-mismatch", fmt.Sprintf("Inverse(Forward(x)) != x (dst=len+%d, got %d bytes, want %d)", extra, len(b.out), len(data)))
			case b.inputMod || b.canary:
				trViolate(res, isite, "buffer-integrity", "inverse modified its input or wrote past dst")
			}
		}
		return "ok " + rltOut(o.out) + " | inv " + line + ctxs
	case len(w) == 3 && w[0] == "fi":
		dstLen, ok1 := atoi(w[1])
		data, ok2 := rltDec(w[2])
		if !ok1 || !ok2 {
			return "bad-op"
		}
		res.Nontrivial = len(data) > 0
		res.Sample = map[string]any{"op": "fi", "len": len(data), "dst": dstLen, "prefix": op[:min(len(op), 80)]}
		t, _ := transform.NewFSDCodec()
		o := trCall(t.Inverse, data, dstLen)
		line := fsdInvLine(res, o, dstLen)
		res.Tags = append(res.Tags, "fi:"+strings.Fields(line)[0])
		return line
	}
	return "bad-op"
}

// ------------------------------------------------------------------------------------------
// generators

func fsdRealForward(data []byte) ([]byte, bool) {
	t, _ := transform.NewFSDCodec()
	if len(data) == 0 {
		return nil, false
	}
	dst := make([]byte, t.MaxEncodedLen(len(data)))
	_, n, err := t.Forward(append([]byte{}, data...), dst)
	if err != nil {
		return nil, false
	}
	return dst[:n], true
}

// 16-bit little-endian PCM, ch interleaved channels, sine mixture + noise of amplitude `noise`
func fsdPCM16(r *rand.Rand, n, ch int, noise int) []byte {
	b := make([]byte, n)
	type osc struct{ f, a, ph float64 }
	oscs := make([][]osc, ch)
	for c := range oscs {
		for k := 0; k < 1+r.Intn(3); k++ {
			oscs[c] = append(oscs[c], osc{0.001 + r.Float64()*0.05, 200 + r.Float64()*6000, r.Float64() * 6.28})
		}
	}
	for i := 0; 2*i+1 < n; i++ {
		c, t := i%ch, float64(i/ch)
		v := 0.0
		for _, o := range oscs[c] {
			v += o.a * math.Sin(o.f*t+o.ph)
		}
		if noise > 0 {
			v += float64(r.Intn(2*noise+1) - noise)
		}
		binary.LittleEndian.PutUint16(b[2*i:], uint16(int16(v)))
	}
	return b
}

// 8-bit image, bpp bytes per pixel, rows of `width` pixels: gradients + small noise
func fsdImage(r *rand.Rand, n, bpp, width, noise int) []byte {
	b := make([]byte, n)
	gx := make([]float64, bpp)
	gy := make([]float64, bpp)
	base := make([]float64, bpp)
	for c := 0; c < bpp; c++ {
		gx[c], gy[c], base[c] = r.Float64()*1.5-0.3, r.Float64()*2-1, float64(r.Intn(200))
	}
	for i := 0; i < n; i++ {
		p, c := i/bpp, i%bpp
		x, y := p%width, p/width
		v := base[c] + gx[c]*float64(x) + gy[c]*float64(y)
		if noise > 0 {
			v += float64(r.Intn(2*noise+1) - noise)
		}
		b[i] = byte(int(v) & 0xFF)
	}
	return b
}

// smooth step-`dist` signal: every lane is a slow random walk (|step| <= amp)
func fsdWalk(r *rand.Rand, n, dist, amp int) []byte {
	b := make([]byte, n)
	for i := 0; i < n; i++ {
		if i < dist {
			b[i] = byte(r.Intn(256))
		} else {
			b[i] = byte(int(b[i-dist]) + r.Intn(2*amp+1) - amp)
		}
	}
	return b
}

// the windows that Forward samples are [c10,c5) of each odd... : [k*2*c5+c10-16, k*2*c5+c5) for k=0,1,2 plus the
// middle fifth [2*c5-16, 3*c5) (mode choice); returns true when i lies outside all of them
func fsdUnsampled(i, n int) bool {
	c10 := n / 10
	c5 := 2 * c10
	for k := 0; k < 3; k++ {
		if i >= 2*k*c5+c10-17 && i < 2*k*c5+c5+1 {
			return false
		}
	}
	return !(i >= 2*c5-17 && i < 3*c5+1)
}

func fsdGen(r *rand.Rand, tier string, n int, emit func(op string, tags ...string)) {
	thorough := tier == "thorough"
	ff := func(c, dt string, b []byte, dst int, fam string) {
		emit(fmt.Sprintf("ff %s %s %d %s", c, dt, dst, rltEnc(b)), "family:"+fam)
	}
	fi := func(b []byte, dst int, fam string) { emit(fmt.Sprintf("fi %d %s", dst, rltEnc(b)), "family:"+fam) }
	ctxOf := func() (string, string) {
		switch r.Intn(6) {
		case 0:
			return "1", "-"
		case 1:
			return "1", []string{"0", "2", "7"}[r.Intn(3)]
		}
		return "0", "-"
	}
	fiFrom := func(b []byte, fam string) {
		enc, ok := fsdRealForward(b)
		if !ok {
			return
		}
		fi(enc, len(b), fam+"-exact")
		switch r.Intn(8) {
		case 0:
			fi(enc, len(b)+1+r.Intn(100), fam+"-larger")
		case 1:
			fi(enc, len(b)-1-r.Intn(8), fam+"-smaller")
		case 2:
			m := append([]byte{}, enc...)
			m[2+r.Intn(len(m)-2)] = []byte{0, 1, 0xFE, 0xFF, 0xFF, byte(r.Intn(256))}[r.Intn(6)]
			fi(m, len(b)+r.Intn(3)-1+r.Intn(2)*5000, fam+"-mutated")
		case 3:
			fi(enc[:1+r.Intn(len(enc))], len(b), fam+"-truncated")
		case 4:
			fi(append(append([]byte{}, enc...), 0xFF), len(b)+2, fam+"-dangling-escape")
		case 5:
			m := append([]byte{}, enc...)
			m[0] = []byte{1 - enc[0], 2, 0xFF, byte(r.Intn(256))}[r.Intn(4)]
			fi(m, len(b), fam+"-mode-forged")
		case 6:
			m := append([]byte{}, enc...)
			m[1] = []byte{0, 1, 2, 3, 4, 5, 7, 8, 9, 15, 16, 17, 32, 0xFF}[r.Intn(14)]
			fi(m, len(b)+r.Intn(20), fam+"-dist-forged")
		default:
			fi(enc[:len(enc)-1], len(b), fam+"-truncated1")
		}
	}

	// ---- 1. empty / short blocks (Forward declines below 1024 bytes)
	for _, l := range []int{0, 1, 2, 3, 4, 5, 16, 17, 63, 64, 65, 100, 511, 1000, 1022, 1023} {
		for _, cd := range [][2]string{{"0", "-"}, {"1", "-"}, {"1", "0"}, {"1", "2"}, {"1", "1"}} {
			ff(cd[0], cd[1], fsdWalk(r, l, 1, 2), fsdMaxLen(l), "short")
		}
		ff("0", "-", fsdWalk(r, l, 1, 2), 0, "short-dst0")
		ff("0", "-", fsdWalk(r, l, 1, 2), fsdMaxLen(l)-1, "short-dst-1")
	}
	// ---- 2. every data type hint x {accepted, declined} content, sizes just at the minimum
	for dt := 0; dt <= 11; dt++ {
		for _, l := range []int{1024, 1025, 1500} {
			ff("1", strconv.Itoa(dt), fsdWalk(r, l, 1+r.Intn(4), 3), fsdMaxLen(l), "dt-hint")
			ff("1", strconv.Itoa(dt), gen.Random(r, l), fsdMaxLen(l), "dt-hint-random")
		}
	}
	// quick-exit write-back of DetectSimpleType: DNA, numeric, base64, small alphabet, all 256 symbols, text
	for i := 0; i < 12; i++ {
		l := 1024 + r.Intn(3000)
		for _, d := range [][]byte{gen.DNA(r, l), gen.Numeric(r, l), gen.Base64(r, l), gen.SmallAlpha(r, l, 1+r.Intn(4)), gen.Text(r, l), gen.Random(r, l+8000), bytes.Repeat([]byte{byte(r.Intn(256))}, l)} {
			ff("1", []string{"-", "0", "7", "2"}[r.Intn(4)], d, fsdMaxLen(len(d)), "simple-type")
		}
	}
	// ---- 3. magic headers
	magics := [][]byte{
		[]byte("RIFF"), []byte("BM"), []byte("P4\n"), []byte("P5\n"), []byte("P6\n"), []byte("P5 "), []byte("P6\r"), []byte("P4\x07"), []byte("P5x"), []byte("P7\n"),
		{0xFF, 0xD8, 0xFF, 0xE0}, {0xFF, 0xD8, 0xFF, 0xEF}, {0xFF, 0xD8, 0xFF, 0xF0}, []byte("GIF8"), []byte("%PDF"), {0x50, 0x4B, 3, 4}, {0x37, 0x7A, 0xBC, 0xAF},
		{0x89, 'P', 'N', 'G'}, {0x7F, 'E', 'L', 'F'}, {0xFE, 0xED, 0xFA, 0xCE}, {0xCE, 0xFA, 0xED, 0xFE}, {0xFE, 0xED, 0xFA, 0xCF}, {0xCF, 0xFA, 0xED, 0xFE},
		{0x28, 0xB5, 0x2F, 0xFD}, {0x81, 0xCF, 0xB2, 0xCE}, []byte("MSCF"), []byte("fLaC"), {0xFD, 0x37, 0x7A, 0x58}, []byte("Rar!"), []byte("KANZ"),
		[]byte("BZh9"), []byte("ID3\x03"), {0x1F, 0x8B, 8, 0}, []byte("MZ\x90\x00"), []byte("RIFE"), []byte("BN"), {0, 0, 0, 0},
	}
	for _, m := range magics {
		for k := 0; k < 2; k++ {
			l := 1024 + r.Intn(2000)
			var b []byte
			if k == 0 {
				b = fsdPCM16(r, l, 2, 20)
			} else {
				b = fsdImage(r, l, 3, 40+r.Intn(100), 2)
			}
			copy(b, m)
			c, dt := ctxOf()
			ff(c, dt, b, fsdMaxLen(l), "magic")
		}
	}
	// ---- 4. multimedia-like and other blocks
	cnt := 1200
	nbig := 12
	if thorough {
		cnt, nbig = 12000, 150
	}
	if n > 0 {
		cnt = n
	}
	for i := 0; i < cnt; i++ {
		sz := 1024 + r.Intn(1<<uint(6+r.Intn(8)))
		if i < nbig {
			sz = 40000 + r.Intn(200000)
		}
		if i%5 == 0 {
			base := 1024 + 10*r.Intn(60)
			sz = base + []int{-1, 0, 1, 5, 9, 10, 11}[r.Intn(7)]
			sz = max(sz, 1024)
		}
		var b []byte
		fam := ""
		switch i % 13 {
		case 0:
			b, fam = fsdPCM16(r, sz, 1, []int{0, 3, 40, 400}[r.Intn(4)]), "pcm16-mono"
		case 1:
			b, fam = fsdPCM16(r, sz, 2, []int{0, 3, 40, 400}[r.Intn(4)]), "pcm16-stereo"
		case 2:
			ch := []int{3, 4, 8}[r.Intn(3)]
			b, fam = fsdPCM16(r, sz, ch, r.Intn(30)), fmt.Sprintf("pcm16-%dch", ch)
		case 3:
			bpp := []int{1, 3, 4}[r.Intn(3)]
			b, fam = fsdImage(r, sz, bpp, 16+r.Intn(300), r.Intn(4)), fmt.Sprintf("image-%dbpp", bpp)
		case 4:
			d := []int{1, 2, 3, 4, 8, 16}[r.Intn(6)]
			b, fam = fsdWalk(r, sz, d, 1+r.Intn(6)), fmt.Sprintf("walk-dist%d", d)
		case 5:
			// walk with big amplitude: large deltas around the xor / delta threshold and escapes
			d := []int{1, 2, 3, 4, 8, 16}[r.Intn(6)]
			b = fsdWalk(r, sz, d, 2)
			p := []float64{0.01, 0.025, 0.03, 0.032, 0.035, 0.05, 0.1}[r.Intn(7)]
			for k := d; k < sz; k++ {
				if r.Float64() < p {
					b[k] = byte(int(b[k-d]) + 128 + r.Intn(60) - 30)
				}
			}
			fam = "walk-large-deltas"
		case 6:
			// smooth in the sampled windows, wild elsewhere: delta coding with many escapes; the number of
			// escapes is steered around the expansion limit: Forward gives up ("full") unless fewer than
			// room = max(len/16, 64) - 2 escapes precede the last byte
			d := []int{1, 2, 3, 4, 8, 16}[r.Intn(6)]
			b = fsdWalk(r, sz, d, 2)
			if enc, ok := fsdRealForward(b); ok {
				d = int(enc[1]) // the step Forward really picks
			}
			room := max(sz>>4, 64) - 2
			want := room + []int{-40, -3, -2, -1, 0, 1, 2, 10}[r.Intn(8)]
			if r.Intn(4) == 0 {
				want = r.Intn(room + 1)
			}
			safe := r.Intn(3) != 0
			c10 := sz / 10
			c5 := 2 * c10
			var free []int
			for k := d; k < sz; k++ {
				ok := fsdUnsampled(k, sz) && (k+d >= sz || fsdUnsampled(k+d, sz))
				if ok && safe {
					// also keep clear of what the final "no improvement" test reads from the output
					ok = k < c10-17-d || (k >= c5+c10 && k < 2*c5-17-d) || (k >= 3*c5+c10 && k < 4*c5+c10-17-d) || k >= 5*c5
				}
				if ok {
					free = append(free, k)
				}
			}
			if r.Intn(2) == 0 {
				r.Shuffle(len(free), func(x, y int) { free[x], free[y] = free[y], free[x] })
			}
			if r.Intn(2) == 0 && len(free) > 0 && free[len(free)-1] != sz-1 {
				free = append([]int{sz - 1}, free...) // an escape for the very last byte
			}
			isEsc := func(k int) int {
				if k >= d && k < sz {
					if dl := int(b[k]) - int(b[k-d]); dl < -127 || dl > 127 {
						return 1
					}
				}
				return 0
			}
			cur := 0
			for k := d; k < sz; k++ {
				cur += isEsc(k)
			}
			for _, k := range free {
				if cur >= want {
					break
				}
				before := isEsc(k) + isEsc(k+d)
				b[k] ^= 0x80
				after := isEsc(k) + isEsc(k+d)
				if after <= before || cur+after-before > want {
					b[k] ^= 0x80
					continue
				}
				cur += after - before
			}
			fam = "escape-heavy"
			if safe {
				fam = "escape-heavy-safe"
			}
		case 7:
			b, fam = gen.Random(r, sz), "random"
		case 8:
			b, fam = gen.Text(r, sz), "text"
		case 9:
			if r.Intn(2) == 0 {
				b, fam = gen.WaveFull(r, sz), "wave-riff"
			} else {
				b, fam = gen.Wave(r, sz, false), "wave"
			}
		case 10:
			// image with a BMP / PNM header
			bpp := []int{1, 3}[r.Intn(2)]
			b = fsdImage(r, sz, bpp, 32+r.Intn(200), r.Intn(3))
			copy(b, [][]byte{[]byte("BM\x36\x10\x00\x00"), []byte("P6\n64 64\n255\n"), []byte("P5\n128 8\n255\n")}[r.Intn(3)])
			fam = "image-header"
		case 11:
			// smooth where Forward samples, random where the final "no improvement" test reads the output
			d := []int{1, 2, 3, 4, 8, 16}[r.Intn(6)]
			b = fsdWalk(r, sz, d, 1+r.Intn(3))
			c10 := sz / 10
			c5 := 2 * c10
			for _, at := range []int{c5 + 2, 3*c5 + 2} {
				w := c10
				if r.Intn(3) == 0 {
					w = r.Intn(c10)
				}
				copy(b[at:at+w], gen.Random(r, w))
			}
			fam = "random-in-output-windows"
		default:
			// two halves of different nature
			h := sz / 2
			b = append(fsdPCM16(r, h, 2, 10), gen.Random(r, sz-h)...)
			if r.Intn(2) == 0 {
				b = append(gen.Text(r, h), fsdImage(r, sz-h, 3, 50, 1)...)
			}
			fam = "mixed"
		}
		c, dt := ctxOf()
		dst := fsdMaxLen(len(b))
		switch r.Intn(16) {
		case 0:
			dst, fam = dst-1, fam+"/dst-1"
		case 1:
			dst, fam = dst+1+r.Intn(64), fam+"/dst+"
		case 2:
			dst, fam = []int{0, 1, 2, 3, len(b) / 2, len(b)}[r.Intn(6)], fam+"/dst-small"
		}
		ff(c, dt, b, dst, fam)
		if i%3 == 0 {
			fiFrom(b, "fi-"+strings.Split(fam, "/")[0])
		}
	}
	// ---- 4b. ties of the final "no improvement" test (entropy of the output windows == ent[0]): the
	// entropies are multiples of 1/128 bit; blocks with count/10 a power of two, a periodic pattern of
	// 2^k symbols where Forward samples and 2^k equiprobable delta codes (zero sum per lane) where the
	// final test reads the output, built by running the real Inverse on the wanted output
	tcnt := 80
	if thorough {
		tcnt = 600
	}
	for i := 0; i < tcnt; i++ {
		c10 := []int{128, 128, 256, 512}[r.Intn(4)]
		c5 := 2 * c10
		sz := 10*c10 + r.Intn(10)
		d := []int{2, 4, 8, 16}[r.Intn(4)]
		enc := make([]byte, sz+2)
		enc[0], enc[1] = 0, byte(d)
		base := 20 + r.Intn(200)
		for k := 0; k < d; k++ {
			enc[2+k] = byte(base + k%[]int{2, 4, d}[r.Intn(3)])
		}
		if i%2 == 0 {
			// exact design: a pattern of period d with 4 equiprobable symbols (ent[0] = 2 bits); in the output
			// windows the first quarter of the lanes alternates +1,-1, the second quarter +2,-2, the other
			// half (incl. the two lanes whose source bytes Forward samples) stays 0: 2 bits as well
			d = []int{4, 8, 16}[r.Intn(3)]
			enc[1] = byte(d)
			pat := map[int][]int{4: {0, 1, 2, 3}, 8: {0, 1, 2, 3, 3, 2, 1, 0}, 16: {0, 1, 2, 3, 3, 2, 1, 0, 0, 0, 1, 1, 2, 2, 3, 3}}[d]
			for k := 0; k < d; k++ {
				enc[2+k] = byte(base + pat[k])
			}
			for _, w := range []int{c5, 3 * c5} {
				for j := w; j < w+c10; j++ {
					lane, step := (j-2)%d, (j-w)/d
					switch {
					case lane < d/4:
						enc[j] = []byte{2, 1}[step%2]
					case lane < d/2:
						enc[j] = []byte{4, 3}[step%2]
					}
				}
			}
			if r.Intn(2) == 0 {
				// near miss: one more / one different code
				j := []int{c5, 3 * c5}[r.Intn(2)] + r.Intn(c10)
				enc[j] = []byte{0, 1, 2, 5, 6}[r.Intn(5)]
			}
		} else {
			codes := [][]byte{{2, 1, 4, 3}, {2, 1}, {2, 1, 4, 3, 6, 5, 8, 7}, {1, 2, 2, 1}, {0, 2, 1, 0}}[r.Intn(5)]
			for _, w := range []int{c5, 3 * c5} {
				lo := w + []int{0, 0, 2, 2, d, 16, r.Intn(20)}[r.Intn(7)]
				hi := w + c10 - []int{0, 0, 0, 16, r.Intn(20)}[r.Intn(5)]
				for j := lo; j < hi; j++ {
					enc[j] = codes[((j-lo)/d)%len(codes)]
				}
			}
		}
		dec := make([]byte, sz)
		ti, _ := transform.NewFSDCodec()
		if _, n, err := ti.Inverse(enc, dec); err != nil || int(n) != sz {
			continue
		}
		c, dt := ctxOf()
		ff(c, dt, dec, fsdMaxLen(sz), "entropy-tie")
	}
	// ---- 5. arbitrary inverse inputs
	alpha := []byte{0, 1, 2, 0x7F, 0xFE, 0xFF}
	depth := 3
	if thorough {
		depth = 4
	}
	for _, mode := range []byte{0, 1, 2} {
		for _, dist := range []byte{0, 1, 2, 3, 4, 5, 8, 16, 17} {
			var rec func(b []byte)
			rec = func(b []byte) {
				full := append([]byte{mode, dist}, bytes.Repeat([]byte{9}, int(dist)%17)...)
				if dist == 2 {
					full = append([]byte{mode, dist}, 0xFF, 0x80)
				}
				full = append(full, b...)
				base := len(full) - 2
				for _, d := range []int{0, 1, base - 1, base, base + 1, 300} {
					if d >= 0 {
						fi(full, d, "fi-exhaustive")
					}
				}
				if len(b) == depth || (dist != 1 && dist != 2 && len(b) >= 2) {
					return
				}
				for _, c := range alpha {
					rec(append(append([]byte{}, b...), c))
				}
			}
			rec(nil)
		}
	}
	for _, b := range [][]byte{{}, {0}, {1}, {0, 1}, {1, 1}, {0, 0}, {0, 4, 1, 2, 3}, {0, 4, 1, 2, 3, 4}, {0, 16}, {2, 1, 5}, {2, 1, 5, 6}, {0, 1, 0xFF}, {0, 1, 5, 0xFF}, {0, 1, 5, 0xFF, 0xFF}, {0, 1, 5, 0xFF, 0xFF, 0xFF}} {
		for _, d := range []int{0, 1, 2, 3, 4, 5, 17, 300} {
			fi(b, d, "fi-directed")
		}
	}
	icnt := 1500
	if thorough {
		icnt = 15000
	}
	for i := 0; i < icnt; i++ {
		sz := 2 + r.Intn(60)
		b := make([]byte, sz)
		for k := range b {
			switch r.Intn(6) {
			case 0:
				b[k] = 0xFF
			case 1:
				b[k] = []byte{0, 1, 2, 0xFE, 0xFD, 0x7F, 0x80}[r.Intn(7)]
			default:
				b[k] = byte(r.Intn(256))
			}
		}
		if r.Intn(8) != 0 {
			b[0] = byte(r.Intn(2))
		}
		if r.Intn(8) != 0 && sz > 1 {
			b[1] = []byte{1, 2, 3, 4, 8, 16}[r.Intn(6)]
		}
		fi(b, max(0, []int{0, 1, 2, sz - 3, sz - 2, sz, 2 * sz, 300}[r.Intn(8)]), "fi-arbitrary")
	}
}
