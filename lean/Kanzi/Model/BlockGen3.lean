/-
Generic block codec, third instalment: the transforms UTF, EXE, ROLZ, ROLZX, BWT, BWTS (models of the slices
utf, exe, rolz, bwt, bwts) and an ABSTRACT TEXT transform plugged into the model of `encodingTask.encode` /
`decodingTask.decode` of `Kanzi/Model/BlockGen.lean` + `BlockGen2.lean`.  Core Lean only.

Everything below the kind universe is REUSED from `BlockGen2`: a chain is a `List Tr2`, the encoder is
`BlockGen2.encodeTaskGen2` (real destination sizes of `ByteTransformSequence.Forward`, the `ctx["dataType"]`
hint threaded through the stages, the bound of fix F43), the decoder is `BlockGen.decodeTaskGen`, the stream
image is `BlockGen2.streamImageGen2`.  New here:

  * `Kind3` = the twelve kinds of `BlockGen2.Kind` (`.old k`) + `utf`, `exe`, `rolz`, `rolzx`, `bwt jobs`, `bwts`,
    `text`, and the adapters `Kind3.tr` to `BlockGen2.Tr2` (Forward with hint, ctx write-back, Inverse, MaxEncodedLen)
    as `transform.newToken` builds them in a stream of bitstream version 6:

      kind    Forward reads dataType        Forward stores dataType                 Inverse parameters
      UTF     yes (UTF8 = no validation,    DT_UTF8 once the block is accepted      bsVersion 6: `unpackUTF1` (v3 = false)
              other than UNDEFINED: skip)   as UTF-8 (`utfCtxWrite`)
      EXE     yes (only UNDEFINED / EXE /   DT_EXE on success; the detected simple   bsVersion 6: current format (v2 = false)
              BIN go on)                    type when "not an executable"
      ROLZ    yes (EXE / DNA / MULTIMEDIA   the detected simple type when there     ctx present, bsVersion 6;
              select key + min match;       was no entry and it is not UNDEFINED    logPosChecks 4, chunks of 2^24
              UNDEFINED: detect)            (`rolzCtxWrite`)
      ROLZX   yes (EXE / DNA; detect)       nothing (the Go code stores the value   bsVersion 6; logPosChecks 5
                                            only when it is DT_UNDEFINED = no entry)
      BWT     no                            no                                      bsVersion 6 header; `jobs` =
                                                                                    ctx["jobs"] of the decoding task
      BWTS    no                            no                                      none
      TEXT    yes                           yes                                     (abstract)

    `transform.newToken` builds ROLZ and ROLZX tokens with the SAME constructor `NewROLZCodecWithCtx`, which looks at
    the transform NAME of the whole stream (`ctx["transform"]` contains "ROLZX"): in a chain that names ROLZX
    anywhere, every ROLZ token is a ROLZX codec too (`tokenKind3`, parameter `rolzx`) — on both sides, the
    Reader stores the name derived from the header.

  * BWT and BWTS FORWARD.  The real Forward of both is built on DivSufSort (not modelled).  The adapters use the
    SPECIFICATION of the slices: `Kanzi.BWT.blockForward` (header of `BWTBlockCodec.Forward` + `bwtSpec`: naive suffix
    sort with implicit end marker) and `bwtsSpecForward` (the checks of `BWTS.Forward` + `bwtsSpec`: Lyndon
    factorisation, rotations sorted by `u^ω`).  "real Forward = spec" is tied by the `bwt` / `bwts` streams (and
    again by `imagegen3`, through whole streams), NOT proved.  The inverses are the statement-level models
    (`blockInverse` with both algorithms, `bwtsInverse`), on a fresh instance (`io` builds a new transform per block).

  * TEXT is a parameter: `TextImpl` = the four functions of a `kanzi.ByteTransform` with ctx (Forward with hint,
    the `dataType` write-back, Inverse, MaxEncodedLen), as `transform.newToken` would build it for the stream
    (`textcodec` 1 or 2 from the entropy name, hash size from block size + entropy).  Everything proved about
    chains with TEXT holds for every `TextImpl` satisfying `Kanzi.BlockGen3.TextLaw` (Proofs/BlockGen3Kinds.lean).

A Go panic inside a Forward or an Inverse (`.fault` / `.hang` of the transform models) is mapped to `.error` as in
`BlockGen2` (for Forward: proved unreachable, `Kanzi.C01gen.C01_chain3_no_fault`).
-/
import Kanzi.Model.BlockGen2
import Kanzi.Model.UTF
import Kanzi.Model.EXE
import Kanzi.Model.ROLZX
import Kanzi.Model.ROLZ1
import Kanzi.Model.BWT
import Kanzi.Model.BWTS

namespace Kanzi.BlockGen3
open Kanzi.Bits Kanzi.TrSmall Kanzi.Block Kanzi.BlockGen Kanzi.BlockGen2

/-! ### the abstract TEXT transform -/

/-- a `transform.TextCodec` as the sequence sees it (same shape as `BlockGen2.Tr2`, with the three-valued results
of the transform slices: `.ok` = nil error, `.err` = declined / failed, `.fault` = run-time panic):
`forward dt src len(dst)`, `ctxWrite dt src len(dst)` = the value Forward stores into `ctx["dataType"]` (if any),
`inverse src len(dst)`, `MaxEncodedLen` -/
structure TextImpl where
  forward : Nat → List Nat → Nat → Kanzi.RLT.Out (List Nat)
  ctxWrite : Nat → List Nat → Nat → Option Nat
  inverse : List Nat → Nat → Kanzi.RLT.Out (List Nat)
  maxEncodedLen : Nat → Nat

/-! ### result conversions -/

def ofRolzF : Kanzi.ROLZ.Out (List Nat) → Res
  | .ok t => .ok t
  | .err e => .error e
  | .fault k => .error ("fault:" ++ k)

/-- Inverse of the ROLZ codecs: `(written, dst)` ↦ `dst[0:written]` -/
def ofRolzI : Kanzi.ROLZ.Out (Nat × Array Nat) → Res
  | .ok p => .ok (p.2.extract 0 p.1).toList
  | .err e => .error e
  | .fault k => .error ("fault:" ++ k)

def ofBwtF : Kanzi.BWT.Res (List Nat) → Res
  | .ok t => .ok t
  | .err e => .error e
  | .fault => .error "fault"
  | .hang => .error "hang"

def ofBwtI : Kanzi.BWT.Res (Array Nat) → Res
  | .ok t => .ok t.toList
  | .err e => .error e
  | .fault => .error "fault"
  | .hang => .error "hang"

def ofBwts : Kanzi.BWTS.Res → Res
  | .ok t => .ok t
  | .err => .error "err"
  | .fault => .error "fault"

/-! ### BWTS forward: the checks of `BWTS.Forward`, the transform given by its definition -/

/-- Go: `BWTS.Forward(src, dst)` with `len(dst) = dstLen`, the suffix-array based transform replaced by its
SPECIFICATION `bwtsSpec` (checks in the order of `Kanzi.BWTS.bwtsForwardFill`) -/
def bwtsSpecForward (src : List Nat) (dstLen : Nat) : Kanzi.BWTS.Res :=
  if src.length = 0 ∨ dstLen = 0 then .ok []
  else if dstLen < Kanzi.BWTS.maxEncodedLen src.length then .err
  else if src.length > Kanzi.BWTS.maxBlockSize then .err
  else .ok (Kanzi.BWTS.bwtsSpec src)

/-! ### the kind universe -/

/-- one entry of a `ByteTransformSequence` as `transform.newToken` builds it (bitstream version 6) -/
inductive Kind3 where
  | old (k : Kind)             -- NONE ZRLT MTFT RANK RLT SRT PACK DNA LZ LZX LZP MM
  | utf
  | exe
  | rolz                       -- `rolzCodec1` (ANS coded side buffers), logPosChecks 4
  | rolzx                      -- `rolzCodec2` (binary range coder), logPosChecks 5
  | bwt (jobs : Nat)           -- `jobs` = ctx["jobs"] of the task (used by `inverseBiPSIv2` only)
  | bwts
  | text
deriving DecidableEq, Repr

def Kind3.tr (text : TextImpl) : Kind3 → Tr2
  | .old k => k.tr
  | .utf =>
    ⟨fun dt x d => ofRlt (Kanzi.UTF.utfForward dt x d),
     fun dt x d => if Kanzi.UTF.utfCtxWrite dt x d then some Kanzi.RLT.DT_UTF8 else Option.none,
     fun y n => ofRlt (Kanzi.UTF.utfInverse false y n), Kanzi.UTF.utfMaxEncodedLen⟩
  | .exe =>
    ⟨fun dt x d => ofRlt (Kanzi.EXE.exeForward (some dt) x d), fun dt x d => Kanzi.EXE.exeCtxWrite (some dt) x d,
     fun y n => ofRlt (Kanzi.EXE.exeInverse false y n), Kanzi.EXE.exeMaxEncodedLen⟩
  | .rolz =>
    ⟨fun dt x d => ofRolzF (Kanzi.ROLZ.rolzForward Kanzi.ROLZ.CHUNK_SIZE Kanzi.ROLZ.LOG_POS_CHECKS1 true dt x d),
     fun dt x d => Kanzi.ROLZ.rolzCtxWrite true dt x d,
     fun y n => ofRolzI (Kanzi.ROLZ.rolzInverse Kanzi.ROLZ.CHUNK_SIZE Kanzi.ROLZ.LOG_POS_CHECKS1 true 6 y
       (Array.replicate n 0)),
     Kanzi.ROLZ.maxEncodedLen1⟩
  | .rolzx =>
    ⟨fun dt x d => ofRolzF (Kanzi.ROLZ.rolzxForward Kanzi.ROLZ.CHUNK_SIZE Kanzi.ROLZ.LOG_POS_CHECKS2 true dt x d),
     fun _ _ _ => Option.none,
     fun y n => ofRolzI (Kanzi.ROLZ.rolzxInverse Kanzi.ROLZ.CHUNK_SIZE Kanzi.ROLZ.LOG_POS_CHECKS2 6 y
       (Array.replicate n 0)),
     Kanzi.ROLZ.maxEncodedLen2⟩
  | .bwt jobs =>
    ⟨fun _ x d => ofBwtF (Kanzi.BWT.blockForward x d), fun _ _ _ => Option.none,
     fun y n => ofBwtI (Kanzi.BWT.blockInverse #[] (List.replicate 8 0) jobs y.toArray n).1,
     Kanzi.BWT.maxEncodedLen⟩
  | .bwts =>
    ⟨fun _ x d => ofBwts (bwtsSpecForward x d), fun _ _ _ => Option.none,
     fun y n => ofBwts (Kanzi.BWTS.bwtsInverse y n), Kanzi.BWTS.maxEncodedLen⟩
  | .text =>
    ⟨fun dt x d => ofRlt (text.forward dt x d), text.ctxWrite,
     fun y n => ofRlt (text.inverse y n), text.maxEncodedLen⟩

def kind3Trs (text : TextImpl) (ks : List Kind3) : List Tr2 := ks.map (Kind3.tr text)

/-- a TEXT implementation for chains without TEXT (never looked at): declines everything -/
def noText : TextImpl :=
  ⟨fun _ _ _ => .err "no-text", fun _ _ _ => Option.none, fun _ _ => .err "no-text", fun n => n⟩

/-! ### the sequence and the codec announced by a header -/

/-- Go: `transform.newToken`; `dna` = `ctx["packOnlyDNA"]` is set (by an earlier DNA token of the chain), `rolzx`
= the transform name of the stream contains "ROLZX", `jobs` = `ctx["jobs"]` of the task -/
def tokenKind3 (fast dna rolzx : Bool) (jobs : Nat) (t : Nat) : Option Kind3 :=
  if t = 1 then some (.bwt jobs)
  else if t = 2 then some .bwts
  else if t = 9 then some .exe
  else if t = 10 then some .text
  else if t = 11 then some (if rolzx then .rolzx else .rolz)
  else if t = 12 then some .rolzx
  else if t = 17 then some .utf
  else (tokenKind fast dna t).map .old

def kindsOfTokens3 (fast rolzx : Bool) (jobs : Nat) : List Nat → Bool → Option (List Kind3)
  | [], _ => some []
  | t :: ts, dna =>
    match tokenKind3 fast dna rolzx jobs t, kindsOfTokens3 fast rolzx jobs ts (dna || t == 19) with
    | some k, some ks => some (k :: ks)
    | _, _ => Option.none

/-- Go: `transform.New(ctx, functionType)` in a stream whose entropy type is `e`, in a task with `jobs` jobs.
(The name of the stream contains "ROLZX" iff its type word has a ROLZX token: `GetType` maps names to tokens
one to one and no other name contains that string.) -/
def newSeq3 (ft e jobs : Nat) : Option (List Kind3) :=
  kindsOfTokens3 (fastEntropy e) ((seqTokens ft).contains 12) jobs (seqTokens ft) false

def cfgOfHeader3 (text : TextImpl) (jobs : Nat) (h : Header.Header) (skipBlocks : Bool) : Option Cfg2 :=
  match newSeq3 h.transformType h.entropyType jobs, entOf2 h.entropyType with
  | some ks, some ent => some ⟨32 * h.ckSize, kind3Trs text ks, ent, skipBlocks, some h.blockSize⟩
  | _, _ => Option.none

/-! ### whole stream -/

/-- read a whole stream from its bytes (one decoding task after the other, each with `jobs` jobs) -/
def parseImageGen3 (text : TextImpl) (jobs : Nat) (bytes : List Nat) :
    Option Header.Header × List (List Nat) × BlockGen.Stop :=
  match Header.parseHeader (ofBytes bytes) with
  | .error e => (Option.none, [], .header e)
  | .ok hr =>
    match cfgOfHeader3 text jobs hr.1 false with
    | Option.none => (some hr.1, [], .unsupported)
    | some c =>
      let r := decodeFrames c.toCfg hr.1.blockSize (parseFrames hr.1.blockSize (hr.2.length + 1) hr.2)
      (some hr.1, r.1, r.2)

end Kanzi.BlockGen3
