package main

import (
	"bytes"
	"encoding/binary"
	"fmt"
	"os"
	"time"

	"github.com/flanglet/kanzi-go/v2/transform"
)

func try(name string, src []byte) {
	defer func() {
		if r := recover(); r != nil {
			fmt.Printf("%s: PANIC %v\n", name, r)
		}
	}()
	t, _ := transform.NewEXECodec()
	dst := make([]byte, t.MaxEncodedLen(len(src)))
	orig := append([]byte{}, src...)
	rd, wr, err := t.Forward(src, dst)
	fmt.Printf("%s: read=%d written=%d err=%v\n", name, rd, wr, err)
	if err == nil {
		out := make([]byte, len(src))
		t2, _ := transform.NewEXECodec()
		r2, w2, e2 := t2.Inverse(dst[:wr], out)
		fmt.Printf("   inverse: read=%d written=%d err=%v equal=%v\n", r2, w2, e2, bytes.Equal(out[:w2], orig))
	}
}

func main() {
	which := "all"
	if len(os.Args) > 1 {
		which = os.Args[1]
	}
	if which == "all" || which == "elf" {
		// 1. ELF64 LE with posSection = 0x7FFFFFFFFFFFFFF0
		b := make([]byte, 8192)
		copy(b, []byte{0x7F, 'E', 'L', 'F', 2, 1, 1, 0})
		binary.LittleEndian.PutUint16(b[18:], 0x3E)
		binary.LittleEndian.PutUint64(b[0x28:], 0x7FFFFFFFFFFFFFF0)
		binary.LittleEndian.PutUint16(b[0x3A:], 64)
		binary.LittleEndian.PutUint16(b[0x3C:], 1)
		try("elf64-posSection-overflow", b)
	}
	if which == "all" || which == "scan" {
		// 2. no header, count = 3 mod 4, 0F 38 at count-9, count-8
		n := 4099
		b := make([]byte, n)
		for i := range b {
			b[i] = byte(i * 7)
		}
		b[n-9] = 0x0F
		b[n-8] = 0x38
		b[n-7] = 0x11
		try("scan-0f38-tail", b)
	}

	if which == "all" || which == "macho" {
		for _, is64 := range []bool{false, true} {
			for delta := 12; delta <= 0x48+0x3A; delta++ {
				n := 4096
				l := n - 4 // len of the slice seen by the parser
				b := make([]byte, n)
				for i := range b {
					b[i] = byte(i*13 + 5)
				}
				segHdr, lc, pos0 := 0x38, uint32(1), 0x1C
				if is64 {
					copy(b, []byte{0xCF, 0xFA, 0xED, 0xFE})
					segHdr, lc, pos0 = 0x48, 0x19, 0x20
				} else {
					copy(b, []byte{0xCE, 0xFA, 0xED, 0xFE})
				}
				binary.LittleEndian.PutUint32(b[4:], 0x01000007)
				binary.LittleEndian.PutUint32(b[12:], 2)
				binary.LittleEndian.PutUint32(b[0x10:], 2)
				pos := l - delta
				binary.LittleEndian.PutUint32(b[pos0:], 2)
				binary.LittleEndian.PutUint32(b[pos0+4:], uint32(pos-pos0))
				binary.LittleEndian.PutUint32(b[pos:], lc)
				binary.LittleEndian.PutUint32(b[pos+4:], 0x100)
				copy(b[pos+8:], "__TEXT\x00\x00")
				if pos+segHdr+8 <= n {
					copy(b[pos+segHdr:], "__text\x00\x00")
				}
				try(fmt.Sprintf("macho is64=%v len-pos=%d", is64, delta), b)
			}
		}
	}

	if which == "machspin" {
		// Mach-O with ncmds = 0xFFFFFFFF and a first command of size 0 that is not a segment
		b := make([]byte, 4096)
		copy(b, []byte{0xCF, 0xFA, 0xED, 0xFE})
		binary.LittleEndian.PutUint32(b[4:], 0x01000007)
		binary.LittleEndian.PutUint32(b[12:], 2)
		binary.LittleEndian.PutUint32(b[0x10:], 0xFFFFFFFF)
		binary.LittleEndian.PutUint32(b[0x20:], 2)
		binary.LittleEndian.PutUint32(b[0x24:], 0)
		t0 := time.Now()
		try("macho-ncmds-max-size0", b)
		fmt.Println("elapsed", time.Since(t0))
	}
	if which == "arm" {
		// 3. ARM64 B at p with p + 4*off == 2^28
		n := 1<<27 + 64
		b := make([]byte, n)
		copy(b, []byte{0x7F, 'E', 'L', 'F', 2, 1, 1, 0})
		binary.LittleEndian.PutUint16(b[18:], 0xB7)
		// no sections: nbEntries = 0 -> codeStart = 0, codeEnd = count-8
		// fill with 16+ real branches
		for k := 0; k < 32; k++ {
			binary.LittleEndian.PutUint32(b[4096+4*k:], 0x14000000|uint32(100+k))
		}
		p := 1<<27 + 8
		off := (1<<28 - p) / 4
		binary.LittleEndian.PutUint32(b[p:], 0x14000000|uint32(off))
		binary.LittleEndian.PutUint32(b[p+4:], 0xD503201F)
		binary.LittleEndian.PutUint32(b[p+8:], 0xDEADBEEF)
		try("arm-addr-2^28", b)
	}
}
