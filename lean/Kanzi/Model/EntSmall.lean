/-
Models of the small entropy-coding pieces of kanzi-go (property C12), over the abstract bit
strings of `Kanzi.Bits`.  Core Lean only (linked into `kmodel`).

  * `WriteVarInt` / `ReadVarInt`                      (v2/entropy/EntropyUtils.go)
  * `EncodeAlphabet` / `DecodeAlphabet`               (v2/entropy/EntropyUtils.go)
  * `NullEntropyEncoder.Write` / `NullEntropyDecoder.Read` (v2/entropy/NullEntropyCodec.go)
  * frequency headers: `ANSRangeEncoder.updateFrequencies`+`encodeHeader` / `ANSRangeDecoder.decodeHeader`
    for order 0, and `RangeEncoder.encodeHeader` / `RangeDecoder.decodeHeader`
  * one rANS symbol step: `encSymbol.reset`, `ANSRangeEncoder.encodeSymbol`,
    `decSymbol.reset`, `ANSRangeDecoder.decodeSymbol`   (v2/entropy/ANSRangeCodec.go)
  * (section `Ans0`, executable tie only, no theorem) the whole order-0 `ANSRangeEncoder.Write` /
    `ANSRangeDecoder.Read` (bitstream version ≥ 2: `decodeChunkV2`).

Conventions: an encoder is a function producing `Bits`; a decoder is `Bits → Option (value × Bits)`
returning the value and the REST of the bits.  Reading past the end (a Go panic of the input
bitstream) and every "Invalid bitstream" error of the Go code is `none`.
Bytes / symbols are `Nat` (< 256 by the callers' contract).
-/
import Kanzi.Spec.Bits
import Kanzi.Model.Normalize

namespace Kanzi.EntSmall
open Kanzi.Bits

/-! ### reading primitives (Go: `ReadBit`, `ReadBits(n)`, `ReadArray(buf, 8*n)`) -/

def readBit (bs : Bits) : Option (Bool × Bits) :=
  match bs with
  | [] => none
  | b :: r => some (b, r)

def readBits (n : Nat) (bs : Bits) : Option (Nat × Bits) :=
  if n ≤ bs.length then some (bitsNat (bs.take n), bs.drop n) else none

/-- the first `n` bytes of a bit string (each MSB first) -/
def bytesOf : Nat → Bits → List Nat
  | 0, _ => []
  | n + 1, bs => bitsNat (bs.take 8) :: bytesOf n (bs.drop 8)

def readBytes (n : Nat) (bs : Bits) : Option (List Nat × Bits) :=
  if 8 * n ≤ bs.length then some (bytesOf n bs, bs.drop (8 * n)) else none

/-! ### VarInt -/

/-- Go `WriteVarInt`: `for value >= 128 { WriteBits(0x80|(value&0x7F), 8); value >>= 7 }; WriteBits(value, 8)`.
    The argument is a `uint32`, so the loop runs at most 4 times: fuel 4 is exact for `v < 2^32`
    (with no fuel left the last `WriteBits(value, 8)` is all that remains). -/
def writeVarIntAux : Nat → Nat → Bits
  | 0, v => natBits v 8
  | k + 1, v =>
    if v ≥ 128 then natBits (0x80 ||| (v &&& 0x7F)) 8 ++ writeVarIntAux k (v >>> 7)
    else natBits v 8

def writeVarInt (v : Nat) : Bits := writeVarIntAux 4 v

/-- number of bytes written (the Go return value) -/
def varIntLen (v : Nat) : Nat := (writeVarInt v).length / 8

/-- Go `ReadVarInt`: 4 rounds of 7 payload bits, then a fifth byte of which only the low 4 bits
    are kept.  `k` = rounds left. -/
def readVarIntAux : Nat → Nat → Nat → Bits → Option (Nat × Bits)
  | 0, _, res, bs =>
    match readBits 8 bs with
    | none => none
    | some (value, r) => some (res ||| ((value &&& 0x0F) <<< 28), r)
  | k + 1, shift, res, bs =>
    match readBits 8 bs with
    | none => none
    | some (value, r) =>
      if value < 128 then some (res ||| ((value &&& 0x7F) <<< shift), r)
      else readVarIntAux k (shift + 7) (res ||| ((value &&& 0x7F) <<< shift)) r

def readVarInt (bs : Bits) : Option (Nat × Bits) := readVarIntAux 4 0 0 bs

/-! ### Alphabet -/

/-- Go: `masks[s>>3] |= 1 << (s&7)` -/
def setMask (m : List Nat) (s : Nat) : List Nat :=
  m.set (s >>> 3) (m.getD (s >>> 3) 0 ||| (1 <<< (s &&& 7)))

def mkMasks (a : List Nat) : List Nat := a.foldl setMask (List.replicate 32 0)

/-- the bits written by `EncodeAlphabet` (count ≤ 256, symbols < 256 increasing) -/
def encodeAlphabetBits (a : List Nat) : Bits :=
  if a.length = 0 then [false, true]            -- FULL_ALPHABET, ALPHABET_0
  else if a.length = 256 then [false, false]    -- FULL_ALPHABET, ALPHABET_256
  else
    -- PARTIAL_ALPHABET, 5 bits lastMask, then masks[0..lastMask] as an array
    true :: (natBits (a.getLastD 0 >>> 3) 5
              ++ arrayBits (mkMasks a) (8 * ((a.getLastD 0 >>> 3) + 1)))

/-- `EncodeAlphabet` with its only error -/
def encodeAlphabet (a : List Nat) : Option Bits :=
  if a.length > 256 then none else some (encodeAlphabetBits a)

/-- symbols flagged by one mask byte, `j = 0..7` ascending (Go: `(masks[i]>>j)&1`) -/
def maskSyms (m n : Nat) : List Nat :=
  (List.range 8).filterMap (fun j => if (m >>> j) &&& 1 = 0 then none else some (n + j))

def decodeMasksAux : List Nat → Nat → List Nat
  | [], _ => []
  | m :: ms, i => maskSyms m (8 * i) ++ decodeMasksAux ms (i + 1)

/-- Go `DecodeAlphabet` into a 256-entry buffer (the "incorrect alphabet size" errors need a
    shorter buffer: all call sites pass 256 entries, at most 256 flags can be set). -/
def decodeAlphabet (bs : Bits) : Option (List Nat × Bits) :=
  match readBit bs with
  | none => none
  | some (false, r) =>
    match readBit r with
    | none => none
    | some (true, r1) => some ([], r1)
    | some (false, r1) => some (List.range 256, r1)
  | some (true, r) =>
    match readBits 5 r with
    | none => none
    | some (lastMask, r1) =>
      match readBytes (lastMask + 1) r1 with
      | none => none
      | some (masks, r2) => some (decodeMasksAux masks 0, r2)

/-! ### Null entropy codec -/

/-- chunk limit of `NullEntropyEncoder.Write` / `NullEntropyDecoder.Read` (bytes) -/
def nullChunk : Nat := 8388608   -- 1 << 23

/-- sizes of the successive `WriteArray` / `ReadArray` calls for a block of `count` bytes -/
def nullChunksAux : Nat → Nat → List Nat
  | 0, _ => []
  | fuel + 1, count =>
    if count = 0 then []
    else min count nullChunk :: nullChunksAux fuel (count - min count nullChunk)

def nullChunks (count : Nat) : List Nat := nullChunksAux count count

/-- Go: `for count > 0 { ck := min(count, 1<<23); WriteArray(block[idx:], 8*ck); idx += ck; count -= ck }`.
    `blk` is `block[idx:]`. -/
def nullEncodeAux : Nat → List Nat → Bits
  | 0, _ => []
  | fuel + 1, blk =>
    if blk.length = 0 then []
    else arrayBits blk (8 * min blk.length nullChunk)
           ++ nullEncodeAux fuel (blk.drop (min blk.length nullChunk))

def nullEncode (blk : List Nat) : Bits := nullEncodeAux blk.length blk

def nullDecodeAux : Nat → Nat → Bits → Option (List Nat × Bits)
  | 0, _, bs => some ([], bs)
  | fuel + 1, count, bs =>
    if count = 0 then some ([], bs)
    else
      match readBytes (min count nullChunk) bs with
      | none => none
      | some (chunk, r) =>
        match nullDecodeAux fuel (count - min count nullChunk) r with
        | none => none
        | some (tl, r') => some (chunk ++ tl, r')

/-- `NullEntropyDecoder.Read(block)` with `len(block) = count` -/
def nullDecode (bs : Bits) (count : Nat) : Option (List Nat × Bits) := nullDecodeAux count count bs

/-! ### Frequency headers (ANS order 0, Range) -/

/-- Go: `for 1<<k <= v { k++ }` started at `k` -/
def logLoop : Nat → Nat → Nat → Nat
  | 0, k, _ => k
  | fuel + 1, k, v => if 2 ^ k ≤ v then logLoop fuel (k + 1) v else k

/-- Go: `llr := 3; for 1<<llr <= lr { llr++ }` -/
def llrOf (lr : Nat) : Nat := logLoop (lr + 1) 3 lr

/-- Go: `logMax := 0; for 1<<logMax <= max { logMax++ }` -/
def logMaxOf (mx : Nat) : Nat := logLoop (mx + 1) 0 mx

/-- Go: `max := f[i]-1; for j … if f[j]-1 > max { max = f[j]-1 }` -/
def chunkMax (c : List Nat) : Nat := (c.map (· - 1)).foldl max 0

/-- frequencies of one chunk with `logMax` bits each (nothing when they are all 1) -/
def encFreqs (logMax : Nat) (c : List Nat) : Bits :=
  if logMax = 0 then [] else c.flatMap (fun f => natBits (f - 1) logMax)

/-- the chunk loop `for i := 1; i < alphabetSize; i += chkSize` over the frequencies
    `fs = [f[alphabet[1]], f[alphabet[2]], …]` -/
def encFreqChunks : Nat → Nat → Nat → List Nat → Bits
  | 0, _, _, _ => []
  | fuel + 1, chk, llr, fs =>
    if fs.length = 0 then []
    else
      natBits (logMaxOf (chunkMax (fs.take chk))) llr
        ++ encFreqs (logMaxOf (chunkMax (fs.take chk))) (fs.take chk)
        ++ encFreqChunks fuel chk llr (fs.drop chk)

def chkSizeOf (alphabetSize : Nat) : Nat := if alphabetSize < 64 then 6 else 8

/-- the part common to both coders: all frequencies but the first, by chunks.
    `f` is the Go table `frequencies[0..255]`, `a` the alphabet. -/
def encodeFreqs (a f : List Nat) (lr : Nat) : Bits :=
  encFreqChunks a.length (chkSizeOf a.length) (llrOf lr) ((a.drop 1).map (fun s => f.getD s 0))

/-- ANS order 0: `updateFrequencies` writes `lr-8` on 3 bits, then `encodeHeader` writes the
    alphabet and (if it has more than one symbol) the frequencies -/
def ansEncodeHeader (a f : List Nat) (lr : Nat) : Bits :=
  natBits (lr - 8) 3 ++ encodeAlphabetBits a ++ (if a.length ≤ 1 then [] else encodeFreqs a f lr)

/-- Range: alphabet, then (if not empty) `lr-8` on 3 bits and the frequencies -/
def rangeEncodeHeader (a f : List Nat) (lr : Nat) : Bits :=
  encodeAlphabetBits a ++ (if a.length = 0 then [] else natBits (lr - 8) 3 ++ encodeFreqs a f lr)

/-- read `n` frequencies of `logMax` bits; `bound` is the Go `scale` of the check
    `freq >= scale` -/
def decFreqs : Nat → Nat → Nat → Bits → Option (List Nat × Bits)
  | 0, _, _, bs => some ([], bs)
  | n + 1, logMax, bound, bs =>
    if logMax = 0 then
      match decFreqs n logMax bound bs with
      | none => none
      | some (tl, r) => some (1 :: tl, r)
    else
      match readBits logMax bs with
      | none => none
      | some (v, r) =>
        if 1 + v ≥ bound then none
        else
          match decFreqs n logMax bound r with
          | none => none
          | some (tl, r') => some ((1 + v) :: tl, r')

/-- the decoder's chunk loop; `count` = frequencies still to read.  `scale` is used by the check
    `1<<logMax > scale`, `bound` by `freq >= scale` (the Go code uses the same value for both) -/
def decFreqChunks : Nat → Nat → Nat → Nat → Nat → Nat → Bits → Option (List Nat × Bits)
  | 0, _, _, _, _, _, bs => some ([], bs)
  | fuel + 1, chk, llr, scale, bound, count, bs =>
    if count = 0 then some ([], bs)
    else
      match readBits llr bs with
      | none => none
      | some (logMax, r) =>
        if 2 ^ logMax > scale then none
        else
          match decFreqs (min chk count) logMax bound r with
          | none => none
          | some (c, r1) =>
            match decFreqChunks fuel chk llr scale bound (count - min chk count) r1 with
            | none => none
            | some (tl, r2) => some (c ++ tl, r2)

/-- Go: `f[alphabet[j]] = freq` for the listed symbols -/
def setFreqs (tbl : List Nat) (a fs : List Nat) : List Nat :=
  (a.zip fs).foldl (fun t p => t.set p.1 p.2) tbl

/-- common tail of both header decoders once the alphabet `a` (non empty) and `lr` are known:
    the other frequencies, then "Infer first frequency".  The table starts from zeros
    (`clear(f)`; for a full alphabet every entry is overwritten anyway). -/
def decodeFreqTable (a : List Nat) (lr : Nat) (bs : Bits) : Option (List Nat × Bits) :=
  match decFreqChunks a.length (chkSizeOf a.length) (llrOf lr) (2 ^ lr) (2 ^ lr) (a.length - 1) bs with
  | none => none
  | some (fs, r) =>
    if 2 ^ lr ≤ fs.sum then none
    else some ((setFreqs (List.replicate 256 0) (a.drop 1) fs).set (a.headD 0) (2 ^ lr - fs.sum), r)

/-- `ANSRangeDecoder.decodeHeader` (order 0): returns (alphabet, table, logRange).
    The test `logRange > 16` can never fire (3 bits).  An empty alphabet returns a zero table
    (the Go code leaves the table untouched and the caller stops). -/
def ansDecodeHeader (bs : Bits) : Option ((List Nat × List Nat × Nat) × Bits) :=
  match readBits 3 bs with
  | none => none
  | some (l, r) =>
    match decodeAlphabet r with
    | none => none
    | some (a, r1) =>
      if a.length = 0 then some (([], List.replicate 256 0, 8 + l), r1)
      else
        match decodeFreqTable a (8 + l) r1 with
        | none => none
        | some (tbl, r2) => some ((a, tbl, 8 + l), r2)

/-- `RangeDecoder.decodeHeader`; for an empty alphabet no log range is read (reported as 0) -/
def rangeDecodeHeader (bs : Bits) : Option ((List Nat × List Nat × Nat) × Bits) :=
  match decodeAlphabet bs with
  | none => none
  | some (a, r) =>
    if a.length = 0 then some (([], List.replicate 256 0, 0), r)
    else
      match readBits 3 r with
      | none => none
      | some (l, r1) =>
        match decodeFreqTable a (8 + l) r1 with
        | none => none
        | some (tbl, r2) => some ((a, tbl, 8 + l), r2)

/-! ### one rANS step -/

def ansTop : Nat := 32768   -- _ANS_TOP = 1 << 15

structure EncSym where
  xMax : Nat
  bias : Nat
  cmplFreq : Nat
  invShift : Nat
  invFreq : Nat
deriving Repr, DecidableEq

/-- Go: `shift := 0; for freq > 1<<shift { shift++ }` -/
def shiftLoop : Nat → Nat → Nat → Nat
  | 0, s, _ => s
  | fuel + 1, s, freq => if freq > 2 ^ s then shiftLoop fuel (s + 1) freq else s

def shiftOf (freq : Nat) : Nat := shiftLoop freq 0 freq

/-- Go `encSymbol.reset(cumFreq, freq, logRange)` -/
def encSymReset (cumFreq freq lr : Nat) : EncSym :=
  let fr := min freq (2 ^ lr - 1)
  if fr < 2 then
    { xMax := ((ansTop >>> lr) <<< 16) * fr, cmplFreq := 2 ^ lr - fr,
      invFreq := 0xFFFFFFFF, invShift := 32, bias := cumFreq + 2 ^ lr - 1 }
  else
    { xMax := ((ansTop >>> lr) <<< 16) * fr, cmplFreq := 2 ^ lr - fr,
      invFreq := ((2 ^ (shiftOf fr + 31) + (fr - 1)) / fr) &&& 0xFFFFFFFF,
      invShift := 32 + shiftOf fr - 1, bias := cumFreq }

/-- Go `encodeSymbol` on the state only: returns the 16-bit words pushed to the buffer (none or
    one: low 16 bits of the state, stored big endian) and the new state -/
def encodeStep (st : Nat) (sym : EncSym) : List Nat × Nat :=
  if st ≥ sym.xMax then
    ([st &&& 0xFFFF],
     (st >>> 16) + sym.bias + (((st >>> 16) * sym.invFreq) >>> sym.invShift) * sym.cmplFreq)
  else
    ([], st + sym.bias + ((st * sym.invFreq) >>> sym.invShift) * sym.cmplFreq)

structure DecSym where
  cumFreq : Nat
  freq : Nat
deriving Repr, DecidableEq

/-- Go `decSymbol.reset` -/
def decSymReset (cumFreq freq lr : Nat) : DecSym := ⟨cumFreq, min freq (2 ^ lr - 1)⟩

/-- Go `decodeSymbol`: `ws` = the 16-bit words still unread in the buffer (the Go code reads
    zeroed guard bytes past the payload: `headD 0`) -/
def decodeStep (st : Nat) (sym : DecSym) (lr : Nat) (ws : List Nat) : Nat × List Nat :=
  let st1 := sym.freq * (st >>> lr) + (st &&& (2 ^ lr - 1)) - sym.cumFreq
  if st1 < ansTop then ((st1 <<< 16) ||| ws.headD 0, ws.tail) else (st1, ws)

/-! ### whole order-0 ANS codec (executable tie through the `entsmall` stream; no theorem) -/
section Ans0

def histogram (blk : List Nat) : List Nat :=
  (blk.foldl (fun (h : Array Nat) b => h.modify b (· + 1)) (Array.replicate 256 0)).toList

/-- `updateFrequencies`: `symb[i].reset(sum, f[i], lr)` for the present symbols -/
def mkEncSyms (f : List Nat) (lr : Nat) : Array EncSym :=
  (f.foldl (fun (p : Array EncSym × Nat) fi =>
      if fi = 0 then (p.1.push ⟨0, 0, 0, 0, 0⟩, p.2)
      else (p.1.push (encSymReset p.2 fi lr), p.2 + fi)) (#[], 0)).1

def wordBytes (ws : List Nat) : List Nat := ws.flatMap (fun w => [w >>> 8, w &&& 0xFF])

structure EncSt where
  st0 : Nat
  st1 : Nat
  st2 : Nat
  st3 : Nat
  out : List Nat      -- bytes `buffer[n+1:]`, in stream order

/-- one round `i` of the order-0 loop of `encodeChunk` (symbols `i, i-1, i-2, i-3`) -/
def encRound (blk : Array Nat) (syms : Array EncSym) (i : Nat) (s : EncSt) : EncSt :=
  let dflt : EncSym := ⟨0, 0, 0, 0, 0⟩
  let e0 := encodeStep s.st0 (syms.getD (blk.getD i 0) dflt)
  let o0 := wordBytes e0.1 ++ s.out
  let e1 := encodeStep s.st1 (syms.getD (blk.getD (i - 1) 0) dflt)
  let o1 := wordBytes e1.1 ++ o0
  let e2 := encodeStep s.st2 (syms.getD (blk.getD (i - 2) 0) dflt)
  let o2 := wordBytes e2.1 ++ o1
  let e3 := encodeStep s.st3 (syms.getD (blk.getD (i - 3) 0) dflt)
  let o3 := wordBytes e3.1 ++ o2
  ⟨e0.2, e1.2, e2.2, e3.2, o3⟩

/-- `for i := end4-1; i > 0; i -= 4` -/
def encRounds (blk : Array Nat) (syms : Array EncSym) : Nat → Nat → EncSt → EncSt
  | 0, _, s => s
  | fuel + 1, i, s => if i > 0 then encRounds blk syms fuel (i - 4) (encRound blk syms i s) else s

/-- `encodeChunk` (order 0): varint payload size, the four final states, the payload -/
def ans0EncodeChunk (blk : List Nat) (syms : Array EncSym) : Bits :=
  let end4 := (blk.length / 4) * 4
  let s := encRounds blk.toArray syms (blk.length / 4 + 1) (end4 - 1)
            ⟨ansTop, ansTop, ansTop, ansTop, blk.drop end4⟩
  writeVarInt s.out.length ++ natBits s.st0 32 ++ natBits s.st1 32 ++ natBits s.st2 32
    ++ natBits s.st3 32 ++ ofBytes s.out

/-- one chunk of `Write`: `rebuildStatistics` (histogram, `NormalizeFrequencies`, header) and,
    when more than one symbol is present, the payload.  `none` = an error of the Go code. -/
def ans0EncodeOneChunk (blk : List Nat) (lr : Nat) : Option Bits :=
  match Kanzi.Normalize.normalize (histogram blk) blk.length (2 ^ lr) with
  | .err _ => none
  | .ok o =>
    some (ansEncodeHeader o.alphabet o.freqs lr
          ++ (if o.size > 1 then ans0EncodeChunk blk (mkEncSyms o.freqs lr) else []))

def ans0EncodeChunks : Nat → Nat → Nat → List Nat → Option Bits
  | 0, _, _, _ => some []
  | fuel + 1, chunkSize, lr, blk =>
    if blk.length = 0 then some []
    else
      match ans0EncodeOneChunk (blk.take chunkSize) lr with
      | none => none
      | some b =>
        match ans0EncodeChunks fuel chunkSize lr (blk.drop chunkSize) with
        | none => none
        | some tl => some (b ++ tl)

/-- `ANSRangeEncoder.Write(block)` for order 0 (`chunkSize ≥ 1024`) -/
def ans0Encode (blk : List Nat) (chunkSize lr : Nat) : Option Bits :=
  if blk.length ≤ 32 then some (arrayBits blk (8 * blk.length))
  else ans0EncodeChunks blk.length chunkSize lr blk

/-- `freq2sym` and `symbols` of the decoder: slot → (symbol, decSymbol) -/
def mkDecTable (f : List Nat) (lr : Nat) : Array (Nat × DecSym) :=
  ((f.foldl (fun (p : Array (Nat × DecSym) × Nat × Nat) fi =>
      if fi = 0 then (p.1, p.2.1, p.2.2 + 1)
      else (p.1 ++ Array.replicate fi (p.2.2, decSymReset p.2.1 fi lr), p.2.1 + fi, p.2.2 + 1))
    (#[], 0, 0)).1)

structure DecSt where
  st0 : Nat
  st1 : Nat
  st2 : Nat
  st3 : Nat
  ws : List Nat       -- unread payload bytes `buffer[n:]`

def bytesWords : List Nat → List Nat
  | [] => []
  | [b] => [b <<< 8]
  | b :: c :: r => ((b <<< 8) ||| c) :: bytesWords r

/-- `decodeSymbol` on the byte buffer -/
def decodeStepB (st : Nat) (sym : DecSym) (lr : Nat) (buf : List Nat) : Nat × List Nat :=
  let st1 := sym.freq * (st >>> lr) + (st &&& (2 ^ lr - 1)) - sym.cumFreq
  if st1 < ansTop then ((st1 <<< 16) ||| (buf.headD 0 <<< 8) ||| (buf.tail.headD 0), buf.tail.tail)
  else (st1, buf)

def decRound (tbl : Array (Nat × DecSym)) (lr : Nat) (s : DecSt) : List Nat × DecSt :=
  let mask := 2 ^ lr - 1
  let dflt : Nat × DecSym := (0, ⟨0, 0⟩)
  let c3 := tbl.getD (s.st3 &&& mask) dflt
  let d3 := decodeStepB s.st3 c3.2 lr s.ws
  let c2 := tbl.getD (s.st2 &&& mask) dflt
  let d2 := decodeStepB s.st2 c2.2 lr d3.2
  let c1 := tbl.getD (s.st1 &&& mask) dflt
  let d1 := decodeStepB s.st1 c1.2 lr d2.2
  let c0 := tbl.getD (s.st0 &&& mask) dflt
  let d0 := decodeStepB s.st0 c0.2 lr d1.2
  ([c3.1, c2.1, c1.1, c0.1], ⟨d0.1, d1.1, d2.1, d3.1, d0.2⟩)

def decRounds (tbl : Array (Nat × DecSym)) (lr : Nat) : Nat → DecSt → List Nat × DecSt
  | 0, s => ([], s)
  | n + 1, s =>
    let r := decRound tbl lr s
    let t := decRounds tbl lr n r.2
    (r.1 ++ t.1, t.2)

/-- `decodeChunkV2` (order 0) for a chunk of `len` bytes -/
def ans0DecodeChunk (tbl : Array (Nat × DecSym)) (lr len : Nat) (bs : Bits) : Option (List Nat × Bits) :=
  match readVarInt bs with
  | none => none
  | some (sz, r) =>
    if sz ≥ 2 ^ 27 then none
    else
      match readBits 32 r with
      | none => none
      | some (st0, r0) =>
      match readBits 32 r0 with
      | none => none
      | some (st1, r1) =>
      match readBits 32 r1 with
      | none => none
      | some (st2, r2) =>
      match readBits 32 r2 with
      | none => none
      | some (st3, r3) =>
        if len = 0 then some ([], r3)
        else
          match readBytes sz r3 with
          | none => none
          | some (buf, r4) =>
            let d := decRounds tbl lr (len / 4) ⟨st0, st1, st2, st3, buf⟩
            some (d.1 ++ (d.2.ws ++ List.replicate 4 0).take (len % 4), r4)

def ans0DecodeChunks : Nat → Nat → Nat → Bits → Option (List Nat × Bits)
  | 0, _, _, bs => some ([], bs)
  | fuel + 1, chunkSize, count, bs =>
    if count = 0 then some ([], bs)
    else
      match ansDecodeHeader bs with
      | none => none
      | some ((a, f, lr), r) =>
        if a.length = 0 then some ([], r)
        else
          let len := min chunkSize count
          let chunk : Option (List Nat × Bits) :=
            if a.length = 1 then some (List.replicate len (a.headD 0), r)
            else ans0DecodeChunk (mkDecTable f lr) lr len r
          match chunk with
          | none => none
          | some (c, r1) =>
            match ans0DecodeChunks fuel chunkSize (count - len) r1 with
            | none => none
            | some (tl, r2) => some (c ++ tl, r2)

/-- `ANSRangeDecoder.Read(block)` for order 0, `len(block) = count` -/
def ans0Decode (bs : Bits) (count chunkSize : Nat) : Option (List Nat × Bits) :=
  if count ≤ 32 then readBytes count bs else ans0DecodeChunks count chunkSize count bs

end Ans0

end Kanzi.EntSmall
