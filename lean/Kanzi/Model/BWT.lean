/-
Model of the Burrows-Wheeler transform as the stream uses it:
`/repo/v2/transform/BWT.go` (Inverse, inverseMergeTPSI, inverseBiPSIv2, inverseBiPSIv2Task,
GetBWTChunks, MaxEncodedLen) and `/repo/v2/transform/BWTBlockCodec.go` (Forward / Inverse header
handling for bitstream version 6, MaxEncodedLen).  Core Lean only (linked into `kmodel`).

NOT modelled: the forward suffix sort (`DivSufSort.go`, 2680 lines).  It is replaced by the
SPECIFICATION `sa` / `bwtData` / `bwtIndexes` below (suffixes of the block sorted with the implicit
end marker = a proper prefix is smaller), which the `bwt` stream ties to the real `BWT.Forward`
differentially.  Also not modelled: the `bsVersion <= 5` header branch of `BWTBlockCodec.Inverse`.

Conventions
* bytes are `Nat` below 256, buffers are `Array Nat` (the inverse algorithms are table driven; lists
  would make the executable model quadratic).  `this.buffer` (`[]int32`) is an `Array Nat`: every value
  the code stores there is non-negative and below 2^31 for the block sizes the code accepts.
* `this.buffer` survives between calls on one instance and is only reallocated when too small, so
  every entry point takes the old buffer and returns the new one (a fresh instance has `#[]`).
* a Go run-time panic is `.fault`, an endless loop is `.hang`, a returned error is `.err <class>`.
* `uint` primary indexes are `Nat` below 2^64; `int(x)` of a value at or above 2^63 is negative.
-/
import Kanzi.Model.Jobs

namespace Kanzi.BWT

/-- result of a call: value, returned error, run-time panic, endless loop -/
inductive Res (α : Type) where
  | ok (a : α)
  | err (e : String)
  | fault
  | hang
deriving Repr, BEq, DecidableEq

def Res.bind {α β : Type} (r : Res α) (f : α → Res β) : Res β :=
  match r with
  | .ok a => f a
  | .err e => .err e
  | .fault => .fault
  | .hang => .hang

/-- an `Option` whose `none` is an index out of range -/
def Res.ofOpt {α : Type} : Option α → Res α
  | some a => .ok a
  | none => .fault

/-! ## constants (tied to the Go source by `Kanzi.Generated.Consts`, see Properties/C13_bwt.lean) -/

def MAX_BLOCK_SIZE : Nat := 1024 * 1024 * 1024
def NB_FASTBITS : Nat := 17
def MASK_FASTBITS : Nat := (1 <<< NB_FASTBITS) - 1
def THRESHOLD1 : Nat := 256
def THRESHOLD2 : Nat := 4 * 1024 * 1024
def MAX_HEADER_SIZE : Nat := 1 + 8 * 4

/-- `GetBWTChunks` -/
def getBWTChunks (size : Nat) : Nat := if size < THRESHOLD1 then 1 else 8

/-- `BWT.MaxEncodedLen` -/
def bwtMaxEncodedLen (srcLen : Nat) : Nat := srcLen

/-- `BWTBlockCodec.MaxEncodedLen` -/
def maxEncodedLen (srcLen : Nat) : Nat := srcLen + MAX_HEADER_SIZE

/-! ## SPEC of the forward transform (stands for DivSufSort.ComputeBWT)

`sa s` lists the start positions of the suffixes of `s` in increasing lexicographic order, a proper
prefix being smaller (the "implicit end marker").  With `SA'` = `n :: sa s` (the empty suffix first),
`BWT'[r] = s[SA'[r] - 1]` and the row `P` with `SA'[P] = 0` carries the end marker; the code outputs
`BWT'` without row `P` and `P` as primary index; chunk `k` gets the row of suffix `k * step`. -/

def sufLe (s : List Nat) (i j : Nat) : Bool := decide (s.drop i ≤ s.drop j)

def sa (s : List Nat) : List Nat := (List.range s.length).mergeSort (sufLe s)

/-- `step` of `DivSufSort.constructBWT` = `ckSize` of the inverse algorithms -/
def chunkSize (n chunks : Nat) : Nat := if (n / chunks) * chunks ≠ n then n / chunks + 1 else n / chunks

/-- the output bytes of `BWT.Forward` for a block of at least 2 bytes -/
def bwtData (s : List Nat) : List Nat :=
  s.getLastD 0 :: ((sa s).filter (· ≠ 0)).map (fun i => s.getD (i - 1) 0)

/-- row (in `SA'`) of the suffix starting at `i` -/
def rowOf (s : List Nat) (i : Nat) : Nat := (sa s).idxOf i + 1

/-- `primaryIndexes[0 .. chunks)` after `BWT.Forward` for a block of at least 2 bytes -/
def bwtIndexes (s : List Nat) : List Nat :=
  (List.range (getBWTChunks s.length)).map
    (fun k => rowOf s (k * chunkSize s.length (getBWTChunks s.length)))

/-- `BWT.Forward` (spec): output bytes and the 8 primary index slots (`old` = slots before the call).
A one byte block is copied and leaves the indexes alone. -/
def bwtSpec (old : List Nat) (s : List Nat) : List Nat × List Nat :=
  if s.length ≤ 1 then (s, old)
  else (bwtData s, bwtIndexes s ++ old.drop (getBWTChunks s.length))

/-! ## BWTBlockCodec header -/

/-- `internal.Log2NoCheck` on a positive 32 bit value -/
def log2 (x : Nat) : Nat := Nat.log2 x

/-- `pIndexSize` of `BWTBlockCodec.Forward` -/
def pIndexSizeOf (blockSize : Nat) : Nat :=
  let l := log2 blockSize
  let l := if blockSize &&& (blockSize - 1) ≠ 0 then l + 1 else l
  (l + 7) >>> 3

/-- big endian bytes of `v` on `k` bytes: `for shift >= 0 { dst[idx] = byte(v >> shift); shift -= 8 }` -/
def beBytes : (k : Nat) → (v : Nat) → List Nat
  | 0, _ => []
  | k + 1, v => (v >>> (8 * k)) % 256 :: beBytes k v

/-- `primaryIndex = (primaryIndex << 8) | uint(src[idx])` over `k` bytes -/
def beValue (acc : Nat) : List Nat → Nat
  | [] => acc
  | b :: bs => beValue (acc * 256 + b) bs

/-- the header bytes: mode, then `PrimaryIndex(i) - 1` (as `uint`) on `psz` bytes for each chunk -/
def headerBytes (chunks psz : Nat) (pidx : List Nat) : List Nat :=
  ((log2 chunks) <<< 2 ||| (psz - 1)) % 256 ::
    ((List.range chunks).map (fun i => beBytes psz ((pidx.getD i 0 + 2 ^ 64 - 1) % 2 ^ 64))).flatten

/-- `BWTBlockCodec.Forward(src, dst)` with `len(dst) = dstLen`, the forward BWT given by the SPEC.
Returns the produced bytes (`oIdx + headerSize` of them). -/
def blockForward (s : List Nat) (dstLen : Nat) : Res (List Nat) :=
  if s.length = 0 ∨ dstLen = 0 then .ok []
  else if dstLen < maxEncodedLen s.length then .err "dst"
  else
    let psz := pIndexSizeOf s.length
    if psz = 0 ∨ psz ≥ 5 then .err "idxsize"
    else
      let chunks := getBWTChunks s.length
      if log2 chunks > 7 then .err "chunks"
      else if s.length > MAX_BLOCK_SIZE then .err "size"
      else
        let r := bwtSpec (List.replicate 8 0) s
        .ok (headerBytes chunks psz r.2 ++ r.1)

/-- what `BWTBlockCodec.Inverse` extracts from the header: the primary index slots that were set and
the offset of the data -/
structure Header where
  pidx : List Nat
  headerSize : Nat
deriving Repr, BEq, DecidableEq

/-- the header part of `BWTBlockCodec.Inverse` (bsVersion 6); `old` = the 8 index slots before,
`pre` = the first bytes of `src` (at least the header, at most 33 bytes matter), `len` = `len(src)` -/
def parseHeaderN (old : List Nat) (pre : List Nat) (len : Nat) : Res Header :=
  let mode := pre.headD 0
  let logNbChunks := (mode >>> 2) &&& 7
  let psz := (mode &&& 3) + 1
  let chunks := 1 <<< logNbChunks
  let headerSize := chunks * psz + 1
  if len < headerSize then .err "hdrsize"
  else if chunks ≠ getBWTChunks (len - headerSize) then .err "chunks"
  else
    -- chunks is 1 or 8 here, so `SetPrimaryIndex(i, ..)` never refuses
    let vals := (List.range chunks).map (fun i => beValue 0 ((pre.drop (1 + i * psz)).take psz) + 1)
    .ok { pidx := vals ++ old.drop chunks, headerSize := headerSize }

def parseHeader (old : List Nat) (src : List Nat) : Res Header := parseHeaderN old src src.length

/-! ## helpers on arrays -/

/-- `if len(this.buffer) < minLenBuf { this.buffer = make([]int32, minLenBuf) }` -/
def ensureBuf (buf : Array Nat) (minLen : Nat) : Array Nat :=
  if buf.size < minLen then Array.replicate minLen 0 else buf

/-- `internal.ComputeHistogram(src, freqs[:], true, false)` on a zeroed `[256]int` -/
def histogram (src : Array Nat) : Array Nat :=
  src.foldl (fun h b => h.modify b (· + 1)) (Array.replicate 256 0)

/-- `for i, b := range &buckets { tmp := b; buckets[i] = sum; sum += tmp }` starting from `sum = start` -/
def exclSums (h : Array Nat) (start : Nat) : Array Nat :=
  ((List.range 256).foldl (fun (st : Nat × Array Nat) c => (st.1 + h.getD c 0, st.2.push st.1))
    (start, Array.emptyWithCapacity 256)).2

/-- `int32(x)` of a `uint` -/
def toInt32 (x : Nat) : Int :=
  let v : Nat := x % 2 ^ 32
  if v < 2 ^ 31 then Int.ofNat v else Int.ofNat v - 2 ^ 32

/-- `x - 1` on `uint` -/
def usub1 (x : Nat) : Nat := (x + 2 ^ 64 - 1) % 2 ^ 64

/-! ## inverseMergeTPSI (blocks of at most 4 MiB) -/

/-- `data[buckets[val]] = word; buckets[val]++` -/
def put (bk data : Array Nat) (val word : Nat) : Option (Array Nat × Array Nat) :=
  if hv : val < bk.size then
    let b := bk[val]
    if b < data.size then some (bk.set val (b + 1) hv, data.setIfInBounds b word) else none
  else none

/-- `for i := lo; i < lo + k; i++ { val := src[i]; data[buckets[val]] = int32((i-off)<<8) | val; buckets[val]++ }` -/
def fillRange (src : Array Nat) (off : Nat) : (k i : Nat) → Array Nat → Array Nat → Option (Array Nat × Array Nat)
  | 0, _, bk, data => some (bk, data)
  | k + 1, i, bk, data =>
    if h : i < src.size then
      match put bk data src[i] ((i - off) * 256 + src[i]) with
      | none => none
      | some (bk', data') => fillRange src off k (i + 1) bk' data'
    else none

/-- one decoding lane: position `t` in `data` and the bytes written so far to its slice of `dst`:
`ptr := data[t]; d[n] = byte(ptr); t = ptr >> 8` -/
def laneStep (data : Array Nat) : Nat × Array Nat → Option (Nat × Array Nat)
  | (t, d) => if h : t < data.size then some (data[t] / 256, d.push (data[t] % 256)) else none

/-- `k` iterations of the decoding loop over all lanes -/
def lanesRun (data : Array Nat) : Nat → List (Nat × Array Nat) → Option (List (Nat × Array Nat))
  | 0, ls => some ls
  | k + 1, ls =>
    match ls.mapM (laneStep data) with
    | none => none
    | some ls' => lanesRun data k ls'

def concatLanes (ls : List (Nat × Array Nat)) : Array Nat :=
  ls.foldl (fun acc l => acc ++ l.2) #[]

/-- the decoding half of `inverseMergeTPSI`: `data` is the filled table, `p0` the first primary index -/
def mergeDecode (data : Array Nat) (pidx : List Nat) (count p0 : Nat) : Res (Array Nat) :=
  if getBWTChunks count ≠ 8 then
    match lanesRun data count [(p0 - 1, Array.emptyWithCapacity count)] with
    | none => .fault
    | some ls => .ok (concatLanes ls)
  else
    let ck := if (count >>> 3) * 8 ≠ count then (count >>> 3) + 1 else count >>> 3
    let ts := (List.range 8).map (fun k => toInt32 (usub1 (pidx.getD k 0)))
    if ts.any (· < 0) then .err "pidx"
    else if ts.any (fun t => t ≥ toInt32 data.size) then .err "pidx"
    else if 7 * ck > count then .fault   -- d7 := dst[7*ckSize : count]
    else
      let fin := count - ck * 7
      match lanesRun data fin (ts.map (fun t => (t.toNat, Array.emptyWithCapacity ck))) with
      | none => .fault
      | some ls1 =>
      match lanesRun data (ck - fin) (ls1.take 7) with
      | none => .fault
      | some ls2 => .ok (concatLanes (ls2 ++ ls1.drop 7))

/-- `BWT.inverseMergeTPSI(src, dst, count)` with `count = len(src) >= 2`, `len(dst) >= count`.
Returns the `count` bytes written to `dst` and the new `this.buffer`. -/
def mergeTPSI (buf : Array Nat) (pidx : List Nat) (src : Array Nat) : Res (Array Nat) × Array Nat :=
  let count := src.size
  let p0 := pidx.getD 0 0
  -- pIdx := int(PrimaryIndex(0)); if pIdx <= 0 || pIdx > len(src)
  if p0 = 0 ∨ p0 ≥ 2 ^ 63 ∨ p0 > count then (.err "pidx", buf)
  else
    let data := ensureBuf buf (max count 256)
    let bk := exclSums (histogram src) 0
    let v0 := src.getD 0 0
    match put bk data v0 (0xFF00 + v0) with
    | none => (.fault, #[])
    | some (bk, data) =>
    match fillRange src 1 (p0 - 1) 1 bk data with
    | none => (.fault, #[])
    | some (bk, data) =>
    match fillRange src 0 (count - p0) p0 bk data with
    | none => (.fault, #[])
    | some (_, data) => (mergeDecode data pidx count p0, data)

/-! ## inverseBiPSIv2 (blocks above 4 MiB) -/

/-- `for i := lo; i < lo + k; i++ { ptr[src[i]]++ }` with `ptr = buckets[base:]` -/
def incRange (src : Array Nat) (base : Nat) : (k i : Nat) → Array Nat → Option (Array Nat)
  | 0, _, bk => some bk
  | k + 1, i, bk =>
    if h : i < src.size then
      if base + src[i] < bk.size then incRange src base k (i + 1) (bk.modify (base + src[i]) (· + 1))
      else none
    else none

/-- first loop over `c`: `freqs[c]` becomes the first row of symbol `c`, `buckets[c<<8|d]` the number
of rows of `c` whose BWT symbol is `d` (the row `pIdx` of the end marker excluded).
State: `c` (from `256 - k`), `sum`, `freqs` (rebuilt by push), `buckets`. -/
def biHist (src hist : Array Nat) (pIdx : Nat) : (k c sum : Nat) → Array Nat → Array Nat → Option (Array Nat × Array Nat)
  | 0, _, _, fr, bk => some (fr, bk)
  | k + 1, c, sum, fr, bk =>
    let f := sum
    let sum := sum + hist.getD c 0
    let fr := fr.push f
    if f ≠ sum then
      let hi := min sum pIdx
      let lo := max (f - 1) pIdx
      match incRange src (c <<< 8) (hi - f) f bk with
      | none => none
      | some bk =>
      match incRange src (c <<< 8) (sum - 1 - lo) lo bk with
      | none => none
      | some bk => biHist src hist pIdx k (c + 1) sum fr bk
    else biHist src hist pIdx k (c + 1) sum fr bk

/-- `for (count >> shift) > _BWT_MASK_FASTBITS { shift++ }` -/
def shiftLoop (count : Nat) : (fuel shift : Nat) → Nat
  | 0, shift => shift
  | f + 1, shift => if (count >>> shift) > MASK_FASTBITS then shiftLoop count f (shift + 1) else shift

def shiftOf (count : Nat) : Nat := shiftLoop count 64 0

/-- `for v <= ve { fastBits[v] = fb; v++ }` -/
def fbFill (fb ve : Nat) : (fuel v : Nat) → Array Nat → Option (Nat × Array Nat)
  | 0, v, fbs => some (v, fbs)
  | f + 1, v, fbs =>
    if v ≤ ve then
      if v < fbs.size then fbFill fb ve f (v + 1) (fbs.setIfInBounds v fb) else none
    else some (v, fbs)

/-- inner loop over `d` of the second loop (state `d` from `256 - k`, `v`, `sum`) -/
def biStartsD (c shift : Nat) : (k d v sum : Nat) → Array Nat → Array Nat → Option (Nat × Nat × Array Nat × Array Nat)
  | 0, _, v, sum, bk, fbs => some (v, sum, bk, fbs)
  | k + 1, d, v, sum, bk, fbs =>
    let ix := c + (d <<< 8)
    if h : ix < bk.size then
      let val := bk[ix]
      let bk := bk.set ix sum h
      let sum := sum + val
      if val ≠ 0 then
        let ve := (sum - 1) >>> shift
        match fbFill ((c <<< 8) ||| d) ve (ve + 1 - v) v fbs with
        | none => none
        | some (v, fbs) => biStartsD c shift k (d + 1) v sum bk fbs
      else biStartsD c shift k (d + 1) v sum bk fbs
    else none

/-- second loop over `c`: `buckets[d<<8|c]` becomes the first row of the suffixes starting with `c d`,
`fastBits` the coarse row to bigram table -/
def biStarts (lastc shift : Nat) : (k c v sum : Nat) → Array Nat → Array Nat → Option (Array Nat × Array Nat)
  | 0, _, _, _, bk, fbs => some (bk, fbs)
  | k + 1, c, v, sum, bk, fbs =>
    let sum := if c = lastc then sum + 1 else sum
    match biStartsD c shift 256 0 v sum bk fbs with
    | none => none
    | some (v, sum, bk, fbs) => biStarts lastc shift k (c + 1) v sum bk fbs

/-- the two loops that fill `data`: `for i := lo; i < lo + k; i++ { c := src[i]; p := freqs[c]; freqs[c]++;
if p < pIdx { idx := c<<8 | src[p]; data[buckets[idx]] = i + off; buckets[idx]++ } else if p > pIdx
{ idx := c<<8 | src[p-1]; ... } }` -/
def biFill (src : Array Nat) (pIdx off : Nat) : (k i : Nat) → Array Nat → Array Nat → Array Nat → Option (Array Nat × Array Nat × Array Nat)
  | 0, _, fr, bk, data => some (fr, bk, data)
  | k + 1, i, fr, bk, data =>
    if hi : i < src.size then
      let c := src[i]
      if hc : c < fr.size then
        let p := fr[c]
        let fr := fr.set c (p + 1) hc
        if p = pIdx then biFill src pIdx off k (i + 1) fr bk data
        else
          let q := if p < pIdx then p else p - 1
          if hq : q < src.size then
            match put bk data ((c <<< 8) ||| src[q]) (i + off) with
            | none => none
            | some (bk, data) => biFill src pIdx off k (i + 1) fr bk data
          else none
      else none
    else none

/-- `for c := 0; c < 256; c++ { for d := 0; d < c; d++ { swap buckets[(d<<8)|c], buckets[(c<<8)|d] } }` -/
def transpose (bk : Array Nat) : Array Nat :=
  (List.range 256).foldl (fun bk c =>
    (List.range c).foldl (fun bk d => bk.swapIfInBounds ((d <<< 8) ||| c) ((c <<< 8) ||| d)) bk) bk

/-- the tables shared (read only) by the decoding tasks -/
structure Shared where
  buckets : Array Nat
  fastBits : Array Nat
  data : Array Nat
  indexes : List Nat
  shift : Nat

/-- `for buckets[s] <= p { s++ }` with `s` a `uint16`; running out of the 65536 steps of fuel means
every entry is `<= p`: the real loop never ends -/
def scan (buckets : Array Nat) (p : Nat) : (fuel s : Nat) → Res Nat
  | 0, _ => .hang
  | f + 1, s =>
    if h : s < buckets.size then
      if buckets[s] ≤ p then scan buckets p f ((s + 1) % 65536) else .ok s
    else .fault

/-- `s := fastBits[p>>shift]` (`p` is an `int`: values from 2^63 are negative) -/
def lookup (sh : Shared) (p : Nat) : Res Nat :=
  if p ≥ 2 ^ 63 then .fault else Res.ofOpt (sh.fastBits[p >>> sh.shift]?)

/-- `dst[pos] = byte(v)` -/
def write1 (dst : Array Nat) (pos v : Nat) : Res (Array Nat) :=
  if pos ≥ dst.size then .fault else .ok (dst.setIfInBounds pos (v % 256))

/-- `p = int(data[p])` -/
def next (sh : Shared) (p : Nat) : Res Nat := Res.ofOpt (sh.data[p]?)

def mapRes {α β : Type} (f : α → Res β) : List α → Res (List β)
  | [] => .ok []
  | a :: as => (f a).bind fun b => (mapRes f as).bind fun bs => .ok (b :: bs)

/-- the first bytes of one iteration: lane `k` writes `byte(s_k >> 8)` at `base_k + i - 1`
(`dstK[i-1]`; `i >= 1` in every call) -/
def writeFirst (i : Nat) : List (Nat × Nat) → Array Nat → Res (Array Nat)
  | [], dst => .ok dst
  | (base, s) :: r, dst => (write1 dst (base + i - 1) (s >>> 8)).bind (writeFirst i r)

/-- the second bytes of one iteration: lane `k` writes `byte(s_k)` at `base_k + i` (`dstK[i]`) -/
def writeSecond (i : Nat) : List (Nat × Nat) → Array Nat → Res (Array Nat)
  | [], dst => .ok dst
  | (base, s) :: r, dst => (write1 dst (base + i) s).bind (writeSecond i r)

/-- one iteration of a decoding loop over the lanes `(p_k, base_k)` in the order of the Go statements:
all table lookups, all scans, all first bytes, (when `second`: `i < end`, resp. `i < end || end == total-1`)
all second bytes, all successor reads -/
def lanesIter (sh : Shared) (i : Nat) (second : Bool) (lanes : List (Nat × Nat)) (dst : Array Nat) :
    Res (List (Nat × Nat) × Array Nat) :=
  (mapRes (fun l => lookup sh l.1) lanes).bind fun ss0 =>
  (mapRes (fun (x : (Nat × Nat) × Nat) => scan sh.buckets x.1.1 65536 x.2) (lanes.zip ss0)).bind fun ss =>
  (writeFirst i ((lanes.map (·.2)).zip ss) dst).bind fun dst =>
  (if second then writeSecond i ((lanes.map (·.2)).zip ss) dst else .ok dst).bind fun dst =>
  (mapRes (fun l => (next sh l.1).bind fun p => .ok (p, l.2)) lanes).bind fun lanes =>
  .ok (lanes, dst)

/-- `for i := i0; i <= end; i += 2 { ... }` : `k` iterations; `sec i` = the guard of the second byte -/
def lanesLoop (sh : Shared) (sec : Nat → Bool) : (k i : Nat) → List (Nat × Nat) → Array Nat → Res (Array Nat)
  | 0, _, _, dst => .ok dst
  | k + 1, i, lanes, dst =>
    (lanesIter sh i (sec i) lanes dst).bind fun r => lanesLoop sh sec k (i + 2) r.1 r.2

/-- number of iterations of `for i := start + 1; i <= end; i += 2` -/
def pairCount (start fin : Nat) : Nat := (fin + 1 - start) / 2

/-- `for c < lastChunk { end := min(start+ckSize, total-1); p := int(indexes[c]); for ... ; start = end; c++ }` -/
def singleLoop (sh : Shared) (total ckSize lastChunk : Nat) : (fuel c start : Nat) → Array Nat → Res (Array Nat)
  | 0, _, _, dst => .ok dst
  | f + 1, c, start, dst =>
    if c < lastChunk then
      let fin := min (start + ckSize) (total - 1)
      match sh.indexes[c]? with
      | none => .fault
      | some p =>
        (lanesLoop sh (fun i => decide (i < fin) || decide (fin = total - 1))
          (pairCount start fin) (start + 1) [(p, 0)] dst).bind fun dst =>
        singleLoop sh total ckSize lastChunk f (c + 1) fin dst
    else .ok dst

/-- `BWT.inverseBiPSIv2Task` -/
def task (sh : Shared) (dst : Array Nat) (total start ckSize firstChunk lastChunk : Nat) : Res (Array Nat) :=
  -- dst1 := dst[ckSize:] ... dst7 := dst[7*ckSize:]
  if 7 * ckSize > dst.size then .fault
  else
    let r : Res (Nat × Nat × Array Nat) :=
      if start + 8 * ckSize ≤ total ∧ firstChunk + 7 < lastChunk then
        -- `for c+7 < lastChunk` runs at most once: lastChunk <= 8
        match mapRes (fun k => Res.ofOpt (sh.indexes[firstChunk + k]?)) (List.range 8) with
        | .ok ps =>
          (lanesLoop sh (fun i => decide (i < start + ckSize)) (pairCount start (start + ckSize)) (start + 1)
            (ps.zip ((List.range 8).map (· * ckSize))) dst).bind fun dst =>
          .ok (firstChunk + 8, start + 8 * ckSize, dst)
        | .err e => .err e
        | .fault => .fault
        | .hang => .hang
      else .ok (firstChunk, start, dst)
    r.bind fun x => singleLoop sh total ckSize lastChunk 8 x.1 x.2.1 x.2.2

/-- the goroutines of `inverseBiPSIv2`, run one after the other (they only share read-only tables and
write `dst`): a task that panics is recovered (`failed`), a task that never ends blocks `wg.Wait()` -/
def runTasks (sh : Shared) (total ckSize : Nat) : List (Nat × Nat) → Array Nat → Bool → Res (Array Nat × Bool)
  | [], dst, failed => .ok (dst, failed)
  | (fc, lc) :: r, dst, failed =>
    match task sh dst total (fc * ckSize) ckSize fc lc with
    | .ok dst' => runTasks sh total ckSize r dst' failed
    | .hang => .hang
    | _ => runTasks sh total ckSize r dst true

/-- `BWT.inverseBiPSIv2(src, dst, count)` with `count = len(src)`, `len(dst) = dstLen >= count`,
`this.jobs = jobs >= 1`.  Returns the first `count` bytes of `dst` (initially zero) and the new buffer. -/
def biPSIv2 (buf : Array Nat) (pidx : List Nat) (jobs : Nat) (src : Array Nat) (dstLen : Nat) : Res (Array Nat) × Array Nat :=
  let count := src.size
  let data := ensureBuf buf (max (count + 1) 256)
  let p0 := pidx.getD 0 0
  -- int(x) > count with int(x) negative from 2^63 on
  let tooBig := fun (x : Nat) => x < 2 ^ 63 ∧ x > count
  if tooBig p0 then (.err "pidx", data)
  else
    let chunks := getBWTChunks count
    if (List.range' 1 (chunks - 1)).any (fun i => tooBig (pidx.getD i 0)) then (.err "pidx", data)
    else if p0 ≥ 2 ^ 63 then (.fault, data)   -- `for i := pIdx; i < count; i++ { c := int(src[i])` with pIdx < 0
    else
      let hist := histogram src
      match biHist src hist p0 256 0 1 (Array.emptyWithCapacity 256) (Array.replicate 65536 0) with
      | none => (.fault, data)
      | some (freqs, bk) =>
      let lastc := src.getD 0 0
      let shift := shiftOf count
      match biStarts lastc shift 256 0 0 1 bk (Array.replicate (MASK_FASTBITS + 1) 0) with
      | none => (.fault, data)
      | some (bk, fbs) =>
      match biFill src p0 0 p0 0 freqs bk data with
      | none => (.fault, #[])
      | some (freqs, bk, data) =>
      match biFill src p0 1 (count - p0) p0 freqs bk data with
      | none => (.fault, #[])
      | some (_, bk, data) =>
      let bk := transpose bk
      let ckSize := chunkSize count chunks
      match Kanzi.Jobs.bwtSplit jobs chunks with
      | .error _ => (.fault, data)
      | .ok ranges =>
        let sh : Shared := { buckets := bk, fastBits := fbs, data := data, indexes := pidx, shift := shift }
        match runTasks sh count ckSize ranges (Array.replicate dstLen 0) false with
        | .hang => (.hang, data)
        | .ok (dst, failed) =>
          if failed then (.err "data", data)
          else if count - 1 < dst.size then (.ok ((dst.setIfInBounds (count - 1) lastc).extract 0 count), data)
          else (.fault, data)
        | _ => (.fault, data)

/-! ## BWT.Inverse and BWTBlockCodec.Inverse -/

/-- `BWT.Inverse(src, dst)` on an instance with buffer `buf`, index slots `pidx`, `jobs` jobs;
`len(dst) = dstLen`.  Returns the bytes written (the count returned by Go is their number). -/
def bwtInverse (buf : Array Nat) (pidx : List Nat) (jobs : Nat) (src : Array Nat) (dstLen : Nat) : Res (Array Nat) × Array Nat :=
  if src.size = 0 ∨ dstLen = 0 then (.ok #[], buf)
  else if src.size > MAX_BLOCK_SIZE then (.err "size", buf)
  else if src.size > dstLen then (.err "dst", buf)
  else if src.size = 1 then (.ok src, buf)
  else if src.size ≤ THRESHOLD2 then mergeTPSI buf pidx src
  else biPSIv2 buf pidx jobs src dstLen

/-- `BWTBlockCodec.Inverse(src, dst)` (bsVersion 6): result, new buffer, new index slots -/
def blockInverse (buf : Array Nat) (old : List Nat) (jobs : Nat) (src : Array Nat) (dstLen : Nat) :
    Res (Array Nat) × Array Nat × List Nat :=
  if src.size = 0 ∨ dstLen = 0 then (.ok #[], buf, old)
  else if src.size = 1 then (.err "size", buf, old)
  else
    match parseHeaderN old (src.extract 0 MAX_HEADER_SIZE).toList src.size with
    | .ok h =>
      let r := bwtInverse buf h.pidx jobs (src.extract h.headerSize src.size) dstLen
      (r.1, r.2, h.pidx)
    | .err e => (.err e, buf, old)
    | .fault => (.fault, buf, old)
    | .hang => (.hang, buf, old)

end Kanzi.BWT
