/-
Layer 2 for `ReadArray`: on the abstract word machine every stage of `A.readArray` moves the next
bits of `remaining` to the output bytes.
-/
import Kanzi.Proofs.IBS

namespace Kanzi.IBS
open Kanzi.Bits Kanzi.BitsIbs

/-- `l'` is `l` after moving the next `m` bits (whole bytes) to the output -/
structure Moves (l l' : ALp) (m : Nat) : Prop where
  out : bytesBits l'.out = bytesBits l.out ++ l.st.remaining.take m
  rest : l'.st.remaining = l.st.remaining.drop m
  rem : l'.rem = l.rem - m
  le : m ≤ l.rem
  cnt : l'.st.cnt = l.st.cnt + m
  inv : AInv l'.st
  cl : l'.st.closed = false
  en : l'.st.ending = l.st.ending
  has : m ≤ l.st.remaining.length

theorem Moves.refl (l : ALp) (hi : AInv l.st) (hc : l.st.closed = false) : Moves l l 0 :=
  ⟨by simp, by simp, by simp, by omega, by simp, hi, hc, rfl, by omega⟩

theorem Moves.trans {l l' l'' : ALp} {m m' : Nat} (h : Moves l l' m) (h' : Moves l' l'' m') :
    Moves l l'' (m + m') := by
  refine ⟨?_, ?_, ?_, ?_, ?_, h'.inv, h'.cl, h'.en.trans h.en, ?_⟩
  · rw [h'.out, h.out, h.rest, List.append_assoc, List.take_add]
  · rw [h'.rest, h.rest, List.drop_drop]
  · rw [h'.rem, h.rem]; omega
  · have := h.le; have := h'.le; have := h.rem; omega
  · rw [h'.cnt, h.cnt]; push_cast; omega
  · have h1 := h'.has; rw [h.rest, List.length_drop] at h1; have := h.has; omega

theorem byte_bits (v : BitVec 64) (bs : Bits) (hl : bs.length = 8) (hv : v.toNat = bitsNat bs) :
    bytesBits [v.setWidth 8] = bs := by
  simp only [bytesBits, List.map_cons, List.map_nil, ofBytes_cons, ofBytes_nil, List.append_nil]
  rw [BitVec.toNat_setWidth, hv]
  have : natBits (bitsNat bs % 2 ^ 8) 8 = natBits (bitsNat bs) 8 := natBits_mod _ _
  rw [this]
  have := natBits_bitsNat bs
  rw [hl] at this
  exact this

/-- one byte through `ReadBits(8)` -/
theorem A.byteStep_spec (l : ALp) (hi : AInv l.st) (hc : l.st.closed = false) (h8 : 8 ≤ l.rem)
    (hen : 8 ≤ l.st.remaining.length) :
    ∃ l', A.byteStep l = .ok l' ∧ Moves l l' 8 ∧
      (8 ≤ l.st.avail → l'.st.avail = l.st.avail - 8) := by
  obtain ⟨v, a', e1, e2, e3, e4, e5, e6, e7⟩ := A.readBits_spec l.st hi hc 8 (by omega) (by omega) hen
  refine ⟨⟨a', l.out ++ [v.setWidth 8], l.rem - 8⟩, ?_, ?_, ?_⟩
  · unfold A.byteStep; rw [e1]
  · refine ⟨?_, e3, rfl, h8, e4, e5, e6, e7, hen⟩
    simp only
    rw [bytesBits_append, byte_bits v _ (by rw [List.length_take]; omega) e2]
  · intro hav
    obtain ⟨v', f1, _⟩ := A.readBitsAux_fast 9 l.st 8 (by omega) (by omega) hav
    have : A.readBits l.st 8 = A.readBitsAux (9 + 1) l.st 8 := rfl
    rw [this, f1] at e1
    simp only [Prod.mk.injEq] at e1
    rw [← e1.2]; rfl

theorem A.emptyCur_spec : ∀ (fuel : Nat) (l : ALp), AInv l.st → l.st.closed = false →
    l.st.avail % 8 = 0 → l.st.avail / 8 + 1 ≤ fuel → l.rem ≤ l.st.remaining.length →
    ∃ l' m, A.emptyCur fuel l = .ok l' ∧ Moves l l' m ∧ (l'.st.avail = 0 ∨ l'.rem < 8) ∧
      l'.rem ≤ l'.st.remaining.length := by
  intro fuel
  induction fuel with
  | zero => intro l _ _ _ h; omega
  | succ fuel ih =>
    intro l hi hc h8 hfu hen
    unfold A.emptyCur
    by_cases hcond : l.st.avail ≠ 0 ∧ l.rem ≥ 8
    · rw [if_pos hcond]
      have hav : 8 ≤ l.st.avail := by omega
      obtain ⟨l1, e1, e2, e3⟩ := A.byteStep_spec l hi hc hcond.2 (by omega)
      have e3' := e3 hav
      have hen1 : l1.rem ≤ l1.st.remaining.length := by
        rw [e2.rem, e2.rest, List.length_drop]; omega
      obtain ⟨l', m, f1, f2, f3, f4⟩ := ih l1 e2.inv e2.cl (by omega) (by omega) hen1
      refine ⟨l', 8 + m, ?_, e2.trans f2, f3, f4⟩
      rw [e1]; exact f1
    · rw [if_neg hcond]
      refine ⟨l, 0, rfl, Moves.refl l hi hc, ?_, hen⟩
      by_cases h0 : l.st.avail = 0
      · left; exact h0
      · right; have : ¬ l.rem ≥ 8 := fun h => hcond ⟨h0, h⟩
        omega

theorem A.tailBytes_spec : ∀ (fuel : Nat) (l : ALp), AInv l.st → l.st.closed = false →
    l.rem / 8 + 1 ≤ fuel → l.rem ≤ l.st.remaining.length →
    ∃ l' m, A.tailBytes fuel l = .ok l' ∧ Moves l l' m ∧ l'.rem < 8 ∧
      l'.rem ≤ l'.st.remaining.length := by
  intro fuel
  induction fuel with
  | zero => intro l _ _ h; omega
  | succ fuel ih =>
    intro l hi hc hfu hen
    unfold A.tailBytes
    by_cases hcond : l.rem ≥ 8
    · rw [if_pos hcond]
      obtain ⟨l1, e1, e2, _⟩ := A.byteStep_spec l hi hc hcond (by omega)
      have hen1 : l1.rem ≤ l1.st.remaining.length := by
        rw [e2.rem, e2.rest, List.length_drop]; omega
      obtain ⟨l', m, f1, f2, f3, f4⟩ := ih l1 e2.inv e2.cl (by rw [e2.rem]; omega) hen1
      refine ⟨l', 8 + m, ?_, e2.trans f2, f3, f4⟩
      rw [e1]; exact f1
    · rw [if_neg hcond]
      exact ⟨l, 0, rfl, Moves.refl l hi hc, by omega, hen⟩

theorem A.alignedStart_spec (l : ALp) (hi : AInv l.st) (hc : l.st.closed = false)
    (h8 : l.st.avail % 8 = 0) (hpos : 0 < l.rem) (hen : l.rem ≤ l.st.remaining.length) :
    ∃ l', A.alignedStart l = .ok l' ∧ Moves l l' 0 ∧ l'.st.avail % 8 = 0 := by
  unfold A.alignedStart
  by_cases h0 : l.st.avail = 0
  · rw [if_pos h0]
    rw [A.remaining_length] at hen
    have hr : l.st.rest ≠ [] := by
      intro h; rw [h] at hen; simp only [List.length_nil] at hen; omega
    obtain ⟨p1, p2, p3, p4, p5, p6, p7, p8⟩ := A.pull_spec l.st hc hr
    rw [p1]
    refine ⟨_, rfl, ?_, by simp only; rw [p3]; omega⟩
    have hrem : l.st.remaining = l.st.pull.2.remaining := by
      rw [p2]; simp only [A.remaining, h0, wordBits, natBits_zero, List.nil_append]
    refine ⟨by simp, by simp [hrem], by simp, by omega, by simp [p5, h0], ?_, p6, p8, by omega⟩
    exact ⟨by simp only; rw [p3]; omega,
      fun h => by have h' : l.st.pull.2.closed = true := h; rw [p6] at h'; cases h'⟩
  · rw [if_neg h0]
    exact ⟨l, rfl, Moves.refl l hi hc, h8⟩

theorem A.bulk_spec (l : ALp) (hi : AInv l.st) (hc : l.st.closed = false)
    (h0 : l.st.avail = 0 ∨ l.rem < 8) (hen : l.rem ≤ l.st.remaining.length) :
    ∃ l', A.bulk l = .ok l' ∧ Moves l l' (64 * (l.rem / 64)) ∧
      l'.rem ≤ l'.st.remaining.length := by
  have hlen := A.remaining_length l.st
  have hle : ¬ l.rem / 8 > l.st.rest.length := by
    rcases h0 with h | h <;> omega
  unfold A.bulk
  rw [if_neg hle]
  have hmv : Moves l ⟨l.st.skip (l.rem / 64 * 8), l.out ++ l.st.rest.take (l.rem / 64 * 8),
      l.rem - 8 * (l.rem / 64 * 8)⟩ (64 * (l.rem / 64)) := by
    have h64 : 64 * (l.rem / 64) = 8 * (l.rem / 64 * 8) := by omega
    rcases h0 with h | h
    · have hR : l.st.remaining = bytesBits l.st.rest := by
        simp only [A.remaining, h, wordBits, natBits_zero, List.nil_append]
      refine ⟨?_, ?_, by simp only; omega, by omega, by simp only [A.skip]; push_cast; omega,
        ⟨hi.av, fun hh => by have h' : l.st.closed = true := hh; rw [hc] at h'; cases h'⟩, hc, rfl,
        by omega⟩
      · simp only
        rw [bytesBits_append, hR, h64, bytesBits_take]
      · simp only [A.remaining, A.skip, h, wordBits, natBits_zero, List.nil_append]
        rw [h64, bytesBits_drop]
    · have hz : l.rem / 64 * 8 = 0 := by omega
      have hz2 : 64 * (l.rem / 64) = 0 := by omega
      rw [hz, hz2]
      refine ⟨by simp, by simp [A.remaining, A.skip], by simp, by omega, by simp [A.skip],
        ⟨hi.av, fun hh => by have h' : l.st.closed = true := hh; rw [hc] at h'; cases h'⟩, hc, rfl,
        by omega⟩
  refine ⟨_, rfl, hmv, ?_⟩
  rw [hmv.rest, List.length_drop]
  simp only
  omega


theorem setWidth8_toNat (w : BitVec 64) (k : Nat) :
    ((w >>> k).setWidth 8).toNat = w.toNat / 2 ^ k % 2 ^ 8 := by
  rw [BitVec.toNat_setWidth, BitVec.toNat_ushiftRight, Nat.shiftRight_eq_div_pow]

theorem wordBytes_bits (w : BitVec 64) : bytesBits (wordBytes w) = natBits w.toNat 64 := by
  have e0 : (w.setWidth 8).toNat = w.toNat / 2 ^ 0 % 2 ^ 8 := by
    rw [BitVec.toNat_setWidth]; simp
  simp only [wordBytes, bytesBits, List.map_cons, List.map_nil, ofBytes_cons, ofBytes_nil,
    List.append_nil, setWidth8_toNat, e0, natBits_mod]
  have s1 := natBits_split w.toNat 64 8 (by omega)
  have s2 := natBits_split w.toNat 56 8 (by omega)
  have s3 := natBits_split w.toNat 48 8 (by omega)
  have s4 := natBits_split w.toNat 40 8 (by omega)
  have s5 := natBits_split w.toNat 32 8 (by omega)
  have s6 := natBits_split w.toNat 24 8 (by omega)
  have s7 := natBits_split w.toNat 16 8 (by omega)
  have s8 := natBits_split w.toNat 8 8 (by omega)
  simp only [Nat.reduceSub] at s1 s2 s3 s4 s5 s6 s7 s8
  rw [s1, s2, s3, s4, s5, s6, s7, s8, natBits_zero, List.append_nil]

/-- the merged word `(v0 << r) | (v1 >> (avail1 - r))` holds the low `a` bits of `v0` followed by
    the top `r` of the `avail1` bits of `v1` -/
theorem merge_bits (v0 v1 : BitVec 64) (a r avail1 : Nat) (har : a + r = 64) (hr : r ≤ avail1)
    (h1 : v1.toNat < 2 ^ avail1) :
    natBits ((v0 <<< r) ||| (v1 >>> (avail1 - r))).toNat 64 =
      natBits v0.toNat a ++ (natBits v1.toNat avail1).take r := by
  have hy : v1.toNat / 2 ^ (avail1 - r) < 2 ^ r := by
    apply Nat.div_lt_of_lt_mul
    rw [← Nat.pow_add]
    have : avail1 - r + r = avail1 := by omega
    rw [this]; exact h1
  have h64 : 2 ^ 64 = 2 ^ a * 2 ^ r := by rw [← Nat.pow_add, har]
  rw [BitVec.toNat_or, BitVec.toNat_shiftLeft, BitVec.toNat_ushiftRight, Nat.shiftLeft_eq,
    Nat.shiftRight_eq_div_pow, h64, Nat.mul_mod_mul_right, Nat.mul_comm,
    ← Nat.two_pow_add_eq_or_of_lt hy, Nat.mul_comm]
  have hn := natBits_append (v0.toNat % 2 ^ a) (v1.toNat / 2 ^ (avail1 - r)) a r hy
  rw [har] at hn
  rw [hn, natBits_mod, natBits_take _ _ _ hr]

theorem A.slowStep_spec (r : Nat) (l : ALp) (hi : AInv l.st) (hc : l.st.closed = false)
    (hr1 : 1 ≤ r) (har : l.st.avail + r = 64) (h64 : 64 ≤ l.rem)
    (hen : 64 ≤ l.st.remaining.length) :
    ∃ l', A.slowStep r l = .ok l' ∧ Moves l l' 64 ∧
      (l'.st.avail + r = 64 ∨ l'.st.remaining.length < 64) := by
  have hlen := A.remaining_length l.st
  have hr : l.st.rest ≠ [] := by
    intro h; rw [h] at hlen; simp only [List.length_nil] at hlen; omega
  obtain ⟨p1, p2, p3, p4, p5, p6, p7, p8⟩ := A.pull_spec l.st hc hr
  have hge : r ≤ l.st.pull.2.avail := by rw [p3]; omega
  obtain ⟨t1, _⟩ := A.take_remaining l.st.pull.2 r hge
  have hl : (wordBits l.st.cur l.st.avail).length = l.st.avail := natBits_length _ _
  have hl1 : (wordBits l.st.pull.2.cur l.st.pull.2.avail).length = l.st.pull.2.avail :=
    natBits_length _ _
  unfold A.slowStep
  rw [p1]
  simp only
  rw [if_neg (by omega)]
  refine ⟨_, rfl, ?_, ?_⟩
  · refine ⟨?_, ?_, rfl, h64, ?_, ?_, p6, p8, hen⟩
    · simp only
      rw [bytesBits_append, wordBytes_bits,
        merge_bits l.st.cur l.st.pull.2.cur l.st.avail r l.st.pull.2.avail har hge p4]
      congr 1
      simp only [A.remaining]
      rw [List.take_append, List.take_of_length_le (l := wordBits l.st.cur l.st.avail) (by omega),
        hl]
      have h64r : 64 - l.st.avail = r := by omega
      rw [h64r, ← p2]
      simp only [A.remaining]
      rw [List.take_append_of_le_length (by omega)]
      rfl
    · simp only
      rw [t1, p2]
      simp only [A.remaining]
      rw [List.drop_append, List.drop_of_length_le (l := wordBits l.st.cur l.st.avail) (by omega),
        hl, List.nil_append]
      congr 1; omega
    · simp only [A.take, p5]; push_cast; omega
    · exact ⟨by simp only [A.take]; omega,
        fun h => by have h' : l.st.pull.2.closed = true := h; rw [p6] at h'; cases h'⟩
  · simp only
    by_cases h8 : 8 ≤ l.st.rest.length
    · left; simp only [A.take]; rw [p3]; omega
    · right
      rw [A.remaining_length]
      simp only [A.take, p7, List.length_drop]
      rw [p3]; omega

theorem A.words_spec (r : Nat) (hr1 : 1 ≤ r) : ∀ (n : Nat) (l : ALp), AInv l.st →
    l.st.closed = false → (n = 0 ∨ l.st.avail + r = 64) → 64 * n ≤ l.rem →
    64 * n ≤ l.st.remaining.length →
    ∃ l', A.words r n l = .ok l' ∧ Moves l l' (64 * n) := by
  intro n
  induction n with
  | zero => intro l hi hc _ _ _; exact ⟨l, rfl, Moves.refl l hi hc⟩
  | succ n ih =>
    intro l hi hc har hrem hen
    have har' : l.st.avail + r = 64 := by rcases har with h | h; omega; exact h
    obtain ⟨l1, e1, e2, e3⟩ := A.slowStep_spec r l hi hc hr1 har' (by omega) (by omega)
    have hen1 : 64 * n ≤ l1.st.remaining.length := by
      rw [e2.rest, List.length_drop]; omega
    obtain ⟨l', f1, f2⟩ := ih l1 e2.inv e2.cl (by
        by_cases hn : n = 0
        · left; exact hn
        · right; rcases e3 with h | h
          · exact h
          · omega)
      (by rw [e2.rem]; omega) hen1
    refine ⟨l', ?_, ?_⟩
    · simp only [A.words]; rw [e1]; exact f1
    · have : 64 * (n + 1) = 64 + 64 * n := by omega
      rw [this]; exact e2.trans f2


theorem lastByte_toNat (v : BitVec 64) (t : Bits) (hl : t.length < 8) (hv : v.toNat = bitsNat t) :
    ((v <<< (8 - t.length)).setWidth 8).toNat =
      bitsNat (t ++ List.replicate (8 - t.length) false) := by
  have hlt := bitsNat_lt t
  have hp : 2 ^ t.length * 2 ^ (8 - t.length) = 2 ^ 8 := by
    rw [← Nat.pow_add]; congr 1; omega
  have hb : bitsNat t * 2 ^ (8 - t.length) < 2 ^ 8 := by
    rw [← hp]; exact Nat.mul_lt_mul_of_pos_right hlt (Nat.two_pow_pos _)
  have h1 : (v <<< (8 - t.length)).toNat = bitsNat t * 2 ^ (8 - t.length) := by
    rw [BitVec.toNat_shiftLeft, Nat.shiftLeft_eq, hv]
    exact Nat.mod_eq_of_lt (by omega)
  rw [BitVec.toNat_setWidth, h1, Nat.mod_eq_of_lt hb, bitsNat_append, bitsNat_replicate_false,
    List.length_replicate, Nat.add_zero]

/-- the stages before the last bits: `m` bits moved, fewer than 8 wanted after that -/
theorem A.readArray_stages (l : ALp) (hi : AInv l.st) (hc : l.st.closed = false) (hpos : 0 < l.rem)
    (hen : l.rem ≤ l.st.remaining.length) :
    ∃ l2 m, ((if l.st.avail % 8 = 0 then A.aligned l
        else A.words (64 - l.st.avail) (l.rem / 64) l).bind
          (fun l1 => A.tailBytes (l1.rem / 8 + 1) l1)) = .ok l2 ∧
      Moves l l2 m ∧ l2.rem < 8 ∧ l2.rem ≤ l2.st.remaining.length := by
  have stage1 : ∃ l1 m1, (if l.st.avail % 8 = 0 then A.aligned l
      else A.words (64 - l.st.avail) (l.rem / 64) l) = .ok l1 ∧ Moves l l1 m1 ∧
      l1.rem ≤ l1.st.remaining.length := by
    by_cases h8 : l.st.avail % 8 = 0
    · rw [if_pos h8]
      obtain ⟨lS, eS, mS, aS⟩ := A.alignedStart_spec l hi hc h8 hpos hen
      have henS : lS.rem ≤ lS.st.remaining.length := by
        rw [mS.rem, mS.rest]; simpa using hen
      obtain ⟨lE, mE', eE, mE, cE, henE⟩ :=
        A.emptyCur_spec (lS.st.avail / 8 + 2) lS mS.inv mS.cl aS (by omega) henS
      obtain ⟨lB, eB, mB, henB⟩ := A.bulk_spec lE mE.inv mE.cl cE henE
      refine ⟨lB, 0 + mE' + 64 * (lE.rem / 64), ?_, (mS.trans mE).trans mB, henB⟩
      unfold A.aligned
      rw [eS]; simp only [ALR.bind]
      rw [eE]; simp only [ALR.bind]
      rw [eB]
    · rw [if_neg h8]
      have hav := hi.av
      obtain ⟨l1, e1, m1⟩ := A.words_spec (64 - l.st.avail) (by omega) (l.rem / 64) l hi hc
        (by right; omega) (by omega) (by omega)
      refine ⟨l1, _, e1, m1, ?_⟩
      rw [m1.rem, m1.rest, List.length_drop]; omega
  obtain ⟨l1, m1, e1, mv1, hen1⟩ := stage1
  obtain ⟨l2, m2, e2, mv2, c2, hen2⟩ :=
    A.tailBytes_spec (l1.rem / 8 + 1) l1 mv1.inv mv1.cl (by omega) hen1
  refine ⟨l2, m1 + m2, ?_, mv1.trans mv2, c2, hen2⟩
  rw [e1]; simp only [ALR.bind]; exact e2

/-- `ReadArray(k)` with enough bits left -/
theorem A.readArray_spec (a : A) (hi : AInv a) (hc : a.closed = false) (k : Nat)
    (hen : k ≤ a.remaining.length) :
    ∃ out a', A.readArray a k = (.val out, a') ∧
      out.map BitVec.toNat = packBytes (a.remaining.take k) ∧
      a'.remaining = a.remaining.drop k ∧ a'.cnt = a.cnt + k ∧ AInv a' ∧ a'.closed = false ∧
      a'.ending = a.ending := by
  unfold A.readArray
  rw [if_neg (by rw [hc]; simp)]
  by_cases hk : k = 0
  · rw [if_pos hk, hk]
    exact ⟨[], a, rfl, by simp [packBytes_nil], by simp, by simp, hi, hc, rfl⟩
  · rw [if_neg hk]
    obtain ⟨l2, m, e, mv, c2, hen2⟩ :=
      A.readArray_stages ⟨a, [], k⟩ hi hc (by simp only; omega) hen
    have hout : bytesBits l2.out = a.remaining.take m := by
      have := mv.out; simpa [bytesBits_nil] using this
    have hmk : m ≤ k := mv.le
    have hrem : l2.rem = k - m := mv.rem
    have hL : ∀ b ∈ l2.out.map BitVec.toNat, b < 256 := by
      intro b hb
      obtain ⟨x, _, rfl⟩ := List.mem_map.mp hb
      exact x.isLt
    unfold A.readArrayBody
    rw [e]
    simp only [ALR.bind]
    unfold A.tailBits
    by_cases hr0 : l2.rem > 0
    · rw [if_pos hr0]
      obtain ⟨v, a', f1, f2, f3, f4, f5, f6, f7⟩ :=
        A.readBits_spec l2.st mv.inv mv.cl l2.rem (by omega) (by omega) hen2
      rw [f1]
      refine ⟨_, a', rfl, ?_, ?_, ?_, f5, f6, f7.trans mv.en⟩
      · have hkm : k = m + l2.rem := by omega
        have htl : (l2.st.remaining.take l2.rem).length = l2.rem := by
          rw [List.length_take]; omega
        rw [List.map_append, List.map_cons, List.map_nil]
        have hlb := lastByte_toNat v (l2.st.remaining.take l2.rem) (by omega) f2
        rw [htl] at hlb
        rw [hlb, hkm, List.take_add, ← hout, ← mv.rest]
        have hpk := packBytes_bytes (l2.out.map BitVec.toNat) hL
          (l2.st.remaining.take l2.rem) (by omega)
        rw [htl] at hpk
        have hne : l2.st.remaining.take l2.rem ≠ [] := by
          intro h; rw [h] at htl; simp only [List.length_nil] at htl; omega
        rw [if_neg hne] at hpk
        exact hpk.symm
      · rw [f3, mv.rest, List.drop_drop]; congr 1; omega
      · rw [f4, mv.cnt]; push_cast; omega
    · rw [if_neg hr0]
      have hkm : k = m := by omega
      refine ⟨_, _, rfl, ?_, ?_, ?_, mv.inv, mv.cl, mv.en⟩
      · rw [hkm, ← hout]
        have hpk := packBytes_bytes (l2.out.map BitVec.toNat) hL [] (by simp)
        simp only [List.append_nil, ↓reduceIte] at hpk
        exact hpk.symm
      · rw [mv.rest, hkm]
      · rw [mv.cnt, hkm]

end Kanzi.IBS
