/-
Model of the static Huffman codec of kanzi-go (v2/entropy/HuffmanCodec.go, bitstream version 6;
property C12) and of the signed Exp-Golomb byte codec it uses for the code lengths
(v2/entropy/ExpGolombCodec.go, `sgn = true`), over the abstract bit strings of `Kanzi.Bits`.
Core Lean only (linked into `kmodel`).

  * `generateCanonicalCodes`            (`canonOrder`, `assignCodes`, `generateCanonicalCodes`)
  * `HuffmanEncoder.updateFrequencies`  (`updateFrequencies`), with
      `computeCodeLengths` = sort + `computeInPlaceSizesPhase1` / `Phase2` (`phase1`, `phase2`),
      `limitCodeLengths` (fold / queue / repay / adjust, fallback = `NormalizeFrequencies` to 2048
      (model `Kanzi.Normalize.normalize`) + `computeCodeLengths` again),
      the last-resort branch (8-bit codes), the transmitted header (`EncodeAlphabet` (model
      `EntSmall.encodeAlphabetBits`) + Exp-Golomb coded length deltas)
  * `HuffmanEncoder.Write` / `encodeChunk` (`encode`, `encodeChunk`, `encFrag`: 4 sub-streams,
      the 64-bit `state` register with its flush every 4 symbols, the 4 VarInt sizes)
  * `HuffmanDecoder.readLengths`, `buildDecodingTable`, `Read` = `decodeV6`, `decodeChunkV6`,
      `readState` (`readLengths`, `buildTable`, `decode`, `decodeChunk`, `decFrag`, `readState`)

Registers.  `state` (Go `uint64`), `bits` / `bs` (Go `uint8` in the decoder), the `uint16` codes
and table entries, the `byte` sizes and the `int8` running size of `readLengths` are `Nat` here and
every Go operation that can wrap carries an explicit `% 2^k`.

Conventions as in `Kanzi.EntSmall` / `Kanzi.Range`: an encoder produces `Bits`, a decoder is
`Bits → Option (value × Bits)` returning the value and the REST of the bits; `none` = a Go panic
(read past the end, index out of range, slice bounds) or an "Invalid bitstream" error.

Structure-preserving simplifications (each is an identity on behaviour, see the comments in place):
  * the four sub-streams of a chunk are decoded one after the other; the Go loop decodes them in
    lock step, but they share no variable (4 states, 4 read positions, 4 disjoint output ranges)
    and the iteration structure (groups of 4 symbols per `readState`, then one `readState` and the
    last 1..4 symbols) depends on `szFrag` only, which is common;
  * the decoder's reusable buffer is not shared between chunks: region `j` of the buffer is
    (bytes of sub-stream `j`, zero padded) ++ (8 cleared bytes) ++ `junk`, where `junk` (a parameter
    of `decode`, `[]` in the driver) stands for whatever earlier chunks left there, and 0 beyond;
    a sub-stream longer than its region (`stride` = chunkSize/2 bytes; impossible for a stream of the
    encoder, `Kanzi.C12.C12_huf_chunk`) is answered `none` (the Go code would overwrite the next region);
    an 8-byte read of `readState` past the end of the whole buffer (a Go panic) is `none` (`readsOk`);
  * `sizes` / `codes` of the decoder are rebuilt per chunk from fresh tables: the Go arrays persist,
    but only the entries of the current alphabet are read;
  * the loops "Repay bit debt" / "Adjust if necessary" of `limitCodeLengths` are written as one
    pass per level `idx` (5..0, then 0..5); the Go loops stop as soon as `debt = 0`, which changes
    nothing (no queue entry is taken once `debt < 1 << idx`).
Not modelled: bitstream versions below 6 (`decodeV5` / `decodeChunkV5`).
-/
import Kanzi.Spec.Bits
import Kanzi.Model.Normalize
import Kanzi.Model.EntSmall

namespace Kanzi.Huffman
open Kanzi.Bits Kanzi.EntSmall

/-! ### constants -/

def minChunkSize : Nat := 1024      -- _HUF_MIN_CHUNK_SIZE
def maxChunkSize : Nat := 16384     -- _HUF_MAX_CHUNK_SIZE = 1 << 14
def maxSymbolSize : Nat := 12       -- _HUF_MAX_SYMBOL_SIZE_V4

/-- the argument checks of `NewHuffmanEncoder` / `NewHuffmanDecoder` -/
def ctorOk (chunkSize : Nat) : Bool := decide (1024 ≤ chunkSize) && decide (chunkSize ≤ 16384)

/-! ### signed Exp-Golomb byte codec -/

/-- `_EXPG_VALUES[1]`: `(number of bits << 9) | bits` for every byte value (an `int8` cast to a byte) -/
def expgSigned : List Nat := [
  513, 2052, 2054, 3080, 3082, 3084, 3086, 4112, 4114, 4116, 4118, 4120, 4122, 4124, 4126, 5152,
  5154, 5156, 5158, 5160, 5162, 5164, 5166, 5168, 5170, 5172, 5174, 5176, 5178, 5180, 5182, 6208,
  6210, 6212, 6214, 6216, 6218, 6220, 6222, 6224, 6226, 6228, 6230, 6232, 6234, 6236, 6238, 6240,
  6242, 6244, 6246, 6248, 6250, 6252, 6254, 6256, 6258, 6260, 6262, 6264, 6266, 6268, 6270, 7296,
  7298, 7300, 7302, 7304, 7306, 7308, 7310, 7312, 7314, 7316, 7318, 7320, 7322, 7324, 7326, 7328,
  7330, 7332, 7334, 7336, 7338, 7340, 7342, 7344, 7346, 7348, 7350, 7352, 7354, 7356, 7358, 7360,
  7362, 7364, 7366, 7368, 7370, 7372, 7374, 7376, 7378, 7380, 7382, 7384, 7386, 7388, 7390, 7392,
  7394, 7396, 7398, 7400, 7402, 7404, 7406, 7408, 7410, 7412, 7414, 7416, 7418, 7420, 7422, 8448,
  8451, 8449, 7423, 7421, 7419, 7417, 7415, 7413, 7411, 7409, 7407, 7405, 7403, 7401, 7399, 7397,
  7395, 7393, 7391, 7389, 7387, 7385, 7383, 7381, 7379, 7377, 7375, 7373, 7371, 7369, 7367, 7365,
  7363, 7361, 7359, 7357, 7355, 7353, 7351, 7349, 7347, 7345, 7343, 7341, 7339, 7337, 7335, 7333,
  7331, 7329, 7327, 7325, 7323, 7321, 7319, 7317, 7315, 7313, 7311, 7309, 7307, 7305, 7303, 7301,
  7299, 7297, 6271, 6269, 6267, 6265, 6263, 6261, 6259, 6257, 6255, 6253, 6251, 6249, 6247, 6245,
  6243, 6241, 6239, 6237, 6235, 6233, 6231, 6229, 6227, 6225, 6223, 6221, 6219, 6217, 6215, 6213,
  6211, 6209, 5183, 5181, 5179, 5177, 5175, 5173, 5171, 5169, 5167, 5165, 5163, 5161, 5159, 5157,
  5155, 5153, 4127, 4125, 4123, 4121, 4119, 4117, 4115, 4113, 3087, 3085, 3083, 3081, 2055, 2053]

/-- `ExpGolombEncoder.EncodeByte(val)` (signed):
    `if val == 0 { WriteBit(1) } else { emit := cache[val]; WriteBits(emit&0x1FF, emit>>9) }` -/
def egEncodeByte (v : Nat) : Bits :=
  if v = 0 then [true]
  else natBits (expgSigned.getD v 0 &&& 0x1FF) (expgSigned.getD v 0 >>> 9)

/-- Go: `log2 := 1; for { if ReadBit() == 1 { break }; log2++ }` -/
def egSkip : Bits → Nat → Option (Nat × Bits)
  | [], _ => none
  | true :: r, l => some (l, r)
  | false :: r, l => egSkip r (l + 1)

/-- `ExpGolombDecoder.DecodeByte()` (signed): the result is the `byte` cast of
    `res = val>>1 + 1<<log2 - 1`, negated (`^res + 1`) when the sign bit `val&1` is set -/
def egDecodeByte (bs : Bits) : Option (Nat × Bits) :=
  match bs with
  | [] => none
  | true :: r => some (0, r)
  | false :: r =>
    match egSkip r 1 with
    | none => none
    | some (l, r1) =>
      match readBits ((l &&& 7) + 1) r1 with
      | none => none
      | some (val, r2) =>
        some (if val &&& 1 = 1 then (256 - ((val >>> 1) + (1 <<< (l &&& 7)) - 1) % 256) % 256
              else ((val >>> 1) + (1 <<< (l &&& 7)) - 1) % 256, r2)

/-! ### code lengths: `computeInPlaceSizesPhase1` / `Phase2`, `computeCodeLengths` -/

/-- the loop variables `s`, `r`, `sum` of phase 1 together with the array -/
structure P1 where
  data : List Nat
  s : Nat
  r : Nat
  sum : Nat

/-- one round of the inner loop `for i := 0; i < 2; i++` of phase 1 (`n = len(data)`) -/
def pick (n t : Nat) (p : P1) : P1 :=
  if p.s ≥ n ∨ (p.r < t ∧ p.data.getD p.r 0 < p.data.getD p.s 0) then
    { data := p.data.set p.r t, s := p.s, r := p.r + 1, sum := p.sum + p.data.getD p.r 0 }
  else
    { data := if p.s > t then p.data.set p.s 0 else p.data, s := p.s + 1, r := p.r,
      sum := p.sum + p.data.getD p.s 0 }

/-- `for s, r, t := 0, 0, 0; t < n-1; t++ { sum := 0; 2 picks; data[t] = sum }`, fuel = rounds left -/
def phase1Loop : Nat → Nat → Nat → List Nat → Nat → Nat → List Nat
  | 0, _, _, data, _, _ => data
  | k + 1, n, t, data, s, r =>
    phase1Loop k n (t + 1)
      ((pick n t (pick n t ⟨data, s, r, 0⟩)).data.set t (pick n t (pick n t ⟨data, s, r, 0⟩)).sum)
      (pick n t (pick n t ⟨data, s, r, 0⟩)).s (pick n t (pick n t ⟨data, s, r, 0⟩)).r

/-- `computeInPlaceSizesPhase1`: afterwards `data[j]` (`j < n-2`) is the index of the parent of
    internal node `j` (the root is `n-2`) -/
def phase1 (data : List Nat) : List Nat := phase1Loop (data.length - 1) data.length 0 data 0 0

/-- Go: `k := levelTop; for k > 0 && data[k-1] >= levelTop { k-- }` (started at `k`) -/
def scanK (data : List Nat) (levelTop : Nat) : Nat → Nat
  | 0 => 0
  | k + 1 => if data.getD k 0 ≥ levelTop then scanK data levelTop k else k + 1

/-- the loop `for i > 0` of phase 2.  `leaves` may be negative in Go (the inner loop then does
    nothing): truncated subtraction.  `none`: `data[i]` with `i < 0` (a Go panic), or no fuel
    (the Go loop would not terminate); neither happens after phase 1 (`Kanzi.Huffman.phase2_spec`). -/
def phase2Loop : Nat → List Nat → Nat → Nat → Nat → Nat → Option (List Nat × Nat)
  | 0, _, _, _, _, _ => none
  | f + 1, data, levelTop, depth, i, total =>
    if i = 0 then some (data, depth - 1)
    else if total - (levelTop - scanK data levelTop levelTop) > i then none
    else
      phase2Loop f
        (data.take (i - (total - (levelTop - scanK data levelTop levelTop)))
          ++ List.replicate (total - (levelTop - scanK data levelTop levelTop)) depth ++ data.drop i)
        (scanK data levelTop levelTop) (depth + 1)
        (i - (total - (levelTop - scanK data levelTop levelTop)))
        ((levelTop - scanK data levelTop levelTop) * 2)

/-- `computeInPlaceSizesPhase2`: returns the code lengths (in place) and the largest one -/
def phase2 (data : List Nat) : Option (List Nat × Nat) :=
  if data.length < 2 then some (data, 0)
  else phase2Loop (data.length + 2) data (data.length - 2) 1 data.length 2

/-- Go: `for i := range freqs { sizes[ranks[i]] = byte(freqs[i]) }` -/
def setSizes (sizes syms lens : List Nat) : List Nat :=
  (syms.zip lens).foldl (fun sz p => sz.set p.1 (p.2 % 256)) sizes

/-- result of `computeCodeLengths`: the largest length, the updated `sizes` and `ranks` (now the
    symbols sorted by increasing frequency, then by increasing value) -/
structure CL where
  maxLen : Nat
  sizes : List Nat
  ranks : List Nat

/-- `computeCodeLengths(sizes, ranks)` with `ranks[i] = (freq << 8) | symbol`.
    `none` = the error "invalid code length 0" or a fault of phase 2. -/
def computeCodeLengths (sizes ranks : List Nat) : Option CL :=
  if ((ranks.mergeSort (fun a b => decide (a ≤ b))).map (· >>> 8)).any (· == 0) then none
  else
    match phase2 (phase1 ((ranks.mergeSort (fun a b => decide (a ≤ b))).map (· >>> 8))) with
    | none => none
    | some (d, m) =>
      some ⟨m, setSizes sizes ((ranks.mergeSort (fun a b => decide (a ≤ b))).map (· &&& 0xFF)) d,
            (ranks.mergeSort (fun a b => decide (a ≤ b))).map (· &&& 0xFF)⟩

/-! ### `limitCodeLengths` -/

/-- "Fold over-the-limit sizes": `for sizes[ranks[n]] >= 12 { debt += sizes[ranks[n]]-12; sizes[ranks[n]] = 12; n++ }`
    over `ranks[n:]`.  Returns (sizes, debt, ranks[n:]); `none` = `ranks[n]` out of range. -/
def foldOver : List Nat → List Nat → Nat → Option (List Nat × Nat × List Nat)
  | _, [], _ => none
  | sizes, r :: rs, debt =>
    if sizes.getD r 0 ≥ 12 then foldOver (sizes.set r 12) rs (debt + (sizes.getD r 0 - 12))
    else some (sizes, debt, r :: rs)

/-- "one slice per size delta": `idx := 11 - sizes[ranks[n]]` (byte arithmetic);
    `if idx > 5 || debt < 1<<idx { break }; q[idx] = append(q[idx], ranks[n]); n++` -/
def enqueue (sizes : List Nat) : List Nat → Nat → List (List Nat) → List (List Nat)
  | [], _, q => q
  | r :: rs, debt, q =>
    if (11 + 256 - sizes.getD r 0) % 256 > 5 ∨ debt < 2 ^ ((11 + 256 - sizes.getD r 0) % 256) then q
    else enqueue sizes rs debt
      (q.set ((11 + 256 - sizes.getD r 0) % 256) (q.getD ((11 + 256 - sizes.getD r 0) % 256) [] ++ [r]))

/-- level `idx` of "Repay bit debt": while `q[idx]` is not empty and `debt >= 1<<idx`:
    `sizes[q[idx][0]]++; debt -= 1<<idx; q[idx] = q[idx][1:]`.  Returns (q[idx], debt, sizes). -/
def repay (idx : Nat) : List Nat → Nat → List Nat → List Nat × Nat × List Nat
  | [], debt, sizes => ([], debt, sizes)
  | r :: rest, debt, sizes =>
    if debt < 2 ^ idx then (r :: rest, debt, sizes)
    else repay idx rest (debt - 2 ^ idx) (sizes.set r ((sizes.getD r 0 + 1) % 256))

def repayLevels : List Nat → List (List Nat) → Nat → List Nat → List (List Nat) × Nat × List Nat
  | [], q, debt, sizes => (q, debt, sizes)
  | idx :: is, q, debt, sizes =>
    repayLevels is (q.set idx (repay idx (q.getD idx []) debt sizes).1)
      (repay idx (q.getD idx []) debt sizes).2.1 (repay idx (q.getD idx []) debt sizes).2.2

/-- level `idx` of "Adjust if necessary": while `debt > 0` and `q[idx]` is not empty the same
    three statements.  `debt` is a Go `int` and may become negative; only `debt > 0` is ever
    tested afterwards, so the truncated subtraction of `Nat` is exact. -/
def adjust (idx : Nat) : List Nat → Nat → List Nat → List Nat × Nat × List Nat
  | [], debt, sizes => ([], debt, sizes)
  | r :: rest, debt, sizes =>
    if debt = 0 then (r :: rest, debt, sizes)
    else adjust idx rest (debt - 2 ^ idx) (sizes.set r ((sizes.getD r 0 + 1) % 256))

def adjustLevels : List Nat → List (List Nat) → Nat → List Nat → List (List Nat) × Nat × List Nat
  | [], q, debt, sizes => (q, debt, sizes)
  | idx :: is, q, debt, sizes =>
    adjustLevels is (q.set idx (adjust idx (q.getD idx []) debt sizes).1)
      (adjust idx (q.getD idx []) debt sizes).2.1 (adjust idx (q.getD idx []) debt sizes).2.2

/-- the state after the fast path: (debt after "Repay", debt after "Adjust", sizes) -/
def fastLimit (sizes ranks : List Nat) : Option (Nat × Nat × List Nat) :=
  match foldOver sizes ranks 0 with
  | none => none
  | some (sz, debt, rest) =>
    some ((repayLevels [5, 4, 3, 2, 1, 0] (enqueue sz rest debt (List.replicate 6 [])) debt sz).2.1,
          (adjustLevels [0, 1, 2, 3, 4, 5]
            (repayLevels [5, 4, 3, 2, 1, 0] (enqueue sz rest debt (List.replicate 6 [])) debt sz).1
            (repayLevels [5, 4, 3, 2, 1, 0] (enqueue sz rest debt (List.replicate 6 [])) debt sz).2.1
            (repayLevels [5, 4, 3, 2, 1, 0] (enqueue sz rest debt (List.replicate 6 [])) debt sz).2.2).2.1,
          (adjustLevels [0, 1, 2, 3, 4, 5]
            (repayLevels [5, 4, 3, 2, 1, 0] (enqueue sz rest debt (List.replicate 6 [])) debt sz).1
            (repayLevels [5, 4, 3, 2, 1, 0] (enqueue sz rest debt (List.replicate 6 [])) debt sz).2.1
            (repayLevels [5, 4, 3, 2, 1, 0] (enqueue sz rest debt (List.replicate 6 [])) debt sz).2.2).2.2)

/-- the slow path: `f[i] = freqs[symbols[i]]`, `NormalizeFrequencies(f, alpha, Σ f, 2048)`,
    `ranks[i] = (f[i] << 8) | symbols[i]`, `computeCodeLengths(sizes, ranks)` -/
def slowLimit (symbols freqs sizes : List Nat) : Option CL :=
  match Kanzi.Normalize.normalize (symbols.map (fun s => freqs.getD s 0))
      (symbols.map (fun s => freqs.getD s 0)).sum 2048 with
  | .err _ => none
  | .ok o => computeCodeLengths sizes ((o.freqs.zip symbols).map (fun p => (p.1 <<< 8) ||| p.2))

/-- `limitCodeLengths(symbols, freqs, sizes, ranks)`; the extra `Nat` tells which way was taken:
    3 = fast path, debt repaid by the first loop; 4 = by the second loop; 5 = slow path -/
def limitCodeLengths (symbols freqs sizes ranks : List Nat) : Option (CL × Nat) :=
  match fastLimit sizes ranks with
  | none => none
  | some (d1, d2, sz) =>
    if d2 > 0 then
      match slowLimit symbols freqs sz with
      | none => none
      | some cl => some (cl, 5)
    else some (⟨12, sz, ranks⟩, if d1 > 0 then 4 else 3)

/-! ### canonical codes -/

/-- the counting sort of `generateCanonicalCodes` (`buf[(size-1)<<8 | s] = 1`, then one scan):
    the symbols by increasing size, then increasing value -/
def canonOrder (sizes symbols : List Nat) : List Nat :=
  (List.range 13).flatMap (fun l =>
    ((List.range 256).filter (fun s => symbols.contains s)).filter (fun s => sizes.getD s 0 == l + 1))

/-- `code <<= sizes[s]-curLen; curLen = sizes[s]; codes[s] = code; code++` (`uint16` code, `byte` sizes) -/
def assignCodes (sizes : List Nat) : List Nat → Nat → Nat → List Nat → List Nat
  | [], _, _, codes => codes
  | s :: ss, code, curLen, codes =>
    assignCodes sizes ss
      (((code <<< ((sizes.getD s 0 + 256 - curLen) % 256)) % 65536 + 1) % 65536) (sizes.getD s 0)
      (codes.set s ((code <<< ((sizes.getD s 0 + 256 - curLen) % 256)) % 65536))

/-- `generateCanonicalCodes(sizes, codes, symbols, 12)`: returns the codes and the reordered
    `symbols`.  `none` = one of its two errors, or a Go panic: size 0 (index `255<<8|s` of `buf`)
    or a repeated symbol (the scan runs off `buf`). -/
def generateCanonicalCodes (sizes codes symbols : List Nat) : Option (List Nat × List Nat) :=
  if symbols.length = 0 then some (codes, symbols)
  else if symbols.length = 1 then
    some (assignCodes sizes symbols 0 (sizes.getD (symbols.headD 0) 0) codes, symbols)
  else if symbols.any (fun s => decide (s > 255) || decide (sizes.getD s 0 > 12) || decide (sizes.getD s 0 = 0)) then none
  else if (canonOrder sizes symbols).length ≠ symbols.length then none
  else
    some (assignCodes sizes (canonOrder sizes symbols) 0
            (sizes.getD ((canonOrder sizes symbols).headD 0) 0) codes, canonOrder sizes symbols)

/-! ### `updateFrequencies` -/

/-- the length deltas: `prevSize := 2; for s in symbols { EncodeByte(sizes[s] - prevSize); prevSize = sizes[s] }` -/
def encodeSizes (sizes : List Nat) : List Nat → Nat → Bits
  | [], _ => []
  | s :: ss, prev =>
    egEncodeByte ((sizes.getD s 0 + 256 - prev) % 256) ++ encodeSizes sizes ss (sizes.getD s 0)

/-- `this.codes[s] |= uint16(curSize) << 12` for the symbols of the alphabet -/
def packCodes (sizes : List Nat) (symbols codes : List Nat) : List Nat :=
  symbols.foldl (fun c s => c.set s ((c.getD s 0 ||| (sizes.getD s 0 <<< 12)) % 65536)) codes

structure UF where
  count : Nat
  bits : Bits          -- what `updateFrequencies` writes (alphabet, length deltas)
  codes : List Nat     -- `this.codes`: `(length << 12) | code`
  sizes : List Nat
  branch : Nat         -- 0 empty, 1 single symbol, 2 plain, 3/4/5 `limitCodeLengths` (fits), 6 last resort

/-- everything after the lengths and codes are known -/
def finishUF (symbols sizes codes : List Nat) (branch : Nat) : UF :=
  ⟨symbols.length, encodeAlphabetBits symbols ++ encodeSizes sizes symbols 2,
   packCodes sizes symbols codes, sizes, branch⟩

/-- the branch `count > 1` once `computeCodeLengths` / `limitCodeLengths` have answered -/
def codesFor (symbols : List Nat) (cl : CL) (branch : Nat) : Option UF :=
  if cl.maxLen > 12 then
    -- last resort: `codes[alphabet[i]] = i; sizes[alphabet[i]] = 8`
    some (finishUF symbols
      (symbols.foldl (fun sz s => sz.set s 8) cl.sizes)
      (((List.range symbols.length).zip symbols).foldl (fun c p => c.set p.2 p.1) (List.replicate 256 0)) 6)
  else
    match generateCanonicalCodes cl.sizes (List.replicate 256 0) cl.ranks with
    | none => none
    | some (codes, _) => some (finishUF symbols cl.sizes codes branch)

/-- `HuffmanEncoder.updateFrequencies(freqs)` (`freqs` has 256 entries).  `none` = an error. -/
def updateFrequencies (freqs : List Nat) : Option UF :=
  if freqs.length ≠ 256 then none
  else if (Kanzi.Normalize.support freqs).length = 0 then
    some ⟨0, encodeAlphabetBits [], List.replicate 256 0, List.replicate 256 0, 0⟩
  else if (Kanzi.Normalize.support freqs).length = 1 then
    some (finishUF (Kanzi.Normalize.support freqs)
      ((List.replicate 256 0).set ((Kanzi.Normalize.support freqs).headD 0) 1)
      ((List.replicate 256 0).set ((Kanzi.Normalize.support freqs).headD 0) 4096) 1)
  else
    match computeCodeLengths (List.replicate 256 0)
        ((Kanzi.Normalize.support freqs).map (fun s => (freqs.getD s 0 <<< 8) ||| s)) with
    | none => none
    | some cl =>
      if cl.maxLen > 12 then
        match limitCodeLengths (Kanzi.Normalize.support freqs) freqs cl.sizes cl.ranks with
        | none => none
        | some (cl2, br) => codesFor (Kanzi.Normalize.support freqs) cl2 br
      else codesFor (Kanzi.Normalize.support freqs) cl 2

/-! ### `encodeChunk` -/

/-- `code = c[b]; codeLen := code >> 12; state = (state << codeLen) | uint64(code & 0x0FFF); bits += codeLen`
    on the pair (state, bits) -/
def encSym (codes : Array Nat) (st : Nat × Nat) (b : Nat) : Nat × Nat :=
  (((st.1 <<< (codes.getD b 0 >>> 12)) % 2 ^ 64) ||| (codes.getD b 0 &&& 0x0FFF),
   st.2 + (codes.getD b 0 >>> 12))

/-- the 64-bit word of `binary.BigEndian.PutUint64(buf[idx:idx+8], state << uint(64-bits))` -/
def putWord (st : Nat × Nat) : Nat :=
  if st.2 ≤ 64 then (st.1 <<< (64 - st.2)) % 2 ^ 64 else 0

/-- the bytes that survive of this word: `idx += bits >> 3` (the rest is overwritten by what follows) -/
def flushBits (st : Nat × Nat) : Bits := (natBits (putWord st) 64).take (8 * (st.2 >>> 3))

/-- "Fragment last bytes" (no flush), then the final flush: the first `nbBits = idx*8 + bits`
    bits of the buffer end with the `bits` low bits of `state` -/
def encFragTail (codes : Array Nat) : Nat × Nat → List Nat → Bits
  | st, [] => natBits st.1 st.2
  | st, b :: bs => encFragTail codes (encSym codes st b) bs

/-- `for i := 0; i < szFrag4; i += 4`: 4 symbols, `PutUint64`, `idx += bits>>3; bits &= 7` -/
def encFragLoop (codes : Array Nat) : Nat → Nat × Nat → List Nat → Bits
  | g + 1, st, b0 :: b1 :: b2 :: b3 :: rest =>
    flushBits (encSym codes (encSym codes (encSym codes (encSym codes st b0) b1) b2) b3)
      ++ encFragLoop codes g
          ((encSym codes (encSym codes (encSym codes (encSym codes st b0) b1) b2) b3).1,
           (encSym codes (encSym codes (encSym codes (encSym codes st b0) b1) b2) b3).2 &&& 7) rest
  | _, st, l => encFragTail codes st l

/-- the `nbBits[j]` first bits of region `j` of the encoder's buffer, for the fragment `frag` -/
def encFrag (codes : Array Nat) (frag : List Nat) : Bits := encFragLoop codes (frag.length / 4) (0, 0) frag

/-- `encodeChunk(block, count)`: the four VarInt sizes, the four sub-streams, "Chunk last bytes" -/
def encodeChunk (codes : Array Nat) (c : List Nat) : Bits :=
  writeVarInt (encFrag codes (c.take (c.length / 4))).length
  ++ writeVarInt (encFrag codes ((c.drop (c.length / 4)).take (c.length / 4))).length
  ++ writeVarInt (encFrag codes ((c.drop (2 * (c.length / 4))).take (c.length / 4))).length
  ++ writeVarInt (encFrag codes ((c.drop (3 * (c.length / 4))).take (c.length / 4))).length
  ++ encFrag codes (c.take (c.length / 4))
  ++ encFrag codes ((c.drop (c.length / 4)).take (c.length / 4))
  ++ encFrag codes ((c.drop (2 * (c.length / 4))).take (c.length / 4))
  ++ encFrag codes ((c.drop (3 * (c.length / 4))).take (c.length / 4))
  ++ ofBytes (c.drop (4 * (c.length / 4)))

/-! ### `HuffmanEncoder.Write` -/

/-- one round of the chunk loop; also returns the branch (7 = raw chunk of less than 32 bytes) -/
def encodeOneChunk (c : List Nat) : Option (Bits × Nat) :=
  if c.length < 32 then some (ofBytes c, 7)
  else
    match updateFrequencies (histogram c) with
    | none => none
    | some u => some (u.bits ++ (if u.count > 1 then encodeChunk u.codes.toArray c else []), u.branch)

def encodeChunks : Nat → Nat → List Nat → Option (Bits × List Nat)
  | 0, _, _ => some ([], [])
  | fuel + 1, chunkSize, blk =>
    if blk.length = 0 then some ([], [])
    else
      match encodeOneChunk (blk.take chunkSize) with
      | none => none
      | some (b, br) =>
        match encodeChunks fuel chunkSize (blk.drop chunkSize) with
        | none => none
        | some (tl, brs) => some (b ++ tl, br :: brs)

/-- `HuffmanEncoder.Write(block)`: the bits and the branch taken for every chunk -/
def encodeB (blk : List Nat) (chunkSize : Nat) : Option (Bits × List Nat) :=
  encodeChunks blk.length chunkSize blk

def encode (blk : List Nat) (chunkSize : Nat) : Option Bits :=
  match encodeB blk chunkSize with
  | none => none
  | some (b, _) => some b

/-! ### decoder: `readLengths`, `buildDecodingTable` -/

/-- `curSize := int8(2); for s in symbols { curSize += int8(DecodeByte()); if curSize <= 0 || curSize > 12 { error }; sizes[s] = curSize }` -/
def readSizes : List Nat → Nat → Bits → List Nat → Option (List Nat × Bits)
  | [], _, bs, sizes => some (sizes, bs)
  | s :: ss, cur, bs, sizes =>
    match egDecodeByte bs with
    | none => none
    | some (d, r) =>
      if (cur + d) % 256 = 0 ∨ (cur + d) % 256 > 12 then none
      else readSizes ss ((cur + d) % 256) r (sizes.set s ((cur + d) % 256))

structure RL where
  alphabet : List Nat   -- `this.alphabet[0:count]` (reordered by `generateCanonicalCodes`)
  sizes : List Nat
  codes : List Nat

/-- `readLengths()`; an empty alphabet makes `Read` stop -/
def readLengths (bs : Bits) : Option (RL × Bits) :=
  match decodeAlphabet bs with
  | none => none
  | some (a, r) =>
    if a.length = 0 then some (⟨[], List.replicate 256 8, List.replicate 256 0⟩, r)
    else
      match readSizes a 2 r (List.replicate 256 8) with
      | none => none
      | some (sizes, r1) =>
        match generateCanonicalCodes sizes (List.replicate 256 0) a with
        | none => none
        | some (codes, ord) => some (⟨ord, sizes, codes⟩, r1)

/-- `t := table[idx:end]; for j := range t { t[j] = val }` -/
def fillTable (tbl : List Nat) (idx stop val : Nat) : List Nat :=
  tbl.take idx ++ List.replicate (stop - idx) val ++ tbl.drop stop

/-- the loop of `buildDecodingTable` (`uint16` index arithmetic); `none` = `return false`, or a
    Go panic: negative shift count (`length > 12`), slice bounds (`idx > end` after wrap-around) -/
def buildTableLoop (sizes codes : List Nat) : List Nat → Nat → List Nat → Option (List Nat)
  | [], _, tbl => some tbl
  | s :: ss, length, tbl =>
    if max length (sizes.getD s 0) > 12 then none
    else if ((codes.getD s 0 <<< (12 - max length (sizes.getD s 0))) % 65536
              + 2 ^ (12 - max length (sizes.getD s 0))) % 65536 > 4096 then none
    else if (codes.getD s 0 <<< (12 - max length (sizes.getD s 0))) % 65536
              > ((codes.getD s 0 <<< (12 - max length (sizes.getD s 0))) % 65536
                  + 2 ^ (12 - max length (sizes.getD s 0))) % 65536 then none
    else
      buildTableLoop sizes codes ss (max length (sizes.getD s 0))
        (fillTable tbl ((codes.getD s 0 <<< (12 - max length (sizes.getD s 0))) % 65536)
          (((codes.getD s 0 <<< (12 - max length (sizes.getD s 0))) % 65536
              + 2 ^ (12 - max length (sizes.getD s 0))) % 65536)
          ((s <<< 8) ||| sizes.getD s 0))

/-- `buildDecodingTable(count)`: 4096 entries `(symbol << 8) | size`, 7 where no code leads -/
def buildTable (rl : RL) : Option (List Nat) :=
  buildTableLoop rl.sizes rl.codes rl.alphabet 0 (List.replicate 4096 7)

/-! ### decoder: `decodeChunkV6` -/

/-- the bytes `ReadArray(buf, n)` stores for the bit string `bs` of length `n` (last byte zero
    padded); `k` = number of bytes -/
def toBytes : Nat → Bits → List Nat
  | 0, _ => []
  | k + 1, bs =>
    bitsNat (bs.take 8 ++ List.replicate (8 - (bs.take 8).length) false) :: toBytes k (bs.drop 8)

/-- `binary.BigEndian.Uint64(buffer[idx:])` (8 bytes, most significant first); beyond what the
    model knows of the region: 0 -/
def word64 (buf : Array Nat) (idx : Nat) : Nat :=
  (List.range 8).foldl (fun acc k => (acc <<< 8) ||| buf.getD (idx + k) 0) 0

/-- the registers of one sub-stream: `state` (`uint64`), `idx` (`int`), `bits` (`uint8`) -/
structure DS where
  state : Nat
  idx : Nat
  bits : Nat

/-- Go: `shift := (56 - *bits) & ^uint8(0x07)` -/
def rsShift (bits : Nat) : Nat := ((56 + 256 - bits) % 256) &&& 0xF8

/-- `readState(&state, &idx, &bits)`: returns the new registers (`bits` untouched) and the
    `uint8` result `bits + shift - 12` -/
def readState (buf : Array Nat) (d : DS) : DS × Nat :=
  (⟨((d.state <<< rsShift d.bits) % 2 ^ 64) ||| (word64 buf d.idx >>> (64 - rsShift d.bits)),
    d.idx + (rsShift d.bits >>> 3), d.bits⟩,
   (d.bits + rsShift d.bits + 256 - 12) % 256)

/-- Go: `this.table[(state>>bs)&_HUF_DECODING_MASK_V4]` -/
def look (tbl : Array Nat) (state bs : Nat) : Nat := tbl.getD ((state >>> bs) &&& 0xFFF) 0

/-- Go: `bs -= uint8(val)` -/
def subBs (bs v : Nat) : Nat := (bs + 256 - v % 256) % 256

/-- one round of the main loop for one sub-stream: `readState`, 4 table look-ups,
    `bits = bs + 12`; the 4 bytes `byte(val >> 8)` -/
def decGroup (tbl buf : Array Nat) (d : DS) : List Nat × DS :=
  let r := readState buf d
  let v0 := look tbl r.1.state r.2
  let b1 := subBs r.2 v0
  let v1 := look tbl r.1.state b1
  let b2 := subBs b1 v1
  let v2 := look tbl r.1.state b2
  let b3 := subBs b2 v2
  let v3 := look tbl r.1.state b3
  let b4 := subBs b3 v3
  ([(v0 >>> 8) % 256, (v1 >>> 8) % 256, (v2 >>> 8) % 256, (v3 >>> 8) % 256],
   ⟨r.1.state, r.1.idx, (b4 + 12) % 256⟩)

/-- `for n < szFrag { val := table[(state>>bs)&mask]; bs -= uint8(val); block[n] = byte(val>>8); n++ }` -/
def decSingles (tbl : Array Nat) (state : Nat) : Nat → Nat → List Nat
  | 0, _ => []
  | k + 1, bs =>
    ((look tbl state bs >>> 8) % 256) :: decSingles tbl state k (subBs bs (look tbl state bs))

/-- `for n < szFrag-4 { group }`, then one `readState` and the last symbols one by one;
    `rem = szFrag - n`, fuel = an upper bound of the number of rounds -/
def decFragLoop (tbl buf : Array Nat) : Nat → Nat → DS → List Nat
  | f + 1, rem, d =>
    if rem > 4 then (decGroup tbl buf d).1 ++ decFragLoop tbl buf f (rem - 4) (decGroup tbl buf d).2
    else decSingles tbl (readState buf d).1.state rem (readState buf d).2
  | 0, rem, d => decSingles tbl (readState buf d).1.state rem (readState buf d).2

/-- the `szFrag` symbols of one sub-stream whose region of the buffer holds `buf` -/
def decFrag (tbl buf : Array Nat) (szFrag : Nat) : List Nat := decFragLoop tbl buf szFrag szFrag ⟨0, 0, 0⟩

/-- the positions `*idx` (relative to the start of the region) at which the successive calls of
    `readState` read 8 bytes (`binary.BigEndian.Uint64(this.buffer[*idx:])`); same loop structure
    as `decFragLoop` -/
def decFragReads (tbl buf : Array Nat) : Nat → Nat → DS → List Nat
  | f + 1, rem, d =>
    if rem > 4 then d.idx :: decFragReads tbl buf f (rem - 4) (decGroup tbl buf d).2
    else [d.idx]
  | 0, _, d => [d.idx]

/-- every such read stays inside the buffer, of which `avail` bytes are left from the start of
    the region (otherwise Go panics: slice bounds out of range) -/
def readsOk (tbl buf : Array Nat) (szFrag avail : Nat) : Bool :=
  (decFragReads tbl buf szFrag szFrag ⟨0, 0, 0⟩).all (fun i => decide (i + 8 ≤ avail))

/-- `ReadArray(this.buffer[idx_j:], szBits)` followed by the `clear` of the 8 next bytes: the
    content of region `j` as far as the model knows it.  `none`: the input is too short, or the
    sub-stream does not fit the region of `stride` bytes. -/
def readRegion (stride sz : Nat) (junk : List Nat) (bs : Bits) : Option (Array Nat × Bits) :=
  if sz > bs.length then none
  else if (sz + 7) / 8 > stride then none
  else some ((toBytes ((sz + 7) / 8) (bs.take sz) ++ List.replicate 8 0 ++ junk).toArray, bs.drop sz)

/-- `decodeChunkV6(block, count)` with the table `tbl`; `bufLen = len(this.buffer)`,
    `stride = len(buffer)/4`.  (`int(szBits) < 0` cannot hold for a `uint32` on a 64-bit platform.)
    A read of `readState` past the end of the buffer is a Go panic: `none`.  (A read past the end
    of its own region but inside the buffer sees `junk` here and the next region in Go; a stream of
    the encoder never gets there, `Kanzi.C12.C12_huf_chunk`.) -/
def decodeChunk (tbl : Array Nat) (bufLen count : Nat) (junk : List Nat) (bs : Bits) :
    Option (List Nat × Bits) :=
  match readVarInt bs with
  | none => none
  | some (sz0, r0) =>
  match readVarInt r0 with
  | none => none
  | some (sz1, r1) =>
  match readVarInt r1 with
  | none => none
  | some (sz2, r2) =>
  match readVarInt r2 with
  | none => none
  | some (sz3, r3) =>
  match readRegion (bufLen / 4) sz0 junk r3 with
  | none => none
  | some (buf0, q0) =>
  match readRegion (bufLen / 4) sz1 junk q0 with
  | none => none
  | some (buf1, q1) =>
  match readRegion (bufLen / 4) sz2 junk q1 with
  | none => none
  | some (buf2, q2) =>
  match readRegion (bufLen / 4) sz3 junk q2 with
  | none => none
  | some (buf3, q3) =>
  if ¬ (readsOk tbl buf0 (count / 4) bufLen ∧ readsOk tbl buf1 (count / 4) (bufLen - bufLen / 4)
        ∧ readsOk tbl buf2 (count / 4) (bufLen - 2 * (bufLen / 4))
        ∧ readsOk tbl buf3 (count / 4) (bufLen - 3 * (bufLen / 4))) then none
  else
  match readBytes (count % 4) q3 with
  | none => none
  | some (tail, q4) =>
    some (decFrag tbl buf0 (count / 4) ++ decFrag tbl buf1 (count / 4) ++ decFrag tbl buf2 (count / 4)
          ++ decFrag tbl buf3 (count / 4) ++ tail, q4)

/-! ### `HuffmanDecoder.Read` (= `decodeV6`) -/

/-- one round of the chunk loop for a chunk of `len` bytes; the `Bool` is false when the
    alphabet is empty (`Read` returns what it has) -/
def decodeOneChunk (chunkSize len : Nat) (junk : List Nat) (bs : Bits) : Option ((List Nat × Bool) × Bits) :=
  if len < 32 then
    match readBytes len bs with
    | none => none
    | some (c, r) => some ((c, true), r)
  else
    match readLengths bs with
    | none => none
    | some (rl, r) =>
      if rl.alphabet.length = 0 then some (([], false), r)
      else if rl.alphabet.length = 1 then some ((List.replicate len (rl.alphabet.headD 0), true), r)
      else
        match buildTable rl with
        | none => none
        | some tbl =>
          match decodeChunk tbl.toArray (2 * chunkSize) len junk r with
          | none => none
          | some (c, r1) => some ((c, true), r1)

def decodeChunks : Nat → Nat → Nat → List Nat → Bits → Option (List Nat × Bits)
  | 0, _, _, _, bs => some ([], bs)
  | fuel + 1, chunkSize, count, junk, bs =>
    if count = 0 then some ([], bs)
    else
      match decodeOneChunk chunkSize (min chunkSize count) junk bs with
      | none => none
      | some ((c, go), r) =>
        if go then
          match decodeChunks fuel chunkSize (count - min chunkSize count) junk r with
          | none => none
          | some (tl, r2) => some (c ++ tl, r2)
        else some (c, r)

/-- `HuffmanDecoder.Read(block)` with `len(block) = count`, bitstream version 6.
    `junk`: what the reusable buffer holds behind the cleared bytes (see the header). -/
def decode (bs : Bits) (count chunkSize : Nat) (junk : List Nat := []) : Option (List Nat × Bits) :=
  decodeChunks count chunkSize count junk bs

end Kanzi.Huffman
