package gen

import (
	"encoding/binary"
	"math/rand"
	"strings"
)

var words = strings.Fields(`the of and to in a is that for it as was with be by on not he this are or his from at which but have an had they you were their one all we can her has there been if more when will would who so no out up into than them only its time some could these two may then do first any my now such like other our over man me even most made after also did many before must through back years where much your way well down should because each just those people mr how too little state good very make world still own see men work long get here between both life being under never day same another know while last might us great old year off come since against go came right used take three compression Kanzi block stream transform entropy`)

func Text(r *rand.Rand, n int) []byte {
	var sb strings.Builder
	for sb.Len() < n {
		w := words[r.Intn(len(words))]
		if r.Intn(10) == 0 {
			w = strings.Title(w)
		}
		sb.WriteString(w)
		switch r.Intn(12) {
		case 0:
			sb.WriteString(". ")
		case 1:
			sb.WriteString(",\n")
		case 2:
			sb.WriteString("\r\n")
		default:
			sb.WriteByte(' ')
		}
	}
	return []byte(sb.String())[:n]
}

func UTF8(r *rand.Rand, n int, nsyms int) []byte {
	// many distinct multibyte code points
	runes := make([]rune, nsyms)
	for i := range runes {
		switch r.Intn(3) {
		case 0:
			runes[i] = rune(0x80 + r.Intn(0x700))
		case 1:
			runes[i] = rune(0x800 + r.Intn(0xF000-0x800))
			if runes[i] >= 0xD800 && runes[i] < 0xE000 {
				runes[i] = 0x4E00 + rune(r.Intn(0x5000))
			}
		default:
			runes[i] = rune(0x10000 + r.Intn(0xFFFF))
		}
	}
	var sb strings.Builder
	for sb.Len() < n {
		if r.Intn(4) == 0 {
			sb.WriteByte(byte(32 + r.Intn(90)))
		} else {
			sb.WriteRune(runes[r.Intn(len(runes))])
		}
	}
	b := []byte(sb.String())
	return b
}

func DNA(r *rand.Rand, n int) []byte {
	b := make([]byte, n)
	al := "ACGT"
	for i := range b {
		b[i] = al[r.Intn(4)]
		if r.Intn(200) == 0 {
			b[i] = '\n'
		}
	}
	return b
}

func DNARepeats(r *rand.Rand, n int) []byte {
	b := make([]byte, 0, n)
	al := "ACGT"
	for len(b) < n {
		if len(b) > 100 && r.Intn(3) == 0 {
			st := r.Intn(len(b) - 50)
			l := 8 + r.Intn(200)
			if st+l > len(b) {
				l = len(b) - st
			}
			b = append(b, b[st:st+l]...)
		} else {
			for k := 0; k < 20; k++ {
				b = append(b, al[r.Intn(4)])
			}
		}
	}
	return b[:n]
}

func Exe(r *rand.Rand, n int, elf bool) []byte {
	b := make([]byte, n)
	r.Read(b)
	for i := 0; i+5 < n; i += 1 + r.Intn(12) {
		switch r.Intn(4) {
		case 0:
			b[i] = 0xE8
			binary.LittleEndian.PutUint32(b[i+1:], uint32(r.Intn(n)))
		case 1:
			b[i] = 0xE9
			binary.LittleEndian.PutUint32(b[i+1:], uint32(int32(r.Intn(4096)-2048)))
		case 2:
			b[i] = 0x0F
			b[i+1] = 0x80 + byte(r.Intn(16))
		default:
			b[i] = 0x8B
		}
	}
	if elf && n >= 64 {
		copy(b, []byte{0x7F, 'E', 'L', 'F', 2, 1, 1, 0})
		binary.LittleEndian.PutUint16(b[18:], 0x3E) // x86-64
	} else if n >= 64 {
		copy(b, []byte{'M', 'Z'})
	}
	return b
}

func Wave(r *rand.Rand, n int, hdr bool) []byte {
	b := make([]byte, n)
	v1, v2 := 0, 0
	for i := 0; i+3 < n; i += 4 {
		v1 += r.Intn(200) - 100
		v2 += r.Intn(100) - 50
		binary.LittleEndian.PutUint16(b[i:], uint16(int16(v1)))
		binary.LittleEndian.PutUint16(b[i+2:], uint16(int16(v2)))
	}
	if hdr && n > 44 {
		copy(b, []byte("RIFF\x00\x00\x00\x00WAVEfmt "))
	}
	return b
}

func Runs(r *rand.Rand, n int) []byte {
	b := make([]byte, 0, n)
	for len(b) < n {
		c := byte(r.Intn(256))
		if r.Intn(3) == 0 {
			c = 0
		}
		l := 1 + r.Intn(1<<uint(r.Intn(12)))
		for k := 0; k < l; k++ {
			b = append(b, c)
		}
	}
	return b[:n]
}

func Skewed(r *rand.Rand, n int, rare, dominant int) []byte {
	b := make([]byte, n)
	for i := range b {
		b[i] = byte(r.Intn(dominant))
	}
	// sprinkle rare symbols once each
	for s := 0; s < rare && s < n; s++ {
		b[r.Intn(n)] = byte(255 - s)
	}
	return b
}

func Random(r *rand.Rand, n int) []byte {
	b := make([]byte, n)
	r.Read(b)
	return b
}

func SmallAlpha(r *rand.Rand, n int, k int) []byte {
	b := make([]byte, n)
	for i := range b {
		b[i] = byte(r.Intn(k)) * 37
	}
	return b
}

func Base64(r *rand.Rand, n int) []byte {
	al := "ABCDEFGHIJKLMNOPQRSTUVWXYZabcdefghijklmnopqrstuvwxyz0123456789+/"
	b := make([]byte, n)
	for i := range b {
		b[i] = al[r.Intn(64)]
	}
	return b
}

func Numeric(r *rand.Rand, n int) []byte {
	al := "0123456789,.- \n"
	b := make([]byte, n)
	for i := range b {
		b[i] = al[r.Intn(len(al))]
	}
	return b
}

type Shape struct {
	Name string
	F    func(r *rand.Rand, n int) []byte
}

// TextPunct: prose in which every printable ASCII punctuation character (and a few control and
// high bytes) occurs directly after, before and between words - Windows paths, escape sequences,
// markup, source code - so that the word-delimiter classification of the text transforms matters
// for every delimiter candidate.
func TextPunct(r *rand.Rand, n int) []byte {
	punct := []byte("!\"#$%&'()*+,-./:;<=>?@[\\]^_`{|}~\t\n\r\x00\x7f\xa0\xe9")
	var sb strings.Builder
	k := r.Intn(len(punct))
	for sb.Len() < n {
		w := words[r.Intn(len(words))]
		if r.Intn(8) == 0 {
			w = strings.Title(w)
		}
		sb.WriteString(w)
		switch r.Intn(6) {
		case 0:
			sb.WriteByte(' ')
		case 1: // word, delimiter candidate, word
			sb.WriteByte(punct[k%len(punct)])
			k++
		case 2: // path / escape like: C:\Users\name or line\n
			sb.WriteByte('\\')
			sb.WriteString(words[r.Intn(len(words))])
			sb.WriteByte('\\')
		case 3:
			sb.WriteByte(punct[k%len(punct)])
			sb.WriteByte(' ')
			k++
		default:
			sb.WriteByte(' ')
			sb.WriteByte(punct[k%len(punct)])
			k++
		}
	}
	return []byte(sb.String())[:n]
}

// ExtraShapes are found by name (ShapeByName) but are not part of the grids that iterate over Shapes.
var ExtraShapes = []Shape{
	{"textpunct", TextPunct},
}

// ShapeByName looks a shape up in Shapes and ExtraShapes.
func ShapeByName(name string) *Shape {
	for i := range Shapes {
		if Shapes[i].Name == name {
			return &Shapes[i]
		}
	}
	for i := range ExtraShapes {
		if ExtraShapes[i].Name == name {
			return &ExtraShapes[i]
		}
	}
	return nil
}

var Shapes = []Shape{
	{"text", Text},
	{"utf8-50", func(r *rand.Rand, n int) []byte { return UTF8(r, n, 50) }},
	{"utf8-3000", func(r *rand.Rand, n int) []byte { return UTF8(r, n, 3000) }},
	{"utf8-40000", func(r *rand.Rand, n int) []byte { return UTF8(r, n, 40000) }},
	{"dna", DNA},
	{"dnarep", DNARepeats},
	{"exe-elf", func(r *rand.Rand, n int) []byte { return Exe(r, n, true) }},
	{"exe-mz", func(r *rand.Rand, n int) []byte { return Exe(r, n, false) }},
	{"wave", func(r *rand.Rand, n int) []byte { return Wave(r, n, false) }},
	{"wavehdr", func(r *rand.Rand, n int) []byte { return Wave(r, n, true) }},
	{"runs", Runs},
	{"skew-250-6", func(r *rand.Rand, n int) []byte { return Skewed(r, n, 250, 6) }},
	{"skew-100-2", func(r *rand.Rand, n int) []byte { return Skewed(r, n, 100, 2) }},
	{"random", Random},
	{"alpha2", func(r *rand.Rand, n int) []byte { return SmallAlpha(r, n, 2) }},
	{"alpha4", func(r *rand.Rand, n int) []byte { return SmallAlpha(r, n, 4) }},
	{"base64", Base64},
	{"numeric", Numeric},
	{"zeros", func(r *rand.Rand, n int) []byte { return make([]byte, n) }},
}
