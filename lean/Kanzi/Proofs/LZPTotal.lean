/-
Proofs for the `lzp` slice, part 3: absence of faults.
  * Forward never faults and never runs out of fuel, for every block and every destination length
    (`lzpForward_ne_fault`);
  * Inverse on an arbitrary input either returns at most `len(dst)` bytes, or a clean error, or faults
    in one of exactly two ways (`lzpInverse_cases`): a store at `dst[len(dst)]` (literal or escaped
    literal when the destination is full, or a destination shorter than 4 bytes) or a read at
    `src[len(src)]` (the input ends with a match flag for which a prediction exists).  The model fuel and
    the "stale read" are never reached.
-/
import Kanzi.Proofs.LZPRound

namespace Kanzi.LZP

/-! ## Forward -/

theorem fwdTail_ok (src : Array Nat) (dstLen dstEnd : Nat) (hd : dstEnd + 2 ≤ dstLen) :
    ∀ (f i ctx : Nat) (tbl out : Array Nat), i ≤ src.size → src.size < f + i →
      ∃ r, fwdTail src dstLen dstEnd f i ctx tbl out = .ok r := by
  intro f
  induction f with
  | zero => intro i ctx tbl out h1 h2; omega
  | succ f ih =>
    intro i ctx tbl out h1 h2
    unfold fwdTail
    by_cases hc : i < src.size ∧ out.size < dstEnd
    · rw [if_pos hc]
      obtain ⟨v, _, e⟩ := encLit_ok src dstLen i ctx (tbl.getD (hash ctx) 0) (tbl.setIfInBounds (hash ctx) i) out
        hc.1 (by omega)
      rw [e]
      simp only []
      exact ih _ _ _ _ (by omega) (by omega)
    · rw [if_neg hc]; exact ⟨_, rfl⟩

theorem fwdMain_ok (src : Array Nat) (dstLen dstEnd : Nat) (hd : dstEnd + 2 ≤ dstLen) :
    ∀ (f i ctx : Nat) (tbl out : Array Nat), 0 < i → i ≤ src.size → src.size < f + i → (∀ k, tbl.getD k 0 < i) →
      ∃ r, fwdMain src dstLen dstEnd f i ctx tbl out = .ok r := by
  intro f
  induction f with
  | zero => intro i ctx tbl out h0 h1 h2; omega
  | succ f ih =>
    intro i ctx tbl out h0 h1 h2 hinv
    unfold fwdMain
    rw [MIN_MATCH64_eq]
    by_cases hc : i + 64 < src.size ∧ out.size < dstEnd
    · rw [if_pos hc]
      obtain ⟨s, e, etbl, hshape⟩ := encStep_ok src dstLen dstEnd i ctx tbl out hc.1 hc.2 hd hinv
      rw [e]
      simp only []
      have hsi : i < s.i ∧ s.i ≤ src.size := by
        rcases hshape with ⟨v, _, e1, _, _⟩ | ⟨best, l, h64, _, hb, _, _, e1, _, _⟩
        · omega
        · omega
      refine ih _ _ _ _ (by omega) hsi.2 (by omega) ?_
      rw [etbl]
      exact tbl_inv_step tbl _ i _ hinv hsi.1
    · rw [if_neg hc]
      exact fwdTail_ok src dstLen dstEnd hd _ _ _ _ _ h1 (by omega)

/-- C13_lzp_total, Forward part: no fault (and no exhausted fuel) on any block into any destination -/
theorem lzpForward_ne_fault (b : List Nat) (dstLen : Nat) (k : String) (x l : Nat) :
    lzpForward b dstLen ≠ .fault k x l := by
  unfold lzpForward
  intro h
  split at h
  · simp at h
  · split at h
    · simp at h
    · split at h
      · simp at h
      · rename_i h0 hdst h128
        have h128' : 128 ≤ b.length := by
          have : MIN_BLOCK_LENGTH = 128 := rfl
          omega
        have hm := lzpMaxEncodedLen_ge b.length
        have h4 : 4 ≤ dstLen := by omega
        have hde := dstEnd_le b.length dstLen h128' (by omega)
        match b, h128' with
        | b0 :: b1 :: b2 :: b3 :: rest, _ =>
          simp only [List.getElem?_toArray, List.getElem?_cons_zero, List.getElem?_cons_succ, List.size_toArray] at h
          rw [wr_ok _ _ _ (by simpa using h4), Out.bind_ok] at h
          obtain ⟨r, hr⟩ := fwdMain_ok (b0 :: b1 :: b2 :: b3 :: rest).toArray dstLen _ hde
            (b0 :: b1 :: b2 :: b3 :: rest).length 4 (b0 + 256 * b1 + 65536 * b2 + 16777216 * b3) tbl0
            ((#[] : Array Nat) ++ [b0, b1, b2, b3]) (by omega) (by simp) (by simp)
            (fun k => by rw [tbl0_get]; omega)
          rw [hr] at h
          unfold fwdFinish at h
          rw [Out.bind_ok] at h
          split at h <;> simp at h

/-! ## Inverse on arbitrary input -/

theorem skipFE_snd_ge (a : Array Nat) : ∀ (f i m : Nat), m ≤ (skipFE a f i m).2 := by
  intro f
  induction f with
  | zero => intro i m; simp [skipFE]
  | succ f ih =>
    intro i m
    unfold skipFE
    split
    · have := ih (i + 1) (m + 254); omega
    · exact Nat.le_refl _

/-- the only two ways Inverse can fault -/
def KnownFault (asize n : Nat) {α : Type} (r : Out α) : Prop :=
  r = .fault "dst-index" n n ∨ r = .fault "src-index" asize asize

/-- one decoder iteration on arbitrary input, under the loop invariants -/
theorem decStep_cases (a : Array Nat) (n mm i ctx : Nat) (tbl out : Array Nat) (hmm : 0 < mm)
    (hi : i < a.size) (h4 : 4 ≤ out.size) (hinv : ∀ k, tbl.getD k 0 < out.size) :
    (∃ s, decStep a n mm i ctx tbl out = .ok s ∧ i < s.i ∧ s.i ≤ a.size ∧ out.size < s.out.size ∧
        s.out.size ≤ n ∧ s.tbl = tbl.setIfInBounds (hash ctx) out.size) ∨
      (∃ e, decStep a n mm i ctx tbl out = .err e) ∨ KnownFault a.size n (decStep a n mm i ctx tbl out) := by
  unfold decStep
  simp only []
  rw [Array.getElem?_eq_getElem hi]
  simp only []
  split
  · -- literal
    by_cases hw : out.size + 1 ≤ n
    · rw [wr_ok _ _ _ (by simpa using hw), Out.bind_ok]
      exact Or.inl ⟨_, rfl, by simp, by simp; omega, by simp, by simp; omega, rfl⟩
    · rw [wr_fault _ _ _ (by simpa using hw), Out.bind_fault]
      exact Or.inr (Or.inr (Or.inl rfl))
  · by_cases hi1 : i + 1 < a.size
    · rw [Array.getElem?_eq_getElem hi1]
      simp only []
      split
      · -- escaped flag
        by_cases hw : out.size + 1 ≤ n
        · rw [wr_ok _ _ _ (by simpa using hw), Out.bind_ok]
          exact Or.inl ⟨_, rfl, by simp, by simp; omega, by simp, by simp; omega, rfl⟩
        · rw [wr_fault _ _ _ (by simpa using hw), Out.bind_fault]
          exact Or.inr (Or.inr (Or.inl rfl))
      · -- match
        have hp : i + 1 ≤ (if a[i + 1] = 0xFE then skipFE a (a.size - (i + 1)) (i + 1) mm else (i + 1, mm)).1 ∧
            (if a[i + 1] = 0xFE then skipFE a (a.size - (i + 1)) (i + 1) mm else (i + 1, mm)).1 ≤ a.size ∧
            mm ≤ (if a[i + 1] = 0xFE then skipFE a (a.size - (i + 1)) (i + 1) mm else (i + 1, mm)).2 ∧
            (a[i + 1] ≠ 0xFE → (if a[i + 1] = 0xFE then skipFE a (a.size - (i + 1)) (i + 1) mm else (i + 1, mm)).1
              < a.size) := by
          split
          · rename_i hfe
            have := skipFE_bounds a (a.size - (i + 1)) (i + 1) mm (by omega)
            exact ⟨this.1, this.2, skipFE_snd_ge _ _ _ _, fun h => absurd hfe h⟩
          · exact ⟨Nat.le_refl _, by simp; omega, Nat.le_refl _, fun _ => hi1⟩
        generalize (if a[i + 1] = 0xFE then skipFE a (a.size - (i + 1)) (i + 1) mm else (i + 1, mm)) = p at hp ⊢
        obtain ⟨hp1, hp2, hp3, hp4⟩ := hp
        split
        · exact Or.inr (Or.inl ⟨_, rfl⟩)
        · rename_i hnot
          have hlt : p.1 < a.size := by
            by_cases hfe : a[i + 1] = 0xFE
            · by_cases hlt : p.1 < a.size
              · exact hlt
              · exact absurd ⟨hfe, by omega⟩ hnot
            · exact hp4 hfe
          rw [Array.getElem?_eq_getElem hlt]
          simp only []
          split
          · exact Or.inr (Or.inl ⟨_, rfl⟩)
          · rename_i hfit
            have href := hinv (hash ctx)
            have hcopy : ∃ o, (if tbl.getD (hash ctx) 0 + (p.2 + a[p.1]) < out.size
                then Out.ok (out ++ out.extract (tbl.getD (hash ctx) 0) (tbl.getD (hash ctx) 0 + (p.2 + a[p.1])))
                else copySeq (p.2 + a[p.1]) (tbl.getD (hash ctx) 0) out) = .ok o ∧
                o.size = out.size + (p.2 + a[p.1]) := by
              split
              · refine ⟨_, rfl, ?_⟩
                rw [Array.size_append, Array.size_extract]
                omega
              · exact copySeq_total _ _ _ href
            obtain ⟨o, e1, e2⟩ := hcopy
            rw [e1, Out.bind_ok]
            obtain ⟨c, hc⟩ := le32_some o (o.size - 4) (by omega)
            rw [hc]
            exact Or.inl ⟨_, rfl, by simp only []; omega, by simp only []; omega, by simp only []; omega,
              by simp only []; omega, rfl⟩
    · rw [Array.getElem?_eq_none (by omega)]
      simp only []
      have : i + 1 = a.size := by omega
      rw [this]
      exact Or.inr (Or.inr (Or.inr rfl))

/-- the loop of Inverse on arbitrary input: at most `n` bytes, a clean error, or a known fault -/
theorem invLoop_cases (a : Array Nat) (n mm : Nat) (hmm : 0 < mm) :
    ∀ (F i ctx : Nat) (tbl out : Array Nat), i ≤ a.size → a.size < F + i → 4 ≤ out.size → out.size ≤ n →
      (∀ k, tbl.getD k 0 < out.size) →
      (∃ r, invLoop a n mm F i ctx tbl out = .ok r ∧ r.1 = a.size ∧ r.2.size ≤ n) ∨
        (∃ e, invLoop a n mm F i ctx tbl out = .err e) ∨ KnownFault a.size n (invLoop a n mm F i ctx tbl out) := by
  intro F
  induction F with
  | zero => intro i ctx tbl out h1 h2; omega
  | succ F ih =>
    intro i ctx tbl out h1 h2 h4 hn hinv
    unfold invLoop
    by_cases hc : i < a.size
    · rw [if_pos hc]
      rcases decStep_cases a n mm i ctx tbl out hmm hc h4 hinv with ⟨s, e, s1, s2, s3, s4, s5⟩ | ⟨e, he⟩ | hf
      · rw [e]
        simp only []
        refine ih _ _ _ _ s2 (by omega) (by omega) s4 ?_
        rw [s5]
        exact tbl_inv_step tbl _ _ _ hinv s3
      · rw [he]; exact Or.inr (Or.inl ⟨_, rfl⟩)
      · rcases hf with hf | hf <;> rw [hf]
        · exact Or.inr (Or.inr (Or.inl rfl))
        · exact Or.inr (Or.inr (Or.inr rfl))
    · rw [if_neg hc]
      exact Or.inl ⟨_, rfl, by simp only []; omega, hn⟩

/-- C13_lzp_total, Inverse part: on ANY input and ANY destination length Inverse returns at most
    `len(dst)` bytes, or a clean error, or panics with `index out of range [len(dst)]` on `dst` or
    `index out of range [len(src)]` on `src` -/
theorem lzpInverse_cases (v3 : Bool) (src : List Nat) (n : Nat) :
    (∃ o, lzpInverse v3 src n = .ok o ∧ o.length ≤ n) ∨ (∃ e, lzpInverse v3 src n = .err e) ∨
      KnownFault src.length n (lzpInverse v3 src n) := by
  unfold lzpInverse
  split
  · exact Or.inl ⟨[], rfl, by simp⟩
  · split
    · exact Or.inr (Or.inl ⟨_, rfl⟩)
    · rename_i h0 h4
      have h4' : 4 ≤ src.length := by omega
      match src, h4' with
      | b0 :: b1 :: b2 :: b3 :: rest, _ =>
        simp only [List.getElem?_toArray, List.getElem?_cons_zero, List.getElem?_cons_succ, List.size_toArray]
        by_cases hw : 4 ≤ n
        · rw [wr_ok _ _ _ (by simpa using hw), Out.bind_ok]
          have hmm : 0 < minMatch v3 := by cases v3 <;> decide
          have := invLoop_cases (b0 :: b1 :: b2 :: b3 :: rest).toArray n (minMatch v3) hmm
            (b0 :: b1 :: b2 :: b3 :: rest).length 4 (b0 + 256 * b1 + 65536 * b2 + 16777216 * b3) tbl0
            ((#[] : Array Nat) ++ [b0, b1, b2, b3]) (by simp) (by simp) (by simp) (by simpa using hw)
            (fun k => by rw [tbl0_get]; simp)
          simp only [List.size_toArray] at this
          rcases this with ⟨r, e, r1, r2⟩ | ⟨e, he⟩ | hf
          · rw [e]
            unfold invFinish
            rw [Out.bind_ok, if_neg (by omega)]
            exact Or.inl ⟨_, rfl, by simpa using r2⟩
          · rw [he]; exact Or.inr (Or.inl ⟨_, rfl⟩)
          · rcases hf with hf | hf <;> rw [hf]
            · exact Or.inr (Or.inr (Or.inl rfl))
            · exact Or.inr (Or.inr (Or.inr rfl))
        · rw [wr_fault _ _ _ (by simpa using hw), Out.bind_fault]
          exact Or.inr (Or.inr (Or.inl rfl))

/-! ## the faults of Inverse are reachable (forged inputs) -/

/-- a match flag with a prediction as the last input byte: Go reads `src[len(src)]` -/
theorem decStep_flag_end (a : Array Nat) (n mm i ctx : Nat) (tbl out : Array Nat)
    (hv : a[i]? = some MATCH_FLAG) (hr : tbl.getD (hash ctx) 0 ≠ 0) (hend : i + 1 = a.size) :
    decStep a n mm i ctx tbl out = .fault "src-index" a.size a.size := by
  unfold decStep
  simp only []
  rw [hv]
  simp only []
  rw [if_neg (by intro h; rcases h with h | h; exact h rfl; exact hr h), Array.getElem?_eq_none (by omega)]
  simp only []
  rw [hend]

/-- an escaped flag when the destination is full: Go stores at `dst[len(dst)]` -/
theorem decStep_esc_full (a : Array Nat) (n mm i ctx : Nat) (tbl out : Array Nat)
    (hv : a[i]? = some MATCH_FLAG) (hr : tbl.getD (hash ctx) 0 ≠ 0) (hy : a[i + 1]? = some 0xFF)
    (hfull : n ≤ out.size) : decStep a n mm i ctx tbl out = .fault "dst-index" n n := by
  unfold decStep
  simp only []
  rw [hv]
  simp only []
  rw [if_neg (by intro h; rcases h with h | h; exact h rfl; exact hr h), hy]
  simp only []
  rw [if_pos True.intro, wr_fault _ _ _ (by simp; omega), Out.bind_fault]

theorem invLoop_succ (a : Array Nat) (n mm F i ctx : Nat) (tbl out : Array Nat) :
    invLoop a n mm (F + 1) i ctx tbl out =
      if i < a.size then
        match decStep a n mm i ctx tbl out with
        | .ok s => invLoop a n mm F s.i s.ctx s.tbl s.out
        | .err e => .err e
        | .fault k x l => .fault k x l
      else .ok (i, out) := by
  rw [invLoop]; rfl

theorem tbl0_size : tbl0.size = 65536 := by
  unfold tbl0; rw [Array.size_replicate]; rfl

/-- Inverse on an input that starts with five zero bytes, after the first loop iteration: context 0,
    position 4 stored in slot `hash 0 = 0` -/
theorem lzpInverse_zeros (rest : List Nat) (n : Nat) (h5 : 5 ≤ n) :
    lzpInverse false (0 :: 0 :: 0 :: 0 :: 0 :: rest) n =
      invFinish (rest.length + 5) (invLoop (0 :: 0 :: 0 :: 0 :: 0 :: rest).toArray n 64 (rest.length + 4) 5 0
        (tbl0.setIfInBounds 0 4) #[0, 0, 0, 0, 0]) := by
  unfold lzpInverse
  rw [if_neg (by simp; omega), if_neg (by simp)]
  simp only [List.getElem?_toArray, List.getElem?_cons_zero, List.getElem?_cons_succ, List.size_toArray,
    List.length_cons]
  rw [wr_ok _ _ _ (by simp; omega), Out.bind_ok]
  have hmm : minMatch false = 64 := rfl
  rw [hmm]
  rw [invLoop_succ]
  rw [if_pos (by simp)]
  have hctx : 0 + 256 * 0 + 65536 * 0 + 16777216 * 0 = 0 := rfl
  rw [hctx]
  rw [decStep_lit _ n 64 4 0 tbl0 _ 0 (by simp) (Or.inl (by decide)) (by simp; omega)]
  simp only []
  have h1 : hash 0 = 0 := by decide
  have h2 : shiftCtx 0 0 = 0 := by decide
  rw [h1, h2]
  rfl

theorem ref_zeros : (tbl0.setIfInBounds 0 4).getD (hash 0) 0 ≠ 0 := by
  have h1 : hash 0 = 0 := by decide
  rw [h1, getD_set, if_pos ⟨rfl, by rw [tbl0_size]; omega⟩]
  omega

/-- forged input: the block ends with a match flag for which a prediction exists -/
theorem lzpInverse_fault_src (n : Nat) (h5 : 5 ≤ n) :
    lzpInverse false [0, 0, 0, 0, 0, 0xFC] n = .fault "src-index" 6 6 := by
  rw [lzpInverse_zeros [0xFC] n h5]
  rw [invLoop_succ]
  rw [if_pos (by simp)]
  rw [decStep_flag_end _ n 64 5 0 _ _ (by rfl) ref_zeros (by rfl)]
  rfl

/-- forged input: an escaped flag after the destination has been filled -/
theorem lzpInverse_fault_esc : lzpInverse false [0, 0, 0, 0, 0, 0xFC, 0xFF] 5 = .fault "dst-index" 5 5 := by
  rw [lzpInverse_zeros [0xFC, 0xFF] 5 (by omega)]
  rw [invLoop_succ]
  rw [if_pos (by simp)]
  rw [decStep_esc_full _ 5 64 5 0 _ _ (by rfl) ref_zeros (by rfl) (by simp)]
  rfl

end Kanzi.LZP
