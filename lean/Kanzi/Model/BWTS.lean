/-
Model of the bijective Burrows–Wheeler transform `transform.BWTS` (v2/transform/BWTS.go), slice
`bwts`, property C13.  Core Lean only (linked into `kmodel`).

Three layers:

  SPEC      `bwtsSpec s`: the textbook definition (Gil–Scott; Kufleitner).  Factor the block into
            its Lyndon factorisation `s = w1 w2 … wk` (`lyndonFactors`: every `wi` a Lyndon word,
            `w1 ≥ w2 ≥ … ≥ wk`), collect all rotations of all factors (`rotations`), sort them by the
            infinite-periodic order (`omegaLe u v`: `u^ω ≤ v^ω`), output the last letter of each.
            Nothing of the Go code is used here.

  FORWARD   `bwtsForward src dstLen` = `BWTS.Forward`.  The Go code computes a suffix array with
            DivSufSort (NOT modelled: the model takes the suffix array from the naive specification
            `suffixArray` = sort the suffixes) and repairs it into the order of the rotations of the
            Lyndon factors (`isa` loop, `moveLyndonWordHead`, the inner rank-shifting loops, the
            output loop).  That post-processing is modelled statement by statement, every slice
            access checked (`none` = Go panic, index out of range).

  INVERSE   `bwtsInverse src dstLen` = `BWTS.Inverse`: histogram, cumulated buckets, the `lf` array,
            and the cycle-following loop with the visited marks (`lf[p] = -1`), every slice access
            checked.

Bytes are `Nat` (< 256).  A Go call is a function of the value of `src` and of `len(dst)`; the result is

    .ok out   nil error, `out = dst[0:written]`
    .err      a non-nil error is returned
    .fault    the Go code panics (slice index out of range)

Not modelled: the `&src[0] == &dst[0]` aliasing test (the buffers of the model are distinct values),
the lazily allocated `buffer1` / `buffer2` of a reused instance (the model is a fresh instance: `lf`
has exactly `count` entries; a longer `lf` only has extra entries that are never indexed, see
`C13_bwts_total`), DivSufSort.  Integers: `sa`, `isa`, `lf`, `buckets` are `int32` in Go; all values
are ranks / positions `< count ≤ 2^30` (or the mark -1), so nothing wraps; the model uses `Nat`
(`Int` for `lf` because of the mark).
-/
namespace Kanzi.BWTS

inductive Res where
  | ok (out : List Nat)
  | err
  | fault
deriving Repr, DecidableEq, Inhabited

/-- `_BWTS_MAX_BLOCK_SIZE = 1024 * 1024 * 1024` -/
def maxBlockSize : Nat := 1024 * 1024 * 1024

/-- Go `BWTS.MaxEncodedLen`: no header at all -/
def maxEncodedLen (n : Nat) : Nat := n

/-! ## SPEC: Lyndon factorisation, rotations, infinite-periodic order -/

/-- strict lexicographic order on words; a proper prefix is smaller -/
def lexLt : List Nat → List Nat → Bool
  | _, [] => false
  | [], _ :: _ => true
  | a :: u, b :: v => decide (a < b) || (decide (a = b) && lexLt u v)

/-- `w` is a Lyndon word: non-empty and strictly smaller than each of its proper non-empty suffixes -/
def Lyndon (w : List Nat) : Prop :=
  w ≠ [] ∧ ∀ k, 0 < k → k < w.length → lexLt w (w.drop k) = true

/-- executable version of `Lyndon` -/
def isLyndon (w : List Nat) : Bool :=
  !w.isEmpty && (List.range w.length).all (fun k => k == 0 || lexLt w (w.drop k))

/-- push the Lyndon word `v` on a stack of Lyndon words (top first): while the word below is
    strictly smaller, concatenate (`u < v` Lyndon ⇒ `uv` Lyndon) -/
def pushMerge : List Nat → List (List Nat) → List (List Nat)
  | v, [] => [v]
  | v, u :: st => if lexLt u v then pushMerge (u ++ v) st else v :: u :: st

/-- the stack after reading `s` letter by letter (top = last factor) -/
def lyndonStack (s : List Nat) : List (List Nat) :=
  s.foldl (fun st c => pushMerge [c] st) []

/-- the Lyndon (Chen–Fox–Lyndon) factorisation of `s`: `[w1, …, wk]` -/
def lyndonFactors (s : List Nat) : List (List Nat) := (lyndonStack s).reverse

/-- the rotation of `w` starting at position `k` -/
def rot (w : List Nat) (k : Nat) : List Nat := w.drop k ++ w.take k

/-- all `|w|` rotations of `w` -/
def rotations (w : List Nat) : List (List Nat) := (List.range w.length).map (rot w)

/-- walk `u^ω` and `v^ω` in parallel (`x`, `y`: what is left of the current copy of `u`, `v`) for
    `fuel` letters; `true` iff the first difference has the smaller letter on the `u` side -/
def omegaLtGo (u v : List Nat) : Nat → List Nat → List Nat → Bool
  | 0, _, _ => false
  | fuel + 1, x, y =>
    match (if x.isEmpty then u else x), (if y.isEmpty then v else y) with
    | a :: x', b :: y' => if a < b then true else if b < a then false else omegaLtGo u v fuel x' y'
    | _, _ => false

/-- `u^ω < v^ω`.  Both infinite words have the period `|u|·|v|`, so that many letters decide. -/
def omegaLt (u v : List Nat) : Bool := omegaLtGo u v (u.length * v.length) u v

/-- `u^ω ≤ v^ω` -/
def omegaLe (u v : List Nat) : Bool := !omegaLt v u

/-- the words whose last letters are output: all rotations of all Lyndon factors, sorted by `≤ω` -/
def bwtsMatrix (s : List Nat) : List (List Nat) :=
  ((lyndonFactors s).flatMap rotations).mergeSort omegaLe

/-- the bijective BWT of `s` -/
def bwtsSpec (s : List Nat) : List Nat := (bwtsMatrix s).map (fun w => w.getLastD 0)

/-! ## arrays -/

/-- Go array read `a[i]` of an index known to be in range -/
def rd (a : Array Nat) (i : Nat) : Nat := a.getD i 0
/-- Go array write `a[i] = v` of an index known to be in range -/
def wr (a : Array Nat) (i v : Nat) : Array Nat := a.setIfInBounds i v
/-- checked slice write: `none` = index out of range -/
def wrC (a : Array Nat) (i v : Nat) : Option (Array Nat) :=
  if i < a.size then some (a.setIfInBounds i v) else none

/-! ## the suffix array (specification of `DivSufSort.ComputeSuffixArray`) -/

/-- the non-empty suffixes of `s`, longest first (they share their cells with `s`) -/
def suffixes : List Nat → List (List Nat)
  | [] => []
  | a :: l => (a :: l) :: suffixes l

/-- the start positions of the suffixes of `s` in increasing lexicographic order of the suffixes
    (all suffixes are distinct, so there are no ties) -/
def suffixArray (s : List Nat) : List Nat :=
  (((List.range s.length).zip (suffixes s)).mergeSort (fun a b => !lexLt b.2 a.2)).map (·.1)

/-! ## FORWARD -/

/-- Go `moveLyndonWordHead(sa, isa, data, count, start, size, rank)`: returns `(sa, isa, rank)` -/
def moveLyndonWordHead (sa isa data : Array Nat) (count start size rank : Nat) :
    Option (Array Nat × Array Nat × Nat) := do
  let mut sa := sa
  let mut isa := isa
  let mut rank := rank
  let end_ := start + size
  -- `for rank+1 < count { … rank++ }`: at most `count` iterations
  for _ in [0:count] do
    if ¬ (rank + 1 < count) then break
    let nextStart0 ← sa[rank + 1]?
    if nextStart0 ≤ end_ then break
    let mut nextStart := nextStart0
    let mut k := 0
    -- `for k < size && nextStart < count && data[start+k] == data[nextStart] { k++; nextStart++ }`
    for _ in [0:size] do
      if ¬ (k < size ∧ nextStart < count) then break
      let a ← data[start + k]?
      let b ← data[nextStart]?
      if a ≠ b then break
      k := k + 1
      nextStart := nextStart + 1
    -- `if k == size && rank < isa[nextStart] { break }`
    if k = size then
      let r ← isa[nextStart]?
      if rank < r then break
    -- `if k < size && nextStart < count && data[start+k] < data[nextStart] { break }`
    if k < size ∧ nextStart < count then
      let a ← data[start + k]?
      let b ← data[nextStart]?
      if a < b then break
    sa ← wrC sa rank nextStart0
    isa ← wrC isa nextStart0 rank
    rank := rank + 1
  sa ← wrC sa rank start
  isa ← wrC isa start rank
  return (sa, isa, rank)

/-- the body of `Forward` after `ComputeSuffixArray` (`count ≥ 2`): `sa0` is the suffix array, `dst`
    the destination; `none` = index out of range -/
def forwardSA (src sa0 dst0 : Array Nat) : Option (Array Nat) := do
  let count := src.size
  let mut sa := sa0
  let mut isa := Array.replicate count 0
  -- `for i := range isa { isa[sa[i]] = int32(i) }`
  for i in [0:count] do
    let p ← sa[i]?
    isa ← wrC isa p i
  let mut min ← isa[0]?
  let mut idxMin := 0
  -- `for i := int32(1); i < count32 && min > 0; i++`
  for i in [1:count] do
    if ¬ (min > 0) then break
    let ri ← isa[i]?
    if ri ≥ min then continue
    let r ← moveLyndonWordHead sa isa src count idxMin (i - idxMin) min
    sa := r.1
    isa := r.2.1
    let mut refRank := r.2.2
    -- `for j := i - 1; j > idxMin; j--`
    let mut j := i - 1
    for _ in [0:count] do
      if ¬ (j > idxMin) then break
      let mut testRank ← isa[j]?
      let startRank := testRank
      -- `for testRank < count32-1 { … testRank++ }`
      for _ in [0:count] do
        if ¬ (testRank < count - 1) then break
        let nextRankStart ← sa[testRank + 1]?
        -- `if j > nextRankStart || src[j] != src[nextRankStart] || refRank < isa[nextRankStart+1] { break }`
        if j > nextRankStart then break
        let a ← src[j]?
        let b ← src[nextRankStart]?
        if a ≠ b then break
        let q ← isa[nextRankStart + 1]?
        if refRank < q then break
        sa ← wrC sa testRank nextRankStart
        isa ← wrC isa nextRankStart testRank
        testRank := testRank + 1
      sa ← wrC sa testRank j
      isa ← wrC isa j testRank
      refRank := testRank
      if startRank = testRank then break
      j := j - 1
    min ← isa[i]?
    idxMin := i
  -- output loop
  let mut dst := dst0
  let mut mn := count
  for i in [0:count] do
    let ri ← isa[i]?
    if ri ≥ mn then
      if i = 0 then none          -- `src[i-1]` with `i = 0`
      let c ← src[i - 1]?
      dst ← wrC dst ri c
      continue
    if mn < count then
      if i = 0 then none
      let c ← src[i - 1]?
      dst ← wrC dst mn c
    mn := ri
  let c ← src[count - 1]?
  dst ← wrC dst 0 c
  return dst

/-- Go `BWTS.Forward(src, dst)` with `len(dst) = dstLen`, the destination holding `fill` everywhere
    before the call -/
def bwtsForwardFill (fill : Nat) (src : List Nat) (dstLen : Nat) : Res :=
  if src.length = 0 ∨ dstLen = 0 then .ok []
  else if dstLen < maxEncodedLen src.length then .err
  else if src.length > maxBlockSize then .err
  else if src.length < 2 then .ok src
  else
    match forwardSA src.toArray (suffixArray src).toArray (Array.replicate dstLen fill) with
    | none => .fault
    | some d => .ok (d.toList.take src.length)

def bwtsForward (src : List Nat) (dstLen : Nat) : Res := bwtsForwardFill 0 src dstLen

/-! ## INVERSE -/

/-- a zeroed `[256]int32` -/
def zeros : Array Nat := Array.replicate 256 0

/-- `for i := 0; i < count; i++ { buckets[src[i]]++ }` -/
def histo (src : List Nat) : Array Nat := src.foldl (fun b c => wr b c (rd b c + 1)) zeros

/-- `for i := range &buckets { sum += buckets[i]; buckets[i] = sum - buckets[i] }`: (buckets, sum) -/
def cumulStep (acc : Array Nat × Nat) (i : Nat) : Array Nat × Nat :=
  (wr acc.1 i (acc.2 + rd acc.1 i - rd acc.1 i), acc.2 + rd acc.1 i)

def cumul (b : Array Nat) : Array Nat := ((List.range 256).foldl cumulStep (b, 0)).1

/-- `for i := 0; i < count; i++ { lf[i] = buckets[src[i]]; buckets[src[i]]++ }`: (lf, buckets) -/
def lfStep (acc : Array Int × Array Nat) (c : Nat) : Array Int × Array Nat :=
  (acc.1.push (Int.ofNat (rd acc.2 c)), wr acc.2 c (rd acc.2 c + 1))

def lfOf (src : List Nat) : Array Int := (src.foldl lfStep (#[], cumul (histo src))).1

/-- state of the "build inverse" loops: `lf`, `dst`, and `rem = j + 1` (`j` goes down to -1) -/
structure InvSt where
  lf : Array Int
  dst : Array Nat
  rem : Nat

/-- the inner `for { dst[j] = src[p]; j--; t := lf[p]; lf[p] = -1; p = t; if lf[p] < 0 { break } }`;
    first argument: fuel (every turn marks an entry that was not marked: `count` turns at most) -/
def invCycle (src : Array Nat) : Nat → InvSt → Nat → Option InvSt
  | 0, _, _ => none
  | fuel + 1, st, p =>
    if st.rem = 0 then none                          -- `dst[-1]`
    else if st.rem - 1 ≥ st.dst.size then none
    else if p ≥ src.size then none
    else if p ≥ st.lf.size then none
    else
      let dst := st.dst.setIfInBounds (st.rem - 1) (src.getD p 0)
      let t := st.lf.getD p 0
      let lf := st.lf.setIfInBounds p (-1)
      if t < 0 then none                             -- `lf[p]` with a negative `p`
      else if t.toNat ≥ lf.size then none
      else if lf.getD t.toNat 0 < 0 then some ⟨lf, dst, st.rem - 1⟩
      else invCycle src fuel ⟨lf, dst, st.rem - 1⟩ t.toNat

/-- the outer `for i, j := 0, count-1; j >= 0; i++ { if lf[i] < 0 { continue }; … }`;
    first argument: fuel (`i` grows by one each turn and `lf[i]` faults at `len(lf)`) -/
def invLoop (src : Array Nat) : Nat → InvSt → Nat → Option InvSt
  | 0, _, _ => none
  | fuel + 1, st, i =>
    if st.rem = 0 then some st
    else if i ≥ st.lf.size then none
    else if st.lf.getD i 0 < 0 then invLoop src fuel st (i + 1)
    else
      match invCycle src (src.size + 1) st i with
      | none => none
      | some st' => invLoop src fuel st' (i + 1)

/-- Go `BWTS.Inverse(src, dst)` with `len(dst) = dstLen`, the destination holding `fill` before -/
def bwtsInverseFill (fill : Nat) (src : List Nat) (dstLen : Nat) : Res :=
  if src.length = 0 ∨ dstLen = 0 then .ok []
  else if src.length > maxBlockSize then .err
  else if src.length > dstLen then .err
  else if src.length < 2 then .ok src
  else
    match invLoop src.toArray (src.length + 2) ⟨lfOf src, Array.replicate dstLen fill, src.length⟩ 0 with
    | none => .fault
    | some st => .ok (st.dst.toList.take src.length)

def bwtsInverse (src : List Nat) (dstLen : Nat) : Res := bwtsInverseFill 0 src dstLen

end Kanzi.BWTS
