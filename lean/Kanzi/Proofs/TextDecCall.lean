/-
Slice `texttotal` (C03): `TextCodec.Inverse` on arbitrary input.  Part 3: the whole call on a fresh codec object,
agreement with `textInverseS`, the exact panic condition of codec 1.
-/
import Kanzi.Proofs.TextDecLoop

namespace Kanzi.Text
open Kanzi.RLT (Out Res)

/-- outcome classes of `textCodec{1,2}.Inverse` -/
def CallPost (tc2 old : Bool) (dstLen : Nat) (r : Res) : Prop :=
  match r with
  | .ok o => o.length ≤ dstLen
  | .err e => e = "index" ∨ e = "data" ∨ e = "srcidx"
  | .fault e => FaultOK tc2 old e

theorem reset_db (sw : Nat) (sd : Array Entry) (hs : StaticOK sw sd) (tc2 : Bool) (hsz : Nat) (hpos : 0 < hsz)
    (n dstLen : Nat) : DB n (dictSizeFor dstLen) (staticSize sw tc2) hsz (reset sw sd tc2 hsz dstLen) :=
  have h := reset_ok sw sd tc2 hsz dstLen hs hpos
  ⟨h.size_eq, h.size_le, rfl, rfl, h.map_size, ⟨_, h⟩,
    by show 128 ≤ dictSizeFor dstLen; have := dictSizeFor_ge dstLen; omega, Or.inl rfl⟩

theorem init_inv (sw : Nat) (sd : Array Entry) (hs : StaticOK sw sd) (tc2 : Bool) (hsz : Nat) (hpos : 0 < hsz)
    (a : Array Nat) (dstLen ws : Nat) (h1 : 1 ≤ a.size) (hws1 : 1 ≤ ws) (hws2 : ws ≤ 2) :
    TInv a dstLen (dictSizeFor dstLen) (staticSize sw tc2) hsz
      ⟨1, ws, (reset sw sd tc2 hsz dstLen).ssz, false, reset sw sd tc2 hsz dstLen, #[]⟩ := by
  have h := reset_ok sw sd tc2 hsz dstLen hs hpos
  have hge := dictSizeFor_ge dstLen
  refine ⟨h, h1, by show ws ≤ 1 + 1; omega, fun k k1 k2 => ?_, Nat.zero_le _, rfl, rfl, ?_, ?_, Or.inl rfl⟩
  · have : k < 1 := k2
    have : ws ≤ k := k1
    omega
  · show 128 ≤ dictSizeFor dstLen
    omega
  · show 4 * staticSize sw tc2 ≤ 4 * staticSize sw tc2 + ws
    omega

/-- `textCodec{1,2}.Inverse` on a freshly reset dictionary, ANY source, ANY destination size: the outcome is a
    success with at most `len(dst)` bytes, one of three error classes, or one of the listed panics (never
    exhausted fuel, never a nil `ptr`); the dictionary left behind is bounded -/
theorem invCall_spec (sw : Nat) (sd : Array Entry) (hs : StaticOK sw sd) (tc2 old : Bool) (hsz : Nat) (hpos : 0 < hsz)
    (src : List Nat) (dstLen : Nat) :
    CallPost tc2 old dstLen (invCall tc2 old (reset sw sd tc2 hsz dstLen) src dstLen).1 ∧
    DB src.length (dictSizeFor dstLen) (staticSize sw tc2) hsz (invCall tc2 old (reset sw sd tc2 hsz dstLen) src dstLen).2 := by
  have hdb0 := reset_db sw sd hs tc2 hsz hpos src.length dstLen
  unfold invCall
  simp only
  cases h0 : src.toArray[0]? with
  | none => exact ⟨Or.inl rfl, hdb0⟩
  | some m =>
    cases h1 : src.toArray[1]? with
    | none => exact ⟨Or.inl rfl, hdb0⟩
    | some c1 =>
      simp only
      have l1 := lt_of_getElem?_some _ _ _ h1
      have hinv := init_inv sw sd hs tc2 hsz hpos src.toArray dstLen (if isText c1 = true then 1 else 2)
        (by omega) (by split <;> omega) (by split <;> omega)
      have hT := invLoopT_spec tc2 old src.toArray dstLen (dictSizeFor dstLen) (staticSize sw tc2) hsz
        (m &&& MASK_CRLF ≠ 0) (src.toArray.size + 1) _ hinv (by show src.toArray.size < src.toArray.size + 1 + 1; omega)
      have hsize : src.toArray.size = src.length := List.size_toArray
      cases hl : invLoopT tc2 old src.toArray dstLen (decide (m &&& MASK_CRLF ≠ 0)) (src.toArray.size + 1)
          ⟨1, if isText c1 = true then 1 else 2, (reset sw sd tc2 hsz dstLen).ssz, false, reset sw sd tc2 hsz dstLen, #[]⟩ with
      | ok s =>
        rw [hl] at hT
        simp only
        refine ⟨?_, by have := hT.1.db; rw [hsize] at this; exact this⟩
        split
        · exact Or.inr (Or.inr rfl)
        · show s.out.toList.length ≤ dstLen
          rw [Array.length_toList]; exact hT.1.out_le
      | err e d =>
        rw [hl] at hT
        simp only
        refine ⟨?_, by have := hT.2; rw [hsize] at this; exact this⟩
        rcases hT.1 with e1 | e1
        · exact Or.inl e1
        · exact Or.inr (Or.inl e1)
      | fault e d =>
        rw [hl] at hT
        simp only
        exact ⟨hT.1, by have := hT.2; rw [hsize] at this; exact this⟩

/-- the result of the traced call is the result of the model of the `text` slice -/
theorem invCall_fst (sw : Nat) (sd : Array Entry) (tc2 old : Bool) (hsz : Nat) (src : List Nat) (dstLen : Nat) :
    (invCall tc2 old (reset sw sd tc2 hsz dstLen) src dstLen).1 = codecInverseS sw sd tc2 old hsz src dstLen := by
  unfold invCall codecInverseS codecInverseLoopS
  simp only
  cases h0 : src.toArray[0]? with
  | none => rfl
  | some m =>
    cases h1 : src.toArray[1]? with
    | none => rfl
    | some c1 =>
      simp only
      rw [← invLoopT_toOut]
      cases invLoopT tc2 old src.toArray dstLen (decide (m &&& MASK_CRLF ≠ 0)) (src.toArray.size + 1)
          ⟨1, if isText c1 = true then 1 else 2, (reset sw sd tc2 hsz dstLen).ssz, false, reset sw sd tc2 hsz dstLen, #[]⟩ with
      | ok s => rfl
      | err e d => rfl
      | fault e d => rfl

/-- `TextCodec.Inverse` on a fresh object: the traced call returns what `textInverseS` returns -/
theorem codecCallS_fst (sw : Nat) (sd : Array Entry) (tc2 old : Bool) (hsz : Nat) (src : List Nat) (dstLen : Nat) :
    (codecCallS sw sd tc2 old hsz none src dstLen).1 = textInverseS sw sd tc2 old hsz src dstLen := by
  unfold codecCallS textInverseS
  split
  · rfl
  · split
    · rfl
    · split
      · rfl
      · exact invCall_fst sw sd tc2 old hsz src dstLen

/-- outcome classes of `TextCodec.Inverse` -/
def WrapPost (tc2 old : Bool) (dstLen : Nat) (r : Res) : Prop :=
  match r with
  | .ok o => o.length ≤ dstLen
  | .err e => e = "small" ∨ e = "big" ∨ e = "index" ∨ e = "data" ∨ e = "srcidx"
  | .fault e => FaultOK tc2 old e

theorem textInverseS_total (sw : Nat) (sd : Array Entry) (hs : StaticOK sw sd) (tc2 old : Bool) (hsz : Nat)
    (hpos : 0 < hsz) (src : List Nat) (dstLen : Nat) :
    WrapPost tc2 old dstLen (textInverseS sw sd tc2 old hsz src dstLen) := by
  unfold textInverseS
  split
  · exact Nat.zero_le _
  · split
    · exact Or.inl rfl
    · split
      · exact Or.inr (Or.inl rfl)
      · have h := (invCall_spec sw sd hs tc2 old hsz hpos src dstLen).1
        rw [invCall_fst] at h
        cases hc : codecInverseS sw sd tc2 old hsz src dstLen with
        | ok o => rw [hc] at h; exact h
        | err e => rw [hc] at h; exact Or.inr (Or.inr h)
        | fault e => rw [hc] at h; exact h

/-- the object left behind by `TextCodec.Inverse` on a fresh object: untouched (wrapper rejection) or a bounded
    dictionary -/
theorem codecCallS_alloc (sw : Nat) (sd : Array Entry) (hs : StaticOK sw sd) (tc2 old : Bool) (hsz : Nat)
    (hpos : 0 < hsz) (src : List Nat) (dstLen : Nat) (d : Dict)
    (h : (codecCallS sw sd tc2 old hsz none src dstLen).2 = some d) :
    DB src.length (dictSizeFor dstLen) (staticSize sw tc2) hsz d := by
  unfold codecCallS at h
  split at h
  · cases h
  · split at h
    · cases h
    · split at h
      · cases h
      · simp only at h
        cases h
        exact (invCall_spec sw sd hs tc2 old hsz hpos src dstLen).2

/-! ## codec 1: the exact condition of the panic -/

/-- the index behind an escape byte at `src[i-1]` needs a byte that lies beyond the end of the source -/
def trunc1 (a : Array Nat) (i : Nat) : Bool :=
  match a[i]? with
  | none => true
  | some b0 =>
    decide (b0 ≥ 128) &&
      (match a[i + 1]? with
       | none => true
       | some b1 => decide (b1 ≥ 0x80) && (a[i + 2]?).isNone)

theorem readIdx1_fault_iff (a : Array Nat) (i dsize : Nat) (e : String) :
    readIdx1 a i dsize = .fault e ↔ (e = "src-index" ∧ trunc1 a i = true) := by
  unfold readIdx1 trunc1
  cases a[i]? with
  | none => simp; exact eq_comm
  | some b0 =>
    simp only
    by_cases c0 : b0 ≥ 128
    · rw [if_pos c0]
      cases a[i + 1]? with
      | none => simp [c0]; exact eq_comm
      | some b1 =>
        simp only
        by_cases c1 : b1 ≥ 0x80
        · rw [if_pos c1]
          cases a[i + 2]? with
          | none => simp [c0, c1]; exact eq_comm
          | some b2 =>
            simp only
            split <;> simp
        · rw [if_neg c1]
          split <;> simp [c1]
    · rw [if_neg c0]
      simp [c0]

/-- codec 1: the token part of an iteration panics EXACTLY when the byte is an escape byte (0x0F / 0x0E) and its
    index is cut off by the end of the source -/
theorem invTok1_fault_iff {a : Array Nat} {dstLen D0 z hz : Nat} {t : ISt} (h : TokPre a dstLen D0 z hz t) (crlf : Bool)
    (cur : Nat) (e : String) :
    invTok1 a dstLen crlf t cur = .fault e ↔
      ((cur = ESCAPE_TOKEN1 ∨ cur = ESCAPE_TOKEN2) ∧ e = "src-index" ∧ trunc1 a t.i = true) := by
  unfold invTok1
  by_cases c : cur = ESCAPE_TOKEN1 ∨ cur = ESCAPE_TOKEN2
  · rw [if_pos c]
    rcases readIdx1_cases a t.i t.d.size with e1 | e1 | ⟨idx, i2, e1, h1, h2, h3⟩
    · have := (readIdx1_fault_iff a t.i t.d.size "src-index").1 e1
      rw [e1]
      simp only
      constructor
      · intro he; cases he; exact ⟨c, rfl, this.2⟩
      · intro he; rw [he.2.1]
    · have hn : ¬ trunc1 a t.i = true := fun ht =>
        absurd ((readIdx1_fault_iff a t.i t.d.size "src-index").2 ⟨rfl, ht⟩) (by rw [e1]; exact fun x => by cases x)
      rw [e1]
      simp only
      constructor
      · intro he; cases he
      · intro he; exact absurd he.2.2 hn
    · have hn : ¬ trunc1 a t.i = true := fun ht =>
        absurd ((readIdx1_fault_iff a t.i t.d.size "src-index").2 ⟨rfl, ht⟩) (by rw [e1]; exact fun x => by cases x)
      rw [e1]
      simp only
      constructor
      · intro he
        rcases emitWord_spec h i2 idx (if cur = ESCAPE_TOKEN2 then 0x20 else 0) (by omega) h2 h3 with e2 | ⟨t', e2, _, _⟩
        · rw [e2] at he; cases he
        · rw [e2] at he; cases he
      · intro he; exact absurd he.2.2 hn
  · rw [if_neg c]
    constructor
    · intro he
      rcases invLit_spec h crlf cur with e2 | ⟨t', e2, _, _⟩
      · rw [e2] at he; cases he
      · rw [e2] at he; cases he
    · intro he; exact absurd he.1 c

end Kanzi.Text

namespace Kanzi.Text
open Kanzi.RLT (Out Res)

theorem FaultOK.ne_fuel {tc2 old : Bool} {e : String} (h : FaultOK tc2 old e) : e ≠ "fuel" ∧ e ≠ "nil-ptr" := by
  rcases h with h | ⟨_, _, h⟩ <;> rw [h] <;> decide

/-- the loop of Inverse started by the Go function (`srcIdx = 1`) with ANY fuel `f >= len(src)` does not run out
    of fuel: at most `len(src) - 1` iterations, each advancing `srcIdx` by at least 1, then the exit test -/
theorem invLoop_fuel (sw : Nat) (sd : Array Entry) (hs : StaticOK sw sd) (tc2 old : Bool) (hsz : Nat) (hpos : 0 < hsz)
    (src : List Nat) (dstLen c1 : Nat) (crlf : Bool) (h1 : src.toArray[1]? = some c1) (f : Nat) (hf : src.length ≤ f)
    (e : String)
    (h : invLoop tc2 old src.toArray dstLen crlf f
      ⟨1, if isText c1 = true then 1 else 2, (reset sw sd tc2 hsz dstLen).ssz, false, reset sw sd tc2 hsz dstLen, #[]⟩ =
        .fault e) : FaultOK tc2 old e := by
  have l1 := lt_of_getElem?_some _ _ _ h1
  have hsize : src.toArray.size = src.length := List.size_toArray
  have hinv := init_inv sw sd hs tc2 hsz hpos src.toArray dstLen (if isText c1 = true then 1 else 2)
    (by omega) (by split <;> omega) (by split <;> omega)
  have hT := invLoopT_spec tc2 old src.toArray dstLen (dictSizeFor dstLen) (staticSize sw tc2) hsz crlf f _ hinv
    (by show src.toArray.size < f + 1; omega)
  rw [← invLoopT_toOut] at h
  cases hl : invLoopT tc2 old src.toArray dstLen crlf f
      ⟨1, if isText c1 = true then 1 else 2, (reset sw sd tc2 hsz dstLen).ssz, false, reset sw sd tc2 hsz dstLen, #[]⟩ with
  | ok s => rw [hl] at h; cases h
  | err e' d => rw [hl] at h; cases h
  | fault e' d =>
    rw [hl] at h hT
    cases h
    exact hT.1

end Kanzi.Text

namespace Kanzi.Text
open Kanzi.RLT (Out Res)

/-! ## codec 2 (current format): the exact condition of the two panics of the index reader -/

/-- a byte of the multi-byte index lies beyond the end of the source -/
def cut2Core (a : Array Nat) (c i : Nat) : Bool :=
  if c &&& 0x7F ≥ 112 then (a[i]?).isNone || (a[i + 1]?).isNone
  else if c &&& 0x7F ≥ 64 then (a[i]?).isNone
  else false

/-- the multi-byte index is complete and its value is 0 -/
def zero2Core (a : Array Nat) (c i : Nat) : Bool :=
  if c &&& 0x7F ≥ 112 then
    match a[i]?, a[i + 1]? with
    | some b1, some b2 => ((((c &&& 0x7F) &&& 0x0F) <<< 16) ||| (b1 <<< 8) ||| b2) == 0
    | _, _ => false
  else if c &&& 0x7F ≥ 64 then
    match a[i]? with
    | some b1 => ((((c &&& 0x7F) &&& 0x1F) <<< 8) ||| b1) == 0
    | none => false
  else false

theorem idxTail_fault_iff (v dsize i2 flip : Nat) (e : String) :
    ((if v > dsize then (.err "index" : Out (Nat × Nat × Nat))
      else if v = 0 then .fault "dict-index" else .ok (v - 1, i2, flip)) = .fault e) ↔
      (e = "dict-index" ∧ v = 0) := by
  by_cases c1 : v > dsize
  · rw [if_pos c1]
    constructor
    · intro h; cases h
    · intro h; omega
  · rw [if_neg c1]
    by_cases c2 : v = 0
    · rw [if_pos c2]
      constructor
      · intro h; cases h; exact ⟨rfl, c2⟩
      · intro h; rw [h.1]
    · rw [if_neg c2]
      constructor
      · intro h; cases h
      · intro h; exact absurd h.2 c2

theorem readIdx2Core_fault_iff (a : Array Nat) (c i flip dsize : Nat) (e : String) :
    readIdx2Core a c i flip dsize = .fault e ↔
      ((e = "src-index" ∧ cut2Core a c i = true) ∨ (e = "dict-index" ∧ zero2Core a c i = true)) := by
  unfold readIdx2Core readIdx2Multi cut2Core zero2Core
  by_cases c0 : c &&& 0x7F ≥ 64
  · rw [if_pos c0]
    by_cases c1 : c &&& 0x7F ≥ 112
    · simp only [if_pos c1]
      cases a[i]? with
      | none => simp; exact eq_comm
      | some b1 =>
        cases a[i + 1]? with
        | none => simp; exact eq_comm
        | some b2 =>
          simp only
          rw [idxTail_fault_iff]
          simp
    · simp only [if_neg c1, if_pos c0]
      cases a[i]? with
      | none => simp; exact eq_comm
      | some b1 =>
        simp only
        rw [idxTail_fault_iff]
        simp
  · have c1 : ¬ c &&& 0x7F ≥ 112 := by omega
    simp only [if_neg c0, if_neg c1]
    split <;> simp

end Kanzi.Text
