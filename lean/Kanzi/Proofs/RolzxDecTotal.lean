/-
ROLZX (`rolzCodec2.Inverse`, model `rolzxInverse` of Model/ROLZX.lean) on ARBITRARY input: the fuel of the
chunk loop and of the main loop is never exhausted, and the only run-time faults are three classes of index
errors.  Slice `rolztotal`, property C03.
-/
import Kanzi.Model.ROLZX
import Kanzi.Model.RolzDec

namespace Kanzi.ROLZ

/-- the outcome is a run-time fault of class `k` -/
def Out.faultIs {α : Type} (o : Out α) (k : String) : Bool :=
  match o with
  | .fault k' => k' == k
  | _ => false

/-- the fault classes of the loops of ROLZX Inverse: the refill of the range decoder reads past `src`
    ("src-slice"), a store / key read / overlapping copy leaves the chunk or `dst` ("dst-index") -/
def IFaults : List String := ["src-slice", "dst-index"]

/-- the fault classes of ROLZX Inverse: those of the loops and `newRolzDecoder` reading 8 bytes past a short `src` -/
def XFaults : List String := "src-index" :: IFaults

theorem decodeBit_cases (src : Array Nat) (d : Dec) (p : Nat) :
    (∃ b d', d.decodeBit src p = .ok (b, d') ∧ d.idx ≤ d'.idx ∧ d'.idx ≤ max d.idx src.size) ∨
      d.decodeBit src p = .fault "src-slice" := by
  unfold Dec.decodeBit
  dsimp only
  by_cases h2 : d.idx + 4 ≤ src.size
  · left
    simp only [h2, if_true]
    split <;> split <;> exact ⟨_, _, rfl, by simp only; omega, by simp only; omega⟩
  · simp only [h2, if_false]
    split <;> split
    · right; rfl
    · left; exact ⟨_, _, rfl, by simp only; omega, by simp only; omega⟩
    · right; rfl
    · left; exact ⟨_, _, rfl, by simp only; omega, by simp only; omega⟩

theorem decodeBit_fault {src : Array Nat} {d : Dec} {p : Nat} {k : String}
    (h : d.decodeBit src p = .fault k) : k = "src-slice" := by
  rcases decodeBit_cases src d p with ⟨b, d', h1, _⟩ | h1
  · rw [h1] at h; cases h
  · rw [h1] at h; injection h with h; exact h.symm

theorem decodeBit_idx {src : Array Nat} {d : Dec} {p : Nat} {r : Bool × Dec}
    (h : d.decodeBit src p = .ok r) : d.idx ≤ r.2.idx ∧ r.2.idx ≤ max d.idx src.size := by
  rcases decodeBit_cases src d p with ⟨b, d', h1, h2⟩ | h1
  · rw [h1] at h; injection h with h; subst h; exact h2
  · rw [h1] at h; cases h

/-- after one pass of the refill (`low <<= 32`, `high = high<<32 | 0xFFFFFFFF`, both masked to 56 bits) bit 24 of
    `low` is 0 and bit 24 of `high` is 1: the condition `(low ^ high) >> 24 == 0` of the Go `for` is false -/
theorem refill_once (low1 high1 : Nat) :
    ((((low1 <<< 32) % 2 ^ 64) % 2 ^ 56) ^^^ ((((high1 <<< 32) % 2 ^ 64) ||| MASK_0_32) % 2 ^ 56)) >>> 24 ≠ 0 := by
  have hm : MASK_0_32.testBit 24 = true := by decide
  have h1 : (((low1 <<< 32) % 2 ^ 64) % 2 ^ 56).testBit 24 = false := by
    rw [Nat.testBit_mod_two_pow, Nat.testBit_mod_two_pow, Nat.testBit_shiftLeft]; simp
  have h2 : ((((high1 <<< 32) % 2 ^ 64) ||| MASK_0_32) % 2 ^ 56).testBit 24 = true := by
    rw [Nat.testBit_mod_two_pow, Nat.testBit_or, hm]; simp
  have hb : ((((low1 <<< 32) % 2 ^ 64) % 2 ^ 56) ^^^ ((((high1 <<< 32) % 2 ^ 64) ||| MASK_0_32) % 2 ^ 56)).testBit 24 = true := by
    rw [Nat.testBit_xor, h1, h2]; rfl
  have hge := Nat.ge_two_pow_of_testBit hb
  rw [Nat.shiftRight_eq_div_pow]
  intro h0
  have := Nat.div_eq_zero_iff.mp h0
  omega

theorem decBits_fault {src : Array Nat} {ctx : Nat} : ∀ (n c1 : Nat) (d : Dec) (t : Array Nat) (k : String),
    decBits src ctx n c1 d t = .fault k → k = "src-slice" := by
  intro n
  induction n with
  | zero => intro c1 d t k h; simp [decBits] at h
  | succ n ih =>
    intro c1 d t k h
    rw [decBits] at h
    split at h
    · exact ih _ _ _ _ h
    · cases h
    · rename_i k' hk
      injection h with h; subst h
      exact decodeBit_fault hk

theorem decBits_size {src : Array Nat} {ctx : Nat} : ∀ (n c1 : Nat) (d : Dec) (t : Array Nat) (r : Nat × Dec × Array Nat),
    decBits src ctx n c1 d t = .ok r → r.2.2.size = t.size ∧ d.idx ≤ r.2.1.idx ∧ r.2.1.idx ≤ max d.idx src.size := by
  intro n
  induction n with
  | zero => intro c1 d t r h; simp [decBits] at h; subst h; exact ⟨rfl, Nat.le_refl _, Nat.le_max_left _ _⟩
  | succ n ih =>
    intro c1 d t r h
    rw [decBits] at h
    split at h
    · rename_i r' hr'
      have := ih _ _ _ _ h
      have h2 := decodeBit_idx hr'
      rw [Array.size_setIfInBounds] at this
      omega
    · cases h
    · cases h

theorem decLit9_fault {src : Array Nat} {c : Nat} {s : ISt} {k : String} (h : decLit9 src c s = .fault k) :
    k = "src-slice" := by
  unfold decLit9 at h
  dsimp only at h
  split at h
  · cases h
  · cases h
  · rename_i k' hk
    injection h with h; subst h
    exact decBits_fault _ _ _ _ _ hk

/-- the arrays a state of Inverse owns keep their sizes; the read position only grows, within `src` -/
structure SameSize (s s' : ISt) (srcSize : Nat) : Prop where
  pl : s'.pl.size = s.pl.size
  pm : s'.pm.size = s.pm.size
  mts : s'.tab.mts.size = s.tab.mts.size
  cnt : s'.tab.counters.size = s.tab.counters.size
  dst : s'.dst.size = s.dst.size
  idx : s.dec.idx ≤ s'.dec.idx ∧ s'.dec.idx ≤ max s.dec.idx srcSize

theorem SameSize.refl (s : ISt) (n : Nat) : SameSize s s n := ⟨rfl, rfl, rfl, rfl, rfl, by omega⟩

theorem SameSize.trans {s1 s2 s3 : ISt} {n : Nat} (a : SameSize s1 s2 n) (b : SameSize s2 s3 n) : SameSize s1 s3 n :=
  ⟨b.pl.trans a.pl, b.pm.trans a.pm, b.mts.trans a.mts, b.cnt.trans a.cnt, b.dst.trans a.dst,
    by have := a.idx; have := b.idx; omega⟩

theorem decLit9_size {src : Array Nat} {c : Nat} {s : ISt} {r : Nat × ISt} (h : decLit9 src c s = .ok r) :
    SameSize s r.2 src.size := by
  unfold decLit9 at h
  dsimp only at h
  split at h
  · rename_i r' hr'
    injection h with h; subst h
    have := decBits_size _ _ _ _ _ hr'
    exact ⟨this.1, rfl, rfl, rfl, rfl, this.2⟩
  · cases h
  · cases h

theorem copyLoop_size' (n : Nat) : ∀ (dst : Array Nat) (d r : Nat), (copyLoop dst n d r).size = dst.size := by
  induction n with
  | zero => intro dst d r; rfl
  | succ n ih => intro dst d r; simp only [copyLoop]; rw [ih, Array.size_setIfInBounds]

theorem emitCopy_fault {dst : Array Nat} {lim d r n : Nat} {k : String} (h : emitCopy dst lim d r n = .fault k) :
    k = "dst-index" := by
  unfold emitCopy at h
  split at h
  · cases h
  · split at h
    · cases h
    · injection h with h; exact h.symm

theorem emitCopy_ok {dst : Array Nat} {lim d r n : Nat} {q : Array Nat × Nat} (h : emitCopy dst lim d r n = .ok q) :
    q.2 = d + n ∧ q.1.size = dst.size := by
  unfold emitCopy at h
  split at h
  · injection h with h; subst h; exact ⟨rfl, copyLoop_size' _ _ _ _⟩
  · split at h
    · injection h with h; subst h; exact ⟨rfl, copyLoop_size' _ _ _ _⟩
    · cases h

/-! ## first literals -/

theorem invFirst_fault {src : Array Nat} {lim : Nat} : ∀ (k i : Nat) (s : ISt) (e : String),
    invFirst src lim k i s = .fault e → e ∈ IFaults := by
  intro k
  induction k with
  | zero => intro i s e h; simp [invFirst] at h
  | succ k ih =>
    intro i s e h
    rw [invFirst] at h
    split at h
    · dsimp only at h
      split at h
      · cases h
      · split at h
        · exact ih _ _ _ h
        · injection h with h; subst h; decide
    · cases h
    · rename_i e' he
      injection h with h; subst h
      rw [decLit9_fault he]; decide

theorem invFirst_size {src : Array Nat} {lim : Nat} : ∀ (k i : Nat) (s s' : ISt),
    invFirst src lim k i s = .ok s' → SameSize s s' src.size := by
  intro k
  induction k with
  | zero => intro i s s' h; simp [invFirst] at h; subst h; exact SameSize.refl _ _
  | succ k ih =>
    intro i s s' h
    rw [invFirst] at h
    split at h
    · rename_i val s1 hs1
      have z := decLit9_size hs1
      dsimp only at h
      split at h
      · cases h
      · split at h
        · have z2 := ih _ _ _ h
          have z' : SameSize s s1 src.size := z
          have m : SameSize s1 ⟨s1.tab, s1.dec, s1.pl, s1.pm, s1.dst.setIfInBounds i (val % 256)⟩ src.size :=
            ⟨rfl, rfl, rfl, rfl, by simp only [Array.size_setIfInBounds], by dsimp only; omega⟩
          exact z'.trans (m.trans z2)
        · cases h
    · cases h
    · cases h

/-! ## one step of the main loop: progress -/

theorem register_size (t : Tab) (lpc key v : Nat) :
    (t.register lpc key v).mts.size = t.mts.size ∧ (t.register lpc key v).counters.size = t.counters.size := by
  simp only [Tab.register, Array.size_setIfInBounds, and_self]

theorem invStep_fault {src : Array Nat} {dstEnd base lim mm delta lpc i : Nat} {s : ISt} {e : String}
    (h : invStep src dstEnd base lim mm delta lpc i s = .fault e) : e ∈ IFaults := by
  unfold invStep at h
  split at h
  · split at h
    · dsimp only at h
      split at h
      · cases h
      · split at h
        · cases h
        · split at h
          · split at h
            · cases h
            · cases h
            · rename_i e' he
              injection h with h; subst h
              rw [emitCopy_fault he]; decide
          · cases h
          · rename_i e' he
            injection h with h; subst h
            rw [decBits_fault _ _ _ _ _ he]; decide
    · cases h
    · rename_i e' he
      injection h with h; subst h
      rw [decLit9_fault he]; decide
  · injection h with h; subst h; decide

theorem invStep_ok {src : Array Nat} {dstEnd base lim mm delta lpc i : Nat} {s : ISt} {r : Nat × ISt} (hmm : 0 < mm)
    (h : invStep src dstEnd base lim mm delta lpc i s = .ok r) : i < r.1 ∧ SameSize s r.2 src.size := by
  unfold invStep at h
  split at h
  · split at h
    · rename_i val s1 hs1
      have z := decLit9_size hs1
      dsimp only at h
      split at h
      · injection h with h; subst h
        refine ⟨Nat.lt_succ_self _, SameSize.trans z ⟨rfl, rfl, ?_, ?_, ?_, by dsimp only; omega⟩⟩
        · exact (register_size _ _ _ _).1
        · exact (register_size _ _ _ _).2
        · simp only [Array.size_setIfInBounds]
      · split at h
        · cases h
        · split at h
          · rename_i r' hr'
            have zb := decBits_size _ _ _ _ _ hr'
            split at h
            · rename_i dst' i' he
              have ze := emitCopy_ok he
              injection h with h; subst h
              dsimp only at ze ⊢
              refine ⟨by omega, SameSize.trans z ⟨rfl, zb.1, ?_, ?_, ze.2, zb.2⟩⟩
              · exact (register_size _ _ _ _).1
              · exact (register_size _ _ _ _).2
            · cases h
            · cases h
          · cases h
          · cases h
    · cases h
    · cases h
  · cases h

/-! ## the main loop of a chunk -/

theorem invLoop_fault {src : Array Nat} {dstEnd base lim mm delta lpc : Nat} (hmm : 0 < mm) : ∀ (f i : Nat) (s : ISt)
    (e : String), lim + 1 ≤ f + i → 1 ≤ f → invLoop src dstEnd base lim mm delta lpc f i s = .fault e → e ∈ IFaults := by
  intro f
  induction f with
  | zero => intro i s e _ hf; omega
  | succ f ih =>
    intro i s e hf _ h
    rw [invLoop] at h
    split at h
    · split at h
      · rename_i r hr
        have := (invStep_ok hmm hr).1
        exact ih _ _ _ (by omega) (by omega) h
      · cases h
      · rename_i e' he
        injection h with h; subst h
        exact invStep_fault he
    · cases h

theorem invLoop_size {src : Array Nat} {dstEnd base lim mm delta lpc : Nat} (hmm : 0 < mm) : ∀ (f i : Nat) (s : ISt)
    (r : Nat × ISt), invLoop src dstEnd base lim mm delta lpc f i s = .ok r → SameSize s r.2 src.size := by
  intro f
  induction f with
  | zero => intro i s r h; simp [invLoop] at h
  | succ f ih =>
    intro i s r h
    rw [invLoop] at h
    split at h
    · split at h
      · rename_i r' hr
        exact (invStep_ok hmm hr).2.trans (ih _ _ _ h)
      · cases h
      · cases h
    · injection h with h; subst h; exact SameSize.refl _ _

/-! ## the chunk loop -/

theorem invChunks_fault {src : Array Nat} {dstEnd chunksEnd mm delta lpc fl : Nat} (hmm : 0 < mm) :
    ∀ (f startChunk sizeChunk dstIdx : Nat) (s : ISt) (e : String) (q : Nat), 0 < sizeChunk → q + 1 ≤ f →
      chunksEnd ≤ startChunk + q * sizeChunk →
      invChunks src dstEnd chunksEnd mm delta lpc fl f startChunk sizeChunk dstIdx s = .fault e → e ∈ IFaults := by
  intro f
  induction f with
  | zero => intro _ _ _ _ _ q _ hq; omega
  | succ f ih =>
    intro startChunk sizeChunk dstIdx s e q hsz hq hce h
    rw [invChunks] at h
    split at h
    · rename_i hlt
      dsimp only at h
      split at h
      · split at h
        · rename_i r hr
          -- progress of the chunk loop
          cases q with
          | zero => omega
          | succ q' =>
            rw [Nat.succ_mul] at hce
            split at h
            · rename_i hclip
              exact ih _ _ _ _ _ q' (by omega) (by omega) (by
                have : chunksEnd - startChunk > 0 := by omega
                calc chunksEnd ≤ chunksEnd + q' * (chunksEnd - startChunk) := Nat.le_add_right _ _) h
            · rename_i hclip
              have e1 : startChunk + sizeChunk - startChunk = sizeChunk := by omega
              rw [e1] at h
              exact ih _ _ _ _ _ q' hsz (by omega) (by omega) h
        · cases h
        · rename_i e' he
          injection h with h; subst h
          exact invLoop_fault hmm _ _ _ _ (by split <;> omega) (by omega) he
      · cases h
      · rename_i e' he
        injection h with h; subst h
        exact invFirst_fault _ _ _ _ he
    · cases h

/-! ## sizes of the arrays owned by the decoder -/

structure Sized (lpc n : Nat) (s : ISt) : Prop where
  pl : s.pl.size = (probs0 9).size
  pm : s.pm.size = (probs0 lpc).size
  mts : s.tab.mts.size = (matches0 lpc).size
  cnt : s.tab.counters.size = HASH_SIZE
  dst : s.dst.size = n

theorem Sized.of_same {lpc n m : Nat} {s s' : ISt} (a : Sized lpc n s) (b : SameSize s s' m) : Sized lpc n s' :=
  ⟨b.pl.trans a.pl, b.pm.trans a.pm, b.mts.trans a.mts, b.cnt.trans a.cnt, b.dst.trans a.dst⟩

theorem invChunks_sized {src : Array Nat} {dstEnd chunksEnd mm delta lpc fl n : Nat} (hmm : 0 < mm) :
    ∀ (f startChunk sizeChunk dstIdx : Nat) (s : ISt) (r : Nat × Nat × Nat × ISt), Sized lpc n s →
      invChunks src dstEnd chunksEnd mm delta lpc fl f startChunk sizeChunk dstIdx s = .ok r → Sized lpc n r.2.2.2 := by
  intro f
  induction f with
  | zero => intro _ _ _ _ _ _ h; simp [invChunks] at h
  | succ f ih =>
    intro startChunk sizeChunk dstIdx s r hs h
    rw [invChunks] at h
    split at h
    · dsimp only at h
      split at h
      · rename_i s1 hs1
        split at h
        · rename_i r' hr'
          have z0 : Sized lpc n ⟨⟨matches0 lpc, s.tab.counters⟩, s.dec, probs0 9, probs0 lpc, s.dst⟩ :=
            ⟨rfl, rfl, rfl, hs.cnt, hs.dst⟩
          have z1 := z0.of_same (invFirst_size _ _ _ _ hs1)
          have z2 := z1.of_same (invLoop_size hmm _ _ _ _ hr')
          exact ih _ _ _ _ _ z2 h
        · cases h
        · cases h
      · cases h
      · cases h
    · injection h with h; subst h; exact hs

/-! ## last literals -/

theorem invLast_fault {src : Array Nat} : ∀ (k i : Nat) (s : ISt) (e : String),
    invLast src k i s = .fault e → e ∈ IFaults := by
  intro k
  induction k with
  | zero => intro i s e h; simp [invLast] at h
  | succ k ih =>
    intro i s e h
    rw [invLast] at h
    split at h
    · injection h with h; subst h; decide
    · split at h
      · injection h with h; subst h; decide
      · split at h
        · dsimp only at h
          split at h
          · cases h
          · split at h
            · exact ih _ _ _ h
            · injection h with h; subst h; decide
        · cases h
        · rename_i e' he
          injection h with h; subst h
          rw [decLit9_fault he]; decide

theorem invLast_ok {src : Array Nat} {lpc n : Nat} : ∀ (k i : Nat) (s : ISt) (r : Nat × ISt), Sized lpc n s →
    invLast src k i s = .ok r → Sized lpc n r.2 ∧ (0 < k → r.1 ≤ n) ∧ r.1 = i + k := by
  intro k
  induction k with
  | zero => intro i s r hs h; simp [invLast] at h; subst h; exact ⟨hs, fun h => absurd h (Nat.lt_irrefl _), rfl⟩
  | succ k ih =>
    intro i s r hs h
    rw [invLast] at h
    split at h
    · cases h
    · split at h
      · cases h
      · split at h
        · rename_i val s1 hs1
          have z1 := hs.of_same (decLit9_size hs1)
          dsimp only at h
          split at h
          · cases h
          · split at h
            · rename_i hlt
              have m : Sized lpc n ⟨s1.tab, s1.dec, s1.pl, s1.pm, s1.dst.setIfInBounds i (val % 256)⟩ :=
                ⟨z1.pl, z1.pm, z1.mts, z1.cnt, by simp only [Array.size_setIfInBounds]; exact z1.dst⟩
              obtain ⟨a, b, c⟩ := ih _ _ _ m h
              have hd : s1.dst.size = n := z1.dst
              exact ⟨a, fun _ => by omega, by omega⟩
            · cases h
        · cases h
        · cases h

/-! ## the whole call -/

theorem invParams2_mm (bsv flags : Nat) : 0 < (invParams2 bsv flags).1 := by
  unfold invParams2
  repeat' split
  all_goals decide

theorem invParams2_idx (bsv flags : Nat) : (invParams2 bsv flags).2.2.1 = if bsv ≥ 3 then 5 else 4 := by
  unfold invParams2
  repeat' split
  all_goals first | rfl | omega

theorem div_fuel (a b : Nat) (hb : 0 < b) : a ≤ 0 + (a / b + 1) * b := by
  have := Nat.lt_mul_div_succ a hb
  rw [Nat.mul_comm] at this
  omega

theorem rolzxInverse_fault {cs lpc bsv : Nat} {src : List Nat} {dst0 : Array Nat} (hcs : 0 < cs) {e : String}
    (h : rolzxInverse cs lpc bsv src dst0 = .fault e) : e ∈ XFaults := by
  unfold rolzxInverse at h
  split at h
  · cases h
  · rename_i hne
    split at h
    · cases h
    · split at h
      · cases h
      · dsimp only at h
        split at h
        · cases h
        · split at h
          · split at h
            · cases h
            · split at h
              · split at h
                · injection h with h; subst h; decide
                · split at h
                  · split at h <;> cases h
                  · cases h
                  · rename_i e' he
                    injection h with h; subst h
                    exact List.mem_cons_of_mem _ (invLast_fault _ _ _ _ he)
              · cases h
              · rename_i e' he
                injection h with h; subst h
                have hd : 0 < dst0.size := by
                  rcases Nat.eq_zero_or_pos dst0.size with h0 | h0
                  · exact absurd (Or.inr h0) hne
                  · exact h0
                have hsz : 0 < min dst0.size cs := by omega
                exact List.mem_cons_of_mem _ (invChunks_fault (invParams2_mm _ _) _ _ _ _ _ _ (beN src.toArray 0 4 / min dst0.size cs + 1)
                  hsz (by omega) (Nat.le_trans (Nat.sub_le _ _) (div_fuel _ _ hsz)) he)
          · cases h
          · rename_i e' he
            injection h with h; subst h
            unfold Dec.init at he
            split at he
            · cases he
            · injection he with he; subst he; decide

theorem rolzxInverse_ok {cs lpc bsv : Nat} {src : List Nat} {dst0 : Array Nat} {w : Nat} {dst : Array Nat}
    (h : rolzxInverse cs lpc bsv src dst0 = .ok (w, dst)) : dst.size = dst0.size ∧ (4 ≤ bsv → w ≤ dst0.size) := by
  unfold rolzxInverse at h
  split at h
  · injection h with h; injection h with h1 h2; subst h1; subst h2; exact ⟨rfl, fun _ => Nat.zero_le _⟩
  · split at h
    · cases h
    · split at h
      · cases h
      · dsimp only at h
        split at h
        · cases h
        · split at h
          · rename_i d hd
            split at h
            · cases h
            · split at h
              · rename_i dstIdx startChunk sizeChunk s hs
                have z0 : Sized lpc dst0.size ⟨⟨matches0 lpc, Array.replicate HASH_SIZE 0⟩, d, probs0 9, probs0 lpc, dst0⟩ :=
                  ⟨rfl, rfl, rfl, by simp, rfl⟩
                have z1 := invChunks_sized (invParams2_mm _ _) _ _ _ _ _ _ z0 hs
                split at h
                · cases h
                · split at h
                  · rename_i w' s' hl
                    obtain ⟨a, b, _⟩ := invLast_ok _ _ _ _ z1 hl
                    split at h
                    · cases h
                    · injection h with h; injection h with h1 h2; subst h1; subst h2
                      refine ⟨a.dst, fun hb => ?_⟩
                      apply b
                      rw [if_pos hb]; decide
                  · cases h
                  · cases h
              · cases h
              · cases h
          · cases h
          · cases h

/-- `newRolzDecoder` reads `src[srcIdx .. srcIdx+8)` unchecked: the exact condition of its fault -/
theorem rolzxInverse_srcindex {cs lpc bsv : Nat} {src : List Nat} {dst0 : Array Nat} (hcs : 0 < cs) :
    rolzxInverse cs lpc bsv src dst0 = .fault "src-index" ↔
      (rolzxReaches src.length dst0.size (beN src.toArray 0 4) = true ∧ src.length < (if bsv ≥ 3 then 5 else 4) + 8) := by
  have key : ∀ e, e ∈ IFaults → e ≠ "src-index" := by decide
  unfold rolzxInverse rolzxReaches wrapperPasses
  rw [← invParams2_idx bsv (src.toArray.getD 4 0)]
  by_cases h1 : src.length = 0 ∨ dst0.size = 0
  · rw [if_pos h1]
    constructor
    · intro h; cases h
    · intro h; rcases h1 with h1 | h1 <;> simp [h1] at h
  rw [if_neg h1]
  by_cases h2 : src.length < 5
  · rw [if_pos h2]
    constructor
    · intro h; cases h
    · intro h; simp [h2] at h
  rw [if_neg h2]
  by_cases h3 : src.length > MAX_BLOCK_SIZE
  · rw [if_pos h3]
    constructor
    · intro h; cases h
    · intro h; simp [h3] at h
  rw [if_neg h3]
  dsimp only
  by_cases h4 : beN src.toArray 0 4 = 0 ∨ beN src.toArray 0 4 > dst0.size
  · rw [if_pos h4]
    constructor
    · intro h; cases h
    · intro h; rcases h4 with h4 | h4 <;> simp [h4] at h
  rw [if_neg h4]
  have hpass : ((!(decide (src.length = 0) || decide (dst0.size = 0)) && !decide (src.length < 5) &&
      !decide (src.length > MAX_BLOCK_SIZE) &&
        !(decide (beN src.toArray 0 4 = 0) || decide (beN src.toArray 0 4 > dst0.size))) = true) := by
    simp only [Bool.and_eq_true, Bool.not_eq_true', Bool.or_eq_false_iff, decide_eq_false_iff_not]
    omega
  rw [hpass]
  unfold Dec.init
  simp only [List.size_toArray, true_and]
  by_cases h5 : (invParams2 bsv (src.toArray.getD 4 0)).2.2.1 + 8 ≤ src.length
  · rw [if_pos h5]
    constructor
    · intro h
      exfalso
      dsimp only at h
      split at h
      · cases h
      · split at h
        · split at h
          · injection h with h; exact absurd h (by decide)
          · split at h
            · split at h <;> cases h
            · cases h
            · rename_i e' he
              injection h with h; subst h
              exact key _ (invLast_fault _ _ _ _ he) rfl
        · cases h
        · rename_i e' he
          injection h with h; subst h
          have hd : 0 < dst0.size := by omega
          have hsz : 0 < min dst0.size cs := by omega
          exact key _ (invChunks_fault (invParams2_mm _ _) _ _ _ _ _ _ (beN src.toArray 0 4 / min dst0.size cs + 1)
            hsz (by omega) (Nat.le_trans (Nat.sub_le _ _) (div_fuel _ _ hsz)) he) rfl
    · intro h; omega
  · rw [if_neg h5]
    constructor
    · intro _; omega
    · intro _; rfl

end Kanzi.ROLZ
