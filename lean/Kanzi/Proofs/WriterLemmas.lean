import Kanzi.Model.Writer
import Kanzi.Spec.Stream
/-! Helper lemmas for `Kanzi/Proofs/Writer.lean`: `chunks`, `splice`, `spawn`, `nbTasks`. -/
namespace Kanzi.Writer
open Kanzi.Spec

/-! ### chunks -/

theorem chunks_nil (B : Nat) (hB : 0 < B) : chunks B [] = [] := by
  have h : (0 + B - 1) / B = 0 := by
    apply Nat.div_eq_of_lt; omega
  simp only [chunks, List.length_nil, h, List.range_zero, List.map_nil]

theorem ceil_step (B n : Nat) (hB : 0 < B) (hn : 0 < n) :
    (n + B - 1) / B = ((n - B) + B - 1) / B + 1 := by
  by_cases h : B ≤ n
  · have : n + B - 1 = (n - B + B - 1) + B := by omega
    rw [this, Nat.add_div_right _ hB]
  · have h1 : (n - B + B - 1) / B = 0 := by apply Nat.div_eq_of_lt; omega
    rw [h1]
    have : n + B - 1 = (n - 1) + B := by omega
    rw [this, Nat.add_div_right _ hB]
    have h2 : (n - 1) / B = 0 := by apply Nat.div_eq_of_lt; omega
    omega

theorem chunks_cons (B : Nat) (hB : 0 < B) (l : List Nat) (hl : l ≠ []) :
    chunks B l = l.take B :: chunks B (l.drop B) := by
  have hn : 0 < l.length := List.length_pos_iff.mpr hl
  unfold chunks
  rw [ceil_step B l.length hB hn, List.range_succ_eq_map, List.length_drop]
  simp only [List.map_cons, List.map_map, Nat.zero_mul, List.drop_zero]
  congr 1
  apply List.map_congr_left
  intro k _
  simp only [Function.comp, List.drop_drop, Nat.succ_mul]
  congr 2
  omega

theorem chunks_append_of_dvd (B : Nat) (hB : 0 < B) (a b : List Nat) (h : B ∣ a.length) :
    chunks B (a ++ b) = chunks B a ++ chunks B b := by
  induction hn : a.length using Nat.strongRecOn generalizing a with
  | _ n ih =>
    by_cases ha : a = []
    · subst ha; simp [chunks_nil B hB]
    · have hpos : 0 < a.length := List.length_pos_iff.mpr ha
      have hle : B ≤ a.length := Nat.le_of_dvd hpos h
      have hab : a ++ b ≠ [] := by simp [ha]
      rw [chunks_cons B hB _ hab, chunks_cons B hB a ha, List.take_append_of_le_length hle,
        List.drop_append_of_le_length hle]
      have hd : B ∣ (a.drop B).length := by
        rw [List.length_drop]; exact Nat.dvd_sub h (Nat.dvd_refl B)
      rw [ih (a.drop B).length (by rw [List.length_drop]; omega) (a.drop B) hd rfl]
      rfl

theorem chunks_single (B : Nat) (hB : 0 < B) (l : List Nat) (hl : l ≠ []) (hle : l.length ≤ B) :
    chunks B l = [l] := by
  rw [chunks_cons B hB l hl, List.take_of_length_le hle, List.drop_eq_nil_of_le hle, chunks_nil B hB]

/-! ### splice -/

theorem splice_length (mem : List Nat) (pos : Nat) (src : List Nat) (h : pos + src.length ≤ mem.length) :
    (splice mem pos src).length = mem.length := by
  simp only [splice, List.length_append, List.length_take, List.length_drop]; omega

theorem splice_take (mem : List Nat) (pos : Nat) (src : List Nat) (h : pos ≤ mem.length) :
    (splice mem pos src).take (pos + src.length) = mem.take pos ++ src := by
  have hl : (mem.take pos ++ src).length = pos + src.length := by
    simp only [List.length_append, List.length_take]; omega
  unfold splice
  rw [← hl, List.take_left]

/-! ### spawn -/

/-- `spawn` only touches `available`, `emitted`, `bits` -/
theorem spawn_frame (c : Cfg) (fuel k : Nat) (s : St) :
    spawn c fuel k s = { s with available := (spawn c fuel k s).available,
                                emitted := (spawn c fuel k s).emitted,
                                bits := (spawn c fuel k s).bits } := by
  induction fuel generalizing k s with
  | zero => rfl
  | succ n ih =>
    unfold spawn
    by_cases h : min s.available c.B = 0
    · simp only [h, if_true]
    · simp only [h, if_false]
      rw [ih]

theorem spawn_bits_le (c : Cfg) (fuel k : Nat) (s : St) : s.bits ≤ (spawn c fuel k s).bits := by
  induction fuel generalizing k s with
  | zero => exact Nat.le_refl _
  | succ n ih =>
    unfold spawn
    by_cases h : min s.available c.B = 0
    · simp only [h, if_true]; exact Nat.le_refl _
    · simp only [h, if_false]
      refine Nat.le_trans ?_ (ih _ _)
      exact Nat.le_add_right _ _

theorem spawn_avail_zero (c : Cfg) (_hB : 0 < c.B) (fuel k : Nat) (s : St) (h : s.available = 0) :
    spawn c fuel k s = s := by
  cases fuel with
  | zero => rfl
  | succ n => unfold spawn; simp [h]

theorem spawn_eq (c : Cfg) (hB : 0 < c.B) (fuel k : Nat) (s : St)
    (hf : s.available ≤ fuel * c.B) (hm : k * c.B + s.available ≤ s.mem.length) :
    spawn c fuel k s =
      { s with available := 0,
               emitted := s.emitted ++ chunks c.B ((s.mem.drop (k * c.B)).take s.available),
               bits := s.bits + ((chunks c.B ((s.mem.drop (k * c.B)).take s.available)).map c.frameBits).sum } := by
  induction fuel generalizing k s with
  | zero =>
    have h0 : s.available = 0 := by simpa using hf
    cases s
    simp only at h0
    subst h0
    simp [spawn, chunks_nil c.B hB]
  | succ n ih =>
    by_cases h0 : s.available = 0
    · rw [spawn_avail_zero c hB _ _ _ h0]
      cases s
      simp only at h0
      subst h0
      simp [chunks_nil c.B hB]
    · have hX : ((s.mem.drop (k * c.B)).take s.available) ≠ [] := by
        intro hnil
        have := congrArg List.length hnil
        simp only [List.length_take, List.length_drop, List.length_nil] at this
        omega
      have hsucc : (n + 1) * c.B = n * c.B + c.B := Nat.succ_mul _ _
      have hk : (k + 1) * c.B = k * c.B + c.B := Nat.succ_mul _ _
      unfold spawn
      have h : min s.available c.B ≠ 0 := by omega
      simp only [h, if_false]
      by_cases hle : s.available ≤ c.B
      · have hmin : min s.available c.B = s.available := by omega
        rw [spawn_avail_zero c hB _ _ _ (by simp only; omega)]
        have hlen : ((s.mem.drop (k * c.B)).take s.available).length ≤ c.B := by
          simp only [List.length_take, List.length_drop]; omega
        rw [chunks_single c.B hB _ hX hlen, hmin]
        simp
      · have hmin : min s.available c.B = c.B := by omega
        rw [ih]
        · simp only
          rw [chunks_cons c.B hB _ hX, List.take_take, List.drop_take, List.drop_drop, hk]
          have e2 : min c.B s.available = c.B := by omega
          rw [hmin, e2]
          simp [Nat.add_assoc]
        · simp only; omega
        · simp only [hk]; omega
/-! ### nbTasks -/

theorem le_ceil_mul (a B : Nat) (hB : 0 < B) : a ≤ ((a + B - 1) / B) * B := by
  have h1 := Nat.div_add_mod (a + B - 1) B
  have h2 := Nat.mod_lt (a + B - 1) hB
  rw [Nat.mul_comm] at h1
  omega

theorem ceil_le (a B J : Nat) (hB : 0 < B) (h : a ≤ J * B) : (a + B - 1) / B ≤ J := by
  have : (a + B - 1) / B < J + 1 := by
    rw [Nat.div_lt_iff_lt_mul hB, Nat.succ_mul]; omega
  omega

theorem nbTasks_ge (c : Cfg) (hB : 0 < c.B) (s : St) (h : s.available ≤ c.J * c.B) :
    s.available ≤ nbTasks c s * c.B := by
  unfold nbTasks
  split
  · have h1 := le_ceil_mul s.available c.B hB
    have h2 := ceil_le s.available c.B c.J hB h
    have h3 : (s.available + c.B - 1) / c.B ≤ min c.J (max c.nbIn ((s.available + c.B - 1) / c.B)) := by
      omega
    exact Nat.le_trans h1 (Nat.mul_le_mul_right _ h3)
  · exact h

/-! ### writeHeader / processBlock -/

theorem writeHeader_frame (c : Cfg) (s : St) :
    writeHeader c s = { s with initialized := (writeHeader c s).initialized,
                               headerOut := (writeHeader c s).headerOut,
                               bits := (writeHeader c s).bits } := by
  unfold writeHeader; split <;> rfl

theorem writeHeader_bits_le (c : Cfg) (s : St) : s.bits ≤ (writeHeader c s).bits := by
  unfold writeHeader; split
  · exact Nat.le_refl _
  · exact Nat.le_add_right _ _

theorem spawn_flags (c : Cfg) (fuel k : Nat) (s : St) :
    (spawn c fuel k s).mem = s.mem ∧ (spawn c fuel k s).initialized = s.initialized ∧
    (spawn c fuel k s).closing = s.closing ∧ (spawn c fuel k s).finalized = s.finalized ∧
    (spawn c fuel k s).closed = s.closed ∧ (spawn c fuel k s).failed = s.failed ∧
    (spawn c fuel k s).obsClosed = s.obsClosed ∧ (spawn c fuel k s).closerClosed = s.closerClosed ∧
    (spawn c fuel k s).headerOut = s.headerOut ∧ (spawn c fuel k s).endOut = s.endOut := by
  refine ⟨?_, ?_, ?_, ?_, ?_, ?_, ?_, ?_, ?_, ?_⟩ <;> rw [spawn_frame]

theorem writeHeader_flags (c : Cfg) (s : St) :
    (writeHeader c s).mem = s.mem ∧ (writeHeader c s).available = s.available ∧
    (writeHeader c s).closing = s.closing ∧ (writeHeader c s).finalized = s.finalized ∧
    (writeHeader c s).closed = s.closed ∧ (writeHeader c s).failed = s.failed ∧
    (writeHeader c s).obsClosed = s.obsClosed ∧ (writeHeader c s).closerClosed = s.closerClosed ∧
    (writeHeader c s).emitted = s.emitted ∧ (writeHeader c s).endOut = s.endOut := by
  refine ⟨?_, ?_, ?_, ?_, ?_, ?_, ?_, ?_, ?_, ?_⟩ <;> rw [writeHeader_frame]

/-- everything `processBlock` leaves alone, for arbitrary states -/
theorem processBlock_frame (c : Cfg) (s : St) (fail : Bool) :
    (processBlock c s fail).1.closing = s.closing ∧
    (processBlock c s fail).1.finalized = s.finalized ∧
    (processBlock c s fail).1.closed = s.closed ∧
    (processBlock c s fail).1.obsClosed = s.obsClosed ∧
    (processBlock c s fail).1.closerClosed = s.closerClosed ∧
    (processBlock c s fail).1.endOut = s.endOut ∧
    (processBlock c s fail).1.mem = s.mem ∧
    s.bits ≤ (processBlock c s fail).1.bits ∧
    ((processBlock c s fail).2 ≠ none → (processBlock c s fail).1.failed = true) ∧
    ((processBlock c s fail).2 = none → (processBlock c s fail).1.failed = false) := by
  obtain ⟨w1, w2, w3, w4, w5, w6, w7, w8, w9, w10⟩ := writeHeader_flags c s
  obtain ⟨p1, p2, p3, p4, p5, p6, p7, p8, p9, p10⟩ :=
    spawn_flags c (nbTasks c (writeHeader c s)) 0 (writeHeader c s)
  have hb := Nat.le_trans (writeHeader_bits_le c s)
    (spawn_bits_le c (nbTasks c (writeHeader c s)) 0 (writeHeader c s))
  have hb0 := writeHeader_bits_le c s
  unfold processBlock
  by_cases hf : s.failed = true
  · simp [hf]
  · have hf' : s.failed = false := by simpa using hf
    simp only [hf', Bool.false_eq_true, if_false]
    by_cases h0 : (writeHeader c s).available = 0
    · simp only [h0, if_true]
      simp [*]
    · simp only [h0, if_false]
      cases fail
      · simp only [Bool.false_eq_true, if_false]
        simp [*]
      · simp only [if_true]
        simp [*]

/-- the state after a successful `processBlock` -/
def pbState (c : Cfg) (s : St) : St :=
  { writeHeader c s with
    available := 0,
    emitted := s.emitted ++ chunks c.B (s.mem.take s.available),
    bits := (writeHeader c s).bits + ((chunks c.B (s.mem.take s.available)).map c.frameBits).sum }

theorem processBlock_ok (c : Cfg) (hB : 0 < c.B) (s : St) (hf : s.failed = false)
    (hm : s.mem.length = c.J * c.B) (ha : s.available ≤ c.J * c.B) :
    processBlock c s false = (pbState c s, none) := by
  have hwa : (writeHeader c s).available = s.available := by rw [writeHeader_frame]
  have hwm : (writeHeader c s).mem = s.mem := by rw [writeHeader_frame]
  have hwe : (writeHeader c s).emitted = s.emitted := by rw [writeHeader_frame]
  unfold processBlock pbState
  simp only [hf, Bool.false_eq_true, if_false]
  by_cases h0 : (writeHeader c s).available = 0
  · simp only [h0, if_true]
    have : s.available = 0 := by rw [← hwa]; exact h0
    rw [this]
    generalize writeHeader c s = w at *
    cases w
    simp only at h0 hwe
    subst h0 hwe
    simp [chunks_nil c.B hB]
  · simp only [h0, if_false]
    rw [spawn_eq c hB]
    · simp [hwa, hwm, hwe]
    · apply nbTasks_ge c hB; rw [hwa]; exact ha
    · rw [hwa, hwm]; omega

theorem processBlock_fail (c : Cfg) (s : St) (hf : s.failed = false) (ha : s.available ≠ 0) :
    (processBlock c s true).2 = some Err.task := by
  have hwa : (writeHeader c s).available = s.available := by rw [writeHeader_frame]
  unfold processBlock
  simp [hf, hwa, ha]

theorem processBlock_none (c : Cfg) (hB : 0 < c.B) (s : St) (fail : Bool) (hf : s.failed = false)
    (hm : s.mem.length = c.J * c.B) (ha : s.available ≤ c.J * c.B)
    (hn : (processBlock c s fail).2 = none) : (processBlock c s fail).1 = pbState c s := by
  cases fail
  · rw [processBlock_ok c hB s hf hm ha]
  · by_cases h0 : s.available = 0
    · have hwa : (writeHeader c s).available = s.available := (writeHeader_flags c s).2.1
      have : processBlock c s true = processBlock c s false := by
        unfold processBlock
        simp [hf, hwa, h0]
      rw [this, processBlock_ok c hB s hf hm ha]
    · rw [processBlock_fail c s hf h0] at hn
      cases hn

theorem pbState_closing (c : Cfg) (s : St) :
    pbState c { s with closing := true } = { pbState c s with closing := true } := by
  unfold pbState writeHeader
  split <;> rfl

/-! ### writeLoop: monotone bits, frame -/

theorem writeLoop_bits_le (c : Cfg) (flt : Fault) (fuel : Nat) (rest : List Nat) (done batch : Nat) (s : St) :
    s.bits ≤ (writeLoop c flt fuel rest done batch s).1.bits := by
  induction fuel generalizing rest done batch s with
  | zero => simp [writeLoop]
  | succ n ih =>
    rw [writeLoop]
    by_cases h : rest.length = 0
    · simp [h]
    · simp only [h, if_false]
      split
      · split
        · refine Nat.le_trans ?_ (ih _ _ _ _); exact Nat.le_refl _
        · split
          · refine Nat.le_trans ?_ (processBlock_frame c _ _).2.2.2.2.2.2.2.1; exact Nat.le_refl _
          · refine Nat.le_trans ?_ (ih _ _ _ _)
            refine Nat.le_trans ?_ (processBlock_frame c _ _).2.2.2.2.2.2.2.1; exact Nat.le_refl _
      · refine Nat.le_trans ?_ (ih _ _ _ _); exact Nat.le_refl _

/-! ### Close, cut into its two phases -/

/-- phase 1 of `Close`: flush the buffered blocks, write the end marker (once) -/
def closeP1 (c : Cfg) (s : St) (flt : Fault) : St × Option Err :=
  if s.finalized then (s, none)
  else if s.closing then (s, some .closed)
  else
    let r := processBlock c { s with closing := true } (flt = .task 0)
    match r.2 with
    | some e => ({ r.1 with closing := false }, some e)
    | none =>
      if flt = .endMarker then ({ r.1 with closing := false, failed := true }, some .io)
      else ({ r.1 with finalized := true, endOut := true, bits := r.1.bits + 8 }, none)

/-- phase 2 of `Close`: obs.Close() (retryable), closer, closed -/
def closeP2 (s1 : St) (flt : Fault) : St × Option Err :=
  if ¬ s1.obsClosed ∧ flt = .finalFlush then (s1, some .io)
  else
    let s2 := { s1 with obsClosed := true }
    if ¬ s2.closerClosed ∧ flt = .closer then (s2, some .io)
    else ({ s2 with closerClosed := true, closed := true }, none)

theorem close_eq (c : Cfg) (s : St) (flt : Fault) :
    close c s flt =
      if s.closed then (s, none)
      else match (closeP1 c s flt).2 with
        | some e => ((closeP1 c s flt).1, some e)
        | none => closeP2 (closeP1 c s flt).1 flt := rfl

/-- phase 1 on arbitrary states -/
theorem closeP1_frame (c : Cfg) (s : St) (flt : Fault) :
    (closeP1 c s flt).1.obsClosed = s.obsClosed ∧
    (closeP1 c s flt).1.closerClosed = s.closerClosed ∧
    (closeP1 c s flt).1.closed = s.closed ∧
    s.bits ≤ (closeP1 c s flt).1.bits ∧
    ((closeP1 c s flt).2 ≠ none → (closeP1 c s flt).1.finalized = s.finalized ∧
        (s.failed = true → (closeP1 c s flt).1.failed = true)) ∧
    ((closeP1 c s flt).2 = none → s.finalized = false → (s.failed = false ∧ flt ≠ .endMarker)) := by
  unfold closeP1
  by_cases hfin : s.finalized = true
  · simp [hfin]
  · have hfin' : s.finalized = false := by simpa using hfin
    rw [if_neg hfin]
    by_cases hcl : s.closing = true
    · simp [hcl, hfin']
    · rw [if_neg hcl]
      have hfs : s.failed = true →
          (processBlock c { s with closing := true } (flt = .task 0)).2 = some Err.failedState := by
        intro hs; unfold processBlock; simp [hs]
      obtain ⟨f1, f2, f3, f4, f5, f6, f7, f8, f9, f10⟩ :=
        processBlock_frame c { s with closing := true } (flt = .task 0)
      simp only at f1 f2 f3 f4 f5 f6 f7 f8 f9 f10
      generalize processBlock c { s with closing := true } (flt = .task 0) = r at *
      obtain ⟨r1, r2⟩ := r
      simp only at f1 f2 f3 f4 f5 f6 f7 f8 f9 f10 hfs
      cases r2 with
      | some e =>
        have := f9 (by simp)
        simp [*]
      | none =>
        have hnf := f10 rfl
        have hsf : s.failed = false := by
          cases hs : s.failed with
          | false => rfl
          | true => have := hfs hs; cases this
        by_cases hem : flt = .endMarker
        · simp [*]
        · simp only [hem, if_false]
          simp [*]
          omega

theorem closeP2_frame (s1 : St) (flt : Fault) :
    (closeP2 s1 flt).1 = { s1 with obsClosed := (closeP2 s1 flt).1.obsClosed,
                                   closerClosed := (closeP2 s1 flt).1.closerClosed,
                                   closed := (closeP2 s1 flt).1.closed } := by
  unfold closeP2
  split
  · rfl
  · simp only []; split <;> rfl

theorem closeP2_result (s1 : St) (flt : Fault) (hc : s1.closed = false) :
    ((closeP2 s1 flt).2 = none → (closeP2 s1 flt).1.closed = true ∧
        (flt = .finalFlush → s1.obsClosed = true) ∧ (flt = .closer → s1.closerClosed = true)) ∧
    ((closeP2 s1 flt).2 ≠ none → (closeP2 s1 flt).1.closed = false) ∧
    (flt = .none → (closeP2 s1 flt).2 = none) := by
  unfold closeP2
  by_cases h1 : ¬ s1.obsClosed = true ∧ flt = .finalFlush
  · simp [h1, hc]
  · simp only [h1, if_false]
    by_cases h2 : ¬ s1.closerClosed = true ∧ flt = .closer
    · simp [h2, hc]
    · simp only [h2, if_false]
      simp
      constructor
      · intro h; subst h; simpa using h1
      · intro h; subst h; simpa using h2

end Kanzi.Writer
